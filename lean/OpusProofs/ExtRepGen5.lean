import OpusProofs.ExtRepGen4
import OpusProofs.ExtRepIter6
/-
  C16 helper lemmas, part 22: the generator writes `serAll` of the queues.
-/
set_option linter.unusedVariables false
namespace Opus.ExtProofs
open Opus Opus.Ext

theorem seg_mem_ne {exts : Array Ext} {lo j hi g : Nat} {e : Ext} (h1 : lo ≤ j) (h2 : j < hi) (he : exts[j]? = some e)
    (hf : e.frame.toNat = g) : seg exts lo hi g = seg exts lo j g ++ e :: seg exts (j + 1) hi g := by
  rw [seg_split exts g h1 (by omega : j ≤ hi), seg_step exts j hi g e h2 he]
  simp [hf]

/-- Two indices of frame `g` with the same number of frame-`g` extensions before them are equal. -/
theorem seg_pos_inj {exts : Array Ext} {lo j1 j2 g : Nat} {e1 e2 : Ext} (h1 : lo ≤ j1) (h2 : lo ≤ j2)
    (he1 : exts[j1]? = some e1) (he2 : exts[j2]? = some e2) (hf1 : e1.frame.toNat = g) (hf2 : e2.frame.toNat = g)
    (hlen : (seg exts lo j1 g).length = (seg exts lo j2 g).length) : j1 = j2 := by
  apply Decidable.byContradiction; intro hne
  rcases Nat.lt_or_gt_of_ne hne with h | h
  · have := seg_mem_ne (hi := j2) h1 h he1 hf1
    rw [this] at hlen; simp at hlen
  · have := seg_mem_ne (hi := j1) h2 h he2 hf2
    rw [this] at hlen; simp at hlen

theorem takeTotal_eq (R : Nat) : ∀ (rs : List (List Ext)), (∀ r ∈ rs, R ≤ r.length) → takeTotal R rs = R * rs.length := by
  intro rs
  induction rs with
  | nil => intro _; simp [takeTotal]
  | cons r rs ih =>
    intro h
    have h1 := h r (List.mem_cons_self ..)
    have := ih (fun x hx => h x (List.mem_cons_of_mem _ hx))
    simp only [takeTotal, List.map_cons, List.sum_cons, List.length_take, List.length_cons] at this ⊢
    rw [Nat.mul_add]; omega

theorem total_remsFrom_succ (exts : Array Ext) (mx idx : List Nat) {nbF g : Nat} (h : g < nbF) :
    total (remsFrom exts mx idx nbF g) = (remQ exts mx idx g).length + total (remsFrom exts mx idx nbF (g + 1)) := by
  rw [remsFrom_succ exts mx idx h, total_cons]

/-- State of the generator when it starts with frame `f`. -/
structure FInv (exts : Array Ext) (mx : List Nat) (nbF f : Nat) (s : GSt) : Prop where
  lmin : s.minIdx.length = nbF
  lrep : s.repIdx.length = nbF
  eq : ∀ g, f ≤ g → g < nbF → s.repIdx.getD g 0 = s.minIdx.getD g 0
  clean : ∀ g, f ≤ g → g < nbF → Clean exts mx (s.minIdx.getD g 0) g
  bound : ∀ g, f ≤ g → g < nbF → s.minIdx.getD g 0 ≤ exts.size
  cur : s.currFrame ≤ f

theorem remQ_mem {exts : Array Ext} {mx idx : List Nat} {g : Nat} {nbF : Nat} (hv : AllIF exts nbF) (hD : ExtsOk exts) {e : Ext}
    (he : e ∈ remQ exts mx idx g) : IFExt nbF e ∧ DataOk e ∧ e.frame.toNat = g := by
  unfold remQ seg at he
  rw [List.mem_filter] at he
  obtain ⟨j, hj⟩ := List.mem_iff_getElem?.mp (List.mem_of_mem_take he.1)
  rw [List.getElem?_drop] at hj
  exact ⟨hv _ e (by simpa using hj), hD _ e (by simpa using hj), by simpa using he.2⟩

theorem remsFrom_getElem {exts : Array Ext} {mx idx : List Nat} {nbF g0 i : Nat} {r : List Ext}
    (h : (remsFrom exts mx idx nbF g0)[i]? = some r) : r = remQ exts mx idx (g0 + i) ∧ g0 + i < nbF := by
  unfold remsFrom at h
  rw [List.getElem?_map] at h
  cases hr : (List.range' g0 (nbF - g0))[i]? with
  | none => rw [hr] at h; cases h
  | some g =>
    rw [hr] at h; simp only [Option.map_some, Option.some.injEq] at h
    have hlt : i < (List.range' g0 (nbF - g0)).length := by
      apply Decidable.byContradiction; intro hc
      rw [List.getElem?_eq_none (by omega)] at hr; cases hr
    rw [List.getElem?_eq_getElem hlt, List.getElem_range'] at hr
    simp only [Option.some.injEq] at hr
    simp only [List.length_range'] at hlt
    subst h
    exact ⟨by rw [← hr]; simp, by omega⟩

section
variable {exts : Array Ext} {nbF : Nat} {mx : List Nat}

/-- The frame loop of `opus_packet_extensions_generate()`, both outcomes: with admissible lengths everywhere it emits
    the specified bytes; with an inadmissible length somewhere in what is still to be written it returns `OPUS_BAD_ARG`. -/
theorem wFramesLoop_gen (hv : AllIF exts nbF) (hD : ExtsOk exts) (hnf : nbF ≤ 48) (hmxl : mx.length = nbF)
    (hmx : ∀ g, g < nbF → mx.getD g 0 ≤ exts.size)
    (hlastp : ∀ g, g < nbF → mx.getD g 0 = 0 ∨ ∃ e, exts[mx.getD g 0 - 1]? = some e ∧ e.frame.toNat = g)
    (f : Nat) (s : GSt) :
    FInv exts mx nbF f s → s.written + total (remsFrom exts mx s.minIdx nbF f) = exts.size →
    ((∀ g, f ≤ g → g < nbF → ∀ x ∈ remQ exts mx s.minIdx g, LenOk x) →
      ∃ sF, (wFramesLoop exts nbF mx f s).res = .ok sF ∧ sF.written = exts.size ∧
        content false (wFramesLoop exts nbF mx f s).ops = serAll exts.size (remsFrom exts mx s.minIdx nbF f) s.currFrame s.written) ∧
    ((∃ g, f ≤ g ∧ g < nbF ∧ ∃ x ∈ remQ exts mx s.minIdx g, ¬ LenOk x) →
      (wFramesLoop exts nbF mx f s).res = .err .badArg) := by
  fun_induction wFramesLoop exts nbF mx f s with
  | case1 f s hlt ih =>
    intro hI hcount
    rw [rdN_getD (by rw [hI.lmin]; exact hlt), W.lift_ok_bind, rdN_getD (by rw [hmxl]; exact hlt), W.lift_ok_bind]
    simp only
    rw [total_remsFrom_succ exts mx s.minIdx hlt] at hcount
    rw [remsFrom_succ exts mx s.minIdx hlt, serAll_cons]
    have hlaterrep : remsFrom exts mx s.repIdx nbF (f + 1) = remsFrom exts mx s.minIdx nbF (f + 1) := by
      have := remsFrom_congr (exts := exts) (mx := mx) (rep := s.minIdx) (rep' := s.repIdx) (nbF := nbF) (g0 := f + 1) id
        (fun g h1 h2 => by unfold remQ; rw [hI.eq g (by omega) h2]; rfl)
      simpa using this
    have hlen_later : (remsFrom exts mx s.minIdx nbF (f + 1)).length = nbF - (f + 1) := remsFrom_length _ _ _ _ _
    have hfr : ∀ e ∈ remQ exts mx s.minIdx f, e.frame.toNat = f := fun e he => (remQ_mem hv hD he).2.2
    have hvalid : (∀ x ∈ remQ exts mx s.minIdx f, LenOk x) → ∀ e ∈ remQ exts mx s.minIdx f, ValidExt nbF e := fun hL e he =>
      validExt_of (remQ_mem hv hD he).1 (hL e he) (remQ_mem hv hD he).2.1
    -- the repeat detection
    have hdet : ∃ det, (if f + 1 < nbF then detectLoop exts mx nbF f (s.minIdx.getD f 0) (mx.getD f 0)
          { rep := s.repIdx, repeatCount := 0, lastLong := none } else Res.ok { rep := s.repIdx, repeatCount := 0, lastLong := none }) = .ok det ∧
        DetSpec exts mx nbF f (s.minIdx.getD f 0) (mx.getD f 0) { rep := s.repIdx, repeatCount := 0, lastLong := none } det
          (blockR (remQ exts mx s.minIdx f) (remsFrom exts mx s.minIdx nbF (f + 1)))
          ((remQ exts mx s.minIdx f).take (blockR (remQ exts mx s.minIdx f) (remsFrom exts mx s.minIdx nbF (f + 1)))) := by
      by_cases hf1 : f + 1 < nbF
      · simp only [hf1, if_true]
        obtain ⟨det, h1, h2⟩ := detectLoop_spec hv hmxl hmx f hf1 (s.minIdx.getD f 0) (mx.getD f 0)
          { rep := s.repIdx, repeatCount := 0, lastLong := none } (hmx f hlt) hI.lrep
          (fun g h1 h2 => by simp only; rw [hI.eq g (by omega) h2]; exact hI.clean g (by omega) h2)
        simp only [hlaterrep] at h2
        have hbr : blockR (remQ exts mx s.minIdx f) (remsFrom exts mx s.minIdx nbF (f + 1)) =
            repCount (remQ exts mx s.minIdx f) (remsFrom exts mx s.minIdx nbF (f + 1)) := by
          unfold blockR
          have : remsFrom exts mx s.minIdx nbF (f + 1) ≠ [] := by
            intro h; have := congrArg List.length h; rw [hlen_later] at this; simp at this; omega
          simp [this]
        rw [hbr]
        exact ⟨det, h1, h2⟩
      · simp only [hf1, if_false]
        have hl0 : remsFrom exts mx s.minIdx nbF (f + 1) = [] := remsFrom_end _ _ _ (by omega)
        have hbr : blockR (remQ exts mx s.minIdx f) (remsFrom exts mx s.minIdx nbF (f + 1)) = 0 := by simp [blockR, hl0]
        rw [hbr]
        exact ⟨_, rfl, ⟨rfl, hI.lrep, fun _ _ => rfl, fun g h1 h2 => by omega, fun _ => ⟨rfl, rfl⟩, fun h => by omega, by simp [lastLongPos]⟩⟩
    obtain ⟨det, hdeq, hspec⟩ := hdet
    rw [hdeq, W.lift_ok_bind]
    generalize hRdef : blockR (remQ exts mx s.minIdx f) (remsFrom exts mx s.minIdx nbF (f + 1)) = R at hspec ⊢
    generalize hlastdef : blockLast exts.size (remQ exts mx s.minIdx f) (remsFrom exts mx s.minIdx nbF (f + 1)) s.written = last
    have hcnt : det.repeatCount = R := by have := hspec.cnt; simp only at this; omega
    by_cases hR0 : R = 0
    · -- nothing repeated
      subst hR0
      obtain ⟨hz1, hz2⟩ := hspec.zero rfl
      simp only at hz1 hz2
      have hst : ({ written := s.written, currFrame := s.currFrame, minIdx := s.minIdx, repIdx := det.rep } : GSt) = s := by rw [hz1]
      rw [hst]
      have hrq : seg exts (s.minIdx.getD f 0) (mx.getD f 0) f = remQ exts mx s.minIdx f := rfl
      have hI' : FInv exts mx nbF (f + 1) { s with written := s.written + (remQ exts mx s.minIdx f).length, currFrame := lastFrame s.currFrame (remQ exts mx s.minIdx f) } := by
        refine ⟨hI.lmin, hI.lrep, fun g h1 h2 => hI.eq g (by omega) h2, fun g h1 h2 => hI.clean g (by omega) h2,
          fun g h1 h2 => hI.bound g (by omega) h2, ?_⟩
        simp only
        rw [lastFrame_same _ _ hfr]
        have := hI.cur
        split <;> omega
      have hih := ih _ hI' (by simp only; omega)
      constructor
      · intro hL
        rw [wFrameLoop_plain hv f det _ _ s (hmx f hlt) (hL f (Nat.le_refl _) hlt) (fun i' _ _ h => by omega)]
        rw [W.bind_of_ok _ rfl]
        simp only
        simp only [hrq]
        obtain ⟨sF, h1, h2, h3⟩ := hih.1 (fun g h1 h2 => hL g (by omega) h2)
        refine ⟨sF, h1, h2, ?_⟩
        rw [content_append, h3, serOps_contentW hnf exts.size _ _ _ (hvalid (hL f (Nat.le_refl _) hlt))
          (frameSorted_const hI.cur hfr).1]
        simp only [List.take_zero, List.drop_zero, serW, List.nil_append, Nat.lt_irrefl, if_false, false_and, repBlock_zero,
          curAfter, lastFrame, Nat.add_zero, Nat.zero_mul, map_drop_zero, List.append_nil]
      · rintro ⟨g, hg1, hg2, x, hx, hxb⟩
        by_cases hc : ∀ x ∈ seg exts (s.minIdx.getD f 0) (mx.getD f 0) f, LenOk x
        · rw [wFrameLoop_plain hv f det _ _ s (hmx f hlt) hc (fun i' _ _ h => by omega)]
          rw [W.bind_of_ok _ rfl]
          simp only
          simp only [hrq]
          apply hih.2
          by_cases hgf : g = f
          · subst hgf; exact absurd (hc x hx) hxb
          · exact ⟨g, by omega, hg2, x, hx, hxb⟩
        · have hb : ∃ x ∈ seg exts (s.minIdx.getD f 0) (mx.getD f 0) f, ¬ LenOk x := by
            apply Classical.byContradiction; intro hn; apply hc
            intro x hx; apply Decidable.byContradiction; intro hxx; exact hn ⟨x, hx, hxx⟩
          exact W.bind_of_err _ (wFrameLoop_plain_bad hv f det _ _ s (hmx f hlt) hb (fun i' _ _ h => by omega))
    · -- a repeat block
      have hRpos : 0 < R := by omega
      obtain ⟨hlne, hRc⟩ := blockR_pos (hRdef ▸ hRpos)
      rw [hRdef] at hRc
      obtain ⟨hRa, hRl⟩ := repCount_spec (remQ exts mx s.minIdx f) (remsFrom exts mx s.minIdx nbF (f + 1))
      rw [← hRc] at hRa hRl
      have hf1 : f + 1 < nbF := by
        have : 0 < (remsFrom exts mx s.minIdx nbF (f + 1)).length := List.length_pos_iff.mpr hlne
        rw [hlen_later] at this; omega
      obtain ⟨p1, p2, ⟨eR, heR, hfR⟩, p4⟩ := hspec.pos hRpos
      generalize hiRdef : det.rep.getD f 0 = iR at p1 p2 heR p4
      have hrq : seg exts (s.minIdx.getD f 0) (mx.getD f 0) f = remQ exts mx s.minIdx f := rfl
      -- the repeated prefix and the rest, as index ranges
      have hsplit := seg_split exts f (show s.minIdx.getD f 0 ≤ iR + 1 by omega) (show iR + 1 ≤ mx.getD f 0 by omega)
      have hprelen : (seg exts (s.minIdx.getD f 0) (iR + 1) f).length = R := by
        rw [seg_mem_ne (hi := iR + 1) p1 (by omega) heR hfR, seg_empty exts f (Nat.le_refl _)]
        simp only [List.length_append, List.length_cons, List.length_nil]; omega
      have hpre : (remQ exts mx s.minIdx f).take R = seg exts (s.minIdx.getD f 0) (iR + 1) f := by
        rw [← hrq, hsplit, List.take_left' hprelen]
      have hpostq : (remQ exts mx s.minIdx f).drop R = seg exts (iR + 1) (mx.getD f 0) f := by
        rw [← hrq, hsplit, List.drop_left' hprelen]
      have hlaterlen : (remsFrom exts mx s.minIdx nbF (f + 1)).length = nbF - (f + 1) := hlen_later
      have htot := total_map_drop R (remsFrom exts mx s.minIdx nbF (f + 1)) (fun r hr => (hRl r hr).1)
      have htake := takeTotal_eq R (remsFrom exts mx s.minIdx nbF (f + 1)) (fun r hr => (hRl r hr).1)
      have hpostlen : ((remQ exts mx s.minIdx f).drop R).length = (remQ exts mx s.minIdx f).length - R := by simp
      -- `last_long_idx`
      have hll := hspec.ll
      simp only at hll
      have hllnone : det.lastLong = none ↔ lastLongPos ((remQ exts mx s.minIdx f).take R) = none := by
        cases hlp : lastLongPos ((remQ exts mx s.minIdx f).take R) with
        | none => rw [hlp] at hll; simp only at hll; rw [hll]
        | some k => rw [hlp] at hll; obtain ⟨jL, hj, _⟩ := hll; rw [hj]; simp
      -- `last`
      have hpostempty : (remQ exts mx s.minIdx f).drop R = [] ↔ mx.getD f 0 ≤ iR + 1 := by
        rw [hpostq]
        constructor
        · intro h
          apply Decidable.byContradiction; intro hc
          rcases hlastp f hlt with h0 | ⟨e, he, hfe⟩
          · omega
          · have := seg_mem_ne (lo := iR + 1) (j := mx.getD f 0 - 1) (hi := mx.getD f 0) (g := f) (by omega) (by omega) he hfe
            rw [h] at this
            have := congrArg List.length this; simp at this
        · intro h; exact seg_empty exts f h
      have hlast_iff : last = true ↔ (s.written + R + det.repeatCount * (nbF - (f + 1)) = exts.size ∨
          (det.lastLong = none ∧ mx.getD f 0 ≤ iR + 1)) := by
        rw [← hlastdef]; unfold blockLast
        simp only [hRdef, Bool.or_eq_true, decide_eq_true_eq, Bool.and_eq_true, List.isEmpty_iff]
        rw [hlaterlen, hcnt, hllnone, hpostempty]
      have hlastV : last = decide (s.written + R + det.repeatCount * (nbF - (f + 1)) = exts.size ∨
          (det.lastLong = none ∧ mx.getD f 0 ≤ iR + 1)) := by
        cases hl : last with
        | true => symm; rw [decide_eq_true_eq]; exact hlast_iff.mp hl
        | false => symm; rw [decide_eq_false_iff_not]; intro h; have := hlast_iff.mpr h; rw [hl] at this; cases this
      have hpost0 : last = true → seg exts (iR + 1) (mx.getD f 0) f = [] := by
        intro hl
        rcases hlast_iff.mp hl with h | h
        · rw [← hpostq]; apply List.eq_nil_of_length_eq_zero
          rw [hcnt, ← hlaterlen] at h
          rw [hpostlen]; omega
        · exact seg_empty exts f h.2
      -- the queues of the later frames, seen through `det.rep`
      have hup := hspec.upper
      simp only at hup
      have hremq_rep : ∀ g, f + 1 ≤ g → g < nbF → remQ exts mx s.repIdx g = remQ exts mx s.minIdx g := by
        intro g h1 h2; unfold remQ; rw [hI.eq g (by omega) h2]
      have hsegall : ∀ g, f + 1 ≤ g → g < nbF → s.minIdx.getD g 0 ≤ det.rep.getD g 0 ∧ det.rep.getD g 0 ≤ exts.size ∧
          seg exts (s.minIdx.getD g 0) (det.rep.getD g 0) g = (remQ exts mx s.minIdx g).take det.repeatCount := by
        intro g h1 h2
        obtain ⟨u1, u2, u3, u4, u5⟩ := hup g (by omega) h2
        have hb := hI.bound g (by omega) h2
        have hm := hmx g h2
        rw [hI.eq g (by omega) h2] at u2 u3 u5
        rw [hremq_rep g h1 h2] at u5
        rw [hcnt]
        exact ⟨u2, by omega, u5⟩
      have hstep := fun (hL1 : ∀ x ∈ seg exts (s.minIdx.getD f 0) (mx.getD f 0) f, LenOk x)
          (hL2 : ∀ g', f + 1 ≤ g' → g' < nbF → ∀ x ∈ seg exts (s.minIdx.getD g' 0) (det.rep.getD g' 0) g', LenOk x) =>
        wFrameLoop_rep hv hD hnf mx f hf1 det (by omega) iR (mx.getD f 0) p2 (hmx f hlt)
        eR heR hfR (s.written + R) (lastLongPos ((remQ exts mx s.minIdx f).take R)) det.rep hspec.len hiRdef last hlastV hpost0
        (s.minIdx.getD f 0) { s with repIdx := det.rep } p1 rfl hI.lmin (by simp only; omega) hI.cur hL1 hL2
        hsegall
        (fun g j' e h1 h2 he hfe hcon => by
          cases hlp : lastLongPos ((remQ exts mx s.minIdx f).take R) with
          | none => rw [hlp] at hll; simp only at hll; rw [hll] at hcon; cases hcon.2
          | some k =>
            rw [hlp] at hll
            obtain ⟨jL, hj, ⟨eL, heL, hfL⟩, _⟩ := hll
            rw [hj] at hcon
            have : jL = j' := by simpa using hcon.2
            subst this; rw [heL] at he; cases he; omega)
        (fun j' e h1 h2 h3 he hfe => by
          cases hlp : lastLongPos ((remQ exts mx s.minIdx f).take R) with
          | none =>
            rw [hlp] at hll; simp only at hll; rw [hll]
            constructor
            · intro h; cases h.2
            · intro h; split at h <;> cases h
          | some k =>
            rw [hlp] at hll
            obtain ⟨jL, hj, ⟨eL, heL, hfL⟩, j3, j4, j5⟩ := hll
            try simp only at j3 j5
            rw [hI.eq (nbF - 1) (by omega) (by omega)] at j3 j5
            rw [hj]
            constructor
            · rintro ⟨hl, hjj⟩
              have : jL = j' := by simpa using hjj
              subst this
              simp only [hl, if_true, Option.some.injEq, Nat.zero_add]
              first | exact ⟨rfl, j5.symm⟩ | exact j5.symm
            · intro h
              by_cases hl : last = true
              · simp only [hl, if_true, Option.some.injEq, Nat.zero_add] at h
                refine ⟨hl, ?_⟩
                congr 1
                exact seg_pos_inj j3 h2 heL he hfL hfe (by omega)
              · simp only [hl, if_false] at h; cases h)
      -- the state after the frame
      have hnext : ∀ sF : GSt, sF.repIdx = det.rep → sF.minIdx.length = nbF →
          (∀ g', f + 1 ≤ g' → g' < nbF → sF.minIdx.getD g' 0 = det.rep.getD g' 0) →
          sF.written = s.written + R + R * (remsFrom exts mx s.minIdx nbF (f + 1)).length +
            (seg exts (iR + 1) (mx.getD f 0) f).length →
          sF.currFrame = lastFrame (if last then f + 1 else f) (seg exts (iR + 1) (mx.getD f 0) f) →
          (∀ g, f + 1 ≤ g → g < nbF → remQ exts mx sF.minIdx g = (remQ exts mx s.minIdx g).drop R) ∧
          remsFrom exts mx sF.minIdx nbF (f + 1) = (remsFrom exts mx s.minIdx nbF (f + 1)).map (List.drop R) ∧
          FInv exts mx nbF (f + 1) sF ∧
          sF.written + total (remsFrom exts mx sF.minIdx nbF (f + 1)) = exts.size := by
        intro sF r2 r3 r5 r6 r7
        have hq : ∀ g, f + 1 ≤ g → g < nbF → remQ exts mx sF.minIdx g = (remQ exts mx s.minIdx g).drop R := by
          intro g h1 h2
          obtain ⟨u1, u2, u3, u4, u5⟩ := hup g (by omega) h2
          unfold remQ at u4 ⊢
          rw [r5 g h1 h2, u4, hI.eq g (by omega) h2]
        have hremsF : remsFrom exts mx sF.minIdx nbF (f + 1) = (remsFrom exts mx s.minIdx nbF (f + 1)).map (List.drop R) :=
          remsFrom_congr (List.drop R) hq
        have hI' : FInv exts mx nbF (f + 1) sF := by
          refine ⟨r3, by rw [r2]; exact hspec.len, fun g h1 h2 => by rw [r2, r5 g h1 h2],
            fun g h1 h2 => by rw [r5 g h1 h2]; exact (hup g (by omega) h2).1,
            fun g h1 h2 => by
              rw [r5 g h1 h2]
              obtain ⟨u1, u2, u3, u4, u5⟩ := hup g (by omega) h2
              have hb := hI.bound g (by omega) h2
              have hm := hmx g h2
              rw [hI.eq g (by omega) h2] at u3; omega, ?_⟩
          rw [r7]
          have hpv : ∀ e ∈ seg exts (iR + 1) (mx.getD f 0) f, e.frame.toNat = f := by
            intro e he; rw [← hpostq] at he; exact hfr e (List.mem_of_mem_drop he)
          rw [lastFrame_same _ _ hpv]
          (repeat' split) <;> omega
        exact ⟨hq, hremsF, hI', by rw [hremsF, r6, ← hpostq, hpostlen]; omega⟩
      constructor
      · intro hL
        obtain ⟨sF, r1, r2, r3, r4, r5, r6, r7, r8⟩ := hstep (hL f (Nat.le_refl _) hlt)
          (fun g' h1 h2 x hx => hL g' (by omega) h2 x (by
            rw [(hsegall g' h1 h2).2.2] at hx; exact List.mem_of_mem_take hx))
        simp only at r4 r5 r6 r8
        rw [hcnt] at r6 r8
        rw [htake] at r6 r8
        obtain ⟨hq, hremsF, hI', hcount'⟩ := hnext sF r2 r3 r5 r6 r7
        obtain ⟨sG, g1, g2, g3⟩ := (ih sF hI' hcount').1 (fun g h1 h2 x hx => hL g (by omega) h2 x (by
          rw [hq g h1 h2] at hx; exact List.mem_of_mem_drop hx))
        rw [W.bind_of_ok _ r1]
        refine ⟨sG, g1, g2, ?_⟩
        rw [content_append, r8, g3, hremsF, r6, r7]
        have hcur1 : lastFrame s.currFrame ((remQ exts mx s.minIdx f).take R) = f := by
          rw [lastFrame_same _ _ (fun e he => hfr e (List.mem_of_mem_take he))]
          have : (remQ exts mx s.minIdx f).take R ≠ [] := by
            intro h; have := congrArg List.length h; rw [hpre, hprelen] at this; simp at this; omega
          simp [this]
        simp only [hRpos, if_true, true_and, hpostq, curAfter, hlaterlen, List.append_assoc]
        rw [← hpre, hcur1]
      · rintro ⟨g, hg1, hg2, x, hx, hxb⟩
        by_cases hc : (∀ x ∈ seg exts (s.minIdx.getD f 0) (mx.getD f 0) f, LenOk x) ∧
            (∀ g', f + 1 ≤ g' → g' < nbF → ∀ x ∈ seg exts (s.minIdx.getD g' 0) (det.rep.getD g' 0) g', LenOk x)
        · obtain ⟨sF, r1, r2, r3, r4, r5, r6, r7, r8⟩ := hstep hc.1 hc.2
          simp only at r4 r5 r6 r8
          rw [hcnt] at r6 r8
          rw [htake] at r6 r8
          obtain ⟨hq, hremsF, hI', hcount'⟩ := hnext sF r2 r3 r5 r6 r7
          rw [W.bind_of_ok _ r1]
          apply (ih sF hI' hcount').2
          by_cases hgf : g = f
          · subst hgf; exact absurd (hc.1 x hx) hxb
          · refine ⟨g, by omega, hg2, x, ?_, hxb⟩
            rw [hq g (by omega) hg2]
            rw [← List.take_append_drop R (remQ exts mx s.minIdx g)] at hx
            rcases List.mem_append.mp hx with h | h
            · exfalso; apply hxb; apply hc.2 g (by omega) hg2
              rw [(hsegall g (by omega) hg2).2.2, hcnt]; exact h
            · exact h
        · have hb : (∃ x ∈ seg exts (s.minIdx.getD f 0) (mx.getD f 0) f, ¬ LenOk x) ∨
              (∃ g', f + 1 ≤ g' ∧ g' < nbF ∧ ∃ x ∈ seg exts (s.minIdx.getD g' 0) (det.rep.getD g' 0) g', ¬ LenOk x) := by
            apply Classical.byContradiction; intro hn; apply hc; constructor
            · intro x hx; apply Decidable.byContradiction; intro hxx; exact hn (Or.inl ⟨x, hx, hxx⟩)
            · intro g' h1 h2 x hx; apply Decidable.byContradiction; intro hxx; exact hn (Or.inr ⟨g', h1, h2, x, hx, hxx⟩)
          exact W.bind_of_err _ (wFrameLoop_rep_bad hv f det (by omega) iR (mx.getD f 0) p2 (hmx f hlt) eR heR hfR
            det.rep hspec.len (by omega) hiRdef (s.minIdx.getD f 0) { s with repIdx := det.rep } p1 rfl hI.lmin
            (fun g' h1 h2 => (hsegall g' h1 h2).2.1) hb)
  | case2 f s hge =>
    intro hI hcount
    constructor
    · intro _
      rw [remsFrom_end exts mx s.minIdx (by omega)] at hcount ⊢
      refine ⟨s, rfl, by simpa [total] using hcount, ?_⟩
      rw [serAll]; rfl
    · rintro ⟨g, hg1, hg2, _⟩; omega

/-- With admissible lengths everywhere, the frame loop emits exactly `serAll` of the per-frame queues. -/
theorem wFramesLoop_spec (hv : AllIF exts nbF) (hD : ExtsOk exts) (hnf : nbF ≤ 48) (hmxl : mx.length = nbF)
    (hmx : ∀ g, g < nbF → mx.getD g 0 ≤ exts.size)
    (hlastp : ∀ g, g < nbF → mx.getD g 0 = 0 ∨ ∃ e, exts[mx.getD g 0 - 1]? = some e ∧ e.frame.toNat = g)
    (f : Nat) (s : GSt) (hI : FInv exts mx nbF f s) (hc : s.written + total (remsFrom exts mx s.minIdx nbF f) = exts.size)
    (hL : ∀ g, f ≤ g → g < nbF → ∀ x ∈ remQ exts mx s.minIdx g, LenOk x) :
    ∃ sF, (wFramesLoop exts nbF mx f s).res = .ok sF ∧ sF.written = exts.size ∧
      content false (wFramesLoop exts nbF mx f s).ops = serAll exts.size (remsFrom exts mx s.minIdx nbF f) s.currFrame s.written :=
  (wFramesLoop_gen hv hD hnf hmxl hmx hlastp f s hI hc).1 hL

/-- An inadmissible length among the extensions still to be written makes the frame loop return `OPUS_BAD_ARG`. -/
theorem wFramesLoop_bad (hv : AllIF exts nbF) (hD : ExtsOk exts) (hnf : nbF ≤ 48) (hmxl : mx.length = nbF)
    (hmx : ∀ g, g < nbF → mx.getD g 0 ≤ exts.size)
    (hlastp : ∀ g, g < nbF → mx.getD g 0 = 0 ∨ ∃ e, exts[mx.getD g 0 - 1]? = some e ∧ e.frame.toNat = g)
    (f : Nat) (s : GSt) (hI : FInv exts mx nbF f s) (hc : s.written + total (remsFrom exts mx s.minIdx nbF f) = exts.size)
    (hB : ∃ g, f ≤ g ∧ g < nbF ∧ ∃ x ∈ remQ exts mx s.minIdx g, ¬ LenOk x) :
    (wFramesLoop exts nbF mx f s).res = .err .badArg :=
  (wFramesLoop_gen hv hD hnf hmxl hmx hlastp f s hI hc).2 hB

end
end Opus.ExtProofs
