import OpusModel.Projection
import OpusProofs.LayoutRoute
/-
  OpusProofs.ProjectionInt24 — what the 24-bit output path of the mapping matrices computes (C10
  `matrix_int24_exact`): one accumulation `output += (cell*sample + 16384) >> 15` converts a 64-bit sum
  back to `opus_int32` WITHOUT saturation (`wrap32`); it is the exact integer as long as the accumulator
  has headroom, which 24-bit samples always leave.  Core tactics only.
-/
namespace Opus.Projection
open Opus Opus.Matrix

/-- One accumulation step of `out_int24` as the model performs it. -/
def step24 (o c s : Int) : Int := wrap32 (o + (c * s + 16384) / 32768)

theorem wrap32_id (x : Int) (h : -2147483648 ≤ x ∧ x ≤ 2147483647) : wrap32 x = x := by
  unfold wrap32; omega

/-- A Q15 cell scales a sample by at most 1 (plus rounding). -/
theorem q15_term_bound (c s S : Int) (hc : InInt16 c) (hs : -S ≤ s ∧ s ≤ S) :
    -(S + 1) ≤ (c * s + 16384) / 32768 ∧ (c * s + 16384) / 32768 ≤ S + 1 := by
  unfold InInt16 at hc
  have hS : 0 ≤ S := by omega
  have h1 : c * s ≤ 32768 * S := by
    rcases Int.le_total 0 s with h | h
    · calc c * s ≤ 32768 * s := Int.mul_le_mul_of_nonneg_right (by omega) h
        _ ≤ 32768 * S := by omega
    · have : c * s = (-c) * (-s) := by rw [Int.neg_mul_neg]
      rw [this]
      calc (-c) * (-s) ≤ 32768 * (-s) := Int.mul_le_mul_of_nonneg_right (by omega) (by omega)
        _ ≤ 32768 * S := by omega
  have h2 : -(32768 * S) ≤ c * s := by
    rcases Int.le_total 0 s with h | h
    · have : -(c * s) = (-c) * s := by rw [Int.neg_mul]
      have h3 : (-c) * s ≤ 32768 * s := Int.mul_le_mul_of_nonneg_right (by omega) h
      omega
    · have : -(c * s) = c * (-s) := by rw [Int.mul_neg]
      have h3 : c * (-s) ≤ 32768 * (-s) := Int.mul_le_mul_of_nonneg_right (by omega) (by omega)
      omega
  generalize c * s = t at h1 h2
  omega

/-- One step is exact when the accumulator has headroom. -/
theorem step24_exact (o c s S B : Int) (hc : InInt16 c) (hs : -S ≤ s ∧ s ≤ S) (ho : -B ≤ o ∧ o ≤ B)
    (hroom : B + S + 1 ≤ 2147483647) :
    step24 o c s = o + (c * s + 16384) / 32768 ∧ -(B + S + 1) ≤ step24 o c s ∧ step24 o c s ≤ B + S + 1 := by
  have hb := q15_term_bound c s S hc hs
  unfold step24
  rw [wrap32_id _ (by omega)]
  omega

/-- Accumulating a list of `(cell, sample)` terms, as `out_int24` does into one output cell over the
    successive input rows. -/
def acc24 : Int → List (Int × Int) → Int
  | o, [] => o
  | o, (c, s) :: rest => acc24 (step24 o c s) rest

def sum24 : List (Int × Int) → Int
  | [] => 0
  | (c, s) :: rest => (c * s + 16384) / 32768 + sum24 rest

theorem acc24_exact (S : Int) (hS : 0 ≤ S) : ∀ (l : List (Int × Int)) (o B : Int),
    (∀ cs ∈ l, InInt16 cs.1 ∧ -S ≤ cs.2 ∧ cs.2 ≤ S) → -B ≤ o ∧ o ≤ B →
    B + (l.length : Int) * (S + 1) ≤ 2147483647 →
    acc24 o l = o + sum24 l ∧ -(B + (l.length : Int) * (S + 1)) ≤ acc24 o l ∧ acc24 o l ≤ B + (l.length : Int) * (S + 1)
  | [], o, B, _, ho, _ => by simp [acc24, sum24]; omega
  | (c, s) :: rest, o, B, hl, ho, hroom => by
    have hcs := hl (c, s) (by simp)
    simp only [List.length_cons, Int.natCast_add, Int.cast_ofNat_Int] at hroom ⊢
    have hmul : ((rest.length : Int) + 1) * (S + 1) = (rest.length : Int) * (S + 1) + (S + 1) := by
      rw [Int.add_mul, Int.one_mul]
    have hnn : 0 ≤ (rest.length : Int) * (S + 1) := Int.mul_nonneg (by omega) (by omega)
    rw [hmul] at hroom ⊢
    obtain ⟨h1, h2, h3⟩ := step24_exact o c s S B hcs.1 hcs.2 ho (by omega)
    have ih := acc24_exact S hS rest (step24 o c s) (B + S + 1) (fun x hx => hl x (List.mem_cons_of_mem _ hx))
      ⟨h2, h3⟩ (by omega)
    simp only [acc24, sum24]
    rw [ih.1, h1]
    refine ⟨by omega, by omega, by omega⟩

end Opus.Projection
