import OpusProofs.MsDecEqSplit
import OpusProofs.DecSkelMsFull
/-
  OpusProofs.MsDecEqSkel — the C01 skeleton of `opus_decode_native` (`Opus.DecSkel.decodeNative`, every inner DSP call an
  oracle) IS an elementary machine in the sense of `Opus.MsDecEq`, and it honours both hypotheses of the multistream
  theorems: `PoContract` (via `decodeNative_po`) and `Local` (it uses nothing of the packet but the parser's result and
  the TOC byte).  So the hypotheses are not only satisfiable by a toy: they hold for the transcription of the real code.
-/
namespace Opus.MsDecEq
open Opus Opus.Framing Opus.FramingSpec Opus.FramingProofs Opus.DecSkel

/-- `opus_decode_native` (C01 skeleton) as an elementary machine: the state is the `OpusDecoder` skeleton state, the "PCM"
    is the outcome and the event log of the call (every inner SILK / CELT / range-decoder call with its arguments).  An
    abort (hardening assert) is mapped to the return value `-3`, which ends the multistream call like any failure.  `ctl`
    is not modelled here (C11 does that). -/
def skelMachine (o : Oracle) (bufCap : Int) : Machine DecState (List DecSkel.Ev) :=
  { decode := fun st pkt fsz fec sd sc =>
      { st := (decodeNative o pkt ((pkt.getD []).length : Int) { buf := .pcm, off := 0, cap := bufCap } fsz fec sd sc
                { st := st, k := 0, log := [] }).run.st
        ret := match (decodeNative o pkt ((pkt.getD []).length : Int) { buf := .pcm, off := 0, cap := bufCap } fsz fec sd sc
                { st := st, k := 0, log := [] }).ret with
          | .ret v => v
          | _ => -3
        po := (decodeNative o pkt ((pkt.getD []).length : Int) { buf := .pcm, off := 0, cap := bufCap } fsz fec sd sc
                { st := st, k := 0, log := [] }).packetOffset
        pcm := (decodeNative o pkt ((pkt.getD []).length : Int) { buf := .pcm, off := 0, cap := bufCap } fsz fec sd sc
                { st := st, k := 0, log := [] }).run.log }
    ctl := fun st _ _ => (st, -5, 0) }

theorem parse_ok_nonempty (sd : Bool) (bs : Bytes) (p : Parsed) (h : parseImpl sd bs = .ok p) : 0 < bs.length := by
  cases bs with
  | nil => simp [parseImpl] at h
  | cons a b => simp

theorem skel_po (o : Oracle) (bufCap : Int) : PoContract (skelMachine o bufCap) := by
  intro st bs fsz fec sd sc p hp hpos
  have hlen := parse_ok_nonempty sd bs p hp
  simp only [skelMachine, Option.getD_some] at hpos ⊢
  cases hr : (decodeNative o (some bs) (bs.length : Int) { buf := .pcm, off := 0, cap := bufCap } fsz fec sd sc
      { st := st, k := 0, log := [] }).ret with
  | ret v =>
    rw [hr] at hpos
    exact decodeNative_po o bs bs.length _ fsz fec sd sc _ (by omega) p (by simpa using hp) v hr hpos
  | abort => rw [hr] at hpos; simp at hpos
  | hang => rw [hr] at hpos; simp at hpos

/-- `opus_decode_native` sees of a present packet only its parse and its TOC byte. -/
theorem decodeNative_congr (o : Oracle) (bs1 bs2 : Bytes) (h1 : 0 < bs1.length) (h2 : 0 < bs2.length) (sd : Bool)
    (hp : parseImpl sd bs1 = parseImpl sd bs2) (hh : bs1.headD 0 = bs2.headD 0)
    (pcm : Ptr) (fsz fec : Int) (sc : Bool) (r : Run) :
    decodeNative o (some bs1) (bs1.length : Int) pcm fsz fec sd sc r =
      decodeNative o (some bs2) (bs2.length : Int) pcm fsz fec sd sc r := by
  have e1 : ¬ ((bs1.length : Int) = 0) := by omega
  have e2 : ¬ ((bs2.length : Int) = 0) := by omega
  have n1 : ¬ ((bs1.length : Int) < 0) := by omega
  have n2 : ¬ ((bs2.length : Int) < 0) := by omega
  unfold decodeNative
  simp only [Option.getD_some, Int.toNat_natCast, List.take_length, Option.isNone_some, Bool.false_eq_true, or_false,
    e1, e2, n1, n2, if_false, hp, hh]

theorem skel_local (o : Oracle) (bufCap : Int) : Local (skelMachine o bufCap) := by
  intro st p rest fsz fec sc hv
  have h1 := parse_complete true p hv rest (by simp)
  have h2 := parse_complete true p hv [] (by simp)
  rw [List.append_nil] at h2
  have hl1 : 0 < (serialize true p ++ rest).length := parse_ok_nonempty true _ _ h1
  have hl2 : 0 < (serialize true p).length := parse_ok_nonempty true _ _ h2
  have hh : (serialize true p ++ rest).headD 0 = (serialize true p).headD 0 := by
    rw [Opus.Layout.serialize_shape]; rfl
  have := decodeNative_congr o _ _ hl1 hl2 true (h1.trans h2.symm) hh { buf := .pcm, off := 0, cap := bufCap } fsz fec sc
    { st := st, k := 0, log := [] }
  simp only [skelMachine, Option.getD_some]
  rw [this]

end Opus.MsDecEq
