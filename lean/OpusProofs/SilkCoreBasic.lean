import OpusModel.SilkCoreFrame
/-
  OpusProofs.SilkCoreBasic — structural facts about the bit-exact synthesis model (property C03, slice SilkCore):
  every output sample is an `opus_int16`, list lengths of the outputs and of the carried state.
-/
namespace Opus.SilkCoreProofs
open Opus Opus.SilkParams Opus.SilkCore Opus.Gen Opus.Frozen

/-- `opus_int16` range. -/
def I16 (x : Int) : Prop := -32768 ≤ x ∧ x ≤ 32767

theorem wrap16_I16 (x : Int) : I16 (wrap16 x) := by
  unfold I16 wrap16; omega

theorem bind_eq_ok {α β} {r : Res α} {f : α → Res β} {b : β} (h : (r >>= f) = .ok b) :
    ∃ a, r = .ok a ∧ f a = .ok b := by
  cases r with
  | ok a => exact ⟨a, rfl, h⟩
  | err e => exact absurd h (by simp)
  | oob => exact absurd h (by simp)
  | abort => exact absurd h (by simp)

/-! ### lpcSynth -/

theorem lpcSynth_xq_I16 (A : List Int) (g : Int) (rs hist : List Int) : ∀ x ∈ (lpcSynth A g rs hist).1, I16 x := by
  induction rs generalizing hist with
  | nil => intro x hx; simp [lpcSynth] at hx
  | cons r rs ih =>
    intro x hx
    simp only [lpcSynth, List.mem_cons] at hx
    rcases hx with h | h
    · rw [h]; exact wrap16_I16 _
    · exact ih _ x h

theorem lpcSynth_len (A : List Int) (g : Int) (rs hist : List Int) : (lpcSynth A g rs hist).1.length = rs.length := by
  induction rs generalizing hist with
  | nil => simp [lpcSynth]
  | cons r rs ih => simp only [lpcSynth, List.length_cons, ih]

theorem lpcSynth_hist_len (A : List Int) (g : Int) (rs hist : List Int) (h : hist.length = 16) :
    (lpcSynth A g rs hist).2.length = 16 := by
  induction rs generalizing hist with
  | nil => simpa [lpcSynth] using h
  | cons r rs ih =>
    simp only [lpcSynth]
    apply ih
    simp [SilkCoreTabs.maxLpcOrder, h]

/-! ### ltpSynth -/

theorem ltpSynth_len (B : List Int) (lag : Int) (es h : List Int) (ub : Nat) (r : List Int × List Int × Nat)
    (hr : ltpSynth B lag es h ub = .ok r) : r.1.length = es.length ∧ r.2.1.length = h.length + es.length := by
  induction es generalizing h ub r with
  | nil => simp only [ltpSynth, Res.ok.injEq] at hr; subst hr; simp
  | cons e es ih =>
    simp only [ltpSynth] at hr
    split at hr
    · cases hr
    · split at hr
      · cases hr
      · split at hr
        · rename_i rs h' ub' heq
          have := ih _ _ _ heq
          simp only [Res.ok.injEq] at hr; subst hr
          simp only [List.length_cons] at this ⊢
          omega
        all_goals cases hr

/-! ### one sub-frame -/

theorem subFinish_xq (p : SubPrep) (c : CoreSt) (res ob lh : List Int) (ub : Nat) :
    (subFinish p c res ob lh ub).xq = c.xq ++ (lpcSynth p.A p.gainQ10 res p.hist).1 := rfl

theorem subPrep_hist_len (s : DecState) (f : FrameIn) (ctrl : Ctrl) (exc : List Int) (k : Nat) (c : CoreSt) (g : Int) :
    (subPrep s f ctrl exc k c g).hist.length = c.hist.length := by
  simp only [subPrep]; split <;> simp

theorem voicedLtp_len (fs : Nat) (sc : Int) (ifl : Bool) (k : Nat) (p : SubPrep) (c : CoreSt)
    (v : List Int × List Int × List Int × Nat) (h : voicedLtp fs sc ifl k p c = .ok v) : v.1.length = p.excK.length := by
  unfold voicedLtp at h
  obtain ⟨lag, _, h⟩ := bind_eq_ok h
  obtain ⟨ob, _, h⟩ := bind_eq_ok h
  obtain ⟨r, hr, h⟩ := bind_eq_ok h
  simp only [Res.pure_eq, Res.ok.injEq] at h
  subst h
  exact (ltpSynth_len _ _ _ _ _ _ hr).1

/-- A sub-frame appends exactly `subfr_length`-many (as many as there is excitation) `opus_int16` samples to `xq` and keeps
    the short-term history at `MAX_LPC_ORDER` entries. -/
theorem subframe_spec (s : DecState) (f : FrameIn) (ctrl : Ctrl) (ifl : Bool) (exc : List Int) (k : Nat) (c c' : CoreSt)
    (h : subframe s f ctrl ifl exc k c = .ok c') :
    ∃ r, c'.xq = c.xq ++ r ∧ (∀ x ∈ r, I16 x) ∧
      r.length = ((exc.drop (k * subfrLen s.fsKHz)).take (subfrLen s.fsKHz)).length ∧
      (c.hist.length = 16 → c'.hist.length = 16) := by
  unfold subframe at h
  obtain ⟨g, _, h⟩ := bind_eq_ok h
  split at h
  · cases h
  · split at h
    · obtain ⟨v, hv, h⟩ := bind_eq_ok h
      simp only [Res.pure_eq, Res.ok.injEq] at h
      subst h
      refine ⟨_, subFinish_xq _ _ _ _ _ _, lpcSynth_xq_I16 _ _ _ _, ?_, ?_⟩
      · rw [lpcSynth_len, voicedLtp_len _ _ _ _ _ _ _ hv]; rfl
      · intro hl; exact lpcSynth_hist_len _ _ _ _ (by rw [subPrep_hist_len]; exact hl)
    · simp only [Res.pure_eq, Res.ok.injEq] at h
      subst h
      refine ⟨_, subFinish_xq _ _ _ _ _ _, lpcSynth_xq_I16 _ _ _ _, ?_, ?_⟩
      · rw [lpcSynth_len]; rfl
      · intro hl; exact lpcSynth_hist_len _ _ _ _ (by rw [subPrep_hist_len]; exact hl)

/-- Length of the `n` sub-frame slices `k, k+1, …` of `exc`. -/
def sliceLen (exc : List Int) (sl : Nat) : Nat → Nat → Nat
  | 0, _ => 0
  | n + 1, k => ((exc.drop (k * sl)).take sl).length + sliceLen exc sl n (k + 1)

theorem subframes_spec (s : DecState) (f : FrameIn) (ctrl : Ctrl) (ifl : Bool) (exc : List Int) :
    ∀ (n k : Nat) (c c' : CoreSt), subframes s f ctrl ifl exc n k c = .ok c' →
      ∃ r, c'.xq = c.xq ++ r ∧ (∀ x ∈ r, I16 x) ∧ r.length = sliceLen exc (subfrLen s.fsKHz) n k ∧
        (c.hist.length = 16 → c'.hist.length = 16) := by
  intro n
  induction n with
  | zero =>
    intro k c c' h
    simp only [subframes, Res.ok.injEq] at h; subst h
    exact ⟨[], by simp, by simp, rfl, id⟩
  | succ n ih =>
    intro k c c' h
    simp only [subframes] at h
    obtain ⟨c1, h1, h⟩ := bind_eq_ok h
    obtain ⟨r1, e1, i1, l1, hl1⟩ := subframe_spec _ _ _ _ _ _ _ _ h1
    obtain ⟨r2, e2, i2, l2, hl2⟩ := ih _ _ _ h
    refine ⟨r1 ++ r2, by rw [e2, e1, List.append_assoc], ?_, ?_, fun hh => hl2 (hl1 hh)⟩
    · intro x hx
      rcases List.mem_append.mp hx with hx | hx
      · exact i1 x hx
      · exact i2 x hx
    · simp only [List.length_append, sliceLen, l1, l2]

theorem sliceLen_full (exc : List Int) (sl : Nat) : ∀ (n k : Nat), (k + n) * sl ≤ exc.length → sliceLen exc sl n k = n * sl := by
  intro n
  induction n with
  | zero => intro k _; simp [sliceLen]
  | succ n ih =>
    intro k h
    simp only [sliceLen]
    rw [ih (k + 1) (by rw [show k + 1 + n = k + (n + 1) by omega]; exact h)]
    simp only [List.length_take, List.length_drop]
    have h1 : (k + (n + 1)) * sl = k * sl + n * sl + sl := by
      rw [Nat.add_mul, Nat.add_mul, Nat.one_mul, Nat.add_assoc]
    have h2 : (n + 1) * sl = n * sl + sl := by rw [Nat.add_mul, Nat.one_mul]
    omega

theorem excLoop_len (off : Int) : ∀ (ps : List Int) (seed : Int), (excLoop off seed ps).length = ps.length := by
  intro ps
  induction ps with
  | nil => intro seed; simp [excLoop]
  | cons p ps ih => intro seed; simp only [excLoop, List.length_cons, ih]

/-! ### silk_decode_core -/

/-- What `decodeCore` returns, in terms of the sub-frame loop. -/
theorem decodeCore_ok (s : DecState) (f : FrameIn) (ctrl : Ctrl) (interp : Int) (o : CoreOut)
    (h : decodeCore s f ctrl interp = .ok o) :
    ∃ off c, quantOffset f.signalType f.quantOffsetType = .ok off ∧
      (f.pulses.take (frameLen s.fsKHz s.nbSubfr)).length = frameLen s.fsKHz s.nbSubfr ∧
      subframes s f ctrl (decide (interp < 4)) (excLoop off f.seed (f.pulses.take (frameLen s.fsKHz s.nbSubfr))) s.nbSubfr 0
        { hist := s.sLPC.reverse, ltpH := [], outBuf := s.outBuf, xq := [], prevGainQ16 := s.prevGainQ16,
          ltpCoef := ctrl.ltpCoef, pitchL := ctrl.pitchL, ub := 0 } = .ok c ∧
      o = { xq := c.xq, sLPC := c.hist.reverse, outBuf := c.outBuf,
            excQ14 := excLoop off f.seed (f.pulses.take (frameLen s.fsKHz s.nbSubfr)) ++ s.excQ14.drop (frameLen s.fsKHz s.nbSubfr),
            prevGainQ16 := c.prevGainQ16, ltpCoef := c.ltpCoef, pitchL := c.pitchL, ub := c.ub } := by
  unfold decodeCore at h
  obtain ⟨off, hoff, h⟩ := bind_eq_ok h
  dsimp only at h
  split at h
  · cases h
  · rename_i hlen
    obtain ⟨c, hc, h⟩ := bind_eq_ok h
    simp only [Res.pure_eq, Res.ok.injEq] at h
    refine ⟨off, c, hoff, ?_, hc, h.symm⟩
    have := List.length_take_le (frameLen s.fsKHz s.nbSubfr) f.pulses
    omega

/-- Every sample `silk_decode_core` writes to `xq[]` is an `opus_int16`, there are exactly `frame_length` of them, the saved
    short-term state keeps `MAX_LPC_ORDER` entries and `exc_Q14` keeps its size. -/
theorem decodeCore_spec (s : DecState) (f : FrameIn) (ctrl : Ctrl) (interp : Int) (o : CoreOut)
    (h : decodeCore s f ctrl interp = .ok o) :
    (∀ x ∈ o.xq, I16 x) ∧ o.xq.length = frameLen s.fsKHz s.nbSubfr ∧ (s.sLPC.length = 16 → o.sLPC.length = 16) ∧
    (frameLen s.fsKHz s.nbSubfr ≤ s.excQ14.length → o.excQ14.length = s.excQ14.length) := by
  obtain ⟨off, c, _, hlen, hc, ho⟩ := decodeCore_ok s f ctrl interp o h
  obtain ⟨r, e, hi, hl, hh⟩ := subframes_spec _ _ _ _ _ _ _ _ _ hc
  subst ho
  simp only [List.nil_append] at e
  refine ⟨by rw [e]; exact hi, ?_, ?_, ?_⟩
  · rw [e, hl, sliceLen_full]
    · rfl
    · rw [excLoop_len, hlen, Nat.zero_add]; exact Nat.le_refl _
  · intro h16
    simp only [List.length_reverse] at hh ⊢
    exact hh h16
  · intro hle
    simp only [List.length_append, excLoop_len, hlen, List.length_drop]
    omega

end Opus.SilkCoreProofs
