import OpusProofs.PcmSpec
/-
  OpusProofs.PcmProj — the 16-bit projection output (`mapping_matrix_multiply_channel_out_short`):
  it never leaves the int16 range, and when no accumulation step saturates it is the sum of the
  rounded Q15 products, within half an LSB per matrix column of the exact matrix product of the 16-bit
  stream samples.
-/
namespace Opus.Pcm

/-- The rounded Q15 product `(m*s + 16384) >> 15`. -/
def q15 (m s : Int) : Int := (m * s + 16384) / 32768

theorem q15_err (m s : Int) : -16384 ≤ 32768 * q15 m s - m * s ∧ 32768 * q15 m s - m * s ≤ 16384 := by
  unfold q15
  generalize m * s = p
  omega

theorem projStep_eq (acc m : Int) (b : Nat) : projStep acc m b = sat16 (acc + q15 m (float2Int16 b)) := rfl

theorem projStep_range (acc m : Int) (b : Nat) : -32768 ≤ projStep acc m b ∧ projStep acc m b ≤ 32767 :=
  sat16_range _

theorem foldl_projStep_range (l : List (Int × Nat)) (acc : Int) (h : -32768 ≤ acc ∧ acc ≤ 32767) :
    -32768 ≤ l.foldl (fun a p => projStep a p.1 p.2) acc ∧ l.foldl (fun a p => projStep a p.1 p.2) acc ≤ 32767 := by
  induction l generalizing acc with
  | nil => exact h
  | cons p t ih => exact ih _ (projStep_range acc p.1 p.2)

/-- Never wraps. -/
theorem projOut16_range (cells : List Int) (samples : List Nat) :
    -32768 ≤ projOut16 cells samples ∧ projOut16 cells samples ≤ 32767 :=
  foldl_projStep_range _ 0 (by omega)

/-- No accumulation step leaves the int16 range. -/
def NoSat : Int → List (Int × Nat) → Prop
  | _, [] => True
  | acc, p :: t => (-32768 ≤ acc + q15 p.1 (float2Int16 p.2) ∧ acc + q15 p.1 (float2Int16 p.2) ≤ 32767) ∧
      NoSat (acc + q15 p.1 (float2Int16 p.2)) t

instance decNoSat : (acc : Int) → (l : List (Int × Nat)) → Decidable (NoSat acc l)
  | _, [] => isTrue trivial
  | acc, p :: t => by
    unfold NoSat
    exact @instDecidableAnd _ _ _ (decNoSat _ t)

/-- Sum of the rounded products. -/
def sumQ (l : List (Int × Nat)) : Int := (l.map (fun p => q15 p.1 (float2Int16 p.2))).sum
/-- Exact matrix product (times 2^15) of the 16-bit stream samples. -/
def sumExact (l : List (Int × Nat)) : Int := (l.map (fun p => p.1 * float2Int16 p.2)).sum

theorem foldl_projStep_nosat (l : List (Int × Nat)) (acc : Int) (h : NoSat acc l) :
    l.foldl (fun a p => projStep a p.1 p.2) acc = acc + sumQ l := by
  induction l generalizing acc with
  | nil => simp [sumQ]
  | cons p t ih =>
    obtain ⟨⟨h1, h2⟩, h3⟩ := h
    rw [List.foldl_cons, projStep_eq, sat16_id h1 h2, ih _ h3]
    simp only [sumQ, List.map_cons, List.sum_cons]
    omega

theorem sumQ_err (l : List (Int × Nat)) :
    -(16384 * (l.length : Int)) ≤ 32768 * sumQ l - sumExact l ∧ 32768 * sumQ l - sumExact l ≤ 16384 * (l.length : Int) := by
  induction l with
  | nil => simp [sumQ, sumExact]
  | cons p t ih =>
    have := q15_err p.1 (float2Int16 p.2)
    simp only [sumQ, sumExact, List.map_cons, List.sum_cons, List.length_cons] at *
    push_cast
    omega

theorem projOut16_tracks (cells : List Int) (samples : List Nat) (h : NoSat 0 (List.zip cells samples)) :
    projOut16 cells samples = sumQ (List.zip cells samples) ∧
    -(16384 * ((List.zip cells samples).length : Int)) ≤
      32768 * projOut16 cells samples - sumExact (List.zip cells samples) ∧
    32768 * projOut16 cells samples - sumExact (List.zip cells samples) ≤
      16384 * ((List.zip cells samples).length : Int) := by
  have e : projOut16 cells samples = sumQ (List.zip cells samples) := by
    unfold projOut16; rw [foldl_projStep_nosat _ 0 h]; omega
  rw [e]
  exact ⟨rfl, sumQ_err _⟩

/-! ### against the exact (unrounded) float-path value -/

/-- The exact matrix product of the FLOAT stream samples, `Σ cell_k · v_k`, in units of 2^-164
    (`cell` is Q15, `val` is in units of 2^-149): what `mapping_matrix_multiply_channel_out_float` would give
    without any rounding. -/
def sumExactF (l : List (Int × Nat)) : Int := (l.map (fun p => p.1 * ((val p.2).getD 0))).sum

/-- The stream sample converts to 16 bits without saturating. -/
def ConvOk (p : Int × Nat) : Prop :=
  IsInt16 p.1 ∧ ∃ k, val p.2 = some k ∧ -32768 ≤ rne k 134 ∧ rne k 134 ≤ 32767

theorem conv_err {p : Int × Nat} (h : ConvOk p) (hb : p.2 < 2 ^ 32) :
    |p.1 * float2Int16 p.2 * 2 ^ 134 - p.1 * ((val p.2).getD 0)| ≤ 2 ^ 148 := by
  obtain ⟨⟨m1, m2⟩, k, hk, r1, r2⟩ := h
  have hs : float2Int16 p.2 = rne k 134 := by
    rw [float2Int16_spec hb, out16Spec_of_val hk]; exact sat16_id r1 r2
  obtain ⟨e1, _⟩ := rne_isRne k 134
  rw [hs, hk]
  simp only [Option.getD_some]
  have e : p.1 * rne k 134 * 2 ^ 134 - p.1 * k = p.1 * (rne k 134 * 2 ^ 134 - k) := by ring
  rw [e, abs_mul]
  have hm : |p.1| ≤ 32768 := abs_le.mpr ⟨by omega, by omega⟩
  have hz : |rne k 134 * 2 ^ 134 - k| ≤ 2 ^ 133 := by
    have h133 : (2 : Int) ^ 134 = 2 * 2 ^ 133 := by norm_num
    have : 2 * |rne k 134 * 2 ^ 134 - k| ≤ 2 * 2 ^ 133 := by rw [← h133]; exact e1
    linarith
  calc |p.1| * |rne k 134 * 2 ^ 134 - k| ≤ 32768 * 2 ^ 133 := mul_le_mul hm hz (abs_nonneg _) (by norm_num)
    _ = 2 ^ 148 := by norm_num

theorem sumExact_vs_F (l : List (Int × Nat)) (h : ∀ p ∈ l, ConvOk p ∧ p.2 < 2 ^ 32) :
    |sumExact l * 2 ^ 134 - sumExactF l| ≤ (l.length : Int) * 2 ^ 148 := by
  induction l with
  | nil => simp [sumExact, sumExactF]
  | cons p t ih =>
    have hp := h p (List.mem_cons_self ..)
    have ht := ih (fun q hq => h q (List.mem_cons_of_mem _ hq))
    have hc := conv_err hp.1 hp.2
    simp only [sumExact, sumExactF, List.map_cons, List.sum_cons, List.length_cons, Nat.cast_add, Nat.cast_one] at *
    have e : (p.1 * float2Int16 p.2 + (List.map (fun p => p.1 * float2Int16 p.2) t).sum) * 2 ^ 134 -
        (p.1 * (val p.2).getD 0 + (List.map (fun p => p.1 * (val p.2).getD 0) t).sum) =
        (p.1 * float2Int16 p.2 * 2 ^ 134 - p.1 * (val p.2).getD 0) +
        ((List.map (fun p => p.1 * float2Int16 p.2) t).sum * 2 ^ 134 - (List.map (fun p => p.1 * (val p.2).getD 0) t).sum) := by ring
    rw [e]
    calc _ ≤ _ := abs_add_le _ _
      _ ≤ 2 ^ 148 + (t.length : Int) * 2 ^ 148 := add_le_add hc ht
      _ = ((t.length : Int) + 1) * 2 ^ 148 := by ring

/-- **16-bit path against the exact float-path value.**  No saturation anywhere (no conversion, no
    accumulation step): the 16-bit output, in LSBs, differs from the exact matrix product of the float stream
    samples (times 2^15) by at most ONE LSB PER MATRIX COLUMN (half for `RES2INT16` of the sample, half for the
    rounded Q15 product). -/
theorem projOut16_vs_exactF (cells : List Int) (samples : List Nat)
    (hns : NoSat 0 (List.zip cells samples)) (hc : ∀ p ∈ List.zip cells samples, ConvOk p ∧ p.2 < 2 ^ 32) :
    |projOut16 cells samples * 2 ^ 149 - sumExactF (List.zip cells samples)| ≤
      ((List.zip cells samples).length : Int) * 2 ^ 149 := by
  obtain ⟨_, t1, t2⟩ := projOut16_tracks cells samples hns
  have h2 := sumExact_vs_F _ hc
  generalize projOut16 cells samples = O at *
  generalize sumExact (List.zip cells samples) = S at *
  generalize sumExactF (List.zip cells samples) = E at *
  generalize ((List.zip cells samples).length : Int) = K at *
  have e149 : (2 : Int) ^ 149 = 32768 * 2 ^ 134 := by norm_num
  have e148 : (2 : Int) ^ 148 = 16384 * 2 ^ 134 := by norm_num
  have hP : (0 : Int) < 2 ^ 134 := by positivity
  obtain ⟨a1, a2⟩ := abs_le.mp h2
  rw [e149]; rw [e148] at a1 a2
  apply abs_le.mpr
  constructor <;> nlinarith

end Opus.Pcm
