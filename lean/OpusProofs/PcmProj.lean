import OpusProofs.PcmSpec
/-
  OpusProofs.PcmProj — the 16-bit projection output (`mapping_matrix_multiply_channel_out_short`):
  it never leaves the int16 range, and when no accumulation step saturates it is the sum of the
  rounded Q15 products, within half an LSB per matrix column of the exact matrix product of the 16-bit
  stream samples.
-/
namespace Opus.Pcm

/-- The rounded Q15 product `(m*s + 16384) >> 15`. -/
def q15 (m s : Int) : Int := (m * s + 16384) / 32768

theorem q15_err (m s : Int) : -16384 ≤ 32768 * q15 m s - m * s ∧ 32768 * q15 m s - m * s ≤ 16384 := by
  unfold q15
  generalize m * s = p
  omega

theorem projStep_eq (acc m : Int) (b : Nat) : projStep acc m b = sat16 (acc + q15 m (float2Int16 b)) := rfl

theorem projStep_range (acc m : Int) (b : Nat) : -32768 ≤ projStep acc m b ∧ projStep acc m b ≤ 32767 :=
  sat16_range _

theorem foldl_projStep_range (l : List (Int × Nat)) (acc : Int) (h : -32768 ≤ acc ∧ acc ≤ 32767) :
    -32768 ≤ l.foldl (fun a p => projStep a p.1 p.2) acc ∧ l.foldl (fun a p => projStep a p.1 p.2) acc ≤ 32767 := by
  induction l generalizing acc with
  | nil => exact h
  | cons p t ih => exact ih _ (projStep_range acc p.1 p.2)

/-- Never wraps. -/
theorem projOut16_range (cells : List Int) (samples : List Nat) :
    -32768 ≤ projOut16 cells samples ∧ projOut16 cells samples ≤ 32767 :=
  foldl_projStep_range _ 0 (by omega)

/-- No accumulation step leaves the int16 range. -/
def NoSat : Int → List (Int × Nat) → Prop
  | _, [] => True
  | acc, p :: t => (-32768 ≤ acc + q15 p.1 (float2Int16 p.2) ∧ acc + q15 p.1 (float2Int16 p.2) ≤ 32767) ∧
      NoSat (acc + q15 p.1 (float2Int16 p.2)) t

instance decNoSat : (acc : Int) → (l : List (Int × Nat)) → Decidable (NoSat acc l)
  | _, [] => isTrue trivial
  | acc, p :: t => by
    unfold NoSat
    exact @instDecidableAnd _ _ _ (decNoSat _ t)

/-- Sum of the rounded products. -/
def sumQ (l : List (Int × Nat)) : Int := (l.map (fun p => q15 p.1 (float2Int16 p.2))).sum
/-- Exact matrix product (times 2^15) of the 16-bit stream samples. -/
def sumExact (l : List (Int × Nat)) : Int := (l.map (fun p => p.1 * float2Int16 p.2)).sum

theorem foldl_projStep_nosat (l : List (Int × Nat)) (acc : Int) (h : NoSat acc l) :
    l.foldl (fun a p => projStep a p.1 p.2) acc = acc + sumQ l := by
  induction l generalizing acc with
  | nil => simp [sumQ]
  | cons p t ih =>
    obtain ⟨⟨h1, h2⟩, h3⟩ := h
    rw [List.foldl_cons, projStep_eq, sat16_id h1 h2, ih _ h3]
    simp only [sumQ, List.map_cons, List.sum_cons]
    omega

theorem sumQ_err (l : List (Int × Nat)) :
    -(16384 * (l.length : Int)) ≤ 32768 * sumQ l - sumExact l ∧ 32768 * sumQ l - sumExact l ≤ 16384 * (l.length : Int) := by
  induction l with
  | nil => simp [sumQ, sumExact]
  | cons p t ih =>
    have := q15_err p.1 (float2Int16 p.2)
    simp only [sumQ, sumExact, List.map_cons, List.sum_cons, List.length_cons] at *
    push_cast
    omega

theorem projOut16_tracks (cells : List Int) (samples : List Nat) (h : NoSat 0 (List.zip cells samples)) :
    projOut16 cells samples = sumQ (List.zip cells samples) ∧
    -(16384 * ((List.zip cells samples).length : Int)) ≤
      32768 * projOut16 cells samples - sumExact (List.zip cells samples) ∧
    32768 * projOut16 cells samples - sumExact (List.zip cells samples) ≤
      16384 * ((List.zip cells samples).length : Int) := by
  have e : projOut16 cells samples = sumQ (List.zip cells samples) := by
    unfold projOut16; rw [foldl_projStep_nosat _ 0 h]; omega
  rw [e]
  exact ⟨rfl, sumQ_err _⟩

end Opus.Pcm
