import OpusProofs.DecSkelBasic
/-
  OpusProofs.DecSkelSilk — the SILK stage of `opus_decode_frame` (opus_decoder.c:388-468):
  the control block the skeleton hands to `silk_Decode` is always legal, the loop terminates
  after exactly the right number of SILK frames and every write stays inside `pcm` / `pcm_silk`.
-/
namespace Opus.DecSkel
open Opus

/-- What the SILK stage needs of the frame it is asked to produce. -/
structure SilkPre (st : DecState) (u : Int) (b : Body) : Prop where
  aud : b.audiosize = u ∨ b.audiosize = 2 * u ∨ b.audiosize = 3 * u ∨ b.audiosize = 4 * u ∨
        b.audiosize = 8 * u ∨ b.audiosize = 16 * u ∨ b.audiosize = 24 * u
  bw : b.data.isSome → b.mode = MODE_SILK → (b.bandwidth = BW_NB ∨ b.bandwidth = BW_MB ∨ b.bandwidth = BW_WB)
  ready : b.data.isNone → st.dc.internalSampleRate ≠ 0 ∧ st.dc.nChannelsInternal ≠ 0

/-- `IMAX(10, 1000*audiosize/Fs)` (:408) is a legal SILK payload size for every audiosize the
    skeleton can reach. -/
theorem payload_val {st : DecState} {u a : Int} (hu : Units st u)
    (ha : a = u ∨ a = 2 * u ∨ a = 3 * u ∨ a = 4 * u ∨ a = 8 * u ∨ a = 16 * u ∨ a = 24 * u) :
    (max 10 (cdiv (1000 * a) st.Fs) = 10 ∧ a ≤ 4 * u) ∨ (max 10 (cdiv (1000 * a) st.Fs) = 20 ∧ a = 8 * u) ∨
    (max 10 (cdiv (1000 * a) st.Fs) = 40 ∧ a = 16 * u) ∨ (max 10 (cdiv (1000 * a) st.Fs) = 60 ∧ a = 24 * u) := by
  have hp := hu.pos
  rw [cdiv_nonneg (by omega), hu.fs]
  rcases hu.five with h | h | h | h | h <;> subst h <;> omega

theorem silkConfig_spec {st : DecState} {u : Int} {b : Body} (hinv : DecInv st) (hu : Units st u) (hp : SilkPre st u b) :
    ∃ st3, silkConfig st b = some st3 ∧ DecInv st3 ∧ FrameRel st st3 ∧ st3.prev_mode = st.prev_mode ∧
      st3.prev_redundancy = st.prev_redundancy ∧ st3.dc.internalSampleRate ≠ 0 ∧ st3.dc.nChannelsInternal ≠ 0 ∧
      ((st3.dc.payloadSize_ms = 10 ∧ b.audiosize ≤ 4 * u) ∨ (st3.dc.payloadSize_ms = 20 ∧ b.audiosize = 8 * u) ∨
       (st3.dc.payloadSize_ms = 40 ∧ b.audiosize = 16 * u) ∨ (st3.dc.payloadSize_ms = 60 ∧ b.audiosize = 24 * u)) := by
  have hps := payload_val hu hp.aud
  have hps' : max 10 (cdiv (1000 * b.audiosize) st.Fs) = 0 ∨ max 10 (cdiv (1000 * b.audiosize) st.Fs) = 10 ∨
      max 10 (cdiv (1000 * b.audiosize) st.Fs) = 20 ∨ max 10 (cdiv (1000 * b.audiosize) st.Fs) = 40 ∨
      max 10 (cdiv (1000 * b.audiosize) st.Fs) = 60 := by omega
  have hsch := hinv.sch
  -- the generic shape of the result
  have key : ∀ (isr nci : Int), (isr = 8000 ∨ isr = 12000 ∨ isr = 16000 ∨ isr = st.dc.internalSampleRate) →
      (nci = st.stream_channels ∨ nci = st.dc.nChannelsInternal) → isr ≠ 0 → nci ≠ 0 →
      let st3 : DecState :=
        { st with dc := { st.dc with
                          payloadSize_ms := max 10 (cdiv (1000 * b.audiosize) st.Fs),
                          nChannelsInternal := nci, internalSampleRate := isr } }
      DecInv st3 ∧ FrameRel st st3 ∧ st3.prev_mode = st.prev_mode ∧
      st3.prev_redundancy = st.prev_redundancy ∧ st3.dc.internalSampleRate ≠ 0 ∧ st3.dc.nChannelsInternal ≠ 0 ∧
      ((st3.dc.payloadSize_ms = 10 ∧ b.audiosize ≤ 4 * u) ∨ (st3.dc.payloadSize_ms = 20 ∧ b.audiosize = 8 * u) ∨
       (st3.dc.payloadSize_ms = 40 ∧ b.audiosize = 16 * u) ∨ (st3.dc.payloadSize_ms = 60 ∧ b.audiosize = 24 * u)) := by
    intro isr nci hisr hnci hi0 hn0
    refine ⟨?_, ?_, rfl, rfl, hi0, hn0, hps⟩
    · refine { fs := hinv.fs, ch := hinv.ch, api := hinv.api, nca := hinv.nca, isr := ?_, nci := ?_, ps := hps',
               sch := hinv.sch, toc := hinv.toc, pm := hinv.pm, pr := hinv.pr, silkReady := fun _ => ⟨hi0, hn0⟩,
               gain := hinv.gain, lpd := hinv.lpd }
      · have := hinv.isr; simp only; omega
      · have := hinv.nci; simp only; omega
    · constructor <;> first | rfl | exact fun _ => hi0 | exact fun _ => hn0
  unfold silkConfig
  by_cases hd : b.data.isSome
  · simp only [hd, ↓reduceIte]
    have hn0 : st.stream_channels ≠ 0 := by omega
    by_cases hm : b.mode = MODE_SILK
    · simp only [hm, ↓reduceIte]
      rcases hp.bw hd hm with hb | hb | hb
      · simp only [hb, ↓reduceIte]
        exact ⟨_, rfl, key 8000 st.stream_channels (by simp) (by simp) (by decide) hn0⟩
      · have : ¬ BW_MB = BW_NB := by decide
        simp only [hb, this, ↓reduceIte]
        exact ⟨_, rfl, key 12000 st.stream_channels (by simp) (by simp) (by decide) hn0⟩
      · have h1 : ¬ BW_WB = BW_NB := by decide
        have h2 : ¬ BW_WB = BW_MB := by decide
        simp only [hb, h1, h2, ↓reduceIte]
        exact ⟨_, rfl, key 16000 st.stream_channels (by simp) (by simp) (by decide) hn0⟩
    · simp only [hm, ↓reduceIte]
      exact ⟨_, rfl, key 16000 st.stream_channels (by simp) (by simp) (by decide) hn0⟩
  · simp only [hd, ↓reduceIte]
    have hnone : b.data.isNone := by
      cases h : b.data with
      | none => rfl
      | some x => simp [h] at hd
    obtain ⟨hi0, hn0⟩ := hp.ready hnone
    refine ⟨_, rfl, ?_⟩
    have := key st.dc.internalSampleRate st.dc.nChannelsInternal (by simp) (by simp) hi0 hn0
    exact this

theorem silkLost_cases (b : Body) : silkLost b = 0 ∨ silkLost b = 1 ∨ silkLost b = 2 := by
  unfold silkLost; split
  · simp
  · split <;> simp

theorem silkBuf_cap {st0 : DecState} {cap0 : Int} {st : DecState} (e1 : st.Fs = st0.Fs) (e2 : st.channels = st0.channels) :
    PtrCapOk st0 cap0 (silkBuf st) := by
  simp [PtrCapOk, silkBuf, F10, F20, e1, e2]

/-- The SILK stage: legal control block, right number of frames, all writes in bounds. -/
theorem silkStage_spec {o : Oracle} (ho : OracleOk o) {st0 : DecState} {cap0 : Int} {b : Body} {r : Run} {u : Int}
    (hg : Good st0 cap0 r) (hu : Units r.st u) (hp : SilkPre r.st u b)
    (hroom : b.pcm.room (b.audiosize * r.st.channels)) (hcap : PtrCapOk st0 cap0 b.pcm) :
    ∃ tell r', silkStage o b r = (.ret (0, tell), r') ∧ Good st0 cap0 r' ∧ FrameRel r.st r'.st ∧
      r'.st.prev_mode = r.st.prev_mode ∧ r'.st.prev_redundancy = r.st.prev_redundancy ∧
      r'.st.dc.internalSampleRate ≠ 0 ∧ r'.st.dc.nChannelsInternal ≠ 0 ∧ 1 ≤ tell := by
  obtain ⟨st3, hcfg, hinv3, hrel, hpm, hpr, hi0, hn0, hps⟩ := silkConfig_spec hg.inv hu hp
  have hupos := hu.pos
  -- the run the loop starts from
  have hr0 : ∀ r0 : Run, r0 = (if r.st.prev_mode = MODE_CELT then r.push .silkReset else r) →
      LogGood st0 cap0 (r0.setSt st3) ∧ (r0.setSt st3).st = st3 := by
    intro r0 h0; subst h0
    refine ⟨?_, rfl⟩
    simp only [LogGood_setSt]
    split
    · exact LogGood_push' hg.log ⟨trivial, by intro p hp; simp [Ev.ptr?] at hp⟩
    · exact hg.log
  have hch := hg.inv.ch
  have hch3 : st3.channels = r.st.channels := hrel.ch
  have hnca3 : st3.dc.nChannelsAPI = st3.channels := hinv3.nca
  have hapi3 : st3.dc.API_sampleRate = r.st.Fs := by rw [hinv3.api, hrel.fs]
  have hargs : SilkArgsOk (loopArgs st3 (silkLost b) 0) := by
    refine ⟨?_, ?_, ?_, ?_, ?_, silkLost_cases b⟩
    · simp only [loopArgs]; omega
    · have := hinv3.isr; simp only [loopArgs]; omega
    · have := hinv3.nci; simp only [loopArgs]; omega
    · have := hinv3.ch; simp only [loopArgs, hnca3]; omega
    · simp only [loopArgs, hinv3.api]; exact hinv3.fs
  have hN : (st3.dc.payloadSize_ms = 10 → loopN st3 = 4 * u) ∧ (st3.dc.payloadSize_ms ≠ 10 → loopN st3 = 8 * u) := by
    have h10 := hu.ms10; have h20 := hu.ms20
    constructor <;> intro h <;> simp only [loopN, h, hapi3, ↓reduceIte] <;> omega
  obtain ⟨hr0a, hr0b⟩ := hr0 _ rfl
  -- run the loop with `m+1` iterations at pointer `p`
  have run : ∀ (m : Nat) (p : Ptr), PtrCapOk st0 cap0 p → 0 ≤ p.off →
      p.off + (m + 1) * (loopN st3 * st3.channels) ≤ p.cap →
      b.audiosize - 0 ≤ (m + 1) * loopN st3 → m * loopN st3 < b.audiosize - 0 →
      ∃ tell' r', silkLoop o (silkLost b) b.audiosize 0 p 1
          ((if r.st.prev_mode = MODE_CELT then r.push .silkReset else r).setSt st3) = (.ret (0, tell'), r') ∧
        r'.st = st3 ∧ LogGood st0 cap0 r' ∧ 1 ≤ tell' := by
    intro m p hpc hoff hcp h1 h2
    have hNpos : 0 < loopN st3 := by
      by_cases h : st3.dc.payloadSize_ms = 10
      · rw [hN.1 h]; omega
      · rw [hN.2 h]; omega
    exact silkLoop_spec ho (silkLost b) b.audiosize m 0 p 1 _ (by rw [hr0b]; exact hargs) (by rw [hr0b]; exact hnca3)
      (by rw [hr0b, hch3]; omega) (by rw [hr0b]; exact hNpos) hr0a hpc (by omega) hoff (by rw [hr0b]; exact hcp)
      (by rw [hr0b]; exact h1) (by rw [hr0b]; exact h2)
  have mkGood : ∀ r' : Run, r'.st = st3 → LogGood st0 cap0 r' → Good st0 cap0 r' := by
    intro r' e l; exact ⟨by rw [e]; exact hinv3, by rw [e, hrel.fs]; exact hg.fs, by rw [e, hrel.ch]; exact hg.ch, l⟩
  unfold silkStage
  simp only [hcfg]
  by_cases hsmall : b.audiosize < F10 r.st
  · -- pcm_too_small: one 10 ms frame into pcm_silk, then copy
    have hlt : b.audiosize < 4 * u := by rw [hu.f10] at hsmall; exact hsmall
    have hps10 : st3.dc.payloadSize_ms = 10 := by omega
    have hN10 := hN.1 hps10
    have hsb : PtrCapOk st0 cap0 (silkBuf r.st) := silkBuf_cap hg.fs hg.ch
    obtain ⟨tell', r', hrun, hst, hlog, htell⟩ := run 0 (silkBuf r.st) hsb (by simp [silkBuf])
      (by simp only [silkBuf, hu.f10, hN10, hch3]; rcases hch with h | h <;> rw [h] <;> omega)
      (by rw [hN10]; omega) (by rcases hp.aud with h | h | h | h | h | h | h <;> omega)
    simp only [hsmall, ↓reduceIte, hrun, bindRun_ret, ne_eq, not_true_eq_false]
    refine ⟨tell', _, rfl, ?_, ?_, ?_, ?_, ?_, ?_, htell⟩
    · apply Good.push (Good.push (mkGood r' hst hlog) _) _
      · refine ⟨?_, ?_⟩
        · show Ptr.room _ _
          refine ⟨by simp [silkBuf], ?_, ?_⟩
          · rcases hch with h | h <;> rw [h] <;> rcases hp.aud with h | h | h | h | h | h | h <;> omega
          · simp only [silkBuf, hu.f10]; rcases hch with h | h <;> rw [h] <;> omega
        · intro p hp'; simp only [Ev.ptr?, Option.some.injEq] at hp'; subst hp'; exact hsb
      · refine ⟨hroom, ?_⟩
        intro p hp'; simp only [Ev.ptr?, Option.some.injEq] at hp'; subst hp'; exact hcap
    · simp only [Run.push_st, hst]; exact hrel
    · simp only [Run.push_st, hst]; exact hpm
    · simp only [Run.push_st, hst]; exact hpr
    · simp only [Run.push_st, hst]; exact hi0
    · simp only [Run.push_st, hst]; exact hn0
  · have hge : 4 * u ≤ b.audiosize := by rw [hu.f10] at hsmall; omega
    obtain ⟨hoff, hnn, hcp⟩ := hroom
    have fin : ∀ (m : Nat), (m + 1 : Int) * loopN st3 = b.audiosize →
        ∃ tell r', (bindRun (silkLoop o (silkLost b) b.audiosize 0 b.pcm 1
            ((if r.st.prev_mode = MODE_CELT then r.push .silkReset else r).setSt st3)) fun et r1 =>
              if et.1 ≠ 0 then (Out.ret et, r1)
              else if False then (Out.ret (0, et.2), (r1.push (.acc 1 (silkBuf r.st) (b.audiosize * r.st.channels))).push
                (.acc 2 b.pcm (b.audiosize * r.st.channels)))
              else (Out.ret (0, et.2), r1)) = (.ret (0, tell), r') ∧ Good st0 cap0 r' ∧ FrameRel r.st r'.st ∧
          r'.st.prev_mode = r.st.prev_mode ∧ r'.st.prev_redundancy = r.st.prev_redundancy ∧
          r'.st.dc.internalSampleRate ≠ 0 ∧ r'.st.dc.nChannelsInternal ≠ 0 ∧ 1 ≤ tell := by
      intro m hm
      have hNpos : 0 < loopN st3 := by
        by_cases h : st3.dc.payloadSize_ms = 10
        · rw [hN.1 h]; omega
        · rw [hN.2 h]; omega
      have hmn : 0 ≤ (m : Int) * loopN st3 := Int.mul_nonneg (by omega) (Int.le_of_lt hNpos)
      have hexp : (m + 1 : Int) * loopN st3 = m * loopN st3 + loopN st3 := by rw [Int.add_mul]; simp
      obtain ⟨tell', r', hrun, hst, hlog, htell⟩ := run m b.pcm hcap hoff
        (by rw [← Int.mul_assoc, hm, hch3]; exact hcp) (by omega) (by omega)
      simp only [hrun, bindRun_ret, ne_eq, not_true_eq_false, ↓reduceIte]
      exact ⟨tell', r', rfl, mkGood r' hst hlog, by rw [hst]; exact hrel, by rw [hst]; exact hpm, by rw [hst]; exact hpr,
        by rw [hst]; exact hi0, by rw [hst]; exact hn0, htell⟩
    simp only [hsmall, ↓reduceIte]
    by_cases h10 : st3.dc.payloadSize_ms = 10
    · exact fin 0 (by rw [hN.1 h10]; omega)
    · have h8 := hN.2 h10
      rcases hps with h | h | h | h
      · exact absurd h.1 h10
      · exact fin 0 (by rw [h8]; omega)
      · exact fin 1 (by rw [h8]; omega)
      · exact fin 2 (by rw [h8]; omega)

end Opus.DecSkel
