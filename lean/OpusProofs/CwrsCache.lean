import OpusProofs.CwrsModel
import OpusProofs.CwrsTable
/-
  OpusProofs.CwrsCache — the static mode's pulse cache (static_modes_float.h: cache_index50 / cache_bits50,
  regenerated) against the re-implemented `compute_pulse_cache`, against V(N,K), and the list of every
  (N,K) the static mode can hand to the PVQ coder.
-/
namespace OpusProofs.CwrsCache
open Opus Opus.Cwrs Opus.Rate OpusProofs.CwrsU OpusProofs.CwrsTable OpusProofs.CwrsModel
open Opus.Gen.CeltTables

/-- Every `(N, K, cache word)` reachable through `cache = m->cache.bits + m->cache.index[(LM+1)*m->nbEBands+band]`
    (rate.h:59-63, 84-86) for `band < nbEBands`, `LM+1 ≤ maxLM+1`: `N` is the (possibly split) band size
    `(eBands[band+1]-eBands[band])<<(LM+1)>>1`, `K = get_pulses(q)` for a pseudo-pulse count `1 ≤ q ≤ cache[0]`,
    and the word is `cache[q]`. -/
def reachable : List (Nat × Nat × Nat) :=
  (List.range ((maxLM + 2) * nbEBands)).flatMap fun p =>
    match cacheIndex[p]? with
    | some ci =>
      if ci < 0 then [] else
        let N := bandN eBands (p / nbEBands) (p % nbEBands)
        let Kp := cacheBits.getD ci.toNat 0
        (List.range Kp).map fun j => (N, getPulses (j + 1), cacheBits.getD (ci.toNat + j + 1) 0)
    | none => []

/-- All words a walk for `(N,K)` can touch lie inside their table rows. -/
def regionOk (N K : Nat) : Bool :=
  (List.range (min N (K + 1) + 1)).all fun r => decide (r < nRows ∧ offL r + max N (K + 1) < rowEnd r)

/-- `V(N,K)` read from the table fits 32 bits and the cache word `b` brackets `8·log2 V`:
    `V^8 ≤ 2^(b+1) < 4·V^8`, i.e. `log2 V ≤ (b+1)/8 < log2 V + 1/4`. -/
def pairOk (e : Nat × Nat × Nat) : Bool :=
  regionOk e.1 e.2.1 &&
  match pvqV Utab e.1 e.2.1 with
  | .ok v => decide (v < 4294967296) && decide (v ^ 8 ≤ 2 ^ (e.2.2 + 1)) && decide (2 ^ (e.2.2 + 1) < 4 * v ^ 8)
  | _ => false

theorem reachable_ok : reachable.all pairOk = true := by decide +kernel

theorem reachable_length : reachable.length = 1912 := by decide +kernel

/-- `cache->index`, `cache->bits` shipped in static_modes_float.h are what `compute_pulse_cache` computes
    from `eBands` with the regenerated PVQ table. -/
theorem cache_eq : computePulseCache Utab eBands nbEBands maxLM = .ok (cacheIndex, cacheBits) := by
  decide +kernel

/-- Each cache row `cache[1..cache[0]]` is non-decreasing (what the binary search of `bits2pulses` needs). -/
def rowsMonotone : Bool :=
  (List.range ((maxLM + 2) * nbEBands)).all fun p =>
    match cacheIndex[p]? with
    | some ci =>
      if ci < 0 then true else
        let Kp := cacheBits.getD ci.toNat 0
        decide (ci.toNat + Kp < cacheBits.length) &&
        (List.range (Kp - 1)).all fun j =>
          decide (cacheBits.getD (ci.toNat + j + 1) 0 ≤ cacheBits.getD (ci.toNat + j + 2) 0)
    | none => false

theorem rowsMonotone_true : rowsMonotone = true := by decide +kernel

end OpusProofs.CwrsCache
