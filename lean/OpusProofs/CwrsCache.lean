import OpusProofs.CwrsModel
import OpusProofs.CwrsTable
/-
  OpusProofs.CwrsCache — the static mode's pulse cache (static_modes_float.h: cache_index50 / cache_bits50,
  regenerated) against V(N,K) and the PVQ table: every (N,K) the static mode can hand to the PVQ coder has
  V(N,K) < 2^32, a table walk that stays inside the table rows, and a cache word that brackets 8·log2 V(N,K).

  Kernel evaluation is kept cheap by (a) reading U(N,K) from the row-by-row copy `pvqURows` of the table
  (proved equal to the slicing of the flat data that `Utab` uses), and (b) walking each cache row once.
-/
namespace OpusProofs.CwrsCache
open Opus Opus.Cwrs Opus.Rate OpusProofs.CwrsU OpusProofs.CwrsTable OpusProofs.CwrsModel
open Opus.Gen.CeltTables

/-! ## Fast table reads -/

/-- The extractor's row-by-row copy is the slicing of `pvqUData` by `pvqURowOff`. -/
theorem rows_eq : pvqURows = (List.range nRows).map rowSlice := by decide +kernel

theorem rows_getD {r : Nat} (hr : r < nRows) : pvqURows.getD r [] = rowSlice r := by
  rw [rows_eq]
  simp [List.getD, hr]

/-- `U(a,b)` read from the row-by-row table: row `min a b`, column `max a b`. -/
def fastU (a b : Nat) : Nat := (pvqURows.getD (min a b) []).getD (max a b - min a b) 0

theorem rowSlice_get {r c : Nat} (h : inTab r c) : (rowSlice r)[c - r]? = some (U r c) := by
  obtain ⟨hr, hrc, hc⟩ := h
  obtain ⟨hs, _⟩ := rows_row hr
  rw [hs]
  simp only [rowWant, rowList_spec, List.getElem?_drop, List.getElem?_map]
  have e : r + (c - r) = c := by omega
  rw [e]
  have : c < rowEnd r - offL r := by omega
  simp [this]

theorem fastU_eq {a b : Nat} (h : inTab (min a b) (max a b)) : fastU a b = U a b := by
  unfold fastU
  rw [rows_getD h.1]
  have := rowSlice_get h
  simp only [List.getD, this, Option.getD_some]
  by_cases hab : a ≤ b
  · rw [Nat.min_eq_left hab, Nat.max_eq_right hab]
  · have hba : b ≤ a := by omega
    rw [Nat.min_eq_right hba, Nat.max_eq_left hba, U_symm]

/-! ## The region of the table a walk for (N,K) can touch -/

/-- Every word `CELT_PVQ_U_ROW[r][c]`, `r ≤ min(N,K+1)`, `c ≤ max(N,K+1)`, lies inside its row. -/
def regionOk (N K : Nat) : Bool :=
  (List.range (min N (K + 1) + 1)).all fun r =>
    decide (r < nRows) && decide (offL r + max N (K + 1) < rowEnd r)

theorem region_inTab {N K r c : Nat} (h : regionOk N K = true) (hrc : r ≤ c)
    (hr : r ≤ min N (K + 1)) (hc : c ≤ max N (K + 1)) : inTab r c := by
  simp only [regionOk, List.all_eq_true, List.mem_range, Bool.and_eq_true, decide_eq_true_eq] at h
  obtain ⟨h1, h2⟩ := h r (by omega)
  exact ⟨h1, hrc, by omega⟩

/-- Inside the region the regenerated table is `U`: memory safety of the walk and its values. -/
theorem agree_of_region {N K : Nat} (h : regionOk N K = true) : Agree Utab N K := by
  intro r c hrc hd
  have hr : r ≤ min N (K + 1) := by
    rcases hd with hd | hd
    · exact Nat.le_min.mpr ⟨hd.1, by omega⟩
    · exact Nat.le_min.mpr ⟨by omega, hd.2⟩
  have hc : c ≤ max N (K + 1) := by
    rcases hd with hd | hd
    · exact Nat.le_trans hd.2 (Nat.le_max_right _ _)
    · exact Nat.le_trans hd.1 (Nat.le_max_left _ _)
  exact ((Utab_spec r c).1 (region_inTab h hrc hr hc)).1

def fastV (N K : Nat) : Nat := fastU N K + fastU N (K + 1)

theorem fastV_eq {N K : Nat} (h : regionOk N K = true) : fastV N K = V N K := by
  unfold fastV V
  have h1 : inTab (min N K) (max N K) :=
    region_inTab h (Nat.le_trans (Nat.min_le_left _ _) (Nat.le_max_left _ _))
      (Nat.le_min.mpr ⟨Nat.min_le_left _ _, Nat.le_trans (Nat.min_le_right _ _) (by omega)⟩)
      (Nat.max_le.mpr ⟨Nat.le_max_left _ _, Nat.le_trans (by omega) (Nat.le_max_right _ _)⟩)
  have h2 : inTab (min N (K + 1)) (max N (K + 1)) :=
    region_inTab h (Nat.le_trans (Nat.min_le_left _ _) (Nat.le_max_left _ _)) (Nat.le_refl _) (Nat.le_refl _)
  rw [fastU_eq h1, fastU_eq h2]

/-! ## Every reachable (N, K, cache word) -/

/-- The facts checked for one `(N, K)` with cache word `b`: the walk stays inside the table, `V(N,K) < 2^32`,
    and `V^8 ≤ 2^(b+1) < 4·V^8`, i.e. `log2 V ≤ (b+1)/8 < log2 V + 1/4` (the cache stores `bits-1` in 1/8 bit). -/
def pairOk (N K b : Nat) : Bool :=
  regionOk N K && Nat.blt (fastV N K) 4294967296 &&
    Nat.ble (fastV N K ^ 8) (2 ^ (b + 1)) && Nat.blt (2 ^ (b + 1)) (4 * fastV N K ^ 8)

theorem pairOk_spec {N K b : Nat} (h : pairOk N K b = true) :
    Agree Utab N K ∧ V N K < 4294967296 ∧ V N K ^ 8 ≤ 2 ^ (b + 1) ∧ 2 ^ (b + 1) < 4 * V N K ^ 8 := by
  simp only [pairOk, Bool.and_eq_true, Nat.blt_eq, Nat.ble_eq] at h
  obtain ⟨⟨⟨h1, h2⟩, h3⟩, h4⟩ := h
  rw [fastV_eq h1] at h2 h3 h4
  exact ⟨agree_of_region h1, h2, h3, h4⟩

/-- Walk the words `cache[j+1], cache[j+2], …` of one cache row for band size `N`. -/
def walkOk (N : Nat) : Nat → List Nat → Bool
  | _, [] => true
  | j, b :: rest => pairOk N (getPulses (j + 1)) b && walkOk N (j + 1) rest

theorem walkOk_spec (N : Nat) : ∀ (l : List Nat) (j : Nat), walkOk N j l = true →
    ∀ i, i < l.length → pairOk N (getPulses (j + i + 1)) (l.getD i 0) = true := by
  intro l
  induction l with
  | nil => intro j _ i hi; simp at hi
  | cons b rest ih =>
    intro j h i hi
    simp only [walkOk, Bool.and_eq_true] at h
    cases i with
    | zero => simpa using h.1
    | succ i =>
      have := ih (j + 1) h.2 i (by simpa using hi)
      simpa [Nat.add_assoc, Nat.add_comm 1 i] using this

/-- Non-decreasing list. -/
def monoOk : List Nat → Bool
  | a :: b :: t => Nat.ble a b && monoOk (b :: t)
  | _ => true

theorem monoOk_spec : ∀ (l : List Nat), monoOk l = true → ∀ i, i + 1 < l.length → l.getD i 0 ≤ l.getD (i + 1) 0 := by
  intro l
  induction l with
  | nil => intro _ i hi; simp at hi
  | cons a t ih =>
    intro h i hi
    cases t with
    | nil => simp at hi
    | cons b t =>
      simp only [monoOk, Bool.and_eq_true, Nat.ble_eq] at h
      cases i with
      | zero => simpa using h.1
      | succ i =>
        have := ih h.2 i (by simpa using hi)
        simpa using this

/-- One cache row `cache[0] = K', cache[1..K']`: present in the array, non-decreasing, every word consistent. -/
def rowOk (N : Nat) : List Nat → Bool
  | [] => false
  | kp :: rest => Nat.ble kp rest.length && walkOk N 0 (rest.take kp) && monoOk (rest.take kp)

/-- Position `p = (LM+1)*nbEBands + band` of `cache.index`. -/
def posOk (p : Nat) : Bool :=
  match cacheIndex.getD p (-1) with
  | .ofNat ci => rowOk (bandN eBands (p / nbEBands) (p % nbEBands)) (cacheBits.drop ci)
  | .negSucc _ => true

def allPosOk : Bool := (List.range ((maxLM + 2) * nbEBands)).all posOk

theorem allPosOk_true : allPosOk = true := by decide +kernel

theorem cacheIndex_length : cacheIndex.length = (maxLM + 2) * nbEBands := by decide +kernel

/-- What `allPosOk` establishes for position `p` with a cache row at `ci`, pseudo-pulse count `q` in `1..cache[0]`. -/
theorem pos_facts {p ci q : Nat} (hp : p < (maxLM + 2) * nbEBands) (hci : cacheIndex[p]? = some (Int.ofNat ci))
    (hq1 : 1 ≤ q) (hq : q ≤ cacheBits.getD ci 0) :
    ci + q < cacheBits.length ∧
    pairOk (bandN eBands (p / nbEBands) (p % nbEBands)) (getPulses q) (cacheBits.getD (ci + q) 0) = true ∧
    (q < cacheBits.getD ci 0 → cacheBits.getD (ci + q) 0 ≤ cacheBits.getD (ci + q + 1) 0) := by
  have h := allPosOk_true
  simp only [allPosOk, List.all_eq_true, List.mem_range] at h
  have hpos := h p hp
  have hg : cacheIndex.getD p (-1) = Int.ofNat ci := by simp [List.getD, hci]
  simp only [posOk, hg] at hpos
  -- shape of the row
  generalize hrow : cacheBits.drop ci = row at hpos
  have hkp : cacheBits.getD ci 0 = row.getD 0 0 := by
    rw [← hrow]; simp [List.getD, List.getElem?_drop]
  cases row with
  | nil => simp [rowOk] at hpos
  | cons kp rest =>
    simp only [rowOk, Bool.and_eq_true, Nat.ble_eq] at hpos
    obtain ⟨⟨hlen, hwalk⟩, hmono⟩ := hpos
    have hkp' : cacheBits.getD ci 0 = kp := by rw [hkp]; simp [List.getD]
    rw [hkp'] at hq
    have hrest : ∀ i, rest.getD i 0 = cacheBits.getD (ci + i + 1) 0 := by
      intro i
      have : (cacheBits.drop ci).getD (i + 1) 0 = cacheBits.getD (ci + (i + 1)) 0 := by
        simp [List.getD, List.getElem?_drop]
      rw [hrow] at this
      simpa [List.getD, Nat.add_assoc] using this
    have htake : ∀ i, i < kp → (rest.take kp).getD i 0 = rest.getD i 0 := by
      intro i hi; simp [List.getD, hi]
    have hlt : (rest.take kp).length = kp := by simp [List.length_take]; omega
    have hdl : (cacheBits.drop ci).length = rest.length + 1 := by rw [hrow]; simp
    rw [List.length_drop] at hdl
    obtain ⟨q', rfl⟩ : ∃ q', q = q' + 1 := ⟨q - 1, by omega⟩
    refine ⟨by omega, ?_, ?_⟩
    · have := walkOk_spec _ _ 0 hwalk q' (by omega)
      rw [htake q' (by omega), hrest q'] at this
      simpa [Nat.add_assoc] using this
    · intro hlt2
      rw [hkp'] at hlt2
      have := monoOk_spec _ hmono q' (by omega)
      rw [htake q' (by omega), htake (q' + 1) (by omega), hrest q', hrest (q' + 1)] at this
      simpa [Nat.add_assoc] using this


/-! ## Reachable (N, K) in terms of band and frame size -/

/-- `(N, K)` is a (vector size, pulse count) pair the static mode can hand to the PVQ coder, and `b` its cache word:
    `cache = m->cache.bits + m->cache.index[(LM+1)*m->nbEBands+band]` (rate.h:59-63, 84-86) for `band < nbEBands`,
    `lm1 = LM+1 ≤ maxLM+1` (`LM = -1` is reached by splitting a band at `LM = 0`, bands.c quant_partition),
    `N = (eBands[band+1]-eBands[band])<<(LM+1)>>1`, `K = get_pulses(q)` for a pseudo-pulse count `1 ≤ q ≤ cache[0]`,
    `b = cache[q]`. -/
def Reach (N K b : Nat) : Prop :=
  ∃ lm1 band ci q, lm1 ≤ maxLM + 1 ∧ band < nbEBands ∧
    cacheIndex[lm1 * nbEBands + band]? = some (Int.ofNat ci) ∧ 1 ≤ q ∧ q ≤ cacheBits.getD ci 0 ∧
    N = bandN eBands lm1 band ∧ K = getPulses q ∧ b = cacheBits.getD (ci + q) 0

theorem pos_of_band {lm1 band : Nat} (hl : lm1 ≤ maxLM + 1) (hb : band < nbEBands) :
    lm1 * nbEBands + band < (maxLM + 2) * nbEBands ∧ (lm1 * nbEBands + band) / nbEBands = lm1 ∧
    (lm1 * nbEBands + band) % nbEBands = band := by
  have hpos : 0 < nbEBands := by omega
  refine ⟨?_, ?_, ?_⟩
  · have : lm1 * nbEBands + nbEBands ≤ (maxLM + 2) * nbEBands := by
      have := Nat.mul_le_mul_right nbEBands (show lm1 + 1 ≤ maxLM + 2 by omega)
      rwa [Nat.add_mul, Nat.one_mul] at this
    omega
  · rw [Nat.add_comm, Nat.add_mul_div_right _ _ hpos, Nat.div_eq_of_lt hb, Nat.zero_add]
  · rw [Nat.add_comm, Nat.add_mul_mod_self_right, Nat.mod_eq_of_lt hb]

theorem getPulses_pos {q : Nat} (h : 1 ≤ q) : 1 ≤ getPulses q := by
  unfold getPulses
  split
  · exact h
  · have : 0 < 2 ^ (q / 8 - 1) := Nat.pow_pos (by omega)
    have : 8 + q % 8 ≤ (8 + q % 8) * 2 ^ (q / 8 - 1) := Nat.le_mul_of_pos_right _ this
    omega

theorem reach_facts {N K b : Nat} (h : Reach N K b) :
    1 ≤ K ∧ Agree Utab N K ∧ V N K < 4294967296 ∧ V N K ^ 8 ≤ 2 ^ (b + 1) ∧ 2 ^ (b + 1) < 4 * V N K ^ 8 := by
  obtain ⟨lm1, band, ci, q, hl, hb, hci, hq1, hq, rfl, rfl, rfl⟩ := h
  obtain ⟨hp, hdiv, hmod⟩ := pos_of_band hl hb
  obtain ⟨_, hpair, _⟩ := pos_facts hp hci hq1 hq
  rw [hdiv, hmod] at hpair
  exact ⟨getPulses_pos hq1, pairOk_spec hpair⟩

/-- Rows of the cache are inside the array and non-decreasing in the pseudo-pulse count. -/
theorem rows_monotone {lm1 band ci q : Nat} (hl : lm1 ≤ maxLM + 1) (hb : band < nbEBands)
    (hci : cacheIndex[lm1 * nbEBands + band]? = some (Int.ofNat ci)) (hq1 : 1 ≤ q) (hq : q ≤ cacheBits.getD ci 0) :
    ci + q < cacheBits.length ∧ (q < cacheBits.getD ci 0 → cacheBits.getD (ci + q) 0 ≤ cacheBits.getD (ci + q + 1) 0) := by
  obtain ⟨hp, _, _⟩ := pos_of_band hl hb
  obtain ⟨h1, _, h3⟩ := pos_facts hp hci hq1 hq
  exact ⟨h1, h3⟩

/-! ## The shipped cache is what `compute_pulse_cache` computes -/

theorem mapM_loop_ok {α β : Type} (f : α → Res β) (g : α → β) :
    ∀ (l : List α) (acc : List β), (∀ x ∈ l, f x = .ok (g x)) →
      List.mapM.loop f l acc = .ok (acc.reverse ++ l.map g) := by
  intro l
  induction l with
  | nil => intro acc _; simp [List.mapM.loop]
  | cons a t ih =>
    intro acc h
    have ha : f a = .ok (g a) := h a (by simp)
    simp only [List.mapM.loop, ha, Res.bind_ok]
    rw [ih (g a :: acc) (fun x hx => h x (by simp [hx]))]
    simp

theorem mapM_ok {α β : Type} (f : α → Res β) (g : α → β) (l : List α) (h : ∀ x ∈ l, f x = .ok (g x)) :
    l.mapM f = .ok (l.map g) := by
  unfold List.mapM
  rw [mapM_loop_ok f g l [] h]; simp

/-- One cache row computed from the fast table. -/
def fastRow (N K : Nat) : List Nat :=
  K % 256 :: (List.range K).map fun j => (log2Frac (fastV N (getPulses (j + 1))) BITRES + 256 - 1) % 256

def rowRegion (N K : Nat) : Bool := (List.range K).all fun j => regionOk N (getPulses (j + 1))

theorem cacheRow_eq {N K : Nat} (h : rowRegion N K = true) : cacheRow Utab N K = .ok (fastRow N K) := by
  simp only [rowRegion, List.all_eq_true, List.mem_range] at h
  unfold cacheRow fastRow
  rw [mapM_ok _ (fun j => (log2Frac (fastV N (getPulses (j + 1))) BITRES + 256 - 1) % 256)]
  · rfl
  · intro j hj
    have hr := h j (List.mem_range.mp hj)
    rw [pvqV_agree (agree_of_region hr) (Nat.le_refl _) (Nat.le_refl _), fastV_eq hr]
    rfl

/-- The scan of band sizes reproduces `cache.index`, every entry's rows lie inside the table, and the rows
    recomputed from `V(N,K)` reproduce `cache.bits`. -/
def cacheCheck : Bool :=
  decide ((scan eBands nbEBands maxLM).cindex = cacheIndex) &&
  (scan eBands nbEBands maxLM).entries.all (fun e => rowRegion e.1 e.2) &&
  decide (((scan eBands nbEBands maxLM).entries.map (fun e => fastRow e.1 e.2)).flatten = cacheBits)

theorem cacheCheck_true : cacheCheck = true := by decide +kernel

/-- `cache->index`, `cache->bits` shipped in static_modes_float.h are what `compute_pulse_cache` computes
    from `eBands` with the regenerated PVQ table. -/
theorem cache_eq : computePulseCache Utab eBands nbEBands maxLM = .ok (cacheIndex, cacheBits) := by
  have h := cacheCheck_true
  simp only [cacheCheck, Bool.and_eq_true, decide_eq_true_eq, List.all_eq_true] at h
  obtain ⟨⟨h1, h2⟩, h3⟩ := h
  have hm := mapM_ok _ (fun e => fastRow e.1 e.2) _ (fun e he => cacheRow_eq (h2 e he))
  simp only [computePulseCache, cacheBitsOf, hm, Res.bind_ok, Res.pure_eq, h1, h3]

end OpusProofs.CwrsCache
