import OpusProofs.CeltAllocInit
/-
  OpusProofs.CeltAllocTail — after the band-skipping loop: spreading the left-over bits, the loop over the coded
  bands, the skipped bands.
-/
namespace OpusProofs.CeltAlloc
open Opus Opus.CeltAlloc
open Opus.Gen.CeltTables

/-- `Σ pulses[j] + (C·ebits[j] << BITRES)` -/
def sumOut (C : Int) : List BandOut → Int
  | [] => 0
  | o :: os => o.pulses + C * o.ebits * 8 + sumOut C os

theorem sumOut_append (C : Int) (a b : List BandOut) : sumOut C (a ++ b) = sumOut C a + sumOut C b := by
  induction a with
  | nil => simp [sumOut]
  | cons x t ih => simp only [List.cons_append, sumOut, ih]; omega

theorem opsCost_append (a b : List Op) : opsCost (a ++ b) = opsCost a + opsCost b := by
  induction a with
  | nil => simp [opsCost]
  | cons x t ih => simp only [List.cons_append, opsCost, ih]; omega

theorem opsCost_reverse (a : List Op) : opsCost a.reverse = opsCost a := by
  induction a with
  | nil => rfl
  | cons x t ih => simp only [List.reverse_cons, opsCost_append, ih, opsCost]; omega

/-! ## spread -/

theorem spread_spec : ∀ (l : List (Band × Int)) (left : Int), 0 ≤ left → (∀ x ∈ l, 0 ≤ x.2) →
    (spread l left).map (·.1) = l.map (·.1) ∧ (∀ x ∈ spread l left, 0 ≤ x.2) ∧
    sumBits (spread l left) = sumBits l + min left (sumW l) := by
  intro l
  induction l with
  | nil => intro left h _; simp [spread, sumBits, sumW]; omega
  | cons a t ih =>
    intro left h hn
    obtain ⟨b, bits⟩ := a
    have hb := hn (b, bits) (by simp)
    simp only at hb
    obtain ⟨h1, h2, h3⟩ := ih (left - min left (b.w : Int)) (by omega) (fun x hx => hn x (by simp [hx]))
    simp only [spread, List.map_cons, h1, sumBits, h3, sumW]
    refine ⟨trivial, ?_, ?_⟩
    · intro x hx
      simp only [List.mem_cons] at hx
      rcases hx with rfl | hx
      · simp only; omega
      · exact h2 x hx
    · omega

/-! ## the loop over the coded bands -/

/-- per-band guarantees, band by band -/
def AllOk (p : Inp) : List (Band × Int) → List BandOut → Prop
  | [], [] => True
  | x :: xs, o :: os =>
    (0 ≤ o.pulses ∧ o.pulses ≤ capLimit p x.1 ∧ 0 ≤ o.ebits ∧ o.ebits ≤ 8 ∧ (o.prio = 0 ∨ o.prio = 1)) ∧ AllOk p xs os
  | _, _ => False

theorem splitLoop_spec (p : Inp) (hp : Dom p) (intensity dual : Int) : ∀ (l : List (Band × Int)) (bal : Int),
    (∀ x ∈ l, 0 ≤ x.2 ∧ 1 ≤ x.1.w ∧ 0 ≤ x.1.cap) → 0 ≤ bal →
    AllOk p l (splitLoop p intensity dual l bal).1 ∧ 0 ≤ (splitLoop p intensity dual l bal).2 ∧
    sumOut (p.C : Int) (splitLoop p intensity dual l bal).1 + (splitLoop p intensity dual l bal).2 = sumBits l + bal := by
  intro l
  induction l with
  | nil => intro bal _ h; simp [splitLoop, AllOk, sumOut, sumBits, h]
  | cons a t ih =>
    intro bal hl hbal
    obtain ⟨b, bits⟩ := a
    obtain ⟨h1, h2, h3⟩ := hl (b, bits) (by simp)
    simp only at h1 h2 h3
    have ok := splitBand_ok p hp intensity dual b bits bal h2 h3 h1 hbal
    obtain ⟨i1, i2, i3⟩ := ih (splitBand p intensity dual b bits bal).2 (fun x hx => hl x (by simp [hx])) ok.bal_nn
    simp only [splitLoop, AllOk, sumOut, sumBits]
    refine ⟨⟨⟨ok.pulses_nn, ok.pulses_le, ok.ebits_nn, ok.ebits_le, ok.prio⟩, i1⟩, i2, ?_⟩
    have := ok.conserve
    omega

/-! ## the skipped bands -/

theorem skippedOut_spec (p : Inp) (hC : p.C = 1 ∨ p.C = 2) (bits : Int) (h : bits = allocFloor p.C ∨ bits = 0) :
    (skippedOut p bits).pulses = 0 ∧ 0 ≤ (skippedOut p bits).ebits ∧ (skippedOut p bits).ebits ≤ 1 ∧
    ((skippedOut p bits).prio = 0 ∨ (skippedOut p bits).prio = 1) ∧
    (p.C : Int) * (skippedOut p bits).ebits * 8 = bits := by
  have hB : (2 : Int) ^ BITRES = 8 := by decide
  unfold skippedOut allocFloor at *
  simp only [hB] at *
  rcases hC with hC | hC
  · have : (((1 : Nat) : Int)) = 1 := rfl
    simp only [hC, this, show ¬ (1 : Nat) > 1 by omega, if_false] at *
    have e0 : (2 : Int) ^ (0 : Nat) = 1 := by decide
    simp only [e0, Int.ediv_one]
    rcases h with h | h <;> subst h <;> simp
  · have : (((2 : Nat) : Int)) = 2 := rfl
    simp only [hC, this, show (2 : Nat) > 1 by omega, if_true] at *
    have e1 : (2 : Int) ^ (1 : Nat) = 2 := by decide
    simp only [e1]
    rcases h with h | h <;> subst h <;> simp

end OpusProofs.CeltAlloc
