import OpusModel.SilkVad
/-
  OpusProofs.SilkVad — range lemmas for the small functions of the SILK VAD (OpusModel.SilkVad):
  macro helpers inside 32 bits, `silk_sigm_Q15`, `silk_lin2log`, `silk_SQRT_APPROX`,
  `silk_ADD_POS_SAT32`.  The regenerated constants enter through the `*_eq` lemmas.
-/
namespace Opus.SilkVad
open Opus Opus.SilkParams

theorem noiseLevelsBias_eq : noiseLevelsBias = 50 := rfl
theorem noiseLevelSmoothCoefQ16_eq : noiseLevelSmoothCoefQ16 = 1024 := rfl
theorem snrFactorQ16_eq : snrFactorQ16 = 45000 := rfl
theorem negativeOffsetQ5_eq : negativeOffsetQ5 = 128 := rfl
theorem snrSmoothCoefQ18_eq : snrSmoothCoefQ18 = 4096 := rfl
theorem tiltWeights_eq : tiltWeights = ⟨30000, 6000, -12000, -12000⟩ := rfl
theorem aFb120_eq : aFb120 = 10788 := rfl
theorem aFb121_eq : aFb121 = -24290 := rfl
theorem int32Max_eq : int32Max = 2147483647 := rfl

theorem wrap32_id (x : Int) (h : -2147483648 ≤ x ∧ x ≤ 2147483647) : wrap32 x = x := by
  unfold wrap32; omega
theorem wrap16_id (x : Int) (h : -32768 ≤ x ∧ x ≤ 32767) : wrap16 x = x := by
  unfold wrap16; omega
theorem wrap16_range (x : Int) : -32768 ≤ wrap16 x ∧ wrap16 x ≤ 32767 := by
  unfold wrap16; omega
theorem wrap32_range (x : Int) : -2147483648 ≤ wrap32 x ∧ wrap32 x ≤ 2147483647 := by
  unfold wrap32; omega
theorem sat16_range (x : Int) : -32768 ≤ sat16 x ∧ sat16 x ≤ 32767 := by
  unfold sat16; split
  · omega
  · split <;> omega

/-- `silk_ADD_POS_SAT32` on non-negative 32-bit operands is `min(a+b, int32_MAX)`. -/
theorem addPosSat32_spec (a b : Int) (ha : 0 ≤ a ∧ a ≤ 2147483647) (hb : 0 ≤ b ∧ b ≤ 2147483647) :
    addPosSat32 a b = min (a + b) 2147483647 := by
  unfold addPosSat32 int32Max
  split <;> omega

theorem addPosSat32_range (a b : Int) (ha : 0 ≤ a ∧ a ≤ 2147483647) (hb : 0 ≤ b ∧ b ≤ 2147483647) :
    0 ≤ addPosSat32 a b ∧ addPosSat32 a b ≤ 2147483647 ∧ a ≤ addPosSat32 a b ∧ b ≤ addPosSat32 a b := by
  rw [addPosSat32_spec a b ha hb]; omega

/-! ### `silk_sigm_Q15` -/

theorem sigm_table : ∀ k : Nat, k < 192 →
    (0 ≤ sigmQ15 (k : Int) ∧ sigmQ15 (k : Int) ≤ 32767 ∧ 16384 ≤ sigmQ15 (k : Int)) ∧
    (0 ≤ sigmQ15 (-(k : Int)) ∧ sigmQ15 (-(k : Int)) ≤ 16384) := by
  decide +kernel

/-- `silk_sigm_Q15` maps every integer into `[0, 32767]`. -/
theorem sigmQ15_range (x : Int) : 0 ≤ sigmQ15 x ∧ sigmQ15 x ≤ 32767 := by
  by_cases hx : x < 0
  · by_cases h2 : -x ≥ 192
    · have : sigmQ15 x = 0 := by unfold sigmQ15; simp [hx, h2]
      omega
    · obtain ⟨k, hk⟩ : ∃ k : Nat, x = -(k : Int) := ⟨(-x).toNat, by omega⟩
      have := (sigm_table k (by omega)).2
      rw [hk]; omega
  · by_cases h2 : x ≥ 192
    · have : sigmQ15 x = 32767 := by unfold sigmQ15; simp [hx, h2]
      omega
    · obtain ⟨k, hk⟩ : ∃ k : Nat, x = (k : Int) := ⟨x.toNat, by omega⟩
      have := (sigm_table k (by omega)).1
      rw [hk]; omega

theorem sigmQ15_nonneg_arg (x : Int) (h : 0 ≤ x) : 16384 ≤ sigmQ15 x := by
  by_cases h2 : x ≥ 192
  · have : sigmQ15 x = 32767 := by unfold sigmQ15; simp [h2]; omega
    omega
  · obtain ⟨k, hk⟩ : ∃ k : Nat, x = (k : Int) := ⟨x.toNat, by omega⟩
    have := (sigm_table k (by omega)).1
    rw [hk]; omega

/-! ### leading zeros -/

theorem clz32_range (x : Int) (h0 : 0 < x) (h1 : x ≤ 2147483647) : 0 ≤ clz32 x ∧ clz32 x ≤ 31 := by
  unfold clz32
  have hx : x.toNat ≠ 0 := by omega
  have hlt : x.toNat < 2 ^ 31 := by omega
  have := (Nat.log2_lt hx).2 hlt
  simp only [show ¬ x = 0 by omega, show ¬ x < 0 by omega, if_false]
  omega

theorem clzFrac_range (x : Int) (h0 : 0 < x) (h1 : x ≤ 2147483647) :
    0 ≤ (clzFrac x).1 ∧ (clzFrac x).1 ≤ 31 ∧ 0 ≤ (clzFrac x).2 ∧ (clzFrac x).2 ≤ 127 := by
  have := clz32_range x h0 h1
  unfold clzFrac
  simp only
  omega

/-- `silk_lin2log` of a positive 32-bit value lies in `[0, 4139]`. -/
theorem lin2log_range (x : Int) (h0 : 0 < x) (h1 : x ≤ 2147483647) : 0 ≤ lin2log x ∧ lin2log x ≤ 4139 := by
  obtain ⟨hl0, hl1, hf0, hf1⟩ := clzFrac_range x h0 h1
  unfold lin2log
  generalize clzFrac x = p at *
  obtain ⟨lz, frac⟩ := p
  simp only at hl0 hl1 hf0 hf1 ⊢
  have hp0 : 0 ≤ frac * (128 - frac) := Int.mul_nonneg hf0 (by omega)
  have hp1 : frac * (128 - frac) ≤ 127 * 128 := Int.mul_le_mul hf1 (by omega) (by omega) (by omega)
  unfold smlawb lshift32
  rw [wrap16_id 179 (by omega)]
  have hq0 : 0 ≤ frac * (128 - frac) * 179 / 65536 := Int.ediv_nonneg (Int.mul_nonneg hp0 (by omega)) (by omega)
  have hq1 : frac * (128 - frac) * 179 / 65536 ≤ 44 := by
    have : frac * (128 - frac) * 179 ≤ 127 * 128 * 179 := Int.mul_le_mul_of_nonneg_right hp1 (by omega)
    omega
  rw [wrap32_id _ (by omega), wrap32_id _ (by simp only [Int.reducePow]; omega)]
  simp only [Int.reducePow]
  omega

theorem clz32_lower (x : Int) (k : Nat) (h0 : 0 < x) (hk : x < 2 ^ k) : 32 - (k : Int) ≤ clz32 x := by
  unfold clz32
  have hx : x.toNat ≠ 0 := by omega
  have hlt : x.toNat < 2 ^ k := by
    have : (x.toNat : Int) < ((2 ^ k : Nat) : Int) := by rw [Int.toNat_of_nonneg (by omega)]; exact_mod_cast hk
    exact_mod_cast this
  have := (Nat.log2_lt hx).2 hlt
  simp only [show ¬ x = 0 by omega, show ¬ x < 0 by omega, if_false]
  omega

/-! ### `silk_SQRT_APPROX` -/

/-- The value of `silk_SQRT_APPROX` as a function of the leading-zero count and the fraction bits. -/
def sqrtOf (lz frac : Int) : Int :=
  let y : Int := if lz % 2 = 1 then 32768 else 46214
  let y := shrI y (lz / 2).toNat
  y + y * (213 * frac) / 65536

theorem sqrtApprox_eq (x : Int) (h0 : 0 < x) (h1 : x ≤ 2147483647) :
    sqrtApprox x = sqrtOf (clzFrac x).1 (clzFrac x).2 ∧ 0 ≤ (clzFrac x).1 ∧ (clzFrac x).1 ≤ 31 ∧
      0 ≤ (clzFrac x).2 ∧ (clzFrac x).2 ≤ 127 := by
  obtain ⟨hl0, hl1, hf0, hf1⟩ := clzFrac_range x h0 h1
  refine ⟨?_, hl0, hl1, hf0, hf1⟩
  unfold sqrtApprox sqrtOf
  rw [if_neg (by omega)]
  generalize clzFrac x = p at *
  obtain ⟨lz, frac⟩ := p
  simp only at hl0 hl1 hf0 hf1 ⊢
  have hlz : lz = 0 ∨ lz = 1 ∨ lz = 2 ∨ lz = 3 ∨ lz = 4 ∨ lz = 5 ∨ lz = 6 ∨ lz = 7 ∨ lz = 8 ∨ lz = 9 ∨ lz = 10 ∨ lz = 11 ∨
      lz = 12 ∨ lz = 13 ∨ lz = 14 ∨ lz = 15 ∨ lz = 16 ∨ lz = 17 ∨ lz = 18 ∨ lz = 19 ∨ lz = 20 ∨ lz = 21 ∨ lz = 22 ∨ lz = 23 ∨
      lz = 24 ∨ lz = 25 ∨ lz = 26 ∨ lz = 27 ∨ lz = 28 ∨ lz = 29 ∨ lz = 30 ∨ lz = 31 := by omega
  unfold smlawb smulbb
  rw [wrap16_id 213 (by omega), wrap16_id frac (by omega), wrap16_id (213 * frac) (by omega)]
  rcases hlz with h | h | h | h | h | h | h | h | h | h | h | h | h | h | h | h | h | h | h | h | h | h | h | h | h | h | h | h | h | h | h | h <;>
    subst h <;> simp [shrI] <;> (rw [wrap32_id _ (by omega)])

/-- Bounds of `silk_SQRT_APPROX` by the size of its argument. -/
theorem sqrtOf_bound (lz frac : Int) (hl0 : 0 ≤ lz) (hl1 : lz ≤ 31) (hf0 : 0 ≤ frac) (hf1 : frac ≤ 127) :
    0 ≤ sqrtOf lz frac ∧ sqrtOf lz frac ≤ 65290 ∧ (2 ≤ lz → sqrtOf lz frac ≤ 32645) ∧ (8 ≤ lz → sqrtOf lz frac ≤ 4081) ∧
      (12 ≤ lz → sqrtOf lz frac ≤ 1021) := by
  have hlz : lz = 0 ∨ lz = 1 ∨ lz = 2 ∨ lz = 3 ∨ lz = 4 ∨ lz = 5 ∨ lz = 6 ∨ lz = 7 ∨ lz = 8 ∨ lz = 9 ∨ lz = 10 ∨ lz = 11 ∨
      lz = 12 ∨ lz = 13 ∨ lz = 14 ∨ lz = 15 ∨ lz = 16 ∨ lz = 17 ∨ lz = 18 ∨ lz = 19 ∨ lz = 20 ∨ lz = 21 ∨ lz = 22 ∨ lz = 23 ∨
      lz = 24 ∨ lz = 25 ∨ lz = 26 ∨ lz = 27 ∨ lz = 28 ∨ lz = 29 ∨ lz = 30 ∨ lz = 31 := by omega
  unfold sqrtOf
  rcases hlz with h | h | h | h | h | h | h | h | h | h | h | h | h | h | h | h | h | h | h | h | h | h | h | h | h | h | h | h | h | h | h | h <;>
    subst h <;> simp [shrI] <;> omega

theorem sqrtApprox_nonneg (x : Int) (h1 : x ≤ 2147483647) : 0 ≤ sqrtApprox x := by
  by_cases h0 : 0 < x
  · obtain ⟨he, a, b, c, d⟩ := sqrtApprox_eq x h0 h1
    rw [he]; exact (sqrtOf_bound _ _ a b c d).1
  · unfold sqrtApprox; rw [if_pos (by omega)]; omega

theorem sqrtApprox_le (x : Int) (h1 : x ≤ 2147483647) : sqrtApprox x ≤ 65290 := by
  by_cases h0 : 0 < x
  · obtain ⟨he, a, b, c, d⟩ := sqrtApprox_eq x h0 h1
    rw [he]; exact (sqrtOf_bound _ _ a b c d).2.1
  · unfold sqrtApprox; rw [if_pos (by omega)]; omega

/-- `x < 2^30` ⇒ at most 32645; `x < 2^24` ⇒ at most 4081; `x < 2^20` ⇒ at most 1021. -/
theorem sqrtApprox_small (x : Int) (k : Nat) (hk : x < 2 ^ k) (hk30 : k ≤ 30) :
    sqrtApprox x ≤ 32645 ∧ (k ≤ 24 → sqrtApprox x ≤ 4081) ∧ (k ≤ 20 → sqrtApprox x ≤ 1021) := by
  by_cases h0 : 0 < x
  · have h1 : x ≤ 2147483647 := by
      have : (2 : Int) ^ k ≤ 2 ^ 30 := by exact_mod_cast Nat.pow_le_pow_right (by omega : 0 < 2) hk30
      simp only [Int.reducePow] at this; omega
    obtain ⟨he, a, b, c, d⟩ := sqrtApprox_eq x h0 h1
    have hl := clz32_lower x k h0 hk
    have hcl : (clzFrac x).1 = clz32 x := rfl
    rw [he]
    have hb := sqrtOf_bound _ _ a b c d
    refine ⟨hb.2.2.1 (by omega), fun h => hb.2.2.2.1 (by omega), fun h => hb.2.2.2.2 (by omega)⟩
  · have : sqrtApprox x = 0 := by unfold sqrtApprox; rw [if_pos (by omega)]
    rw [this]; omega

end Opus.SilkVad
