import OpusProofs.ExtRepGen2
/-
  C16 helper lemmas, part 20: what the generator writes for the repeated payloads of the later frames.
-/
set_option linter.unusedVariables false
namespace Opus.ExtProofs
open Opus Opus.Ext

theorem wPayload_spec {nbF : Nat} {x : Ext} (hv : ValidExt nbF x) (flag : Bool) :
    (wPayload x flag).res = .ok () ∧ content false (wPayload x flag).ops = (extBytes x flag).tail := by
  have h1 := hv.id_lo; have h2 := hv.id_hi; have h3 := hv.len_lo
  have hid : (3 ≤ x.id ∧ x.id ≤ 127) := ⟨h1, h2⟩
  unfold wPayload extBytes payload
  simp only [hid, not_true_eq_false, if_false, and_self, List.tail_cons]
  by_cases hs : x.id < 32
  · have hl := hv.short hs
    have c : ¬ (x.len < 0 ∨ x.len > 1) := by omega
    simp only [hs, if_true, c, if_false, true_or]
    by_cases hl1 : x.len > 0
    · have : x.len.toNat = 1 := by omega
      simp only [hl1, if_true, W.emit, content, Bool.false_eq_true, if_false, this]
      simp
    · have : x.len.toNat = 0 := by omega
      simp [hl1, W.pure_eq, content, this]
  · have c : ¬ (x.len < 0) := by omega
    simp only [hs, if_false, c, false_or]
    cases flag with
    | true => simp [W.emit, content]
    | false =>
      simp only [Bool.false_eq_true, if_false, W.emit, List.cons_append, List.nil_append, content,
        content_append, content_puts, lenBytes, List.append_assoc, true_and]
      have hq : (x.len / 255).toNat = x.len.toNat / 255 := by omega
      have hm : (x.len % 255).toNat = x.len.toNat % 255 := by omega
      rw [hq, hm]
      simp

theorem repBlock_cons2' (R : Nat) (last : Bool) (ll : Option Nat) (r r' : List Ext) (rs : List (List Ext)) :
    repBlock R last ll (r :: r' :: rs) = repPayloads none 0 (r.take R) ++ repBlock R last ll (r' :: rs) := rfl

section
variable {exts : Array Ext} {nbF : Nat}

/-- Repeated payloads of one later frame `g`: indices `[j, hi)`. -/
theorem wRepeatsOfFrame_spec (hv : AllIF exts nbF) (hD : ExtsOk exts) (g : Nat) (last : Bool) (lastLong : Option Nat) (z : Option Nat)
    (j hi written : Nat) (hhi : hi ≤ exts.size) :
    ∀ k, (∀ x ∈ seg exts j hi g, LenOk x) → (∀ j' e, j ≤ j' → j' < hi → exts[j']? = some e → e.frame.toNat = g →
        ((last = true ∧ lastLong = some j') ↔ z = some (k + (seg exts j j' g).length))) →
    (wRepeatsOfFrame exts g last lastLong j hi written).res = .ok (written + (seg exts j hi g).length) ∧
    content false (wRepeatsOfFrame exts g last lastLong j hi written).ops = repPayloads z k (seg exts j hi g) := by
  fun_induction wRepeatsOfFrame exts g last lastLong j hi written with
  | case1 j written hlt ih2 ih1 =>
    intro k hL hflag
    have hin : j < exts.size := by omega
    have hget : exts[j]? = some exts[j] := Array.getElem?_eq_getElem hin
    have hrd : rdE exts j = .ok exts[j] := by simp only [rdE]; rw [hget]
    have hif := hv j _ hget
    have hsegstep := seg_step exts j hi g _ hlt hget
    rw [hrd, W.lift_ok_bind, hsegstep]
    by_cases hfe : exts[j].frame = (g : Int)
    · have hfn : exts[j].frame.toNat = g := by have := hif.fr_lo; omega
      have hve : ValidExt nbF exts[j] := validExt_of hif (hL _ (by rw [hsegstep]; simp [hfn])) (hD j _ hget)
      have hLt : ∀ x ∈ seg exts (j + 1) hi g, LenOk x := fun x hx => hL x (by rw [hsegstep]; exact List.mem_append_right _ hx)
      simp only [hfe, if_true]
      have hff : ((g : Int)).toNat = g := by omega
      simp only [hff, if_true, List.singleton_append, List.length_cons, repPayloads]
      have hfl : (last && lastLong == some j) = decide (z = some k) := by
        have := hflag j _ (Nat.le_refl _) hlt hget hfn
        rw [seg_empty exts g (Nat.le_refl _)] at this
        simp only [List.length_nil, Nat.add_zero] at this
        by_cases hz : z = some k
        · have h := this.mpr hz
          simp [h.1, h.2, hz]
        · have h : ¬ (last = true ∧ lastLong = some j) := fun h => hz (this.mp h)
          simp only [hz, decide_false]
          cases last with
          | false => rfl
          | true =>
            simp only [Bool.true_and]
            have : ¬ lastLong = some j := fun hh => h ⟨rfl, hh⟩
            cases lastLong with
            | none => rfl
            | some v => simp at this ⊢; exact this
      obtain ⟨p1, p2⟩ := wPayload_spec hve (last && lastLong == some j)
      rw [W.bind_of_ok _ p1]
      simp only
      obtain ⟨q1, q2⟩ := ih2 (k + 1) hLt (by
        intro j' e hj1 hj2 he hef
        have := hflag j' e (by omega) hj2 he hef
        rw [seg_split exts g (show j ≤ j + 1 by omega) hj1] at this
        have h1 : seg exts j (j + 1) g = [exts[j]] := by
          rw [seg_step exts j (j + 1) g _ (by omega) hget, seg_empty exts g (Nat.le_refl _)]; simp [hfn]
        rw [h1] at this
        simp only [List.singleton_append, List.length_cons] at this
        rw [this]
        constructor <;> (intro h; rw [h]; congr 1; omega))
      refine ⟨?_, ?_⟩
      · rw [q1]; congr 1; omega
      · rw [content_append, p2, q2, hfl]
    · have hfn : ¬ exts[j].frame.toNat = g := by have := hif.fr_lo; omega
      simp only [hfe, hfn, if_false, List.nil_append]
      exact ih1 k (fun x hx => hL x (by rw [hsegstep]; simp [hfn]; exact hx)) (by
        intro j' e hj1 hj2 he hef
        have := hflag j' e (by omega) hj2 he hef
        rw [seg_split exts g (show j ≤ j + 1 by omega) hj1] at this
        have h1 : seg exts j (j + 1) g = [] := by
          rw [seg_step exts j (j + 1) g _ (by omega) hget, seg_empty exts g (Nat.le_refl _)]; simp [hfn]
        rw [h1] at this
        simpa using this)
  | case2 j written hge =>
    intro k _ _
    rw [seg_empty exts g (by omega)]
    simp [W.pure_eq, content, repPayloads]

theorem wPayload_bad {x : Ext} (hif : IFExt nbF x) (hb : ¬ LenOk x) (flag : Bool) : (wPayload x flag).res = .err .badArg := by
  have h1 := hif.id_lo; have h2 := hif.id_hi
  have hid : (3 ≤ x.id ∧ x.id ≤ 127) := ⟨h1, h2⟩
  unfold wPayload
  simp only [hid, not_true_eq_false, if_false, and_self]
  unfold LenOk at hb
  by_cases hs : x.id < 32
  · have c : (x.len < 0 ∨ x.len > 1) := by
      apply Decidable.byContradiction; intro hc
      exact hb ⟨by omega, fun _ => by omega⟩
    simp only [hs, if_true, c, W.lift]
  · have c : x.len < 0 := by
      apply Decidable.byContradiction; intro hc
      exact hb ⟨by omega, fun h => absurd h hs⟩
    simp only [hs, if_false, c, if_true, W.lift]

theorem wExt_bad {x : Ext} (hif : IFExt nbF x) (hb : ¬ LenOk x) (flag : Bool) : (wExt x flag).res = .err .badArg := by
  have h1 := hif.id_lo; have h2 := hif.id_hi
  have hid : (3 ≤ x.id ∧ x.id ≤ 127) := ⟨h1, h2⟩
  simp only [wExt, W.bind_eq, W.bind, W.emit, hid, not_true_eq_false, if_false, and_self, wPayload_bad hif hb]

theorem wPayload_res_ok {x : Ext} (hif : IFExt nbF x) (hok : LenOk x) (flag : Bool) : (wPayload x flag).res = .ok () := by
  have h1 := hif.id_lo; have h2 := hif.id_hi
  have hid : (3 ≤ x.id ∧ x.id ≤ 127) := ⟨h1, h2⟩
  unfold wPayload
  simp only [hid, not_true_eq_false, if_false, and_self]
  obtain ⟨l1, l2⟩ := hok
  by_cases hs : x.id < 32
  · have := l2 hs
    have c : ¬ (x.len < 0 ∨ x.len > 1) := by omega
    simp only [hs, if_true, c, if_false]
    split <;> rfl
  · have c : ¬ (x.len < 0) := by omega
    simp only [hs, if_false, c]
    rfl

theorem wExt_res_ok {x : Ext} (hif : IFExt nbF x) (hok : LenOk x) (flag : Bool) : (wExt x flag).res = .ok () := by
  have h1 := hif.id_lo; have h2 := hif.id_hi
  have hid : (3 ≤ x.id ∧ x.id ≤ 127) := ⟨h1, h2⟩
  simp only [wExt, W.bind_eq, W.bind, W.emit, hid, not_true_eq_false, if_false, and_self, wPayload_res_ok hif hok]

theorem W.bind_of_err {α β : Type} {x : W α} {e : Err} (f : α → W β) (h : x.res = .err e) : (x >>= f).res = .err e := by
  simp only [W.bind_eq, W.bind, h]

/-- A repeated extension with an inadmissible length makes the payload loop return `OPUS_BAD_ARG`. -/
theorem wRepeatsOfFrame_bad (hv : AllIF exts nbF) (g : Nat) (last : Bool) (lastLong : Option Nat)
    (j hi written : Nat) (hhi : hi ≤ exts.size) :
    (∃ x ∈ seg exts j hi g, ¬ LenOk x) → (wRepeatsOfFrame exts g last lastLong j hi written).res = .err .badArg := by
  fun_induction wRepeatsOfFrame exts g last lastLong j hi written with
  | case1 j written hlt ih2 ih1 =>
    intro hbad
    have hin : j < exts.size := by omega
    have hget : exts[j]? = some exts[j] := Array.getElem?_eq_getElem hin
    have hrd : rdE exts j = .ok exts[j] := by simp only [rdE]; rw [hget]
    have hif := hv j _ hget
    have hsegstep := seg_step exts j hi g _ hlt hget
    rw [hrd, W.lift_ok_bind]
    rw [hsegstep] at hbad
    by_cases hfe : exts[j].frame = (g : Int)
    · have hfn : exts[j].frame.toNat = g := by have := hif.fr_lo; omega
      simp only [hfe, if_true]
      simp only [hfn, if_true, List.singleton_append] at hbad
      by_cases hok : LenOk exts[j]
      · obtain ⟨x, hx, hxb⟩ := hbad
        have hx' : x ∈ seg exts (j + 1) hi g := by
          rcases List.mem_cons.mp hx with rfl | h
          · exact absurd hok hxb
          · exact h
        have hres : (wPayload exts[j] (last && lastLong == some j)).res = .ok () := wPayload_res_ok hif hok _
        rw [W.bind_of_ok _ hres]
        exact ih2 ⟨x, hx', hxb⟩
      · exact W.bind_of_err _ (wPayload_bad hif hok _)
    · have hfn : ¬ exts[j].frame.toNat = g := by have := hif.fr_lo; omega
      simp only [hfe, if_false]
      simp only [hfn, if_false, List.nil_append] at hbad
      exact ih1 hbad
  | case2 j written hge =>
    intro ⟨x, hx, _⟩
    rw [seg_empty exts g (by omega)] at hx; cases hx

/-- Number of payloads written for the queues `rs`. -/
def takeTotal (R : Nat) (rs : List (List Ext)) : Nat := (rs.map (fun r => (r.take R).length)).sum

/-- The repeated payloads of all later frames `g, g+1, …`. -/
theorem wRepeatsLoop_spec (hv : AllIF exts nbF) (hD : ExtsOk exts) (mx : List Nat) (R : Nat) (last : Bool) (lastLong llp : Option Nat)
    (rep0 : List Nat) (hr0 : rep0.length = nbF) (g : Nat) (s : GSt) :
    s.repIdx = rep0 → s.minIdx.length = nbF →
    (∀ g', g ≤ g' → g' < nbF → ∀ x ∈ seg exts (s.minIdx.getD g' 0) (rep0.getD g' 0) g', LenOk x) →
    (∀ g', g ≤ g' → g' < nbF → s.minIdx.getD g' 0 ≤ rep0.getD g' 0 ∧ rep0.getD g' 0 ≤ exts.size ∧
      seg exts (s.minIdx.getD g' 0) (rep0.getD g' 0) g' = (remQ exts mx s.minIdx g').take R) →
    (∀ g' j' e, g ≤ g' → g' + 1 < nbF → exts[j']? = some e → e.frame.toNat = g' → ¬ (last = true ∧ lastLong = some j')) →
    (∀ j' e, g ≤ nbF - 1 → s.minIdx.getD (nbF - 1) 0 ≤ j' → j' < rep0.getD (nbF - 1) 0 → exts[j']? = some e → e.frame.toNat = nbF - 1 →
      ((last = true ∧ lastLong = some j') ↔
        (if last then llp else none) = some (0 + (seg exts (s.minIdx.getD (nbF - 1) 0) j' (nbF - 1)).length))) →
    ∃ s', (wRepeatsLoop exts nbF last lastLong g s).res = .ok s' ∧ s'.repIdx = rep0 ∧ s'.currFrame = s.currFrame ∧
      s'.minIdx.length = nbF ∧ (∀ g', g' < g → s'.minIdx.getD g' 0 = s.minIdx.getD g' 0) ∧
      (∀ g', g ≤ g' → g' < nbF → s'.minIdx.getD g' 0 = rep0.getD g' 0) ∧
      s'.written = s.written + takeTotal R (remsFrom exts mx s.minIdx nbF g) ∧
      content false (wRepeatsLoop exts nbF last lastLong g s).ops = repBlock R last llp (remsFrom exts mx s.minIdx nbF g) := by
  fun_induction wRepeatsLoop exts nbF last lastLong g s with
  | case1 g s hlt ih =>
    intro hrep hml hLall hseg hfl1 hfl2
    rw [rdN_getD (by rw [hml]; exact hlt), W.lift_ok_bind, hrep, rdN_getD (by rw [hr0]; exact hlt), W.lift_ok_bind]
    obtain ⟨hs1, hs2, hs3⟩ := hseg g (Nat.le_refl _) hlt
    have hmaxeq : max (s.minIdx.getD g 0) (rep0.getD g 0) = rep0.getD g 0 := by omega
    -- the flag position for this frame
    obtain ⟨p1, p2⟩ := wRepeatsOfFrame_spec hv hD g last lastLong (if g + 1 < nbF then none else (if last then llp else none))
      (s.minIdx.getD g 0) (rep0.getD g 0) s.written hs2 0 (hLall g (Nat.le_refl _) hlt) (by
        intro j' e hj1 hj2 he hef
        by_cases hgl : g + 1 < nbF
        · simp only [hgl, if_true]
          constructor
          · intro h; exact absurd h (hfl1 g j' e (Nat.le_refl _) hgl he hef)
          · intro h; cases h
        · simp only [hgl, if_false]
          have hg : g = nbF - 1 := by omega
          subst hg
          exact hfl2 j' e (Nat.le_refl _) hj1 hj2 he hef)
    rw [W.bind_of_ok _ p1]
    simp only
    rw [hmaxeq]
    have hset_ne : ∀ g', g' ≠ g → (s.minIdx.set g (rep0.getD g 0)).getD g' 0 = s.minIdx.getD g' 0 :=
      fun g' hg => getD_set_ne' _ _ _ _ (fun h => hg h.symm)
    have hremq : ∀ g', g + 1 ≤ g' → g' < nbF → remQ exts mx (s.minIdx.set g (rep0.getD g 0)) g' = remQ exts mx s.minIdx g' := by
      intro g' h1 h2; unfold remQ; rw [hset_ne g' (by omega)]
    have hrems : remsFrom exts mx (s.minIdx.set g (rep0.getD g 0)) nbF (g + 1) = remsFrom exts mx s.minIdx nbF (g + 1) := by
      have := remsFrom_congr (rep := s.minIdx) (rep' := s.minIdx.set g (rep0.getD g 0)) (nbF := nbF) (g0 := g + 1) id
        (fun g' h1 h2 => by simpa using hremq g' h1 h2)
      simpa using this
    have ih' := ih (s.minIdx.getD g 0) (rep0.getD g 0) (s.written + (seg exts (s.minIdx.getD g 0) (rep0.getD g 0) g).length)
    rw [hmaxeq, hrep] at ih'
    obtain ⟨s', q1, q2, q3, q4, q5, q6, q7, q8⟩ := ih'
      rfl (by simp [hml])
      (fun g' h1 h2 x hx => by
        simp only at hx
        rw [hset_ne g' (by omega)] at hx
        exact hLall g' (by omega) h2 x hx)
      (fun g' h1 h2 => by
        have := hseg g' (by omega) h2
        simp only
        rw [hset_ne g' (by omega), hremq g' h1 h2]; exact this)
      (fun g' j' e h1 h2 he hef => hfl1 g' j' e (by omega) h2 he hef)
      (fun j' e h1 h2 h3 he hef => by
        simp only at h2 ⊢
        rw [hset_ne (nbF - 1) (by omega)] at h2 ⊢
        exact hfl2 j' e (by omega) h2 h3 he hef)
    simp only at q3 q5 q6 q7
    refine ⟨s', q1, q2, q3, q4, ?_, ?_, ?_, ?_⟩
    · intro g' hg'; rw [q5 g' (by omega), hset_ne g' (by omega)]
    · intro g' h1 h2
      by_cases hgg : g' = g
      · subst hgg; rw [q5 g' (by omega), getD_set_eq' _ _ _ (by rw [hml]; exact hlt)]
      · exact q6 g' (by omega) h2
    · rw [q7, hrems, remsFrom_succ exts mx s.minIdx hlt]
      simp only [takeTotal, List.map_cons, List.sum_cons, hs3]
      omega
    · rw [content_append, p2, q8, hrems, remsFrom_succ exts mx s.minIdx hlt, hs3]
      by_cases hgl : g + 1 < nbF
      · simp only [hgl, if_true]
        rw [remsFrom_succ exts mx s.minIdx hgl, repBlock_cons2']
      · simp only [hgl, if_false]
        rw [remsFrom_end exts mx s.minIdx (by omega)]
        simp [repBlock]
  | case2 g s hge =>
    intro hrep hml _ _ _ _
    rw [remsFrom_end exts mx s.minIdx (by omega)]
    exact ⟨s, rfl, hrep, rfl, hml, fun _ _ => rfl, fun g' h1 h2 => by omega, by simp [takeTotal], by simp [W.pure_eq, content, repBlock]⟩

theorem wRepeatsOfFrame_res_ok (hv : AllIF exts nbF) (g : Nat) (last : Bool) (lastLong : Option Nat)
    (j hi written : Nat) (hhi : hi ≤ exts.size) :
    (∀ x ∈ seg exts j hi g, LenOk x) →
    (wRepeatsOfFrame exts g last lastLong j hi written).res = .ok (written + (seg exts j hi g).length) := by
  fun_induction wRepeatsOfFrame exts g last lastLong j hi written with
  | case1 j written hlt ih2 ih1 =>
    intro hL
    have hin : j < exts.size := by omega
    have hget : exts[j]? = some exts[j] := Array.getElem?_eq_getElem hin
    have hrd : rdE exts j = .ok exts[j] := by simp only [rdE]; rw [hget]
    have hif := hv j _ hget
    have hsegstep := seg_step exts j hi g _ hlt hget
    rw [hrd, W.lift_ok_bind, hsegstep]
    by_cases hfe : exts[j].frame = (g : Int)
    · have hfn : exts[j].frame.toNat = g := by have := hif.fr_lo; omega
      have hok : LenOk exts[j] := hL _ (by rw [hsegstep]; simp [hfn])
      simp only [hfe, if_true]
      have hff : ((g : Int)).toNat = g := by omega
      simp only [hff, if_true, List.singleton_append, List.length_cons]
      rw [W.bind_of_ok _ (wPayload_res_ok hif hok _)]
      simp only
      rw [ih2 (fun x hx => hL x (by rw [hsegstep]; exact List.mem_append_right _ hx))]
      congr 1; omega
    · have hfn : ¬ exts[j].frame.toNat = g := by have := hif.fr_lo; omega
      simp only [hfe, hfn, if_false, List.nil_append]
      exact ih1 (fun x hx => hL x (by rw [hsegstep]; simp [hfn]; exact hx))
  | case2 j written hge =>
    intro _
    rw [seg_empty exts g (by omega)]
    simp [W.pure_eq]

/-- A repeated extension of some later frame with an inadmissible length makes the loop over the later
    frames return `OPUS_BAD_ARG`. -/
theorem wRepeatsLoop_bad (hv : AllIF exts nbF) (last : Bool) (lastLong : Option Nat)
    (rep0 : List Nat) (hr0 : rep0.length = nbF) (g : Nat) (s : GSt) :
    s.repIdx = rep0 → s.minIdx.length = nbF →
    (∀ g', g ≤ g' → g' < nbF → rep0.getD g' 0 ≤ exts.size) →
    (∃ g', g ≤ g' ∧ g' < nbF ∧ ∃ x ∈ seg exts (s.minIdx.getD g' 0) (rep0.getD g' 0) g', ¬ LenOk x) →
    (wRepeatsLoop exts nbF last lastLong g s).res = .err .badArg := by
  fun_induction wRepeatsLoop exts nbF last lastLong g s with
  | case1 g s hlt ih =>
    intro hrep hml hb hbad
    rw [rdN_getD (by rw [hml]; exact hlt), W.lift_ok_bind, hrep, rdN_getD (by rw [hr0]; exact hlt), W.lift_ok_bind]
    have hs2 := hb g (Nat.le_refl _) hlt
    by_cases hhere : ∃ x ∈ seg exts (s.minIdx.getD g 0) (rep0.getD g 0) g, ¬ LenOk x
    · exact W.bind_of_err _ (wRepeatsOfFrame_bad hv g last lastLong _ _ _ hs2 hhere)
    · have hLg : ∀ x ∈ seg exts (s.minIdx.getD g 0) (rep0.getD g 0) g, LenOk x := by
        intro x hx; apply Decidable.byContradiction; intro hc; exact hhere ⟨x, hx, hc⟩
      rw [W.bind_of_ok _ (wRepeatsOfFrame_res_ok hv g last lastLong _ _ s.written hs2 hLg)]
      simp only
      have hset_ne : ∀ (v : Nat) g', g' ≠ g → (s.minIdx.set g v).getD g' 0 = s.minIdx.getD g' 0 :=
        fun v g' hg => getD_set_ne' _ _ _ _ (fun h => hg h.symm)
      obtain ⟨g', h1, h2, x, hx, hxb⟩ := hbad
      have hgg : g' ≠ g := by intro h; subst h; exact hhere ⟨x, hx, hxb⟩
      have ih' := ih (s.minIdx.getD g 0) (rep0.getD g 0) (s.written + (seg exts (s.minIdx.getD g 0) (rep0.getD g 0) g).length)
      rw [hrep] at ih'
      exact ih' rfl (by simp [hml]) (fun g'' h1' h2' => hb g'' (by omega) h2')
        ⟨g', by omega, h2, x, by simp only; rw [hset_ne _ g' hgg]; exact hx, hxb⟩
  | case2 g s hge =>
    intro _ _ _ ⟨g', h1, h2, _⟩; omega

/-- When all repeated extensions have admissible lengths the loop over the later frames succeeds and leaves
    `frame_repeat_idx` alone. -/
theorem wRepeatsLoop_res_ok (hv : AllIF exts nbF) (last : Bool) (lastLong : Option Nat)
    (rep0 : List Nat) (hr0 : rep0.length = nbF) (g : Nat) (s : GSt) :
    s.repIdx = rep0 → s.minIdx.length = nbF →
    (∀ g', g ≤ g' → g' < nbF → rep0.getD g' 0 ≤ exts.size) →
    (∀ g', g ≤ g' → g' < nbF → ∀ x ∈ seg exts (s.minIdx.getD g' 0) (rep0.getD g' 0) g', LenOk x) →
    ∃ s3, (wRepeatsLoop exts nbF last lastLong g s).res = .ok s3 ∧ s3.repIdx = rep0 := by
  fun_induction wRepeatsLoop exts nbF last lastLong g s with
  | case1 g s hlt ih =>
    intro hrep hml hb hL
    rw [rdN_getD (by rw [hml]; exact hlt), W.lift_ok_bind, hrep, rdN_getD (by rw [hr0]; exact hlt), W.lift_ok_bind]
    have hs2 := hb g (Nat.le_refl _) hlt
    rw [W.bind_of_ok _ (wRepeatsOfFrame_res_ok hv g last lastLong _ _ s.written hs2 (hL g (Nat.le_refl _) hlt))]
    simp only
    have hset_ne : ∀ (v : Nat) g', g' ≠ g → (s.minIdx.set g v).getD g' 0 = s.minIdx.getD g' 0 :=
      fun v g' hg => getD_set_ne' _ _ _ _ (fun h => hg h.symm)
    have ih' := ih (s.minIdx.getD g 0) (rep0.getD g 0) (s.written + (seg exts (s.minIdx.getD g 0) (rep0.getD g 0) g).length)
    rw [hrep] at ih'
    exact ih' rfl (by simp [hml]) (fun g'' h1' h2' => hb g'' (by omega) h2')
      (fun g' h1 h2 x hx => by
        simp only at hx
        rw [hset_ne _ g' (by omega)] at hx
        exact hL g' (by omega) h2 x hx)
  | case2 g s hge =>
    intro hrep _ _ _
    exact ⟨s, rfl, hrep⟩

end
end Opus.ExtProofs
