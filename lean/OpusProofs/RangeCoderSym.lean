import OpusProofs.RangeCoderDec
/-
  OpusProofs.RangeCoderSym — C08 Stage B, decoder side of every primitive range-coded
  operation: if the decoder state mirrors the encoder state (invariant D) and the code
  stream lies in the interval the encoder reached after the operation, then the decoder
  returns the encoded symbol and mirrors the encoder state after the operation.
-/
namespace Opus.RangeCoder

/-- The decoder's pre-normalisation state of a subdivision `(r, a, b, first)`. -/
def decSub (d : Dec) (r a b : Nat) (first : Bool) : Dec :=
  { d with val := d.val - r * b, rng := if first then d.rng - r * b else r * (a - b) }

theorem decSub_eq (d : Dec) (r a b : Nat) (first : Bool) (v g : Nat) (hv : v = d.val - r * b)
    (hg : g = if first then d.rng - r * b else r * (a - b)) :
    ({ d with val := v, rng := g } : Dec) = decSub d r a b first := by subst hv hg; rfl

theorem DecInv.set_ext {B : List Nat} {S : Nat} {e : Enc} {d : Dec} {Bt : List Nat} (h : DecInv B S e d Bt)
    (x : Nat) : DecInv B S e { d with ext := x } Bt :=
  ⟨h.buf_eq, h.storage_eq, h.rng_eq, h.nbits_eq, h.val_eq, h.offs_eq, h.rem_eq⟩

/-- Invariant D across the subdivision step, and where the decoder's `val` lies. -/
theorem decSub_spec (B : List Nat) (S : Nat) (e : Enc) (d : Dec) (r a b : Nat) (first : Bool) (Bt : List Nat)
    (inv : EncInv e) (ok : SubOk e.rng r a b) (dinv : DecInv B S e d Bt)
    (hc : Contains Bt S (encSub e r a b first)) :
    DecInv B S (encSub e r a b first) (decSub d r a b first) Bt ∧ r * b ≤ d.val ∧ d.val < e.rng ∧
    (first = false → d.val < r * a) := by
  obtain ⟨f1, f2, f3⟩ := ok.facts
  have hr := ok.r_pos
  have hc0 : Contains Bt S e := (encSub_spec e r a b first inv ok).2.2 Bt S hc
  obtain ⟨ib, is, ir, inb, iv, io, irem⟩ := dinv
  unfold Contains encLow at hc hc0
  rw [encSub_digitsVal, encSub_encM] at hc
  have key : (decSub d r a b first).val + codeVal Bt S (encM e + 4) / 2 + 1 =
      digitsVal e * 2147483648 + (encSub e r a b first).val + (encSub e r a b first).rng ∧
      r * b ≤ d.val ∧ d.val < e.rng ∧ (first = false → d.val < r * a) ∧
      (decSub d r a b first).rng = (encSub e r a b first).rng := by
    unfold encLow at iv
    cases first
    · simp only [encSub, decSub, Bool.false_eq_true, if_false] at hc ⊢
      rw [f2] at hc ⊢
      refine ⟨by omega, by omega, by omega, fun _ => by omega, trivial⟩
    · simp only [encSub, decSub, if_true] at hc ⊢
      refine ⟨by omega, by omega, by omega, fun h => absurd h (by decide), by rw [ir]⟩
  obtain ⟨k1, k2, k3, k4, k5⟩ := key
  refine ⟨⟨ib, is, k5, by rw [encSub_nbitsTotal]; exact inb, ?_, ?_, ?_⟩, k2, k3, k4⟩
  · unfold encLow; rw [encSub_digitsVal, encSub_encM]; omega
  · rw [encSub_encM]; exact io
  · rw [encSub_encM]; exact irem

/-! ### Frame of `ec_dec_normalize` -/

theorem decNormalize_frame {α} (f : Dec → α)
    (h : ∀ (d : Dec) o n r m v, f { d with offs := o, nbitsTotal := n, rng := r, rem := m, val := v } = f d)
    (d : Dec) : f (decNormalize d) = f d := by
  fun_induction decNormalize d with
  | case1 c hc b c1 hb sym ih =>
    rw [ih]
    have : c1 = (readByte c).2 := by rw [hb]
    subst this
    unfold readByte
    split
    · exact h c _ _ _ _ _
    · exact h c c.offs _ _ _ _
  | case2 c hc => rfl

@[simp] theorem decNormalize_endOffs (d : Dec) : (decNormalize d).endOffs = d.endOffs :=
  decNormalize_frame (·.endOffs) (fun _ _ _ _ _ _ => rfl) d
@[simp] theorem decNormalize_endWindow (d : Dec) : (decNormalize d).endWindow = d.endWindow :=
  decNormalize_frame (·.endWindow) (fun _ _ _ _ _ _ => rfl) d
@[simp] theorem decNormalize_nendBits (d : Dec) : (decNormalize d).nendBits = d.nendBits :=
  decNormalize_frame (·.nendBits) (fun _ _ _ _ _ _ => rfl) d
@[simp] theorem decNormalize_error (d : Dec) : (decNormalize d).error = d.error :=
  decNormalize_frame (·.error) (fun _ _ _ _ _ _ => rfl) d
@[simp] theorem decNormalize_buf (d : Dec) : (decNormalize d).buf = d.buf :=
  decNormalize_frame (·.buf) (fun _ _ _ _ _ _ => rfl) d
@[simp] theorem decNormalize_storage (d : Dec) : (decNormalize d).storage = d.storage :=
  decNormalize_frame (·.storage) (fun _ _ _ _ _ _ => rfl) d

/-! ### The `ec_dec_icdf` search loop -/

theorem decIcdfLoop_spec (r d : Nat) : ∀ (tbl : List Nat) (s t k : Nat), s < tbl.length →
    (∀ j, j < s → d < mul32 r (tbl.getD j 0)) → ¬ d < mul32 r (tbl.getD s 0) →
    decIcdfLoop r d tbl t k =
      (k + s, if s = 0 then t else mul32 r (tbl.getD (s - 1) 0), mul32 r (tbl.getD s 0))
  | [], s, t, k, hs, _, _ => by simp at hs
  | x :: xs, 0, t, k, _, _, hge => by
    simp only [List.getD_cons_zero] at hge
    simp [decIcdfLoop, hge]
  | x :: xs, s + 1, t, k, hs, hlt, hge => by
    have h0 := hlt 0 (by omega)
    simp only [List.getD_cons_zero] at h0
    simp only [decIcdfLoop, h0, if_true]
    rw [decIcdfLoop_spec r d xs s (mul32 r x) (k + 1) (by simpa using hs)
      (fun j hj => by have := hlt (j + 1) (by omega); simpa using this)
      (by simpa using hge)]
    have e1 : k + 1 + s = k + (s + 1) := by omega
    rw [e1]
    by_cases hs0 : s = 0
    · subst hs0; simp
    · have : s - 1 + 1 = s := by omega
      simp only [hs0, if_false, Nat.add_sub_cancel, List.getD_cons_succ, Nat.succ_ne_zero]
      congr 2
      rw [← this, List.getD_cons_succ, this]

/-- Entries of an ICDF table before position `s` are at least the entry at `s - 1`. -/
theorem icdf_prefix_ge {tbl : List Nat} {ftb s : Nat} (h : IcdfOk tbl ftb) (hs : s < tbl.length) (hs0 : 0 < s)
    (j : Nat) (hj : j < s) : tbl.getD (s - 1) 0 ≤ tbl.getD j 0 ∧ tbl.getD j 0 < 2 ^ ftb := by
  obtain ⟨hne, _, hp, hh⟩ := h
  rw [List.pairwise_iff_getElem] at hp
  have h0 : tbl.headD 0 = tbl.getD 0 0 := by cases tbl <;> simp
  rw [h0] at hh
  have g1 : tbl.getD j 0 = tbl[j] := by simp [List.getD_eq_getElem?_getD, (by omega : j < tbl.length)]
  have g2 : tbl.getD (s - 1) 0 = tbl[s - 1] := by
    simp [List.getD_eq_getElem?_getD, (by omega : s - 1 < tbl.length)]
  have g3 : tbl.getD 0 0 = tbl[0] := by simp [List.getD_eq_getElem?_getD, (by omega : 0 < tbl.length)]
  rw [g1, g2]
  rw [g3] at hh
  constructor
  · by_cases e : j = s - 1
    · subst e; exact Nat.le_refl _
    · have := hp j (s - 1) (by omega) (by omega) (by omega); omega
  · by_cases e : j = 0
    · subst e; exact hh
    · have := hp 0 j (by omega) (by omega) (by omega); omega

/-- `ec_dec_icdf` finds the symbol whose sub-interval contains `val`. -/
theorem decIcdf_spec (d : Dec) (tbl : List Nat) (ftb s : Nat) (l1 : IcdfOk tbl ftb) (l2 : s < tbl.length)
    (hftb : ftb ≤ 16) (rl : 8388608 < d.rng) (rh : d.rng ≤ 2147483648)
    (k2 : d.rng / 2 ^ ftb * tbl.getD s 0 ≤ d.val) (k3 : d.val < d.rng)
    (k4 : s ≠ 0 → d.val < d.rng / 2 ^ ftb * tbl.getD (s - 1) 0) :
    (decIcdf d tbl ftb).1 = s ∧
    (decIcdf d tbl ftb).2 = decNormalize (decSub d (d.rng / 2 ^ ftb)
      (if s = 0 then 2 ^ ftb else tbl.getD (s - 1) 0) (tbl.getD s 0) (decide (s = 0))) := by
  obtain ⟨g1, g2⟩ := icdf_facts l1 l2
  have hp := two_pow_le_65536 hftb
  have hp0 : 0 < 2 ^ ftb := Nat.pow_pos (by decide)
  have ok := div_subOk (rng := d.rng) hp0 hp rl g2 g1
  obtain ⟨f1, f2, f3⟩ := ok.facts
  have hrp := ok.r_pos
  have hfit : d.rng / 2 ^ ftb * 2 ^ ftb ≤ d.rng := Nat.div_mul_le_self _ _
  have hm : ∀ y, y ≤ 2 ^ ftb → mul32 (d.rng / 2 ^ ftb) y = d.rng / 2 ^ ftb * y := fun y hy =>
    mul32_of_lt (by have := Nat.mul_le_mul_left (d.rng / 2 ^ ftb) hy; omega)
  have hloop := decIcdfLoop_spec (d.rng / 2 ^ ftb) d.val tbl s d.rng 0 l2
    (by
      intro j hj
      have hs0 : 0 < s := by omega
      obtain ⟨p1, p2⟩ := icdf_prefix_ge l1 l2 hs0 j hj
      rw [hm _ (by omega)]
      have := k4 (by omega)
      have := Nat.mul_le_mul_left (d.rng / 2 ^ ftb) p1
      omega)
    (by
      have hb : tbl.getD s 0 ≤ 2 ^ ftb := by omega
      rw [hm _ hb]; omega)
  simp only [decIcdf]
  rw [hloop]
  simp only [Nat.zero_add]
  refine ⟨trivial, ?_⟩
  congr 1
  have hb : tbl.getD s 0 ≤ 2 ^ ftb := by omega
  rw [hm _ hb]
  apply decSub_eq
  · rw [sub32_of_le (by omega) k2]
  · by_cases hs0 : s = 0
    · subst hs0
      simp only [if_true, decide_true]
      rw [sub32_of_le (by omega) (by omega)]
    · simp only [hs0, if_false, decide_false, Bool.false_eq_true] at g1 g2 f2 ⊢
      rw [hm _ g2, sub32_of_le (by have := Nat.mul_le_mul_left (d.rng / 2 ^ ftb) g2; omega)
        (Nat.mul_le_mul_left _ (by omega)), f2]

/-! ### Every primitive range-coded operation, decoder side -/

/-- The decoder call of a primitive range-coded operation, expressed through `decSub`:
    the returned value matches and the new state is `decNormalize (decSub …)` (up to `ext`). -/
theorem decOp_prim_eq (B : List Nat) (S : Nat) (e : Enc) (d : Dec) (op : Op) (Bt : List Nat) (inv : EncInv e)
    (hl : op.Legal) {r a b : Nat} {first : Bool} (hsub : op.sub e.rng = some (r, a, b, first))
    (dinv : DecInv B S e d Bt) (hc : Contains Bt S (encSub e r a b first)) :
    op.Matches (decOp d op).1 ∧
    ∃ x, (decOp d op).2 = decNormalize (decSub { d with ext := x } r a b first) := by
  have ok0 : SubOk e.rng r a b := (encOp_sub e op inv hl hsub).1
  obtain ⟨_, k2, k3, k4⟩ := decSub_spec B S e d r a b first Bt inv ok0 dinv hc
  have hrng : d.rng = e.rng := dinv.rng_eq
  have rh : d.rng ≤ 2147483648 := by rw [hrng]; exact inv.rng_hi
  have rl : 8388608 < d.rng := by rw [hrng]; exact inv.rng_lo
  rw [← hrng] at hsub k3 ok0
  have ok : SubOk d.rng r a b := ok0
  clear ok0 hrng hc dinv inv
  obtain ⟨f1, f2, f3⟩ := ok.facts
  have hrp := ok.r_pos
  have hba := ok.b_lt
  -- generic facts about `val / r`
  have q1 : b ≤ d.val / r := (Nat.le_div_iff_mul_le hrp).2 (by rw [Nat.mul_comm]; exact k2)
  have q2 : first = false → d.val / r < a := fun h =>
    (Nat.div_lt_iff_lt_mul hrp).2 (by rw [Nat.mul_comm]; exact k4 h)
  have q3 : d.val / r ≤ d.val := Nat.div_le_self _ _
  have e_mb : mul32 r b = r * b := mul32_of_lt (by omega)
  have e_sv : sub32 d.val (r * b) = d.val - r * b := sub32_of_le (by omega) k2
  have e_sr : sub32 d.rng (r * b) = d.rng - r * b := sub32_of_le (by omega) (by omega)
  have e_mab : mul32 r (a - b) = r * (a - b) := mul32_of_lt (by rw [f2]; omega)
  cases op with
  | encode fl fh ft =>
    simp only [Op.sub, Option.some.injEq, Prod.mk.injEq] at hsub
    obtain ⟨rfl, rfl, rfl, rfl⟩ := hsub
    obtain ⟨l1, l2, l3, l4⟩ := hl
    simp only [decOp, decode, udiv, decUpdate, Op.Matches]
    have e3 : sub32 ft fh = ft - fh := sub32_of_le (by omega) (by omega)
    have e2 : sub32 fh fl = (ft - fl) - (ft - fh) := by rw [sub32_of_le (by omega) (by omega)]; omega
    have es : u32 (d.val / (d.rng / ft)) = d.val / (d.rng / ft) := u32_of_lt (by omega)
    have es1 : u32 (d.val / (d.rng / ft) + 1) = d.val / (d.rng / ft) + 1 := u32_of_lt (by omega)
    rw [e3, e2, es, es1, e_mb, e_sv, e_sr, e_mab]
    constructor
    · unfold mini
      by_cases hfl : fl = 0
      · subst hfl
        split
        · rw [sub32_of_le (by omega) (by omega)]; omega
        · rw [sub32_of_le (by omega) (by omega)]; omega
      · have := q2 (by simp [hfl])
        rw [if_neg (by omega), sub32_of_le (by omega) (by omega)]; omega
    · refine ⟨d.rng / ft, ?_⟩
      apply congrArg decNormalize
      apply ctx_eq <;> (try simp only [decSub]) <;> (try rfl)
      by_cases hfl : fl = 0
      · simp [hfl]
      · have : fl > 0 := by omega
        simp [hfl, this]
  | encodeBin fl fh nb =>
    simp only [Op.sub, Option.some.injEq, Prod.mk.injEq] at hsub
    obtain ⟨rfl, rfl, rfl, rfl⟩ := hsub
    obtain ⟨l1, l2, l3, l4⟩ := hl
    have hp := two_pow_le_65536 l4
    have hp0 : 0 < 2 ^ nb := Nat.pow_pos (by decide)
    simp only [decOp, decodeBin, decUpdate, Op.Matches]
    have e0 : u32 (2 ^ nb) = 2 ^ nb := u32_of_lt (by omega)
    have e3 : sub32 (2 ^ nb) fh = 2 ^ nb - fh := sub32_of_le (by omega) (by omega)
    have e2 : sub32 fh fl = (2 ^ nb - fl) - (2 ^ nb - fh) := by rw [sub32_of_le (by omega) (by omega)]; omega
    have es : u32 (d.val / (d.rng / 2 ^ nb)) = d.val / (d.rng / 2 ^ nb) := u32_of_lt (by omega)
    have es1 : u32 (d.val / (d.rng / 2 ^ nb) + 1) = d.val / (d.rng / 2 ^ nb) + 1 := u32_of_lt (by omega)
    rw [e0, e3, e2, es, es1, e_mb, e_sv, e_sr, e_mab]
    constructor
    · unfold mini
      by_cases hfl : fl = 0
      · subst hfl
        split
        · rw [sub32_of_le (by omega) (by omega)]; omega
        · rw [sub32_of_le (by omega) (by omega)]; omega
      · have := q2 (by simp [hfl])
        rw [if_neg (by omega), sub32_of_le (by omega) (by omega)]; omega
    · refine ⟨d.rng / 2 ^ nb, ?_⟩
      apply congrArg decNormalize
      apply ctx_eq <;> (try simp only [decSub]) <;> (try rfl)
      by_cases hfl : fl = 0
      · simp [hfl]
      · have : fl > 0 := by omega
        simp [hfl, this]
  | bitLogp v logp =>
    simp only [Op.sub] at hsub
    simp only [decOp, decBitLogp, Op.Matches]
    by_cases hv : v ≠ 0
    · rw [if_pos hv] at hsub
      simp only [Option.some.injEq, Prod.mk.injEq] at hsub
      obtain ⟨rfl, rfl, rfl, rfl⟩ := hsub
      have hlt : d.val < d.rng / 2 ^ logp := by have := k4 rfl; omega
      simp only [hlt, decide_true, if_true, hv, ne_eq, not_false_eq_true, true_and]
      refine ⟨d.ext, congrArg decNormalize ?_⟩
      apply ctx_eq <;> (try simp only [decSub]) <;> (try rfl)
      simp
    · rw [if_neg hv] at hsub
      simp only [Option.some.injEq, Prod.mk.injEq] at hsub
      obtain ⟨rfl, rfl, rfl, rfl⟩ := hsub
      have hge : ¬ d.val < d.rng / 2 ^ logp := by omega
      have hs : d.rng / 2 ^ logp ≤ d.rng := Nat.div_le_self _ _
      simp only [hge, decide_false, Bool.false_eq_true, if_false, hv, true_and]
      refine ⟨d.ext, congrArg decNormalize ?_⟩
      apply ctx_eq <;> (try simp only [decSub]) <;> (try rfl)
      · rw [sub32_of_le (by omega) hs]; simp
      · rw [sub32_of_le (by omega) (by omega)]; simp
  | icdf s tbl ftb =>
    simp only [Op.sub, Option.some.injEq, Prod.mk.injEq] at hsub
    obtain ⟨rfl, rfl, rfl, rfl⟩ := hsub
    obtain ⟨l1, l2, l3⟩ := hl
    have hk4 : s ≠ 0 → d.val < d.rng / 2 ^ ftb * tbl.getD (s - 1) 0 := fun h => by
      have := k4 (by simp [h]); simpa [h] using this
    obtain ⟨r1, r2⟩ := decIcdf_spec d tbl ftb s l1 l2 (by omega) (by omega) (by omega)
      k2 (by omega) hk4
    simp only [decOp, Op.Matches]
    exact ⟨r1, d.ext, by rw [r2]⟩
  | icdf16 s tbl ftb =>
    simp only [Op.sub, Option.some.injEq, Prod.mk.injEq] at hsub
    obtain ⟨rfl, rfl, rfl, rfl⟩ := hsub
    obtain ⟨l1, l2, l3⟩ := hl
    have hk4 : s ≠ 0 → d.val < d.rng / 2 ^ ftb * tbl.getD (s - 1) 0 := fun h => by
      have := k4 (by simp [h]); simpa [h] using this
    obtain ⟨r1, r2⟩ := decIcdf_spec d tbl ftb s l1 l2 (by omega) (by omega) (by omega)
      k2 (by omega) hk4
    simp only [decOp, decIcdf16, Op.Matches]
    exact ⟨r1, d.ext, by rw [r2]⟩
  | uint v ft => simp [Op.sub] at hsub
  | bits v n => simp [Op.sub] at hsub
  | patchInitial v n => simp [Op.sub] at hsub
  | shrink size => simp [Op.sub] at hsub

end Opus.RangeCoder
