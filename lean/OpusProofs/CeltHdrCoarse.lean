import OpusProofs.CeltHdrFlags
import OpusProofs.LaplaceMain
/-
  OpusProofs.CeltHdrCoarse — coarse energy: for every band and channel the decoder takes the same budget branch as
  the encoder and reads back the value the written symbol stands for.
-/
namespace OpusProofs.CeltHdr
open Opus Opus.RangeCoder Opus.CeltSymsEnc

/-- the encoder's test `t + k <= total_bits` and the decoder's `t + k <= len*8` agree for small `k` -/
def BudOk (totE totD t : Int) : Prop := ∀ k : Int, 0 ≤ k → k ≤ 16 → (t + k ≤ totE ↔ t + k ≤ totD)

/-- every parameter pair of the (frozen) energy model is fine for the Laplace coder -/
theorem frozen_laplace_ok : ∀ lm, lm < 4 → ∀ intra, intra < 2 → ∀ b, b < 21 →
    OpusProofs.Laplace.LaplaceOk ((((Opus.CeltSymsFrozen.eProbModel.getD lm []).getD intra []).getD (2 * b) 0) * 128)
      ((((Opus.CeltSymsFrozen.eProbModel.getD lm []).getD intra []).getD (2 * b + 1) 0) * 64) = true := by
  decide +kernel

theorem bit_le_one (p : Prop) [Decidable p] : (if p then 1 else 0 : Nat) ≤ 1 := by split <;> omega

theorem neg_bit (p : Prop) [Decidable p] : -(((if p then 1 else 0 : Nat)) : Int) = (if p then -1 else 0) := by
  split <;> simp

theorem smallMap_smallSym (q : Int) (h1 : -1 ≤ q) (h2 : q ≤ 1) : Opus.CeltSyms.smallMap (smallSym q) = q := by
  unfold Opus.CeltSyms.smallMap smallSym
  by_cases a : q < 0
  · have : q = -1 := by omega
    subst this; decide
  · by_cases b : q > 0
    · have : q = 1 := by omega
      subst this; decide
    · have : q = 0 := by omega
      subst this; decide

theorem encCoarseOne_ext (cfg : EncCfg) (prob : List Nat) (budget : Int) (i : Nat) (s : St) (q qd : Int) (s' : St)
    (h : encCoarseOne cfg prob budget i s = .ok (q, qd, s')) : Ext s s' := by
  unfold encCoarseOne at h
  simp only [] at h
  split at h
  · split at h
    · split at h
      · injection h with h; injection h with _ h; injection h with _ h
        rw [← h]; exact (Ext.pop s).trans (Ext.emit _ _ (by exact True.intro))
      · cases h
    · split at h
      · injection h with h; injection h with _ h; injection h with _ h
        rw [← h]; exact (Ext.pop s).trans (Ext.emit _ _ (by exact True.intro))
      · injection h with h; injection h with _ h; injection h with _ h
        rw [← h]; exact (Ext.pop s).trans (Ext.emit _ _ (by exact True.intro))
  · injection h with h; injection h with _ h; injection h with _ h
    rw [← h]; exact Ext.refl s

/-- One band and channel. -/
theorem coarseOne_sync {w : World} {P0 : List Op} {s : St} {d : Dec} (h : Here w P0 s d) (cfg : EncCfg)
    (prob : List Nat) (totE : Int) (i : Nat) (q qd : Int) (s' : St)
    (he : encCoarseOne cfg prob totE i s = .ok (q, qd, s'))
    (hp : w.IsPrefix (P0 ++ s'.ops))
    (hB : BudOk totE ((w.len * 8 : Nat) : Int) (tell s.e))
    (hlap : OpusProofs.Laplace.LaplaceOk (prob.getD (2 * min i 20) 0 * 128) (prob.getD (2 * min i 20 + 1) 0 * 64) = true) :
    ∃ d' tr, Opus.CeltSyms.coarseOne prob i d = .ok (qd, d', tr) ∧ Here w P0 s' d' := by
  have hpre := prefix_of_ext (encCoarseOne_ext cfg prob totE i s q qd s' he) hp
  obtain ⟨ht, _, hst, _⟩ := h.tells hpre
  have b15 := hB 15 (by omega) (by omega)
  have b2 := hB 2 (by omega) (by omega)
  have b1 := hB 1 (by omega) (by omega)
  unfold encCoarseOne at he
  simp only [] at he
  unfold Opus.CeltSyms.coarseOne
  simp only [hst, ht]
  by_cases c1 : totE - tell s.e ≥ 1
  · rw [if_pos c1] at he
    by_cases c15 : totE - tell s.e ≥ 15
    · rw [if_pos c15] at he
      rw [if_pos (by omega)]
      -- Laplace branch
      generalize hq2 : (if cfg.lfe = true ∧ i ≥ 2 then min (if i ≠ cfg.start ∧ totE - tell s.e - 3 * ↑cfg.C * (↑cfg.end_ - ↑i) < 30 then
          if totE - tell s.e - 3 * ↑cfg.C * (↑cfg.end_ - ↑i) < 16 then
            max (-1) (if totE - tell s.e - 3 * ↑cfg.C * (↑cfg.end_ - ↑i) < 24 then min 1 s.pop.1 else s.pop.1)
          else if totE - tell s.e - 3 * ↑cfg.C * (↑cfg.end_ - ↑i) < 24 then min 1 s.pop.1 else s.pop.1
        else s.pop.1) 0 else (if i ≠ cfg.start ∧ totE - tell s.e - 3 * ↑cfg.C * (↑cfg.end_ - ↑i) < 30 then
          if totE - tell s.e - 3 * ↑cfg.C * (↑cfg.end_ - ↑i) < 16 then
            max (-1) (if totE - tell s.e - 3 * ↑cfg.C * (↑cfg.end_ - ↑i) < 24 then min 1 s.pop.1 else s.pop.1)
          else if totE - tell s.e - 3 * ↑cfg.C * (↑cfg.end_ - ↑i) < 24 then min 1 s.pop.1 else s.pop.1
        else s.pop.1)) = q2 at he
      obtain ⟨T, hpar⟩ := OpusProofs.Laplace.par_of_ok hlap
      obtain ⟨fl, fh, v', hen, _, _, hdec, _⟩ := OpusProofs.Laplace.encode_then_decode hpar q2
      rw [hen] at he
      simp only [] at he
      injection he with he; injection he with e1 he; injection he with e2 e3
      subst e1 e2 e3
      obtain ⟨g1, g2, g3⟩ := h.pop.emit_bin fl fh hp
      rw [hdec _ g1 g2]
      exact ⟨_, _, rfl, g3⟩
    · rw [if_neg c15] at he
      rw [if_neg (by omega)]
      by_cases c2 : totE - tell s.e ≥ 2
      · rw [if_pos c2] at he
        rw [if_pos (by omega)]
        injection he with he; injection he with e1 he; injection he with e2 e3
        subst e1 e2 e3
        obtain ⟨g1, g2⟩ := h.pop.emit_icdf _ _ _ hp
        rw [g1, smallMap_smallSym _ (by omega) (by omega)]
        exact ⟨_, _, rfl, g2⟩
      · rw [if_neg c2] at he
        rw [if_neg (by omega), if_pos (by omega)]
        injection he with he; injection he with e1 he; injection he with e2 e3
        subst e1 e2 e3
        obtain ⟨g1, g2⟩ := h.pop.emit_bit _ 1 (bit_le_one _) hp
        rw [g1, neg_bit]
        exact ⟨_, _, rfl, g2⟩
  · rw [if_neg c1] at he
    injection he with he; injection he with e1 he; injection he with e2 e3
    subst e1 e2 e3
    rw [if_neg (by omega), if_neg (by omega), if_neg (by omega)]
    exact ⟨_, _, rfl, h⟩


theorem encCoarseChans_ext (cfg : EncCfg) (prob : List Nat) (budget : Int) (i : Nat) : ∀ (n : Nat) (s : St) (qs qds : List Int) (s' : St),
    encCoarseChans cfg prob budget i n s = .ok (qs, qds, s') → Ext s s' := by
  intro n
  induction n with
  | zero => intro s qs qds s' h; simp only [encCoarseChans] at h; injection h with h; injection h with _ h; injection h with _ h; rw [← h]; exact Ext.refl s
  | succ n ih =>
    intro s qs qds s' h
    simp only [encCoarseChans] at h
    cases h1 : encCoarseOne cfg prob budget i s with
    | ok v =>
      obtain ⟨q, qd, s1⟩ := v
      rw [h1] at h
      simp only [] at h
      cases h2 : encCoarseChans cfg prob budget i n s1 with
      | ok v2 =>
        obtain ⟨a, b, s2⟩ := v2
        rw [h2] at h
        simp only [] at h
        injection h with h; injection h with _ h; injection h with _ h
        rw [← h]
        exact (encCoarseOne_ext cfg prob budget i s q qd s1 h1).trans (ih s1 a b s2 h2)
      | err e => rw [h2] at h; cases h
      | oob => rw [h2] at h; cases h
      | abort => rw [h2] at h; cases h
    | err e => rw [h1] at h; cases h
    | oob => rw [h1] at h; cases h
    | abort => rw [h1] at h; cases h

theorem coarseChans_sync {w : World} {P0 : List Op} (cfg : EncCfg) (prob : List Nat) (totE : Int) (i : Nat) (sOut : St)
    (hB : ∀ (s' : St) (d' : Dec), Here w P0 s' d' → Ext s' sOut → BudOk totE ((w.len * 8 : Nat) : Int) (tell s'.e))
    (hlap : OpusProofs.Laplace.LaplaceOk (prob.getD (2 * min i 20) 0 * 128) (prob.getD (2 * min i 20 + 1) 0 * 64) = true) :
    ∀ (n : Nat) (s : St) (d : Dec) (qs qds : List Int) (s' : St), Here w P0 s d →
    encCoarseChans cfg prob totE i n s = .ok (qs, qds, s') → w.IsPrefix (P0 ++ s'.ops) → Ext s' sOut →
    ∃ d' tr, Opus.CeltSyms.coarseChans prob i n d = .ok (qds, d', tr) ∧ Here w P0 s' d' := by
  intro n
  induction n with
  | zero =>
    intro s d qs qds s' h he _ _
    simp only [encCoarseChans] at he
    injection he with he; injection he with _ he; injection he with e2 e3
    subst e2 e3
    exact ⟨d, [], rfl, h⟩
  | succ n ih =>
    intro s d qs qds s' h he hp hx
    simp only [encCoarseChans] at he
    cases h1 : encCoarseOne cfg prob totE i s with
    | ok v =>
      obtain ⟨q, qd, s1⟩ := v
      rw [h1] at he
      simp only [] at he
      cases h2 : encCoarseChans cfg prob totE i n s1 with
      | ok v2 =>
        obtain ⟨a, b, s2⟩ := v2
        rw [h2] at he
        simp only [] at he
        injection he with he; injection he with _ he; injection he with e2 e3
        subst e2 e3
        have x1 := encCoarseOne_ext cfg prob totE i s q qd s1 h1
        have x2 := encCoarseChans_ext cfg prob totE i n s1 a b s2 h2
        obtain ⟨d1, t1, g1, g2⟩ := coarseOne_sync h cfg prob totE i q qd s1 h1 (prefix_of_ext x2 hp)
          (hB s d h ((x1.trans x2).trans hx)) hlap
        obtain ⟨d2, t2, g3, g4⟩ := ih s1 d1 a b s2 g2 h2 hp hx
        refine ⟨d2, t1 ++ t2, ?_, g4⟩
        simp only [Opus.CeltSyms.coarseChans, g1, g3]
      | err e => rw [h2] at he; cases he
      | oob => rw [h2] at he; cases he
      | abort => rw [h2] at he; cases he
    | err e => rw [h1] at he; cases he
    | oob => rw [h1] at he; cases he
    | abort => rw [h1] at he; cases he

theorem encCoarseBands_ext (cfg : EncCfg) (prob : List Nat) (budget : Int) : ∀ (k i : Nat) (s : St) (qs qds : List Int) (s' : St),
    encCoarseBands cfg prob budget k i s = .ok (qs, qds, s') → Ext s s' := by
  intro k
  induction k with
  | zero => intro i s qs qds s' h; simp only [encCoarseBands] at h; injection h with h; injection h with _ h; injection h with _ h; rw [← h]; exact Ext.refl s
  | succ k ih =>
    intro i s qs qds s' h
    simp only [encCoarseBands] at h
    cases h1 : encCoarseChans cfg prob budget i cfg.C s with
    | ok v =>
      obtain ⟨q, qd, s1⟩ := v
      rw [h1] at h
      simp only [] at h
      cases h2 : encCoarseBands cfg prob budget k (i + 1) s1 with
      | ok v2 =>
        obtain ⟨a, b, s2⟩ := v2
        rw [h2] at h
        simp only [] at h
        injection h with h; injection h with _ h; injection h with _ h
        rw [← h]
        exact (encCoarseChans_ext cfg prob budget i cfg.C s q qd s1 h1).trans (ih (i + 1) s1 a b s2 h2)
      | err e => rw [h2] at h; cases h
      | oob => rw [h2] at h; cases h
      | abort => rw [h2] at h; cases h
    | err e => rw [h1] at h; cases h
    | oob => rw [h1] at h; cases h
    | abort => rw [h1] at h; cases h

theorem coarseBands_sync {w : World} {P0 : List Op} (cfg : EncCfg) (prob : List Nat) (totE : Int) (sOut : St)
    (hB : ∀ (s' : St) (d' : Dec), Here w P0 s' d' → Ext s' sOut → BudOk totE ((w.len * 8 : Nat) : Int) (tell s'.e))
    (hlap : ∀ i, OpusProofs.Laplace.LaplaceOk (prob.getD (2 * min i 20) 0 * 128) (prob.getD (2 * min i 20 + 1) 0 * 64) = true) :
    ∀ (k i : Nat) (s : St) (d : Dec) (qs qds : List Int) (s' : St), Here w P0 s d →
    encCoarseBands cfg prob totE k i s = .ok (qs, qds, s') → w.IsPrefix (P0 ++ s'.ops) → Ext s' sOut →
    ∃ d' tr, Opus.CeltSyms.coarseBands prob cfg.C k i d = .ok (qds, d', tr) ∧ Here w P0 s' d' := by
  intro k
  induction k with
  | zero =>
    intro i s d qs qds s' h he _ _
    simp only [encCoarseBands] at he
    injection he with he; injection he with _ he; injection he with e2 e3
    subst e2 e3
    exact ⟨d, [], rfl, h⟩
  | succ k ih =>
    intro i s d qs qds s' h he hp hx
    simp only [encCoarseBands] at he
    cases h1 : encCoarseChans cfg prob totE i cfg.C s with
    | ok v =>
      obtain ⟨q, qd, s1⟩ := v
      rw [h1] at he
      simp only [] at he
      cases h2 : encCoarseBands cfg prob totE k (i + 1) s1 with
      | ok v2 =>
        obtain ⟨a, b, s2⟩ := v2
        rw [h2] at he
        simp only [] at he
        injection he with he; injection he with _ he; injection he with e2 e3
        subst e2 e3
        have x2 := encCoarseBands_ext cfg prob totE k (i + 1) s1 a b s2 h2
        obtain ⟨d1, t1, g1, g2⟩ := coarseChans_sync cfg prob totE i sOut hB (hlap i) cfg.C s d q qd s1 h h1
          (prefix_of_ext x2 hp) (x2.trans hx)
        obtain ⟨d2, t2, g3, g4⟩ := ih (i + 1) s1 d1 a b s2 g2 h2 hp hx
        refine ⟨d2, t1 ++ t2, ?_, g4⟩
        simp only [Opus.CeltSyms.coarseBands, g1, g3]
      | err e => rw [h2] at he; cases he
      | oob => rw [h2] at he; cases he
      | abort => rw [h2] at he; cases he
    | err e => rw [h1] at he; cases he
    | oob => rw [h1] at he; cases he
    | abort => rw [h1] at he; cases he

/-- **Where the encoder's own energy state can leave the decoder's.**  The value the encoder keeps (`q`, which goes
    into its `oldEBands`/`error`) equals the value the written symbol means (`qd`, what the decoder reconstructs) in
    every branch of `quant_coarse_energy_impl` except one: the one-bit fall-back (`budget - tell == 1`) at the first
    band (`i == start`, the only band the `bits_left < 16` clamp to `[-1, 1]` skips) with a kept value below `-1`;
    the decoder then has `-1`. -/
theorem coarse_state_agrees_except_one_bit_start (cfg : EncCfg) (prob : List Nat) (budget : Int) (i : Nat) (s : St)
    (q qd : Int) (s' : St) (hi : i ≤ cfg.end_) (h : encCoarseOne cfg prob budget i s = .ok (q, qd, s')) :
    q = qd ∨ (i = cfg.start ∧ budget - tell s.e = 1 ∧ q < -1 ∧ qd = -1) := by
  unfold encCoarseOne at h
  simp only [] at h
  split at h
  · rename_i hb1
    split at h
    · split at h
      · injection h with h; injection h with h1 h; injection h with h2 _
        left; rw [← h1, ← h2]
      · cases h
    · rename_i hb15
      split at h
      · injection h with h; injection h with h1 h; injection h with h2 _
        left; rw [← h1, ← h2]
      · rename_i hb2
        injection h with h; injection h with h1 h; injection h with h2 _
        have hbt : budget - tell s.e = 1 := by omega
        by_cases his : i = cfg.start
        · by_cases hq : q < -1
          · right
            refine ⟨his, hbt, hq, ?_⟩
            rw [← h2, if_pos (by rw [h1]; omega)]
          · left
            rw [← h2]
            have hq0 : q ≤ 0 := by rw [← h1]; exact Int.min_le_left _ _
            by_cases hz : q = 0
            · rw [h1, if_neg (by simp [hz])]; exact hz
            · rw [h1, if_pos hz]; omega
        · left
          have hm : (0 : Int) ≤ 3 * cfg.C * ((cfg.end_ : Int) - i) :=
            Int.mul_nonneg (by omega) (by omega)
          rw [h1] at h2
          generalize 3 * (cfg.C : Int) * ((cfg.end_ : Int) - i) = m at *
          have hq1 : (-1 : Int) ≤ (if i ≠ cfg.start ∧ budget - tell s.e - m < 30 then
                if budget - tell s.e - m < 16 then
                  max (-1) (if budget - tell s.e - m < 24 then min 1 s.pop.fst else s.pop.fst)
                else if budget - tell s.e - m < 24 then min 1 s.pop.fst else s.pop.fst
              else s.pop.fst) := by
            rw [if_pos (by refine ⟨his, ?_⟩; omega), if_pos (by omega)]
            exact Int.le_max_left _ _
          generalize (if i ≠ cfg.start ∧ budget - tell s.e - m < 30 then
                if budget - tell s.e - m < 16 then
                  max (-1) (if budget - tell s.e - m < 24 then min 1 s.pop.fst else s.pop.fst)
                else if budget - tell s.e - m < 24 then min 1 s.pop.fst else s.pop.fst
              else s.pop.fst) = q1 at *
          have hq2 : (-1 : Int) ≤ (if cfg.lfe = true ∧ i ≥ 2 then min q1 0 else q1) := by
            split
            · exact Int.le_min.mpr ⟨hq1, by omega⟩
            · exact hq1
          generalize (if cfg.lfe = true ∧ i ≥ 2 then min q1 0 else q1) = q2 at *
          have hq0 : q ≤ 0 := by rw [← h1]; exact Int.min_le_left _ _
          have hqm : -1 ≤ q := by rw [← h1]; exact Int.le_min.mpr ⟨by omega, hq2⟩
          rw [← h2]
          by_cases hz : q = 0
          · rw [if_neg (by simp [hz])]; exact hz
          · rw [if_pos hz]; omega
  · injection h with h; injection h with h1 h; injection h with h2 _
    left; rw [← h1, ← h2]

end OpusProofs.CeltHdr
