import OpusProofs.SilkVadOnset
import OpusProofs.DtxRun
/-
  OpusProofs.SilkVadDtx — the VAD model composed with the SILK `noSpeechCounter` machine: on digital
  silence at the VAD input SILK's DTX starts within 10 + 7 frames; reachability of the bounded-memory
  invariant.
-/
namespace Opus.SilkVad
open Opus Opus.SilkParams Opus.Dtx Opus.Gen.DtxConsts

/-! ### the bounded-memory invariant is reachable and preserved -/

theorem lvl_init : Lvl vadInit stBn stBn stBn :=
  ⟨vadInv_init, by unfold AbsLe; decide, by unfold AbsLe; decide, by unfold AbsLe; decide⟩

/-- Every call on an int16 frame keeps the invariant and the bound `1.5·10^8` on all six filter states. -/
theorem getSA_lvl (st : VadState) (h : Lvl st stBn stBn stBn) (fs len : Nat) (hlen : len ≤ 512 ∧ len % 8 = 0)
    (pIn : List Int) (hp : len ≤ pIn.length) (h16 : ∀ x ∈ pIn, I16 x) :
    ∃ o, getSA st fs len pIn = .ok o ∧ Lvl o.st stBn stBn stBn ∧ OutOk o := by
  obtain ⟨o, ho, hinv, hout, _⟩ := getSA_ok st h.inv fs len hlen pIn hp
  refine ⟨o, ho, ⟨hinv, ?_, ?_, ?_⟩, hout⟩
  all_goals
    unfold getSA at ho
    rw [if_neg (by omega), if_neg (by omega)] at ho
    cases ho
  · show AbsLe (bands st len pIn).1.ana0 _
    rw [bands_ana0, stBn_cast]
    exact anaFilt_bnd _ _ (by have := h.b0; rw [stBn_cast] at this; exact this) (fun x hx => h16 x (List.mem_of_mem_take hx))
  · show AbsLe (bands st len pIn).1.ana1 _
    rw [bands_ana1, stBn_cast]
    exact anaFilt_bnd _ _ (by have := h.b1; rw [stBn_cast] at this; exact this)
      (fun x hx => (anaFilt_i16 _ _).1 x (List.mem_of_mem_take hx))
  · show AbsLe (bands st len pIn).1.ana2 _
    rw [bands_ana2, stBn_cast]
    exact anaFilt_bnd _ _ (by have := h.b2; rw [stBn_cast] at this; exact this)
      (fun x hx => (anaFilt_i16 _ _).1 x (List.mem_of_mem_take hx))

/-! ### composition with the `noSpeechCounter` machine -/

/-- The VAD outcomes `speech_activity_Q8 < SPEECH_ACTIVITY_DTX_THRES` of `n` all-zero frames. -/
def lowsZ (st : VadState) (fs j n : Nat) : List Bool :=
  (List.range n).map (fun i => decide (saZ st fs j i < speechActivityDtxThresQ8))

theorem silkSteps_cnt_le (cnt : Nat) (l : List Bool) (h : cnt ≤ 30) : (silkSteps cnt l).2 ≤ 30 := by
  induction l generalizing cnt with
  | nil => exact h
  | cons x rest ih =>
    rw [silkSteps_cons]
    apply ih
    have := silkVad_cnt_le ⟨cnt, true⟩ x (by simp only [nb_eq, max_eq]; omega)
    simp only [nb_eq, max_eq] at this; omega

/-- From any counter value, on constant inactivity a frame becomes droppable within 11 frames. -/
theorem silk_first_drop (c m : Nat) (hc : c ≤ 30) (hm : 11 ≤ m) :
    ∃ i, i ≤ 10 ∧ (silkSteps c (List.replicate m true)).1[i]? = some true := by
  by_cases h9 : c ≤ 9
  · have hs := silkSteps_inactive c 11 (by rw [nb_eq, max_eq]; omega)
    have hrep : List.replicate m true = List.replicate 11 true ++ List.replicate (m - 11) true := by
      rw [List.replicate_append_replicate]; congr 1; omega
    rw [hrep, silkSteps_append, hs]
    refine ⟨10 - c, by omega, ?_⟩
    simp only
    rw [List.getElem?_append_left (by simp; omega), List.getElem?_map, List.getElem?_range (by omega)]
    simp only [Option.map_some, nb_eq]
    congr 1
    exact decide_eq_true (by omega)
  · by_cases h30 : c = 30
    · subst h30
      obtain ⟨k, rfl⟩ : ∃ k, m = k + 2 := ⟨m - 2, by omega⟩
      refine ⟨1, by omega, ?_⟩
      rw [List.replicate_succ, List.replicate_succ, silkSteps_cons, silkSteps_cons]
      rfl
    · obtain ⟨k, rfl⟩ : ∃ k, m = k + 1 := ⟨m - 1, by omega⟩
      refine ⟨0, by omega, ?_⟩
      rw [List.replicate_succ, silkSteps_cons]
      have : (silkVad ⟨c, true⟩ true).inDtx = true := by
        rw [silkVad_armed]; simp only [nb_eq, max_eq]; exact ⟨trivial, by omega, by omega⟩
      simp [this]

theorem lowsZ_split (st : VadState) (fs j n : Nat) (hj : 10 ≤ j ∧ j ≤ 64) (h : Lvl st stBn stBn stBn) (hn : 7 ≤ n) :
    lowsZ st fs j n = lowsZ st fs j 7 ++ List.replicate (n - 7) true := by
  apply List.ext_getElem?
  intro i
  unfold lowsZ
  by_cases hi : i < 7
  · rw [List.getElem?_append_left (by simp; omega)]
    simp [List.getElem?_map, List.getElem?_range, hi, show i < n by omega]
  · rw [List.getElem?_append_right (by simp; omega)]
    by_cases hin : i < n
    · have hs := silence_inactive st fs j hj h i (by omega)
      simp only [List.length_map, List.length_range]
      rw [List.getElem?_map, List.getElem?_range hin, List.getElem?_replicate]
      simp [hs, show i - 7 < n - 7 by omega, show (2 : Int) < speechActivityDtxThresQ8 by decide]
    · simp only [List.length_map, List.length_range]
      rw [List.getElem?_map, List.getElem?_replicate]
      simp [List.getElem?_range, hin, show ¬ (i - 7 < n - 7) by omega]

/-- **SILK DTX onset on digital silence.**  Any reachable VAD state, any counter value the
    `noSpeechCounter` machine can hold, `n ≥ 18` all-zero frames at the VAD input: every frame from the
    eighth on is inactive, and a frame that SILK may drop occurs among the first 18 (index ≤ 10 + 7). -/
theorem silk_onset_on_silence (st : VadState) (fs j n cnt : Nat) (hj : 10 ≤ j ∧ j ≤ 64) (h : Lvl st stBn stBn stBn)
    (hc : cnt ≤ 30) (hn : 18 ≤ n) :
    (∀ i, 7 ≤ i → i < n → (lowsZ st fs j n)[i]? = some true) ∧
    ∃ i, i ≤ 17 ∧ (silkSteps cnt (lowsZ st fs j n)).1[i]? = some true := by
  have hsplit := lowsZ_split st fs j n hj h (by omega)
  refine ⟨?_, ?_⟩
  · intro i h7 hin
    rw [hsplit, List.getElem?_append_right (by simp [lowsZ]; omega)]
    simp [lowsZ, List.getElem?_replicate, show i - 7 < n - 7 by omega]
  · rw [hsplit, silkSteps_append]
    have hc' := silkSteps_cnt_le cnt (lowsZ st fs j 7) hc
    obtain ⟨i, hi, hd⟩ := silk_first_drop (silkSteps cnt (lowsZ st fs j 7)).2 (n - 7) hc' (by omega)
    refine ⟨7 + i, by omega, ?_⟩
    simp only
    have hl : (silkSteps cnt (lowsZ st fs j 7)).1.length = 7 := by
      rw [Opus.Dtx.silkSteps_length]; simp [lowsZ]
    rw [List.getElem?_append_right (by omega), hl]
    simpa using hd

end Opus.SilkVad
