import OpusProofs.EncSkelFrame
/-
  OpusProofs.EncSkelDecide — what the decision chain (`decide'`, opus_encoder.c:1334-1613) hands to
  the frame encoder: a legal mode, a bandwidth in NB..FB that is at most WB in SILK-only mode, and
  an unchanged rate configuration.  (Pre-condition `FramePre` of the frame theorem.)
-/
namespace Opus.EncSkel.Proofs
open Opus Opus.EncDecide Opus.EncSkel

/-- Configuration fields no part of `opus_encode_native` changes after :1261. -/
structure Cfg (a b : St) : Prop where
  fs : b.fs = a.fs
  useVbr : b.useVbr = a.useVbr
  bitrateBps : b.bitrateBps = a.bitrateBps
  userBitrate : b.userBitrate = a.userBitrate
  channels : b.channels = a.channels

theorem Cfg.refl (a : St) : Cfg a a := ⟨rfl, rfl, rfl, rfl, rfl⟩
theorem Cfg.trans {a b c : St} (h1 : Cfg a b) (h2 : Cfg b c) : Cfg a c :=
  ⟨h2.fs.trans h1.fs, h2.useVbr.trans h1.useVbr, h2.bitrateBps.trans h1.bitrateBps,
   h2.userBitrate.trans h1.userBitrate, h2.channels.trans h1.channels⟩
theorem Keeps.cfg {a b : St} (h : Keeps a b) : Cfg a b := by
  unfold Keeps at h
  refine ⟨?_, ?_, ?_, ?_, ?_⟩ <;> (rw [h])

def ModeOk (m : Int) : Prop := m = MODE_SILK_ONLY ∨ m = MODE_HYBRID ∨ m = MODE_CELT_ONLY
def BwOk (b : Int) : Prop := BW_NB ≤ b ∧ b ≤ BW_FB

/-- The decision chain only writes these fields. -/
def Same (a b : St) : Prop :=
  b = { a with streamChannels := b.streamChannels, silkUseDtx := b.silkUseDtx, mode := b.mode, toMono := b.toMono,
               bandwidth := b.bandwidth, autoBandwidth := b.autoBandwidth,
               detectedBandwidth := b.detectedBandwidth, lbrrCoded := b.lbrrCoded, nbNoActivity := b.nbNoActivity }

theorem Same.refl (a : St) : Same a a := rfl
theorem Same.trans {a b c : St} (h1 : Same a b) (h2 : Same b c) : Same a c := by
  unfold Same at *; rw [h2, h1]
theorem Same.cfg {a b : St} (h : Same a b) : Cfg a b := by
  unfold Same at h
  refine ⟨?_, ?_, ?_, ?_, ?_⟩ <;> (rw [h])

/-- The settings the chain reads (from `stOk`). -/
structure Settings (s : St) : Prop where
  forced : s.userForcedMode = OPUS_AUTO ∨ (MODE_SILK_ONLY ≤ s.userForcedMode ∧ s.userForcedMode ≤ MODE_CELT_ONLY)
  userBw : s.userBandwidth = OPUS_AUTO ∨ (BW_NB ≤ s.userBandwidth ∧ s.userBandwidth ≤ BW_FB)
  maxBw : BW_NB ≤ s.maxBandwidth ∧ s.maxBandwidth ≤ BW_FB
  prevMode : s.prevMode = 0 ∨ (MODE_SILK_ONLY ≤ s.prevMode ∧ s.prevMode ≤ MODE_CELT_ONLY)

theorem Same.settings {a b : St} (h : Same a b) (hs : Settings a) : Settings b := by
  unfold Same at h
  obtain ⟨h1, h2, h3, h4⟩ := hs
  refine ⟨?_, ?_, ?_, ?_⟩ <;> (rw [h]) <;> assumption

theorem modeThresh_ok (s : St) (o : NatOr) (ve er : Int) :
    modeThresh s o ve er = MODE_SILK_ONLY ∨ modeThresh s o ve er = MODE_CELT_ONLY := by
  unfold modeThresh; (try dsimp only)
  (repeat' split) <;> first | exact Or.inl rfl | exact Or.inr rfl

theorem modeAuto_ok (s : St) (fuzz : Bool) (o : NatOr) (ve er : Int) (rands : List Int) :
    (modeAuto s fuzz o ve er rands).1 = MODE_SILK_ONLY ∨ (modeAuto s fuzz o ve er rands).1 = MODE_CELT_ONLY := by
  unfold modeAuto
  split
  · split
    · (try dsimp only); split
      · exact Or.inr rfl
      · exact Or.inl rfl
    · (try dsimp only); split
      · exact Or.inr rfl
      · exact Or.inl rfl
  · exact modeThresh_ok s o ve er

theorem modeDecide_ok (s : St) (fuzz : Bool) (o : NatOr) (ve er fsz m : Int) (rands : List Int)
    (hf : s.userForcedMode = OPUS_AUTO ∨ (MODE_SILK_ONLY ≤ s.userForcedMode ∧ s.userForcedMode ≤ MODE_CELT_ONLY)) :
    ModeOk (modeDecide s fuzz o ve er fsz m rands).1 := by
  have hreq : ModeOk (modeReq s fuzz o ve er fsz m rands).1 := by
    unfold modeReq ModeOk
    by_cases h1 : s.application = APP_RESTRICTED_LOWDELAY
    · rw [if_pos h1]; exact Or.inr (Or.inr rfl)
    · rw [if_neg h1]
      by_cases h2 : s.userForcedMode = OPUS_AUTO
      · rw [if_pos h2]; (try dsimp only)
        (repeat' split) <;> first
          | exact Or.inr (Or.inr rfl)
          | (rcases modeAuto_ok s fuzz o ve er rands with h | h
             · exact Or.inl h
             · exact Or.inr (Or.inr h))
      · rw [if_neg h2]; (try dsimp only)
        simp only [MODE_SILK_ONLY, MODE_HYBRID, MODE_CELT_ONLY, OPUS_AUTO] at *
        omega
  unfold modeDecide
  (try dsimp only)
  (repeat' split) <;> first | exact Or.inr (Or.inr rfl) | exact hreq

theorem transDecide_ok (mode prevMode fsz fs : Int) (hm : ModeOk mode)
    (hp : prevMode = 0 ∨ (MODE_SILK_ONLY ≤ prevMode ∧ prevMode ≤ MODE_CELT_ONLY)) :
    ModeOk (transDecide mode prevMode fsz fs).mode := by
  unfold transDecide
  split
  · split
    · exact hm
    · split
      · unfold ModeOk at *
        simp only [MODE_SILK_ONLY, MODE_HYBRID, MODE_CELT_ONLY] at *
        omega
      · exact hm
  · exact hm

/-- Frames shorter than 10 ms are always coded CELT-only (:1467-1470 and the transition logic). -/
theorem modeDecide_short (s : St) (fuzz : Bool) (o : NatOr) (ve er fsz m : Int) (rands : List Int)
    (h : fsz < s.fs / 100) : (modeDecide s fuzz o ve er fsz m rands).1 = MODE_CELT_ONLY := by
  unfold modeDecide
  dsimp only
  split
  · rfl
  · split
    · rfl
    · rename_i h1 h2
      have : ¬ ((modeReq s fuzz o ve er fsz m rands).1 ≠ MODE_CELT_ONLY) := fun hh => h2 ⟨hh, h⟩
      exact Decidable.not_not.mp this

theorem transDecide_short (mode prevMode fsz fs : Int) (hm : mode = MODE_CELT_ONLY) (h : fsz < fs / 100) :
    (transDecide mode prevMode fsz fs).mode = MODE_CELT_ONLY := by
  unfold transDecide
  split
  · split
    · rename_i h2; exact absurd hm h2
    · split
      · omega
      · exact hm
  · exact hm

theorem decFec_celt (s : St) (er : Int) (h : s.mode = MODE_CELT_ONLY) : (decFec s er).mode = MODE_CELT_ONLY := by
  unfold decFec
  simp only [MODE_SILK_ONLY, MODE_HYBRID, MODE_CELT_ONLY] at *
  (try dsimp only)
  (repeat' split) <;> (try dsimp only) <;> omega

theorem decChan_same (s : St) (fuzz : Bool) (o : NatOr) (fsz : Int) : Same s (decChan s fuzz o fsz).1 := rfl

theorem decMode_same (s : St) (t : Trans) : Same s (decMode s t) := by
  unfold decMode; split <;> rfl

theorem decMode_mode (s : St) (t : Trans) : (decMode s t).mode = t.mode := by
  unfold decMode; split <;> rfl

theorem decMode_bw (s : St) (t : Trans) : (decMode s t).bandwidth = s.bandwidth := by
  unfold decMode; split <;> rfl

theorem bwWalk_ok (th : List Int) (first ab er : Int) : BwOk (bwWalk th first ab er [BW_FB, BW_SWB, BW_WB, BW_MB]) := by
  simp only [bwWalk, BwOk, BW_NB, BW_MB, BW_WB, BW_SWB, BW_FB]
  (repeat' split) <;> omega

theorem autoBw_spec (s : St) (ve er : Int) (hb : BwOk s.bandwidth) :
    Same s (autoBandwidthUpd s ve er) ∧ (autoBandwidthUpd s ve er).mode = s.mode ∧
    BwOk (autoBandwidthUpd s ve er).bandwidth := by
  unfold autoBandwidthUpd
  split
  · have hw := bwWalk_ok (bwThresholds s ve) s.first s.autoBandwidth er
    generalize bwWalk (bwThresholds s ve) s.first s.autoBandwidth er [BW_FB, BW_SWB, BW_WB, BW_MB] = w at *
    (try dsimp only)
    (repeat' split) <;>
    · refine ⟨rfl, rfl, ?_⟩
      unfold BwOk at *; simp only [BW_NB, BW_MB, BW_WB, BW_SWB, BW_FB] at *
      (try dsimp only); omega
  · exact ⟨rfl, rfl, hb⟩

theorem bwClamp_spec (s : St) (maxRate : Int) (hs : Settings s) (hb : BwOk s.bandwidth) :
    Same s (bwClamp s maxRate) ∧ (bwClamp s maxRate).mode = s.mode ∧ BwOk (bwClamp s maxRate).bandwidth := by
  refine ⟨rfl, rfl, ?_⟩
  obtain ⟨_, h2, h3, _⟩ := hs
  unfold bwClamp BwOk at *
  simp only [BW_NB, BW_MB, BW_WB, BW_SWB, BW_FB, OPUS_AUTO, MODE_CELT_ONLY] at *
  (try dsimp only)
  (repeat' split) <;> omega

theorem detectedClamp_spec (s : St) (er : Int) (hb : BwOk s.bandwidth) :
    Same s (detectedClamp s er) ∧ (detectedClamp s er).mode = s.mode ∧ BwOk (detectedClamp s er).bandwidth := by
  unfold detectedClamp
  split
  · refine ⟨rfl, rfl, ?_⟩
    unfold BwOk at *
    simp only [BW_NB, BW_MB, BW_WB, BW_SWB, BW_FB, OPUS_AUTO, MODE_CELT_ONLY] at *
    (try dsimp only)
    (repeat' split) <;> omega
  · exact ⟨rfl, rfl, hb⟩

theorem decideFecLoop_ok (n : Nat) (loss last bw rate orig : Int) (h1 : BW_NB ≤ bw) (h2 : BW_NB ≤ orig) :
    BW_NB ≤ (decideFecLoop n loss last bw rate orig).2 ∧
    (decideFecLoop n loss last bw rate orig).2 ≤ max bw orig := by
  induction n generalizing bw with
  | zero => unfold decideFecLoop; (try dsimp only); omega
  | succ n ih =>
    unfold decideFecLoop
    simp only [BW_NB] at *
    have := ih (bw - 1)
    (repeat' split) <;> (try dsimp only) <;> omega

theorem decideFec_ok (fec loss last mode bw rate : Int) (hb : BwOk bw) :
    BwOk (decideFec fec loss last mode bw rate).2 := by
  unfold decideFec
  split
  · exact hb
  · have := decideFecLoop_ok 5 loss last bw rate bw hb.1 hb.1
    unfold BwOk at *; omega

/-- After :1596-1613 the mode is legal, the bandwidth is in NB..FB, and SILK-only implies at most WB. -/
theorem decFec_spec (s : St) (er : Int) (hm : ModeOk s.mode) (hb : BwOk s.bandwidth) :
    Same s (decFec s er) ∧ ModeOk (decFec s er).mode ∧ BwOk (decFec s er).bandwidth ∧
    ((decFec s er).mode = MODE_SILK_ONLY → (decFec s er).bandwidth ≤ BW_WB) ∧
    ((decFec s er).mode = MODE_HYBRID → BW_SWB ≤ (decFec s er).bandwidth) := by
  have hf := decideFec_ok s.useInBandFEC s.lossPerc s.lbrrCoded s.mode s.bandwidth er hb
  unfold decFec
  generalize decideFec s.useInBandFEC s.lossPerc s.lbrrCoded s.mode s.bandwidth er = fec at *
  refine ⟨rfl, ?_, ?_, ?_, ?_⟩ <;>
  · unfold ModeOk BwOk at *
    simp only [BW_NB, BW_MB, BW_WB, BW_SWB, BW_FB, MODE_SILK_ONLY, MODE_HYBRID, MODE_CELT_ONLY] at *
    (try dsimp only)
    (repeat' split) <;> omega

/-- **Decision chain.**  Whatever the oracles say, the chain leaves a legal mode, a bandwidth in
    NB..FB (at most WB in SILK-only mode) and does not touch the rate configuration. -/
theorem decide'_spec (s : St) (fuzz : Bool) (o : NatOr) (fsz m : Int) (hs : Settings s) (hb : BwOk s.bandwidth) :
    Same s (decide' s fuzz o fsz m).st ∧ ModeOk (decide' s fuzz o fsz m).st.mode ∧
    BwOk (decide' s fuzz o fsz m).st.bandwidth ∧
    ((decide' s fuzz o fsz m).st.mode = MODE_SILK_ONLY → (decide' s fuzz o fsz m).st.bandwidth ≤ BW_WB) ∧
    ((decide' s fuzz o fsz m).st.mode = MODE_HYBRID → BW_SWB ≤ (decide' s fuzz o fsz m).st.bandwidth) ∧
    ((decide' s fuzz o fsz m).st.mode ≠ MODE_CELT_ONLY → s.fs / 100 ≤ fsz) := by
  let a := decChan s fuzz o fsz
  let md := modeDecide a.1 fuzz o (voiceEst s)
              (computeEquivRate s.bitrateBps a.1.streamChannels (s.fs / fsz) s.useVbr 0 s.complexity s.lossPerc)
              fsz m a.2
  let t := transDecide md.1 s.prevMode fsz s.fs
  let b := decMode a.1 t
  let er := equivRate2 b fsz
  let c1 := autoBandwidthUpd b (voiceEst s) er
  let c2 := bwClamp c1 ((s.fs / fsz) * m * 8)
  let c3 := detectedClamp c2 er
  have hst : (decide' s fuzz o fsz m).st = decFec c3 er := rfl
  have ha : Same s a.1 := decChan_same s fuzz o fsz
  have hmd : ModeOk md.1 := modeDecide_ok a.1 fuzz o _ _ fsz m a.2 (ha.settings hs).forced
  have ht : ModeOk t.mode := transDecide_ok md.1 s.prevMode fsz s.fs hmd hs.prevMode
  have hab : Same a.1 b := decMode_same a.1 t
  have hsb : Same s b := ha.trans hab
  have hbm : ModeOk b.mode := by rw [decMode_mode]; exact ht
  have hbb : BwOk b.bandwidth := by
    rw [decMode_bw]
    have : a.1.bandwidth = s.bandwidth := rfl
    rw [this]; exact hb
  obtain ⟨h1s, h1m, h1b⟩ := autoBw_spec b (voiceEst s) er hbb
  have hs1 : Settings c1 := (hsb.trans h1s).settings hs
  obtain ⟨h2s, h2m, h2b⟩ := bwClamp_spec c1 ((s.fs / fsz) * m * 8) hs1 h1b
  obtain ⟨h3s, h3m, h3b⟩ := detectedClamp_spec c2 er h2b
  have h3mode : ModeOk c3.mode := by rw [h3m, h2m, h1m]; exact hbm
  obtain ⟨h4s, h4m, h4b, h4w, h4h⟩ := decFec_spec c3 er h3mode h3b
  have hshort : (decFec c3 er).mode ≠ MODE_CELT_ONLY → s.fs / 100 ≤ fsz := by
    intro hne
    apply Decidable.byContradiction
    intro hlt
    have hlt' : fsz < s.fs / 100 := by omega
    have h1 : md.1 = MODE_CELT_ONLY := modeDecide_short a.1 fuzz o _ _ fsz m a.2 hlt'
    have h2 : t.mode = MODE_CELT_ONLY := transDecide_short md.1 s.prevMode fsz s.fs h1 hlt'
    have h3 : c3.mode = MODE_CELT_ONLY := by rw [h3m, h2m, h1m, decMode_mode]; exact h2
    exact hne (decFec_celt c3 er h3)
  rw [hst]
  exact ⟨(((hsb.trans h1s).trans h2s).trans h3s).trans h4s, h4m, h4b, h4w, h4h, hshort⟩

end Opus.EncSkel.Proofs
