import OpusProofs.Ctl
import OpusProofs.EncDecideHonour
/-
  OpusProofs.CtlStepRun — the range invariant `EncInv = CtlInv ∧ DInv` over histories whose encode
  event is the MODEL of `opus_encode_native` (`EncDecide.step`), not the monitored adopt view of
  `encRun`: nothing about the decision state is assumed of an encode call, only the C types of the
  DSP-dependent inputs (`OracleOk`) and the ranges of the three fields the SILK/analysis code writes
  into the encoder object and that `step` does not model (`FreeRange`).

  Also: what the three setters without a matching getter store (helper of `set_get`).
-/
namespace Opus.Ctl
open Opus Opus.EncDecide

/-- The encoder-object fields an encode call writes that `EncDecide.step` does not compute:
    `voice_ratio` (float analysis), `silk_mode.maxInternalSampleRate` (a constant 8000/12000/16000,
    opus_encoder.c:2021-2045), `silk_mode.useCBR` (= !use_vbr), SILK's DTX flags, `rangeFinal`. -/
structure Free where
  voiceRatio : Int
  maxInternalSampleRate : Int
  useCBR : Int
  silkUseDTX : Int
  silkInDtx : Int
  noActivityQ1 : Int
  rangeFinal : Nat
  celtEnergyMask : Bool

structure FreeRange (x : Free) : Prop where
  voice : -1 ≤ x.voiceRatio ∧ x.voiceRatio ≤ 100
  rate : x.maxInternalSampleRate = 8000 ∨ x.maxInternalSampleRate = 12000 ∨ x.maxInternalSampleRate = 16000
  cbr : x.useCBR = 0 ∨ x.useCBR = 1

inductive StepEv
  | ctl (r : EncReq)
  | encode (o : Oracle) (frameSize outDataBytes : Int) (x : Free)

/-- One encode call: the decision state advances by `step`; the unmodelled fields take any values. -/
def stepEncode (s : EncSt) (o : Oracle) (f b : Int) (x : Free) : EncSt :=
  { s with toDSt := (step s.toDSt o f b).1, voiceRatio := x.voiceRatio,
           maxInternalSampleRate := x.maxInternalSampleRate, useCBR := x.useCBR, silkUseDTX := x.silkUseDTX,
           silkInDtx := x.silkInDtx, noActivityQ1 := x.noActivityQ1, rangeFinal := x.rangeFinal,
           celtEnergyMask := x.celtEnergyMask }

def stepApply (s : EncSt) : StepEv → EncSt
  | .ctl r => (encCtl s r).1
  | .encode o f b x => stepEncode s o f b x

def stepRun : EncSt → List StepEv → EncSt
  | s, [] => s
  | s, e :: es => stepRun (stepApply s e) es

/-- All that is asked of the events: the DSP inputs have their C types' ranges. -/
def StepEvOk : StepEv → Prop
  | .ctl _ => True
  | .encode o _ _ x => OracleOk o ∧ FreeRange x

theorem stepEncode_inv {s : EncSt} (hi : EncInv s) {o : Oracle} (ho : OracleOk o) (f b : Int) {x : Free}
    (hx : FreeRange x) : EncInv (stepEncode s o f b x) := by
  obtain ⟨hc, hd⟩ := hi
  obtain ⟨e1, e2, e3, e4, e5, e6, e7, e8, e9, e10⟩ := step_settings s.toDSt o f b
  refine ⟨?_, step_inv hd ho f b⟩
  unfold stepEncode
  exact { hc with
    fs := by show validFs (step s.toDSt o f b).1.fs = true; rw [e1]; exact hc.fs
    ch := by show (step s.toDSt o f b).1.channels = 1 ∨ _; rw [e2]; exact hc.ch
    app := by show (step s.toDSt o f b).1.application = 2048 ∨ _; rw [e3]; exact hc.app
    bitrate := by
      show (step s.toDSt o f b).1.userBitrate = -1000 ∨ (step s.toDSt o f b).1.userBitrate = -1 ∨
        (500 ≤ (step s.toDSt o f b).1.userBitrate ∧ (step s.toDSt o f b).1.userBitrate ≤ 300000 * (step s.toDSt o f b).1.channels)
      rw [e4, e2]; exact hc.bitrate
    force := by
      show (step s.toDSt o f b).1.forceChannels = -1000 ∨
        (1 ≤ (step s.toDSt o f b).1.forceChannels ∧ (step s.toDSt o f b).1.forceChannels ≤ (step s.toDSt o f b).1.channels)
      rw [e6, e2]; exact hc.force
    maxBw := by show 1101 ≤ (step s.toDSt o f b).1.maxBandwidth ∧ _; rw [e7]; exact hc.maxBw
    userBw := by show (step s.toDSt o f b).1.userBandwidth = -1000 ∨ _; rw [e8]; exact hc.userBw
    forcedMode := by show (step s.toDSt o f b).1.userForcedMode = -1000 ∨ _; rw [e9]; exact hc.forcedMode
    vbr := by show (step s.toDSt o f b).1.useVbr = 0 ∨ _; rw [e5]; exact hc.vbr
    cbr := hx.cbr
    voice := hx.voice
    silkRate := hx.rate
    lfe := by show s.celtLfe = (step s.toDSt o f b).1.lfe; rw [e10]; exact hc.lfe }

theorem stepRun_inv {s : EncSt} (hi : EncInv s) (evs : List StepEv) (hok : ∀ e ∈ evs, StepEvOk e) :
    EncInv (stepRun s evs) := by
  induction evs generalizing s with
  | nil => exact hi
  | cons e es ih =>
    apply ih _ (fun x hx => hok x (List.mem_cons_of_mem _ hx))
    have he := hok e List.mem_cons_self
    cases e with
    | ctl r => exact encCtl_inv hi r
    | encode o f b x => exact stepEncode_inv hi he.1 f b he.2

/-- `stepEncode` writes no user setting. -/
theorem stepEncode_settings (s : EncSt) (o : Oracle) (f b : Int) (x : Free) :
    settingsOf (stepEncode s o f b x) = settingsOf s := by
  obtain ⟨e1, e2, e3, e4, e5, e6, e7, e8, e9, e10⟩ := step_settings s.toDSt o f b
  simp only [settingsOf, stepEncode]
  rw [e3, e4, e5, e6, e7, e8, e9, e10]

/-- The three setters that have no getter reading them back (`readGetter k = none`): what they store. -/
theorem encSet_stored (s s' : EncSt) (k : EncSetK) (v : Int) (h : encSet s k v = some s') :
    (k = .bandwidth → s'.userBandwidth = v) ∧ (k = .forceMode → s'.userForcedMode = v) ∧
    (k = .lfe → s'.lfe = v ∧ s'.celtLfe = v) := by
  refine ⟨?_, ?_, ?_⟩ <;> intro hk <;> subst hk <;> simp only [encSet] at h
  · split at h
    · cases h
    · simp only [Option.some.injEq] at h; subst h; rfl
  · split at h
    · cases h
    · simp only [Option.some.injEq] at h; subst h; rfl
  · simp only [Option.some.injEq] at h; subst h; exact ⟨rfl, rfl⟩

end Opus.Ctl
