import OpusModel.Ext
/-
  C16 helper lemmas, part 1: the two skip functions of src/extensions.c never read outside the
  buffer, and skipping a (non-final) extension does not depend on how many bytes follow it.
-/
namespace Opus.ExtProofs
open Opus Opus.Ext

/-- A modelled call "faults" when it would read outside the supplied bytes or trip an assertion. -/
def fault {α} : Res α → Bool
  | .oob => true
  | .abort => true
  | _ => false

theorem lacing_ok (d : Array Nat) (p : Nat) (len : Int) (bytes hs : Nat)
    (hb : (p : Int) + len ≤ d.size) : ∃ r, lacing d p len bytes hs = .ok r := by
  fun_induction lacing d p len bytes hs with
  | case1 => exact ⟨_, rfl⟩
  | case2 p len bytes hs hlt hnone =>
    have : d.size ≤ p := by simpa using hnone
    omega
  | case3 p len bytes hs hlt hsome ih => exact ih (by omega)
  | case4 => exact ⟨_, rfl⟩

theorem skipPayload_ok (d : Array Nat) (p : Nat) (len : Int) (idByte : Nat) (tsl : Int)
    (hb : (p : Int) + len ≤ d.size) : ∃ r, skipPayload d p len idByte tsl = .ok r := by
  unfold skipPayload
  simp only
  split
  · exact ⟨_, rfl⟩
  · split
    · split <;> exact ⟨_, rfl⟩
    · split
      · split <;> exact ⟨_, rfl⟩
      · obtain ⟨r, hr⟩ := lacing_ok d p len 0 0 hb
        rw [hr]
        cases r with
        | none => exact ⟨_, rfl⟩
        | some q =>
          obtain ⟨p', len', b, h⟩ := q
          simp only
          split <;> exact ⟨_, rfl⟩

theorem skipExtension_ok (d : Array Nat) (p : Nat) (len : Int)
    (hb : (p : Int) + len ≤ d.size) : ∃ r, skipExtension d p len = .ok r := by
  unfold skipExtension
  split
  · exact ⟨_, rfl⟩
  · split
    · exact ⟨_, rfl⟩
    · split
      · rename_i hnone
        have : d.size ≤ p := by simpa using hnone
        omega
      · obtain ⟨r, hr⟩ := skipPayload_ok d (p + 1) (len - 1) ‹Nat› 0 (by push_cast; omega)
        rw [hr]
        cases r with
        | none => exact ⟨_, rfl⟩
        | some q => obtain ⟨p', len', h⟩ := q; exact ⟨_, rfl⟩

/-- Growing or shrinking the number of bytes that follow does not change the lacing walk, as long
    as the payload still fits. -/
theorem lacing_mono (d : Array Nat) (p : Nat) (len : Int) (bytes hs : Nat) :
    ∀ {p' : Nat} {len' : Int} {bytes' hs' : Nat},
    lacing d p len bytes hs = .ok (some (p', len', bytes', hs')) →
    ∀ δ : Int, 0 ≤ len' + δ → lacing d p (len + δ) bytes hs = .ok (some (p', len' + δ, bytes', hs')) := by
  fun_induction lacing d p len bytes hs with
  | case1 => intro _ _ _ _ h; simp at h
  | case2 => intro _ _ _ _ h; simp at h
  | case3 p len bytes hs hlt hsome ih =>
    intro p' len' bytes' hs' h δ hδ
    have hs1 := lacing_spec _ _ _ _ _ h
    have := ih h δ hδ
    rw [lacing]
    have h1 : ¬ (len + δ < 1) := by omega
    simp only [h1, if_false, hsome, if_true]
    rw [← this]; congr 1; omega
  | case4 p len bytes hs hlt l hsome hne =>
    intro p' len' bytes' hs' h δ hδ
    simp only [Res.ok.injEq, Option.some.injEq, Prod.mk.injEq] at h
    obtain ⟨rfl, rfl, rfl, rfl⟩ := h
    rw [lacing]
    have h1 : ¬ (len + δ < 1) := by omega
    simp only [h1, if_false, hsome, hne]
    congr 4; omega

theorem skipPayload_mono {d : Array Nat} {p : Nat} {len : Int} {idByte : Nat}
    {p' : Nat} {len' : Int} {hs : Nat}
    (h : skipPayload d p len idByte 0 = .ok (some (p', len', hs))) (hpos : 0 < len') :
    ∀ δ : Int, 0 ≤ len' + δ → skipPayload d p (len + δ) idByte 0 = .ok (some (p', len' + δ, hs)) := by
  intro δ hδ
  unfold skipPayload at h ⊢
  simp only at h ⊢
  by_cases c1 : (idByte / 2 = 0 ∧ idByte % 2 = 1) ∨ idByte / 2 = 2
  · simp only [c1, if_true] at h ⊢
    simp only [Res.ok.injEq, Option.some.injEq, Prod.mk.injEq] at h
    obtain ⟨rfl, rfl, rfl⟩ := h; rfl
  · simp only [c1, if_false] at h ⊢
    by_cases c2 : 0 < idByte / 2 ∧ idByte / 2 < 32
    · simp only [c2, and_self, if_true] at h ⊢
      split at h
      · simp at h
      · simp only [Res.ok.injEq, Option.some.injEq, Prod.mk.injEq] at h
        obtain ⟨rfl, rfl, rfl⟩ := h
        have : ¬ (len + δ < ((idByte % 2 : Nat) : Int)) := by omega
        simp only [this, if_false]; congr 4; omega
    · simp only [c2, if_false] at h ⊢
      by_cases c3 : idByte % 2 = 0
      · simp only [c3, if_true] at h
        split at h
        · simp at h
        · simp only [Res.ok.injEq, Option.some.injEq, Prod.mk.injEq] at h
          omega
      · simp only [c3, if_false] at h ⊢
        split at h
        · simp at h
        · rename_i p1 l1 b1 h1 heq
          split at h
          · simp at h
          · simp only [Res.ok.injEq, Option.some.injEq, Prod.mk.injEq] at h
            obtain ⟨rfl, rfl, rfl⟩ := h
            rw [lacing_mono _ _ _ _ _ heq δ hδ]
            simp only
            have : ¬ (l1 + δ < 0) := by omega
            simp only [this, if_false]
        all_goals simp at h

/-- A successfully skipped extension that is not the last one (`len' > 0` bytes remain) is skipped
    in exactly the same way for every other number of available bytes that still covers it. -/
theorem skipExtension_mono {d : Array Nat} {p : Nat} {len : Int} {p' : Nat} {len' : Int} {hs : Nat}
    (h : skipExtension d p len = .ok (some (p', len', hs))) (hpos : 0 < len') :
    ∀ len2 : Int, (p' : Int) - p ≤ len2 →
      skipExtension d p len2 = .ok (some (p', len2 - ((p' : Int) - p), hs)) := by
  intro len2 hl2
  have hspec := skipExtension_spec h
  unfold skipExtension at h
  split at h
  · simp only [Res.ok.injEq, Option.some.injEq, Prod.mk.injEq] at h; omega
  · split at h
    · simp at h
    · split at h
      · simp at h
      · rename_i b hb
        split at h
        · simp at h
        · rename_i q1 q2 q3 heq
          simp only [Res.ok.injEq, Option.some.injEq, Prod.mk.injEq] at h
          obtain ⟨rfl, rfl, rfl⟩ := h
          have hps := skipPayload_spec heq
          have hm := skipPayload_mono heq hpos (len2 - len) (by omega)
          unfold skipExtension
          have h1 : ¬ (len2 = 0) := by omega
          have h2 : ¬ (len2 < 1) := by omega
          simp only [h1, h2, if_false, hb]
          have e1 : len2 - 1 = len - 1 + (len2 - len) := by omega
          rw [e1, hm]
          simp only
          congr 4; omega
        all_goals simp at h

/-- First byte of a successfully skipped non-empty extension is inside the buffer. -/
theorem skipExtension_first {d : Array Nat} {p : Nat} {len : Int} {r : Skip}
    (h : skipExtension d p len = .ok r) (hl : 0 < len) : ∃ b, d[p]? = some b := by
  unfold skipExtension at h
  split at h
  · omega
  · split at h
    · omega
    · split at h
      · simp at h
      · exact ⟨_, ‹_›⟩

/-- A separator with an explicit increment (`id = 1`, `L = 1`) that was skipped has its increment byte. -/
theorem skipExtension_sep {d : Array Nat} {p : Nat} {len : Int} {p' : Nat} {len' : Int} {hs : Nat} {b : Nat}
    (h : skipExtension d p len = .ok (some (p', len', hs))) (hl : 0 < len) (hb : d[p]? = some b)
    (hid : b / 2 = 1) (hL : b % 2 = 1) : (p : Int) + 2 ≤ p + len ∧ p' = p + 2 := by
  unfold skipExtension at h
  have h1 : ¬ (len = 0) := by omega
  have h2 : ¬ (len < 1) := by omega
  simp only [h1, h2, if_false, hb] at h
  unfold skipPayload at h
  simp only [hid, hL] at h
  have e1 : ¬ ((1 = 0 ∧ True) ∨ 1 = 2) := by omega
  have e2 : (0 < 1 ∧ 1 < 32) := by omega
  rw [if_neg e1, if_pos e2] at h
  by_cases c : len - 1 < ((1 : Nat) : Int)
  · rw [if_pos c] at h; simp at h
  · rw [if_neg c] at h
    simp only [Res.ok.injEq, Option.some.injEq, Prod.mk.injEq] at h
    omega

/-- A short ID (1..31) carries at most one payload byte and no length bytes. -/
theorem skipPayload_short {d : Array Nat} {p : Nat} {len : Int} {b : Nat} {tsl : Int} {p' : Nat} {len' : Int} {hs : Nat}
    (h : skipPayload d p len b tsl = .ok (some (p', len', hs))) (h1 : 0 < b / 2) (h2 : b / 2 < 32) :
    hs = 0 ∧ p' ≤ p + 1 := by
  unfold skipPayload at h
  simp only at h
  by_cases c1 : (b / 2 = 0 ∧ b % 2 = 1) ∨ b / 2 = 2
  · rw [if_pos c1] at h
    simp only [Res.ok.injEq, Option.some.injEq, Prod.mk.injEq] at h
    omega
  · rw [if_neg c1, if_pos ⟨h1, h2⟩] at h
    split at h
    · simp at h
    · simp only [Res.ok.injEq, Option.some.injEq, Prod.mk.injEq] at h
      omega

theorem skipExtension_short {d : Array Nat} {p : Nat} {len : Int} {b : Nat} {p' : Nat} {len' : Int} {hs : Nat}
    (h : skipExtension d p len = .ok (some (p', len', hs))) (hl : 0 < len) (hb : d[p]? = some b)
    (h1 : 0 < b / 2) (h2 : b / 2 < 32) : hs = 1 ∧ p' ≤ p + 2 := by
  unfold skipExtension at h
  have a1 : ¬ len = 0 := by omega
  have a2 : ¬ len < 1 := by omega
  simp only [a1, a2, if_false, hb] at h
  split at h
  · simp at h
  · rename_i q1 q2 q3 heq
    have := skipPayload_short heq h1 h2
    simp only [Res.ok.injEq, Option.some.injEq, Prod.mk.injEq] at h
    omega
  all_goals simp at h

end Opus.ExtProofs
