import OpusProofs.EncSkelMulti
import OpusProofs.FramingSafe
/-
  OpusProofs.EncSkelToc — ToC facts of property C02, by exhaustive kernel evaluation over the finite
  argument sets: `gen_toc` round-trips through the packet helpers; the ToC-only packet of the
  low-budget path parses with the submitted duration; a code-0 packet parses.
-/
namespace Opus.EncSkel.Proofs
open Opus Opus.EncDecide Opus.EncSkel

/-- Legal (mode, frame rate, bandwidth) triples of a coded frame. -/
def tocLegal : List (Int × Int × Int) :=
  (do let fr ← [100, 50, 25, 16]; let bw ← [1101, 1102, 1103]; pure (1000, fr, bw)) ++
  (do let fr ← [100, 50]; let bw ← [1104, 1105]; pure (1001, fr, bw)) ++
  (do let fr ← [400, 200, 100, 50]; let bw ← [1101, 1103, 1104, 1105]; pure (1002, fr, bw))

/-- Samples per frame at `fs` for a frame rate (`16` stands for 60 ms). -/
def spfOf (fs fr : Int) : Int := if fr = 16 then 3 * fs / 50 else fs / fr

theorem genToc_roundtrip_all : ∀ t ∈ tocLegal, ∀ ch ∈ [(1 : Int), 2], ∀ fs ∈ [(8000 : Nat), 12000, 16000, 24000, 48000],
    genToc t.1 t.2.1 t.2.2 ch < 256 ∧ genToc t.1 t.2.1 t.2.2 ch % 4 = 0 ∧
    (Framing.getMode (genToc t.1 t.2.1 t.2.2 ch) : Int) = t.1 ∧
    (Framing.getBandwidth (genToc t.1 t.2.1 t.2.2 ch) : Int) = t.2.2 ∧
    (Framing.getNbChannels (genToc t.1 t.2.1 t.2.2 ch) : Int) = ch ∧
    (Framing.samplesPerFrame (genToc t.1 t.2.1 t.2.2 ch) fs : Int) = spfOf fs t.2.1 := by
  decide +kernel

/-- A state with the four fields the low-budget ToC reads (`Fs`, stale `mode`, `bandwidth`, `stream_channels`). -/
def lowSt (fs mode bw ch : Int) : St := { (default : St) with fs, mode, bandwidth := bw, streamChannels := ch }

/-- Does the byte string parse (standard framing) to `count` empty frames of `spf` samples each with
    `count * spf = fsz`? -/
def parsesTo (bs : Bytes) (fs : Nat) (fsz : Int) : Bool :=
  match Framing.parseImpl false bs with
  | .ok r => decide ((r.count : Int) * Framing.samplesPerFrame r.toc fs = fsz) && r.sizes.all (· == 0) && decide (r.count = r.sizes.length)
  | _ => false

theorem lowBudget_valid_all :
    ∀ fs ∈ [(8000 : Nat), 12000, 16000, 24000, 48000], ∀ k ∈ [(1 : Int), 2, 4, 8, 16, 24, 32, 40, 48],
    ∀ mode ∈ [(0 : Int), 1000, 1001, 1002], ∀ bw ∈ [(0 : Int), 1101, 1102, 1103, 1104, 1105], ∀ ch ∈ [(1 : Int), 2],
    ∀ out ∈ [(1 : Int), 2, 3],
      (entryCheck (lowSt fs mode bw ch) (fs / 400 * k) out = some OPUS_BUFFER_TOO_SMALL ↔ (out = 1 ∧ k = 40)) ∧
      (¬ (out = 1 ∧ k = 40) →
        parsesTo (lowHdr0 (lowSt fs mode bw ch) (fs / 400 * k) out) fs (fs / 400 * k) = true ∧
        (lowHdr0 (lowSt fs mode bw ch) (fs / 400 * k) out).length = (lowRet0 (lowSt fs mode bw ch) (fs / 400 * k) out).toNat ∧
        lowRet0 (lowSt fs mode bw ch) (fs / 400 * k) out ≤ out) := by
  decide +kernel


/-- A code-0 packet (`toc` with code bits 00, then the frame) parses to that one frame. -/
theorem parse_code0 (toc : Nat) (payload : Bytes) (h4 : toc % 4 = 0) (hl : payload.length ≤ 1275) :
    Framing.parseImpl false (toc :: payload) =
      .ok { toc, count := 1, sizes := [payload.length], payloadOffset := 1, padLen := 0,
            packetOffset := payload.length + 1 } := by
  unfold Framing.parseImpl Framing.parseHdr
  simp only [h4, if_true]
  unfold Framing.finish
  simp only [Bool.false_eq_true, if_false]
  rw [if_neg (by omega)]
  simp [Framing.mkParsed, sumN]
  omega

end Opus.EncSkel.Proofs
