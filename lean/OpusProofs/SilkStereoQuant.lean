import OpusModel.SilkStereo
import OpusProofs.SilkStereoTab
/-
  OpusProofs.SilkStereoQuant — the search of silk_stereo_quant_pred is a nearest-level search (generic lemma over a
  strictly increasing visiting order), for every `opus_int32` input of the defined domain.
-/
namespace OpusProofs.SilkStereoQuant
open Opus Opus.SilkParams Opus.SilkStereo

/-- The level of a visited pair. -/
abbrev lv (p : Nat × Nat) : Int := level p.1 p.2

/-- The search state that records pair `p`. -/
def stOf (pred : Int) (p : Nat × Nat) : QSt :=
  { errMin := sabs (pred - lv p), q := lv p, i0 := wrap8 p.1, i1 := wrap8 p.2 }

theorem sabs_le_of_lt {pred a b c : Int} (hab : a < b) (hbc : b < c) (h : sabs (pred - a) ≤ sabs (pred - b)) :
    sabs (pred - a) ≤ sabs (pred - c) := by
  unfold sabs at *
  split at h <;> split at h <;> split <;> split <;> omega

/-- Generic step: with the state recording `c`, all remaining levels above `lv c` and increasing, no overflow: the scan
    ends recording some `r` of `c :: ps` that is at least as near as `c` and as every remaining level. -/
theorem scan_spec (pred : Int) : ∀ (ps : List (Nat × Nat)) (c : Nat × Nat),
    (∀ p ∈ ps, lv c < lv p) → ps.Pairwise (fun a b => lv a < lv b) →
    (∀ p ∈ ps, -2147483647 ≤ pred - lv p ∧ pred - lv p ≤ 2147483647) →
    ∃ r ∈ c :: ps, scan pred ps (stOf pred c) = some (stOf pred r) ∧
      (∀ p ∈ ps, sabs (pred - lv r) ≤ sabs (pred - lv p)) ∧ sabs (pred - lv r) ≤ sabs (pred - lv c) := by
  intro ps
  induction ps with
  | nil =>
    intro c _ _ _
    exact ⟨c, by simp, by simp [scan], by simp, Int.le_refl _⟩
  | cons p rest ih =>
    intro c hgt hpw hov
    obtain ⟨i, j⟩ := p
    have hp := hov (i, j) (by simp)
    have hcp : lv c < lv (i, j) := hgt (i, j) (by simp)
    have hpw' := List.pairwise_cons.mp hpw
    by_cases himp : sabs (pred - level i j) < sabs (pred - lv c)
    · -- improvement: continue with (i, j)
      obtain ⟨r, hr, hscan, hall, hle⟩ := ih (i, j) hpw'.1 hpw'.2 (fun p hp' => hov p (by simp [hp']))
      refine ⟨r, List.mem_cons_of_mem _ hr, ?_, ?_, ?_⟩
      · rw [scan]
        have h1 : ¬ (pred - level i j < -2147483647 ∨ pred - level i j > 2147483647) := by
          simp only [lv] at hp; omega
        simp only [h1, if_false, stOf, himp, if_true]
        exact hscan
      · intro q hq
        rcases List.mem_cons.mp hq with rfl | hq
        · exact hle
        · exact hall q hq
      · simp only [lv] at hle himp ⊢; omega
    · -- no improvement: goto done, c stays
      refine ⟨c, by simp, ?_, ?_, Int.le_refl _⟩
      · rw [scan]
        have h1 : ¬ (pred - level i j < -2147483647 ∨ pred - level i j > 2147483647) := by
          simp only [lv] at hp; omega
        simp only [h1, if_false, stOf, himp]
      · intro q hq
        rcases List.mem_cons.mp hq with rfl | hq
        · simp only [lv] at himp ⊢; omega
        · exact sabs_le_of_lt hcp (hpw'.1 q hq) (by simp only [lv] at himp ⊢; omega)

end OpusProofs.SilkStereoQuant
