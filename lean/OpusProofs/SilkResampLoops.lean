import OpusProofs.SilkResampBasic
/-
  OpusProofs.SilkResampLoops — the two batch loops (`while( 1 )` of silk_resampler_private_IIR_FIR :86-103 and
  silk_resampler_private_down_FIR :163-187) are total for every input length, index in bounds, and write the number
  of samples `loopLen` says.
-/
namespace OpusProofs.SilkResamp
open Opus Opus.SilkResamp Opus.SilkParams Opus.Gen.SilkResampRom

/-- Samples written by a batch loop on `len` input samples: each round takes `n = min( len, batchSize )` samples and
    writes `cnt n`; it goes on while more than `thr` samples are left (`thr` = 0: `inLen > 0`, IIR_FIR.c:97;
    `thr` = 1: `inLen > 1`, down_FIR.c:178).  The first argument counts rounds (at most `len`, every continuing round
    consumes a sample). -/
def loopLenF (cnt : Nat → Nat) (batch thr : Nat) : Nat → Nat → Nat
  | 0, len => cnt (min len batch)
  | f + 1, len =>
    let n := min len batch
    cnt n + (if thr < len - n ∧ 0 < n then loopLenF cnt batch thr f (len - n) else 0)

def loopLen (cnt : Nat → Nat) (batch thr len : Nat) : Nat := loopLenF cnt batch thr len len

theorem lshift32_small {n : Nat} {s : Nat} (hs : s = 16 ∨ s = 17) (hn : n ≤ 480) :
    lshift32 (n : Int) s = (n : Int) * (2 : Int) ^ s := by
  unfold lshift32
  rcases hs with rfl | rfl
  · apply wrap32_small <;> omega
  · apply wrap32_small <;> omega

/-- One round of the IIR_FIR loop: the ALLOC'd buffer is large enough, the interpolation and the copy of the last
    8 samples succeed. -/
theorem iirFir_round (c : Cfg) (hinv : 0 < c.invRatio) (hb2 : c.batchSize ≤ 480) (xs : List Int) (S : IIR)
    (head : List Int) (hh : head.length = 8) :
    let n := min xs.length c.batchSize
    let buf := head ++ (up2hq S (xs.take n)).2
    ¬ (2 * c.batchSize + orderFir12 < buf.length) ∧
    ∃ outs hd, interpol (iirFirSample buf) (lshift32 (n : Int) 17) c.invRatio = .ok outs ∧
      window buf (2 * (n : Int)) orderFir12 = .ok hd ∧ hd.length = 8 ∧
      outs.length = interpCount (lshift32 (n : Int) 17) c.invRatio ∧ ∀ v ∈ outs, I16 v := by
  intro n buf
  have hn : n ≤ 480 := by omega
  have hbl : buf.length = 8 + 2 * n := by
    show (head ++ (up2hq S (xs.take n)).2).length = _
    rw [List.length_append, up2hq_len, List.length_take, hh]; omega
  have hmax := lshift32_small (n := n) (s := 17) (Or.inr rfl) hn
  obtain ⟨outs, ho, hol, hoi⟩ := interpol_ok (sample := iirFirSample buf)
    (P := I16) (maxIdx := lshift32 (n : Int) 17) hinv (by
      intro idx h0 h1
      apply iirFirSample_ok h0
      rw [hbl]
      rw [hmax] at h1
      omega)
  obtain ⟨hd, hw, hwl, _⟩ := window_ok_len (l := buf) (i := 2 * (n : Int)) (n := orderFir12) (by omega)
    (by rw [hbl]; simp only [orderFir12]; omega)
  refine ⟨by rw [hbl]; simp only [orderFir12]; omega, outs, hd, ho, hw, by simpa [orderFir12] using hwl, hol, hoi⟩

theorem iirFirLoop_ok (c : Cfg) (hinv : 0 < c.invRatio) (hb2 : c.batchSize ≤ 480) :
    ∀ (f : Nat) (xs : List Int) (S : IIR) (head : List Int), xs.length ≤ f → head.length = 8 →
      ∃ S' head' outs, iirFirLoop c S head xs = .ok (S', head', outs) ∧ head'.length = 8 ∧
        outs.length = loopLenF (fun n => interpCount (lshift32 (n : Int) 17) c.invRatio) c.batchSize 0 f xs.length ∧
        ∀ v ∈ outs, I16 v := by
  intro f
  induction f with
  | zero =>
    intro xs S head hx hh
    obtain ⟨hal, outs, hd, ho, hw, hdl, hol, hoi⟩ := iirFir_round c hinv hb2 xs S head hh
    rw [iirFirLoop]
    rw [if_neg hal]
    simp only [ho, hw]
    rw [dif_neg (by rw [List.length_drop]; omega)]
    exact ⟨_, hd, outs, rfl, hdl, by rw [hol]; simp only [loopLenF], hoi⟩
  | succ f ih =>
    intro xs S head hx hh
    obtain ⟨hal, outs, hd, ho, hw, hdl, hol, hoi⟩ := iirFir_round c hinv hb2 xs S head hh
    rw [iirFirLoop]
    rw [if_neg hal]
    simp only [ho, hw]
    by_cases hmore : 0 < (xs.drop (min xs.length c.batchSize)).length ∧ 0 < min xs.length c.batchSize
    · rw [dif_pos hmore]
      obtain ⟨S', head', outs', hr, hl', hol', hoi'⟩ := ih (xs.drop (min xs.length c.batchSize))
        (up2hq S (xs.take (min xs.length c.batchSize))).1 hd (by rw [List.length_drop]; omega) hdl
      simp only [hr]
      refine ⟨S', head', outs ++ outs', rfl, hl', ?_, ?_⟩
      · rw [List.length_append, hol, hol', List.length_drop]
        simp only [loopLenF]
        rw [List.length_drop] at hmore
        rw [if_pos hmore]
      · intro v hv
        rcases List.mem_append.1 hv with hv | hv
        · exact hoi v hv
        · exact hoi' v hv
    · rw [dif_neg hmore]
      refine ⟨_, hd, outs, rfl, hdl, ?_, hoi⟩
      rw [hol]
      simp only [loopLenF]
      rw [List.length_drop] at hmore
      rw [if_neg hmore]; omega

/-- What the down-FIR kernel needs of a configuration: one of the three orders with a coefficient table of the
    matching length (2 AR2 coefficients first). -/
def DownCfg (c : Cfg) (coefs : List Int) : Prop :=
  (c.firOrder = 18 ∧ coefs.length = 2 + 9 * c.firFracs.toNat ∧ 0 < c.firFracs ∧ c.firFracs ≤ 3) ∨
  (c.firOrder = 24 ∧ coefs.length = 14) ∨ (c.firOrder = 36 ∧ coefs.length = 20)

theorem window_two {a0 a1 : Int} {rest : List Int} : window (a0 :: a1 :: rest) 0 2 = .ok [a0, a1] := by
  simp [window]

/-- One round of the down-FIR loop. -/
theorem downFir_round (c : Cfg) (coefs : List Int) (hinv : 0 < c.invRatio) (hb2 : c.batchSize ≤ 480)
    (hd : DownCfg c coefs) (xs : List Int) (s0 s1 a0 a1 : Int) (head : List Int) (hh : head.length = c.firOrder) :
    let n := min xs.length c.batchSize
    let buf := head ++ (ar2 s0 s1 a0 a1 (xs.take n)).2.2
    ¬ (c.batchSize + c.firOrder < buf.length) ∧
    ∃ outs hd', interpol (downFirSample c.firOrder c.firFracs coefs buf) (lshift32 (n : Int) 16) c.invRatio = .ok outs ∧
      window buf (n : Int) c.firOrder = .ok hd' ∧ hd'.length = c.firOrder ∧
      outs.length = interpCount (lshift32 (n : Int) 16) c.invRatio ∧ ∀ v ∈ outs, I16 v := by
  intro n buf
  have hn : n ≤ 480 := by omega
  have hbl : buf.length = c.firOrder + n := by
    show (head ++ (ar2 s0 s1 a0 a1 (xs.take n)).2.2).length = _
    rw [List.length_append, ar2_len, List.length_take, hh]; omega
  have hmax := lshift32_small (n := n) (s := 16) (Or.inl rfl) hn
  obtain ⟨outs, ho, hol, hoi⟩ := interpol_ok (sample := downFirSample c.firOrder c.firFracs coefs buf)
    (P := I16) (maxIdx := lshift32 (n : Int) 16) hinv (by
      intro idx h0 h1
      apply downFirSample_ok h0 _ hd
      rw [hbl]
      rw [hmax] at h1
      omega)
  obtain ⟨hd', hw, hwl, _⟩ := window_ok_len (l := buf) (i := (n : Int)) (n := c.firOrder) (by omega)
    (by rw [hbl]; omega)
  exact ⟨by rw [hbl]; omega, outs, hd', ho, hw, hwl, hol, hoi⟩

theorem downFirLoop_ok (c : Cfg) (a0 a1 : Int) (rest : List Int) (hinv : 0 < c.invRatio) (hb2 : c.batchSize ≤ 480)
    (hd : DownCfg c (a0 :: a1 :: rest)) :
    ∀ (f : Nat) (xs : List Int) (s0 s1 : Int) (head : List Int), xs.length ≤ f → head.length = c.firOrder →
      ∃ t0 t1 head' outs, downFirLoop c (a0 :: a1 :: rest) s0 s1 head xs = .ok (t0, t1, head', outs) ∧
        head'.length = c.firOrder ∧
        outs.length = loopLenF (fun n => interpCount (lshift32 (n : Int) 16) c.invRatio) c.batchSize 1 f xs.length ∧
        ∀ v ∈ outs, I16 v := by
  intro f
  induction f with
  | zero =>
    intro xs s0 s1 head hx hh
    obtain ⟨hal, outs, hd', ho, hw, hdl, hol, hoi⟩ := downFir_round c _ hinv hb2 hd xs s0 s1 a0 a1 head hh
    rw [downFirLoop]
    simp only [window_two]
    rw [if_neg hal]
    simp only [ho, hw]
    rw [dif_neg (by rw [List.length_drop]; omega)]
    exact ⟨_, _, hd', outs, rfl, hdl, by rw [hol]; simp only [loopLenF], hoi⟩
  | succ f ih =>
    intro xs s0 s1 head hx hh
    obtain ⟨hal, outs, hd', ho, hw, hdl, hol, hoi⟩ := downFir_round c _ hinv hb2 hd xs s0 s1 a0 a1 head hh
    rw [downFirLoop]
    simp only [window_two]
    rw [if_neg hal]
    simp only [ho, hw]
    by_cases hmore : 1 < (xs.drop (min xs.length c.batchSize)).length ∧ 0 < min xs.length c.batchSize
    · rw [dif_pos hmore]
      obtain ⟨t0, t1, head', outs', hr, hl', hol', hoi'⟩ := ih (xs.drop (min xs.length c.batchSize))
        (ar2 s0 s1 a0 a1 (xs.take (min xs.length c.batchSize))).1 (ar2 s0 s1 a0 a1 (xs.take (min xs.length c.batchSize))).2.1
        hd' (by rw [List.length_drop]; omega) hdl
      simp only [hr]
      refine ⟨t0, t1, head', outs ++ outs', rfl, hl', ?_, ?_⟩
      · rw [List.length_append, hol, hol', List.length_drop]
        simp only [loopLenF]
        rw [List.length_drop] at hmore
        rw [if_pos hmore]
      · intro v hv
        rcases List.mem_append.1 hv with hv | hv
        · exact hoi v hv
        · exact hoi' v hv
    · rw [dif_neg hmore]
      refine ⟨_, _, hd', outs, rfl, hdl, ?_, hoi⟩
      rw [hol]
      simp only [loopLenF]
      rw [List.length_drop] at hmore
      rw [if_neg hmore]; omega

end OpusProofs.SilkResamp
