import OpusProofs.SilkResampWords
/-
  OpusProofs.SilkResampApBound — no signed overflow in the all-pass sections of silk_resampler_private_up2_HQ
  (up2_HQ.c:53-98) for every history of opus_int16 inputs, PARTIAL: the three sections of the even phase and the
  first two of the odd phase, by a magnitude invariant on the state words S[0..4] (each section: |S'| ≤ |in| + g(|in| +
  |S|) + 1 with g the section's gain).  For the third odd section (gain 1 - 9994/65536 = 0.8475) this crude invariant
  gives 2154e6 > 2^31: it needs the true l1 gain of the cascade; not proved (nor the AR2 recursion of down_FIR).
-/
namespace OpusProofs.SilkResamp
open Opus Opus.SilkResamp Opus.SilkParams Opus.Gen.SilkResampRom

def absLe (x : Int) (k : Int) : Prop := -k ≤ x ∧ x ≤ k

/-- Magnitude invariant on S[0..4] (Q10). -/
def ApInv (S : IIR) : Prop :=
  absLe S.s0 35500000 ∧ absLe S.s1 59700000 ∧ absLe S.s2 325000000 ∧ absLe S.s3 41500000 ∧ absLe S.s4 113600000

/-- The sections without any 32-bit reduction. -/
def apSecExact (inp s c : Int) : Int × Int := (s + (inp - s) * c / 65536, inp + (inp - s) * c / 65536)
def apSec3Exact (inp s c : Int) : Int × Int :=
  (s + ((inp - s) + (inp - s) * c / 65536), inp + ((inp - s) + (inp - s) * c / 65536))

theorem apSec_exact {inp s c : Int} {ki ks : Int} (hc : -32768 ≤ c ∧ c ≤ 32767) (hi : absLe inp ki) (hs : absLe s ks)
    (hk : ki + ks ≤ 1000000000) (hki : 0 ≤ ki) (hks : 0 ≤ ks)
    (hx : absLe ((inp - s) * c / 65536) 1000000000) : apSec inp s c = apSecExact inp s c := by
  unfold absLe at *
  unfold apSec apSecExact sub32 add32 smulwb
  dsimp only
  rw [wrap16_small hc.1 hc.2, wrap32_small (x := inp - s) (by omega) (by omega),
    wrap32_small (x := (inp - s) * c / 65536) (by omega) (by omega),
    wrap32_small (x := s + (inp - s) * c / 65536) (by omega) (by omega),
    wrap32_small (x := inp + (inp - s) * c / 65536) (by omega) (by omega)]

theorem apSec3_exact {inp s c : Int} {ki ks : Int} (hc : -32768 ≤ c ∧ c ≤ 32767) (hi : absLe inp ki) (hs : absLe s ks)
    (hk : ki + ks ≤ 1000000000) (hki : 0 ≤ ki) (hks : 0 ≤ ks)
    (hx : absLe ((inp - s) + (inp - s) * c / 65536) 1000000000) : apSec3 inp s c = apSec3Exact inp s c := by
  unfold absLe at *
  unfold apSec3 apSec3Exact sub32 add32 smlawb
  dsimp only
  rw [wrap16_small hc.1 hc.2, wrap32_small (x := inp - s) (by omega) (by omega),
    wrap32_small (x := (inp - s) + (inp - s) * c / 65536) (by omega) (by omega),
    wrap32_small (x := s + ((inp - s) + (inp - s) * c / 65536)) (by omega) (by omega),
    wrap32_small (x := inp + ((inp - s) + (inp - s) * c / 65536)) (by omega) (by omega)]

theorem up2hqStep_bounds (S : IIR) (x : Int) (h : ApInv S) (hx : I16 x) :
    ApInv (up2hqStep S x).1 ∧
    apSec (lshift32 x 10) S.s0 1746 = apSecExact (x * 1024) S.s0 1746 ∧
    apSec (apSecExact (x * 1024) S.s0 1746).1 S.s1 14986 = apSecExact (apSecExact (x * 1024) S.s0 1746).1 S.s1 14986 ∧
    apSec (lshift32 x 10) S.s3 6854 = apSecExact (x * 1024) S.s3 6854 ∧
    apSec (apSecExact (x * 1024) S.s3 6854).1 S.s4 25769 = apSecExact (apSecExact (x * 1024) S.s3 6854).1 S.s4 25769 ∧
    apSec3 (apSecExact (apSecExact (x * 1024) S.s0 1746).1 S.s1 14986).1 S.s2 (-26453) =
      apSec3Exact (apSecExact (apSecExact (x * 1024) S.s0 1746).1 S.s1 14986).1 S.s2 (-26453) := by
  obtain ⟨h0, h1, h2, h3, h4⟩ := h
  unfold absLe at h0 h1 h2 h3 h4
  unfold I16 at hx
  have hin : lshift32 x 10 = x * 1024 := by unfold lshift32; apply wrap32_small <;> omega
  have hi : absLe (x * 1024) 33554432 := by unfold absLe; omega
  have eA := apSec_exact (inp := x * 1024) (s := S.s0) (c := 1746) (ki := 33554432) (ks := 35500000) (by omega) hi
    (by unfold absLe; omega) (by omega) (by omega) (by omega) (by unfold absLe at *; omega)
  have eA' := apSec_exact (inp := x * 1024) (s := S.s3) (c := 6854) (ki := 33554432) (ks := 41500000) (by omega) hi
    (by unfold absLe; omega) (by omega) (by omega) (by omega) (by unfold absLe at *; omega)
  have bA : absLe (apSecExact (x * 1024) S.s0 1746).1 37400000 ∧ absLe (apSecExact (x * 1024) S.s0 1746).2 35500000 := by
    unfold absLe apSecExact at *; dsimp only; omega
  have bA' : absLe (apSecExact (x * 1024) S.s3 6854).1 49400000 ∧ absLe (apSecExact (x * 1024) S.s3 6854).2 41500000 := by
    unfold absLe apSecExact at *; dsimp only; omega
  have eB := apSec_exact (inp := (apSecExact (x * 1024) S.s0 1746).1) (s := S.s1) (c := 14986) (ki := 37400000)
    (ks := 59700000) (by omega) bA.1 (by unfold absLe; omega) (by omega) (by omega) (by omega)
    (by have := bA.1; unfold absLe at *; omega)
  have eB' := apSec_exact (inp := (apSecExact (x * 1024) S.s3 6854).1) (s := S.s4) (c := 25769) (ki := 49400000)
    (ks := 113600000) (by omega) bA'.1 (by unfold absLe; omega) (by omega) (by omega) (by omega)
    (by have := bA'.1; unfold absLe at *; omega)
  have bB : absLe (apSecExact (apSecExact (x * 1024) S.s0 1746).1 S.s1 14986).1 82000000 ∧
      absLe (apSecExact (apSecExact (x * 1024) S.s0 1746).1 S.s1 14986).2 59700000 := by
    have := bA.1
    generalize (apSecExact (x * 1024) S.s0 1746).1 = u at this ⊢
    unfold absLe apSecExact at *; dsimp only; omega
  have bB' : absLe (apSecExact (apSecExact (x * 1024) S.s3 6854).1 S.s4 25769).2 113600000 := by
    have := bA'.1
    generalize (apSecExact (x * 1024) S.s3 6854).1 = u at this ⊢
    unfold absLe apSecExact at *; dsimp only; omega
  have eC := apSec3_exact (inp := (apSecExact (apSecExact (x * 1024) S.s0 1746).1 S.s1 14986).1) (s := S.s2)
    (c := -26453) (ki := 82000000) (ks := 325000000) (by omega) bB.1 (by unfold absLe; omega) (by omega) (by omega)
    (by omega) (by have := bB.1; unfold absLe at *; omega)
  have bC : absLe (apSec3Exact (apSecExact (apSecExact (x * 1024) S.s0 1746).1 S.s1 14986).1 S.s2 (-26453)).2 325000000 := by
    have := bB.1
    generalize (apSecExact (apSecExact (x * 1024) S.s0 1746).1 S.s1 14986).1 = u at this ⊢
    unfold absLe apSec3Exact at *; dsimp only; omega
  refine ⟨⟨?_, ?_, ?_, ?_, ?_⟩, by rw [hin]; exact eA, eB, by rw [hin]; exact eA', eB', eC⟩
  · show absLe (apSec (lshift32 x 10) S.s0 (hq0 0)).2 _
    rw [show hq0 0 = 1746 from rfl, hin, eA]; exact bA.2
  · show absLe (apSec (apSec (lshift32 x 10) S.s0 (hq0 0)).1 S.s1 (hq0 1)).2 _
    rw [show hq0 0 = 1746 from rfl, show hq0 1 = 14986 from rfl, hin, eA, eB]; exact bB.2
  · show absLe (apSec3 (apSec (apSec (lshift32 x 10) S.s0 (hq0 0)).1 S.s1 (hq0 1)).1 S.s2 (hq0 2)).2 _
    rw [show hq0 0 = 1746 from rfl, show hq0 1 = 14986 from rfl, show hq0 2 = -26453 from rfl, hin, eA, eB, eC]
    exact bC
  · show absLe (apSec (lshift32 x 10) S.s3 (hq1 0)).2 _
    rw [show hq1 0 = 6854 from rfl, hin, eA']; exact bA'.2
  · show absLe (apSec (apSec (lshift32 x 10) S.s3 (hq1 0)).1 S.s4 (hq1 1)).2 _
    rw [show hq1 0 = 6854 from rfl, show hq1 1 = 25769 from rfl, hin, eA', eB']; exact bB'

/-- From the zero state, over every history of int16 inputs, the magnitude invariant holds. -/
theorem up2hq_apInv (S : IIR) (xs : List Int) (h : ApInv S) (hx : ∀ v ∈ xs, I16 v) : ApInv (up2hq S xs).1 := by
  induction xs generalizing S with
  | nil => exact h
  | cons x xs ih =>
    simp only [up2hq]
    exact ih _ (up2hqStep_bounds S x h (hx x List.mem_cons_self)).1 (fun v hv => hx v (List.mem_cons_of_mem _ hv))

theorem apInv_zero : ApInv IIR.zero := by
  unfold ApInv absLe IIR.zero; dsimp only; omega

end OpusProofs.SilkResamp
