import OpusProofs.FramingComplete
/-
  C06 soundness: whatever the parser accepts is the serialisation of an RFC-valid packet
  (followed, in the self-delimited framing, by the bytes of the next packet), and the reported
  view is that packet's.  Strategy: invert each parser stage to recover the header bytes,
  rebuild the packet (`mkPacket`), show it valid and that it serialises to the input; the
  equality of the reported view then follows from completeness.
-/
namespace Opus.FramingProofs
open Opus Opus.Framing Opus.FramingSpec

/-- Cut `d` into consecutive frames of the given sizes. -/
def splitBy : List Nat → Bytes → List Bytes
  | [], _ => []
  | s :: ss, d => d.take s :: splitBy ss (d.drop s)

theorem splitBy_spec (sizes : List Nat) (d : Bytes) (h : sumN sizes ≤ d.length) :
    (splitBy sizes d).map List.length = sizes ∧ (splitBy sizes d).flatten = d.take (sumN sizes) := by
  induction sizes generalizing d with
  | nil => simp [splitBy]
  | cons s ss ih =>
    simp only [sumN_cons] at h
    have := ih (d.drop s) (by simp; omega)
    simp only [splitBy, List.map_cons, List.flatten_cons, sumN_cons]
    refine ⟨by rw [this.1]; simp; omega, ?_⟩
    rw [this.2]
    rw [← List.take_add]  

theorem splitBy_length (sizes : List Nat) (d : Bytes) : (splitBy sizes d).length = sizes.length := by
  induction sizes generalizing d with
  | nil => simp [splitBy]
  | cons s ss ih => simp [splitBy, ih]

theorem finish_inv (sd : Bool) (total toc : Nat) (h : Hdr) (r : Parsed) (hb : BytesOk h.data)
    (hls : 0 ≤ h.lastSize) (hr : finish sd total toc h = .ok r) :
    ∃ (L : Nat) (tail : Bytes), L ≤ 1275 ∧ h.data = (if sd then encLen L else []) ++ tail ∧
      r = mkParsed total toc h (if h.cbr then List.replicate h.count L else h.sizes ++ [L]) tail ∧
      (sd = false → h.lastSize = L) ∧
      (sd = true → ((encLen L).length : Int) ≤ h.len ∧ (L : Int) ≤ h.len - (encLen L).length ∧
        (if h.cbr then (L : Int) * h.count ≤ h.len - (encLen L).length
         else ((encLen L).length : Int) + L ≤ h.lastSize)) := by
  unfold finish at hr
  cases sd with
  | false =>
    simp only [Bool.false_eq_true, if_false] at hr
    split at hr
    · simp at hr
    · rename_i hle
      refine ⟨h.lastSize.toNat, h.data, by omega, by simp, ?_, by intro _; omega, by intro h; cases h⟩
      cases hc : h.cbr <;> simp [hc] at hr ⊢ <;> exact hr.symm
  | true =>
    simp only [if_true] at hr
    split at hr
    · rename_i bytes sz hps
      split at hr
      · simp at hr
      · rename_i hcond
        obtain ⟨n, h1, h2, h3, h4, h5⟩ := parseSize_ok_inv h.data h.len hb bytes sz hps (by omega)
        have hsz : sz.toNat = n := by omega
        refine ⟨n, h.data.drop bytes.toNat, h2, (by simpa using h5), ?_, (by intro h; cases h), ?_⟩
        · cases hc : h.cbr <;> simp only [hc, if_true, Bool.false_eq_true, if_false] at hr ⊢
          · split at hr
            · simp at hr
            · simp at hr; rw [← hr, hsz]
          · split at hr
            · simp at hr
            · simp at hr; rw [← hr, hsz]
        · intro _
          refine ⟨by omega, by omega, ?_⟩
          cases hc : h.cbr <;> simp only [hc, if_true, Bool.false_eq_true, if_false] at hr ⊢
          · split at hr
            · simp at hr
            · omega
          · split at hr
            · simp at hr
            · rw [← h1, ← h3]; omega
    all_goals simp at hr



/-- Rebuild a packet from what the parser recovered. `padw = some (k,last)` is the padding chain. -/
def mkPacket (toc : Nat) (vbr : Bool) (padw : Option (Nat × Nat)) (sizes : List Nat) (tail : Bytes) : Packet :=
  { toc, frames := splitBy sizes tail, vbr,
    pad := padw.map (fun kl => { n255 := kl.1, last := kl.2,
                                 bytes := (tail.drop (sumN sizes)).take (254 * kl.1 + kl.2) }) }

def padTotal (padw : Option (Nat × Nat)) : Nat := match padw with | some kl => 254 * kl.1 + kl.2 | none => 0

theorem mkPacket_lens (toc vbr padw sizes tail) (h : sumN sizes ≤ tail.length) :
    (mkPacket toc vbr padw sizes tail).lens = sizes := by
  simp [mkPacket, Packet.lens, (splitBy_spec sizes tail h).1]

theorem mkPacket_serialize (sd : Bool) (toc vbr padw sizes) (tail : Bytes)
    (h : sumN sizes + padTotal padw ≤ tail.length) :
    serialize sd (mkPacket toc vbr padw sizes tail) ++ tail.drop (sumN sizes + padTotal padw)
      = header sd (mkPacket toc vbr padw sizes tail) ++ tail := by
  have hs := splitBy_spec sizes tail (by omega)
  unfold serialize
  rw [List.append_assoc, List.append_assoc]
  congr 1
  have hfl : (mkPacket toc vbr padw sizes tail).frames.flatten = tail.take (sumN sizes) := hs.2
  rw [hfl]
  have hpb : padBytes (mkPacket toc vbr padw sizes tail) = (tail.drop (sumN sizes)).take (padTotal padw) := by
    cases padw <;> simp [padBytes, mkPacket, padTotal]
  rw [hpb]
  rw [← List.drop_drop]
  rw [List.take_append_drop, List.take_append_drop]



theorem mkPacket_valid (toc : Nat) (vbr : Bool) (padw : Option (Nat × Nat)) (sizes : List Nat) (tail : Bytes)
    (htoc : toc < 256) (hfit : sumN sizes + padTotal padw ≤ tail.length)
    (hsz : ∀ s ∈ sizes, s ≤ 1275)
    (h0 : toc % 4 = 0 → sizes.length = 1 ∧ vbr = false ∧ padw = none)
    (h1 : toc % 4 = 1 → sizes.length = 2 ∧ vbr = false ∧ padw = none ∧ allEq sizes)
    (h2 : toc % 4 = 2 → sizes.length = 2 ∧ vbr = false ∧ padw = none)
    (h3 : toc % 4 = 3 → 1 ≤ sizes.length ∧ frameDur48 toc * sizes.length ≤ 5760 ∧ (vbr = false → allEq sizes))
    (hp : ∀ k last, padw = some (k, last) → last < 255) :
    Valid (mkPacket toc vbr padw sizes tail) := by
  have hs := splitBy_spec sizes tail (by omega)
  have hlens : (mkPacket toc vbr padw sizes tail).lens = sizes := mkPacket_lens _ _ _ _ _ (by omega)
  have hlen : (mkPacket toc vbr padw sizes tail).frames.length = sizes.length := splitBy_length _ _
  have hpadnone : padw = none → (mkPacket toc vbr padw sizes tail).pad = none := by
    intro h; simp [mkPacket, h]
  refine ⟨htoc, ?_, ?_, ?_, ?_, ?_, ?_⟩
  · intro f hf
    have : f.length ∈ (mkPacket toc vbr padw sizes tail).lens := by
      simp only [Packet.lens]; exact List.mem_map_of_mem hf
    rw [hlens] at this; exact hsz _ this
  · intro hc; obtain ⟨a, b, c⟩ := h0 hc; exact ⟨by rw [hlen]; exact a, b, hpadnone c⟩
  · intro hc; obtain ⟨a, b, c, d⟩ := h1 hc; exact ⟨by rw [hlen]; exact a, b, hpadnone c, by rw [hlens]; exact d⟩
  · intro hc; obtain ⟨a, b, c⟩ := h2 hc; exact ⟨by rw [hlen]; exact a, b, hpadnone c⟩
  · intro hc; obtain ⟨a, b, c⟩ := h3 hc
    exact ⟨by rw [hlen]; exact a, by rw [hlen]; exact b, by rw [hlens]; exact c⟩
  · intro pd hpd
    cases hpw : padw with
    | none => simp [mkPacket, hpw] at hpd
    | some kl =>
      obtain ⟨k, last⟩ := kl
      simp [mkPacket, hpw] at hpd
      subst hpd
      simp only [Pad.total]
      refine ⟨hp k last hpw, ?_⟩
      simp only [padTotal, hpw] at hfit
      simp; omega



theorem conclude (sd : Bool) (bs : Bytes) (r : Parsed) (hparse : parseImpl sd bs = .ok r)
    (toc : Nat) (vbr : Bool) (padw : Option (Nat × Nat)) (sizes : List Nat) (tail : Bytes)
    (hv : Valid (mkPacket toc vbr padw sizes tail))
    (hfit : sumN sizes + padTotal padw ≤ tail.length)
    (hbs : bs = header sd (mkPacket toc vbr padw sizes tail) ++ tail)
    (hrest : sd = false → sumN sizes + padTotal padw = tail.length) :
    ∃ p rest, Valid p ∧ bs = serialize sd p ++ rest ∧ (sd = false → rest = []) ∧ r = view sd p := by
  have hser := mkPacket_serialize sd toc vbr padw sizes tail hfit
  have hr0 : sd = false → tail.drop (sumN sizes + padTotal padw) = [] := by
    intro h; rw [hrest h]; simp
  refine ⟨mkPacket toc vbr padw sizes tail, tail.drop (sumN sizes + padTotal padw), hv, ?_, hr0, ?_⟩
  · rw [hser]; exact hbs
  · have hc := parse_complete sd _ hv _ hr0
    rw [hser, ← hbs, hparse] at hc
    injection hc

theorem bytesOk_tail {b : Nat} {bs : Bytes} (h : BytesOk (b :: bs)) : BytesOk bs :=
  fun x hx => h x (by simp [hx])

theorem sound_code0 (sd : Bool) (toc : Nat) (data : Bytes) (hb : BytesOk (toc :: data)) (r : Parsed)
    (hc : toc % 4 = 0) (h : parseImpl sd (toc :: data) = .ok r) :
    ∃ p rest, Valid p ∧ toc :: data = serialize sd p ++ rest ∧ (sd = false → rest = []) ∧ r = view sd p := by
  have htoc : toc < 256 := hb toc (by simp)
  have h' := h
  unfold parseImpl at h'
  simp only [parseHdr, hc, if_true] at h'
  obtain ⟨L, tail, hL, hdata, _, hns, hsd⟩ := finish_inv sd _ toc _ r (bytesOk_tail hb) (by simp) h'
  simp only at hdata hns hsd
  have hfit : sumN [L] + padTotal none ≤ tail.length := by
    simp [padTotal]
    cases sd with
    | false => have := hns rfl; rw [hdata] at this; simp at this; omega
    | true => have := hsd rfl; rw [hdata] at this; simp at this; omega
  apply conclude sd _ r h toc false none [L] tail ?_ hfit ?_ ?_
  · apply mkPacket_valid _ _ _ _ _ htoc hfit (by simpa using hL) <;> simp [hc]
  · have hl := mkPacket_lens toc false none [L] tail (by simpa [padTotal] using hfit)
    unfold header lenFields; rw [hl]
    simp [Packet.code, mkPacket, hc, hdata]
    cases sd <;> simp
  · intro hs; have := hns hs; rw [hdata, hs] at this; simp at this; simp [padTotal]; omega



theorem sound_code1 (sd : Bool) (toc : Nat) (data : Bytes) (hb : BytesOk (toc :: data)) (r : Parsed)
    (hc : toc % 4 = 1) (h : parseImpl sd (toc :: data) = .ok r) :
    ∃ p rest, Valid p ∧ toc :: data = serialize sd p ++ rest ∧ (sd = false → rest = []) ∧ r = view sd p := by
  have htoc : toc < 256 := hb toc (by simp)
  have h' := h
  unfold parseImpl at h'
  simp only [parseHdr, hc, show ¬ (1 = 0) by decide, if_true, if_false] at h'
  cases sd with
  | true =>
    simp only [if_true] at h'
    obtain ⟨L, tail, hL, hdata, _, hns, hsd⟩ := finish_inv true _ toc _ r (bytesOk_tail hb) (by simp) h'
    simp only [if_true] at hdata hns hsd
    have hsd' := hsd trivial
    rw [hdata] at hsd'
    simp at hsd'
    have hfit : sumN [L, L] + padTotal none ≤ tail.length := by simp [padTotal]; omega
    apply conclude true _ r h toc false none [L, L] tail ?_ hfit ?_ (by intro h; cases h)
    · apply mkPacket_valid _ _ _ _ _ htoc hfit (by simpa using hL) <;> simp [hc, allEq]
    · have hl := mkPacket_lens toc false none [L, L] tail (by simpa [padTotal] using hfit)
      unfold header lenFields; rw [hl]
      simp [Packet.code, mkPacket, hc, hdata]
  | false =>
    simp only [Bool.false_eq_true, if_false] at h'
    by_cases hodd : ((data.length : Int) % 2 = 1)
    · simp [hodd] at h'
    · simp only [hodd, if_false] at h'
      obtain ⟨L, tail, hL, hdata, _, hns, hsd⟩ := finish_inv false _ toc _ r (bytesOk_tail hb) (by simp; omega) h'
      simp only [Bool.false_eq_true, if_false, List.nil_append] at hdata hns hsd
      have hns' := hns trivial
      have hfit : sumN [L, L] + padTotal none ≤ tail.length := by simp [padTotal]; rw [← hdata]; omega
      apply conclude false _ r h toc false none [L, L] tail ?_ hfit ?_ ?_
      · apply mkPacket_valid _ _ _ _ _ htoc hfit (by simpa using hL) <;> simp [hc, allEq]
      · have hl := mkPacket_lens toc false none [L, L] tail (by simpa [padTotal] using hfit)
        unfold header lenFields; rw [hl]
        simp [Packet.code, mkPacket, hc, hdata]
      · intro _; simp [padTotal]; rw [← hdata]; omega

theorem sound_code2 (sd : Bool) (toc : Nat) (data : Bytes) (hb : BytesOk (toc :: data)) (r : Parsed)
    (hc : toc % 4 = 2) (h : parseImpl sd (toc :: data) = .ok r) :
    ∃ p rest, Valid p ∧ toc :: data = serialize sd p ++ rest ∧ (sd = false → rest = []) ∧ r = view sd p := by
  have htoc : toc < 256 := hb toc (by simp)
  have hbd := bytesOk_tail hb
  have h' := h
  unfold parseImpl at h'
  simp only [parseHdr, hc, show ¬ (2 = 0) by decide, show ¬ (2 = 1) by decide, if_true, if_false] at h'
  split at h'
  · rename_i hh hhdr
    split at hhdr
    · rename_i bytes sz hps
      split at hhdr
      · simp at hhdr
      · rename_i hcond
        obtain ⟨n0, e1, e2, e3, e4, e5⟩ := parseSize_ok_inv data _ hbd bytes sz hps (by omega)
        simp at hhdr
        subst hhdr
        have hbd' : BytesOk (data.drop bytes.toNat) := fun b hb' => hbd b (List.mem_of_mem_drop hb')
        obtain ⟨L, tail, hL, hdata, _, hns, hsd⟩ := finish_inv sd _ toc _ r hbd' (by simp only; omega) h'
        simp only [Bool.false_eq_true, if_false] at hdata hns hsd
        have hdl : data.length = (encLen n0).length + (if sd then (encLen L).length else 0) + tail.length := by
          conv => lhs; rw [e5, hdata]
          cases sd <;> simp <;> omega
        have hszn : sz.toNat = n0 := by omega
        have hfit : sumN [n0, L] + padTotal none ≤ tail.length := by
          simp [padTotal]
          cases sd with
          | false => have := hns rfl; simp at hdl; omega
          | true => have := hsd rfl; simp at hdl; omega
        apply conclude sd _ r h toc false none [n0, L] tail ?_ hfit ?_ ?_
        · apply mkPacket_valid _ _ _ _ _ htoc hfit ?_ <;> simp [hc]
          exact ⟨e2, hL⟩
        · have hl := mkPacket_lens toc false none [n0, L] tail (by simpa [padTotal] using hfit)
          unfold header lenFields; rw [hl]
          simp [Packet.code, mkPacket, hc]
          conv => lhs; rw [e5, hdata]
          cases sd <;> simp
        · intro hs; subst hs; have := hns rfl; simp [padTotal]; simp at hdl; omega
    all_goals simp at hhdr
  all_goals simp at h'



def padHdrW (padw : Option (Nat × Nat)) : Bytes :=
  match padw with | some kl => List.replicate kl.1 255 ++ [kl.2] | none => []

/-- Inversion of the count byte + padding chain stage of code 3. -/
theorem padStage_inv (ch : Nat) (data1 : Bytes) (hb : BytesOk data1) (data2 : Bytes) (len2 : Int) (pad : Nat)
    (h : (if ch / 64 % 2 = 1 then padChain data1 data1.length 0 else .ok (data1, (data1.length : Int), 0))
          = .ok (data2, len2, pad)) :
    ∃ padw : Option (Nat × Nat), data1 = padHdrW padw ++ data2 ∧ pad = padTotal padw ∧
      len2 = (data2.length : Int) - padTotal padw ∧ (ch / 64 % 2 = 1 ↔ padw.isSome = true) ∧
      (∀ k last, padw = some (k, last) → last < 255) := by
  by_cases hp : ch / 64 % 2 = 1
  · rw [if_pos hp] at h
    obtain ⟨k, last, h1, h2, h3, h4, h5⟩ := padChain_inv data1 hb _ 0 data2 len2 pad h
    refine ⟨some (k, last), by simpa [padHdrW] using h2, by simp [padTotal, h4], ?_, by simp [hp], ?_⟩
    · rw [h3, h2]; simp [padTotal]; omega
    · intro k' last' he; simp at he; omega
  · rw [if_neg hp] at h
    simp at h
    refine ⟨none, by simp [padHdrW, h.1], by simp [padTotal, h.2.2], by simp [padTotal, ← h.2.1, h.1], by simp [hp], by simp⟩



theorem ch_decomp (ch : Nat) (h : ch < 256) : ch = ch % 64 + (if ch / 64 % 2 = 1 then 64 else 0) + (if ch / 128 % 2 = 1 then 128 else 0) := by
  split <;> split <;> omega

theorem allEq_replicate' (n L : Nat) : allEq (List.replicate n L) := by
  intro a ha b hb
  rw [List.mem_replicate] at ha hb
  rw [ha.2, hb.2]

theorem sound_code3 (sd : Bool) (toc : Nat) (data : Bytes) (hb : BytesOk (toc :: data)) (r : Parsed)
    (hc : toc % 4 = 3) (h : parseImpl sd (toc :: data) = .ok r) :
    ∃ p rest, Valid p ∧ toc :: data = serialize sd p ++ rest ∧ (sd = false → rest = []) ∧ r = view sd p := by
  have htoc : toc < 256 := hb toc (by simp)
  have hbd := bytesOk_tail hb
  have h' := h
  unfold parseImpl at h'
  simp only [parseHdr, hc, show ¬ (3 = 0) by decide, show ¬ (3 = 1) by decide, show ¬ (3 = 2) by decide, if_false] at h'
  rw [frameDur48_spf toc htoc] at h'
  cases hd : parseCode3 sd (frameDur48 toc) data data.length with
  | err e => rw [hd] at h'; simp at h'
  | oob => rw [hd] at h'; simp at h'
  | abort => rw [hd] at h'; simp at h'
  | ok hh =>
    rw [hd] at h'
    simp only at h'
    unfold parseCode3 at hd
    by_cases hl1 : (data.length : Int) < 1
    · simp [hl1] at hd
    · rw [if_neg hl1] at hd
      cases data with
      | nil => simp at hl1
      | cons ch data1 =>
        have hch : ch < 256 := hbd ch (by simp)
        have hbd1 := bytesOk_tail hbd
        simp only at hd
        by_cases hcnt : (ch % 64 = 0 ∨ frameDur48 toc * (ch % 64) > 5760)
        · rw [if_pos hcnt] at hd; simp at hd
        · rw [if_neg hcnt] at hd
          have hlen1 : ((ch :: data1).length : Int) - 1 = data1.length := by simp
          rw [hlen1] at hd
          cases hps : (if ch / 64 % 2 = 1 then padChain data1 data1.length 0 else Res.ok (data1, (data1.length : Int), 0)) with
          | err e => rw [hps] at hd; simp at hd
          | oob => rw [hps] at hd; simp at hd
          | abort => rw [hps] at hd; simp at hd
          | ok tr =>
            obtain ⟨data2, len2, pad⟩ := tr
            rw [hps] at hd
            simp only at hd
            obtain ⟨padw, hd1, hpad, hlen2, hpflag, hplast⟩ := padStage_inv ch data1 hbd1 data2 len2 pad hps
            have hbd2 : BytesOk data2 := fun b hb' => hbd1 b (by rw [hd1]; simp [hb'])
            by_cases hneg : len2 < 0
            · rw [if_pos hneg] at hd; simp at hd
            · rw [if_neg hneg] at hd
              have hcount1 : 1 ≤ ch % 64 := by omega
              have hdur : frameDur48 toc * (ch % 64) ≤ 5760 := by omega
              have hdl1 : data1.length = (padHdrW padw).length + data2.length := by rw [hd1]; simp
              by_cases hv : ch / 128 % 2 = 1
              · rw [if_pos hv] at hd
                cases hvs : vbrSizes (ch % 64 - 1) data2 len2 len2 with
                | err e => rw [hvs] at hd; simp at hd
                | oob => rw [hvs] at hd; simp at hd
                | abort => rw [hvs] at hd; simp at hd
                | ok q =>
                  obtain ⟨ss, d, l, last⟩ := q
                  rw [hvs] at hd
                  simp only at hd
                  by_cases hlast : last < 0
                  · rw [if_pos hlast] at hd; simp at hd
                  · rw [if_neg hlast] at hd
                    simp at hd
                    subst hd
                    obtain ⟨i1, i2, i3, i4, i5, i6⟩ := vbrSizes_inv _ data2 hbd2 len2 len2 (by omega) ss d l last hvs
                    have hbd3 : BytesOk d := fun b hb' => hbd2 b (by rw [i3]; simp [hb'])
                    obtain ⟨L, tail, hL, hdata, _, hns, hsd⟩ := finish_inv sd _ toc _ r hbd3 (by simp only; omega) h'
                    simp only [Bool.false_eq_true, if_false] at hdata hns hsd
                    have hdl2 : data2.length = H ss + (if sd then (encLen L).length else 0) + tail.length := by
                      conv => lhs; rw [i3, hdata]
                      cases sd <;> simp [H] <;> omega
                    have hsum : sumN (ss ++ [L]) = sumN ss + L := by rw [sumN_append]; simp
                    have hfit : sumN (ss ++ [L]) + padTotal padw ≤ tail.length := by
                      rw [hsum]
                      cases sd with
                      | false => have := hns rfl; simp at hdl2; omega
                      | true => have := hsd rfl; simp at hdl2; omega
                    apply conclude sd _ r h toc true padw (ss ++ [L]) tail ?_ hfit ?_ ?_
                    · apply mkPacket_valid _ _ _ _ _ htoc hfit ?_ (by simp [hc]) (by simp [hc]) (by simp [hc]) ?_ hplast
                      · intro s hs; simp at hs; rcases hs with hs | hs
                        · exact i2 s hs
                        · rw [hs]; exact hL
                      · intro _; refine ⟨by simp, ?_, by simp⟩
                        simp [i1]; rw [show ch % 64 - 1 + 1 = ch % 64 by omega]; exact hdur
                    · have hl := mkPacket_lens toc true padw (ss ++ [L]) tail (by omega)
                      unfold header lenFields; rw [hl]
                      have hcb : countByte (mkPacket toc true padw (ss ++ [L]) tail) = ch := by
                        unfold countByte
                        have : (mkPacket toc true padw (ss ++ [L]) tail).frames.length = ch % 64 := by
                          simp [mkPacket, splitBy_length, i1]; omega
                        rw [this]
                        have hps' : (mkPacket toc true padw (ss ++ [L]) tail).pad.isSome = padw.isSome := by
                          simp [mkPacket]
                        rw [hps']
                        have := ch_decomp ch hch
                        simp only [mkPacket]
                        by_cases hq : ch / 64 % 2 = 1
                        · have := hpflag.mp hq; simp [this, hv] at *; omega
                        · have : padw.isSome = false := by
                            cases hh : padw.isSome
                            · rfl
                            · exact absurd (hpflag.mpr hh) hq
                          simp [this, hv, hq] at *; omega
                      rw [hcb]
                      rw [hd1, i3, hdata]
                      cases padw <;> cases sd <;> simp [Packet.code, mkPacket, hc, padHdrW, Pad.hdr]
                    · intro hs; subst hs; have := hns rfl; rw [hsum]; simp at hdl2; omega
              · rw [if_neg hv] at hd
                have hcbOf : ∀ (sizes : List Nat) (tail : Bytes), sizes.length = ch % 64 →
                    countByte (mkPacket toc false padw sizes tail) = ch := by
                  intro sizes tail hsl
                  unfold countByte
                  have : (mkPacket toc false padw sizes tail).frames.length = ch % 64 := by
                    simp [mkPacket, splitBy_length, hsl]
                  rw [this]
                  have hps' : (mkPacket toc false padw sizes tail).pad.isSome = padw.isSome := by
                    simp [mkPacket]
                  rw [hps']
                  have hdec := ch_decomp ch hch
                  simp only [mkPacket]
                  by_cases hq : ch / 64 % 2 = 1
                  · have hs := hpflag.mp hq
                    simp [hq, hv] at hdec
                    simp [hs]; omega
                  · have hs : padw.isSome = false := by
                      cases hh : padw.isSome
                      · rfl
                      · exact absurd (hpflag.mpr hh) hq
                    simp [hq, hv] at hdec
                    simp [hs]; omega
                cases sd with
                | true =>
                  simp only [if_true] at hd
                  simp at hd
                  subst hd
                  obtain ⟨L, tail, hL, hdata, _, hns, hsd⟩ := finish_inv true _ toc _ r hbd2 (by simp only; omega) h'
                  simp only [if_true] at hdata hsd
                  have hsd' := hsd trivial
                  have hdl2 : data2.length = (encLen L).length + tail.length := by
                    conv => lhs; rw [hdata]
                    simp
                  have hmul : (L : Int) * ((ch % 64 : Nat) : Int) = ((ch % 64 * L : Nat) : Int) := by
                    push_cast; exact Int.mul_comm _ _
                  have hfit : sumN (List.replicate (ch % 64) L) + padTotal padw ≤ tail.length := by
                    rw [sumN_replicate]; omega
                  apply conclude true _ r h toc false padw (List.replicate (ch % 64) L) tail ?_ hfit ?_ (by intro h; cases h)
                  · apply mkPacket_valid _ _ _ _ _ htoc hfit ?_ (by simp [hc]) (by simp [hc]) (by simp [hc]) ?_ hplast
                    · intro s hs; rw [List.mem_replicate] at hs; rw [hs.2]; exact hL
                    · intro _; refine ⟨by simp; omega, by simpa using hdur, fun _ => allEq_replicate' _ _⟩
                  · have hl := mkPacket_lens toc false padw (List.replicate (ch % 64) L) tail (by omega)
                    unfold header lenFields; rw [hl]
                    rw [hcbOf _ _ (by simp)]
                    rw [hd1, hdata]
                    have hgl : (List.replicate (ch % 64) L).getLast? = some L := by
                      rw [List.getLast?_replicate]; simp; omega
                    rw [hgl]
                    cases padw <;> simp [Packet.code, mkPacket, hc, padHdrW, Pad.hdr]
                | false =>
                  simp only [Bool.false_eq_true, if_false] at hd
                  by_cases hdiv : len2 / ((ch % 64 : Nat) : Int) * ((ch % 64 : Nat) : Int) ≠ len2
                  · rw [if_pos hdiv] at hd; simp at hd
                  · rw [if_neg hdiv] at hd
                    simp at hd
                    subst hd
                    have hq0 : 0 ≤ len2 / ((ch % 64 : Nat) : Int) := Int.ediv_nonneg (by omega) (by omega)
                    obtain ⟨L, tail, hL, hdata, _, hns, hsd⟩ := finish_inv false _ toc _ r hbd2 (by simp only; exact hq0) h'
                    simp only [Bool.false_eq_true, if_false, List.nil_append] at hdata hns
                    have hns' := hns trivial
                    have hmul : (L : Int) * ((ch % 64 : Nat) : Int) = ((ch % 64 * L : Nat) : Int) := by
                      push_cast; exact Int.mul_comm _ _
                    have hfit : sumN (List.replicate (ch % 64) L) + padTotal padw ≤ tail.length := by
                      rw [sumN_replicate, ← hdata]
                      have : (L : Int) * ((ch % 64 : Nat) : Int) = len2 := by rw [← hns']; simpa using hdiv
                      omega
                    apply conclude false _ r h toc false padw (List.replicate (ch % 64) L) tail ?_ hfit ?_ ?_
                    · apply mkPacket_valid _ _ _ _ _ htoc hfit ?_ (by simp [hc]) (by simp [hc]) (by simp [hc]) ?_ hplast
                      · intro s hs; rw [List.mem_replicate] at hs; rw [hs.2]; exact hL
                      · intro _; refine ⟨by simp; omega, by simpa using hdur, fun _ => allEq_replicate' _ _⟩
                    · have hl := mkPacket_lens toc false padw (List.replicate (ch % 64) L) tail (by omega)
                      unfold header lenFields; rw [hl]
                      rw [hcbOf _ _ (by simp)]
                      rw [hd1, hdata]
                      cases padw <;> simp [Packet.code, mkPacket, hc, padHdrW, Pad.hdr]
                    · intro _
                      rw [sumN_replicate, ← hdata]
                      have : (L : Int) * ((ch % 64 : Nat) : Int) = len2 := by rw [← hns']; simpa using hdiv
                      omega


/-- Soundness of the parser against the RFC 6716 framing spec. -/
theorem parse_sound (sd : Bool) (bs : Bytes) (hb : BytesOk bs) (r : Parsed)
    (h : parseImpl sd bs = .ok r) :
    ∃ p rest, Valid p ∧ bs = serialize sd p ++ rest ∧ (sd = false → rest = []) ∧ r = view sd p := by
  cases bs with
  | nil => simp [parseImpl] at h
  | cons toc data =>
    have h4 : toc % 4 < 4 := Nat.mod_lt _ (by decide)
    have hcases : toc % 4 = 0 ∨ toc % 4 = 1 ∨ toc % 4 = 2 ∨ toc % 4 = 3 := by omega
    rcases hcases with hc | hc | hc | hc
    · exact sound_code0 sd toc data hb r hc h
    · exact sound_code1 sd toc data hb r hc h
    · exact sound_code2 sd toc data hb r hc h
    · exact sound_code3 sd toc data hb r hc h

end Opus.FramingProofs
