import OpusProofs.EncSkelMulti
/-
  OpusProofs.EncSkelInv — `stOk` (the part of C11's `CtlInv`/`DInv` the skeleton reads) is an invariant
  of `opus_encode_native`: for ALL oracle values (no contract needed) and all arguments, every call —
  successful or not — leaves a state within `stOk`; the settings are not written at all.
-/
namespace Opus.EncSkel.Proofs
open Opus Opus.EncDecide Opus.EncSkel

/-- How a frame call leaves `prev_mode`, `prev_channels`, `first` (whatever the oracles say, also on
    the error and assertion outcomes): untouched (early returns) — `prev_channels` possibly set by the
    SILK DTX return — or set by the state update at :2416-2425. -/
def FrameSt (s : St) (r : St) : Prop :=
  Keeps s r ∧
  ((r.prevMode = s.prevMode ∧ r.first = s.first ∧ (r.prevChannels = s.prevChannels ∨ r.prevChannels = s.streamChannels)) ∨
   (r.first = 0 ∧ (r.prevMode = s.mode ∨ r.prevMode = MODE_CELT_ONLY) ∧ r.prevChannels = s.streamChannels))

theorem frSilk_st (s : St) (fi : FrameIn) (o : FrameOr) :
    (∀ r, frSilk fi (frPre s fi) o = .done r → FrameSt s r.st) ∧
    (∀ x, frSilk fi (frPre s fi) o = .cont x → Keeps s x.st ∧ x.st.prevMode = s.prevMode ∧ x.st.first = s.first ∧
       x.st.prevChannels = s.prevChannels) := by
  have hkp := frPre_keeps s fi
  have hp : (frPre s fi).st.prevMode = s.prevMode ∧ (frPre s fi).st.first = s.first ∧
      (frPre s fi).st.prevChannels = s.prevChannels ∧ (frPre s fi).st.streamChannels = s.streamChannels := by
    unfold frPre; dsimp only; split <;> exact ⟨rfl, rfl, rfl, rfl⟩
  generalize frPre s fi = p at *
  obtain ⟨h1, h2, h3, h4⟩ := hp
  unfold frSilk
  constructor
  · intro r hr
    split at hr
    · cases hr
    · split at hr
      · cases hr; exact ⟨hkp, Or.inl ⟨h1, h2, Or.inl h3⟩⟩
      · split at hr
        · cases hr; exact ⟨hkp.trans (silkSt_keeps p o), Or.inl ⟨h1, h2, Or.inl h3⟩⟩
        · split at hr
          · cases hr; exact ⟨hkp.trans (silkSt_keeps p o), Or.inl ⟨h1, h2, Or.inl h3⟩⟩
          · split at hr
            · cases hr
              exact ⟨hkp.trans (Keeps.trans (silkSt2_keeps p o) rfl), Or.inl ⟨h1, h2, Or.inr h4⟩⟩
            · split at hr <;> cases hr
  · intro x hx
    split at hx
    · cases hx; exact ⟨hkp, h1, h2, h3⟩
    · split at hx
      · cases hx
      · split at hx
        · cases hx
        · split at hx
          · cases hx
          · split at hx
            · cases hx
            · split at hx
              · cases hx; exact ⟨hkp.trans (Keeps.trans (silkSt2_keeps p o) rfl), h1, h2, h3⟩
              · cases hx; exact ⟨hkp.trans (silkSt2_keeps p o), h1, h2, h3⟩

theorem frameNative_st (s : St) (fi : FrameIn) (o : FrameOr) : FrameSt s (frameNative s fi o).st := by
  obtain ⟨hd, hc⟩ := frSilk_st s fi o
  unfold frameNative
  dsimp only
  cases hs : frSilk fi (frPre s fi) o with
  | done r => exact hd r hs
  | cont x =>
    obtain ⟨hk, h1, h2, h3⟩ := hc x hs
    dsimp only
    obtain ⟨hk2, _⟩ := frRedSig_spec fi x o
    have hq : (frRedSig fi x o).2.2.prevMode = x.st.prevMode ∧ (frRedSig fi x o).2.2.first = x.st.first ∧
        (frRedSig fi x o).2.2.prevChannels = x.st.prevChannels ∧ (frRedSig fi x o).2.2.mode = x.st.mode ∧
        (frRedSig fi x o).2.2.streamChannels = x.st.streamChannels := by
      unfold frRedSig; dsimp only; split <;> exact ⟨rfl, rfl, rfl, rfl, rfl⟩
    rcases hrs : frRedSig fi x o with ⟨red, rb, s'⟩
    simp only [hrs] at hk2 hq ⊢
    obtain ⟨q1, q2, q3, q4, q5⟩ := hq
    have hks : Keeps s s' := hk.trans hk2
    have hearly : FrameSt s s' := ⟨hks, Or.inl ⟨by rw [q1, h1], by rw [q2, h2], Or.inl (by rw [q3, h3])⟩⟩
    have hmode : s'.mode = s.mode := hks.mode
    have hsc : s'.streamChannels = s.streamChannels := hks.streamChannels
    rcases hcode : frCode s' fi red x.celtToSilk rb o with ⟨cr, cs⟩
    cases cr with
    | abort => exact hearly
    | ierr => exact hearly
    | ok c =>
      dsimp only
      have hfin : ∀ e, FrameSt s (errRes (finishSt s' fi o) (x.calls ++ cs) e).st := by
        intro e
        refine ⟨hks.trans (finishSt_keeps s' fi o), Or.inr ⟨rfl, ?_, ?_⟩⟩
        · by_cases ht : fi.toCelt = true
          · right; show (if fi.toCelt = true then MODE_CELT_ONLY else s'.mode) = MODE_CELT_ONLY; rw [if_pos ht]
          · left; show (if fi.toCelt = true then MODE_CELT_ONLY else s'.mode) = s.mode; rw [if_neg ht]; exact hmode
        · exact hsc
      have hF : FrameSt s (finishSt s' fi o) := (hfin 0)
      unfold frFinish
      dsimp only
      split
      · exact hF
      · split
        · exact hF
        · split
          · split
            · exact hF
            · exact hF
          · exact hF


end Opus.EncSkel.Proofs
