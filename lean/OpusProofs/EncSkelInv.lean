import OpusProofs.EncSkelMulti
/-
  OpusProofs.EncSkelInv — `stOk` (the part of C11's `CtlInv`/`DInv` the skeleton reads) is an invariant
  of `opus_encode_native`: for ALL oracle values (no contract needed) and all arguments, every call —
  successful or not — leaves a state within `stOk`; the settings are not written at all.
-/
namespace Opus.EncSkel.Proofs
open Opus Opus.EncDecide Opus.EncSkel

/-- How a frame call leaves `prev_mode`, `prev_channels`, `first` (whatever the oracles say, also on
    the error and assertion outcomes): untouched (early returns) — `prev_channels` possibly set by the
    SILK DTX return — or set by the state update at :2416-2425. -/
def FrameSt (s : St) (r : St) : Prop :=
  Keeps s r ∧
  ((r.prevMode = s.prevMode ∧ r.first = s.first ∧ (r.prevChannels = s.prevChannels ∨ r.prevChannels = s.streamChannels)) ∨
   (r.first = 0 ∧ (r.prevMode = s.mode ∨ r.prevMode = MODE_CELT_ONLY) ∧ r.prevChannels = s.streamChannels))

theorem frSilk_st (s : St) (fi : FrameIn) (o : FrameOr) :
    (∀ r, frSilk fi (frPre s fi) o = .done r → FrameSt s r.st) ∧
    (∀ x, frSilk fi (frPre s fi) o = .cont x → Keeps s x.st ∧ x.st.prevMode = s.prevMode ∧ x.st.first = s.first ∧
       x.st.prevChannels = s.prevChannels) := by
  have hkp := frPre_keeps s fi
  have hp : (frPre s fi).st.prevMode = s.prevMode ∧ (frPre s fi).st.first = s.first ∧
      (frPre s fi).st.prevChannels = s.prevChannels ∧ (frPre s fi).st.streamChannels = s.streamChannels := by
    unfold frPre; dsimp only; split <;> exact ⟨rfl, rfl, rfl, rfl⟩
  generalize frPre s fi = p at *
  obtain ⟨h1, h2, h3, h4⟩ := hp
  unfold frSilk
  constructor
  · intro r hr
    split at hr
    · cases hr
    · split at hr
      · cases hr; exact ⟨hkp, Or.inl ⟨h1, h2, Or.inl h3⟩⟩
      · split at hr
        · cases hr; exact ⟨hkp.trans (silkSt_keeps p o), Or.inl ⟨h1, h2, Or.inl h3⟩⟩
        · split at hr
          · cases hr; exact ⟨hkp.trans (silkSt_keeps p o), Or.inl ⟨h1, h2, Or.inl h3⟩⟩
          · split at hr
            · cases hr
              exact ⟨hkp.trans (Keeps.trans (silkSt2_keeps p o) rfl), Or.inl ⟨h1, h2, Or.inr h4⟩⟩
            · split at hr <;> cases hr
  · intro x hx
    split at hx
    · cases hx; exact ⟨hkp, h1, h2, h3⟩
    · split at hx
      · cases hx
      · split at hx
        · cases hx
        · split at hx
          · cases hx
          · split at hx
            · cases hx
            · split at hx
              · cases hx; exact ⟨hkp.trans (Keeps.trans (silkSt2_keeps p o) rfl), h1, h2, h3⟩
              · cases hx; exact ⟨hkp.trans (silkSt2_keeps p o), h1, h2, h3⟩

theorem frameNative_st (s : St) (fi : FrameIn) (o : FrameOr) : FrameSt s (frameNative s fi o).st := by
  obtain ⟨hd, hc⟩ := frSilk_st s fi o
  unfold frameNative
  dsimp only
  cases hs : frSilk fi (frPre s fi) o with
  | done r => exact hd r hs
  | cont x =>
    obtain ⟨hk, h1, h2, h3⟩ := hc x hs
    dsimp only
    obtain ⟨hk2, _⟩ := frRedSig_spec fi x o
    have hq : (frRedSig fi x o).2.2.prevMode = x.st.prevMode ∧ (frRedSig fi x o).2.2.first = x.st.first ∧
        (frRedSig fi x o).2.2.prevChannels = x.st.prevChannels ∧ (frRedSig fi x o).2.2.mode = x.st.mode ∧
        (frRedSig fi x o).2.2.streamChannels = x.st.streamChannels := by
      unfold frRedSig; dsimp only; split <;> exact ⟨rfl, rfl, rfl, rfl, rfl⟩
    rcases hrs : frRedSig fi x o with ⟨red, rb, s'⟩
    simp only [hrs] at hk2 hq ⊢
    obtain ⟨q1, q2, q3, q4, q5⟩ := hq
    have hks : Keeps s s' := hk.trans hk2
    have hearly : FrameSt s s' := ⟨hks, Or.inl ⟨by rw [q1, h1], by rw [q2, h2], Or.inl (by rw [q3, h3])⟩⟩
    have hmode : s'.mode = s.mode := hks.mode
    have hsc : s'.streamChannels = s.streamChannels := hks.streamChannels
    rcases hcode : frCode s' fi red x.celtToSilk rb o with ⟨cr, cs⟩
    cases cr with
    | abort => exact hearly
    | ierr => exact hearly
    | ok c =>
      dsimp only
      have hfin : ∀ e, FrameSt s (errRes (finishSt s' fi o) (x.calls ++ cs) e).st := by
        intro e
        refine ⟨hks.trans (finishSt_keeps s' fi o), Or.inr ⟨rfl, ?_, ?_⟩⟩
        · by_cases ht : fi.toCelt = true
          · right; show (if fi.toCelt = true then MODE_CELT_ONLY else s'.mode) = MODE_CELT_ONLY; rw [if_pos ht]
          · left; show (if fi.toCelt = true then MODE_CELT_ONLY else s'.mode) = s.mode; rw [if_neg ht]; exact hmode
        · exact hsc
      have hF : FrameSt s (finishSt s' fi o) := (hfin 0)
      unfold frFinish
      dsimp only
      split
      · exact hF
      · split
        · exact hF
        · split
          · split
            · exact hF
            · exact hF
          · exact hF


/-- `stOk` as a proposition. -/
structure StOk (s : St) : Prop where
  fs : s.fs = 8000 ∨ s.fs = 12000 ∨ s.fs = 16000 ∨ s.fs = 24000 ∨ s.fs = 48000
  ch : s.channels = 1 ∨ s.channels = 2
  bitrate : s.userBitrate = OPUS_AUTO ∨ s.userBitrate = OPUS_BITRATE_MAX ∨
             (500 ≤ s.userBitrate ∧ s.userBitrate ≤ 750000 * s.channels)
  forced : s.userForcedMode = OPUS_AUTO ∨ (MODE_SILK_ONLY ≤ s.userForcedMode ∧ s.userForcedMode ≤ MODE_CELT_ONLY)
  userBw : s.userBandwidth = OPUS_AUTO ∨ (BW_NB ≤ s.userBandwidth ∧ s.userBandwidth ≤ BW_FB)
  maxBw : BW_NB ≤ s.maxBandwidth ∧ s.maxBandwidth ≤ BW_FB
  force : s.forceChannels = OPUS_AUTO ∨ (1 ≤ s.forceChannels ∧ s.forceChannels ≤ s.channels)
  sc : 1 ≤ s.streamChannels ∧ s.streamChannels ≤ s.channels
  bw : BW_NB ≤ s.bandwidth ∧ s.bandwidth ≤ BW_FB
  prevMode : s.prevMode = 0 ∨ (MODE_SILK_ONLY ≤ s.prevMode ∧ s.prevMode ≤ MODE_CELT_ONLY)
  cx : 0 ≤ s.complexity ∧ s.complexity ≤ 10
  loss : 0 ≤ s.lossPerc ∧ s.lossPerc ≤ 100
  mode : MODE_SILK_ONLY ≤ s.mode ∧ s.mode ≤ MODE_CELT_ONLY
  prevCh : 0 ≤ s.prevChannels ∧ s.prevChannels ≤ s.channels
  toMono : s.toMono = 0 ∨ s.toMono = 1
  firstPrev : s.first ≠ 0 → s.prevMode = 0
  lowdelay : s.application = APP_RESTRICTED_LOWDELAY → s.prevMode = 0 ∨ s.prevMode = MODE_CELT_ONLY

theorem stOk_iff (s : St) : stOk s = true ↔ StOk s := by
  unfold stOk
  simp only [decide_eq_true_eq]
  constructor
  · rintro ⟨a1, a2, a3, a4, a5, a6, a7, a8, a9, a10, a11, a12, a13, a14, a15, a16, a17⟩
    exact ⟨a1, a2, a3, a4, a5, a6, a7, a8, a9, a10, a11, a12, a13, a14, a15, a16, a17⟩
  · rintro ⟨a1, a2, a3, a4, a5, a6, a7, a8, a9, a10, a11, a12, a13, a14, a15, a16, a17⟩
    exact ⟨a1, a2, a3, a4, a5, a6, a7, a8, a9, a10, a11, a12, a13, a14, a15, a16, a17⟩

/-- The settings (never written by an encode call). -/
def Conf (a b : St) : Prop :=
  b.fs = a.fs ∧ b.channels = a.channels ∧ b.application = a.application ∧ b.useVbr = a.useVbr ∧
  b.userBitrate = a.userBitrate ∧ b.forceChannels = a.forceChannels ∧ b.signalType = a.signalType ∧
  b.userBandwidth = a.userBandwidth ∧ b.maxBandwidth = a.maxBandwidth ∧ b.userForcedMode = a.userForcedMode ∧
  b.lfe = a.lfe ∧ b.useDtx = a.useDtx ∧ b.fecConfig = a.fecConfig ∧ b.variableDuration = a.variableDuration ∧
  b.complexity = a.complexity ∧ b.lossPerc = a.lossPerc ∧ b.useInBandFEC = a.useInBandFEC ∧
  b.energyMasking = a.energyMasking

theorem Conf.refl (a : St) : Conf a a := by unfold Conf; simp
theorem Conf.trans {a b c : St} (h1 : Conf a b) (h2 : Conf b c) : Conf a c := by
  unfold Conf at *
  obtain ⟨a1, a2, a3, a4, a5, a6, a7, a8, a9, a10, a11, a12, a13, a14, a15, a16, a17, a18⟩ := h1
  obtain ⟨b1, b2, b3, b4, b5, b6, b7, b8, b9, b10, b11, b12, b13, b14, b15, b16, b17, b18⟩ := h2
  exact ⟨b1.trans a1, b2.trans a2, b3.trans a3, b4.trans a4, b5.trans a5, b6.trans a6, b7.trans a7, b8.trans a8,
    b9.trans a9, b10.trans a10, b11.trans a11, b12.trans a12, b13.trans a13, b14.trans a14, b15.trans a15,
    b16.trans a16, b17.trans a17, b18.trans a18⟩

theorem Keeps.conf {a b : St} (h : Keeps a b) : Conf a b := by
  unfold Keeps at h; unfold Conf
  refine ⟨?_, ?_, ?_, ?_, ?_, ?_, ?_, ?_, ?_, ?_, ?_, ?_, ?_, ?_, ?_, ?_, ?_, ?_⟩ <;> (rw [h])
theorem Same.conf {a b : St} (h : Same a b) : Conf a b := by
  unfold Same at h; unfold Conf
  refine ⟨?_, ?_, ?_, ?_, ?_, ?_, ?_, ?_, ?_, ?_, ?_, ?_, ?_, ?_, ?_, ?_, ?_, ?_⟩ <;> (rw [h])
theorem BudSame.conf {a b : St} (h : BudSame a b) : Conf a b := by
  unfold BudSame at h; unfold Conf
  refine ⟨?_, ?_, ?_, ?_, ?_, ?_, ?_, ?_, ?_, ?_, ?_, ?_, ?_, ?_, ?_, ?_, ?_, ?_⟩ <;> (rw [h])


theorem chanDecide_range (s : St) (fuzz : Bool) (ve er : Int) (rands : List Int) (h : StOk s) :
    1 ≤ (chanDecide s fuzz ve er rands).1 ∧ (chanDecide s fuzz ve er rands).1 ≤ s.channels := by
  obtain ⟨hsc1, hsc2⟩ := h.sc
  have hch := h.ch
  have hf := h.force
  unfold chanDecide
  simp only [OPUS_AUTO] at *
  split
  · omega
  · split
    · split
      · dsimp only; split <;> omega
      · dsimp only; omega
    · split
      · dsimp only; split <;> omega
      · dsimp only; omega

theorem tail_fields (s : St) (ve er maxRate : Int) :
    ((autoBandwidthUpd s ve er).streamChannels = s.streamChannels ∧ (autoBandwidthUpd s ve er).toMono = s.toMono) ∧
    ((bwClamp s maxRate).streamChannels = s.streamChannels ∧ (bwClamp s maxRate).toMono = s.toMono) ∧
    ((detectedClamp s er).streamChannels = s.streamChannels ∧ (detectedClamp s er).toMono = s.toMono) ∧
    ((decFec s er).streamChannels = s.streamChannels ∧ (decFec s er).toMono = s.toMono) := by
  refine ⟨?_, ⟨rfl, rfl⟩, ?_, ⟨rfl, rfl⟩⟩
  · unfold autoBandwidthUpd
    dsimp only
    (repeat' split) <;> exact ⟨rfl, rfl⟩
  · unfold detectedClamp; split <;> exact ⟨rfl, rfl⟩

theorem modeDecide_lowdelay (s : St) (fuzz : Bool) (o : NatOr) (ve er fsz m : Int) (rands : List Int)
    (h : s.application = APP_RESTRICTED_LOWDELAY) : (modeDecide s fuzz o ve er fsz m rands).1 = MODE_CELT_ONLY := by
  have hreq : (modeReq s fuzz o ve er fsz m rands).1 = MODE_CELT_ONLY := by unfold modeReq; rw [if_pos h]
  unfold modeDecide
  dsimp only
  rw [hreq]
  split
  · rfl
  · rw [if_neg (by simp)]

/-- What the decision chain leaves, beyond `decide'_spec`: channel count within the encoder's channels,
    `toMono` a flag, `prev_*`/`first` untouched, CELT-only for the low-delay application. -/
theorem decide'_run (s : St) (fuzz : Bool) (o : NatOr) (fsz m : Int) (h : StOk s) :
    (1 ≤ (decide' s fuzz o fsz m).st.streamChannels ∧ (decide' s fuzz o fsz m).st.streamChannels ≤ s.channels) ∧
    ((decide' s fuzz o fsz m).st.toMono = 0 ∨ (decide' s fuzz o fsz m).st.toMono = 1) ∧
    (decide' s fuzz o fsz m).st.prevMode = s.prevMode ∧ (decide' s fuzz o fsz m).st.prevChannels = s.prevChannels ∧
    (decide' s fuzz o fsz m).st.first = s.first ∧
    (s.application = APP_RESTRICTED_LOWDELAY → (decide' s fuzz o fsz m).st.mode = MODE_CELT_ONLY) := by
  let a := decChan s fuzz o fsz
  let md := modeDecide a.1 fuzz o (voiceEst s)
              (computeEquivRate s.bitrateBps a.1.streamChannels (s.fs / fsz) s.useVbr 0 s.complexity s.lossPerc)
              fsz m a.2
  let t := transDecide md.1 s.prevMode fsz s.fs
  let b := decMode a.1 t
  let er := equivRate2 b fsz
  let c1 := autoBandwidthUpd b (voiceEst s) er
  let c2 := bwClamp c1 ((s.fs / fsz) * m * 8)
  let c3 := detectedClamp c2 er
  have hst : (decide' s fuzz o fsz m).st = decFec c3 er := rfl
  obtain ⟨t1, _, _, _⟩ := tail_fields b (voiceEst s) er 0
  obtain ⟨_, t2, _, _⟩ := tail_fields c1 (voiceEst s) er ((s.fs / fsz) * m * 8)
  obtain ⟨_, _, t3, _⟩ := tail_fields c2 (voiceEst s) er 0
  obtain ⟨_, _, _, t4⟩ := tail_fields c3 (voiceEst s) er 0
  have hsc : (decFec c3 er).streamChannels = b.streamChannels := by rw [t4.1, t3.1, t2.1, t1.1]
  have htm : (decFec c3 er).toMono = b.toMono := by rw [t4.2, t3.2, t2.2, t1.2]
  have ha := chanDecide_range s fuzz (voiceEst s)
    (computeEquivRate s.bitrateBps s.channels (s.fs / fsz) s.useVbr 0 s.complexity s.lossPerc) o.rands h
  have hasc : a.1.streamChannels = (chanDecide s fuzz (voiceEst s)
    (computeEquivRate s.bitrateBps s.channels (s.fs / fsz) s.useVbr 0 s.complexity s.lossPerc) o.rands).1 := rfl
  have hapc : a.1.prevChannels = s.prevChannels := rfl
  have hsame := (decide'_spec s fuzz o fsz m ⟨h.forced, h.userBw, h.maxBw, h.prevMode⟩ h.bw).1
  have hpc := h.prevCh
  rw [hst]
  refine ⟨?_, ?_, ?_, ?_, ?_, ?_⟩
  · rw [hsc]
    show 1 ≤ (decMode a.1 t).streamChannels ∧ (decMode a.1 t).streamChannels ≤ s.channels
    unfold decMode
    split
    · rename_i hc; dsimp only; rw [hapc] at hc; omega
    · dsimp only; rw [hasc]; exact ha
  · rw [htm]
    show (decMode a.1 t).toMono = 0 ∨ (decMode a.1 t).toMono = 1
    unfold decMode; split
    · exact Or.inr rfl
    · exact Or.inl rfl
  · rw [← hst]; unfold Same at hsame; rw [hsame]
  · rw [← hst]; unfold Same at hsame; rw [hsame]
  · rw [← hst]; unfold Same at hsame; rw [hsame]
  · intro hld
    apply decFec_celt
    have hmd : md.1 = MODE_CELT_ONLY := modeDecide_lowdelay a.1 fuzz o _ _ fsz m a.2 hld
    have htm' : t.mode = MODE_CELT_ONLY := by
      show (transDecide md.1 s.prevMode fsz s.fs).mode = MODE_CELT_ONLY
      have hp := h.lowdelay hld
      unfold transDecide
      rw [hmd]
      simp only [MODE_CELT_ONLY] at *
      split
      · omega
      · rfl
    obtain ⟨_, h1m, _⟩ := autoBw_spec b (voiceEst s) er (by
      show BwOk (decMode a.1 t).bandwidth
      rw [decMode_bw]; exact h.bw)
    show (detectedClamp (bwClamp (autoBandwidthUpd b (voiceEst s) er) ((s.fs / fsz) * m * 8)) er).mode = MODE_CELT_ONLY
    have e1 : (detectedClamp c2 er).mode = c2.mode := by unfold detectedClamp; split <;> rfl
    rw [e1]
    show c1.mode = MODE_CELT_ONLY
    rw [h1m, decMode_mode]; exact htm'


theorem Keeps.toMono {a b : St} (h : Keeps a b) : b.toMono = a.toMono := by
  unfold Keeps at h; have h' := congrArg St.toMono h; exact h'

/-- A state reached from the decided state `d` by (sub-)frame calls. -/
structure RunOk (d a : St) : Prop where
  conf : Conf d a
  mode : a.mode = d.mode
  bw : a.bandwidth = d.bandwidth
  sc : a.streamChannels = d.streamChannels
  toMono : a.toMono = 0 ∨ a.toMono = d.toMono
  prev : (a.prevMode = d.prevMode ∧ a.first = d.first) ∨
         (a.first = 0 ∧ (a.prevMode = d.mode ∨ a.prevMode = MODE_CELT_ONLY))
  prevCh : a.prevChannels = d.prevChannels ∨ a.prevChannels = d.streamChannels

theorem RunOk.refl (d : St) : RunOk d d :=
  ⟨Conf.refl d, rfl, rfl, rfl, Or.inr rfl, Or.inl ⟨rfl, rfl⟩, Or.inl rfl⟩

/-- One frame call on `a` itself or on `subSt c i a`. -/
theorem RunOk.frame {d a a' r : St} (h : RunOk d a)
    (ha : Conf a a' ∧ a'.mode = a.mode ∧ a'.bandwidth = a.bandwidth ∧ a'.streamChannels = a.streamChannels ∧
          (a'.toMono = 0 ∨ a'.toMono = a.toMono) ∧ a'.prevMode = a.prevMode ∧ a'.first = a.first ∧
          a'.prevChannels = a.prevChannels)
    (hf : FrameSt a' r) : RunOk d r := by
  obtain ⟨c1, m1, b1, s1, t1, p1, f1, pc1⟩ := ha
  obtain ⟨hk, hp⟩ := hf
  refine ⟨(h.conf.trans c1).trans hk.conf, by rw [hk.mode, m1, h.mode], by rw [hk.bandwidth, b1, h.bw],
    by rw [hk.streamChannels, s1, h.sc], ?_, ?_, ?_⟩
  · rw [hk.toMono]
    rcases t1 with t | t
    · exact Or.inl t
    · rw [t]; exact h.toMono
  · rcases hp with ⟨q1, q2, _⟩ | ⟨q1, q2, _⟩
    · rcases h.prev with ⟨r1, r2⟩ | ⟨r1, r2⟩
      · exact Or.inl ⟨by rw [q1, p1, r1], by rw [q2, f1, r2]⟩
      · exact Or.inr ⟨by rw [q2, f1, r1], by rw [q1, p1]; exact r2⟩
    · refine Or.inr ⟨q1, ?_⟩
      rcases q2 with q | q
      · exact Or.inl (by rw [q, m1, h.mode])
      · exact Or.inr q
  · rcases hp with ⟨_, _, q3⟩ | ⟨_, _, q3⟩
    · rcases q3 with q | q
      · rw [q, pc1]; exact h.prevCh
      · exact Or.inr (by rw [q, s1, h.sc])
    · exact Or.inr (by rw [q3, s1, h.sc])

theorem subSt_rel (c : MultiCtx) (i : Nat) (a : St) :
    Conf a (subSt c i a) ∧ (subSt c i a).mode = a.mode ∧ (subSt c i a).bandwidth = a.bandwidth ∧
    (subSt c i a).streamChannels = a.streamChannels ∧ ((subSt c i a).toMono = 0 ∨ (subSt c i a).toMono = a.toMono) ∧
    (subSt c i a).prevMode = a.prevMode ∧ (subSt c i a).first = a.first ∧
    (subSt c i a).prevChannels = a.prevChannels :=
  ⟨by unfold Conf; exact ⟨rfl, rfl, rfl, rfl, rfl, rfl, rfl, rfl, rfl, rfl, rfl, rfl, rfl, rfl, rfl, rfl, rfl, rfl⟩,
   rfl, rfl, rfl, Or.inl rfl, rfl, rfl, rfl⟩

theorem self_rel (a : St) :
    Conf a a ∧ a.mode = a.mode ∧ a.bandwidth = a.bandwidth ∧ a.streamChannels = a.streamChannels ∧
    (a.toMono = 0 ∨ a.toMono = a.toMono) ∧ a.prevMode = a.prevMode ∧ a.first = a.first ∧
    a.prevChannels = a.prevChannels :=
  ⟨Conf.refl a, rfl, rfl, rfl, Or.inr rfl, rfl, rfl, rfl⟩

theorem multiSt0_run (d : St) : RunOk d (multiSt0 d) := by
  unfold multiSt0
  split
  · exact RunOk.refl d
  · exact ⟨by unfold Conf; exact ⟨rfl, rfl, rfl, rfl, rfl, rfl, rfl, rfl, rfl, rfl, rfl, rfl, rfl, rfl, rfl, rfl, rfl, rfl⟩,
      rfl, rfl, rfl, Or.inr rfl, Or.inl ⟨rfl, rfl⟩, Or.inr rfl⟩

/-- Loop invariant of the multi-frame path, for all oracle values. -/
def MI (d : St) (a : MultiAcc) : Prop := RunOk d a.st ∧ ∀ r, a.fail = some r → RunOk d r.st

theorem multiStep_mi (d0 : St) (c : MultiCtx) (d : Decided) (isSil : Int) (i : Nat) (fo : FrameOr) (a : MultiAcc)
    (h : MI d0 a) : MI d0 (multiStep c d isSil i fo a) := by
  unfold multiStep
  split
  · exact h
  · dsimp only
    have hr := RunOk.frame h.1 (subSt_rel c i a.st)
      (frameNative_st (subSt c i a.st) (subIn c d isSil i a.st a.totSize) fo)
    generalize frameNative (subSt c i a.st) (subIn c d isSil i a.st a.totSize) fo = r at *
    split
    · exact ⟨hr, by intro q hq; cases hq; exact hr⟩
    · split
      · exact ⟨hr, by intro q hq; cases hq; exact hr⟩
      · split
        · exact ⟨hr, by intro q hq; cases hq; exact hr⟩
        · exact ⟨hr, by intro q hq; cases hq⟩

theorem multiLoop_mi (d0 : St) (c : MultiCtx) (d : Decided) (isSil : Int) :
    ∀ (n i : Nat) (fos : List FrameOr) (a : MultiAcc), MI d0 a → MI d0 (multiLoop c d isSil n i fos a) := by
  intro n
  induction n with
  | zero => intro i fos a h; exact h
  | succ n ih =>
    intro i fos a h
    unfold multiLoop
    exact ih (i + 1) fos.tail _ (multiStep_mi d0 c d isSil i (fos.headD default) a h)

theorem multiFrame_run (d : Decided) (isSil fsz out cbr : Int) (fos : List FrameOr) :
    RunOk d.st (multiFrame d isSil fsz out cbr fos).st := by
  unfold multiFrame
  dsimp only
  have h0 : MI d.st { st := multiSt0 d.st, totSize := 0, dtxCount := 0, cfg0 := none, lens := [], calls := [], ok := true, fail := none } :=
    ⟨multiSt0_run d.st, by intro r hr; cases hr⟩
  have hl := multiLoop_mi d.st (multiCtx d.st fsz out cbr) d isSil (multiCtx d.st fsz out cbr).nbFrames.toNat 0 fos _ h0
  generalize multiLoop (multiCtx d.st fsz out cbr) d isSil (multiCtx d.st fsz out cbr).nbFrames.toNat 0 fos _ = a at *
  obtain ⟨h1, h2⟩ := hl
  have hrest : RunOk d.st { a.st with toMono := d.st.toMono } :=
    ⟨h1.conf, h1.mode, h1.bw, h1.sc, Or.inr rfl, h1.prev, h1.prevCh⟩
  split
  · rename_i r hf; exact h2 r hf
  · split
    · exact hrest
    · exact hrest
    · exact h1


theorem runOk_stOk (s d a : St) (hs : StOk s) (hc : Conf s d) (hm : ModeOk d.mode) (hb : BwOk d.bandwidth)
    (hsc : 1 ≤ d.streamChannels ∧ d.streamChannels ≤ s.channels) (htm : d.toMono = 0 ∨ d.toMono = 1)
    (hpm : d.prevMode = s.prevMode) (hpc : d.prevChannels = s.prevChannels) (hf : d.first = s.first)
    (hld : s.application = APP_RESTRICTED_LOWDELAY → d.mode = MODE_CELT_ONLY) (hr : RunOk d a) : StOk a := by
  have hca := hc.trans hr.conf
  unfold Conf at hca
  obtain ⟨c1, c2, c3, _, c5, c6, _, c8, c9, c10, _, _, _, _, c15, c16, _, _⟩ := hca
  unfold ModeOk at hm
  unfold BwOk at hb
  have hpmS := hs.prevMode
  have hpcS := hs.prevCh
  simp only [MODE_SILK_ONLY, MODE_HYBRID, MODE_CELT_ONLY] at hm hpmS
  refine ⟨by rw [c1]; exact hs.fs, by rw [c2]; exact hs.ch, by rw [c5, c2]; exact hs.bitrate, by rw [c10]; exact hs.forced,
    by rw [c8]; exact hs.userBw, by rw [c9]; exact hs.maxBw, by rw [c6, c2]; exact hs.force,
    by rw [hr.sc, c2]; exact hsc, by rw [hr.bw]; exact hb, ?_, by rw [c15]; exact hs.cx, by rw [c16]; exact hs.loss,
    by rw [hr.mode]; simp only [MODE_SILK_ONLY, MODE_CELT_ONLY]; omega, ?_, ?_, ?_, ?_⟩
  · simp only [MODE_SILK_ONLY, MODE_CELT_ONLY]
    rcases hr.prev with ⟨p1, _⟩ | ⟨_, p2 | p2⟩
    · rw [p1, hpm]; exact hpmS
    · rw [p2]; omega
    · rw [p2]; simp [MODE_CELT_ONLY]
  · rw [c2]
    rcases hr.prevCh with p | p
    · rw [p, hpc]; exact hpcS
    · rw [p]; omega
  · rcases hr.toMono with t | t
    · exact Or.inl t
    · rw [t]; exact htm
  · intro hfirst
    rcases hr.prev with ⟨p1, p2⟩ | ⟨p1, _⟩
    · rw [p1, hpm]; exact hs.firstPrev (by rw [← hf, ← p2]; exact hfirst)
    · exact absurd p1 hfirst
  · intro hld'
    rw [c3] at hld'
    rcases hr.prev with ⟨p1, _⟩ | ⟨_, p2 | p2⟩
    · rw [p1, hpm]; exact hs.lowdelay hld'
    · exact Or.inr (by rw [p2]; exact hld hld')
    · exact Or.inr p2

theorem BudSame.stOk {a b : St} (h : BudSame a b) (hs : StOk a) : StOk b := by
  obtain ⟨a1, a2, a3, a4, a5, a6, a7, a8, a9, a10, a11, a12, a13, a14, a15, a16, a17⟩ := hs
  unfold BudSame at h
  refine ⟨?_, ?_, ?_, ?_, ?_, ?_, ?_, ?_, ?_, ?_, ?_, ?_, ?_, ?_, ?_, ?_, ?_⟩ <;> (rw [h]) <;> assumption

/-- **`stOk` is an invariant of `opus_encode_native`**, and the settings are never written: for every
    state within `stOk`, ALL arguments and ALL oracle values (no contract needed), whatever the
    outcome of the call. -/
theorem encodeNative_stOk (s : St) (fuzz : Bool) (fsz out : Int) (o : NatOr) (h : StOk s) :
    StOk (encodeNative s fuzz fsz out o).st ∧ Conf s (encodeNative s fuzz fsz out o).st ∧
    ((encodeNative s fuzz fsz out o).st.first = s.first ∨ (encodeNative s fuzz fsz out o).st.first = 0) := by
  unfold encodeNative
  split
  · exact ⟨h, Conf.refl s, Or.inl rfl⟩
  · dsimp only
    have hbs := budgetSt_same s o fsz out
    have h1 := hbs.stOk h
    have hc1 := hbs.conf
    have hf1 : (budgetSt s o fsz out).first = s.first := by unfold BudSame at hbs; rw [hbs]
    generalize budgetSt s o fsz out = s1 at *
    split
    · have hst : ∀ b, (lowBudget s1 fsz out b).st = s1 := by
        intro b; unfold lowBudget; dsimp only; split
        · split <;> rfl
        · rfl
      dsimp only
      rw [hst]; exact ⟨h1, hc1, Or.inl hf1⟩
    · generalize (sizeBudget (analysisUpd s o) fsz out).maxDataBytes = m
      generalize (sizeBudget (analysisUpd s o) fsz out).cbr = cbr
      obtain ⟨hsame, hmode, hbw, _, _, _⟩ := decide'_spec s1 fuzz o fsz m ⟨h1.forced, h1.userBw, h1.maxBw, h1.prevMode⟩ h1.bw
      obtain ⟨r1, r2, r3, r4, r5, r6⟩ := decide'_run s1 fuzz o fsz m h1
      have hcd := hsame.conf
      generalize decide' s1 fuzz o fsz m = d at *
      have key : ∀ a, RunOk d.st a → StOk a ∧ Conf s a ∧ (a.first = s.first ∨ a.first = 0) := by
        intro a ha
        refine ⟨runOk_stOk s1 d.st a h1 hcd hmode hbw r1 r2 r3 r4 r5 r6 ha, (hc1.trans hcd).trans ha.conf, ?_⟩
        rcases ha.prev with ⟨_, p2⟩ | ⟨p1, _⟩
        · exact Or.inl (by rw [p2, r5, hf1])
        · exact Or.inr p1
      split
      · dsimp only
        exact key _ (multiFrame_run d _ fsz out cbr o.frames)
      · unfold singleRes
        dsimp only
        exact key _ (RunOk.frame (RunOk.refl d.st) (self_rel d.st) (frameNative_st d.st _ _))


end Opus.EncSkel.Proofs
