import OpusModel.GainSkel
import OpusProofs.DecSkelFrame
/-
  OpusProofs.GainSkel — the gain discipline is compatible with every result C01 proves about the frame
  (`frameBody_spec`), the recursive transition call sees gain 0 and the caller gets its gain back, and the gain
  pass is exactly one event on the frame's own buffer iff the gain is non-zero.
-/
namespace Opus.GainSkel
open Opus Opus.DecSkel

theorem decInv_setGain {st : DecState} (h : DecInv st) (g : Int) (hg : -32768 ≤ g ∧ g ≤ 32767) :
    DecInv { st with decode_gain := g } :=
  ⟨h.fs, h.ch, h.api, h.nca, h.isr, h.nci, h.ps, h.sch, h.toc, h.pm, h.pr, h.silkReady, hg, h.lpd⟩

theorem good_setGain {st0 : DecState} {cap0 : Int} {r : Run} (h : Good st0 cap0 r) (g : Int)
    (hg : -32768 ≤ g ∧ g ≤ 32767) : Good st0 cap0 (r.setSt { r.st with decode_gain := g }) :=
  ⟨decInv_setGain h.inv g hg, h.fs, h.ch, h.log⟩

theorem units_setGain {st : DecState} {u : Int} (h : Units st u) (g : Int) : Units { st with decode_gain := g } u :=
  h.congr rfl

/-- The inner call is made on the caller's run with only `decode_gain` replaced by 0. -/
theorem withGain0_inner_arg (inner : Ptr → Int → Run → Res') (p : Ptr) (n : Int) (r : Run) :
    (withGain0 inner p n r).1 = (inner p n (r.setSt { r.st with decode_gain := 0 })).1 ∧
    (r.setSt { r.st with decode_gain := 0 }).st.decode_gain = 0 ∧
    (r.setSt { r.st with decode_gain := 0 }).log = r.log ∧ (r.setSt { r.st with decode_gain := 0 }).k = r.k :=
  ⟨rfl, rfl, rfl, rfl⟩

/-- Afterwards the caller's gain is back; log and call counter are the inner call's. -/
theorem withGain0_restores (inner : Ptr → Int → Run → Res') (p : Ptr) (n : Int) (r : Run) :
    (withGain0 inner p n r).2.st.decode_gain = r.st.decode_gain ∧
    (withGain0 inner p n r).2.log = (inner p n (r.setSt { r.st with decode_gain := 0 })).2.log ∧
    (withGain0 inner p n r).2.k = (inner p n (r.setSt { r.st with decode_gain := 0 })).2.k :=
  ⟨rfl, rfl, rfl⟩

/-- The gain-clearing call satisfies C01's contract of the transition call whenever the plain call does. -/
theorem withGain0_transOk {st0 : DecState} {cap0 u : Int} {inner : Ptr → Int → Run → Res'}
    (h : TransOk st0 cap0 u inner) : TransOk st0 cap0 u (withGain0 inner) := by
  intro r n hg hu hn
  have hg0 := good_setGain hg 0 (by omega)
  have hu0 : Units (r.setSt { r.st with decode_gain := 0 }).st u := units_setGain hu 0
  obtain ⟨v, r', h1, h2, h3⟩ := h (r.setSt { r.st with decode_gain := 0 }) n hg0 hu0 hn
  have hbuf : transBuf (r.setSt { r.st with decode_gain := 0 }).st = transBuf r.st := rfl
  rw [hbuf] at h1
  refine ⟨v, r'.setSt { r'.st with decode_gain := r.st.decode_gain }, ?_, ?_, ?_⟩
  · unfold withGain0; simp only [h1]
  · exact good_setGain h2 _ hg.inv.gain
  · exact ⟨h3.fs, h3.ch, rfl, h3.sch, h3.bw, h3.mode, h3.fsz, h3.lpd, h3.api, h3.nca, h3.isr, h3.nci⟩

/-- Every safety / frame-condition result of `frameBody_spec` holds for the frame as the code is now; in
    particular `FrameRel`: the frame leaves `decode_gain` (and rate, channels, …) unchanged. -/
theorem frameBodyG_spec {o : Oracle} (ho : OracleOk o) {st0 : DecState} {cap0 : Int} {inner : Ptr → Int → Run → Res'}
    {b : Body} {r : Run} {u : Int} (hg : Good st0 cap0 r) (hu : Units r.st u) (hb : BodyOk r.st u b)
    (hroom : b.pcm.room (b.audiosize * r.st.channels)) (hcap : PtrCapOk st0 cap0 b.pcm)
    (htr : b.data.isSome → TransOk st0 cap0 u inner) :
    ∃ r', frameBodyG o inner b r = (.ret b.audiosize, r') ∧ Good st0 cap0 r' ∧ FrameRel r.st r'.st ∧
      r'.st.prev_mode = b.mode :=
  frameBody_spec ho hg hu hb hroom hcap (fun h => withGain0_transOk (htr h))

/-- The gain pass: no event when the gain is 0 (so a frame run by `withGain0` skips it), otherwise exactly one
    event, on the frame's own buffer, over `audiosize*channels` samples; state and call counter untouched. -/
theorem stepGain_event (b : Body) (r : Run) :
    (stepGain b r).st = r.st ∧ (stepGain b r).k = r.k ∧
    (r.st.decode_gain = 0 → stepGain b r = r) ∧
    (r.st.decode_gain ≠ 0 → (stepGain b r).log = .acc 11 b.pcm (b.audiosize * r.st.channels) :: r.log) := by
  unfold stepGain
  by_cases h : r.st.decode_gain ≠ 0
  · rw [if_pos h]; exact ⟨rfl, rfl, fun h0 => absurd h0 h, fun _ => rfl⟩
  · rw [if_neg h]; exact ⟨rfl, rfl, fun _ => rfl, fun h1 => absurd h1 h⟩

end Opus.GainSkel
