import OpusProofs.EncSkelDecide
import Mathlib.Tactic.NormNum
/-
  OpusProofs.EncSkelNative — `opus_encode_native` as a whole (C05, C02): the byte budget, the
  low-budget path, the single-frame path and the multi-frame path, for all oracle behaviours within
  the contracts.
-/
namespace Opus.EncSkel.Proofs
open Opus Opus.EncDecide Opus.EncSkel

/-- Fields `analysisUpd` leaves alone: everything but `voiceRatio` and `detectedBandwidth`. -/
theorem analysisUpd_eq (s : St) (o : NatOr) :
    analysisUpd s o = { s with voiceRatio := (analysisUpd s o).voiceRatio,
                               detectedBandwidth := (analysisUpd s o).detectedBandwidth } := by
  unfold analysisUpd
  dsimp only
  (repeat' split) <;> rfl

theorem stOk_settings (s : St) (h : stOk s = true) : Settings s ∧ BwOk s.bandwidth := by
  unfold stOk at h
  simp only [decide_eq_true_eq] at h
  obtain ⟨_, _, _, h4, h5, h6, _, _, h9, h10, _⟩ := h
  exact ⟨⟨h4, h5, h6, h10⟩, h9⟩


theorem stOk_fs (s : St) (h : stOk s = true) :
    (s.fs = 8000 ∨ s.fs = 12000 ∨ s.fs = 16000 ∨ s.fs = 24000 ∨ s.fs = 48000) ∧ (s.channels = 1 ∨ s.channels = 2) ∧
    (s.userBitrate = OPUS_AUTO ∨ s.userBitrate = OPUS_BITRATE_MAX ∨
       (500 ≤ s.userBitrate ∧ s.userBitrate ≤ 750000 * s.channels)) := by
  unfold stOk at h
  simp only [decide_eq_true_eq] at h
  exact ⟨h.1, h.2.1, h.2.2.1⟩

/-- The bit-rate of :1249 is non-negative. -/
theorem userBitrate_nonneg (s : St) (fsz m : Int) (hs : stOk s = true) (hf : 0 < fsz) (hm : 0 ≤ m) :
    0 ≤ userBitrateToBitrate s fsz m := by
  obtain ⟨hfs, hch, hbr⟩ := stOk_fs s hs
  have hfs0 : 0 < s.fs := by omega
  unfold userBitrateToBitrate
  simp only [OPUS_AUTO, OPUS_BITRATE_MAX] at *
  have hz : (if fsz = 0 then s.fs / 400 else fsz) = fsz := if_neg (by omega)
  simp only [hz]
  by_cases h1 : s.userBitrate = -1000
  · rw [if_pos h1]
    have : 0 ≤ 60 * s.fs / fsz := Int.ediv_nonneg (by omega) (by omega)
    have : 0 ≤ s.fs * s.channels := Int.mul_nonneg (by omega) (by omega)
    omega
  · rw [if_neg h1]
    by_cases h2 : s.userBitrate = -1
    · rw [if_pos h2]
      exact Int.ediv_nonneg (Int.mul_nonneg (by omega) (by omega)) (by omega)
    · rw [if_neg h2]; omega

theorem cbrBytes_bounds (fs fsz b m : Int) (hfs : 0 < fs) (hf : 0 < fsz) (hle : fsz ≤ 12 * fs) (hb : 0 ≤ b) (hm : 0 ≤ m) :
    0 ≤ cbrBytes fs fsz b m ∧ cbrBytes fs fsz b m ≤ m := by
  unfold cbrBytes
  dsimp only
  have h12 : 1 ≤ 12 * fs / fsz := (Int.le_ediv_iff_mul_le hf).mpr (by omega)
  have h0 : 0 ≤ (12 * b / 8 + 12 * fs / fsz / 2) / (12 * fs / fsz) :=
    Int.ediv_nonneg (by omega) (by omega)
  omega



/-- `budgetSt` only writes `voiceRatio`, `detectedBandwidth`, `bitrateBps`. -/
def BudSame (a b : St) : Prop :=
  b = { a with voiceRatio := b.voiceRatio, detectedBandwidth := b.detectedBandwidth, bitrateBps := b.bitrateBps }

theorem budgetSt_same (s : St) (o : NatOr) (fsz out : Int) : BudSame s (budgetSt s o fsz out) := by
  unfold budgetSt BudSame
  generalize (sizeBudget (analysisUpd s o) fsz out).bitrateBps = br
  have h := analysisUpd_eq s o
  generalize analysisUpd s o = a at *
  rw [h]

theorem BudSame.settings {a b : St} (h : BudSame a b) (hs : Settings a) (hb : BwOk a.bandwidth) :
    Settings b ∧ BwOk b.bandwidth := by
  unfold BudSame at h
  obtain ⟨h1, h2, h3, h4⟩ := hs
  refine ⟨⟨?_, ?_, ?_, ?_⟩, ?_⟩ <;> (rw [h]) <;> assumption

/-- The CBR packet size the property prescribes: `round(bitrate·T/8)` clipped to
    `[1, min(out,1276)]`, as `cbr_bytes` computes it. -/
def cbrTarget (s : St) (fsz out : Int) : Int :=
  max 1 (cbrBytes s.fs fsz (userBitrateToBitrate s fsz (min 1276 out)) (min 1276 out))

theorem legal_le (fs fsz : Int) (hfs : 0 < fs) (hl : legalFrame fs fsz = true) : 0 < fsz ∧ fsz ≤ 12 * fs := by
  unfold legalFrame at hl
  simp only [decide_eq_true_eq] at hl
  omega

/-- Byte budget after :1249-1261. -/
theorem budget_spec (s : St) (o : NatOr) (fsz out : Int) (hs : stOk s = true) (hl : legalFrame s.fs fsz = true)
    (hout : 1 ≤ out) :
    1 ≤ (sizeBudget (analysisUpd s o) fsz out).maxDataBytes ∧
    (sizeBudget (analysisUpd s o) fsz out).maxDataBytes ≤ min 1276 out ∧
    (s.useVbr = 0 → (sizeBudget (analysisUpd s o) fsz out).maxDataBytes = cbrTarget s fsz out ∧
       (sizeBudget (analysisUpd s o) fsz out).cbr =
         cbrBytes s.fs fsz (userBitrateToBitrate s fsz (min 1276 out)) (min 1276 out) ∧
       0 ≤ (sizeBudget (analysisUpd s o) fsz out).cbr ∧ (sizeBudget (analysisUpd s o) fsz out).cbr ≤ min 1276 out) ∧
    (s.useVbr ≠ 0 → (sizeBudget (analysisUpd s o) fsz out).maxDataBytes = min 1276 out) := by
  obtain ⟨hfs, hch, hbr⟩ := stOk_fs s hs
  have hfs0 : 0 < s.fs := by omega
  obtain ⟨hf0, hf12⟩ := legal_le s.fs fsz hfs0 hl
  have ha := analysisUpd_eq s o
  have hub : userBitrateToBitrate (analysisUpd s o) fsz (min 1276 out) = userBitrateToBitrate s fsz (min 1276 out) := by
    unfold userBitrateToBitrate; rw [ha]
  have hfs' : (analysisUpd s o).fs = s.fs := by rw [ha]
  have hv' : (analysisUpd s o).useVbr = s.useVbr := by rw [ha]
  have hb0 := userBitrate_nonneg s fsz (min 1276 out) hs hf0 (by omega)
  have hcb := cbrBytes_bounds s.fs fsz (userBitrateToBitrate s fsz (min 1276 out)) (min 1276 out) hfs0 hf0 hf12 hb0
    (by omega)
  unfold sizeBudget cbrTarget
  dsimp only
  rw [hub, hfs', hv']
  generalize cbrBytes s.fs fsz (userBitrateToBitrate s fsz (min 1276 out)) (min 1276 out) = cb at *
  by_cases hv : s.useVbr = 0
  · rw [if_pos hv]; dsimp only
    refine ⟨by omega, by omega, fun _ => ⟨rfl, rfl, hcb.1, hcb.2⟩, fun h => absurd hv h⟩
  · rw [if_neg hv]; dsimp only
    refine ⟨by omega, by omega, fun h => absurd h hv, fun _ => rfl⟩


/-- Legal frames of more than 20 ms, as multiples of 20 ms. -/
theorem legal_long (fs fsz : Int)
    (hfs : fs = 8000 ∨ fs = 12000 ∨ fs = 16000 ∨ fs = 24000 ∨ fs = 48000)
    (hl : legalFrame fs fsz = true) (hlong : fs / 50 < fsz) :
    fsz = 2 * (fs / 50) ∨ fsz = 3 * (fs / 50) ∨ fsz = 4 * (fs / 50) ∨ fsz = 5 * (fs / 50) ∨ fsz = 6 * (fs / 50) := by
  unfold legalFrame at hl
  simp only [decide_eq_true_eq] at hl
  omega

theorem rate_le16 (fs fsz : Int) (hf : 0 < fsz) (h : fs / fsz ≤ 16) : fs < 17 * fsz := by
  have := (Int.ediv_lt_iff_lt_mul hf (a := fs) (b := 17)).mp (by omega)
  omega

/-- For frames of 60 ms and more, two bytes of output space and a legal bit-rate setting, the CBR
    byte count is at least 2 (so the two-byte code-3 ToC-only packet of the low-budget path never
    exceeds it). -/
theorem cbr_ge2 (s : St) (fsz out : Int) (hs : stOk s = true) (hl : legalFrame s.fs fsz = true)
    (hfr : s.fs / fsz ≤ 16) (hout : 2 ≤ out) :
    2 ≤ cbrBytes s.fs fsz (userBitrateToBitrate s fsz (min 1276 out)) (min 1276 out) := by
  obtain ⟨hfs, hch, hbr⟩ := stOk_fs s hs
  have hfs0 : 0 < s.fs := by omega
  obtain ⟨hf0, _⟩ := legal_le s.fs fsz hfs0 hl
  have h17 := rate_le16 s.fs fsz hf0 hfr
  have hlong := legal_long s.fs fsz hfs hl (by omega)
  unfold cbrBytes userBitrateToBitrate
  simp only [OPUS_AUTO, OPUS_BITRATE_MAX] at *
  have hz : (if fsz = 0 then s.fs / 400 else fsz) = fsz := if_neg (by omega)
  simp only [hz]
  generalize s.userBitrate = ub at *
  generalize s.channels = ch at *
  generalize s.fs = fs at *
  rcases hfs with rfl | rfl | rfl | rfl | rfl <;> norm_num at hlong <;>
    rcases hlong with rfl | rfl | rfl | rfl | rfl <;>
    omega


/-! ### Post-condition of one `opus_encode_native` call -/

/-- What the size property (C05) says about one successful call. -/
structure NatPost (s : St) (fsz out : Int) (r : NatRes) : Prop where
  noAbort : r.abort = false
  retLo : 1 ≤ r.ret
  retHi : r.ret ≤ out
  cbr : s.useVbr = 0 → r.dtx = false →
    r.ret = cbrTarget s fsz out ∨ (s.userBitrate = OPUS_BITRATE_MAX ∧ s.fs / 50 < fsz ∧ r.ret = out)

/-! ### Low-budget path -/

theorem lowCode_cases (s : St) (fsz out : Int) :
    lowCode s fsz out = 0 ∨ lowCode s fsz out = 1 ∨
    (lowCode s fsz out = 3 ∧ s.fs / fsz ≤ 16 ∧ out ≠ 1 ∧ lowNumMulti s fsz out = 50 / (s.fs / fsz)) := by
  unfold lowCode lowNumMulti
  by_cases h1 : s.fs / fsz ≤ 16
  · rw [if_pos h1]
    by_cases h2 : lowToSilk s fsz out = true
    · rw [if_pos h2]; split <;> simp
    · rw [if_neg h2]
      right; right
      refine ⟨rfl, h1, ?_, ?_⟩
      · intro h; apply h2; unfold lowToSilk; simp [h]
      · rw [if_pos ⟨h1, h2⟩]
  · rw [if_neg h1]; split <;> simp

theorem lowLens_spec (s : St) (fsz out : Int) (hfr : 1 ≤ s.fs / fsz) :
    lowLens s fsz out ≠ [] ∧ (∀ l ∈ lowLens s fsz out, l ≤ 1275) ∧
    (baseSize (lowLens s fsz out) : Int) = lowRet0 s fsz out := by
  unfold lowLens lowRet0
  rcases lowCode_cases s fsz out with h | h | ⟨h, h16, _, hn⟩
  · rw [h]; simp [baseSize]
  · rw [h]; simp [baseSize, List.replicate]
  · rw [h, hn]
    have h3 : 3 ≤ 50 / (s.fs / fsz) := (Int.le_ediv_iff_mul_le (by omega)).mpr (by omega)
    have h3' : 3 ≤ (50 / (s.fs / fsz)).toNat := by omega
    refine ⟨?_, ?_, ?_⟩
    · simp; omega
    · intro l hl; simp at hl; omega
    · simp only [show ¬ (3 : Int) = 0 by decide, show ¬ (3 : Int) = 1 by decide, show ¬ (3 : Int) ≤ 1 by decide, if_false]
      rw [baseSize_zeros _ h3']; rfl

theorem lowBudget_post (s0 s : St) (fsz out : Int) (b : SizeBudget) (hs : stOk s0 = true)
    (hl : legalFrame s0.fs fsz = true) (hout : 1 ≤ out)
    (hfs : s.fs = s0.fs) (hv : s.useVbr = s0.useVbr)
    (hb1 : 1 ≤ b.maxDataBytes) (hb2 : b.maxDataBytes ≤ min 1276 out)
    (hbc : s0.useVbr = 0 → b.maxDataBytes = cbrTarget s0 fsz out) :
    NatPost s0 fsz out (lowBudget s fsz out b) := by
  obtain ⟨hfs5, _, _⟩ := stOk_fs s0 hs
  have hfs0 : 0 < s0.fs := by omega
  obtain ⟨hf0, hf12⟩ := legal_le s0.fs fsz hfs0 hl
  have hfr : 1 ≤ s.fs / fsz := by
    rw [hfs]
    refine (Int.le_ediv_iff_mul_le hf0).mpr ?_
    unfold legalFrame at hl; simp only [decide_eq_true_eq] at hl; omega
  obtain ⟨hne, hall, hbase⟩ := lowLens_spec s fsz out hfr
  have hret0 : 1 ≤ lowRet0 s fsz out ∧ lowRet0 s fsz out ≤ 2 ∧ lowRet0 s fsz out ≤ out ∧
      (s0.useVbr = 0 → lowRet0 s fsz out ≤ cbrTarget s0 fsz out) := by
    unfold lowRet0
    rcases lowCode_cases s fsz out with h | h | ⟨h, h16, h1, _⟩
    · rw [h]; simp; refine ⟨hout, ?_⟩; intro _; unfold cbrTarget; omega
    · rw [h]; simp; refine ⟨hout, ?_⟩; intro _; unfold cbrTarget; omega
    · rw [h]; simp
      refine ⟨by omega, ?_⟩
      intro _
      have := cbr_ge2 s0 fsz out hs hl (by rw [← hfs]; exact h16) (by omega)
      unfold cbrTarget; omega
  unfold lowBudget
  dsimp only
  by_cases hvb : s.useVbr = 0
  · rw [if_pos hvb]
    have hv0 : s0.useVbr = 0 := by rw [← hv]; exact hvb
    have hpad := padSpec_ok (lowBudgetToc s fsz out).1 (lowLens s fsz out) (lowRet0 s fsz out)
      (max b.maxDataBytes (lowRet0 s fsz out)) hne hall hbase (by omega)
    rw [if_neg (by rw [hpad.1]; simp)]
    have := hbc hv0
    have := hret0.2.2.2 hv0
    exact ⟨rfl, by dsimp only; omega, by dsimp only; omega, fun _ _ => Or.inl (by dsimp only; omega)⟩
  · rw [if_neg hvb]
    refine ⟨rfl, by dsimp only; omega, by dsimp only; omega, fun h => ?_⟩
    rw [← hv] at h; exact absurd h hvb


/-! ### Single-frame path -/

theorem decide'_pre (s1 : St) (fuzz : Bool) (o : NatOr) (fsz m isSil : Int) (hs : Settings s1)
    (hb : BwOk s1.bandwidth) (hm1 : 3 ≤ m) (hm2 : m ≤ 1276) :
    FramePre (decide' s1 fuzz o fsz m).st (singleIn (decide' s1 fuzz o fsz m) isSil fsz m) := by
  obtain ⟨_, hmode, hbw, hw, _, _⟩ := decide'_spec s1 fuzz o fsz m hs hb
  refine ⟨hm1, hm2, hmode, ?_⟩
  intro h
  have := hw h
  unfold BwOk at hbw
  simp only [BW_NB, BW_MB, BW_WB, BW_FB] at *
  omega

theorem single_post (s0 s1 : St) (fuzz : Bool) (o : NatOr) (fsz out m isSil : Int) (fo : FrameOr) (okb : Bool)
    (hs : Settings s1) (hb : BwOk s1.bandwidth) (hm1 : 3 ≤ m) (hm2 : m ≤ min 1276 out)
    (hv : s1.useVbr = s0.useVbr) (hbc : s0.useVbr = 0 → m = cbrTarget s0 fsz out)
    (hok : frameOk (decide' s1 fuzz o fsz m).st (singleIn (decide' s1 fuzz o fsz m) isSil fsz m) fo = true) :
    NatPost s0 fsz out
      (singleRes (frameNative (decide' s1 fuzz o fsz m).st (singleIn (decide' s1 fuzz o fsz m) isSil fsz m) fo) okb) := by
  have hpre := decide'_pre s1 fuzz o fsz m isSil hs hb hm1 (by omega)
  have hpost := frameNative_post _ _ fo hpre hok
  obtain ⟨hsame, _, _, _, _, _⟩ := decide'_spec s1 fuzz o fsz m hs hb
  have hvd : (decide' s1 fuzz o fsz m).st.useVbr = s0.useVbr := by rw [hsame.cfg.useVbr, hv]
  generalize frameNative (decide' s1 fuzz o fsz m).st (singleIn (decide' s1 fuzz o fsz m) isSil fsz m) fo = r at *
  have hmi : (singleIn (decide' s1 fuzz o fsz m) isSil fsz m).maxDataBytes = m := rfl
  obtain ⟨h1, h2, h3, _, _, h6, _, _, _⟩ := hpost
  rw [hmi] at h3 h6
  unfold singleRes
  refine ⟨h1, h2, by dsimp only; omega, ?_⟩
  intro hv0 hd
  left
  dsimp only at hd ⊢
  rw [(h6 (by rw [hvd]; exact hv0) hd).1]
  exact hbc hv0


/-! ### The whole call -/

/-- Does the call take the multi-frame (repacketiser) path of :1616? -/
def takesMulti (s : St) (fuzz : Bool) (fsz out : Int) (o : NatOr) : Bool :=
  !(lowBudgetGate (budgetSt s o fsz out) fsz (sizeBudget (analysisUpd s o) fsz out)) &&
  isMulti (decide' (budgetSt s o fsz out) fuzz o fsz (sizeBudget (analysisUpd s o) fsz out).maxDataBytes).st fsz

theorem NatPost.withOk {s : St} {fsz out : Int} {r : NatRes} (h : NatPost s fsz out r) (b : Bool) :
    NatPost s fsz out { r with ok := b } := ⟨h.noAbort, h.retLo, h.retHi, h.cbr⟩

/-- `opus_encode_native`, all paths, given the multi-frame path lemma `hmulti`. -/
theorem encodeNative_post_of (s : St) (fuzz : Bool) (fsz out : Int) (o : NatOr)
    (he : entryCheck s fsz out = none)
    (hok : (encodeNative s fuzz fsz out o).ok = true)
    (hmulti : takesMulti s fuzz fsz out o = true → stOk s = true → legalFrame s.fs fsz = true →
       (multiFrame (decide' (budgetSt s o fsz out) fuzz o fsz (sizeBudget (analysisUpd s o) fsz out).maxDataBytes)
          (effSilence (budgetSt s o fsz out) o) fsz out (sizeBudget (analysisUpd s o) fsz out).cbr o.frames).ok = true →
       NatPost s fsz out
        (multiFrame (decide' (budgetSt s o fsz out) fuzz o fsz (sizeBudget (analysisUpd s o) fsz out).maxDataBytes)
          (effSilence (budgetSt s o fsz out) o) fsz out (sizeBudget (analysisUpd s o) fsz out).cbr o.frames)) :
    NatPost s fsz out (encodeNative s fuzz fsz out o) := by
  unfold encodeNative at hok ⊢
  rw [he] at hok ⊢
  dsimp only at hok ⊢
  have hout : 1 ≤ out := by
    unfold entryCheck at he
    dsimp only at he
    split at he
    · cases he
    · omega
  have hbs := budgetSt_same s o fsz out
  have hfs1 : (budgetSt s o fsz out).fs = s.fs := by unfold BudSame at hbs; rw [hbs]
  have hv1 : (budgetSt s o fsz out).useVbr = s.useVbr := by unfold BudSame at hbs; rw [hbs]
  by_cases hg : lowBudgetGate (budgetSt s o fsz out) fsz (sizeBudget (analysisUpd s o) fsz out) = true
  · rw [if_pos hg] at hok ⊢
    dsimp only at hok
    simp only [Bool.and_eq_true] at hok
    obtain ⟨hb1, hb2, hbc, _⟩ := budget_spec s o fsz out hok.1 hok.2 hout
    exact (lowBudget_post s _ fsz out _ hok.1 hok.2 hout hfs1 hv1 hb1 hb2 (fun h => (hbc h).1)).withOk _
  · rw [if_neg hg] at hok ⊢
    by_cases hm : isMulti (decide' (budgetSt s o fsz out) fuzz o fsz
        (sizeBudget (analysisUpd s o) fsz out).maxDataBytes).st fsz = true
    · rw [if_pos hm] at hok ⊢
      dsimp only at hok ⊢
      simp only [Bool.and_eq_true] at hok
      refine (hmulti ?_ hok.1.1 hok.1.2 hok.2).withOk _
      unfold takesMulti; simp [hg, hm]
    · rw [if_neg hm] at hok ⊢
      unfold singleRes at hok
      dsimp only at hok
      simp only [Bool.and_eq_true] at hok
      obtain ⟨⟨hst, hlg⟩, hfok⟩ := hok
      obtain ⟨hb1, hb2, hbc, _⟩ := budget_spec s o fsz out hst hlg hout
      obtain ⟨hset, hbw⟩ := stOk_settings s hst
      obtain ⟨hset1, hbw1⟩ := hbs.settings hset hbw
      have hm3 : 3 ≤ (sizeBudget (analysisUpd s o) fsz out).maxDataBytes := by
        unfold lowBudgetGate at hg
        simp only [decide_eq_true_eq] at hg
        omega
      exact single_post s _ fuzz o fsz out _ _ _ _ hset1 hbw1 hm3 hb2 hv1 (fun h => (hbc h).1) hfok

end Opus.EncSkel.Proofs
