import OpusProofs.GainPureSep3
import OpusProofs.DecSkelApi
/-
  OpusProofs.GainPureHist — the sample-level scaling statement for every call of a whole history
  (C19, slice `Gain`): combination of the history simulation (`runCalls_gz`), the separation of the logs
  (`callObs_gainSep`), the decoder invariant along histories (C01: `stepCall_inv`) and `semLog_scaled`.
-/
namespace Opus.DecSkel

/-- The observation `xg` of a call (gain g) and the observation `x0` of the same call of the gain-0 twin: same return
    value and packet offset, same events up to gain passes, and for every initial memory the memory the events of `xg`
    leave is the memory the events of `x0` leave, with the samples covered by a gain pass multiplied by `k`. -/
def ScaledObs {α : Type} [Mul α] (k : α) (dsp : List Ev → Ev → Mem α → Mem α) (xg x0 : CallObs) : Prop :=
  x0.ret = xg.ret ∧ x0.packetOffset = xg.packetOffset ∧ x0.log = xg.log.filter notGain ∧
  ∀ (m : Mem α) b i, semLog k dsp xg.log m b i =
    if gained xg.log b i then k * semLog k dsp x0.log m b i else semLog k dsp x0.log m b i

theorem callObs_scaled {α : Type} [Mul α] (k : α) (dsp : List Ev → Ev → Mem α → Mem α) (hd : DspLocal dsp)
    (o : Oracle) (st : DecState) (hinv : DecInv st) (c : Call) (hc : noClip c = true) :
    ScaledObs k dsp (callObs o st c).1 (callObs o (zg st) (gzCall c)).1 := by
  have h := callObs_gz o st c
  have hl : (callObs o (zg st) (gzCall c)).1 = gzObs (callObs o st c).1 := by rw [h]
  rw [hl]
  refine ⟨rfl, rfl, rfl, fun m b i => ?_⟩
  exact semLog_scaled k dsp hd m _ (callObs_gainSep o st hinv c hc) b i

theorem runCalls_scaled {α : Type} [Mul α] (k : α) (dsp : List Ev → Ev → Mem α → Mem α) (hd : DspLocal dsp)
    (os : Nat → Oracle) (hos : ∀ i, OracleOk (os i)) (cs : List Call) :
    ∀ (i : Nat) (st : DecState), DecInv st → (∀ c ∈ cs, c.WF ∧ noClip c = true) →
      List.Forall₂ (ScaledObs k dsp) (runCalls os i st cs).1 (runCalls os i (zg st) (cs.map gzCall)).1 := by
  induction cs with
  | nil => intro i st _ _; exact List.Forall₂.nil
  | cons c cs ih =>
    intro i st hinv hcs
    have hc := hcs c (List.mem_cons_self ..)
    show List.Forall₂ (ScaledObs k dsp)
      ((callObs (os i) st c).1 :: (runCalls os (i + 1) (callObs (os i) st c).2 cs).1)
      ((callObs (os i) (zg st) (gzCall c)).1 :: (runCalls os (i + 1) (callObs (os i) (zg st) (gzCall c)).2 (cs.map gzCall)).1)
    refine List.Forall₂.cons (callObs_scaled k dsp hd (os i) st hinv c hc.2) ?_
    have h2 : (callObs (os i) (zg st) (gzCall c)).2 = zg (callObs (os i) st c).2 := by rw [callObs_gz]
    rw [h2]
    have hinv' : DecInv (callObs (os i) st c).2 := by rw [callObs_st]; exact stepCall_inv (hos i) hinv c hc.1
    exact ih (i + 1) _ hinv' (fun c' hc' => hcs c' (List.mem_cons_of_mem _ hc'))

/-- histories that mix all three APIs: every call is in simulation (`x0 = gzObs xg`), and every call that does not run the soft
    clipper additionally satisfies the sample relation -/
theorem runCalls_scaled_mixed {α : Type} [Mul α] (k : α) (dsp : List Ev → Ev → Mem α → Mem α) (hd : DspLocal dsp)
    (os : Nat → Oracle) (hos : ∀ i, OracleOk (os i)) (cs : List Call) :
    ∀ (i : Nat) (st : DecState), DecInv st → (∀ c ∈ cs, c.WF) →
      List.Forall₂ (fun (cx : Call × CallObs) (x0 : CallObs) => x0 = gzObs cx.2 ∧ (noClip cx.1 = true → ScaledObs k dsp cx.2 x0))
        (cs.zip (runCalls os i st cs).1) (runCalls os i (zg st) (cs.map gzCall)).1 := by
  induction cs with
  | nil => intro i st _ _; exact List.Forall₂.nil
  | cons c cs ih =>
    intro i st hinv hcs
    have hc := hcs c (List.mem_cons_self ..)
    show List.Forall₂ _
      ((c, (callObs (os i) st c).1) :: cs.zip (runCalls os (i + 1) (callObs (os i) st c).2 cs).1)
      ((callObs (os i) (zg st) (gzCall c)).1 :: (runCalls os (i + 1) (callObs (os i) (zg st) (gzCall c)).2 (cs.map gzCall)).1)
    refine List.Forall₂.cons ⟨by rw [callObs_gz], fun hn => callObs_scaled k dsp hd (os i) st hinv c hn⟩ ?_
    have h2 : (callObs (os i) (zg st) (gzCall c)).2 = zg (callObs (os i) st c).2 := by rw [callObs_gz]
    rw [h2]
    have hinv' : DecInv (callObs (os i) st c).2 := by rw [callObs_st]; exact stepCall_inv (hos i) hinv c hc
    exact ih (i + 1) _ hinv' (fun c' hc' => hcs c' (List.mem_cons_of_mem _ hc'))

end Opus.DecSkel
