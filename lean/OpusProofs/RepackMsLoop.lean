import OpusProofs.RepackMsDecode
import OpusProofs.DecSkelMsFull
/-
  C07 helper lemmas, part 21: the stream loop of `opus_multistream_decode_native` (C01's `msFullLoop`) on a
  multistream packet and on its unpadded form: same return value, same stream states, same copy-out calls,
  per-stream logs equal up to the frame-offset shift.
-/
namespace Opus.RepackProofs
open Opus Opus.Framing Opus.FramingSpec Opus.FramingProofs Opus.Repack Opus.Ext Opus.DecSkel

/-- Two packets the decoder cannot tell apart except for the address of the frame data: both valid, the
    same frames, the same configuration bits. -/
structure PktRel (p q : Packet) : Prop where
  vp : Valid p
  vq : Valid q
  frames : q.frames = p.frames
  toc : q.toc / 4 = p.toc / 4

/-- Stream by stream related multistream packets. -/
def PairRel : List Packet → List Packet → Prop
  | [], [] => True
  | p :: ps, q :: qs => PktRel p q ∧ PairRel ps qs
  | _, _ => False

theorem PairRel.nil_iff {ps qs : List Packet} (h : PairRel ps qs) : qs = [] ↔ ps = [] := by
  cases ps <;> cases qs <;> simp_all [PairRel]

theorem PairRel.length {ps qs : List Packet} : PairRel ps qs → qs.length = ps.length := by
  induction ps generalizing qs with
  | nil => intro h; cases qs <;> simp_all [PairRel]
  | cons p ps ih => intro h; cases qs with
    | nil => simp [PairRel] at h
    | cons q qs => simp [PairRel] at h; simp [ih h.2]

/-- The frame-offset shift of the first stream (0 for empty lists). -/
def firstShift2 : List Packet → List Packet → Int
  | p :: rest, q :: _ =>
    ((view (decide (rest ≠ [])) q).payloadOffset : Int) - ((view (decide (rest ≠ [])) p).payloadOffset : Int)
  | _, _ => 0

/-- The frame-offset shift of the first stream of `ps` against its canonical form. -/
def firstShift (ps : List Packet) : Int := firstShift2 ps (ps.map fun p => canonPacket p.toc p.frames)

/-- `l2` is `l1` with the packet offsets of the i-th log shifted by some `d_i`. -/
def LogsRel (l1 l2 : List (List Ev)) : Prop :=
  ∃ ds : List Int, ds.length = l1.length ∧ l2 = List.zipWith (fun a d => a.map (Ev.shiftOff d)) l1 ds

structure AccRel (a1 a2 : MsAcc) : Prop where
  sts : a2.sts = a1.sts
  copies : a2.copies = a1.copies
  rets : a2.trace.map Prod.fst = a1.trace.map Prod.fst
  logs : LogsRel a1.logs a2.logs

structure OutRel (o1 o2 : MsOut) : Prop where
  ret : o2.ret = o1.ret
  sts : o2.sts = o1.sts
  copies : o2.copies = o1.copies
  rets : o2.trace.map Prod.fst = o1.trace.map Prod.fst
  logs : LogsRel o1.logs o2.logs

theorem AccRel.out {a1 a2 : MsAcc} (h : AccRel a1 a2) (r : Out Int) (rest : List DecState) :
    OutRel (a1.out r rest) (a2.out r rest) :=
  ⟨rfl, by simp [MsAcc.out, h.sts], by simp [MsAcc.out, h.copies], by simp [MsAcc.out, h.rets], by simpa [MsAcc.out] using h.logs⟩

theorem logsRel_append {l1 l2 : List (List Ev)} (h : LogsRel l1 l2) (a : List Ev) (d : Int) :
    LogsRel (l1 ++ [a]) (l2 ++ [a.map (Ev.shiftOff d)]) := by
  obtain ⟨ds, hl, rfl⟩ := h
  refine ⟨ds ++ [d], by simp [hl], ?_⟩
  rw [List.zipWith_append (by omega)]
  rfl

theorem msFullLoop_rel (os1 os2 : Nat → Oracle) (l : Layout.ChannelLayout) (fec : Int) (sc : Bool) (bufCap : Int) :
    ∀ (sts : List DecState) (ps qs : List Packet) (s : Nat) (fsz : Int) (a1 a2 : MsAcc),
    PairRel ps qs → (ps ≠ [] → s + ps.length = l.nbStreams) →
    (∀ i, i < ps.length → OracleShift (os1 (s + i)) (os2 (s + i)) (firstShift2 (ps.drop i) (qs.drop i))) →
    AccRel a1 a2 →
    OutRel (msFullLoop os1 l fec sc false bufCap sts s (msSerialize ps) (msSerialize ps).length fsz a1)
           (msFullLoop os2 l fec sc false bufCap sts s (msSerialize qs) (msSerialize qs).length fsz a2) := by
  intro sts
  induction sts with
  | nil =>
    intro ps qs s fsz a1 a2 _ _ _ hrel
    simp only [msFullLoop]
    have hrel' : AccRel { a1 with copies := a1.copies ++ Layout.mutedCalls fsz (l.mapping.take l.nbChannels) 0 }
        { a2 with copies := a2.copies ++ Layout.mutedCalls fsz (l.mapping.take l.nbChannels) 0 } :=
      ⟨hrel.sts, by simp [hrel.copies], hrel.rets, hrel.logs⟩
    exact hrel'.out _ _
  | cons st rest ih =>
    intro ps qs s fsz a1 a2 hpr hcount hos hrel
    cases ps with
    | nil =>
      have hq : qs = [] := (hpr.nil_iff).mpr rfl
      subst hq
      simp only [msFullLoop, msSerialize, List.length_nil]
      simp only [Bool.false_eq_true, not_false_eq_true, true_and]
      rw [if_pos (by omega), if_pos (by omega)]
      exact hrel.out _ _
    | cons p ps' =>
      cases qs with
      | nil => simp [PairRel] at hpr
      | cons q qs' =>
      obtain ⟨hpq, hpr'⟩ := hpr
      have hpv := hpq.vp
      have hcnt := hcount (by simp)
      simp only [List.length_cons] at hcnt
      have hsd : decide (s ≠ l.nbStreams - 1) = decide (ps' ≠ []) := by
        by_cases hr : ps' = []
        · subst hr; simp at hcnt ⊢; omega
        · have : 0 < ps'.length := List.length_pos_iff.mpr hr
          simp [hr]; omega
      have hos0 := hos 0 (by simp)
      simp only [Nat.add_zero, List.drop_zero, firstShift2] at hos0
      have hr1 : decide (ps' ≠ []) = false → msSerialize ps' = [] := by
        intro h; have : ps' = [] := by simpa using h
        rw [this]; rfl
      have hr2 : decide (ps' ≠ []) = false → msSerialize qs' = [] := by
        intro h; have : ps' = [] := by simpa using h
        rw [(hpr'.nil_iff).mpr this]; rfl
      have hsd2 : decide (qs' ≠ []) = decide (ps' ≠ []) := by
        have := hpr'.nil_iff
        by_cases h : ps' = []
        · simp [h, this.mpr h]
        · have h' : qs' ≠ [] := fun hq => h (this.mp hq)
          simp [h, h']
      rw [msSerialize_cons, msSerialize_cons, hsd2]
      generalize hsdv : decide (ps' ≠ []) = sd at hsd hr1 hr2 hos0 ⊢
      have hcv := hpq.vq
      have hp1 := parse_complete sd p hpv _ hr1
      have hp2 := parse_complete sd q hcv _ hr2
      have hfr : q.frames = p.frames := hpq.frames
      have ht : q.toc / 4 = p.toc / 4 := hpq.toc
      obtain ⟨t1, ht1⟩ := serialize_cons sd p (msSerialize ps')
      obtain ⟨t2, ht2⟩ := serialize_cons sd q (msSerialize qs')
      have hshift := decodeNative_shift (o1 := os1 s) (o2 := os2 s) _ _ sd sd _ _ hp1 hp2
        (by simp only [view, Packet.lens, hfr]) (by simp only [view, hfr])
        (by rw [ht1, ht2]; simp only [List.headD_cons]; exact ht.symm) hos0
        { buf := .pcm, off := 0, cap := bufCap } fsz fec sc { st := st, k := 0, log := [] }
      have hfresh : ∀ d : Int, shiftRun d { st := st, k := 0, log := [] } = { st := st, k := 0, log := [] } := fun _ => rfl
      rw [hfresh] at hshift
      obtain ⟨hret, hrun⟩ := hshift
      have hpos1 := serialize_length_pos sd p
      have hpos2 := serialize_length_pos sd q
      have hl1 : (0 : Int) < ((serialize sd p ++ msSerialize ps').length : Int) := by
        rw [List.length_append]; omega
      have hl2 : (0 : Int) < ((serialize sd q ++ msSerialize qs').length : Int) := by
        rw [List.length_append]; omega
      simp only [msFullLoop]
      simp only [Bool.false_eq_true, not_false_eq_true, true_and, if_false]
      rw [if_neg (Int.not_le.mpr hl1), if_neg (Int.not_le.mpr hl2)]
      simp only [msStream, hsd]
      generalize hx1 : decodeNative (os1 s) (some (serialize sd p ++ msSerialize ps'))
        ((serialize sd p ++ msSerialize ps').length : Int) { buf := .pcm, off := 0, cap := bufCap } fsz fec sd sc
        { st := st, k := 0, log := [] } = x1 at hret hrun ⊢
      generalize hx2 : decodeNative (os2 s) (some (serialize sd q ++ msSerialize qs'))
        ((serialize sd q ++ msSerialize qs').length : Int)
        { buf := .pcm, off := 0, cap := bufCap } fsz fec sd sc { st := st, k := 0, log := [] } = x2 at hret hrun ⊢
      rw [hret]
      have hstepRel : ∀ (v : Int) (c1 c2 : MsCall) (cp : List Layout.Call),
          AccRel (a1.step x1 v c1 cp) (a2.step x2 v c2 cp) := by
        intro v c1 c2 cp
        refine ⟨?_, ?_, ?_, ?_⟩
        · simp [MsAcc.step, hrel.sts, hrun, shiftRun]
        · simp [MsAcc.step, hrel.copies]
        · simp [MsAcc.step, hrel.rets]
        · simp only [MsAcc.step, hrun, shiftRun]
          exact logsRel_append hrel.logs _ _
      cases hr : x1.ret with
      | ret v =>
        simp only []
        by_cases hv0 : v ≤ 0
        · rw [if_pos hv0, if_pos hv0]
          exact (hstepRel v _ _ _).out _ _
        · rw [if_neg hv0, if_neg hv0]
          have hpo1 : x1.packetOffset = ((serialize sd p).length : Int) := by
            have := decodeNative_po (os1 s) (serialize sd p ++ msSerialize ps') _ { buf := .pcm, off := 0, cap := bufCap }
              fsz fec sd sc { st := st, k := 0, log := [] } hl1 (view sd p) (by rw [Int.toNat_natCast, List.take_length]; exact hp1) v (by rw [hx1]; exact hr) (by omega)
            rw [hx1] at this; rw [this]; rfl
          have hpo2 : x2.packetOffset = ((serialize sd q).length : Int) := by
            have := decodeNative_po (os2 s) (serialize sd q ++ msSerialize qs') _ { buf := .pcm, off := 0, cap := bufCap }
              fsz fec sd sc { st := st, k := 0, log := [] } hl2 (view sd q) (by rw [Int.toNat_natCast, List.take_length]; exact hp2) v
              (by rw [hx2, hret]; exact hr) (by omega)
            rw [hx2] at this; rw [this]; rfl
          rw [hpo1, hpo2]
          simp only [Int.toNat_natCast, List.drop_left]
          have e1 : ((serialize sd p ++ msSerialize ps').length : Int) - ((serialize sd p).length : Int) = ((msSerialize ps').length : Int) := by
            rw [List.length_append]; push_cast; omega
          have e2 : ((serialize sd q ++ msSerialize qs').length : Int) - ((serialize sd q).length : Int) =
              ((msSerialize qs').length : Int) := by
            rw [List.length_append]; push_cast; omega
          rw [e1, e2]
          apply ih ps' qs' (s + 1) v _ _ hpr'
          · intro hne; have := List.length_pos_iff.mpr hne; omega
          · intro i hi
            have := hos (i + 1) (by simp; omega)
            simpa [Nat.add_assoc, Nat.add_comm 1 i] using this
          · exact hstepRel v _ _ _
      | abort => simp only []; exact hrel.out _ _
      | hang => simp only []; exact hrel.out _ _

theorem accRel_refl (a : MsAcc) : AccRel a a :=
  ⟨rfl, rfl, rfl, ⟨List.replicate a.logs.length 0, by simp, by
    induction a.logs with
    | nil => rfl
    | cons x xs ih =>
      simp only [List.length_cons, List.replicate_succ, List.zipWith_cons_cons]
      rw [← ih]
      congr 1
      induction x with
      | nil => rfl
      | cons e es ihe =>
        simp only [List.map_cons]
        rw [← ihe]
        congr 1
        cases e <;> simp [Ev.shiftOff, CeltArgs.shiftOff]⟩⟩

/-- `opus_packet_get_nb_samples` sees only the frame count and the configuration bits. -/
theorem getNbSamples_rel (sd : Bool) (p q : Packet) (h : PktRel p q) (fs : Nat) :
    getNbSamples (serialize sd q) fs = getNbSamples (serialize sd p) fs := by
  have h1 := getNbFrames_serialize sd p h.vp []
  have h2 := getNbFrames_serialize sd q h.vq []
  simp only [List.append_nil] at h1 h2
  obtain ⟨t1, ht1⟩ := serialize_cons sd p []
  obtain ⟨t2, ht2⟩ := serialize_cons sd q []
  simp only [List.append_nil] at ht1 ht2
  unfold getNbSamples
  rw [h1, h2, h.frames, ht1, ht2]
  simp only [List.headD_cons, (toc_helpers_congr _ _ h.toc fs).1]
  rfl

theorem msValidate_rel (fs : Int) : ∀ (ps qs : List Packet), PairRel ps qs → ∀ (first : Bool) (samples : Int),
    msValidate fs ps.length first (msSerialize qs) samples = msValidate fs ps.length first (msSerialize ps) samples := by
  intro ps
  induction ps with
  | nil => intro qs h first samples; have := (h.nil_iff).mpr rfl; subst this; rfl
  | cons p rest ih =>
    intro qs hpr first samples
    cases qs with
    | nil => simp [PairRel] at hpr
    | cons q qs' =>
    obtain ⟨hpq, hpr'⟩ := hpr
    have hr1 : decide (rest ≠ []) = false → msSerialize rest = [] := by
      intro h; have : rest = [] := by simpa using h
      rw [this]; rfl
    have hr2 : decide (rest ≠ []) = false → msSerialize qs' = [] := by
      intro h; have : rest = [] := by simpa using h
      rw [(hpr'.nil_iff).mpr this]; rfl
    have hsd2 : decide (qs' ≠ []) = decide (rest ≠ []) := by
      have := hpr'.nil_iff
      by_cases h : rest = []
      · simp [h, this.mpr h]
      · have h' : qs' ≠ [] := fun hq => h (this.mp hq)
        simp [h, h']
    have hsd : decide (rest.length ≠ 0) = decide (rest ≠ []) := by simp
    rw [msSerialize_cons, msSerialize_cons, hsd2]
    simp only [List.length_cons, msValidate]
    rw [hsd]
    generalize decide (rest ≠ []) = sd at hr1 hr2
    have hp1 := parse_complete sd p hpq.vp _ hr1
    have hp2 := parse_complete sd q hpq.vq _ hr2
    have hpos1 := serialize_length_pos sd p
    have hpos2 := serialize_length_pos sd q
    rw [if_neg (by rw [List.length_append]; omega), if_neg (by rw [List.length_append]; omega), hp1, hp2]
    simp only []
    have hpo1 : (view sd p).packetOffset = (serialize sd p).length := rfl
    have hpo2 : (view sd q).packetOffset = (serialize sd q).length := rfl
    rw [hpo1, hpo2, List.take_left, List.take_left, List.drop_left, List.drop_left]
    have hnb : nbSamples (serialize sd q) fs = nbSamples (serialize sd p) fs := by
      unfold nbSamples; rw [getNbSamples_rel sd p q hpq]
    rw [hnb]
    split
    · rfl
    · exact ih qs' hpr' false _

/-- `opus_multistream_decode_native` (C01's `msDecodeFull`) on two stream-by-stream related multistream packets. -/
theorem msDecodeFull_rel (os1 os2 : Nat → Oracle) (l : Layout.ChannelLayout) (Fs : Int) (sts : List DecState)
    (ps qs : List Packet) (hne : ps ≠ []) (hpr : PairRel ps qs) (hn : ps.length = l.nbStreams)
    (hos : ∀ i, i < ps.length → OracleShift (os1 i) (os2 i) (firstShift2 (ps.drop i) (qs.drop i)))
    (frame_size fec : Int) (sc : Bool) :
    OutRel (msDecodeFull os1 l Fs sts (msSerialize ps) (msSerialize ps).length frame_size fec sc)
           (msDecodeFull os2 l Fs sts (msSerialize qs) (msSerialize qs).length frame_size fec sc) := by
  have hv : ∀ p ∈ ps, Valid p := by
    intro p hp
    clear hos hn hne
    induction ps generalizing qs with
    | nil => cases hp
    | cons x xs ih =>
      cases qs with
      | nil => simp [PairRel] at hpr
      | cons y ys =>
        rcases List.mem_cons.mp hp with rfl | hp
        · exact hpr.1.vp
        · exact ih ys hpr.2 hp
  have hcv : ∀ q ∈ qs, Valid q := by
    intro q hq
    clear hos hn hne hv
    induction ps generalizing qs with
    | nil => have := (hpr.nil_iff).mpr rfl; subst this; cases hq
    | cons x xs ih =>
      cases qs with
      | nil => cases hq
      | cons y ys =>
        rcases List.mem_cons.mp hq with rfl | hq
        · exact hpr.1.vq
        · exact ih ys hpr.2 hq
  have hqne : qs ≠ [] := fun h => hne ((hpr.nil_iff).mp h)
  have hge1 := Opus.Layout.msSerialize_length_ge ps hne hv
  have hge2 := Opus.Layout.msSerialize_length_ge qs hqne hcv
  rw [← msSerialize_eq_layout] at hge1 hge2
  rw [hpr.length] at hge2
  have hpos : 0 < ps.length := List.length_pos_iff.mpr hne
  have hrefl := accRel_refl ⟨[], [], [], [], []⟩
  unfold msDecodeFull
  by_cases h1 : frame_size ≤ 0
  · rw [if_pos h1, if_pos h1]; exact hrefl.out _ _
  have c0a : ¬ (((msSerialize ps).length : Int) < 0) := by omega
  have c0b : ¬ (((msSerialize qs).length : Int) < 0) := by omega
  rw [if_neg h1, if_neg h1, if_neg c0a, if_neg c0b]
  have hlz1 : ¬ ((msSerialize ps).length : Int) = 0 := by omega
  have hlz2 : ¬ ((msSerialize qs).length : Int) = 0 := by omega
  simp only [hlz1, hlz2, decide_false, Bool.false_eq_true, not_false_eq_true, true_and, Int.toNat_natCast, List.take_length]
  have c1 : ¬ (((msSerialize ps).length : Int) < 2 * (l.nbStreams : Int) - 1) := by omega
  have c2 : ¬ (((msSerialize qs).length : Int) < 2 * (l.nbStreams : Int) - 1) := by omega
  rw [if_neg c1, if_neg c2]
  rw [← hn, msValidate_rel Fs ps qs hpr true 0]
  split
  · exact hrefl.out _ _
  · split
    · exact hrefl.out _ _
    · exact msFullLoop_rel os1 os2 l fec sc _ sts ps qs 0 _ _ _ hpr (fun _ => by omega)
        (fun i hi => by simpa using hos i hi) hrefl

theorem pairRel_canon : ∀ (ps : List Packet), (∀ p ∈ ps, Valid p) → PairRel ps (ps.map fun p => canonPacket p.toc p.frames)
  | [], _ => trivial
  | p :: ps, hv =>
    ⟨⟨hv p (by simp), canonPacket_valid p (hv p (by simp)), outPacket_frames _ _ _ _ _, outPacket_toc _ _ _ _ _⟩,
     pairRel_canon ps (fun q hq => hv q (by simp [hq]))⟩

/-- … on a multistream packet and on its unpadded form. -/
theorem msDecodeFull_unpad (os1 os2 : Nat → Oracle) (l : Layout.ChannelLayout) (Fs : Int) (sts : List DecState)
    (ps : List Packet) (hne : ps ≠ []) (hv : ∀ p ∈ ps, Valid p) (hn : ps.length = l.nbStreams)
    (hos : ∀ i, i < ps.length → OracleShift (os1 i) (os2 i) (firstShift (ps.drop i)))
    (frame_size fec : Int) (sc : Bool) :
    OutRel (msDecodeFull os1 l Fs sts (msSerialize ps) (msSerialize ps).length frame_size fec sc)
           (msDecodeFull os2 l Fs sts (msSerialize (ps.map fun p => canonPacket p.toc p.frames))
              (msSerialize (ps.map fun p => canonPacket p.toc p.frames)).length frame_size fec sc) :=
  msDecodeFull_rel os1 os2 l Fs sts ps _ hne (pairRel_canon ps hv) hn
    (fun i hi => by have := hos i hi; unfold firstShift at this; rwa [List.map_drop] at this) frame_size fec sc

theorem pairRel_last (pre : List Packet) (hv : ∀ p ∈ pre, Valid p) (a b : Packet) (h : PktRel a b) :
    PairRel (pre ++ [a]) (pre ++ [b]) := by
  induction pre with
  | nil => exact ⟨h, trivial⟩
  | cons p ps ih =>
    exact ⟨⟨hv p (by simp), hv p (by simp), rfl, rfl⟩, ih (fun q hq => hv q (by simp [hq]))⟩

/-- … on a multistream packet and on its padded form (only the last stream differs). -/
theorem msDecodeFull_pad (os1 os2 : Nat → Oracle) (l : Layout.ChannelLayout) (Fs : Int) (sts : List DecState)
    (pre : List Packet) (last last' : Packet) (hv : ∀ p ∈ pre, Valid p) (hrel : PktRel last last')
    (hn : pre.length + 1 = l.nbStreams)
    (hos : ∀ i, i < pre.length + 1 →
      OracleShift (os1 i) (os2 i) (firstShift2 ((pre ++ [last]).drop i) ((pre ++ [last']).drop i)))
    (frame_size fec : Int) (sc : Bool) :
    OutRel (msDecodeFull os1 l Fs sts (msJoin pre last) (msJoin pre last).length frame_size fec sc)
           (msDecodeFull os2 l Fs sts (msJoin pre last') (msJoin pre last').length frame_size fec sc) := by
  rw [← msSerialize_join, ← msSerialize_join]
  exact msDecodeFull_rel os1 os2 l Fs sts _ _ (by simp) (pairRel_last pre hv last last' hrel) (by simpa using hn)
    (fun i hi => hos i (by simpa using hi)) frame_size fec sc

end Opus.RepackProofs
