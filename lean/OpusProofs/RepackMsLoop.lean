import OpusProofs.RepackMsDecode
import OpusProofs.DecSkelMsFull
/-
  C07 helper lemmas, part 21: the stream loop of `opus_multistream_decode_native` (C01's `msFullLoop`) on a
  multistream packet and on its unpadded form: same return value, same stream states, same copy-out calls,
  per-stream logs equal up to the frame-offset shift.
-/
namespace Opus.RepackProofs
open Opus Opus.Framing Opus.FramingSpec Opus.FramingProofs Opus.Repack Opus.Ext Opus.DecSkel

/-- The frame-offset shift of the first stream of `ps` (0 for an empty list). -/
def firstShift : List Packet → Int
  | [] => 0
  | p :: rest =>
    ((view (decide (rest ≠ [])) (canonPacket p.toc p.frames)).payloadOffset : Int) -
      ((view (decide (rest ≠ [])) p).payloadOffset : Int)

/-- `l2` is `l1` with the packet offsets of the i-th log shifted by some `d_i`. -/
def LogsRel (l1 l2 : List (List Ev)) : Prop :=
  ∃ ds : List Int, ds.length = l1.length ∧ l2 = List.zipWith (fun a d => a.map (Ev.shiftOff d)) l1 ds

structure AccRel (a1 a2 : MsAcc) : Prop where
  sts : a2.sts = a1.sts
  copies : a2.copies = a1.copies
  rets : a2.trace.map Prod.fst = a1.trace.map Prod.fst
  logs : LogsRel a1.logs a2.logs

structure OutRel (o1 o2 : MsOut) : Prop where
  ret : o2.ret = o1.ret
  sts : o2.sts = o1.sts
  copies : o2.copies = o1.copies
  rets : o2.trace.map Prod.fst = o1.trace.map Prod.fst
  logs : LogsRel o1.logs o2.logs

theorem AccRel.out {a1 a2 : MsAcc} (h : AccRel a1 a2) (r : Out Int) (rest : List DecState) :
    OutRel (a1.out r rest) (a2.out r rest) :=
  ⟨rfl, by simp [MsAcc.out, h.sts], by simp [MsAcc.out, h.copies], by simp [MsAcc.out, h.rets], by simpa [MsAcc.out] using h.logs⟩

theorem logsRel_append {l1 l2 : List (List Ev)} (h : LogsRel l1 l2) (a : List Ev) (d : Int) :
    LogsRel (l1 ++ [a]) (l2 ++ [a.map (Ev.shiftOff d)]) := by
  obtain ⟨ds, hl, rfl⟩ := h
  refine ⟨ds ++ [d], by simp [hl], ?_⟩
  rw [List.zipWith_append (by omega)]
  rfl

theorem msFullLoop_unpad (os1 os2 : Nat → Oracle) (l : Layout.ChannelLayout) (fec : Int) (sc : Bool) (bufCap : Int) :
    ∀ (sts : List DecState) (ps : List Packet) (s : Nat) (fsz : Int) (a1 a2 : MsAcc),
    (∀ p ∈ ps, Valid p) → (ps ≠ [] → s + ps.length = l.nbStreams) →
    (∀ i, i < ps.length → OracleShift (os1 (s + i)) (os2 (s + i)) (firstShift (ps.drop i))) →
    AccRel a1 a2 →
    OutRel (msFullLoop os1 l fec sc false bufCap sts s (msSerialize ps) (msSerialize ps).length fsz a1)
           (msFullLoop os2 l fec sc false bufCap sts s (msSerialize (ps.map fun p => canonPacket p.toc p.frames))
              (msSerialize (ps.map fun p => canonPacket p.toc p.frames)).length fsz a2) := by
  intro sts
  induction sts with
  | nil =>
    intro ps s fsz a1 a2 _ _ _ hrel
    simp only [msFullLoop]
    have hrel' : AccRel { a1 with copies := a1.copies ++ Layout.mutedCalls fsz (l.mapping.take l.nbChannels) 0 }
        { a2 with copies := a2.copies ++ Layout.mutedCalls fsz (l.mapping.take l.nbChannels) 0 } :=
      ⟨hrel.sts, by simp [hrel.copies], hrel.rets, hrel.logs⟩
    exact hrel'.out _ _
  | cons st rest ih =>
    intro ps s fsz a1 a2 hv hcount hos hrel
    cases ps with
    | nil =>
      simp only [msFullLoop, List.map_nil, msSerialize, List.length_nil]
      simp only [Bool.false_eq_true, not_false_eq_true, true_and]
      rw [if_pos (by omega), if_pos (by omega)]
      exact hrel.out _ _
    | cons p ps' =>
      have hpv := hv p (by simp)
      have hcnt := hcount (by simp)
      simp only [List.length_cons] at hcnt
      have hsd : decide (s ≠ l.nbStreams - 1) = decide (ps' ≠ []) := by
        by_cases hr : ps' = []
        · subst hr; simp at hcnt ⊢; omega
        · have : 0 < ps'.length := List.length_pos_iff.mpr hr
          simp [hr]; omega
      have hos0 := hos 0 (by simp)
      simp only [Nat.add_zero, List.drop_zero, firstShift] at hos0
      -- the two byte strings and their first streams
      have hr1 : decide (ps' ≠ []) = false → msSerialize ps' = [] := by
        intro h; have : ps' = [] := by simpa using h
        rw [this]; rfl
      have hr2 : decide (ps' ≠ []) = false → msSerialize (ps'.map fun p => canonPacket p.toc p.frames) = [] := by
        intro h; have : ps' = [] := by simpa using h
        rw [this]; rfl
      have hsd2 : decide (ps'.map (fun p => canonPacket p.toc p.frames) ≠ []) = decide (ps' ≠ []) := by simp
      rw [List.map_cons, msSerialize_cons, msSerialize_cons, hsd2]
      generalize hsdv : decide (ps' ≠ []) = sd at hsd hr1 hr2 hos0 ⊢
      have hcv := canonPacket_valid p hpv
      have hp1 := parse_complete sd p hpv _ hr1
      have hp2 := parse_complete sd _ hcv _ hr2
      have hfr : (canonPacket p.toc p.frames).frames = p.frames := outPacket_frames _ _ _ _ _
      have ht : (canonPacket p.toc p.frames).toc / 4 = p.toc / 4 := outPacket_toc _ _ _ _ _
      obtain ⟨t1, ht1⟩ := serialize_cons sd p (msSerialize ps')
      obtain ⟨t2, ht2⟩ := serialize_cons sd (canonPacket p.toc p.frames) (msSerialize (ps'.map fun p => canonPacket p.toc p.frames))
      have hshift := decodeNative_shift (o1 := os1 s) (o2 := os2 s) _ _ sd sd _ _ hp1 hp2
        (by simp only [view, Packet.lens, hfr]) (by simp only [view, hfr])
        (by rw [ht1, ht2]; simp only [List.headD_cons]; exact ht.symm) hos0
        { buf := .pcm, off := 0, cap := bufCap } fsz fec sc { st := st, k := 0, log := [] }
      have hfresh : ∀ d : Int, shiftRun d { st := st, k := 0, log := [] } = { st := st, k := 0, log := [] } := fun _ => rfl
      rw [hfresh] at hshift
      obtain ⟨hret, hrun⟩ := hshift
      have hpos1 := serialize_length_pos sd p
      have hpos2 := serialize_length_pos sd (canonPacket p.toc p.frames)
      have hl1 : (0 : Int) < ((serialize sd p ++ msSerialize ps').length : Int) := by
        rw [List.length_append]; omega
      have hl2 : (0 : Int) < ((serialize sd (canonPacket p.toc p.frames) ++
          msSerialize (ps'.map fun p => canonPacket p.toc p.frames)).length : Int) := by
        rw [List.length_append]; omega
      simp only [msFullLoop]
      simp only [Bool.false_eq_true, not_false_eq_true, true_and, if_false]
      rw [if_neg (Int.not_le.mpr hl1), if_neg (Int.not_le.mpr hl2)]
      simp only [msStream, hsd]
      generalize hx1 : decodeNative (os1 s) (some (serialize sd p ++ msSerialize ps'))
        ((serialize sd p ++ msSerialize ps').length : Int) { buf := .pcm, off := 0, cap := bufCap } fsz fec sd sc
        { st := st, k := 0, log := [] } = x1 at hret hrun ⊢
      generalize hx2 : decodeNative (os2 s) (some (serialize sd (canonPacket p.toc p.frames) ++
          msSerialize (ps'.map fun p => canonPacket p.toc p.frames)))
        ((serialize sd (canonPacket p.toc p.frames) ++ msSerialize (ps'.map fun p => canonPacket p.toc p.frames)).length : Int)
        { buf := .pcm, off := 0, cap := bufCap } fsz fec sd sc { st := st, k := 0, log := [] } = x2 at hret hrun ⊢
      rw [hret]
      have hstepRel : ∀ (v : Int) (c1 c2 : MsCall) (cp : List Layout.Call),
          AccRel (a1.step x1 v c1 cp) (a2.step x2 v c2 cp) := by
        intro v c1 c2 cp
        refine ⟨?_, ?_, ?_, ?_⟩
        · simp [MsAcc.step, hrel.sts, hrun, shiftRun]
        · simp [MsAcc.step, hrel.copies]
        · simp [MsAcc.step, hrel.rets]
        · simp only [MsAcc.step, hrun, shiftRun]
          exact logsRel_append hrel.logs _ _
      cases hr : x1.ret with
      | ret v =>
        simp only []
        by_cases hv0 : v ≤ 0
        · rw [if_pos hv0, if_pos hv0]
          exact (hstepRel v _ _ _).out _ _
        · rw [if_neg hv0, if_neg hv0]
          -- packet offsets
          have hpo1 : x1.packetOffset = ((serialize sd p).length : Int) := by
            have := decodeNative_po (os1 s) (serialize sd p ++ msSerialize ps') _ { buf := .pcm, off := 0, cap := bufCap }
              fsz fec sd sc { st := st, k := 0, log := [] } hl1 (view sd p) (by rw [Int.toNat_natCast, List.take_length]; exact hp1) v (by rw [hx1]; exact hr) (by omega)
            rw [hx1] at this; rw [this]; rfl
          have hpo2 : x2.packetOffset = ((serialize sd (canonPacket p.toc p.frames)).length : Int) := by
            have := decodeNative_po (os2 s) (serialize sd (canonPacket p.toc p.frames) ++
                msSerialize (ps'.map fun p => canonPacket p.toc p.frames)) _ { buf := .pcm, off := 0, cap := bufCap }
              fsz fec sd sc { st := st, k := 0, log := [] } hl2 (view sd (canonPacket p.toc p.frames)) (by rw [Int.toNat_natCast, List.take_length]; exact hp2) v
              (by rw [hx2, hret]; exact hr) (by omega)
            rw [hx2] at this; rw [this]; rfl
          rw [hpo1, hpo2]
          simp only [Int.toNat_natCast, List.drop_left]
          have e1 : ((serialize sd p ++ msSerialize ps').length : Int) - ((serialize sd p).length : Int) = ((msSerialize ps').length : Int) := by
            rw [List.length_append]; push_cast; omega
          have e2 : ((serialize sd (canonPacket p.toc p.frames) ++ msSerialize (ps'.map fun p => canonPacket p.toc p.frames)).length : Int) -
              ((serialize sd (canonPacket p.toc p.frames)).length : Int) =
              ((msSerialize (ps'.map fun p => canonPacket p.toc p.frames)).length : Int) := by
            rw [List.length_append]; push_cast; omega
          rw [e1, e2]
          apply ih ps' (s + 1) v _ _ (fun q hq => hv q (by simp [hq]))
          · intro hne; have := List.length_pos_iff.mpr hne; omega
          · intro i hi
            have := hos (i + 1) (by simp; omega)
            simpa [Nat.add_assoc, Nat.add_comm 1 i] using this
          · exact hstepRel v _ _ _
      | abort => simp only []; exact hrel.out _ _
      | hang => simp only []; exact hrel.out _ _

theorem accRel_refl (a : MsAcc) : AccRel a a :=
  ⟨rfl, rfl, rfl, ⟨List.replicate a.logs.length 0, by simp, by
    induction a.logs with
    | nil => rfl
    | cons x xs ih =>
      simp only [List.length_cons, List.replicate_succ, List.zipWith_cons_cons]
      rw [← ih]
      congr 1
      induction x with
      | nil => rfl
      | cons e es ihe =>
        simp only [List.map_cons]
        rw [← ihe]
        congr 1
        cases e <;> simp [Ev.shiftOff, CeltArgs.shiftOff]⟩⟩

/-- `opus_packet_get_nb_samples` sees only the frame count and the configuration bits. -/
theorem getNbSamples_canon (sd : Bool) (p : Packet) (hv : Valid p) (fs : Nat) :
    getNbSamples (serialize sd (canonPacket p.toc p.frames)) fs = getNbSamples (serialize sd p) fs := by
  have hcv := canonPacket_valid p hv
  have hfr : (canonPacket p.toc p.frames).frames = p.frames := outPacket_frames _ _ _ _ _
  have ht : (canonPacket p.toc p.frames).toc / 4 = p.toc / 4 := outPacket_toc _ _ _ _ _
  have h1 := getNbFrames_serialize sd p hv []
  have h2 := getNbFrames_serialize sd _ hcv []
  simp only [List.append_nil] at h1 h2
  obtain ⟨t1, ht1⟩ := serialize_cons sd p []
  obtain ⟨t2, ht2⟩ := serialize_cons sd (canonPacket p.toc p.frames) []
  simp only [List.append_nil] at ht1 ht2
  unfold getNbSamples
  rw [h1, h2, hfr, ht1, ht2]
  simp only [List.headD_cons, (toc_helpers_congr _ _ ht fs).1]
  rfl

theorem msValidate_canon (fs : Int) : ∀ (ps : List Packet), (∀ p ∈ ps, Valid p) → ∀ (first : Bool) (samples : Int),
    msValidate fs ps.length first (msSerialize (ps.map fun p => canonPacket p.toc p.frames)) samples =
      msValidate fs ps.length first (msSerialize ps) samples := by
  intro ps
  induction ps with
  | nil => intro _ first samples; rfl
  | cons p rest ih =>
    intro hv first samples
    have hpv := hv p (by simp)
    have hcv := canonPacket_valid p hpv
    have hr1 : decide (rest ≠ []) = false → msSerialize rest = [] := by
      intro h; have : rest = [] := by simpa using h
      rw [this]; rfl
    have hr2 : decide (rest ≠ []) = false → msSerialize (rest.map fun p => canonPacket p.toc p.frames) = [] := by
      intro h; have : rest = [] := by simpa using h
      rw [this]; rfl
    have hsd2 : decide (rest.map (fun p => canonPacket p.toc p.frames) ≠ []) = decide (rest ≠ []) := by simp
    have hsd : decide (rest.length ≠ 0) = decide (rest ≠ []) := by simp
    rw [List.map_cons, msSerialize_cons, msSerialize_cons, hsd2]
    simp only [List.length_cons, msValidate]
    rw [hsd]
    generalize decide (rest ≠ []) = sd at hr1 hr2
    have hp1 := parse_complete sd p hpv _ hr1
    have hp2 := parse_complete sd _ hcv _ hr2
    have hpos1 := serialize_length_pos sd p
    have hpos2 := serialize_length_pos sd (canonPacket p.toc p.frames)
    rw [if_neg (by rw [List.length_append]; omega), if_neg (by rw [List.length_append]; omega), hp1, hp2]
    simp only []
    have hpo1 : (view sd p).packetOffset = (serialize sd p).length := rfl
    have hpo2 : (view sd (canonPacket p.toc p.frames)).packetOffset = (serialize sd (canonPacket p.toc p.frames)).length := rfl
    rw [hpo1, hpo2, List.take_left, List.take_left, List.drop_left, List.drop_left]
    have hnb : nbSamples (serialize sd (canonPacket p.toc p.frames)) fs = nbSamples (serialize sd p) fs := by
      unfold nbSamples; rw [getNbSamples_canon sd p hpv]
    rw [hnb]
    split
    · rfl
    · exact ih (fun q hq => hv q (by simp [hq])) false _

/-- `opus_multistream_decode_native` (C01's `msDecodeFull`) on a multistream packet and on its unpadded form. -/
theorem msDecodeFull_unpad (os1 os2 : Nat → Oracle) (l : Layout.ChannelLayout) (Fs : Int) (sts : List DecState)
    (ps : List Packet) (hne : ps ≠ []) (hv : ∀ p ∈ ps, Valid p) (hn : ps.length = l.nbStreams)
    (hos : ∀ i, i < ps.length → OracleShift (os1 i) (os2 i) (firstShift (ps.drop i)))
    (frame_size fec : Int) (sc : Bool) :
    OutRel (msDecodeFull os1 l Fs sts (msSerialize ps) (msSerialize ps).length frame_size fec sc)
           (msDecodeFull os2 l Fs sts (msSerialize (ps.map fun p => canonPacket p.toc p.frames))
              (msSerialize (ps.map fun p => canonPacket p.toc p.frames)).length frame_size fec sc) := by
  have hcv : ∀ q ∈ ps.map (fun p => canonPacket p.toc p.frames), Valid q := by
    intro q hq
    simp only [List.mem_map] at hq
    obtain ⟨p, hp, rfl⟩ := hq
    exact canonPacket_valid p (hv p hp)
  have hge1 := Opus.Layout.msSerialize_length_ge ps hne hv
  have hge2 := Opus.Layout.msSerialize_length_ge (ps.map fun p => canonPacket p.toc p.frames) (by simpa using hne) hcv
  rw [← msSerialize_eq_layout] at hge1 hge2
  rw [List.length_map] at hge2
  have hpos : 0 < ps.length := List.length_pos_iff.mpr hne
  have hrefl := accRel_refl ⟨[], [], [], [], []⟩
  unfold msDecodeFull
  by_cases h1 : frame_size ≤ 0
  · rw [if_pos h1, if_pos h1]; exact hrefl.out _ _
  have c0a : ¬ (((msSerialize ps).length : Int) < 0) := by omega
  have c0b : ¬ (((msSerialize (ps.map fun p => canonPacket p.toc p.frames)).length : Int) < 0) := by omega
  rw [if_neg h1, if_neg h1, if_neg c0a, if_neg c0b]
  have hlz1 : ¬ ((msSerialize ps).length : Int) = 0 := by omega
  have hlz2 : ¬ ((msSerialize (ps.map fun p => canonPacket p.toc p.frames)).length : Int) = 0 := by omega
  simp only [hlz1, hlz2, decide_false, Bool.false_eq_true, not_false_eq_true, true_and, Int.toNat_natCast, List.take_length]
  have c1 : ¬ (((msSerialize ps).length : Int) < 2 * (l.nbStreams : Int) - 1) := by omega
  have c2 : ¬ (((msSerialize (ps.map fun p => canonPacket p.toc p.frames)).length : Int) < 2 * (l.nbStreams : Int) - 1) := by omega
  rw [if_neg c1, if_neg c2]
  rw [← hn, msValidate_canon Fs ps hv true 0]
  split
  · exact hrefl.out _ _
  · split
    · exact hrefl.out _ _
    · exact msFullLoop_unpad os1 os2 l fec sc _ sts ps 0 _ _ _ hv (fun _ => by omega)
        (fun i hi => by simpa using hos i hi) hrefl

end Opus.RepackProofs
