import OpusProofs.Ctl
/-
  OpusProofs.CtlRanges — 32-bit range lemmas for the integer arithmetic of the ctl layer and of
  the budget computation at the head of opus_encode_native: on the legal domain every
  intermediate value the C code forms fits `int` / `opus_int32`, so the unbounded-`Int` model and
  the C code agree (helper lemmas of property C11).
-/
namespace Opus.Ctl
open Opus Opus.EncDecide

/-- Representable as a C `int` / `opus_int32`. -/
def I32 (x : Int) : Prop := -2147483648 ≤ x ∧ x ≤ 2147483647

/-! ### Setters and getters -/

/-- OPUS_SET_BITRATE (opus_encoder.c:2668-2677, opus_multistream_encoder.c:1124-1130): the clamp
    bounds `300000*channels`, `500*nb_channels` fit for every legal channel count. -/
theorem bitrate_clamp_no_overflow (channels nbChannels : Int) (hc : channels = 1 ∨ channels = 2)
    (hn : 1 ≤ nbChannels ∧ nbChannels ≤ 255) :
    I32 (300000 * channels) ∧ I32 (300000 * nbChannels) ∧ I32 (500 * nbChannels) := by
  unfold I32; omega

/-- Everything `user_bitrate_to_bitrate(st, frame_size, max_data_bytes)` computes
    (opus_encoder.c:686-695), listed. -/
def bitrateIntermediates (s : DSt) (frameSize maxDataBytes : Int) : List Int :=
  let fz := if frameSize = 0 then s.fs / 400 else frameSize
  [s.fs / 400, 60 * s.fs, 60 * s.fs / fz, s.fs * s.channels, 60 * s.fs / fz + s.fs * s.channels,
   maxDataBytes * 8, maxDataBytes * 8 * s.fs, maxDataBytes * 8 * s.fs / fz, userBitrateToBitrate s frameSize maxDataBytes]

/-- OPUS_GET_BITRATE / the encoder's own call: for a legal rate, 1–2 channels, `frame_size` zero
    (before the first frame) or one of the nine Opus durations, `0 ≤ max_data_bytes ≤ 1276` and a
    stored bit-rate in its `CtlInv` range, nothing overflows and the result is in (0, 4083200]. -/
theorem user_bitrate_no_overflow (s : DSt) (hfs : s.fs ∈ rates) (hch : s.channels = 1 ∨ s.channels = 2)
    (hbr : s.userBitrate = -1000 ∨ s.userBitrate = -1 ∨ (500 ≤ s.userBitrate ∧ s.userBitrate ≤ 300000 * s.channels))
    (frameSize maxDataBytes : Int) (hf : frameSize = 0 ∨ frameSize ∈ apiSizes s.fs) (hm : 0 ≤ maxDataBytes ∧ maxDataBytes ≤ 1276) :
    (∀ x ∈ bitrateIntermediates s frameSize maxDataBytes, I32 x) ∧
    0 ≤ userBitrateToBitrate s frameSize maxDataBytes ∧ userBitrateToBitrate s frameSize maxDataBytes ≤ 4083200 := by
  simp only [rates, List.mem_cons, List.mem_nil_iff, or_false] at hfs
  simp only [apiSizes, List.mem_cons, List.mem_nil_iff, or_false] at hf
  unfold bitrateIntermediates userBitrateToBitrate I32
  consts
  simp only [List.mem_cons, List.mem_nil_iff, or_false, forall_eq_or_imp, forall_eq]
  generalize s.fs = fs at *
  generalize s.channels = ch at *
  generalize s.userBitrate = ub at *
  rcases hfs with rfl | rfl | rfl | rfl | rfl <;>
    rcases hf with h | h | h | h | h | h | h | h | h | h <;>
    ((try simp only [Int.reduceDiv, Int.reduceMul] at h); subst h; (try simp only [Int.reduceDiv, Int.reduceMul, Int.reduceEq, ite_true, ite_false, reduceIte])) <;>
    (refine ⟨⟨?_, ?_, ?_, ?_, ?_, ?_, ?_, ?_, ?_⟩, ?_, ?_⟩ <;> (try split) <;> (try split) <;> omega)

end Opus.Ctl
