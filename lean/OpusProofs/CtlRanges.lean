import OpusProofs.Ctl
import OpusProofs.EncDecideHonour
/-
  OpusProofs.CtlRanges — 32-bit range lemmas for the integer arithmetic of the ctl layer and of
  the budget computation at the head of opus_encode_native: on the legal domain every
  intermediate value the C code forms fits `int` / `opus_int32`, so the unbounded-`Int` model and
  the C code agree (helper lemmas of property C11).
-/
namespace Opus.Ctl
open Opus Opus.EncDecide

/-- Representable as a C `int` / `opus_int32`. -/
def I32 (x : Int) : Prop := -2147483648 ≤ x ∧ x ≤ 2147483647

/-! ### Setters and getters -/

/-- OPUS_SET_BITRATE (opus_encoder.c:2668-2677, opus_multistream_encoder.c:1124-1130): the clamp
    bounds `300000*channels`, `500*nb_channels` fit for every legal channel count. -/
theorem bitrate_clamp_no_overflow (channels nbChannels : Int) (hc : channels = 1 ∨ channels = 2)
    (hn : 1 ≤ nbChannels ∧ nbChannels ≤ 255) :
    I32 (300000 * channels) ∧ I32 (300000 * nbChannels) ∧ I32 (500 * nbChannels) := by
  unfold I32; omega

/-- Everything `user_bitrate_to_bitrate(st, frame_size, max_data_bytes)` computes
    (opus_encoder.c:686-695), listed. -/
def bitrateIntermediates (s : DSt) (frameSize maxDataBytes : Int) : List Int :=
  let fz := if frameSize = 0 then s.fs / 400 else frameSize
  [s.fs / 400, 60 * s.fs, 60 * s.fs / fz, s.fs * s.channels, 60 * s.fs / fz + s.fs * s.channels,
   maxDataBytes * 8, maxDataBytes * 8 * s.fs, maxDataBytes * 8 * s.fs / fz, userBitrateToBitrate s frameSize maxDataBytes]

/-- OPUS_GET_BITRATE / the encoder's own call: for a legal rate, 1–2 channels, `frame_size` zero
    (before the first frame) or one of the nine Opus durations, `0 ≤ max_data_bytes ≤ 1276` and a
    stored bit-rate in its `CtlInv` range, nothing overflows and the result is in (0, 4083200]. -/
theorem user_bitrate_no_overflow (s : DSt) (hfs : s.fs ∈ rates) (hch : s.channels = 1 ∨ s.channels = 2)
    (hbr : s.userBitrate = -1000 ∨ s.userBitrate = -1 ∨ (500 ≤ s.userBitrate ∧ s.userBitrate ≤ 300000 * s.channels))
    (frameSize maxDataBytes : Int) (hf : frameSize = 0 ∨ frameSize ∈ apiSizes s.fs) (hm : 0 ≤ maxDataBytes ∧ maxDataBytes ≤ 1276) :
    (∀ x ∈ bitrateIntermediates s frameSize maxDataBytes, I32 x) ∧
    0 ≤ userBitrateToBitrate s frameSize maxDataBytes ∧ userBitrateToBitrate s frameSize maxDataBytes ≤ 4083200 := by
  simp only [rates, List.mem_cons, List.mem_nil_iff, or_false] at hfs
  simp only [apiSizes, List.mem_cons, List.mem_nil_iff, or_false] at hf
  unfold bitrateIntermediates userBitrateToBitrate I32
  consts
  simp only [List.mem_cons, List.mem_nil_iff, or_false, forall_eq_or_imp, forall_eq]
  generalize s.fs = fs at *
  generalize s.channels = ch at *
  generalize s.userBitrate = ub at *
  rcases hfs with rfl | rfl | rfl | rfl | rfl <;>
    rcases hf with h | h | h | h | h | h | h | h | h | h <;>
    ((try simp only [Int.reduceDiv, Int.reduceMul] at h); subst h; (try simp only [Int.reduceDiv, Int.reduceMul, Int.reduceEq, ite_true, ite_false, reduceIte])) <;>
    (refine ⟨⟨?_, ?_, ?_, ?_, ?_, ?_, ?_, ?_, ?_⟩, ?_, ?_⟩ <;> (try split) <;> (try split) <;> omega)

/-! ### The byte / bit budget at the head of opus_encode_native (:1154-1334) -/

/-- Every value :1249-1268 and :1334 compute from the bit-rate, listed (`out` = out_data_bytes). -/
def budgetIntermediates (s : DSt) (f out : Int) : List Int :=
  let maxDataBytes := min 1276 out
  let bitrate := userBitrateToBitrate s f maxDataBytes
  let fr12 := 12 * s.fs / f
  let cbr := min ((12 * bitrate / 8 + fr12 / 2) / fr12) maxDataBytes
  let fr := s.fs / f
  [maxDataBytes, bitrate, 12 * s.fs, fr12, 12 * bitrate, 12 * bitrate / 8 + fr12 / 2, cbr, cbr * fr12,
   cbr * fr12 * 8, 3 * fr * 8, maxDataBytes * fr, fr * maxDataBytes * 8, fr * max 1 cbr * 8]

/-- The same list over plain integers (`fs`, `ch`, `ub` = Fs, channels, user_bitrate_bps). -/
def budgetList (fs ch ub f out : Int) : List Int :=
  let maxDataBytes := min 1276 out
  let bitrate := if ub = -1000 then 60 * fs / f + fs * ch else if ub = -1 then maxDataBytes * 8 * fs / f else ub
  let fr12 := 12 * fs / f
  let cbr := min ((12 * bitrate / 8 + fr12 / 2) / fr12) maxDataBytes
  let fr := fs / f
  [maxDataBytes, bitrate, 12 * fs, fr12, 12 * bitrate, 12 * bitrate / 8 + fr12 / 2, cbr, cbr * fr12,
   cbr * fr12 * 8, 3 * fr * 8, maxDataBytes * fr, fr * maxDataBytes * 8, fr * max 1 cbr * 8]

theorem budget_core_8000 (ch ub f out : Int) (hch : ch = 1 ∨ ch = 2)
    (hbr : ub = -1000 ∨ ub = -1 ∨ (500 ≤ ub ∧ ub ≤ 300000 * ch))
    (hf : f = 8000 / 400 ∨ f = 8000 / 200 ∨ f = 8000 / 100 ∨ f = 8000 / 50 ∨ f = 8000 / 25 ∨ f = 3 * 8000 / 50 ∨ f = 4 * 8000 / 50 ∨
          f = 5 * 8000 / 50 ∨ f = 6 * 8000 / 50) (hout : 0 < out ∧ out ≤ 2147483647) :
    ∀ x ∈ budgetList 8000 ch ub f out, I32 x := by
  unfold budgetList I32
  simp only [List.mem_cons, List.mem_nil_iff, or_false, forall_eq_or_imp, forall_eq]
  have hm : 0 < min 1276 out ∧ min 1276 out ≤ 1276 := by omega
  generalize min 1276 out = m at *
  rcases hf with h | h | h | h | h | h | h | h | h <;>
    ((try simp only [Int.reduceDiv, Int.reduceMul] at h); subst h; (try simp only [Int.reduceDiv, Int.reduceMul])) <;>
    (rcases hbr with hb | hb | hb) <;>
    (first
      | (subst hb; simp only [Int.reduceEq, Int.reduceNeg, ite_true, ite_false, reduceIte]; omega)
      | (have h1 : ¬ ub = -1000 := by omega
         have h2 : ¬ ub = -1 := by omega
         simp only [h1, h2, ite_false]; omega))

theorem budget_core_12000 (ch ub f out : Int) (hch : ch = 1 ∨ ch = 2)
    (hbr : ub = -1000 ∨ ub = -1 ∨ (500 ≤ ub ∧ ub ≤ 300000 * ch))
    (hf : f = 12000 / 400 ∨ f = 12000 / 200 ∨ f = 12000 / 100 ∨ f = 12000 / 50 ∨ f = 12000 / 25 ∨ f = 3 * 12000 / 50 ∨ f = 4 * 12000 / 50 ∨
          f = 5 * 12000 / 50 ∨ f = 6 * 12000 / 50) (hout : 0 < out ∧ out ≤ 2147483647) :
    ∀ x ∈ budgetList 12000 ch ub f out, I32 x := by
  unfold budgetList I32
  simp only [List.mem_cons, List.mem_nil_iff, or_false, forall_eq_or_imp, forall_eq]
  have hm : 0 < min 1276 out ∧ min 1276 out ≤ 1276 := by omega
  generalize min 1276 out = m at *
  rcases hf with h | h | h | h | h | h | h | h | h <;>
    ((try simp only [Int.reduceDiv, Int.reduceMul] at h); subst h; (try simp only [Int.reduceDiv, Int.reduceMul])) <;>
    (rcases hbr with hb | hb | hb) <;>
    (first
      | (subst hb; simp only [Int.reduceEq, Int.reduceNeg, ite_true, ite_false, reduceIte]; omega)
      | (have h1 : ¬ ub = -1000 := by omega
         have h2 : ¬ ub = -1 := by omega
         simp only [h1, h2, ite_false]; omega))

theorem budget_core_16000 (ch ub f out : Int) (hch : ch = 1 ∨ ch = 2)
    (hbr : ub = -1000 ∨ ub = -1 ∨ (500 ≤ ub ∧ ub ≤ 300000 * ch))
    (hf : f = 16000 / 400 ∨ f = 16000 / 200 ∨ f = 16000 / 100 ∨ f = 16000 / 50 ∨ f = 16000 / 25 ∨ f = 3 * 16000 / 50 ∨ f = 4 * 16000 / 50 ∨
          f = 5 * 16000 / 50 ∨ f = 6 * 16000 / 50) (hout : 0 < out ∧ out ≤ 2147483647) :
    ∀ x ∈ budgetList 16000 ch ub f out, I32 x := by
  unfold budgetList I32
  simp only [List.mem_cons, List.mem_nil_iff, or_false, forall_eq_or_imp, forall_eq]
  have hm : 0 < min 1276 out ∧ min 1276 out ≤ 1276 := by omega
  generalize min 1276 out = m at *
  rcases hf with h | h | h | h | h | h | h | h | h <;>
    ((try simp only [Int.reduceDiv, Int.reduceMul] at h); subst h; (try simp only [Int.reduceDiv, Int.reduceMul])) <;>
    (rcases hbr with hb | hb | hb) <;>
    (first
      | (subst hb; simp only [Int.reduceEq, Int.reduceNeg, ite_true, ite_false, reduceIte]; omega)
      | (have h1 : ¬ ub = -1000 := by omega
         have h2 : ¬ ub = -1 := by omega
         simp only [h1, h2, ite_false]; omega))

theorem budget_core_24000 (ch ub f out : Int) (hch : ch = 1 ∨ ch = 2)
    (hbr : ub = -1000 ∨ ub = -1 ∨ (500 ≤ ub ∧ ub ≤ 300000 * ch))
    (hf : f = 24000 / 400 ∨ f = 24000 / 200 ∨ f = 24000 / 100 ∨ f = 24000 / 50 ∨ f = 24000 / 25 ∨ f = 3 * 24000 / 50 ∨ f = 4 * 24000 / 50 ∨
          f = 5 * 24000 / 50 ∨ f = 6 * 24000 / 50) (hout : 0 < out ∧ out ≤ 2147483647) :
    ∀ x ∈ budgetList 24000 ch ub f out, I32 x := by
  unfold budgetList I32
  simp only [List.mem_cons, List.mem_nil_iff, or_false, forall_eq_or_imp, forall_eq]
  have hm : 0 < min 1276 out ∧ min 1276 out ≤ 1276 := by omega
  generalize min 1276 out = m at *
  rcases hf with h | h | h | h | h | h | h | h | h <;>
    ((try simp only [Int.reduceDiv, Int.reduceMul] at h); subst h; (try simp only [Int.reduceDiv, Int.reduceMul])) <;>
    (rcases hbr with hb | hb | hb) <;>
    (first
      | (subst hb; simp only [Int.reduceEq, Int.reduceNeg, ite_true, ite_false, reduceIte]; omega)
      | (have h1 : ¬ ub = -1000 := by omega
         have h2 : ¬ ub = -1 := by omega
         simp only [h1, h2, ite_false]; omega))

theorem budget_core_48000 (ch ub f out : Int) (hch : ch = 1 ∨ ch = 2)
    (hbr : ub = -1000 ∨ ub = -1 ∨ (500 ≤ ub ∧ ub ≤ 300000 * ch))
    (hf : f = 48000 / 400 ∨ f = 48000 / 200 ∨ f = 48000 / 100 ∨ f = 48000 / 50 ∨ f = 48000 / 25 ∨ f = 3 * 48000 / 50 ∨ f = 4 * 48000 / 50 ∨
          f = 5 * 48000 / 50 ∨ f = 6 * 48000 / 50) (hout : 0 < out ∧ out ≤ 2147483647) :
    ∀ x ∈ budgetList 48000 ch ub f out, I32 x := by
  unfold budgetList I32
  simp only [List.mem_cons, List.mem_nil_iff, or_false, forall_eq_or_imp, forall_eq]
  have hm : 0 < min 1276 out ∧ min 1276 out ≤ 1276 := by omega
  generalize min 1276 out = m at *
  rcases hf with h | h | h | h | h | h | h | h | h <;>
    ((try simp only [Int.reduceDiv, Int.reduceMul] at h); subst h; (try simp only [Int.reduceDiv, Int.reduceMul])) <;>
    (rcases hbr with hb | hb | hb) <;>
    (first
      | (subst hb; simp only [Int.reduceEq, Int.reduceNeg, ite_true, ite_false, reduceIte]; omega)
      | (have h1 : ¬ ub = -1000 := by omega
         have h2 : ¬ ub = -1 := by omega
         simp only [h1, h2, ite_false]; omega))

theorem budgetIntermediates_eq (s : DSt) (f out : Int) (hf0 : f ≠ 0) :
    budgetIntermediates s f out = budgetList s.fs s.channels s.userBitrate f out := by
  unfold budgetIntermediates budgetList userBitrateToBitrate
  consts
  simp only [hf0, ite_false]

/-- For a legal rate, 1–2 channels, a stored bit-rate in its `CtlInv` range, one of the nine Opus
    frame sizes and any positive `int` buffer size, no intermediate of the budget computation
    overflows (CBR and VBR alike). -/
theorem budget_no_overflow (s : DSt) (hfs : s.fs ∈ rates) (hch : s.channels = 1 ∨ s.channels = 2)
    (hbr : s.userBitrate = -1000 ∨ s.userBitrate = -1 ∨ (500 ≤ s.userBitrate ∧ s.userBitrate ≤ 300000 * s.channels))
    (f out : Int) (hf : f ∈ apiSizes s.fs) (hout : 0 < out ∧ out ≤ 2147483647) :
    ∀ x ∈ budgetIntermediates s f out, I32 x := by
  have hf0 : f ≠ 0 := by
    have := apiSizes_pos hfs hf; omega
  rw [budgetIntermediates_eq s f out hf0]
  simp only [rates, List.mem_cons, List.mem_nil_iff, or_false] at hfs
  simp only [apiSizes, List.mem_cons, List.mem_nil_iff, or_false] at hf
  generalize s.fs = fs at *
  rcases hfs with rfl | rfl | rfl | rfl | rfl
  · exact budget_core_8000 _ _ f out hch hbr hf hout
  · exact budget_core_12000 _ _ f out hch hbr hf hout
  · exact budget_core_16000 _ _ f out hch hbr hf hout
  · exact budget_core_24000 _ _ f out hch hbr hf hout
  · exact budget_core_48000 _ _ f out hch hbr hf hout

/-! ### frame_size_select (:768-796) -/

theorem fixedSize_bounds {vd fs : Int} (hfs : fs ∈ rates) (hvd : 5001 ≤ vd ∧ vd ≤ 5009) :
    0 < fixedSize vd fs ∧ fixedSize vd fs ≤ 5760 := by
  have ht := fixedTable_true
  simp only [fixedTable, List.all_eq_true, beq_iff_eq] at ht
  have hmem : vd ∈ ([5001, 5002, 5003, 5004, 5005, 5006, 5007, 5008, 5009] : List Int) := by
    simp only [List.mem_cons, List.mem_nil_iff, or_false]; omega
  have h := ht fs hfs vd hmem
  have hd : 1 ≤ durNum vd ∧ durNum vd ≤ 48 := by
    simp only [List.mem_cons, List.mem_nil_iff, or_false] at hmem
    rcases hmem with rfl | rfl | rfl | rfl | rfl | rfl | rfl | rfl | rfl <;> decide
  simp only [rates, List.mem_cons, List.mem_nil_iff, or_false] at hfs
  generalize durNum vd = d at *
  generalize fixedSize vd fs = x at *
  rcases hfs with rfl | rfl | rfl | rfl | rfl <;> omega

/-- The candidate frame size `frame_size_select` forms before it tests it. -/
def fssNew (frameSize vd fs : Int) : Int := if vd = 5000 then frameSize else fixedSize vd fs

/-- **For EVERY `int` frame_size** (since fix 212cbc41): for a legal rate and a frame-duration
    setting in its `CtlInv` range, the candidate fits `int`, and the products `400*new_size` … are
    formed only after `new_size ≤ frame_size` and `new_size ≤ 6*Fs/50` have been tested, where they
    fit.  Before the fix the second test was missing and `400 * 5368710` overflowed. -/
theorem frame_size_select_no_overflow (frameSize vd fs : Int) (hfs : fs ∈ rates) (hvd : 5000 ≤ vd ∧ vd ≤ 5009)
    (hf : I32 frameSize) :
    let n := fssNew frameSize vd fs
    I32 n ∧ I32 ((vd - 5001 - 2) * fs) ∧ I32 (6 * fs) ∧
    (fs / 400 ≤ frameSize → n ≤ frameSize → n ≤ 6 * fs / 50 →
      I32 (400 * n) ∧ I32 (200 * n) ∧ I32 (100 * n) ∧ I32 (50 * n) ∧ I32 (25 * n)) := by
  intro n
  have hn : (fs / 400 ≤ frameSize → 0 < n) ∧ I32 n := by
    show (fs / 400 ≤ frameSize → 0 < fssNew frameSize vd fs) ∧ I32 (fssNew frameSize vd fs)
    unfold fssNew I32
    unfold I32 at hf
    split
    · simp only [rates, List.mem_cons, List.mem_nil_iff, or_false] at hfs
      rcases hfs with rfl | rfl | rfl | rfl | rfl <;> omega
    · have := fixedSize_bounds (vd := vd) hfs (by omega); omega
  simp only [rates, List.mem_cons, List.mem_nil_iff, or_false] at hfs
  unfold I32 at hn ⊢
  refine ⟨hn.2, ?_, ?_, fun h1 _ h3 => ?_⟩ <;>
    (rcases hfs with rfl | rfl | rfl | rfl | rfl <;> omega)

/-! ### Other getters -/

/-- OPUS_GET_LOOKAHEAD (`Fs/400 + delay_compensation`, delay_compensation = Fs/250) and the
    projection demixing-matrix size (`channels·(streams+coupled)·2`, at most 255 channels). -/
theorem getter_arith_no_overflow (fs nbChannels nbStreams nbCoupled : Int) (hfs : fs ∈ rates)
    (hn : 1 ≤ nbChannels ∧ nbChannels ≤ 255) (hs : 0 ≤ nbStreams ∧ 0 ≤ nbCoupled ∧ nbStreams + nbCoupled ≤ 255) :
    I32 (fs / 400 + fs / 250) ∧ I32 (nbChannels * (nbStreams + nbCoupled)) ∧ I32 (nbChannels * (nbStreams + nbCoupled) * 2) := by
  simp only [rates, List.mem_cons, List.mem_nil_iff, or_false] at hfs
  have hp : 0 ≤ nbChannels * (nbStreams + nbCoupled) ∧ nbChannels * (nbStreams + nbCoupled) ≤ 255 * 255 := by
    constructor
    · exact Int.mul_nonneg (by omega) (by omega)
    · exact Int.mul_le_mul hn.2 hs.2.2 (by omega) (by omega)
  unfold I32
  generalize nbChannels * (nbStreams + nbCoupled) = p at *
  refine ⟨?_, by omega, by omega⟩
  rcases hfs with rfl | rfl | rfl | rfl | rfl <;> omega

end Opus.Ctl
