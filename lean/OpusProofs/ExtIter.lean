import OpusProofs.ExtSkip
/-
  C16 helper lemmas, part 2: the iterator invariant.  `Inv` holds after `iterInit` on any bytes and
  is preserved by `next`, `iterReset` and `iterSetFrameMax`; under it `next` never reads outside the
  buffer, never trips one of its two assertions, and reports only extensions inside the buffer that
  belong to existing frames.
-/
namespace Opus.ExtProofs
open Opus Opus.Ext

/-- `[a, b)` holds exactly one extension (ID byte, optional length bytes, payload) that is not a
    "repeat these extensions" indicator and does not extend to the end of the padding implicitly:
    `skip_extension` steps from `a` to `b` whenever at least `b - a` bytes are available. -/
def Good (d : Array Nat) (a b : Nat) : Prop :=
  a < b ∧ b ≤ d.size ∧ (∃ x, d[a]? = some x ∧ x / 2 ≠ 2) ∧
  ∀ len : Int, (b : Int) - a ≤ len → ∃ hs, skipExtension d a len = .ok (some (b, len - ((b : Int) - a), hs))

/-- `[a, b)` is a sequence of `Good` extensions (what the repeat mechanism replays). -/
inductive Seg (d : Array Nat) : Nat → Nat → Prop
  | nil (a : Nat) : Seg d a a
  | snoc {a b c : Nat} : Seg d a b → Good d b c → Seg d a c

theorem Seg.le {d : Array Nat} {a b : Nat} (h : Seg d a b) : a ≤ b := by
  induction h with
  | nil => exact Nat.le_refl _
  | snoc _ hg ih => have := hg.1; omega

theorem Seg.uncons {d : Array Nat} {a c : Nat} (h : Seg d a c) (hne : a ≠ c) :
    ∃ b, Good d a b ∧ Seg d b c := by
  induction h with
  | nil => exact absurd rfl hne
  | @snoc b c hs hg ih =>
    by_cases hab : a = b
    · subst hab; exact ⟨c, hg, Seg.nil c⟩
    · obtain ⟨m, hm, hseg⟩ := ih hab
      exact ⟨m, hm, Seg.snoc hseg hg⟩

/-- An extension reported by the iterator lies inside the buffer and belongs to an existing frame. -/
def ExtOk (it : Iter) (e : ExtRef) : Prop :=
  3 ≤ e.id ∧ e.id ≤ 127 ∧ e.frame < it.nbFrames ∧ 0 ≤ e.len ∧ (e.off : Int) + e.len ≤ it.len ∧
    (e.id < 32 → e.len ≤ 1)

def StepOk (it : Iter) : Step → Prop
  | .ext e => ExtOk it e
  | _ => True

/-- Fields that no iterator operation changes. -/
def Same (it it' : Iter) : Prop :=
  it'.data = it.data ∧ it'.len = it.len ∧ it'.nbFrames = it.nbFrames ∧ it'.frameMax = it.frameMax

theorem Same.refl (it : Iter) : Same it it := ⟨rfl, rfl, rfl, rfl⟩
theorem Same.trans {a b c : Iter} (h1 : Same a b) (h2 : Same b c) : Same a c :=
  ⟨h2.1.trans h1.1, h2.2.1.trans h1.2.1, h2.2.2.1.trans h1.2.2.1, h2.2.2.2.trans h1.2.2.2⟩

/-- The iterator invariant. -/
structure Inv (it : Iter) : Prop where
  len_eq : it.len = it.data.size
  bytes : ∀ (i x : Nat), it.data[i]? = some x → x < 256
  tsl : 0 ≤ it.tsl
  fmax : it.nbFrames = 0 → it.frameMax ≤ 0
  pos : (0 < it.currLen ∨ (0 < it.repeatFrame ∧ 0 ≤ it.currLen)) → (it.currData : Int) + it.currLen = it.len
  frame : 0 < it.currLen → it.currFrame < it.nbFrames ∨ it.nbFrames = 0
  seg : it.repeatFrame = 0 → 0 < it.currLen → Seg it.data it.repeatData it.currData
  rep : 0 < it.repeatFrame → 0 ≤ it.currLen →
    (∃ e : Nat, (e : Int) = it.srcData + it.srcLen ∧ Seg it.data it.srcData e) ∧
    (∃ e : Nat, (e : Int) = it.repeatData + it.repeatLen ∧ Seg it.data it.repeatData e)

theorem Seg.end_le {d : Array Nat} {a b : Nat} (h : Seg d a b) (ha : a ≤ d.size) : b ≤ d.size := by
  cases h with
  | nil => exact ha
  | snoc _ hg => exact hg.2.1

/-! ### The repeat block -/

theorem repeatBody_inv {it : Iter} (hI : Inv it) (hrf : 0 < it.repeatFrame) (hlt : it.repeatFrame < it.nbFrames)
    (hsl : 0 < it.srcLen) (hcl : 0 ≤ it.currLen) :
    ∃ r, repeatBody it = .ok r ∧
      match r with
      | .cont it1 => Inv it1 ∧ Same it it1 ∧ 0 ≤ it1.currLen ∧ it1.repeatFrame = it.repeatFrame
      | .ret it1 s => Inv it1 ∧ Same it it1 ∧ StepOk it1 s := by
  obtain ⟨⟨es, hes, hsegs⟩, hrepseg⟩ := hI.rep hrf hcl
  have hne : it.srcData ≠ es := by omega
  obtain ⟨m, hgood, hrest⟩ := hsegs.uncons hne
  obtain ⟨hlt1, hmsz, ⟨rb, hrb, hrb2⟩, hskip⟩ := hgood
  have hmle := hrest.le
  obtain ⟨hs0, hsk⟩ := hskip it.srcLen (by omega)
  have hpos := hI.pos (Or.inr ⟨hrf, hcl⟩)
  have hlen := hI.len_eq
  have hrb256 := hI.bytes _ _ hrb
  unfold repeatBody
  simp only [hrb, hsk]
  -- the state after the source side advanced
  have hInv1 : ∀ cl : Int, ∀ cp : Nat, cl ≤ it.currLen → (0 ≤ cl → (cp : Int) + cl = it.len) →
      Inv { it with srcData := m, srcLen := it.srcLen - ((m : Int) - it.srcData), currData := cp, currLen := cl } := by
    intro cl cp hle hp
    refine ⟨hI.len_eq, hI.bytes, hI.tsl, hI.fmax, ?_, ?_, ?_, ?_⟩
    · intro h; simp only at h ⊢; apply hp; omega
    · intro h
      simp only at h ⊢
      exact hI.frame (by omega) |>.elim Or.inl Or.inr
    · intro h; simp only at h; omega
    · intro _ _
      refine ⟨⟨es, ?_, hrest⟩, hrepseg⟩
      simp only; omega
  by_cases h3 : rb ≤ 3
  · simp only [h3, if_true]
    exact ⟨_, rfl, hInv1 it.currLen it.currData (Int.le_refl _) (fun _ => hpos), ⟨rfl, rfl, rfl, rfl⟩, hcl, rfl⟩
  · simp only [h3, if_false]
    generalize hrb' : (if it.repeatL = 0 ∧ it.repeatFrame + 1 ≥ it.nbFrames ∧ some m = it.lastLong
                       then rb - rb % 2 else rb) = rb'
    have hid : 3 ≤ rb' / 2 ∧ rb' / 2 ≤ 127 := by
      rw [← hrb']; split <;> omega
    obtain ⟨r, hr⟩ := skipPayload_ok it.data it.currData it.currLen rb' it.tsl (by omega)
    rw [hr]
    cases r with
    | none =>
      exact ⟨_, rfl, hInv1 (-1) it.currData (by omega) (fun h => by omega), ⟨rfl, rfl, rfl, rfl⟩, trivial⟩
    | some q =>
      obtain ⟨cp, cl, hs⟩ := q
      have hsp := skipPayload_spec hr
      have hcl' : 0 ≤ cl := hsp.2.1 hcl hI.tsl
      simp only
      have hassert : ¬ ((cp : Int) ≠ it.len - cl) := by omega
      simp only [hassert, if_false]
      have hI2 := hInv1 cl cp hsp.1 (fun _ => by omega)
      by_cases hfm : it.frameMax ≤ it.repeatFrame
      · simp only [hfm, if_true]
        exact ⟨_, rfl, hI2, ⟨rfl, rfl, rfl, rfl⟩, hcl', rfl⟩
      · simp only [hfm, if_false]
        refine ⟨_, rfl, hI2, ⟨rfl, rfl, rfl, rfl⟩, ?_⟩
        simp only [StepOk, ExtOk]
        refine ⟨hid.1, hid.2, hlt, ?_, ?_, ?_⟩
        · omega
        · omega
        · intro h32
          have := skipPayload_short hr (by omega) h32
          omega

theorem repeatEnd_inv {it : Iter} (hI : Inv it) (hcl : 0 ≤ it.currLen) :
    Inv (repeatEnd it) ∧ Same it (repeatEnd it) ∧ (repeatEnd it).repeatFrame = 0 ∧ 0 ≤ (repeatEnd it).currLen := by
  by_cases hl : it.repeatL = 0
  · by_cases hf : it.currFrame + 1 ≥ it.nbFrames
    · have e : repeatEnd it = { it with repeatData := it.currData, lastLong := none, currFrame := it.currFrame + 1, currLen := 0, repeatFrame := 0 } := by
        simp [repeatEnd, hl, hf]
      rw [e]
      refine ⟨⟨hI.len_eq, hI.bytes, hI.tsl, hI.fmax, ?_, ?_, ?_, ?_⟩, ⟨rfl, rfl, rfl, rfl⟩, rfl, Int.le_refl _⟩
      · intro h; simp only at h; omega
      · intro h; simp only at h; omega
      · intro _ _; exact Seg.nil _
      · intro h; simp only at h; omega
    · have e : repeatEnd it = { it with repeatData := it.currData, lastLong := none, currFrame := it.currFrame + 1, repeatFrame := 0 } := by
        simp [repeatEnd, hl, hf]
      rw [e]
      refine ⟨⟨hI.len_eq, hI.bytes, hI.tsl, hI.fmax, ?_, ?_, ?_, ?_⟩, ⟨rfl, rfl, rfl, rfl⟩, rfl, hcl⟩
      · intro h; simp only at h ⊢; exact hI.pos (Or.inl (by omega))
      · intro h; simp only at h ⊢; left; omega
      · intro _ _; exact Seg.nil _
      · intro h; simp only at h; omega
  · have e : repeatEnd it = { it with repeatData := it.currData, lastLong := none, repeatFrame := 0 } := by
      simp [repeatEnd, hl]
    rw [e]
    refine ⟨⟨hI.len_eq, hI.bytes, hI.tsl, hI.fmax, ?_, ?_, ?_, ?_⟩, ⟨rfl, rfl, rfl, rfl⟩, rfl, hcl⟩
    · intro h; simp only at h ⊢; exact hI.pos (Or.inl (by omega))
    · intro h; simp only at h ⊢; exact hI.frame h
    · intro _ _; exact Seg.nil _
    · intro h; simp only at h; omega

theorem repeatPhase_inv (it : Iter) : Inv it → 0 < it.repeatFrame → 0 ≤ it.currLen →
    ∃ it' s, repeatPhase it = .ok (it', s) ∧ Inv it' ∧ Same it it' ∧
      match s with
      | some st => StepOk it' st
      | none => it'.repeatFrame = 0 ∧ 0 ≤ it'.currLen := by
  fun_induction repeatPhase it with
  | case1 it hrf hsl it1 hb ih =>
    intro hI h0 hcl
    obtain ⟨r, hr, hprop⟩ := repeatBody_inv hI h0 hrf hsl hcl
    rw [hb] at hr; cases hr
    obtain ⟨hI1, hS1, hcl1, hrf1⟩ := hprop
    obtain ⟨it', s, h1, h2, h3, h4⟩ := ih hI1 (by omega) hcl1
    exact ⟨it', s, h1, h2, hS1.trans h3, h4⟩
  | case2 it hrf hsl it1 s1 hb =>
    intro hI h0 hcl
    obtain ⟨r, hr, hprop⟩ := repeatBody_inv hI h0 hrf hsl hcl
    rw [hb] at hr; cases hr
    obtain ⟨hI1, hS1, hst⟩ := hprop
    exact ⟨it1, some s1, rfl, hI1, hS1, hst⟩
  | case3 it hrf hsl e hb =>
    intro hI h0 hcl
    obtain ⟨r, hr, _⟩ := repeatBody_inv hI h0 hrf hsl hcl
    rw [hb] at hr; cases hr
  | case4 it hrf hsl hb =>
    intro hI h0 hcl
    obtain ⟨r, hr, _⟩ := repeatBody_inv hI h0 hrf hsl hcl
    rw [hb] at hr; cases hr
  | case5 it hrf hsl hb =>
    intro hI h0 hcl
    obtain ⟨r, hr, _⟩ := repeatBody_inv hI h0 hrf hsl hcl
    rw [hb] at hr; cases hr
  | case6 it hrf hsl ih =>
    intro hI h0 hcl
    obtain ⟨hsrc, hrep⟩ := hI.rep h0 hcl
    have hI' : Inv { it with srcData := it.repeatData, srcLen := it.repeatLen, repeatFrame := it.repeatFrame + 1 } := by
      refine ⟨hI.len_eq, hI.bytes, hI.tsl, hI.fmax, ?_, ?_, ?_, ?_⟩
      · intro _; exact hI.pos (Or.inr ⟨h0, hcl⟩)
      · exact hI.frame
      · intro h; simp only at h; omega
      · intro _ _; exact ⟨hrep, hrep⟩
    obtain ⟨it', s, h1, h2, h3, h4⟩ := ih hI' (by simp) hcl
    exact ⟨it', s, h1, h2, Same.trans ⟨rfl, rfl, rfl, rfl⟩ h3, h4⟩
  | case7 it hrf =>
    intro hI h0 hcl
    obtain ⟨h1, h2, h3, h4⟩ := repeatEnd_inv hI hcl
    exact ⟨_, none, rfl, h1, h2, h3, h4⟩

/-! ### The main loop -/

theorem mainBody_inv {it : Iter} (hI : Inv it) (hrf : it.repeatFrame = 0) (hcl : 0 < it.currLen)
    (hfr : it.currFrame < it.nbFrames) :
    ∃ r, mainBody it = .ok r ∧
      match r with
      | .cont it1 => Inv it1 ∧ Same it it1 ∧ it1.repeatFrame = 0 ∧ (0 < it1.currLen → it1.currFrame < it1.nbFrames)
      | .ret it1 s => Inv it1 ∧ Same it it1 ∧ StepOk it1 s
      | .rep it2 => Inv it2 ∧ Same it it2 ∧ 0 < it2.repeatFrame ∧ 0 ≤ it2.currLen := by
  have hpos := hI.pos (Or.inl hcl)
  have hlen := hI.len_eq
  have hseg := hI.seg hrf hcl
  obtain ⟨r, hr⟩ := skipExtension_ok it.data it.currData it.currLen (by omega)
  obtain ⟨b0, hb0⟩ := skipExtension_first hr hcl
  have hb256 := hI.bytes _ _ hb0
  unfold mainBody
  simp only [hb0, hr]
  cases r with
  | none =>
    refine ⟨_, rfl, ⟨hI.len_eq, hI.bytes, hI.tsl, hI.fmax, ?_, ?_, ?_, ?_⟩, ⟨rfl, rfl, rfl, rfl⟩, trivial⟩
    · intro h; simp only at h; omega
    · intro h; simp only at h; omega
    · intro _ h; simp only at h; omega
    · intro h; simp only at h; omega
  | some q =>
    obtain ⟨cp, cl, hs⟩ := q
    have hsp := skipExtension_spec hr
    have hcl1 : cl < it.currLen := hsp.2.1 hcl
    simp only
    have hassert : ¬ ((cp : Int) ≠ it.len - cl) := by omega
    simp only [hassert, if_false]
    -- the repeat region grows by the extension just skipped (when something follows it)
    have hgood : 0 < cl → b0 / 2 ≠ 2 → Good it.data it.currData cp := by
      intro hpos' hne
      refine ⟨by omega, by omega, ⟨b0, hb0, hne⟩, ?_⟩
      intro len hle
      exact ⟨hs, skipExtension_mono hr hpos' len hle⟩
    have hInvStep : ∀ (tsl' : Int) (ll : Option Nat), 0 ≤ tsl' → b0 / 2 ≠ 2 →
        Inv { it with currData := cp, currLen := cl, tsl := tsl', lastLong := ll } := by
      intro tsl' ll ht hne
      refine ⟨hI.len_eq, hI.bytes, ht, hI.fmax, ?_, ?_, ?_, ?_⟩
      · intro _; simp only; omega
      · intro _; exact Or.inl hfr
      · intro _ h; simp only at h ⊢; exact Seg.snoc hseg (hgood h hne)
      · intro h; simp only at h; omega
    by_cases hid1 : b0 / 2 = 1
    · simp only [hid1, if_true]
      by_cases hL : b0 % 2 = 1
      · -- separator with an explicit increment
        obtain ⟨h2, hcp⟩ := skipExtension_sep hr hcl hb0 hid1 hL
        have hin : it.currData + 1 < it.data.size := by omega
        have hget : it.data[it.currData + 1]? = some it.data[it.currData + 1] := by
          simp [hin]
        have hL0 : ¬ (b0 % 2 = 0) := by omega
        simp only [hget, Option.getD_some, hL0, reduceCtorEq, and_false, if_false]
        by_cases hinc : it.data[it.currData + 1] = 0
        · simp only [hinc, if_true]
          exact ⟨_, rfl, hInvStep it.tsl it.lastLong hI.tsl (by omega), ⟨rfl, rfl, rfl, rfl⟩, hrf, fun _ => hfr⟩
        · simp only [hinc, if_false]
          by_cases hnf : it.nbFrames ≤ it.currFrame + it.data[it.currData + 1]
          · simp only [hnf, if_true]
            refine ⟨_, rfl, ⟨hI.len_eq, hI.bytes, hI.tsl, hI.fmax, ?_, ?_, ?_, ?_⟩, ⟨rfl, rfl, rfl, rfl⟩, trivial⟩
            · intro h; simp only at h; omega
            · intro h; simp only at h; omega
            · intro _ h; simp only at h; omega
            · intro h; simp only at h; omega
          · simp only [hnf, if_false]
            refine ⟨_, rfl, ⟨hI.len_eq, hI.bytes, Int.le_refl _, hI.fmax, ?_, ?_, ?_, ?_⟩, ⟨rfl, rfl, rfl, rfl⟩, hrf, ?_⟩
            · intro h; simp only at h ⊢
              split at h <;> (try split) <;> omega
            · intro _; left; simp only; omega
            · intro _ _; exact Seg.nil _
            · intro h; simp only at h; omega
            · intro _; simp only; omega
      · -- separator, increment 1
        have hL0 : b0 % 2 = 0 := by omega
        simp only [hL0, if_true]
        have h10 : ¬ ((1 : Nat) = 0) := by omega
        simp only [h10, if_false]
        by_cases hnf : it.nbFrames ≤ it.currFrame + 1
        · simp only [hnf, if_true]
          refine ⟨_, rfl, ⟨hI.len_eq, hI.bytes, hI.tsl, hI.fmax, ?_, ?_, ?_, ?_⟩, ⟨rfl, rfl, rfl, rfl⟩, trivial⟩
          · intro h; simp only at h; omega
          · intro h; simp only at h; omega
          · intro _ h; simp only at h; omega
          · intro h; simp only at h; omega
        · simp only [hnf, if_false]
          refine ⟨_, rfl, ⟨hI.len_eq, hI.bytes, Int.le_refl _, hI.fmax, ?_, ?_, ?_, ?_⟩, ⟨rfl, rfl, rfl, rfl⟩, hrf, ?_⟩
          · intro h; simp only at h ⊢
            split at h <;> (try split) <;> omega
          · intro _; left; simp only; omega
          · intro _ _; exact Seg.nil _
          · intro h; simp only at h; omega
          · intro _; simp only; omega
    · simp only [hid1, if_false]
      by_cases hid2 : b0 / 2 = 2
      · -- repeat indicator
        simp only [hid2, if_true]
        have hle := hseg.le
        refine ⟨_, rfl, ⟨hI.len_eq, hI.bytes, hI.tsl, hI.fmax, ?_, ?_, ?_, ?_⟩, ⟨rfl, rfl, rfl, rfl⟩, ?_, ?_⟩
        · intro _; simp only; omega
        · intro _; exact Or.inl hfr
        · intro h; simp only at h; omega
        · intro _ _
          simp only
          exact ⟨⟨it.currData, by omega, hseg⟩, ⟨it.currData, by omega, hseg⟩⟩
        · simp only; omega
        · simp only; omega
      · simp only [hid2, if_false]
        by_cases hid3 : 2 < b0 / 2
        · simp only [hid3, if_true]
          have hext : ExtOk it { id := b0 / 2, frame := it.currFrame, off := it.currData + hs,
                                 len := (cp : Int) - it.currData - hs } := by
            refine ⟨?_, ?_, hfr, ?_, ?_, ?_⟩
            · simp only; omega
            · simp only; omega
            · simp only; omega
            · simp only; omega
            · simp only
              intro h32
              have := skipExtension_short hr hcl hb0 (by omega) h32
              omega
          by_cases h32 : 32 ≤ b0 / 2
          · simp only [h32, if_true]
            exact ⟨_, rfl, hInvStep 0 (some cp) (Int.le_refl _) hid2, ⟨rfl, rfl, rfl, rfl⟩, hext⟩
          · simp only [h32, if_false]
            exact ⟨_, rfl, hInvStep (it.tsl + (b0 % 2 : Nat)) it.lastLong (by have := hI.tsl; omega) hid2,
              ⟨rfl, rfl, rfl, rfl⟩, hext⟩
        · simp only [hid3, if_false]
          exact ⟨_, rfl, hInvStep it.tsl it.lastLong hI.tsl hid2, ⟨rfl, rfl, rfl, rfl⟩, hrf, fun _ => hfr⟩

/-- What `next` needs before it enters the main loop. -/
theorem frame_of_not_done {it : Iter} (hI : Inv it) (h : ¬ it.frameMax ≤ it.currFrame) (hcl : 0 < it.currLen) :
    it.currFrame < it.nbFrames := by
  rcases hI.frame hcl with h1 | h1
  · exact h1
  · have := hI.fmax h1; omega

theorem mainLoop_inv (it : Iter) : Inv it → it.repeatFrame = 0 → (0 < it.currLen → it.currFrame < it.nbFrames) →
    ∃ it' s, mainLoop it = .ok (it', s) ∧ Inv it' ∧ Same it it' ∧ StepOk it' s := by
  fun_induction mainLoop it with
  | case1 it hl it1 hb ih =>
    intro hI hrf hfr
    obtain ⟨r, hr, hprop⟩ := mainBody_inv hI hrf hl (hfr hl)
    rw [hb] at hr; cases hr
    obtain ⟨hI1, hS1, hrf1, hfr1⟩ := hprop
    obtain ⟨it', s, h1, h2, h3, h4⟩ := ih hI1 hrf1 hfr1
    exact ⟨it', s, h1, h2, hS1.trans h3, h4⟩
  | case2 it hl it1 s hb =>
    intro hI hrf hfr
    obtain ⟨r, hr, hprop⟩ := mainBody_inv hI hrf hl (hfr hl)
    rw [hb] at hr; cases hr
    exact ⟨it1, s, rfl, hprop.1, hprop.2.1, hprop.2.2⟩
  | case3 it hl it2 hb it3 s hrp =>
    intro hI hrf hfr
    obtain ⟨r, hr, hprop⟩ := mainBody_inv hI hrf hl (hfr hl)
    rw [hb] at hr; cases hr
    obtain ⟨hI2, hS2, hrf2, hcl2⟩ := hprop
    obtain ⟨it', s', h1, h2, h3, h4⟩ := repeatPhase_inv it2 hI2 hrf2 hcl2
    rw [hrp] at h1; cases h1
    exact ⟨it3, s, rfl, h2, hS2.trans h3, h4⟩
  | case4 it hl it2 hb it3 hrp hfm =>
    intro hI hrf hfr
    obtain ⟨r, hr, hprop⟩ := mainBody_inv hI hrf hl (hfr hl)
    rw [hb] at hr; cases hr
    obtain ⟨hI2, hS2, hrf2, hcl2⟩ := hprop
    obtain ⟨it', s', h1, h2, h3, h4⟩ := repeatPhase_inv it2 hI2 hrf2 hcl2
    rw [hrp] at h1; cases h1
    exact ⟨it3, .done, rfl, h2, hS2.trans h3, trivial⟩
  | case5 it hl it2 hb it3 hrp hfm ih =>
    intro hI hrf hfr
    obtain ⟨r, hr, hprop⟩ := mainBody_inv hI hrf hl (hfr hl)
    rw [hb] at hr; cases hr
    obtain ⟨hI2, hS2, hrf2, hcl2⟩ := hprop
    obtain ⟨it', s', h1, h2, h3, h4⟩ := repeatPhase_inv it2 hI2 hrf2 hcl2
    rw [hrp] at h1; cases h1
    obtain ⟨it'', s'', g1, g2, g3, g4⟩ := ih h2 h4.1 (frame_of_not_done h2 hfm)
    exact ⟨it'', s'', g1, g2, (hS2.trans h3).trans g3, g4⟩
  | case6 it hl it2 hb e hrp =>
    intro hI hrf hfr
    obtain ⟨r, hr, hprop⟩ := mainBody_inv hI hrf hl (hfr hl)
    rw [hb] at hr; cases hr
    obtain ⟨hI2, hS2, hrf2, hcl2⟩ := hprop
    obtain ⟨it', s', h1, _⟩ := repeatPhase_inv it2 hI2 hrf2 hcl2
    rw [hrp] at h1; cases h1
  | case7 it hl it2 hb hrp =>
    intro hI hrf hfr
    obtain ⟨r, hr, hprop⟩ := mainBody_inv hI hrf hl (hfr hl)
    rw [hb] at hr; cases hr
    obtain ⟨hI2, hS2, hrf2, hcl2⟩ := hprop
    obtain ⟨it', s', h1, _⟩ := repeatPhase_inv it2 hI2 hrf2 hcl2
    rw [hrp] at h1; cases h1
  | case8 it hl it2 hb hrp =>
    intro hI hrf hfr
    obtain ⟨r, hr, hprop⟩ := mainBody_inv hI hrf hl (hfr hl)
    rw [hb] at hr; cases hr
    obtain ⟨hI2, hS2, hrf2, hcl2⟩ := hprop
    obtain ⟨it', s', h1, _⟩ := repeatPhase_inv it2 hI2 hrf2 hcl2
    rw [hrp] at h1; cases h1
  | case9 it hl e hb =>
    intro hI hrf hfr
    obtain ⟨r, hr, _⟩ := mainBody_inv hI hrf hl (hfr hl)
    rw [hb] at hr; cases hr
  | case10 it hl hb =>
    intro hI hrf hfr
    obtain ⟨r, hr, _⟩ := mainBody_inv hI hrf hl (hfr hl)
    rw [hb] at hr; cases hr
  | case11 it hl hb =>
    intro hI hrf hfr
    obtain ⟨r, hr, _⟩ := mainBody_inv hI hrf hl (hfr hl)
    rw [hb] at hr; cases hr
  | case12 it hl =>
    intro hI _ _
    exact ⟨it, .done, rfl, hI, Same.refl it, trivial⟩

/-- `next` on a state satisfying the invariant: it returns (no out-of-bounds read, no assertion),
    the invariant holds again, and a reported extension is inside the buffer. -/
theorem next_inv {it : Iter} (hI : Inv it) :
    ∃ it' s, next it = .ok (it', s) ∧ Inv it' ∧ Same it it' ∧ StepOk it' s := by
  unfold next
  by_cases h0 : it.currLen < 0
  · simp only [h0, if_true]
    exact ⟨it, .invalid, rfl, hI, Same.refl it, trivial⟩
  · simp only [h0, if_false]
    by_cases hrf : 0 < it.repeatFrame
    · simp only [hrf, if_true]
      obtain ⟨it1, s1, h1, h2, h3, h4⟩ := repeatPhase_inv it hI hrf (by omega)
      rw [h1]
      cases s1 with
      | some st => exact ⟨it1, st, rfl, h2, h3, h4⟩
      | none =>
        simp only
        by_cases hfm : it1.frameMax ≤ it1.currFrame
        · simp only [hfm, if_true]
          exact ⟨it1, .done, rfl, h2, h3, trivial⟩
        · simp only [hfm, if_false]
          obtain ⟨it2, s2, g1, g2, g3, g4⟩ := mainLoop_inv it1 h2 h4.1 (frame_of_not_done h2 hfm)
          exact ⟨it2, s2, g1, g2, h3.trans g3, g4⟩
    · simp only [hrf, if_false]
      by_cases hfm : it.frameMax ≤ it.currFrame
      · simp only [hfm, if_true]
        exact ⟨it, .done, rfl, hI, Same.refl it, trivial⟩
      · simp only [hfm, if_false]
        exact mainLoop_inv it hI (by omega) (frame_of_not_done hI hfm)

/-! ### Establishing and keeping the invariant from the API -/

theorem iterInit_inv {d : Bytes} {len nbFrames : Int} {it : Iter} (hb : BytesOk d) (hl : len ≤ d.length)
    (h : iterInit d len nbFrames = .ok it) : Inv it ∧ it.len = len ∧ (it.nbFrames : Int) = nbFrames ∧
      it.data = (d.take len.toNat).toArray := by
  unfold iterInit at h
  split at h
  · simp at h
  · split at h
    · simp at h
    · simp only [Res.ok.injEq] at h
      subst h
      refine ⟨⟨?_, ?_, Int.le_refl _, ?_, ?_, ?_, ?_, ?_⟩, rfl, by simp only; omega, rfl⟩
      · simp only [List.size_toArray, List.length_take]; omega
      · intro i x hx
        simp only [List.getElem?_toArray] at hx
        have hm : x ∈ d.take len.toNat := List.mem_of_getElem? hx
        exact hb x (List.mem_of_mem_take hm)
      · intro h; simp only at h ⊢; omega
      · intro _; simp only; omega
      · intro h; simp only at h ⊢; omega
      · intro _ _; exact Seg.nil _
      · intro h; simp only at h; omega

theorem iterReset_inv {it : Iter} (hI : Inv it) : Inv (iterReset it) ∧ Same it (iterReset it) := by
  unfold iterReset
  refine ⟨⟨hI.len_eq, hI.bytes, Int.le_refl _, hI.fmax, ?_, ?_, ?_, ?_⟩, ⟨rfl, rfl, rfl, rfl⟩⟩
  · intro _; simp only; omega
  · intro _; simp only; omega
  · intro _ _; exact Seg.nil _
  · intro h; simp only at h; omega

theorem iterSetFrameMax_inv {it : Iter} (hI : Inv it) (k : Int) (hk : it.nbFrames = 0 → k ≤ 0) :
    Inv (iterSetFrameMax it k) :=
  ⟨hI.len_eq, hI.bytes, hI.tsl, hk, hI.pos, hI.frame, hI.seg, hI.rep⟩

/-! ### Reachable iterator states -/

/-- Iterator states a caller can produce on the padding bytes `d` of a packet with `nbFrames` frames:
    `init`, then any sequence of `next` / `reset` / `set_frame_max`. -/
inductive Reach (d : Bytes) (nbFrames : Nat) : Iter → Prop
  | init {it} : iterInit d d.length nbFrames = .ok it → Reach d nbFrames it
  | next {it it' s} : Reach d nbFrames it → Ext.next it = .ok (it', s) → Reach d nbFrames it'
  | reset {it} : Reach d nbFrames it → Reach d nbFrames (iterReset it)
  | setFrameMax {it} (k : Int) : Reach d nbFrames it → (nbFrames = 0 → k ≤ 0) →
      Reach d nbFrames (iterSetFrameMax it k)

theorem Reach.inv {d : Bytes} {nbFrames : Nat} (hb : BytesOk d) {it : Iter} (h : Reach d nbFrames it) :
    Inv it ∧ it.len = d.length ∧ it.nbFrames = nbFrames ∧ it.data = d.toArray := by
  induction h with
  | init h =>
    obtain ⟨h1, h2, h3, h4⟩ := iterInit_inv hb (Int.le_refl _) h
    refine ⟨h1, h2, by omega, ?_⟩
    rw [h4]; simp
  | next _ hn ih =>
    obtain ⟨it1, s1, g1, g2, g3, _⟩ := next_inv ih.1
    rw [hn] at g1; cases g1
    exact ⟨g2, by rw [g3.2.1]; exact ih.2.1, by rw [g3.2.2.1]; exact ih.2.2.1, by rw [g3.1]; exact ih.2.2.2⟩
  | reset _ ih => exact ⟨(iterReset_inv ih.1).1, ih.2.1, ih.2.2.1, ih.2.2.2⟩
  | setFrameMax k _ hk ih =>
    exact ⟨iterSetFrameMax_inv ih.1 k (by intro h; exact hk (by rw [← ih.2.2.1]; exact h)), ih.2.1, ih.2.2.1, ih.2.2.2⟩

end Opus.ExtProofs
