import OpusProofs.Ctl
/-
  OpusProofs.CtlObjects — decoder, multistream and projection ctl state machines and the
  create/init argument validation of every object kind (helper lemmas of property C11).
-/
namespace Opus.Ctl
open Opus Opus.EncDecide

/-! ## Decoder -/

/-- Documented legal values of the decoder setters (opus_defines.h: OPUS_SET_GAIN is Q8 dB in
    [-32768, 32767]; complexity 0..10; phase inversion 0/1). -/
def DecLegal : DecSetK → Int → Prop
  | .complexity, v => 0 ≤ v ∧ v ≤ 10
  | .gain, v => -32768 ≤ v ∧ v ≤ 32767
  | .phaseInversionDisabled, v => 0 ≤ v ∧ v ≤ 1

def decReadGetter : DecSetK → DecGetK
  | .complexity => .complexity | .gain => .gain | .phaseInversionDisabled => .phaseInversionDisabled

theorem decSet_isSome_iff (s : DecSt) (k : DecSetK) (v : Int) : (decSet s k v).isSome ↔ DecLegal k v := by
  cases k <;> simp only [decSet, DecLegal] <;> split <;> simp <;> omega

theorem decCtl_set_get (s : DecSt) (k : DecSetK) (v : Int) (h : DecLegal k v) :
    ∃ s', decCtl s (.set k v) = (s', .ok) ∧ decCtl s' (.get (decReadGetter k) true) = (s', .okv v) := by
  cases k <;> simp only [DecLegal] at h <;> simp only [decCtl, decSet]
  · rw [if_neg (by omega)]; exact ⟨_, rfl, rfl⟩
  · rw [if_neg (by omega)]; exact ⟨_, rfl, rfl⟩
  · rw [if_neg (by omega)]; exact ⟨_, rfl, rfl⟩

theorem decCtl_error_unchanged (s : DecSt) (r : DecReq) (h : (decCtl s r).2.code ≠ 0) :
    (decCtl s r).1 = s ∧
    (((decCtl s r).2 = .err .badArg ∧ ((∃ k v, r = .set k v ∧ ¬ DecLegal k v) ∨ ∃ k, r = .get k false)) ∨
     ((decCtl s r).2 = .err .unimplemented ∧ ∃ id, r = .unknown id)) := by
  cases r with
  | set k v =>
    by_cases hl : DecLegal k v
    · obtain ⟨s', h2, _⟩ := decCtl_set_get s k v hl
      rw [h2] at h; simp [Ret.ok] at h
    · have hn : decSet s k v = none := by
        have := decSet_isSome_iff s k v
        cases hd : decSet s k v with
        | none => rfl
        | some x => rw [hd] at this; exact absurd (this.mp rfl) hl
      have e : decCtl s (.set k v) = (s, .err .badArg) := by simp [decCtl, hn]
      rw [e]
      exact ⟨rfl, Or.inl ⟨rfl, Or.inl ⟨k, v, rfl, hl⟩⟩⟩
  | get k nn =>
    cases nn
    · exact ⟨rfl, Or.inl ⟨rfl, Or.inr ⟨k, rfl⟩⟩⟩
    · simp [decCtl, Ret.okv] at h
  | resetState => simp [decCtl, Ret.ok] at h
  | unknown id => exact ⟨rfl, Or.inr ⟨rfl, id, rfl⟩⟩

structure DecInv (s : DecSt) : Prop where
  fs : validFs s.fs = true
  ch : s.channels = 1 ∨ s.channels = 2
  gain : -32768 ≤ s.decodeGain ∧ s.decodeGain ≤ 32767
  complexity : 0 ≤ s.complexity ∧ s.complexity ≤ 10 ∧ s.celtComplexity = s.complexity
  inv : s.celtDisableInv = 0 ∨ s.celtDisableInv = 1

theorem decInit_inv {fs ch : Int} (h : decArgsOk fs ch = true) : DecInv (decInit fs ch) := by
  simp only [decArgsOk, Bool.and_eq_true, Bool.or_eq_true, decide_eq_true_eq] at h
  obtain ⟨h1, h2⟩ := h
  constructor <;> simp only [decInit] <;> first | assumption | omega | (simp; done) | (split <;> simp)

theorem decCtl_inv {s : DecSt} (hi : DecInv s) (r : DecReq) : DecInv (decCtl s r).1 := by
  obtain ⟨h1, h2, h3, h4, h5⟩ := hi
  cases r with
  | set k v =>
    cases k <;> simp only [decCtl, decSet] <;> split <;> first | exact ⟨h1, h2, h3, h4, h5⟩ | (constructor <;> inv_close)
  | get k nn => cases nn <;> exact ⟨h1, h2, h3, h4, h5⟩
  | resetState => simp only [decCtl, decReset]; constructor <;> inv_close
  | unknown id => exact ⟨h1, h2, h3, h4, h5⟩

theorem decAdopt_inv {s : DecSt} (hi : DecInv s) (o : DecObs) : DecInv (decAdopt s o) := by
  obtain ⟨h1, h2, h3, h4, h5⟩ := hi
  simp only [decAdopt]; constructor <;> inv_close

/-! ## Create / init argument validation -/

theorem encCreate_spec (fs ch app : Int) (allocOk : Bool) :
    (encArgsOk fs ch app = false → encCreate fs ch app allocOk = .err .badArg) ∧
    (encArgsOk fs ch app = true → allocOk = false → encCreate fs ch app allocOk = .err .allocFail) ∧
    (encArgsOk fs ch app = true → allocOk = true → encCreate fs ch app allocOk = .ok (encInit fs ch app)) := by
  unfold encCreate
  refine ⟨?_, ?_, ?_⟩ <;> intro h <;> simp [h]

theorem decArgsOk_iff (fs ch : Int) : decArgsOk fs ch = true ↔
    (fs = 8000 ∨ fs = 12000 ∨ fs = 16000 ∨ fs = 24000 ∨ fs = 48000) ∧ (ch = 1 ∨ ch = 2) := by
  simp only [decArgsOk, validFs, Bool.and_eq_true, Bool.or_eq_true, decide_eq_true_eq]
  omega

theorem decCreate_spec (fs ch : Int) (allocOk : Bool) :
    (decArgsOk fs ch = false → decCreate fs ch allocOk = .err .badArg) ∧
    (decArgsOk fs ch = true → allocOk = false → decCreate fs ch allocOk = .err .allocFail) ∧
    (decArgsOk fs ch = true → allocOk = true → decCreate fs ch allocOk = .ok (decInit fs ch)) := by
  unfold decCreate
  refine ⟨?_, ?_, ?_⟩ <;> intro h <;> simp [h]

/-- What a multistream encoder accepts (opus_multistream_encoder.c:429-495, :585-621): the counts,
    a mapping into the decoded channels in which every stream has its input, a legal rate and
    application. -/
def MsEncArgsLegal (fs channels streams coupled : Int) (mapping : List Nat) (app : Int) : Prop :=
  1 ≤ channels ∧ channels ≤ 255 ∧ 1 ≤ streams ∧ 0 ≤ coupled ∧ coupled ≤ streams ∧ streams + coupled ≤ 255 ∧
  streams + coupled ≤ channels ∧
  validateLayout channels streams coupled mapping = true ∧ validateEncoderLayout channels streams coupled mapping = true ∧
  (fs = 8000 ∨ fs = 12000 ∨ fs = 16000 ∨ fs = 24000 ∨ fs = 48000) ∧ (app = 2048 ∨ app = 2049 ∨ app = 2051)

theorem msEncArgsOk_iff (channels streams coupled : Int) : msEncArgsOk channels streams coupled = true ↔
    (1 ≤ channels ∧ channels ≤ 255 ∧ 1 ≤ streams ∧ 0 ≤ coupled ∧ coupled ≤ streams ∧ streams + coupled ≤ 255 ∧
     streams + coupled ≤ channels) := by
  simp only [msEncArgsOk, Bool.not_eq_true', decide_eq_false_iff_not]
  omega

theorem validFsApp_iff (fs app : Int) : (validFs fs && validApp app) = true ↔
    (fs = 8000 ∨ fs = 12000 ∨ fs = 16000 ∨ fs = 24000 ∨ fs = 48000) ∧ (app = 2048 ∨ app = 2049 ∨ app = 2051) := by
  simp only [validFs, validApp, Bool.and_eq_true, Bool.or_eq_true, decide_eq_true_eq]
  consts
  omega

/-- `opus_multistream_encoder_create` succeeds iff the arguments are legal and the allocation
    succeeds; illegal arguments give OPUS_BAD_ARG, a failed allocation OPUS_ALLOC_FAIL. -/
theorem msEncCreate_spec (fs channels streams coupled : Int) (mapping : List Nat) (app : Int) (allocOk : Bool) :
    (¬ MsEncArgsLegal fs channels streams coupled mapping app →
        msEncCreate fs channels streams coupled mapping app allocOk = .err .badArg ∨
        (msEncArgsOk channels streams coupled = true ∧ allocOk = false ∧
         msEncCreate fs channels streams coupled mapping app allocOk = .err .allocFail)) ∧
    (MsEncArgsLegal fs channels streams coupled mapping app → allocOk = false →
        msEncCreate fs channels streams coupled mapping app allocOk = .err .allocFail) ∧
    (MsEncArgsLegal fs channels streams coupled mapping app → allocOk = true →
        ∃ s, msEncCreate fs channels streams coupled mapping app allocOk = .ok s) := by
  unfold MsEncArgsLegal
  have hA := msEncArgsOk_iff channels streams coupled
  have hF := validFsApp_iff fs app
  refine ⟨?_, ?_, ?_⟩
  · intro hn
    unfold msEncCreate msEncInit
    by_cases h1 : msEncArgsOk channels streams coupled = true
    · by_cases ha : allocOk = true
      · left
        subst ha
        simp only [h1, Bool.not_true, Bool.false_eq_true, ite_false]
        by_cases h2 : validateLayout channels streams coupled mapping = true
        · by_cases h3 : validateEncoderLayout channels streams coupled mapping = true
          · have h4 : ¬ ((validFs fs && validApp app) = true) := by
              intro h4; exact hn ⟨(hA.mp h1).1, (hA.mp h1).2.1, (hA.mp h1).2.2.1, (hA.mp h1).2.2.2.1, (hA.mp h1).2.2.2.2.1,
                (hA.mp h1).2.2.2.2.2.1, (hA.mp h1).2.2.2.2.2.2, h2, h3, (hF.mp h4).1, (hF.mp h4).2⟩
            simp [h2, h3, h4]
          · simp [h2, h3]
        · simp [h2]
      · right
        have : allocOk = false := by cases allocOk <;> simp_all
        subst this
        exact ⟨h1, rfl, by simp [h1]⟩
    · left; simp [h1]
  · intro ⟨a1, a2, a3, a4, a5, a6, a7, a8, a9, a10, a11⟩ ha
    have h1 := hA.mpr ⟨a1, a2, a3, a4, a5, a6, a7⟩
    subst ha
    simp [msEncCreate, h1]
  · intro ⟨a1, a2, a3, a4, a5, a6, a7, a8, a9, a10, a11⟩ ha
    have h1 := hA.mpr ⟨a1, a2, a3, a4, a5, a6, a7⟩
    have h4 := hF.mpr ⟨a10, a11⟩
    subst ha
    simp [msEncCreate, msEncInit, h1, a8, a9, h4]

theorem msDecCreate_spec (fs channels streams coupled : Int) (mapping : List Nat) (allocOk : Bool) :
    let legal := 1 ≤ channels ∧ channels ≤ 255 ∧ 1 ≤ streams ∧ 0 ≤ coupled ∧ coupled ≤ streams ∧ streams + coupled ≤ 255 ∧
                 validateLayout channels streams coupled mapping = true ∧
                 (fs = 8000 ∨ fs = 12000 ∨ fs = 16000 ∨ fs = 24000 ∨ fs = 48000)
    (legal → allocOk = true → ∃ s, msDecCreate fs channels streams coupled mapping allocOk = .ok s) ∧
    (¬ legal → msDecCreate fs channels streams coupled mapping allocOk = .err .badArg ∨
               msDecCreate fs channels streams coupled mapping allocOk = .err .allocFail) ∧
    (allocOk = false → ∀ s, msDecCreate fs channels streams coupled mapping allocOk ≠ .ok s) := by
  intro legal
  have hA : msDecArgsOk channels streams coupled = true ↔
      (1 ≤ channels ∧ channels ≤ 255 ∧ 1 ≤ streams ∧ 0 ≤ coupled ∧ coupled ≤ streams ∧ streams + coupled ≤ 255) := by
    simp only [msDecArgsOk, Bool.not_eq_true', decide_eq_false_iff_not]; omega
  have hF : validFs fs = true ↔ (fs = 8000 ∨ fs = 12000 ∨ fs = 16000 ∨ fs = 24000 ∨ fs = 48000) := by
    simp only [validFs, Bool.or_eq_true, decide_eq_true_eq]; omega
  refine ⟨?_, ?_, ?_⟩
  · intro ⟨a1, a2, a3, a4, a5, a6, a7, a8⟩ ha
    subst ha
    simp [msDecCreate, hA.mpr ⟨a1, a2, a3, a4, a5, a6⟩, a7, hF.mpr a8]
  · intro hn
    unfold msDecCreate
    by_cases h1 : msDecArgsOk channels streams coupled = true
    · cases allocOk
      · right; simp [h1]
      · left
        by_cases h2 : validateLayout channels streams coupled mapping = true
        · have h3 : ¬ validFs fs = true := by
            intro h3
            obtain ⟨a1, a2, a3, a4, a5, a6⟩ := hA.mp h1
            exact hn ⟨a1, a2, a3, a4, a5, a6, h2, hF.mp h3⟩
          simp [h1, h2, h3]
        · simp [h1, h2]
    · left; simp [h1]
  · intro ha s
    subst ha
    unfold msDecCreate
    by_cases h1 : msDecArgsOk channels streams coupled = true <;> simp [h1]

end Opus.Ctl
