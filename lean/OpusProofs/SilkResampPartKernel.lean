import OpusProofs.SilkResampPartDown
/-
  OpusProofs.SilkResampPartKernel — from the loops to the kernel calls and to silk_resampler: on a whole number of
  milliseconds a call equals the batch loop run once over the whole delayed stream, hence chunk invariance.
-/
namespace OpusProofs.SilkResamp
open Opus Opus.SilkResamp Opus.SilkParams Opus.Gen.SilkResampRom

theorem kernel_iir_explicit (T : RS) (xs : List Int) (hfn : T.cfg.fn = useIIRFIR) (hf : T.sFIR.length = 36)
    (hinv : 0 < T.cfg.invRatio) (hb2 : T.cfg.batchSize ≤ 480) :
    ∃ q, iirLp T.cfg (T.sIIR, T.sFIR.take 8) xs = .ok q ∧ q.1.2.length = 8 ∧
      kernel T xs = .ok ({ T with sIIR := q.1.1, sFIR := q.1.2 ++ T.sFIR.drop 8 }, q.2) := by
  have ht : (T.sFIR.take 8).length = 8 := by rw [List.length_take]; omega
  obtain ⟨S', head', outs, hl, hl8, _, _⟩ := iirFirLoop_ok T.cfg hinv hb2 xs.length xs T.sIIR (T.sFIR.take 8)
    (Nat.le_refl _) ht
  refine ⟨((S', head'), outs), ?_, hl8, ?_⟩
  · unfold iirLp
    rw [if_pos ht]
    show (iirFirLoop T.cfg T.sIIR (T.sFIR.take 8) xs).bind _ = _
    rw [hl]; rfl
  · unfold kernel
    rw [if_neg (by rw [hfn]; decide), if_pos hfn]
    have hw : window T.sFIR 0 orderFir12 = .ok (T.sFIR.take 8) := by
      rw [window_ok (by omega) (by rw [hf]; decide)]; rfl
    have hb : blit T.sFIR 0 head' = .ok (head' ++ T.sFIR.drop 8) := by
      unfold blit
      rw [if_pos (by omega), hl8]
      simp only [List.take_zero, List.nil_append, Nat.zero_add]
    simp only [hw, hl, hb, Res.bind_ok]
    rfl

theorem kernel_dn_explicit (T : RS) (xs : List Int) (a0 a1 : Int) (rest : List Int)
    (hfn : T.cfg.fn = useDownFIR) (hf : T.sFIR.length = 36)
    (hinv : 0 < T.cfg.invRatio) (hb2 : T.cfg.batchSize ≤ 480) (hco : coefsOf T.cfg.coefId = a0 :: a1 :: rest)
    (hdc : DownCfg T.cfg (a0 :: a1 :: rest)) (hord : T.cfg.firOrder ≤ 36) :
    ∃ q, dnLp T.cfg a0 a1 rest (T.sIIR.s0, T.sIIR.s1, T.sFIR.take T.cfg.firOrder) xs = .ok q ∧
      q.1.2.2.length = T.cfg.firOrder ∧
      kernel T xs = .ok ({ T with sIIR := { T.sIIR with s0 := q.1.1, s1 := q.1.2.1 },
                                  sFIR := q.1.2.2 ++ T.sFIR.drop T.cfg.firOrder }, q.2) := by
  have ht : (T.sFIR.take T.cfg.firOrder).length = T.cfg.firOrder := by rw [List.length_take]; omega
  obtain ⟨t0, t1, head', outs, hl, hl8, _, _⟩ := downFirLoop_ok T.cfg a0 a1 rest hinv hb2 hdc xs.length xs
    T.sIIR.s0 T.sIIR.s1 (T.sFIR.take T.cfg.firOrder) (Nat.le_refl _) ht
  refine ⟨((t0, t1, head'), outs), ?_, hl8, ?_⟩
  · unfold dnLp
    rw [if_pos ht]
    show (downFirLoop T.cfg (a0 :: a1 :: rest) T.sIIR.s0 T.sIIR.s1 (T.sFIR.take T.cfg.firOrder) xs).bind _ = _
    rw [hl]; rfl
  · unfold kernel
    rw [if_neg (by rw [hfn]; decide), if_neg (by rw [hfn]; decide), if_pos hfn, hco]
    have hw : window T.sFIR 0 T.cfg.firOrder = .ok (T.sFIR.take T.cfg.firOrder) := by
      rw [window_ok (by omega) (by rw [hf]; simpa using hord)]; rfl
    have hb : blit T.sFIR 0 head' = .ok (head' ++ T.sFIR.drop T.cfg.firOrder) := by
      unfold blit
      rw [if_pos (by omega), hl8]
      simp only [List.take_zero, List.nil_append, Nat.zero_add]
    simp only [hw, hl, hb, Res.bind_ok]
    rfl

theorem stream_length (S : RS) (xs : List Int) (hd : S.cfg.inputDelay ≤ 48) (hdl : S.delayBuf.length = 48)
    (hx : S.cfg.inputDelay ≤ xs.length) : (stream S xs).length = xs.length := by
  simp only [stream, List.length_append, List.length_take]; omega

/-- IIR_FIR: a call on a whole number of milliseconds = the batch loop run once over the delayed stream. -/
theorem resampler_iir (S : RS) (xs : List Int) (hI : Inv S) (hfn : S.cfg.fn = useIIRFIR) (k : Nat) (hk : 1 ≤ k)
    (hx : xs.length = k * S.cfg.fsIn) :
    ∃ q db', iirLp S.cfg (S.sIIR, S.sFIR.take 8) (stream S xs) = .ok q ∧ q.1.2.length = 8 ∧
      resampler S xs = .ok ({ S with sIIR := q.1.1, sFIR := q.1.2 ++ S.sFIR.drop 8, delayBuf := db' }, q.2) := by
  have hc := cfgTable_facts _ hI.cfg
  simp only [cfgFacts, Bool.and_eq_true, decide_eq_true_eq] at hc
  obtain ⟨⟨⟨⟨⟨⟨⟨h1, h2⟩, h3⟩, h4⟩, h5⟩, _⟩, _⟩, _⟩ := hc
  have hpf := cfgTable_iirPartFacts _ hI.cfg
  have hfl : S.sFIR.length = 36 := hI.fir
  have hdl : S.delayBuf.length = 48 := hI.dbuf
  have hb2 : S.cfg.batchSize ≤ 480 := by omega
  have hlen : S.cfg.fsIn ≤ xs.length := by
    have := Nat.mul_le_mul_right S.cfg.fsIn hk; rw [Nat.one_mul] at this; omega
  have hsl := stream_length S xs (by omega) hdl (by omega)
  rw [resampler_via_stream S xs h3 h2 hdl hlen]
  have hD : (dbufAfterCopy S xs).length = 48 := by
    simp only [dbufAfterCopy, List.length_append, List.length_take, List.length_drop]; omega
  obtain ⟨q0, hq0, hq08, hk0⟩ := kernel_iir_explicit { S with delayBuf := dbufAfterCopy S xs }
    ((stream S xs).take S.cfg.fsIn) hfn hfl h5 hb2
  have hT1f : (q0.1.2 ++ S.sFIR.drop 8).length = 36 := by rw [List.length_append, List.length_drop]; omega
  obtain ⟨q1, hq1, hq18, hk1⟩ := kernel_iir_explicit
    { S with sIIR := q0.1.1, sFIR := q0.1.2 ++ S.sFIR.drop 8, delayBuf := dbufAfterCopy S xs }
    ((stream S xs).drop S.cfg.fsIn) hfn hT1f h5 hb2
  have htk : (q0.1.2 ++ S.sFIR.drop 8).take 8 = q0.1.2 := by
    rw [List.take_append_of_le_length (by omega), List.take_of_length_le (by omega)]
  have hdk : (q0.1.2 ++ S.sFIR.drop 8).drop 8 = S.sFIR.drop 8 := by
    rw [List.drop_append_of_le_length (by omega), List.drop_of_length_le (by omega), List.nil_append]
  dsimp only at hq0 hk0 hq1 hk1
  rw [htk] at hq1
  rw [hdk] at hk1
  obtain ⟨db2, hb2e, _, _⟩ := blit_ok (l := dbufAfterCopy S xs) (src := xs.drop (xs.length - S.cfg.inputDelay)) (off := 0)
    (by rw [List.length_drop]; omega)
  refine ⟨(q1.1, q0.2 ++ q1.2), db2, ?_, hq18, ?_⟩
  · have hs0 : ((stream S xs).take S.cfg.fsIn).length = 1 * S.cfg.fsIn := by rw [List.length_take]; omega
    have hs1 : ((stream S xs).drop S.cfg.fsIn).length = (k - 1) * S.cfg.fsIn := by
      rw [List.length_drop, hsl, hx, Nat.sub_mul, Nat.one_mul]
    have := iirLp_append S.cfg hfn hpf h5 h4 h1 h2 1 (k - 1) (S.sIIR, S.sFIR.take 8) _ _ hs0 hs1
    rw [List.take_append_drop] at this
    rw [this]
    simp only [seq2, hq0, Res.bind]
    have e : q0.1 = (q0.1.1, q0.1.2) := rfl
    rw [e, hq1]
  · rw [hk0]
    simp only [Res.bind]
    rw [hk1]
    simp only [Res.bind, hb2e]

theorem down_cfg_of_facts (c : Cfg) (hc : cfgFacts c = true) (hfn : c.fn = useDownFIR) :
    DownCfg c (coefsOf c.coefId) ∧ c.firOrder ≤ 36 ∧ ∃ a0 a1 rest, coefsOf c.coefId = a0 :: a1 :: rest := by
  simp only [cfgFacts, Bool.and_eq_true, Bool.or_eq_true, decide_eq_true_eq, beq_iff_eq] at hc
  obtain ⟨_, hfn'⟩ := hc
  have hdown : (c.firOrder = 18 ∧ (coefsOf c.coefId).length = 2 + 9 * c.firFracs.toNat ∧ 0 < c.firFracs ∧ c.firFracs ≤ 3) ∨
      (c.firOrder = 24 ∧ (coefsOf c.coefId).length = 14) ∨ (c.firOrder = 36 ∧ (coefsOf c.coefId).length = 20) := by
    rcases hfn' with ((⟨h, _⟩ | ⟨h, _⟩) | h) | ⟨_, hd⟩
    · rw [hfn] at h; exact absurd h (by decide)
    · rw [hfn] at h; exact absurd h (by decide)
    · rw [hfn] at h; exact absurd h (by decide)
    · rcases hd with (⟨⟨⟨ho, hl⟩, hf0⟩, hf1⟩ | ⟨ho, hl⟩) | ⟨ho, hl⟩
      · exact Or.inl ⟨ho, hl, hf0, hf1⟩
      · exact Or.inr (Or.inl ⟨ho, hl⟩)
      · exact Or.inr (Or.inr ⟨ho, hl⟩)
  refine ⟨hdown, ?_, ?_⟩
  · rcases hdown with ⟨ho, _⟩ | ⟨ho, _⟩ | ⟨ho, _⟩ <;> omega
  · exact two_le_length (by rcases hdown with ⟨_, hl, _⟩ | ⟨_, hl⟩ | ⟨_, hl⟩ <;> omega)

/-- down_FIR: a call on a whole number of milliseconds = the batch loop run once over the delayed stream. -/
theorem resampler_dn (S : RS) (xs : List Int) (a0 a1 : Int) (rest : List Int) (hI : Inv S)
    (hfn : S.cfg.fn = useDownFIR) (hco : coefsOf S.cfg.coefId = a0 :: a1 :: rest) (k : Nat) (hk : 1 ≤ k)
    (hx : xs.length = k * S.cfg.fsIn) :
    ∃ q db', dnLp S.cfg a0 a1 rest (S.sIIR.s0, S.sIIR.s1, S.sFIR.take S.cfg.firOrder) (stream S xs) = .ok q ∧
      q.1.2.2.length = S.cfg.firOrder ∧
      resampler S xs = .ok ({ S with sIIR := { S.sIIR with s0 := q.1.1, s1 := q.1.2.1 },
                                     sFIR := q.1.2.2 ++ S.sFIR.drop S.cfg.firOrder, delayBuf := db' }, q.2) := by
  have hcf := cfgTable_facts _ hI.cfg
  obtain ⟨hdc, hord, _⟩ := down_cfg_of_facts _ hcf hfn
  rw [hco] at hdc
  have hc := hcf
  simp only [cfgFacts, Bool.and_eq_true, decide_eq_true_eq] at hc
  obtain ⟨⟨⟨⟨⟨⟨⟨h1, h2⟩, h3⟩, h4⟩, h5⟩, _⟩, _⟩, _⟩ := hc
  have hpf := cfgTable_dnPartFacts _ hI.cfg
  have hms := cfgTable_msFacts _ hI.cfg
  simp only [msFacts, Bool.and_eq_true, decide_eq_true_eq] at hms
  have h1' : 1 < S.cfg.fsIn := hms.1.1.2
  have hfl : S.sFIR.length = 36 := hI.fir
  have hdl : S.delayBuf.length = 48 := hI.dbuf
  have hb2 : S.cfg.batchSize ≤ 480 := by omega
  have hlen : S.cfg.fsIn ≤ xs.length := by
    have := Nat.mul_le_mul_right S.cfg.fsIn hk; rw [Nat.one_mul] at this; omega
  have hsl := stream_length S xs (by omega) hdl (by omega)
  rw [resampler_via_stream S xs h3 h2 hdl hlen]
  have hD : (dbufAfterCopy S xs).length = 48 := by
    simp only [dbufAfterCopy, List.length_append, List.length_take, List.length_drop]; omega
  obtain ⟨q0, hq0, hq08, hk0⟩ := kernel_dn_explicit { S with delayBuf := dbufAfterCopy S xs }
    ((stream S xs).take S.cfg.fsIn) a0 a1 rest hfn hfl h5 hb2 hco hdc hord
  have hT1f : (q0.1.2.2 ++ S.sFIR.drop S.cfg.firOrder).length = 36 := by
    rw [List.length_append, List.length_drop]; dsimp only at hq08; omega
  obtain ⟨q1, hq1, hq18, hk1⟩ := kernel_dn_explicit
    { S with sIIR := { S.sIIR with s0 := q0.1.1, s1 := q0.1.2.1 }, sFIR := q0.1.2.2 ++ S.sFIR.drop S.cfg.firOrder,
             delayBuf := dbufAfterCopy S xs }
    ((stream S xs).drop S.cfg.fsIn) a0 a1 rest hfn hT1f h5 hb2 hco hdc hord
  dsimp only at hq0 hq08 hk0 hq1 hq18 hk1
  have htk : (q0.1.2.2 ++ S.sFIR.drop S.cfg.firOrder).take S.cfg.firOrder = q0.1.2.2 := by
    rw [List.take_append_of_le_length (by omega), List.take_of_length_le (by omega)]
  have hdk : (q0.1.2.2 ++ S.sFIR.drop S.cfg.firOrder).drop S.cfg.firOrder = S.sFIR.drop S.cfg.firOrder := by
    rw [List.drop_append_of_le_length (by omega), List.drop_of_length_le (by omega), List.nil_append]
  rw [htk] at hq1
  rw [hdk] at hk1
  obtain ⟨db2, hb2e, _, _⟩ := blit_ok (l := dbufAfterCopy S xs) (src := xs.drop (xs.length - S.cfg.inputDelay)) (off := 0)
    (by rw [List.length_drop]; omega)
  refine ⟨(q1.1, q0.2 ++ q1.2), db2, ?_, hq18, ?_⟩
  · have hs0 : ((stream S xs).take S.cfg.fsIn).length = 1 * S.cfg.fsIn := by rw [List.length_take]; omega
    have hs1 : ((stream S xs).drop S.cfg.fsIn).length = (k - 1) * S.cfg.fsIn := by
      rw [List.length_drop, hsl, hx, Nat.sub_mul, Nat.one_mul]
    have := dnLp_append S.cfg a0 a1 rest hfn hpf h5 h4 h1' h2 1 (k - 1)
      (S.sIIR.s0, S.sIIR.s1, S.sFIR.take S.cfg.firOrder) _ _ hs0 hs1
    rw [List.take_append_drop] at this
    rw [this]
    simp only [seq2, hq0, Res.bind]
    have e : q0.1 = (q0.1.1, q0.1.2.1, q0.1.2.2) := rfl
    rw [e, hq1]
  · rw [hk0]
    simp only [Res.bind]
    rw [hk1]
    simp only [Res.bind, hb2e]

/-- What chunk invariance says. -/
def ChunkInv (S : RS) (a b : List Int) : Prop :=
  ∃ S1 o1 S2 o2 S12 o12, resampler S a = .ok (S1, o1) ∧ resampler S1 b = .ok (S2, o2) ∧
    resampler S (a ++ b) = .ok (S12, o12) ∧ o12 = o1 ++ o2 ∧ S12.cfg = S2.cfg ∧ S12.sIIR = S2.sIIR ∧
    S12.sFIR = S2.sFIR ∧ S12.delayBuf.take S.cfg.inputDelay = S2.delayBuf.take S.cfg.inputDelay

theorem drop_tail_append (a b : List Int) (d : Nat) (hb : d ≤ b.length) :
    (a ++ b).drop ((a ++ b).length - d) = b.drop (b.length - d) := by
  rw [List.length_append]
  have e : a.length + b.length - d = a.length + (b.length - d) := by omega
  rw [e, List.drop_append, List.drop_of_length_le (l := a) (by omega), List.nil_append]
  congr 1; omega

theorem chunk_iir (S : RS) (a b : List Int) (hI : Inv S) (hfn : S.cfg.fn = useIIRFIR) (ka kb : Nat)
    (hka : 1 ≤ ka) (hkb : 1 ≤ kb) (ha : a.length = ka * S.cfg.fsIn) (hb : b.length = kb * S.cfg.fsIn)
    (hxa : ∀ v ∈ a, I16 v) (hxb : ∀ v ∈ b, I16 v) : ChunkInv S a b := by
  have hc := cfgTable_facts _ hI.cfg
  simp only [cfgFacts, Bool.and_eq_true, decide_eq_true_eq] at hc
  obtain ⟨⟨⟨⟨⟨⟨⟨h1, h2⟩, h3⟩, h4⟩, h5⟩, _⟩, _⟩, _⟩ := hc
  have hpf := cfgTable_iirPartFacts _ hI.cfg
  have hla : S.cfg.fsIn ≤ a.length := by
    have := Nat.mul_le_mul_right S.cfg.fsIn hka; rw [Nat.one_mul] at this; omega
  have hlb : S.cfg.fsIn ≤ b.length := by
    have := Nat.mul_le_mul_right S.cfg.fsIn hkb; rw [Nat.one_mul] at this; omega
  obtain ⟨qa, dba, hqa, hqa8, hra⟩ := resampler_iir S a hI hfn ka hka ha
  obtain ⟨S1', o1', hr1, hI1, _, _, _⟩ := resampler_ok S a hI hla hxa
  rw [hra] at hr1
  injection hr1 with hr1
  injection hr1 with hS1 ho1
  rw [← hS1] at hI1
  have hd1 := resampler_dbuf S a hI hla hxa _ hra
  obtain ⟨qb, dbb, hqb, hqb8, hrb⟩ := resampler_iir _ b hI1 hfn kb hkb hb
  have hd2 := resampler_dbuf _ b hI1 hlb hxb _ hrb
  obtain ⟨qab, dbab, hqab, _, hrab⟩ := resampler_iir S (a ++ b) hI hfn (ka + kb) (by omega)
    (by rw [List.length_append, ha, hb, Nat.add_mul])
  have hd12 := resampler_dbuf S (a ++ b) hI (by rw [List.length_append]; omega)
    (by intro v hv; rcases List.mem_append.1 hv with h | h; exact hxa v h; exact hxb v h) _ hrab
  dsimp only at hqb hqb8 hrb hd1 hd2 hd12
  have hsc := stream_concat S { S with sIIR := qa.1.1, sFIR := qa.1.2 ++ S.sFIR.drop 8, delayBuf := dba } a b rfl hd1
    (by omega) (by omega)
  have htk : (qa.1.2 ++ S.sFIR.drop 8).take 8 = qa.1.2 := by
    rw [List.take_append_of_le_length (by omega), List.take_of_length_le (by omega)]
  have hdk : (qa.1.2 ++ S.sFIR.drop 8).drop 8 = S.sFIR.drop 8 := by
    rw [List.drop_append_of_le_length (by omega), List.drop_of_length_le (by omega), List.nil_append]
  rw [htk] at hqb
  rw [hdk] at hrb
  have hsa := stream_length S a (by omega) hI.dbuf (by omega)
  have hsb := stream_length { S with sIIR := qa.1.1, sFIR := qa.1.2 ++ S.sFIR.drop 8, delayBuf := dba } b
    (by show S.cfg.inputDelay ≤ 48; omega) hI1.dbuf (by show S.cfg.inputDelay ≤ b.length; omega)
  have happ := iirLp_append S.cfg hfn hpf h5 h4 h1 h2 ka kb (S.sIIR, S.sFIR.take 8) _ _ (hsa.trans ha) (hsb.trans hb)
  rw [← hsc, hqab] at happ
  simp only [seq2, hqa, Res.bind] at happ
  have e : qa.1 = (qa.1.1, qa.1.2) := rfl
  rw [e, hqb] at happ
  simp only [Res.bind] at happ
  injection happ with happ
  refine ⟨_, _, _, _, _, _, hra, hrb, hrab, ?_, rfl, ?_, ?_, ?_⟩
  · rw [happ]
  · show qab.1.1 = qb.1.1
    rw [happ]
  · show qab.1.2 ++ S.sFIR.drop 8 = qb.1.2 ++ S.sFIR.drop 8
    rw [happ]
  · show dbab.take S.cfg.inputDelay = dbb.take S.cfg.inputDelay
    rw [hd12, hd2, drop_tail_append a b _ (by omega)]

theorem chunk_dn (S : RS) (a b : List Int) (hI : Inv S) (hfn : S.cfg.fn = useDownFIR) (ka kb : Nat)
    (hka : 1 ≤ ka) (hkb : 1 ≤ kb) (ha : a.length = ka * S.cfg.fsIn) (hb : b.length = kb * S.cfg.fsIn)
    (hxa : ∀ v ∈ a, I16 v) (hxb : ∀ v ∈ b, I16 v) : ChunkInv S a b := by
  have hcf := cfgTable_facts _ hI.cfg
  obtain ⟨hdc, hord, a0, a1, rest, hco⟩ := down_cfg_of_facts _ hcf hfn
  have hc := hcf
  simp only [cfgFacts, Bool.and_eq_true, decide_eq_true_eq] at hc
  obtain ⟨⟨⟨⟨⟨⟨⟨h1, h2⟩, h3⟩, h4⟩, h5⟩, _⟩, _⟩, _⟩ := hc
  have hpf := cfgTable_dnPartFacts _ hI.cfg
  have hms := cfgTable_msFacts _ hI.cfg
  simp only [msFacts, Bool.and_eq_true, decide_eq_true_eq] at hms
  have h1' : 1 < S.cfg.fsIn := hms.1.1.2
  have hfl : S.sFIR.length = 36 := hI.fir
  have hla : S.cfg.fsIn ≤ a.length := by
    have := Nat.mul_le_mul_right S.cfg.fsIn hka; rw [Nat.one_mul] at this; omega
  have hlb : S.cfg.fsIn ≤ b.length := by
    have := Nat.mul_le_mul_right S.cfg.fsIn hkb; rw [Nat.one_mul] at this; omega
  obtain ⟨qa, dba, hqa, hqa8, hra⟩ := resampler_dn S a a0 a1 rest hI hfn hco ka hka ha
  obtain ⟨S1', o1', hr1, hI1, _, _, _⟩ := resampler_ok S a hI hla hxa
  rw [hra] at hr1
  injection hr1 with hr1
  injection hr1 with hS1 ho1
  rw [← hS1] at hI1
  have hd1 := resampler_dbuf S a hI hla hxa _ hra
  obtain ⟨qb, dbb, hqb, hqb8, hrb⟩ := resampler_dn _ b a0 a1 rest hI1 hfn hco kb hkb hb
  have hd2 := resampler_dbuf _ b hI1 hlb hxb _ hrb
  obtain ⟨qab, dbab, hqab, _, hrab⟩ := resampler_dn S (a ++ b) a0 a1 rest hI hfn hco (ka + kb) (by omega)
    (by rw [List.length_append, ha, hb, Nat.add_mul])
  have hd12 := resampler_dbuf S (a ++ b) hI (by rw [List.length_append]; omega)
    (by intro v hv; rcases List.mem_append.1 hv with h | h; exact hxa v h; exact hxb v h) _ hrab
  dsimp only at hqb hqb8 hrb hd1 hd2 hd12
  have hsc := stream_concat S
    { S with sIIR := { S.sIIR with s0 := qa.1.1, s1 := qa.1.2.1 }, sFIR := qa.1.2.2 ++ S.sFIR.drop S.cfg.firOrder,
             delayBuf := dba } a b rfl hd1 (by omega) (by omega)
  have htk : (qa.1.2.2 ++ S.sFIR.drop S.cfg.firOrder).take S.cfg.firOrder = qa.1.2.2 := by
    rw [List.take_append_of_le_length (by omega), List.take_of_length_le (by omega)]
  have hdk : (qa.1.2.2 ++ S.sFIR.drop S.cfg.firOrder).drop S.cfg.firOrder = S.sFIR.drop S.cfg.firOrder := by
    rw [List.drop_append_of_le_length (by omega), List.drop_of_length_le (by omega), List.nil_append]
  rw [htk] at hqb
  rw [hdk] at hrb
  have hsa := stream_length S a (by omega) hI.dbuf (by omega)
  have hsb := stream_length
    { S with sIIR := { S.sIIR with s0 := qa.1.1, s1 := qa.1.2.1 }, sFIR := qa.1.2.2 ++ S.sFIR.drop S.cfg.firOrder,
             delayBuf := dba } b
    (by show S.cfg.inputDelay ≤ 48; omega) hI1.dbuf (by show S.cfg.inputDelay ≤ b.length; omega)
  have happ := dnLp_append S.cfg a0 a1 rest hfn hpf h5 h4 h1' h2 ka kb
    (S.sIIR.s0, S.sIIR.s1, S.sFIR.take S.cfg.firOrder) _ _ (hsa.trans ha) (hsb.trans hb)
  rw [← hsc, hqab] at happ
  simp only [seq2, hqa, Res.bind] at happ
  have e : qa.1 = (qa.1.1, qa.1.2.1, qa.1.2.2) := rfl
  rw [e, hqb] at happ
  simp only [Res.bind] at happ
  injection happ with happ
  refine ⟨_, _, _, _, _, _, hra, hrb, hrab, ?_, rfl, ?_, ?_, ?_⟩
  · rw [happ]
  · show ({ S.sIIR with s0 := qab.1.1, s1 := qab.1.2.1 } : IIR) = { S.sIIR with s0 := qb.1.1, s1 := qb.1.2.1 }
    rw [happ]
  · show qab.1.2.2 ++ S.sFIR.drop S.cfg.firOrder = qb.1.2.2 ++ S.sFIR.drop S.cfg.firOrder
    rw [happ]
  · show dbab.take S.cfg.inputDelay = dbb.take S.cfg.inputDelay
    rw [hd12, hd2, drop_tail_append a b _ (by omega)]

/-- Chunk invariance of silk_resampler at whole-millisecond cuts, every configuration. -/
theorem chunk_all (S : RS) (a b : List Int) (hI : Inv S) (ka kb : Nat)
    (hka : 1 ≤ ka) (hkb : 1 ≤ kb) (ha : a.length = ka * S.cfg.fsIn) (hb : b.length = kb * S.cfg.fsIn)
    (hxa : ∀ v ∈ a, I16 v) (hxb : ∀ v ∈ b, I16 v) : ChunkInv S a b := by
  have hc := cfgTable_facts _ hI.cfg
  simp only [cfgFacts, Bool.and_eq_true, Bool.or_eq_true, decide_eq_true_eq, beq_iff_eq] at hc
  obtain ⟨⟨⟨⟨⟨⟨⟨h1, h2⟩, h3⟩, h4⟩, h5⟩, _⟩, _⟩, hfn⟩ := hc
  have hla : S.cfg.fsIn ≤ a.length := by
    have := Nat.mul_le_mul_right S.cfg.fsIn hka; rw [Nat.one_mul] at this; omega
  have hlb : S.cfg.fsIn ≤ b.length := by
    have := Nat.mul_le_mul_right S.cfg.fsIn hkb; rw [Nat.one_mul] at this; omega
  rcases hfn with ((⟨hfn, _⟩ | ⟨hfn, _⟩) | hfn) | ⟨hfn, _⟩
  · exact chunk_fold S a b (Or.inl hfn) h3 h2 hI.dbuf hla hlb
  · exact chunk_fold S a b (Or.inr hfn) h3 h2 hI.dbuf hla hlb
  · exact chunk_iir S a b hI hfn ka kb hka hkb ha hb hxa hxb
  · exact chunk_dn S a b hI hfn ka kb hka hkb ha hb hxa hxb

end OpusProofs.SilkResamp
