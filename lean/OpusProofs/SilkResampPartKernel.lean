import OpusProofs.SilkResampPartDown
/-
  OpusProofs.SilkResampPartKernel — from the loops to the kernel calls and to silk_resampler: on a whole number of
  milliseconds a call equals the batch loop run once over the whole delayed stream, hence chunk invariance.
-/
namespace OpusProofs.SilkResamp
open Opus Opus.SilkResamp Opus.SilkParams Opus.Gen.SilkResampRom

theorem kernel_iir_explicit (T : RS) (xs : List Int) (hfn : T.cfg.fn = useIIRFIR) (hf : T.sFIR.length = 36)
    (hinv : 0 < T.cfg.invRatio) (hb2 : T.cfg.batchSize ≤ 480) :
    ∃ q, iirLp T.cfg (T.sIIR, T.sFIR.take 8) xs = .ok q ∧ q.1.2.length = 8 ∧
      kernel T xs = .ok ({ T with sIIR := q.1.1, sFIR := q.1.2 ++ T.sFIR.drop 8 }, q.2) := by
  have ht : (T.sFIR.take 8).length = 8 := by rw [List.length_take]; omega
  obtain ⟨S', head', outs, hl, hl8, _, _⟩ := iirFirLoop_ok T.cfg hinv hb2 xs.length xs T.sIIR (T.sFIR.take 8)
    (Nat.le_refl _) ht
  refine ⟨((S', head'), outs), ?_, hl8, ?_⟩
  · unfold iirLp
    rw [if_pos ht]
    show (iirFirLoop T.cfg T.sIIR (T.sFIR.take 8) xs).bind _ = _
    rw [hl]; rfl
  · unfold kernel
    rw [if_neg (by rw [hfn]; decide), if_pos hfn]
    have hw : window T.sFIR 0 orderFir12 = .ok (T.sFIR.take 8) := by
      rw [window_ok (by omega) (by rw [hf]; decide)]; rfl
    have hb : blit T.sFIR 0 head' = .ok (head' ++ T.sFIR.drop 8) := by
      unfold blit
      rw [if_pos (by omega), hl8]
      simp only [List.take_zero, List.nil_append, Nat.zero_add]
    simp only [hw, hl, hb, Res.bind_ok]
    rfl

theorem kernel_dn_explicit (T : RS) (xs : List Int) (a0 a1 : Int) (rest : List Int)
    (hfn : T.cfg.fn = useDownFIR) (hf : T.sFIR.length = 36)
    (hinv : 0 < T.cfg.invRatio) (hb2 : T.cfg.batchSize ≤ 480) (hco : coefsOf T.cfg.coefId = a0 :: a1 :: rest)
    (hdc : DownCfg T.cfg (a0 :: a1 :: rest)) (hord : T.cfg.firOrder ≤ 36) :
    ∃ q, dnLp T.cfg a0 a1 rest (T.sIIR.s0, T.sIIR.s1, T.sFIR.take T.cfg.firOrder) xs = .ok q ∧
      q.1.2.2.length = T.cfg.firOrder ∧
      kernel T xs = .ok ({ T with sIIR := { T.sIIR with s0 := q.1.1, s1 := q.1.2.1 },
                                  sFIR := q.1.2.2 ++ T.sFIR.drop T.cfg.firOrder }, q.2) := by
  have ht : (T.sFIR.take T.cfg.firOrder).length = T.cfg.firOrder := by rw [List.length_take]; omega
  obtain ⟨t0, t1, head', outs, hl, hl8, _, _⟩ := downFirLoop_ok T.cfg a0 a1 rest hinv hb2 hdc xs.length xs
    T.sIIR.s0 T.sIIR.s1 (T.sFIR.take T.cfg.firOrder) (Nat.le_refl _) ht
  refine ⟨((t0, t1, head'), outs), ?_, hl8, ?_⟩
  · unfold dnLp
    rw [if_pos ht]
    show (downFirLoop T.cfg (a0 :: a1 :: rest) T.sIIR.s0 T.sIIR.s1 (T.sFIR.take T.cfg.firOrder) xs).bind _ = _
    rw [hl]; rfl
  · unfold kernel
    rw [if_neg (by rw [hfn]; decide), if_neg (by rw [hfn]; decide), if_pos hfn, hco]
    have hw : window T.sFIR 0 T.cfg.firOrder = .ok (T.sFIR.take T.cfg.firOrder) := by
      rw [window_ok (by omega) (by rw [hf]; simpa using hord)]; rfl
    have hb : blit T.sFIR 0 head' = .ok (head' ++ T.sFIR.drop T.cfg.firOrder) := by
      unfold blit
      rw [if_pos (by omega), hl8]
      simp only [List.take_zero, List.nil_append, Nat.zero_add]
    simp only [hw, hl, hb, Res.bind_ok]
    rfl

theorem stream_length (S : RS) (xs : List Int) (hd : S.cfg.inputDelay ≤ 48) (hdl : S.delayBuf.length = 48)
    (hx : S.cfg.inputDelay ≤ xs.length) : (stream S xs).length = xs.length := by
  simp only [stream, List.length_append, List.length_take]; omega

/-- IIR_FIR: a call on a whole number of milliseconds = the batch loop run once over the delayed stream. -/
theorem resampler_iir (S : RS) (xs : List Int) (hI : Inv S) (hfn : S.cfg.fn = useIIRFIR) (k : Nat) (hk : 1 ≤ k)
    (hx : xs.length = k * S.cfg.fsIn) :
    ∃ q db', iirLp S.cfg (S.sIIR, S.sFIR.take 8) (stream S xs) = .ok q ∧ q.1.2.length = 8 ∧
      resampler S xs = .ok ({ S with sIIR := q.1.1, sFIR := q.1.2 ++ S.sFIR.drop 8, delayBuf := db' }, q.2) := by
  have hc := cfgTable_facts _ hI.cfg
  simp only [cfgFacts, Bool.and_eq_true, decide_eq_true_eq] at hc
  obtain ⟨⟨⟨⟨⟨⟨⟨h1, h2⟩, h3⟩, h4⟩, h5⟩, _⟩, _⟩, _⟩ := hc
  have hpf := cfgTable_iirPartFacts _ hI.cfg
  have hfl : S.sFIR.length = 36 := hI.fir
  have hdl : S.delayBuf.length = 48 := hI.dbuf
  have hb2 : S.cfg.batchSize ≤ 480 := by omega
  have hlen : S.cfg.fsIn ≤ xs.length := by
    have := Nat.mul_le_mul_right S.cfg.fsIn hk; rw [Nat.one_mul] at this; omega
  have hsl := stream_length S xs (by omega) hdl (by omega)
  rw [resampler_via_stream S xs h3 h2 hdl hlen]
  have hD : (dbufAfterCopy S xs).length = 48 := by
    simp only [dbufAfterCopy, List.length_append, List.length_take, List.length_drop]; omega
  obtain ⟨q0, hq0, hq08, hk0⟩ := kernel_iir_explicit { S with delayBuf := dbufAfterCopy S xs }
    ((stream S xs).take S.cfg.fsIn) hfn hfl h5 hb2
  have hT1f : (q0.1.2 ++ S.sFIR.drop 8).length = 36 := by rw [List.length_append, List.length_drop]; omega
  obtain ⟨q1, hq1, hq18, hk1⟩ := kernel_iir_explicit
    { S with sIIR := q0.1.1, sFIR := q0.1.2 ++ S.sFIR.drop 8, delayBuf := dbufAfterCopy S xs }
    ((stream S xs).drop S.cfg.fsIn) hfn hT1f h5 hb2
  have htk : (q0.1.2 ++ S.sFIR.drop 8).take 8 = q0.1.2 := by
    rw [List.take_append_of_le_length (by omega), List.take_of_length_le (by omega)]
  have hdk : (q0.1.2 ++ S.sFIR.drop 8).drop 8 = S.sFIR.drop 8 := by
    rw [List.drop_append_of_le_length (by omega), List.drop_of_length_le (by omega), List.nil_append]
  dsimp only at hq0 hk0 hq1 hk1
  rw [htk] at hq1
  rw [hdk] at hk1
  obtain ⟨db2, hb2e, _, _⟩ := blit_ok (l := dbufAfterCopy S xs) (src := xs.drop (xs.length - S.cfg.inputDelay)) (off := 0)
    (by rw [List.length_drop]; omega)
  refine ⟨(q1.1, q0.2 ++ q1.2), db2, ?_, hq18, ?_⟩
  · have hs0 : ((stream S xs).take S.cfg.fsIn).length = 1 * S.cfg.fsIn := by rw [List.length_take]; omega
    have hs1 : ((stream S xs).drop S.cfg.fsIn).length = (k - 1) * S.cfg.fsIn := by
      rw [List.length_drop, hsl, hx, Nat.sub_mul, Nat.one_mul]
    have := iirLp_append S.cfg hfn hpf h5 h4 h1 h2 1 (k - 1) (S.sIIR, S.sFIR.take 8) _ _ hs0 hs1
    rw [List.take_append_drop] at this
    rw [this]
    simp only [seq2, hq0, Res.bind]
    have e : q0.1 = (q0.1.1, q0.1.2) := rfl
    rw [e, hq1]
  · rw [hk0]
    simp only [Res.bind]
    rw [hk1]
    simp only [Res.bind, hb2e]

end OpusProofs.SilkResamp
