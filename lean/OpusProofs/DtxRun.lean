import OpusProofs.DtxQuery
import OpusProofs.DtxOnset
/-
  OpusProofs.DtxRun — runs of consecutive DTX packets at the packet level (`encodeCall`, `run`):
  the run bound while one detector is in charge (generalised detector / SILK's own DTX), the
  in-DTX query along whole runs, DTX disabled along whole runs, and what the decidable
  oracle-shape contract `oracleOk` gives.
-/
namespace Opus.Dtx
open Opus.Gen.DtxConsts

/-! ### The oracle-shape contract -/

theorem mainOk_spec (fQ1 : Nat) (m : SCall) (h : mainOk fQ1 m = true) :
    m.prefill = 0 ∧ m.frames ≠ [] ∧ m.frames.length ≤ maxFramesPerPacket ∧ fQ1 ≤ 40 * m.frames.length := by
  simp only [mainOk, Bool.and_eq_true, beq_iff_eq, decide_eq_true_eq] at h
  obtain ⟨⟨⟨h1, h2⟩, h3⟩, h4⟩ := h
  refine ⟨h1, ?_, h3, h4⟩
  intro h0; rw [h0] at h2; simp at h2

/-- The two shapes `subOk` admits. -/
theorem subOk_cases (fQ1 : Nat) (s : Sub) (h : subOk fQ1 s = true) :
    (∃ m, s.silk = [m] ∧ mainOk fQ1 m = true) ∨
    (∃ p m, s.silk = [p, m] ∧ p.prefill ≠ 0 ∧ p.frames ≠ [] ∧ p.frames.length ≤ maxFramesPerPacket ∧ mainOk fQ1 m = true) := by
  unfold subOk at h
  split at h
  · rename_i m hm; exact Or.inl ⟨m, hm, h⟩
  · rename_i p m hm
    simp only [Bool.and_eq_true, bne_iff_ne, ne_eq, decide_eq_true_eq] at h
    obtain ⟨⟨⟨h1, h2⟩, h3⟩, h4⟩ := h
    refine Or.inr ⟨p, m, hm, h1, ?_, h3, h4⟩
    intro h0; rw [h0] at h2; simp at h2
  · cases h

theorem subOk_wf (fQ1 : Nat) (s : Sub) (h : subOk fQ1 s = true) : WFSub s := by
  rcases subOk_cases fQ1 s h with ⟨m, hm, hok⟩ | ⟨p, m, hm, _, hp1, hp2, hok⟩
  · have := mainOk_spec fQ1 m hok
    refine ⟨by rw [hm]; simp, by rw [hm]; simp, ?_⟩
    intro c hc; rw [hm] at hc; simp at hc; subst hc; exact ⟨this.2.1, this.2.2.1⟩
  · have := mainOk_spec fQ1 m hok
    refine ⟨by rw [hm]; simp, by rw [hm]; simp, ?_⟩
    intro c hc; rw [hm] at hc; simp at hc
    rcases hc with rfl | rfl
    · exact ⟨hp1, hp2⟩
    · exact ⟨this.2.1, this.2.2.1⟩

theorem oracleOk_spec (c : Cfg) (o : CallOr) (h : oracleOk c o = true) :
    WF o ∧ (o.mode ≠ .celt → ∀ s ∈ o.subs, subOk (subQ1 c o.mode) s = true) := by
  simp only [oracleOk, shapeOk, Bool.and_eq_true, Bool.or_eq_true, bne_iff_ne, ne_eq, beq_iff_eq, List.all_eq_true] at h
  obtain ⟨h1, h2⟩ := h
  have hsub : o.mode ≠ .celt → ∀ s ∈ o.subs, subOk (subQ1 c o.mode) s = true := by
    intro hm; rcases h2 with h2 | h2
    · exact absurd h2 hm
    · exact h2
  exact ⟨⟨h1, fun hm s hs => subOk_wf _ s (hsub hm s hs)⟩, hsub⟩

/-! ### Runs of calls -/

theorem pkts_nil (c : Cfg) (st : St) : pkts c st [] = [] := rfl

theorem pkts_append (c : Cfg) (st : St) (a b : List CallOr) :
    pkts c st (a ++ b) = pkts c st a ++ pkts c (runFinal c st a) b := by
  induction a generalizing st with
  | nil => rfl
  | cons o os ih => simp only [List.cons_append, pkts_cons, runFinal, ih, List.cons_append]

theorem pkts_length (c : Cfg) (st : St) (a : List CallOr) : (pkts c st a).length = a.length := by
  induction a generalizing st with
  | nil => rfl
  | cons o os ih => simp only [pkts_cons, List.length_cons, ih]

theorem runFinal_append (c : Cfg) (st : St) (a b : List CallOr) :
    runFinal c st (a ++ b) = runFinal c (runFinal c st a) b := by
  induction a generalizing st with
  | nil => rfl
  | cons o os ih => simp only [List.cons_append, runFinal, ih]

/-- Every packet of the list is a DTX packet. -/
def AllDtx (l : List Pkt) : Prop := ∀ p ∈ l, ∃ n, p = Pkt.dtx n

theorem allDtx_cons (p : Pkt) (l : List Pkt) : AllDtx (p :: l) ↔ (∃ n, p = Pkt.dtx n) ∧ AllDtx l := by
  unfold AllDtx; simp

/-- A DTX packet comes only out of the frame loop of a regular call with well-shaped oracles. -/
theorem encodeCall_dtx_regular (c : Cfg) (st : St) (o : CallOr) (n : Nat) (h : (encodeCall c st o).2.1 = .dtx n) :
    Regular c ∧ o.subs.length = nSub c o.mode := by
  unfold encodeCall at h
  simp only at h
  split at h
  · cases h
  · split at h
    · cases h
    · split at h
      · cases h
      · split at h
        · cases h
        · rename_i h1 _ h3 h4
          refine ⟨⟨fun h0 => h1 (Or.inl h0), by simpa using h3⟩, by simpa using h4⟩

/-! ### The generalised detector in charge -/

/-- The generalised detector is in charge of this call: `silk_mode.useDTX = 0` (src/opus_encoder.c:1388). -/
def GenCall (c : Cfg) (o : CallOr) : Prop := (c.useDtx && !((analysisOn c && o.valid0) || isSilOf c o)) = false
/-- SILK's own DTX is in charge of this call: `silk_mode.useDTX = 1`. -/
def SilkCall (c : Cfg) (o : CallOr) : Prop := (c.useDtx && !((analysisOn c && o.valid0) || isSilOf c o)) = true

theorem frameFlags_generalised_all (useDtx isSil : Bool) (mode : Mode) (fQ1 : Nat) (tc : Bool) (st : St) (os : List Sub)
    (hs : st.silkUseDtx = false) (hne : os ≠ [])
    (hall : ∀ d ∈ (frameFlags useDtx isSil mode fQ1 tc st os).2, d = true) :
    useDtx = true ∧ (frameFlags useDtx isSil mode fQ1 tc st os).1.nb = st.nb + os.length * fQ1 ∧
      onsetQ1 < st.nb + fQ1 ∧ st.nb + os.length * fQ1 ≤ limitQ1 := by
  induction os generalizing st with
  | nil => exact absurd rfl hne
  | cons o os ih =>
    simp only [frameFlags] at hall ⊢
    have hflag : (frameStep useDtx isSil mode fQ1 (tc && os.isEmpty) st o).2.1 = true := hall _ (by simp)
    have hg := frameStep_generalised useDtx isSil mode fQ1 (tc && os.isEmpty) st o hs
    rw [hflag] at hg
    by_cases hc : useDtx = true
    · rw [if_pos hc, if_pos hc] at hg
      have h1 := decideDtx_true_nb _ _ _ hg.1.symm
      have h2 := (decideDtx_true_iff _ _ _).1 hg.1.symm
      have hnb : (frameStep useDtx isSil mode fQ1 (tc && os.isEmpty) st o).1.nb = st.nb + fQ1 := by rw [hg.2, h1]
      by_cases hos : os = []
      · subst hos
        simp only [frameFlags, List.length_cons, List.length_nil]
        refine ⟨hc, by rw [hnb]; omega, h2.2.1, by omega⟩
      · have := ih (frameStep useDtx isSil mode fQ1 (tc && os.isEmpty) st o).1
          (by rw [frameStep_silkUseDtx]; exact hs) hos (fun d hd => hall d (by simp [hd]))
        rw [hnb] at this
        have hm : (os.length + 1) * fQ1 = os.length * fQ1 + fQ1 := Nat.succ_mul ..
        simp only [List.length_cons]
        refine ⟨hc, by rw [this.2.1]; omega, h2.2.1, by omega⟩
    · rw [if_neg hc] at hg; exact absurd hg.1 (by simp)

/-- One DTX packet under the generalised detector: the detector did not change at this call (the
    counter would have been cleared), the counter advances by the packet duration, the first coded
    frame lies beyond the 200 ms mark and the last one within the 600 ms limit. -/
theorem encodeCall_gen_dtx (c : Cfg) (st : St) (o : CallOr) (hg : GoodGeom c) (hq : c.q ≤ 48) (hgen : GenCall c o) (n : Nat)
    (hpkt : (encodeCall c st o).2.1 = .dtx n) :
    c.useDtx = true ∧ (encodeCall c st o).1.nb = st.nb + 5 * c.q ∧ onsetQ1 < st.nb + subQ1 c o.mode ∧
      st.nb + 5 * c.q ≤ limitQ1 ∧ st.silkUseDtx = false ∧ (encodeCall c st o).1.silkUseDtx = false := by
  obtain ⟨hr, hlen⟩ := encodeCall_dtx_regular c st o n hpkt
  have hreg := encodeCall_regular c st o hr hlen
  rw [hreg.2] at hpkt
  obtain ⟨hne, hall⟩ := pktOf_dtx _ _ _ (finalPkt_dtx _ _ _ _ hpkt)
  have hsne : o.subs ≠ [] := by
    intro h0
    apply hne
    have := frameFlags_length c.useDtx (isSilOf c o) o.mode (subQ1 c o.mode) o.toCelt (prepCall c st o) o.subs
    unfold encodeLoop
    rw [h0] at this ⊢
    simpa using this
  unfold encodeLoop at hall
  have hs : (prepCall c st o).silkUseDtx = false := by rw [prepCall_silkUseDtx]; exact hgen
  have hsd : sdtxOf c o = false := hgen
  have := frameFlags_generalised_all _ _ _ _ _ _ _ hs hsne hall
  rw [prepCall_nb, hlen, (hg o.mode).2.2] at this
  have hsub : subQ1 c o.mode ≤ 5 * c.q := by
    obtain ⟨a, _, b⟩ := hg o.mode
    rw [← b]; exact Nat.le_mul_of_pos_left _ a
  have hon : onsetQ1 = 400 := onsetQ1_eq
  -- no change of detector at this call: the cleared counter could not pass the 200 ms mark
  have hsame : st.silkUseDtx = false := by
    cases hsu : st.silkUseDtx
    · rfl
    · exfalso
      rw [hsd, hsu] at this
      simp only [ne_eq, Bool.false_eq_true, not_false_eq_true, if_true] at this
      omega
  rw [hsd, hsame] at this
  simp only [ne_eq, not_true_eq_false, if_false] at this
  rw [hreg.1]
  unfold encodeLoop
  refine ⟨this.1, this.2.1, this.2.2.1, this.2.2.2, hsame, ?_⟩
  rw [frameFlags_silkUseDtx]; exact hs

/-- A segment of consecutive DTX packets under the generalised detector, from any state. -/
theorem run_gen_dtx (c : Cfg) (hg : GoodGeom c) (hq : c.q ≤ 48) :
    ∀ (seg : List CallOr) (st : St), (∀ o ∈ seg, GenCall c o) → AllDtx (pkts c st seg) →
      (runFinal c st seg).nb = st.nb + seg.length * (5 * c.q) ∧
      (seg ≠ [] → st.nb + seg.length * (5 * c.q) ≤ limitQ1 ∧ onsetQ1 < st.nb + 5 * c.q) := by
  intro seg
  induction seg with
  | nil => intro st _ _; exact ⟨by simp [runFinal], fun h => absurd rfl h⟩
  | cons o os ih =>
    intro st hgen hall
    rw [pkts_cons, allDtx_cons] at hall
    obtain ⟨⟨n, hn⟩, hrest⟩ := hall
    have h1 := encodeCall_gen_dtx c st o hg hq (hgen o (by simp)) n hn
    have h2 := ih (encodeCall c st o).1 (fun o' ho' => hgen o' (by simp [ho'])) hrest
    have hsub : subQ1 c o.mode ≤ 5 * c.q := by
      obtain ⟨a, _, b⟩ := hg o.mode
      rw [← b]; exact Nat.le_mul_of_pos_left _ a
    have hm : (os.length + 1) * (5 * c.q) = os.length * (5 * c.q) + 5 * c.q := Nat.succ_mul ..
    simp only [runFinal, List.length_cons]
    rw [h1.2.1] at h2
    refine ⟨by rw [h2.1]; omega, fun _ => ⟨?_, by omega⟩⟩
    by_cases hos : os = []
    · subst hos; simp only [List.length_nil] at hm ⊢; omega
    · have := (h2.2 hos).1; omega

/-- **Run bound, generalised detector.**  A segment of consecutive DTX packets, from any state,
    lasts less than 400 ms plus one packet duration (durations in Q1 ms). -/
theorem run_gen_bound (c : Cfg) (hg : GoodGeom c) (hq : c.q ≤ 48) (seg : List CallOr) (st : St)
    (hgen : ∀ o ∈ seg, GenCall c o) (hall : AllDtx (pkts c st seg)) :
    seg.length * (5 * c.q) < 800 + 5 * c.q := by
  by_cases hs : seg = []
  · subst hs; simp only [List.length_nil]; omega
  · have := (run_gen_dtx c hg hq seg st hgen hall).2 hs
    have h1 : onsetQ1 = 400 := onsetQ1_eq
    have h2 : limitQ1 = 1200 := limitQ1_eq
    omega

/-! ### SILK's own DTX in charge -/

/-- The mid channel is still armed after a list of frames: the counter went up by one per frame,
    through the window (10, 30]. -/
theorem silkFrames_inDtx_count (nch : Nat) (fl : Bool) (s : SilkCh × SilkCh × Bool) (fs : List SFrame) (hne : fs ≠ [])
    (h : (silkFrames nch fl s fs).1.inDtx = true) :
    (silkFrames nch fl s fs).1.cnt = s.1.cnt + fs.length ∧ nbSpeechFramesBeforeDtx < s.1.cnt + 1 ∧
      s.1.cnt + fs.length ≤ nbSpeechFramesBeforeDtx + maxConsecutiveDtx := by
  induction fs generalizing s with
  | nil => exact absurd rfl hne
  | cons f fs ih =>
    simp only [silkFrames] at h ⊢
    have h1 : (silkFrame nch fl s f).1.inDtx = true := by
      cases hd : (silkFrame nch fl s f).1.inDtx
      · rw [silkFrames_disarmed _ _ _ _ hd] at h; cases h
      · rfl
    have hv : (silkFrame nch fl s f).1 = silkVad s.1 (f.low0 || fl) := rfl
    rw [hv] at h1
    have hc := silkVad_cnt_of_inDtx _ _ h1
    have hcnt : (silkFrame nch fl s f).1.cnt = s.1.cnt + 1 := by rw [hv]; exact hc.1
    by_cases hfs : fs = []
    · subst hfs
      simp only [silkFrames, List.length_cons, List.length_nil]
      exact ⟨hcnt, hc.2.1, by omega⟩
    · have := ih (silkFrame nch fl s f) hfs h
      rw [hcnt] at this
      simp only [List.length_cons]
      exact ⟨by rw [this.1]; omega, hc.2.1, by omega⟩

/-- A main `silk_Encode` call (no prefill) that returns zero bytes. -/
theorem silkCall_allDtx_count (useDtx fl : Bool) (st : SilkSt) (m : SCall) (hne : m.frames ≠ []) (hp : m.prefill = 0)
    (h : (silkCall useDtx fl st m).2 = true) :
    (silkCall useDtx fl st m).1.c0 = st.c0 + m.frames.length ∧ nbSpeechFramesBeforeDtx ≤ st.c0 ∧
      st.c0 + m.frames.length ≤ nbSpeechFramesBeforeDtx + maxConsecutiveDtx := by
  simp only [silkCall, hp, ne_eq, not_true_eq_false, if_false] at h ⊢
  simp only [Bool.and_eq_true] at h
  have := silkFrames_inDtx_count _ _ _ _ hne h.1
  simp only at this
  exact ⟨this.1, by omega, this.2.2⟩

/-- A coded frame that SILK drops, with well-shaped oracles: there was no prefill call, and the mid
    counter advanced by the number of SILK frames, inside [10, 30]. -/
theorem frameSilk_zero_count (mode : Mode) (act : Int) (st : St) (o : Sub) (fQ1 : Nat) (hm : mode ≠ .celt)
    (hok : subOk fQ1 o = true) (h : (frameSilk mode act st o).2 = some true) :
    ∃ k, fQ1 ≤ 40 * k ∧ (frameSilk mode act st o).1.silk.c0 = st.silk.c0 + k ∧
      nbSpeechFramesBeforeDtx ≤ st.silk.c0 ∧ st.silk.c0 + k ≤ nbSpeechFramesBeforeDtx + maxConsecutiveDtx := by
  simp only [frameSilk, hm, if_false] at h ⊢
  simp only [Option.some.injEq] at h
  rcases subOk_cases fQ1 o hok with ⟨m, hms, hmok⟩ | ⟨p, m, hms, hpf, hp1, hp2, hmok⟩
  · have hsp := mainOk_spec fQ1 m hmok
    rw [hms] at h ⊢
    simp only [runSilk] at h ⊢
    have := silkCall_allDtx_count _ _ _ _ hsp.2.1 hsp.1 h
    exact ⟨m.frames.length, hsp.2.2.2, this.1, this.2.1, this.2.2⟩
  · exfalso
    have hsp := mainOk_spec fQ1 m hmok
    rw [hms] at h
    simp only [runSilk] at h
    have hc0 : (silkCall st.silkUseDtx (decide (act = vadNoActivity)) st.silk p).1.c0 ≤ 0 + p.frames.length := by
      simp only [silkCall]
      refine Nat.le_trans (silkFrames_cnt p.nch _ _ p.frames) ?_
      simp [hpf]
    have h3 : maxFramesPerPacket = 3 := rfl
    rw [silkCall_small _ _ _ _ hsp.2.1 (Or.inr (by rw [nb_eq]; omega))] at h
    cases h

theorem frameFlags_silk_count (useDtx : Bool) (mode : Mode) (fQ1 : Nat) (tc : Bool) (st : St) (os : List Sub)
    (hm : mode ≠ .celt) (hsd : st.silkUseDtx = true) (hok : ∀ s ∈ os, subOk fQ1 s = true)
    (hall : ∀ d ∈ (frameFlags useDtx false mode fQ1 tc st os).2, d = true) :
    ∃ k, os.length * fQ1 ≤ 40 * k ∧ (frameFlags useDtx false mode fQ1 tc st os).1.silk.c0 = st.silk.c0 + k ∧
      (os ≠ [] → nbSpeechFramesBeforeDtx ≤ st.silk.c0 ∧ st.silk.c0 + k ≤ nbSpeechFramesBeforeDtx + maxConsecutiveDtx) := by
  induction os generalizing st with
  | nil => exact ⟨0, by simp, by simp [frameFlags], fun h => absurd rfl h⟩
  | cons o os ih =>
    simp only [frameFlags] at hall ⊢
    have hflag : (frameStep useDtx false mode fQ1 (tc && os.isEmpty) st o).2.1 = true := hall _ (by simp)
    have hA := frameStep_silk_charge useDtx false mode fQ1 (tc && os.isEmpty) st o hsd hflag
    obtain ⟨k1, hk1, hc1, hlo, hhi⟩ := frameSilk_zero_count mode _ st o fQ1 hm (hok o (by simp)) hA.1
    obtain ⟨k2, hk2, hc2, hrest⟩ := ih (frameStep useDtx false mode fQ1 (tc && os.isEmpty) st o).1
      (by rw [frameStep_silkUseDtx]; exact hsd) (fun s hs => hok s (by simp [hs])) (fun d hd => hall d (by simp [hd]))
    have hst : (frameStep useDtx false mode fQ1 (tc && os.isEmpty) st o).1.silk.c0 = st.silk.c0 + k1 := by
      rw [hA.2]; exact hc1
    rw [hst] at hc2
    have hm' : (os.length + 1) * fQ1 = os.length * fQ1 + fQ1 := Nat.succ_mul ..
    refine ⟨k1 + k2, by simp only [List.length_cons]; omega, by rw [hc2]; omega, fun _ => ⟨hlo, ?_⟩⟩
    by_cases hos : os = []
    · subst hos
      simp only [frameFlags] at hc2
      have : k2 = 0 := by
        rw [hst] at hc2
        omega
      omega
    · have := (hrest hos).2
      rw [hst] at this
      omega

/-- One DTX packet under SILK's own DTX: the mid counter advances by at least one per 20 ms. -/
theorem encodeCall_silk_dtx (c : Cfg) (st : St) (o : CallOr) (hg : GoodGeom c) (hok : oracleOk c o = true) (hsk : SilkCall c o) (n : Nat)
    (hpkt : (encodeCall c st o).2.1 = .dtx n) :
    ∃ k, 5 * c.q ≤ 40 * k ∧ (encodeCall c st o).1.silk.c0 = st.silk.c0 + k ∧
      nbSpeechFramesBeforeDtx ≤ st.silk.c0 ∧ st.silk.c0 + k ≤ nbSpeechFramesBeforeDtx + maxConsecutiveDtx ∧
      sdtxOf c o = st.silkUseDtx := by
  obtain ⟨hr, hlen⟩ := encodeCall_dtx_regular c st o n hpkt
  obtain ⟨hwf, hsub⟩ := oracleOk_spec c o hok
  have hreg := encodeCall_regular c st o hr hlen
  rw [hreg.2] at hpkt
  obtain ⟨hne, hall⟩ := pktOf_dtx _ _ _ (finalPkt_dtx _ _ _ _ hpkt)
  have hsne : o.subs ≠ [] := by
    intro h0
    apply hne
    have := frameFlags_length c.useDtx (isSilOf c o) o.mode (subQ1 c o.mode) o.toCelt (prepCall c st o) o.subs
    unfold encodeLoop
    rw [h0] at this ⊢
    simpa using this
  have hs0 : (prepCall c st o).silkUseDtx = true := by rw [prepCall_silkUseDtx]; exact hsk
  unfold SilkCall at hsk
  simp only [Bool.and_eq_true, Bool.not_eq_true', Bool.or_eq_false_iff] at hsk
  obtain ⟨hd, hv0, hsil⟩ := hsk
  unfold encodeLoop at hall
  rw [hsil] at hall
  have hC := frameFlags_silk_regime c.useDtx o.mode (subQ1 c o.mode) o.toCelt (prepCall c st o) o.subs hsne hs0 hwf.2 hall
  simp only at hC
  have hm := hC.1
  obtain ⟨k, hk, hc, hb⟩ := frameFlags_silk_count c.useDtx o.mode (subQ1 c o.mode) o.toCelt (prepCall c st o) o.subs hm hs0
    (hsub hm) hall
  have hb := hb hsne
  -- the SILK state was neither re-initialised nor cleared by a change of detector at this call (its
  -- counter would be 0)
  have hc0ne : (prepCall c st o).silk.c0 ≠ 0 := by
    have h0 := hb.1
    rw [nb_eq] at h0
    omega
  have hsame : sdtxOf c o = st.silkUseDtx := by
    cases hsw : decide (sdtxOf c o = st.silkUseDtx)
    · exfalso
      apply hc0ne
      rw [prepCall_silk]
      have hne' : sdtxOf c o ≠ st.silkUseDtx := by simpa using hsw
      split
      · rfl
      · first | rfl | (rw [if_pos hne'])
    · simpa using hsw
  have hprep : (prepCall c st o).silk = st.silk := by
    rw [prepCall_silk]
    split
    · exfalso
      apply hc0ne
      rw [prepCall_silk, if_pos (by assumption)]; rfl
    · rw [if_neg (by simp [hsame])]
  rw [hprep] at hc hb
  refine ⟨k, ?_, ?_, hb.1, hb.2, hsame⟩
  · rw [hlen, (hg o.mode).2.2] at hk; exact hk
  · rw [hreg.1]; unfold encodeLoop; rw [hsil]; exact hc

/-- A segment of consecutive DTX packets under SILK's own DTX, from any state: the mid counter moves
    inside [10, 30] and pays at least one count per 20 ms. -/
theorem run_silk_dtx (c : Cfg) (hg : GoodGeom c) :
    ∀ (seg : List CallOr) (st : St), (∀ o ∈ seg, SilkCall c o ∧ oracleOk c o = true) → AllDtx (pkts c st seg) →
      ∃ k, seg.length * (5 * c.q) ≤ 40 * k ∧ (runFinal c st seg).silk.c0 = st.silk.c0 + k ∧
        (seg ≠ [] → nbSpeechFramesBeforeDtx ≤ st.silk.c0 ∧ st.silk.c0 + k ≤ nbSpeechFramesBeforeDtx + maxConsecutiveDtx) := by
  intro seg
  induction seg with
  | nil => intro st _ _; exact ⟨0, by simp, by simp [runFinal], fun h => absurd rfl h⟩
  | cons o os ih =>
    intro st hsk hall
    rw [pkts_cons, allDtx_cons] at hall
    obtain ⟨⟨n, hn⟩, hrest⟩ := hall
    obtain ⟨k1, hk1, hc1, hlo, hhi, _⟩ := encodeCall_silk_dtx c st o hg (hsk o (by simp)).2 (hsk o (by simp)).1 n hn
    obtain ⟨k2, hk2, hc2, hr2⟩ := ih (encodeCall c st o).1 (fun o' ho' => hsk o' (by simp [ho'])) hrest
    have hm : (os.length + 1) * (5 * c.q) = os.length * (5 * c.q) + 5 * c.q := Nat.succ_mul ..
    simp only [runFinal, List.length_cons]
    rw [hc1] at hc2 hr2
    refine ⟨k1 + k2, by omega, by rw [hc2]; omega, fun _ => ⟨hlo, ?_⟩⟩
    by_cases hos : os = []
    · subst hos
      simp only [runFinal] at hc2
      omega
    · have := (hr2 hos).2; omega

/-- **Run bound, SILK's own DTX.**  A segment of consecutive DTX packets lasts at most 400 ms. -/
theorem run_silk_bound (c : Cfg) (hg : GoodGeom c) (seg : List CallOr) (st : St)
    (hsk : ∀ o ∈ seg, SilkCall c o ∧ oracleOk c o = true) (hall : AllDtx (pkts c st seg)) :
    seg.length * (5 * c.q) ≤ 800 := by
  by_cases hs : seg = []
  · subst hs; simp
  · obtain ⟨k, hk, _, hb⟩ := run_silk_dtx c hg seg st hsk hall
    have := hb hs
    simp only [nb_eq, max_eq] at this
    omega

/-! ### Runs across calls with different detectors -/

/-- After a call that reached the frame loop, `silk_mode.useDTX` is the value decided for that call. -/
theorem encodeCall_silkUseDtx (c : Cfg) (st : St) (o : CallOr) (hr : Regular c) (hlen : o.subs.length = nSub c o.mode) :
    (encodeCall c st o).1.silkUseDtx = sdtxOf c o := by
  rw [(encodeCall_regular c st o hr hlen).1]
  unfold encodeLoop
  rw [frameFlags_silkUseDtx, prepCall_silkUseDtx]; rfl

/-- **A call at which the detector in charge changes never returns a DTX packet**: both run counters
    were cleared (src/opus_encoder.c:1388-1399), so neither detector can drop a frame yet. -/
theorem encodeCall_dtx_no_switch (c : Cfg) (st : St) (o : CallOr) (hg : GoodGeom c) (hq : c.q ≤ 48)
    (hok : oracleOk c o = true) (n : Nat) (hpkt : (encodeCall c st o).2.1 = .dtx n) :
    sdtxOf c o = st.silkUseDtx := by
  cases hsd : sdtxOf c o
  · exact (encodeCall_gen_dtx c st o hg hq hsd n hpkt).2.2.2.2.1.symm
  · obtain ⟨_, _, _, _, _, h⟩ := encodeCall_silk_dtx c st o hg hok hsd n hpkt
    rw [hsd] at h; exact h

/-- Inside a run of consecutive DTX packets every call is under the detector that was in charge
    before the run. -/
theorem run_dtx_one_detector (c : Cfg) (hg : GoodGeom c) (hq : c.q ≤ 48) :
    ∀ (seg : List CallOr) (st : St), (∀ o ∈ seg, oracleOk c o = true) → AllDtx (pkts c st seg) →
      ∀ o ∈ seg, sdtxOf c o = st.silkUseDtx := by
  intro seg
  induction seg with
  | nil => intro st _ _ o ho; cases ho
  | cons o os ih =>
    intro st hok hall o' ho'
    rw [pkts_cons, allDtx_cons] at hall
    obtain ⟨⟨n, hn⟩, hrest⟩ := hall
    have h1 := encodeCall_dtx_no_switch c st o hg hq (hok o (by simp)) n hn
    rcases List.mem_cons.1 ho' with rfl | ho'
    · exact h1
    · obtain ⟨hr, hlen⟩ := encodeCall_dtx_regular c st o n hn
      have := ih (encodeCall c st o).1 (fun x hx => hok x (by simp [hx])) hrest o' ho'
      rw [this, encodeCall_silkUseDtx c st o hr hlen, h1]

/-- **Run bound, any detectors.**  A segment of consecutive DTX packets, from any state and for any
    oracle values satisfying the contract, lasts less than 400 ms plus one packet duration. -/
theorem run_dtx_bound (c : Cfg) (hg : GoodGeom c) (hq : 1 ≤ c.q ∧ c.q ≤ 48) (seg : List CallOr) (st : St)
    (hok : ∀ o ∈ seg, oracleOk c o = true) (hall : AllDtx (pkts c st seg)) :
    seg.length * (5 * c.q) < 800 + 5 * c.q := by
  have hone := run_dtx_one_detector c hg hq.2 seg st hok hall
  cases hsu : st.silkUseDtx
  · exact run_gen_bound c hg hq.2 seg st (fun o ho => by have := hone o ho; rw [hsu] at this; exact this) hall
  · have := run_silk_bound c hg seg st (fun o ho => ⟨by have := hone o ho; rw [hsu] at this; exact this, hok o ho⟩) hall
    omega

/-! ### a DTX packet has one or two bytes -/

theorem dtxPacketLen_range (n : Nat) : 1 ≤ dtxPacketLen n ∧ dtxPacketLen n ≤ 2 := by
  unfold dtxPacketLen; split <;> omega

/-- The length carried by a DTX packet of the skeleton is `dtxPacketLen` of its frame count: 1 or 2. -/
theorem encodeCall_dtx_len (c : Cfg) (st : St) (o : CallOr) (n : Nat) (h : (encodeCall c st o).2.1 = .dtx n) :
    n = dtxPacketLen (nSub c o.mode) ∧ 1 ≤ n ∧ n ≤ 2 := by
  obtain ⟨hr, hlen⟩ := encodeCall_dtx_regular c st o n h
  rw [(encodeCall_regular c st o hr hlen).2] at h
  have h' := finalPkt_dtx _ _ _ _ h
  unfold pktOf at h'
  split at h'
  · cases h'
    exact ⟨rfl, dtxPacketLen_range _⟩
  · cases h'

theorem pkts_dtx_len (c : Cfg) : ∀ (ors : List CallOr) (st : St) (n : Nat), Pkt.dtx n ∈ pkts c st ors → 1 ≤ n ∧ n ≤ 2 := by
  intro ors
  induction ors with
  | nil => intro st n h; cases h
  | cons o os ih =>
    intro st n h
    rw [pkts_cons] at h
    rcases List.mem_cons.1 h with h | h
    · exact (encodeCall_dtx_len c st o n h.symm).2
    · exact ih _ n h

/-! ### The in-DTX query along a run -/

theorem run_cons (c : Cfg) (st : St) (o : CallOr) (os : List CallOr) :
    run c st (o :: os) = ((encodeCall c st o).2.1, inDtx c (encodeCall c st o).1) :: run c (encodeCall c st o).1 os := rfl

/-- **The in-DTX query is true after every DTX packet of a run** (any state satisfying the invariant,
    in particular a fresh encoder). -/
theorem run_inDtx (c : Cfg) : ∀ (ors : List CallOr) (st : St), Inv st → (∀ o ∈ ors, oracleOk c o = true) →
    ∀ x ∈ run c st ors, (∃ n, x.1 = Pkt.dtx n) → x.2 = true := by
  intro ors
  induction ors with
  | nil => intro st _ _ x hx; cases hx
  | cons o os ih =>
    intro st hinv hok x hx hd
    obtain ⟨hwf, _⟩ := oracleOk_spec c o (hok o (by simp))
    rw [run_cons] at hx
    rcases List.mem_cons.1 hx with rfl | hx
    · obtain ⟨n, hn⟩ := hd
      simp only at hn ⊢
      obtain ⟨hr, hlen⟩ := encodeCall_dtx_regular c st o n hn
      exact inDtx_of_dtx c st o hr hlen hinv hwf n hn
    · exact ih _ (inv_encodeCall c st o hinv hwf) (fun o' ho' => hok o' (by simp [ho'])) x hx hd

/-! ### DTX disabled along a run -/

theorem run_dtx_off (c : Cfg) (hr : Regular c) (hoff : c.useDtx = false) :
    ∀ (ors : List CallOr) (st : St), (∀ o ∈ ors, o.subs.length = nSub c o.mode ∧ NoBust o) → ∀ p ∈ pkts c st ors, p = Pkt.normal := by
  intro ors
  induction ors with
  | nil => intro st _ p hp; cases hp
  | cons o os ih =>
    intro st hlen p hp
    rw [pkts_cons] at hp
    rcases List.mem_cons.1 hp with rfl | hp
    · exact encodeCall_dtx_off c st o hr hoff (hlen o (by simp)).1 (hlen o (by simp)).2
    · exact ih _ (fun o' ho' => hlen o' (by simp [ho'])) p hp

/-! ### Resume under SILK's own DTX -/

theorem runSilk_true_last (useDtx fl : Bool) (st : SilkSt) (cs : List SCall) (h : (runSilk useDtx fl st cs).2 = true) :
    ∃ st' m, cs.getLast? = some m ∧ (silkCall useDtx fl st' m).2 = true := by
  induction cs generalizing st with
  | nil => simp [runSilk] at h
  | cons c cs ih =>
    cases cs with
    | nil => exact ⟨st, c, rfl, by simpa [runSilk] using h⟩
    | cons c' cs' =>
      simp only [runSilk] at h
      obtain ⟨st', m, hm, hz⟩ := ih _ h
      exact ⟨st', m, by simpa [List.getLast?_cons_cons] using hm, hz⟩

/-- If Opus did not force "no activity", a frame dropped by SILK has the VAD flag of the mid channel
    clear in every SILK frame of its main call. -/
theorem frameSilk_zero_low (mode : Mode) (act : Int) (st : St) (o : Sub) (ha : act ≠ vadNoActivity)
    (h : (frameSilk mode act st o).2 = some true) :
    ∃ m, o.silk.getLast? = some m ∧ ∀ f ∈ m.frames, f.low0 = true := by
  by_cases hm : mode = .celt
  · subst hm; rw [frameSilk_celt] at h; cases h
  · simp only [frameSilk, hm, if_false, Option.some.injEq] at h
    have hfl : decide (act = vadNoActivity) = false := by simp [ha]
    rw [hfl] at h
    obtain ⟨st', m, hlast, hz⟩ := runSilk_true_last _ _ _ _ h
    refine ⟨m, hlast, ?_⟩
    simp only [silkCall, Bool.and_eq_true] at hz
    exact silkFrames_inDtx_imp_low _ _ _ hz.1

/-- Under SILK's own DTX, if every coded frame of the loop is dropped then every one was dropped by SILK
    (from some state). -/
theorem frameFlags_silk_each (useDtx : Bool) (mode : Mode) (fQ1 : Nat) (tc : Bool) :
    ∀ (os : List Sub) (st0 : St), st0.silkUseDtx = true →
      (∀ d ∈ (frameFlags useDtx false mode fQ1 tc st0 os).2, d = true) →
      ∀ s ∈ os, ∃ st', (frameSilk mode (activityOf false s.valid s.det) st' s).2 = some true := by
  intro os
  induction os with
  | nil => intro _ _ _ s hs; cases hs
  | cons o' os' ih =>
    intro st0 hsd hall s hs
    simp only [frameFlags] at hall
    have hflag := hall _ (List.mem_cons_self ..)
    have hA := frameStep_silk_charge useDtx false mode fQ1 (tc && os'.isEmpty) st0 o' hsd hflag
    rcases List.mem_cons.1 hs with rfl | hs
    · exact ⟨st0, hA.1⟩
    · exact ih _ (by rw [frameStep_silkUseDtx]; exact hsd) (fun d hd => hall d (List.mem_cons_of_mem _ hd)) s hs

/-- **Resume under SILK's own DTX**: if in some coded frame of the call for which Opus did not force
    "no activity" (its analysis result is not valid, or the detector judged it active) SILK's VAD marks
    a frame of the mid channel active, the call does not return a DTX packet. -/
theorem encodeCall_silk_active (c : Cfg) (st : St) (o : CallOr) (hsk : SilkCall c o)
    (hact : ∃ s ∈ o.subs, (s.valid = true → s.det = true) ∧ ∃ m, s.silk.getLast? = some m ∧ ∃ f ∈ m.frames, f.low0 = false) (n : Nat) :
    (encodeCall c st o).2.1 ≠ Pkt.dtx n := by
  intro hpkt
  obtain ⟨hr, hlen⟩ := encodeCall_dtx_regular c st o n hpkt
  have hreg := encodeCall_regular c st o hr hlen
  rw [hreg.2] at hpkt
  obtain ⟨_, hall⟩ := pktOf_dtx _ _ _ (finalPkt_dtx _ _ _ _ hpkt)
  have hs0 : (prepCall c st o).silkUseDtx = true := by rw [prepCall_silkUseDtx]; exact hsk
  unfold SilkCall at hsk
  simp only [Bool.and_eq_true, Bool.not_eq_true', Bool.or_eq_false_iff] at hsk
  obtain ⟨_, hv0, hsil⟩ := hsk
  unfold encodeLoop at hall
  rw [hsil] at hall
  obtain ⟨s, hs, hdet, m, hm, f, hf, hlow⟩ := hact
  obtain ⟨st', hz⟩ := frameFlags_silk_each c.useDtx o.mode (subQ1 c o.mode) o.toCelt o.subs (prepCall c st o) hs0 hall s hs
  have ha : activityOf false s.valid s.det ≠ vadNoActivity := by
    cases hv : s.valid
    · simp [activityOf, vadNoDecision, vadNoActivity]
    · simp [activityOf, hdet hv, vadNoActivity]
  obtain ⟨m', hm', hall'⟩ := frameSilk_zero_low o.mode _ st' s ha hz
  rw [hm] at hm'
  cases hm'
  have := hall' f hf
  rw [hlow] at this
  cases this

/-! ### The SILK counter machine on constant inactivity -/

/-- From counter `cnt`, `n` inactive SILK frames that stay within the limit of 30: frame `i` may be
    dropped iff the counter including it exceeds 10; the counter adds up. -/
theorem silkSteps_inactive (cnt n : Nat) (h : cnt + n ≤ nbSpeechFramesBeforeDtx + maxConsecutiveDtx) :
    silkSteps cnt (List.replicate n true) =
      ((List.range n).map (fun i => decide (nbSpeechFramesBeforeDtx < cnt + i + 1)), cnt + n) := by
  induction n generalizing cnt with
  | zero => rfl
  | succ n ih =>
    rw [List.replicate_succ, silkSteps_cons]
    have hv : silkVad ⟨cnt, true⟩ true = ⟨cnt + 1, decide (nbSpeechFramesBeforeDtx < cnt + 1)⟩ := by
      unfold silkVad
      simp only [nb_eq, max_eq] at h ⊢
      by_cases h1 : cnt + 1 ≤ 10
      · have h3 : ¬ (10 < cnt + 1) := by omega
        simp [h1, h3]
      · have h2 : ¬ (cnt + 1 > 20 + 10) := by omega
        have h3 : 10 < cnt + 1 := by omega
        simp [h1, h2, h3]
    rw [hv]
    simp only
    rw [ih (cnt + 1) (by omega), List.range_succ_eq_map]
    simp only [List.map_cons, List.map_map, Nat.add_zero]
    refine Prod.ext ?_ (by simp only; omega)
    simp only [List.cons.injEq, true_and]
    apply List.map_congr_left
    intro i _
    simp only [Function.comp]
    congr 2
    omega

/-- The refresh of the SILK machine: the 21st consecutive droppable frame is not dropped and puts the
    counter back to 10, so the next inactive frame may be dropped again. -/
theorem silkVad_refresh (cnt : Nat) (h : nbSpeechFramesBeforeDtx + maxConsecutiveDtx < cnt + 1) :
    silkVad ⟨cnt, true⟩ true = ⟨nbSpeechFramesBeforeDtx, false⟩ := by
  unfold silkVad
  simp only [nb_eq, max_eq] at h ⊢
  split_omega


/-! ### Windows of a run -/

theorem dtxSteps_window (nb : Nat) (pre seg post : List (Bool × Nat)) :
    ((dtxSteps nb (pre ++ seg ++ post)).1.drop pre.length).take seg.length = (dtxSteps (dtxSteps nb pre).2 seg).1 := by
  rw [List.append_assoc, dtxSteps_append, dtxSteps_append]
  simp only
  rw [List.drop_left' (dtxSteps_length nb pre), List.take_left' (dtxSteps_length _ seg)]

theorem silkSteps_length (cnt : Nat) (s : List Bool) : (silkSteps cnt s).1.length = s.length := by
  induction s generalizing cnt with
  | nil => rfl
  | cons x xs ih => simp [silkSteps_cons, ih]

theorem silkSteps_window (cnt : Nat) (pre seg post : List Bool) :
    ((silkSteps cnt (pre ++ seg ++ post)).1.drop pre.length).take seg.length = (silkSteps (silkSteps cnt pre).2 seg).1 := by
  rw [List.append_assoc, silkSteps_append, silkSteps_append]
  simp only
  rw [List.drop_left' (silkSteps_length cnt pre), List.take_left' (silkSteps_length _ seg)]

theorem pkts_window (c : Cfg) (st : St) (pre seg post : List CallOr) :
    ((pkts c st (pre ++ seg ++ post)).drop pre.length).take seg.length = pkts c (runFinal c st pre) seg := by
  rw [List.append_assoc, pkts_append, pkts_append]
  rw [List.drop_left' (pkts_length c st pre), List.take_left' (pkts_length _ _ seg)]

/-- The refresh frame of `decide_dtx_mode` and the frame after it. -/
theorem decideDtx_refresh_then (nb f f' : Nat) (h : limitQ1 < nb + f) (hf1 : 0 < f') (hf2 : f' ≤ 800) :
    decideDtx false nb f = (false, onsetQ1) ∧ (decideDtx false onsetQ1 f').1 = true := by
  refine ⟨decideDtx_refresh nb f h, ?_⟩
  rw [decideDtx_true_iff]
  refine ⟨rfl, ?_, ?_⟩
  · rw [onsetQ1_eq]; omega
  · rw [onsetQ1_eq, limitQ1_eq]; omega

/-! ### Concrete oracle records used by the non-vacuity examples of OpusProps.C20 -/
namespace Ex

/-- 16 kHz mono, complexity 10 (the analysis runs), DTX on, VBR 12 kb/s, 20 ms packets. -/
def cfg : Cfg :=
  { useDtx := true, fs := 16000, channels := 1, complexity := 10, useVbr := true, userBitrate := 12000, outBytes := 1276, q := 8 }
/-- The same with complexity 5: SILK's own DTX is in charge. -/
def cfgLow : Cfg := { cfg with complexity := 5 }
def cfgOff : Cfg := { cfg with useDtx := false }

def silkMain (low : Bool) : SCall := ⟨0, 1, [⟨low, false, false⟩]⟩

/-- Digital silence coded in SILK-only mode. -/
def silent : CallOr :=
  { digSil := true, valid0 := false, mode := .silk, toCelt := false,
    subs := [{ valid := false, det := false, silk := [silkMain true] }] }
/-- Faint non-silent input whose analysis result is not valid; SILK's VAD says inactive. -/
def faint : CallOr :=
  { digSil := false, valid0 := false, mode := .silk, toCelt := false,
    subs := [{ valid := false, det := false, silk := [silkMain true] }] }
/-- Speech: valid analysis, detector says active, SILK's VAD says active. -/
def speech : CallOr :=
  { digSil := false, valid0 := true, mode := .silk, toCelt := false,
    subs := [{ valid := true, det := true, silk := [silkMain false] }] }
/-- 60 ms packets: in CELT-only mode each is split into three 20 ms coded frames. -/
def cfg60 : Cfg := { cfg with fs := 48000, q := 24 }
def silent60 : CallOr :=
  { digSil := true, valid0 := false, mode := .celt, toCelt := false,
    subs := List.replicate 3 { valid := false, det := false, silk := [] } }
/-- Hybrid 60 ms packets (3 x 20 ms) whose call-level analysis result is not valid while the first and
    third coded frame have a valid one saying "inactive" (what one NaN sample per packet produces). -/
def cfgHyb : Cfg := { cfg with fs := 24000, q := 24, userBitrate := 20000 }
def nanPkt : CallOr :=
  { digSil := false, valid0 := false, mode := .hybrid, toCelt := false,
    subs := [{ valid := true, det := false, silk := [silkMain true] }, { valid := false, det := false, silk := [silkMain true] },
             { valid := true, det := false, silk := [silkMain true] }] }
/-- Speech whose SILK payload exceeds the frame budget (the bust branch). -/
def speechBust : CallOr :=
  { digSil := false, valid0 := true, mode := .silk, toCelt := false,
    subs := [{ valid := true, det := true, silk := [silkMain false], bust := true }] }
/-- Speech as seen at complexity 5 (no analysis). -/
def speechLow : CallOr :=
  { digSil := false, valid0 := false, mode := .silk, toCelt := false,
    subs := [{ valid := false, det := false, silk := [silkMain false] }] }

end Ex

end Opus.Dtx
