import OpusModel.SilkStereo
import OpusProofs.SilkStereoTab
import OpusProofs.SilkStereoQuant
import OpusModel.SilkSyms
/-
  OpusProofs.SilkStereoMain — silk_stereo_quant_pred on the whole defined domain: termination with indices in range,
  nearest level, agreement with the dequantiser.
-/
namespace OpusProofs.SilkStereoMain
open Opus Opus.SilkParams Opus.SilkStereo OpusProofs.SilkStereoQuant

theorem visit_head : visitOrder = (0, 0) :: (0, 1) :: visitOrder.tail.tail := by decide +kernel

theorem visit_pairwise : visitOrder.Pairwise (fun a b => lv a < lv b) := by decide +kernel

theorem visit_all : visitOrder.all (fun p => decide (-13364 ≤ lv p ∧ lv p ≤ 13362 ∧ p.1 < 15 ∧ p.2 < 5)) = true := by
  decide +kernel

theorem visit_bounds {p : Nat × Nat} (h : p ∈ visitOrder) : -13364 ≤ lv p ∧ lv p ≤ 13362 ∧ p.1 < 15 ∧ p.2 < 5 := by
  have := List.all_eq_true.mp visit_all p h
  simpa using this

theorem lv00 : level 0 0 = -13364 := by decide +kernel
theorem lv01 : level 0 1 = -12628 := by decide +kernel

/-- The initial search state of one predictor (stereo_quant_pred.c:46). -/
def st0 (qIn a b : Int) : QSt := { errMin := int32Max, q := qIn, i0 := a, i1 := b }

/-- The search on the whole defined domain ends on a nearest level. -/
theorem scan_total (pred qIn a b : Int) (hlo : -2147483648 ≤ pred) (hhi : pred ≤ 2147470282) :
    ∃ r ∈ visitOrder, scan pred visitOrder (st0 qIn a b) = some (stOf pred r) ∧
      ∀ p ∈ visitOrder, sabs (pred - lv r) ≤ sabs (pred - lv p) := by
  have hpw := visit_pairwise
  rw [visit_head] at hpw ⊢
  have hpw1 := List.pairwise_cons.mp hpw
  have hpw2 := List.pairwise_cons.mp hpw1.2
  have hb : ∀ p ∈ ((0, 0) :: (0, 1) :: visitOrder.tail.tail : List (Nat × Nat)), -13364 ≤ lv p ∧ lv p ≤ 13362 := by
    intro p hp; rw [← visit_head] at hp; exact ⟨(visit_bounds hp).1, (visit_bounds hp).2.1⟩
  -- first level: always an improvement on silk_int32_MAX
  have hfirst : scan pred ((0, 0) :: (0, 1) :: visitOrder.tail.tail) (st0 qIn a b) =
      scan pred ((0, 1) :: visitOrder.tail.tail) (stOf pred (0, 0)) := by
    rw [scan]
    have h1 : ¬ (pred - level 0 0 < -2147483647 ∨ pred - level 0 0 > 2147483647) := by rw [lv00]; omega
    have h2 : sabs (pred - level 0 0) < (st0 qIn a b).errMin := by
      rw [lv00]; simp only [st0, int32Max, Gen.SilkStereoTabs.int32Max, sabs]; split <;> omega
    simp only [h1, if_false, h2, if_true, stOf, lv]
  rw [hfirst]
  by_cases hbig : -2147470285 ≤ pred
  · obtain ⟨r, hr, hscan, hall, hle⟩ := scan_spec pred ((0, 1) :: visitOrder.tail.tail) (0, 0) hpw1.1 hpw1.2
      (fun p hp => by have := hb p (List.mem_cons_of_mem _ hp); omega)
    refine ⟨r, hr, hscan, ?_⟩
    intro p hp
    rcases List.mem_cons.mp hp with rfl | hp
    · exact hle
    · exact hall p hp
  · -- far below the span: the second level is worse, `goto done`
    refine ⟨(0, 0), by simp, ?_, ?_⟩
    · rw [scan]
      have h1 : ¬ (pred - level 0 1 < -2147483647 ∨ pred - level 0 1 > 2147483647) := by rw [lv01]; omega
      have h2 : ¬ sabs (pred - level 0 1) < (stOf pred (0, 0)).errMin := by
        simp only [stOf, lv, lv00, lv01, sabs]; split <;> split <;> omega
      simp only [h1, if_false, h2]
    · intro p hp
      have := hb p hp
      simp only [lv, lv00, sabs] at this ⊢
      split <;> split <;> omega

/-- What the tail of the `n` loop (stereo_quant_pred.c:67-69) makes of the recorded pair. -/
def post (p : Nat × Nat) : QOne :=
  let i0 := wrap8 p.1
  let ix2 := wrap8 (Int.tdiv i0 3)
  { q := level p.1 p.2, ix0 := wrap8 (i0 - ix2 * 3), ix1 := wrap8 p.2, ix2 := ix2 }

/-- For each of the 75 pairs: the three indices are in range, they name the pair, and the dequantiser maps them back to
    the level (kernel evaluation over the complete visiting order). -/
theorem post_all : visitOrder.all (fun p =>
    decide (0 ≤ (post p).ix0 ∧ (post p).ix0 ≤ 2 ∧ 0 ≤ (post p).ix1 ∧ (post p).ix1 ≤ 4 ∧ 0 ≤ (post p).ix2 ∧ (post p).ix2 ≤ 4 ∧
      (post p).ix0 + 3 * (post p).ix2 = (p.1 : Int) ∧ (post p).ix1 = (p.2 : Int) ∧ (post p).q = level p.1 p.2 ∧
      decodeOne (post p).ix0 (post p).ix1 (post p).ix2 = .ok (post p).q)) = true := by
  decide +kernel

theorem post_spec {p : Nat × Nat} (h : p ∈ visitOrder) :
    0 ≤ (post p).ix0 ∧ (post p).ix0 ≤ 2 ∧ 0 ≤ (post p).ix1 ∧ (post p).ix1 ≤ 4 ∧ 0 ≤ (post p).ix2 ∧ (post p).ix2 ≤ 4 ∧
      (post p).ix0 + 3 * (post p).ix2 = (p.1 : Int) ∧ (post p).ix1 = (p.2 : Int) ∧ (post p).q = level p.1 p.2 ∧
      decodeOne (post p).ix0 (post p).ix1 (post p).ix2 = .ok (post p).q := by
  have := List.all_eq_true.mp post_all p h
  simpa using this

/-- One predictor on the whole defined domain. -/
theorem quantOne_total (pred qIn a b : Int) (hlo : -2147483648 ≤ pred) (hhi : pred ≤ 2147470282) :
    ∃ r ∈ visitOrder, quantOne pred qIn a b = some (post r) ∧
      ∀ p ∈ visitOrder, sabs (pred - lv r) ≤ sabs (pred - lv p) := by
  obtain ⟨r, hr, hscan, hall⟩ := scan_total pred qIn a b hlo hhi
  refine ⟨r, hr, ?_, hall⟩
  unfold quantOne
  have : scan pred visitOrder { errMin := int32Max, q := qIn, i0 := a, i1 := b } = some (stOf pred r) := hscan
  rw [this]
  rfl

theorem tdiv5 {x y : Int} (hx0 : 0 ≤ x) (hy0 : 0 ≤ y) (hy : y ≤ 4) : Int.tdiv (5 * x + y) 5 = x := by
  rw [Int.tdiv_eq_ediv_of_nonneg (by omega)]; omega

/-- `silk_stereo_quant_pred` on the whole defined domain: both searches end on nearest levels `r0`, `r1`. -/
theorem quantPred_total (p0 p1 : Int) (ixIn : List Int) (h0lo : -2147483648 ≤ p0) (h0hi : p0 ≤ 2147470282)
    (h1lo : -2147483648 ≤ p1) (h1hi : p1 ≤ 2147470282) :
    ∃ r0 ∈ visitOrder, ∃ r1 ∈ visitOrder,
      quantPred p0 p1 ixIn = some (QOut.mk (lv r0 - lv r1) (lv r1)
        [(post r0).ix0, (post r0).ix1, (post r0).ix2, (post r1).ix0, (post r1).ix1, (post r1).ix2]) ∧
      (∀ p ∈ visitOrder, sabs (p0 - lv r0) ≤ sabs (p0 - lv p)) ∧ (∀ p ∈ visitOrder, sabs (p1 - lv r1) ≤ sabs (p1 - lv p)) := by
  obtain ⟨r0, hr0, hq0, hn0⟩ := quantOne_total p0 0 (ixIn.getD 0 0) (ixIn.getD 1 0) h0lo h0hi
  obtain ⟨r1, hr1, hq1, hn1⟩ := quantOne_total p1 (post r0).q (ixIn.getD 3 0) (ixIn.getD 4 0) h1lo h1hi
  refine ⟨r0, hr0, r1, hr1, ?_, hn0, hn1⟩
  unfold quantPred
  rw [hq0]; simp only []; rw [hq1]
  rfl

/-- Any point between two list elements is within 368 of an element when neighbours are at most 736 apart. -/
theorem cover (x : Int) : ∀ (l : List Int) (a : Int), OpusProofs.SilkStereoTab.gapsLe 736 (a :: l) = true → a ≤ x →
    (∃ b ∈ a :: l, x ≤ b) → ∃ v ∈ a :: l, sabs (x - v) ≤ 368 := by
  intro l
  induction l with
  | nil =>
    intro a _ hax ⟨b, hb, hxb⟩
    simp at hb; subst hb
    exact ⟨b, by simp, by unfold sabs; split <;> omega⟩
  | cons c l ih =>
    intro a hg hax ⟨b, hb, hxb⟩
    simp only [OpusProofs.SilkStereoTab.gapsLe, Bool.and_eq_true, decide_eq_true_eq] at hg
    by_cases hxc : x ≤ c
    · by_cases hh : x - a ≤ 368
      · exact ⟨a, by simp, by unfold sabs; split <;> omega⟩
      · exact ⟨c, by simp, by unfold sabs; split <;> omega⟩
    · rcases List.mem_cons.mp hb with rfl | hb
      · exact ⟨b, by simp, by unfold sabs; split <;> omega⟩
      · obtain ⟨v, hv, hsv⟩ := ih c hg.2 (by omega) ⟨b, hb, hxb⟩
        exact ⟨v, List.mem_cons_of_mem _ hv, hsv⟩

theorem levels_shape : levels = -13364 :: levels.tail ∧ (13362 : Int) ∈ levels := by decide +kernel

/-- Inside the span some level is within 368. -/
theorem near_level (x : Int) (hlo : -13364 ≤ x) (hhi : x ≤ 13362) : ∃ p ∈ visitOrder, sabs (x - lv p) ≤ 368 := by
  have hg := OpusProofs.SilkStereoTab.levels_gaps
  rw [levels_shape.1] at hg
  obtain ⟨v, hv, hsv⟩ := cover x levels.tail (-13364) hg hlo ⟨13362, by rw [← levels_shape.1]; exact levels_shape.2, hhi⟩
  rw [← levels_shape.1] at hv
  unfold levels at hv
  obtain ⟨p, hp, rfl⟩ := List.mem_map.mp hv
  exact ⟨p, hp, hsv⟩

theorem lv_top : level 14 4 = 13362 ∧ ((14, 4) : Nat × Nat) ∈ visitOrder ∧ ((0, 0) : Nat × Nat) ∈ visitOrder := by decide +kernel

/-- Consequences of being a nearest level: error bound inside the span, saturation outside. -/
theorem nearest_conseq (x : Int) {r : Nat × Nat} (hr : r ∈ visitOrder)
    (hn : ∀ p ∈ visitOrder, sabs (x - lv r) ≤ sabs (x - lv p)) :
    (-13364 ≤ x → x ≤ 13362 → sabs (x - lv r) ≤ 368) ∧ (x ≤ -13364 → lv r = -13364) ∧ (13362 ≤ x → lv r = 13362) := by
  have hb := visit_bounds hr
  refine ⟨?_, ?_, ?_⟩
  · intro h1 h2
    obtain ⟨p, hp, hs⟩ := near_level x h1 h2
    exact Int.le_trans (hn p hp) hs
  · intro h
    have := hn (0, 0) lv_top.2.2
    simp only [lv, lv00, sabs] at this hb ⊢
    split at this <;> split at this <;> omega
  · intro h
    have := hn (14, 4) lv_top.2.1
    simp only [lv, lv_top.1, sabs] at this hb ⊢
    split at this <;> split at this <;> omega

/-- The symbol layer's dequantiser (OpusModel/SilkSyms.lean `stereoMk`, over its frozen table copy) and this model agree
    on every index tuple below the iCDF table sizes, and the predictors are in range (5625 tuples, kernel evaluation). -/
theorem symlayer_all : (List.range 25).all (fun n => (List.range 3).all fun a0 => (List.range 5).all fun a1 =>
    (List.range 3).all fun b0 => (List.range 5).all fun b1 =>
      decodePred n a0 a1 b0 b1 == .ok ((SilkSyms.stereoMk n a0 a1 b0 b1).pred0, (SilkSyms.stereoMk n a0 a1 b0 b1).pred1) &&
      decide (-26726 ≤ (SilkSyms.stereoMk n a0 a1 b0 b1).pred0 ∧ (SilkSyms.stereoMk n a0 a1 b0 b1).pred0 ≤ 26726 ∧
        -13364 ≤ (SilkSyms.stereoMk n a0 a1 b0 b1).pred1 ∧ (SilkSyms.stereoMk n a0 a1 b0 b1).pred1 ≤ 13362)) = true := by
  decide +kernel

theorem symlayer_spec {n a0 a1 b0 b1 : Nat} (hn : n < 25) (ha0 : a0 < 3) (ha1 : a1 < 5) (hb0 : b0 < 3) (hb1 : b1 < 5) :
    decodePred n a0 a1 b0 b1 = .ok ((SilkSyms.stereoMk n a0 a1 b0 b1).pred0, (SilkSyms.stereoMk n a0 a1 b0 b1).pred1) ∧
      -26726 ≤ (SilkSyms.stereoMk n a0 a1 b0 b1).pred0 ∧ (SilkSyms.stereoMk n a0 a1 b0 b1).pred0 ≤ 26726 ∧
        -13364 ≤ (SilkSyms.stereoMk n a0 a1 b0 b1).pred1 ∧ (SilkSyms.stereoMk n a0 a1 b0 b1).pred1 ≤ 13362 := by
  have h := symlayer_all
  simp only [List.all_eq_true, List.mem_range, Bool.and_eq_true, beq_iff_eq, decide_eq_true_eq] at h
  exact h n hn a0 ha0 a1 ha1 b0 hb0 b1 hb1

end OpusProofs.SilkStereoMain
