import OpusProofs.SilkCoreTotal
/-
  OpusProofs.SilkCoreHist — totality of `silk_decode_core` and of the good-frame path, preservation of the state invariant,
  and the induction over frame histories (property C03, slice SilkCore).
-/
namespace Opus.SilkCoreProofs
open Opus Opus.SilkParams Opus.SilkCore Opus.Gen Opus.Frozen

theorem subframes_total (s : DecState) (f : FrameIn) (ctrl : Ctrl) (ifl : Bool) (exc : List Int) (H : CoreHyp s f ctrl)
    (hexc : s.nbSubfr * subfrLen s.fsKHz ≤ exc.length) :
    ∀ (n k : Nat) (c : CoreSt), k + n = s.nbSubfr → SubInv s f ctrl k c →
      ∃ c', subframes s f ctrl ifl exc n k c = .ok c' ∧ SubInv s f ctrl s.nbSubfr c' := by
  intro n
  induction n with
  | zero => intro k c hk I; exact ⟨c, rfl, by rw [← hk]; exact I⟩
  | succ n ih =>
    intro k c hkn I
    have hle : (k + 1) * subfrLen s.fsKHz ≤ s.nbSubfr * subfrLen s.fsKHz := Nat.mul_le_mul_right _ (by omega)
    obtain ⟨c1, h1, I1⟩ := subframe_total s f ctrl ifl exc k c H (by omega) I (Nat.le_trans hle hexc)
    obtain ⟨c2, h2⟩ := ih (k + 1) c1 (by omega) I1
    simp only [subframes, h1, Res.bind_ok]
    exact ⟨c2, h2⟩

/-- `silk_decode_core` is total under `CoreHyp`. -/
theorem decodeCore_total (s : DecState) (f : FrameIn) (ctrl : Ctrl) (interp : Int) (H : CoreHyp s f ctrl) :
    ∃ o, decodeCore s f ctrl interp = .ok o ∧ o.pitchL.length = s.nbSubfr := by
  obtain ⟨off, hoff⟩ := quantOffset_ok f.signalType f.quantOffsetType H.sig H.qoff
  have hpl : (f.pulses.take (frameLen s.fsKHz s.nbSubfr)).length = frameLen s.fsKHz s.nbSubfr := by
    rw [List.length_take]; have := H.pulses; omega
  obtain ⟨c, hc, Ic⟩ := subframes_total s f ctrl (decide (interp < 4))
    (excLoop off f.seed (f.pulses.take (frameLen s.fsKHz s.nbSubfr))) H
    (by rw [excLoop_len, hpl]; exact Nat.le_refl _) s.nbSubfr 0
    { hist := s.sLPC.reverse, ltpH := [], outBuf := s.outBuf, xq := [], prevGainQ16 := s.prevGainQ16,
      ltpCoef := ctrl.ltpCoef, pitchL := ctrl.pitchL, ub := 0 } (by omega)
    { pl := H.pitchLen, ob := H.outLen, same := fun _ => rfl, lh := fun h => absurd h (by omega) }
  unfold decodeCore
  simp only [hoff, Res.bind_ok]
  rw [if_neg (by rw [hpl]; exact Nat.lt_irrefl _)]
  simp only [hc, Res.bind_ok, Res.pure_eq]
  exact ⟨_, rfl, Ic.pl⟩

/-- The good-frame path is total on an invariant state with in-range indices; the new state satisfies the invariant again,
    keeps the configuration, and the frame consists of `frame_length` `opus_int16` samples. -/
theorem frameGood_total (s : DecState) (f : FrameIn) (hs : StateOk s) (hf : FrameOk s.fsKHz s.nbSubfr f) :
    ∃ o, frameGood s f = .ok o ∧ StateOk o.st ∧ o.st.fsKHz = s.fsKHz ∧ o.st.nbSubfr = s.nbSubfr ∧
      o.core.xq.length = frameLen s.fsKHz s.nbSubfr ∧ ∀ x ∈ o.core.xq, I16 x := by
  obtain ⟨p, hp, P⟩ := decodeParameters_total s f hs hf
  obtain ⟨hsf, hm, hfl, _⟩ := cfg_nums hs.cfg
  have hfs : s.fsKHz ≤ 16 := by rcases hs.cfg.1 with h | h | h <;> omega
  have hnb : 2 ≤ s.nbSubfr ∧ s.nbSubfr ≤ 4 := by rcases hs.cfg.2 with h | h <;> omega
  have H : CoreHyp { s with lastGainIndex := p.lastGainIndex, prevNlsf := p.prevNlsf } f p.ctrl :=
    { cfg := hs.cfg, outLen := hs.outLen, sig := hf.sig, qoff := hf.qoff, pulses := hf.pulses, gainsLen := P.gainsLen,
      gainsNz := fun g hg => by have := (P.gainsPos g hg).1; omega, pitchLen := P.pitchLen, pitchRange := P.pitchRange,
      pitchSpread := P.pitchSpread, lagPrev := hs.lag }
  obtain ⟨c, hc, hcl⟩ := decodeCore_total _ f p.ctrl p.interp H
  obtain ⟨xI, xL, sL, eL⟩ := decodeCore_spec _ f p.ctrl p.interp c hc
  obtain ⟨oL, oI⟩ := decodeCore_outBuf _ f p.ctrl p.interp c hc (by
    show ltpMemLen s.fsKHz + 2 * subfrLen s.fsKHz ≤ s.outBuf.length
    rw [hs.outLen, hm, hsf]; omega) hs.outI16
  have hcl : c.pitchL.length = s.nbSubfr := hcl
  have xL : c.xq.length = frameLen s.fsKHz s.nbSubfr := xL
  have sL : s.sLPC.length = 16 → c.sLPC.length = 16 := sL
  have eL : frameLen s.fsKHz s.nbSubfr ≤ s.excQ14.length → c.excQ14.length = s.excQ14.length := eL
  have oL : c.outBuf.length = s.outBuf.length := oL
  obtain ⟨lp, hlp⟩ := getI_ok c.pitchL ((s.nbSubfr : Int) - 1) (by omega) (by
    show ((s.nbSubfr : Int) - 1).toNat < c.pitchL.length
    rw [hcl]; omega)
  have hmf : ¬ ltpMemLen s.fsKHz < frameLen s.fsKHz s.nbSubfr := by
    rw [hm, hfl]
    have : s.nbSubfr * (5 * s.fsKHz) ≤ 4 * (5 * s.fsKHz) := Nat.mul_le_mul_right _ hnb.2
    omega
  have hup := outBufUpdate_spec s.fsKHz s.nbSubfr c.outBuf c.xq hs.cfg (by rw [oL]; exact hs.outLen) xL oI xI
  unfold frameGood
  simp only [hp, hc, Res.bind_ok]
  rw [if_neg hmf]
  simp only [hlp, Res.bind_ok, Res.pure_eq]
  refine ⟨_, rfl, ?_, rfl, rfl, xL, xI⟩
  exact { cfg := hs.cfg, slpc := sL hs.slpc, outLen := hup.1, outI16 := hup.2,
          excLen := by
            show c.excQ14.length = 320
            rw [eL (by
              show frameLen s.fsKHz s.nbSubfr ≤ s.excQ14.length
              rw [hs.excLen, hfl]
              have : s.nbSubfr * (5 * s.fsKHz) ≤ 4 * (5 * s.fsKHz) := Nat.mul_le_mul_right _ hnb.2
              omega)]
            exact hs.excLen
          nlsfLen := P.nlsfLen, nlsfRange := P.nlsfRange, lgi := P.lgi,
          lag := fun h => absurd rfl h }

/-- Histories: any number of good frames with in-range indices from an invariant state. -/
theorem runFrames_total : ∀ (fs : List FrameIn) (s : DecState), StateOk s → (∀ f ∈ fs, FrameOk s.fsKHz s.nbSubfr f) →
    ∃ xs s', runFrames s fs = some (xs, s') ∧ StateOk s' ∧ s'.fsKHz = s.fsKHz ∧ s'.nbSubfr = s.nbSubfr ∧
      xs.length = fs.length ∧ ∀ xq ∈ xs, xq.length = frameLen s.fsKHz s.nbSubfr ∧ ∀ x ∈ xq, I16 x := by
  intro fs
  induction fs with
  | nil => intro s hs _; exact ⟨[], s, rfl, hs, rfl, rfl, rfl, by simp⟩
  | cons f rest ih =>
    intro s hs hf
    obtain ⟨o, ho, hso, e1, e2, xl, xi⟩ := frameGood_total s f hs (hf f List.mem_cons_self)
    obtain ⟨xs, s', hr, hs', e1', e2', hl, hx⟩ := ih o.st hso (by
      intro g hg; rw [e1, e2]; exact hf g (List.mem_cons_of_mem _ hg))
    refine ⟨o.core.xq :: xs, s', ?_, hs', by rw [e1', e1], by rw [e2', e2], by simp [hl], ?_⟩
    · simp only [runFrames, ho, hr]
    · intro xq hxq
      rcases List.mem_cons.mp hxq with h | h
      · rw [h]; exact ⟨xl, xi⟩
      · have := hx xq h; rw [e1, e2] at this; exact this

end Opus.SilkCoreProofs
