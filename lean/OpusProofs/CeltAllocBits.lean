import OpusProofs.CeltAllocAgree
/-
  OpusProofs.CeltAllocBits — every flag the allocation hands to `ec_enc_bit_logp` is 0 or 1 (so that the value the
  range decoder returns for it is the value itself).
-/
namespace OpusProofs.CeltAlloc
open Opus Opus.CeltAlloc
open Opus.Gen.CeltTables

def BitOk : Op → Prop
  | .bit v => v ≤ 1
  | .uint _ _ => True

def BitsOk (l : List Op) : Prop := ∀ op ∈ l, BitOk op

theorem BitsOk.cons {op : Op} {l : List Op} (h1 : BitOk op) (h2 : BitsOk l) : BitsOk (op :: l) := by
  intro o ho
  rcases List.mem_cons.mp ho with rfl | ho
  · exact h1
  · exact h2 o ho

theorem bitOk_ite (b : Prop) [Decidable b] : BitOk (.bit (if b then 1 else 0)) := by
  show (if b then 1 else 0) ≤ 1
  split <;> omega

theorem decBit_bits (c : Coder) (h : BitsOk c.ops) : BitsOk c.decBit.2.ops := by
  unfold Coder.decBit
  exact BitsOk.cons (by show _ % 2 ≤ 1; omega) h

theorem skipStep_bits (p : Inp) (b : Band) (bits psum total irsv : Int) (c : Coder) (h : BitsOk c.ops) :
    BitsOk (skipStep p b bits psum total irsv c).coder.ops := by
  unfold skipStep
  simp only []
  split
  · split
    · exact BitsOk.cons (bitOk_ite _) h
    · exact decBit_bits c h
  · exact h

theorem skipLoop_bits (p : Inp) (ss : Nat) (rsv : Int) :
    ∀ (l : List (Band × Int)) (psum total irsv : Int) (c : Coder) (acc : List (Band × Int)) (s : SkipOut),
    BitsOk c.ops → skipLoop p ss rsv l psum total irsv c acc = .ok s → BitsOk s.coder.ops := by
  intro l
  induction l with
  | nil => intro _ _ _ _ _ _ _ h; simp [skipLoop] at h
  | cons hd tl ih =>
    intro psum total irsv c acc s hc h
    obtain ⟨b, bits⟩ := hd
    rw [skipLoop] at h
    by_cases hj : b.j ≤ ss
    · simp only [hj, if_true] at h
      injection h with h
      subst h
      exact hc
    · simp only [hj, if_false] at h
      by_cases hstop : (skipStep p b bits psum total irsv c).stop = true
      · simp only [hstop, if_true] at h
        injection h with h
        subst h
        exact skipStep_bits p b bits psum total irsv c hc
      · simp only [hstop, if_false] at h
        exact ih _ _ _ _ _ s (skipStep_bits p b bits psum total irsv c hc) h

theorem codeStereo_bits (p : Inp) (s : SkipOut) (dsrsv : Int) (h : BitsOk s.coder.ops) :
    BitsOk (codeStereo p s dsrsv).2.2.2.ops := by
  unfold codeStereo
  simp only []
  have h1 : BitsOk (if s.irsv > 0 then
      if s.coder.encode = true then
        (min p.intensity ↑s.codedBands, s.coder.encUint (min p.intensity ↑s.codedBands - ↑p.start).toNat (s.codedBands + 1 - p.start))
      else (↑p.start + ↑(s.coder.decUint (s.codedBands + 1 - p.start)).fst, (s.coder.decUint (s.codedBands + 1 - p.start)).snd)
      else (0, s.coder)).2.ops := by
    split
    · split
      · exact BitsOk.cons trivial h
      · exact BitsOk.cons trivial h
    · exact h
  generalize (if s.irsv > 0 then
      if s.coder.encode = true then
        (min p.intensity ↑s.codedBands, s.coder.encUint (min p.intensity ↑s.codedBands - ↑p.start).toNat (s.codedBands + 1 - p.start))
      else (↑p.start + ↑(s.coder.decUint (s.codedBands + 1 - p.start)).fst, (s.coder.decUint (s.codedBands + 1 - p.start)).snd)
      else (0, s.coder)) = ic at *
  generalize (if ic.1 ≤ (p.start : Int) then 0 else dsrsv) = ds'
  split
  · split
    · exact BitsOk.cons (bitOk_ite _) h1
    · exact decBit_bits _ h1
  · exact h1

/-- All `ec_enc_bit_logp` arguments of a run of `clt_compute_allocation` are 0 or 1. -/
theorem alloc_bits (p : Inp) (c : Coder) (o : Out) (hc : c.ops = []) (h : computeAllocation p c = .ok o) : BitsOk o.ops := by
  rw [computeAllocation_eq] at h
  have hfin : finish p (bands p) (b12 p) (skipStart p.start (bands p)) (tot p) (skipRsv p)
      (irsv p) (dsrsv p) (ilo p) c =
      (skipLoop p (skipStart p.start (bands p)) (skipRsv p) (l0 p) (sumInt (bits0 p)) (tot p) (irsv p) c [] >>=
        fun s => pure (finishTail p s (dsrsv p))) := rfl
  rw [hfin] at h
  cases hs : skipLoop p (skipStart p.start (bands p)) (skipRsv p) (l0 p) (sumInt (bits0 p)) (tot p) (irsv p) c [] with
  | ok s =>
    rw [hs] at h
    have ho : o = finishTail p s (dsrsv p) := by
      have : (Res.ok (finishTail p s (dsrsv p)) : Res Out) = .ok o := h
      injection this with this; exact this.symm
    have h1 := skipLoop_bits p _ _ _ _ _ _ c [] s (by rw [hc]; intro _ hh; cases hh) hs
    have h2 := codeStereo_bits p s (dsrsv p) h1
    rw [ho]
    intro op hop
    simp only [finishTail, List.mem_reverse] at hop
    exact h2 op hop
  | err e => rw [hs] at h; cases h
  | oob => rw [hs] at h; cases h
  | abort => rw [hs] at h; cases h

end OpusProofs.CeltAlloc
