import Mathlib.Tactic.Ring
import OpusModel.CeltBandsEnc
import Mathlib.Tactic.Linarith
/-
  OpusProofs.CeltBandsTri — the triangular PDF of `compute_theta` (bands.c:810-848): the decoder's closed-form inverse
  (two integer square roots) returns the `itheta` the encoder coded, from every point of the encoder's interval, and
  recomputes the same interval.  Pure arithmetic on `Nat.sqrt`.
-/
namespace OpusProofs.Tri

/-- triangular number as the C code computes it: `n*(n+1)>>1` -/
def T (n : Nat) : Nat := n * (n + 1) / 2

theorem T_two (n : Nat) : T n * 2 = n * (n + 1) := by
  unfold T
  have h : n * (n + 1) % 2 = 0 := by
    rcases Nat.even_or_odd' n with ⟨k, rfl | rfl⟩
    · have : 2 * k * (2 * k + 1) = 2 * (k * (2 * k + 1)) := by ring
      rw [this]; exact Nat.mul_mod_right _ _
    · have : (2 * k + 1) * (2 * k + 1 + 1) = 2 * ((2 * k + 1) * (k + 1)) := by ring
      rw [this]; exact Nat.mul_mod_right _ _
  omega

theorem T_succ (n : Nat) : T (n + 1) = T n + (n + 1) := by
  have a := T_two n
  have b := T_two (n + 1)
  nlinarith

theorem T_mono {a b : Nat} (h : a ≤ b) : T a ≤ T b := by
  have a2 := T_two a
  have b2 := T_two b
  nlinarith

theorem le_sqrt_of_sq_le {a n : Nat} (h : a * a ≤ n) : a ≤ Nat.sqrt n := by
  by_contra hc
  have h1 : Nat.sqrt n + 1 ≤ a := by omega
  have h2 := Nat.lt_succ_sqrt n
  have h3 : (Nat.sqrt n + 1) * (Nat.sqrt n + 1) ≤ a * a := Nat.mul_le_mul h1 h1
  have : Nat.succ (Nat.sqrt n) = Nat.sqrt n + 1 := rfl
  rw [this] at h2
  omega

theorem sqrt_lt_of_lt_sq {b n : Nat} (h : n < b * b) : Nat.sqrt n < b := by
  by_contra hc
  have h1 : b ≤ Nat.sqrt n := by omega
  have h2 := Nat.sqrt_le n
  have h3 : b * b ≤ Nat.sqrt n * Nat.sqrt n := Nat.mul_le_mul h1 h1
  omega

/-- `T k ≤ g < T (k+1)` pins `isqrt(8g+1)` to `2k+1` or `2k+2` -/
theorem sqrt_band (g k : Nat) (h1 : T k ≤ g) (h2 : g < T (k + 1)) :
    2 * k + 1 ≤ Nat.sqrt (8 * g + 1) ∧ Nat.sqrt (8 * g + 1) < 2 * k + 3 := by
  have a := T_two k
  have b := T_two (k + 1)
  constructor
  · apply le_sqrt_of_sq_le; nlinarith
  · apply sqrt_lt_of_lt_sq; nlinarith

/-- `(h+1)^2 = T h + T (h+1)` -/
theorem sq_eq (h : Nat) : (h + 1) * (h + 1) = T h + T (h + 1) := by
  have a := T_two h
  have b := T_two (h + 1)
  nlinarith

/-- what the decoder computes from the decoded point `fm` (bands.c:826-846): `(itheta, fl, fh)` -/
def decIt (qn fm : Nat) : Nat :=
  if fm < (qn / 2) * (qn / 2 + 1) / 2 then (Nat.sqrt (8 * fm + 1) - 1) / 2
  else (2 * (qn + 1) - Nat.sqrt (8 * ((qn / 2 + 1) * (qn / 2 + 1) - fm - 1) + 1)) / 2

def decFl (qn fm : Nat) : Nat :=
  if fm < (qn / 2) * (qn / 2 + 1) / 2 then decIt qn fm * (decIt qn fm + 1) / 2
  else (qn / 2 + 1) * (qn / 2 + 1) - (qn + 1 - decIt qn fm) * (qn + 2 - decIt qn fm) / 2

def decFs (qn fm : Nat) : Nat :=
  if fm < (qn / 2) * (qn / 2 + 1) / 2 then decIt qn fm + 1 else qn + 1 - decIt qn fm

/-- what the encoder codes for `itheta = x` (bands.c:816-822): the encoder model's own functions -/
abbrev encFl (qn x : Nat) : Nat := Opus.CeltBandsEnc.triFl qn x
abbrev encFs (qn x : Nat) : Nat := Opus.CeltBandsEnc.triFs qn x

/-- **The triangular PDF is decoded correctly**: for an even `qn`, `x ≤ qn` and every point `fm` of the interval
    `[fl, fl+fs)` the encoder codes for `x`, the decoder finds `x` and recomputes the same interval. -/
theorem tri_inv (qn x fm : Nat) (heven : qn % 2 = 0) (hx : x ≤ qn) (h1 : encFl qn x ≤ fm) (h2 : fm < encFl qn x + encFs qn x) :
    decIt qn fm = x ∧ decFl qn fm = encFl qn x ∧ decFs qn fm = encFs qn x := by
  obtain ⟨h, rfl⟩ : ∃ h, qn = 2 * h := ⟨qn / 2, by omega⟩
  have hh : 2 * h / 2 = h := by omega
  have hft := sq_eq h
  have hT1 := T_succ h
  -- the decoder's formulas only depend on `decIt`; reduce everything to `decIt = x`
  suffices hit : decIt (2 * h) fm = x by
    refine ⟨hit, ?_, ?_⟩
    · unfold decFl encFl Opus.CeltBandsEnc.triFl
      rw [hit, hh]
      by_cases hxh : x ≤ h
      · rw [if_pos hxh]
        by_cases hb : fm < h * (h + 1) / 2
        · rw [if_pos hb]
        · rw [if_neg hb]
          -- x = h
          unfold encFl encFs Opus.CeltBandsEnc.triFl Opus.CeltBandsEnc.triFs at h2
          rw [hh, if_pos hxh, if_pos hxh] at h2
          have e1 : x * (x + 1) / 2 = T x := rfl
          have e2 : h * (h + 1) / 2 = T h := rfl
          rw [e1] at h2; rw [e2] at hb
          have hxeq : x = h := by
            by_contra hne
            have : x + 1 ≤ h := by omega
            have := T_mono this
            have := T_succ x
            omega
          subst hxeq
          have e3 : (2 * x + 1 - x) * (2 * x + 2 - x) / 2 = T (x + 1) := by
            have : 2 * x + 1 - x = x + 1 := by omega
            have : 2 * x + 2 - x = x + 1 + 1 := by omega
            unfold T; simp only [*]
          rw [e3, hft, e1]; omega
      · rw [if_neg hxh]
        have hb : ¬ fm < h * (h + 1) / 2 := by
          unfold encFl Opus.CeltBandsEnc.triFl at h1
          rw [hh, if_neg hxh] at h1
          have e2 : h * (h + 1) / 2 = T h := rfl
          have e4 : (2 * h + 1 - x) * (2 * h + 2 - x) / 2 = T (2 * h + 1 - x) := by
            have : 2 * h + 2 - x = 2 * h + 1 - x + 1 := by omega
            unfold T; rw [this]
          rw [e2]; rw [e4, hft] at h1
          have := T_mono (show 2 * h + 1 - x ≤ h by omega)
          omega
        rw [if_neg hb]
    · unfold decFs encFs Opus.CeltBandsEnc.triFs
      rw [hit, hh]
      by_cases hxh : x ≤ h
      · rw [if_pos hxh]
        by_cases hb : fm < h * (h + 1) / 2
        · rw [if_pos hb]
        · rw [if_neg hb]
          unfold encFl encFs Opus.CeltBandsEnc.triFl Opus.CeltBandsEnc.triFs at h2
          rw [hh, if_pos hxh, if_pos hxh] at h2
          have e1 : x * (x + 1) / 2 = T x := rfl
          have e2 : h * (h + 1) / 2 = T h := rfl
          rw [e1] at h2; rw [e2] at hb
          have hxeq : x = h := by
            by_contra hne
            have : x + 1 ≤ h := by omega
            have := T_mono this
            have := T_succ x
            omega
          omega
      · rw [if_neg hxh]
        have hb : ¬ fm < h * (h + 1) / 2 := by
          unfold encFl Opus.CeltBandsEnc.triFl at h1
          rw [hh, if_neg hxh] at h1
          have e2 : h * (h + 1) / 2 = T h := rfl
          have e4 : (2 * h + 1 - x) * (2 * h + 2 - x) / 2 = T (2 * h + 1 - x) := by
            have : 2 * h + 2 - x = 2 * h + 1 - x + 1 := by omega
            unfold T; rw [this]
          rw [e2]; rw [e4, hft] at h1
          have := T_mono (show 2 * h + 1 - x ≤ h by omega)
          omega
        rw [if_neg hb]
  -- the square roots
  unfold decIt
  rw [hh]
  have e2 : h * (h + 1) / 2 = T h := rfl
  rw [e2]
  unfold encFl Opus.CeltBandsEnc.triFl at h1
  unfold encFl encFs Opus.CeltBandsEnc.triFl Opus.CeltBandsEnc.triFs at h2
  rw [hh] at h1 h2
  by_cases hxh : x ≤ h
  · rw [if_pos hxh] at h1 h2
    rw [if_pos hxh] at h2
    have e1 : x * (x + 1) / 2 = T x := rfl
    rw [e1] at h1 h2
    have hTx := T_succ x
    by_cases hb : fm < T h
    · rw [if_pos hb]
      obtain ⟨s1, s2⟩ := sqrt_band fm x h1 (by omega)
      omega
    · rw [if_neg hb]
      have hxeq : x = h := by
        by_contra hne
        have : x + 1 ≤ h := by omega
        have := T_mono this
        omega
      subst hxeq
      obtain ⟨s1, s2⟩ := sqrt_band ((x + 1) * (x + 1) - fm - 1) x (by rw [hft]; omega) (by rw [hft]; omega)
      omega
  · rw [if_neg hxh] at h1 h2
    rw [if_neg hxh] at h2
    have e4 : (2 * h + 1 - x) * (2 * h + 2 - x) / 2 = T (2 * h + 1 - x) := by
      have : 2 * h + 2 - x = 2 * h + 1 - x + 1 := by omega
      unfold T; rw [this]
    rw [e4, hft] at h1 h2
    obtain ⟨k, hk⟩ : ∃ k, 2 * h + 1 - x = k + 1 := ⟨2 * h - x, by omega⟩
    rw [hk] at h1 h2
    have hTk := T_succ k
    have hmono := T_mono (show k + 1 ≤ h by omega)
    have hb : ¬ fm < T h := by omega
    rw [if_neg hb]
    obtain ⟨s1, s2⟩ := sqrt_band ((h + 1) * (h + 1) - fm - 1) k (by rw [hft]; omega) (by rw [hft]; omega)
    omega

end OpusProofs.Tri
