import OpusModel.DelayChannels
/-
  OpusProofs.DelayChannels — channel identity of the multistream routing (property C04, clause
  "channels keep their identity: left stays left, no swap").

  The multistream *encoder* fills stream `s` from the input channels
      left  = get_left_channel (layout, s, -1),  right = get_right_channel(layout, s, -1)   (coupled stream)
      chan  = get_mono_channel (layout, s, -1)                                               (mono stream)
  (src/opus_multistream_encoder.c:942-943, 961), i.e. from the *first* channel whose mapping byte designates that
  stream and side.  The multistream *decoder* writes into output channel `c` the stream and side its mapping byte
  designates (`Opus.Layout.expectedSrc`; that the routing loop of opus_multistream_decode_native delivers exactly
  this is property C10's theorem `OpusProps.C10.routing` / `routing_pcm`, about the same model).

  Here: the two selections are inverse to each other.
    * `encoderInput_expectedSrc` : output channel `c` receives the (stream, side) that the encoder filled from input
      channel `c` itself — for every channel whose mapping byte is not 255 and does not repeat an earlier one;
    * `expectedSrc_encoderInput` : conversely, the (stream, side) the encoder fills from channel `c` is what the
      decoder writes to channel `c`, for every stream of every layout both validators accept;
    * `surround_identity`        : for the layouts opus_multistream_surround_encoder_create builds (families 0, 1
      with the regenerated Vorbis table, 255) this covers every channel.
  The model `OpusModel.Layout` belongs to property C10 and is imported read-only; `encoderInput` and the Boolean
  checks are in `OpusModel.DelayChannels`.  Core Lean only.
-/
namespace Opus.DelayChannels
open Opus Opus.Layout

/-- The scan returns the position of the first occurrence. -/
theorem scanFrom_first (target : Nat) : ∀ (xs : List Nat) (i k : Nat),
    xs[k]? = some target → (∀ j, j < k → xs[j]? ≠ some target) → scanFrom target xs i = ((i + k : Nat) : Int)
  | [], _, k, h, _ => by simp at h
  | x :: xs, i, 0, h, _ => by
    simp only [List.getElem?_cons_zero, Option.some.injEq] at h
    simp [scanFrom, h]
  | x :: xs, i, k + 1, h, hf => by
    have hx : x ≠ target := by
      intro e
      exact hf 0 (by omega) (by simp [e])
    simp only [List.getElem?_cons_succ] at h
    unfold scanFrom
    rw [if_neg hx, scanFrom_first target xs (i + 1) k h (fun j hj => by
      have := hf (j + 1) (by omega)
      simpa only [List.getElem?_cons_succ] using this)]
    congr 1; omega

/-- A successful scan points at an occurrence of the target. -/
theorem scanFrom_hit (target : Nat) : ∀ (xs : List Nat) (i : Nat) (r : Int),
    scanFrom target xs i = r → r ≠ -1 → ∃ k, r = ((i + k : Nat) : Int) ∧ xs[k]? = some target
  | [], _, r, h, hr => by simp [scanFrom] at h; omega
  | x :: xs, i, r, h, hr => by
    unfold scanFrom at h
    by_cases hx : x = target
    · rw [if_pos hx] at h
      exact ⟨0, by simpa using h.symm, by simp [hx]⟩
    · rw [if_neg hx] at h
      obtain ⟨k, hk, hg⟩ := scanFrom_hit target xs (i + 1) r h hr
      exact ⟨k + 1, by rw [hk]; congr 1; omega, by simpa only [List.getElem?_cons_succ] using hg⟩

theorem findChannel_first (l : ChannelLayout) (target : Nat) :
    findChannel l target (-1) = scanFrom target (l.mapping.take l.nbChannels) 0 := by
  unfold findChannel
  simp

theorem take_get (l : ChannelLayout) (c : Nat) (hc : c < l.nbChannels) :
    (l.mapping.take l.nbChannels)[c]? = l.mapping[c]? := by
  rw [List.getElem?_take]; simp [hc]

/-- First-occurrence form of `findChannel`. -/
theorem findChannel_eq_of_first (l : ChannelLayout) (c v : Nat) (hc : c < l.nbChannels)
    (hv : l.mapping[c]? = some v) (hfirst : ∀ j, j < c → l.mapping[j]? ≠ some v) :
    findChannel l v (-1) = (c : Int) := by
  rw [findChannel_first, scanFrom_first v _ 0 c (by rw [take_get l c hc]; exact hv)
    (fun j hj => by rw [take_get l j (by omega)]; exact hfirst j hj)]
  simp

/-- Decoder after encoder, on channels. -/
theorem encoderInput_expectedSrc (l : ChannelLayout) (c v : Nat) (hc : c < l.nbChannels)
    (hv : l.mapping[c]? = some v) (h255 : v ≠ 255) (hfirst : ∀ j, j < c → l.mapping[j]? ≠ some v) :
    encoderInput l (expectedSrc l c) = (c : Int) := by
  have hget : l.mapping.getD c 255 = v := by
    rw [List.getD_eq_getElem?_getD, hv]; rfl
  have key := findChannel_eq_of_first l c v hc hv hfirst
  unfold expectedSrc
  simp only [hget, h255, if_false]
  by_cases h1 : v < 2 * l.nbCoupled
  · rw [if_pos h1]
    by_cases h2 : v % 2 = 0
    · rw [if_pos h2]
      show getLeftChannel l (v / 2) (-1) = _
      unfold getLeftChannel
      have : v / 2 * 2 = v := by omega
      rw [this]; exact key
    · rw [if_neg h2]
      show getRightChannel l (v / 2) (-1) = _
      unfold getRightChannel
      have : v / 2 * 2 + 1 = v := by omega
      rw [this]; exact key
  · rw [if_neg h1]
    show getMonoChannel l (v - l.nbCoupled) (-1) = _
    unfold getMonoChannel
    have : v - l.nbCoupled + l.nbCoupled = v := by omega
    rw [this]; exact key

/-- The sides of the streams of a layout: `left s`/`right s` for coupled streams, `mono s` for the others. -/
def IsStreamSide (l : ChannelLayout) : Src → Prop
  | .left s => s < l.nbCoupled
  | .right s => s < l.nbCoupled
  | .mono s => l.nbCoupled ≤ s ∧ s < l.nbStreams
  | .zero => False

/-- The mapping byte that designates a stream side. -/
def byteOf (l : ChannelLayout) : Src → Nat
  | .left s => s * 2
  | .right s => s * 2 + 1
  | .mono s => s + l.nbCoupled
  | .zero => 255

theorem encoderInput_eq (l : ChannelLayout) (src : Src) (h : src ≠ .zero) :
    encoderInput l src = findChannel l (byteOf l src) (-1) := by
  cases src <;> first | rfl | exact absurd rfl h

/-- Encoder after decoder, on stream sides: if the encoder fills `src` from channel `c`, the decoder writes `src`
    to channel `c`.  Needs only the size conditions both validators enforce. -/
theorem expectedSrc_encoderInput (l : ChannelLayout) (src : Src) (hs : IsStreamSide l src)
    (hcs : l.nbCoupled ≤ l.nbStreams) (h255 : l.nbStreams + l.nbCoupled ≤ 255)
    (c : Int) (hc : encoderInput l src = c) (hne : c ≠ -1) :
    0 ≤ c ∧ c.toNat < l.nbChannels ∧ expectedSrc l c.toNat = src := by
  have hz : src ≠ .zero := by intro e; rw [e] at hs; exact hs
  rw [encoderInput_eq l src hz, findChannel_first] at hc
  obtain ⟨k, hk, hg⟩ := scanFrom_hit _ _ 0 c hc hne
  have hkc : c.toNat = k := by rw [hk]; simp
  have hlt : k < l.nbChannels := by
    have := (List.getElem?_eq_some_iff.mp hg).1
    simp only [List.length_take] at this; omega
  rw [take_get l k hlt] at hg
  refine ⟨by rw [hk]; omega, by rw [hkc]; exact hlt, ?_⟩
  rw [hkc]
  have hget : l.mapping.getD k 255 = byteOf l src := by
    rw [List.getD_eq_getElem?_getD, hg]; rfl
  cases src with
  | zero => exact absurd rfl hz
  | left s =>
    have hs' : s < l.nbCoupled := hs
    have hb : l.mapping.getD k 255 = s * 2 := hget
    have e : s * 2 / 2 = s := by omega
    unfold expectedSrc
    simp only [hb]
    rw [if_neg (by omega), if_pos (by omega), if_pos (by omega), e]
  | right s =>
    have hs' : s < l.nbCoupled := hs
    have hb : l.mapping.getD k 255 = s * 2 + 1 := hget
    have e : (s * 2 + 1) / 2 = s := by omega
    unfold expectedSrc
    simp only [hb]
    rw [if_neg (by omega), if_pos (by omega), if_neg (by omega), e]
  | mono s =>
    have hs' : l.nbCoupled ≤ s ∧ s < l.nbStreams := hs
    have hb : l.mapping.getD k 255 = s + l.nbCoupled := hget
    have e : s + l.nbCoupled - l.nbCoupled = s := by omega
    unfold expectedSrc
    simp only [hb]
    rw [if_neg (by omega), if_neg (by omega), e]

/-- Mono/stereo (family 0), all eight Vorbis layouts (family 1, regenerated `vorbis_mappings`) and a sample of
    family 255 (one mono stream per channel): every channel is routed back to itself. -/
theorem surround_identity :
    (∀ ch ∈ [1, 2], surroundIdentity ch 0 = true) ∧
    (∀ ch ∈ [1, 2, 3, 4, 5, 6, 7, 8], surroundIdentity ch 1 = true) ∧
    (∀ ch ∈ [1, 2, 3, 5, 8, 16, 32], surroundIdentity ch 255 = true) := by
  decide +kernel

/-- Family 255 for every admissible channel count (`surroundLayout` refuses more than 255 channels): the mapping
    is `0, 1, …, ch-1` with no coupled stream, and every channel is routed back to itself. -/
theorem family255_identity (ch c : Nat) (hch : ch ≤ 255) (hc : c < ch) :
    encoderInput { nbChannels := ch, nbStreams := ch, nbCoupled := 0, mapping := List.range ch }
      (expectedSrc { nbChannels := ch, nbStreams := ch, nbCoupled := 0, mapping := List.range ch } c) = (c : Int) :=
  encoderInput_expectedSrc _ c c hc (by simp [hc]) (by omega) (fun j hj => by
    have : j < ch := by omega
    simp [this]; omega)

end Opus.DelayChannels
