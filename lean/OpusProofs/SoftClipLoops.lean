import OpusProofs.SoftClipField
/-
  OpusProofs.SoftClipLoops — element-wise specifications of the loops of `opus_pcm_soft_clip`
  (single channel: stride 1, channel 0) over an ordered field, in plain field terms.
  `g x j` is sample `j` (0 outside the buffer).
-/
set_option linter.unusedSectionVars false
namespace Opus.SoftClip
variable {F : Type} [Field F] [LinearOrder F] [IsStrictOrderedRing F]

/-- sample `j` of a buffer -/
abbrev g (x : Array F) (j : Nat) : F := x.getD j 0

/-- `MAX16(-1, MIN16(1, v))` -/
def clamp1 (v : F) : F := if v < -1 then -1 else if 1 < v then 1 else v
/-- `MAX16(-2, MIN16(2, v))` -/
def clamp2 (v : F) : F := if v < -2 then -2 else if 2 < v then 2 else v

theorem clamp1_abs (v : F) : |clamp1 v| ≤ 1 := by
  unfold clamp1; split
  · simp
  · split
    · simp
    · exact abs_le.mpr ⟨by linarith, by linarith⟩
theorem clamp1_pos {v : F} (h : 0 < v) : 0 < clamp1 v := by
  unfold clamp1; rw [if_neg (by linarith)]; split <;> linarith
theorem clamp1_neg {v : F} (h : v < 0) : clamp1 v < 0 := by
  unfold clamp1; split
  · linarith
  · rw [if_neg (by linarith)]; exact h
theorem clamp2_abs (v : F) : |clamp2 v| ≤ 2 := by
  unfold clamp2; split
  · simp
  · split
    · simp
    · exact abs_le.mpr ⟨by linarith, by linarith⟩
theorem clamp2_pos {v : F} (h : 0 < v) : 0 < clamp2 v := by
  unfold clamp2; rw [if_neg (by linarith)]; split <;> linarith
theorem clamp2_neg {v : F} (h : v < 0) : clamp2 v < 0 := by
  unfold clamp2; split
  · linarith
  · rw [if_neg (by linarith)]; exact h
theorem clamp2_zero : clamp2 (0 : F) = 0 := by
  unfold clamp2; rw [if_neg (by linarith), if_neg (by linarith)]

section
variable (eps : F)
local notation "ops" => fieldOps eps

theorem leb_ops (a b : F) : @ClipOps.leb F ops a b = decide (a ≤ b) := rfl
theorem ltb_ops (a b : F) : @ClipOps.ltb F ops a b = decide (a < b) := rfl
theorem zero_ops : @ClipOps.zero F ops = 0 := rfl
theorem one_ops : @ClipOps.one F ops = 1 := rfl
theorem abs_ops (v : F) : @ClipOps.abs F ops v = |v| := rfl
theorem ofNat_ops (n : Nat) : @ClipOps.ofNat F ops n = (n : F) := rfl
theorem nl_ops (a v : F) : @nl F ops a v = v + a * v * v := rfl
theorem rd1 (x : Array F) (j : Nat) : @rd F ops x 1 0 j = g x j := by
  show x.getD (j * 1 + 0) 0 = x.getD j 0
  rw [Nat.mul_one, Nat.add_zero]
theorem wr1 (x : Array F) (i : Nat) (v : F) : @wr F x 1 0 i v = x.setIfInBounds i v := by
  show x.setIfInBounds (i * 1 + 0) v = _
  rw [Nat.mul_one, Nat.add_zero]

theorem sat1_ops (v : F) : @sat1 F ops v = clamp1 v := by
  show (if decide ((if decide ((1 : F) < v) then (1 : F) else v) < -(1 : F)) then -(1 : F)
        else (if decide ((1 : F) < v) then (1 : F) else v)) = clamp1 v
  unfold clamp1
  by_cases h1 : (1 : F) < v
  · have : ¬ ((1 : F) < -1) := by linarith
    have h2 : ¬ (v < -1) := by linarith
    simp [h1, this, h2]
  · by_cases h2 : v < -1
    · simp [h1, h2]
    · simp [h1, h2]

theorem sat2_ops (v : F) : @sat2 F ops v = clamp2 v := by
  show (if decide ((if decide ((2 : F) < v) then (2 : F) else v) < -(2 : F)) then -(2 : F)
        else (if decide ((2 : F) < v) then (2 : F) else v)) = clamp2 v
  unfold clamp2
  by_cases h1 : (2 : F) < v
  · have : ¬ ((2 : F) < -2) := by linarith
    have h2 : ¬ (v < -2) := by linarith
    simp [h1, this, h2]
  · by_cases h2 : v < -2
    · simp [h1, h2]
    · simp [h1, h2]

theorem getD_set (x : Array F) (i j : Nat) (v : F) :
    g (x.setIfInBounds i v) j = if i = j ∧ i < x.size then v else g x j := by
  by_cases h : i = j
  · subst h
    by_cases hb : i < x.size
    · simp [g, hb]
    · simp [g, hb]
  · simp [g, h, Array.getElem?_setIfInBounds_ne h]

theorem g_oob (x : Array F) {j : Nat} (h : x.size ≤ j) : g x j = 0 := by
  simp [g, h]

/-! ### the loops -/

theorem satLoop_field (x : Array F) (n : Nat) (hn : x.size ≤ n) :
    (@satLoop F ops x 0 n).size = x.size ∧ ∀ j, g (@satLoop F ops x 0 n) j = clamp2 (g x j) := by
  obtain ⟨s1, s2⟩ := @satLoop_spec F ops x 0 n
  refine ⟨s1, fun j => ?_⟩
  have := s2 j
  rw [zero_ops] at this
  show (@satLoop F ops x 0 n).getD j 0 = _
  rw [this]
  by_cases hj : j < x.size
  · rw [if_pos ⟨by omega, by omega, hj⟩, sat2_ops]
  · rw [if_neg (by omega), g_oob x (by omega), clamp2_zero]
    exact g_oob x (by omega)

theorem applyLoop_spec (x : Array F) (a : F) (s e : Nat) :
    (@applyLoop F ops x 1 0 a s e).size = x.size ∧
    ∀ j, g (@applyLoop F ops x 1 0 a s e) j =
      if s ≤ j ∧ j < e ∧ j < x.size then g x j + a * g x j * g x j else g x j := by
  fun_induction @applyLoop F ops x 1 0 a s e with
  | case1 x s h ih =>
    obtain ⟨i1, i2⟩ := ih
    rw [wr1] at i1 i2
    rw [wr1]
    refine ⟨by rw [i1]; simp, fun j => ?_⟩
    rw [i2 j, getD_set, rd1, nl_ops]
    simp only [Array.size_setIfInBounds]
    by_cases hj : s = j
    · subst hj
      by_cases hb : s < x.size
      · simp [hb, h]
      · simp [hb]
    · by_cases h1 : s + 1 ≤ j
      · have : s ≤ j := by omega
        simp [hj, h1, this]
      · have : ¬ s ≤ j := by omega
        simp [hj, h1, this]
  | case2 x s h =>
    refine ⟨rfl, fun j => ?_⟩
    have : ¬ (s ≤ j ∧ j < e ∧ j < x.size) := by omega
    rw [if_neg this]

theorem rampLoop_spec (x : Array F) (delta : F) (i peak : Nat) :
    (@rampLoop F ops x 1 0 delta i peak).size = x.size ∧
    ∀ j, g (@rampLoop F ops x 1 0 delta i peak) j =
      if i ≤ j ∧ j < peak ∧ j < x.size then clamp1 (g x j + delta * ((peak - 1 - j : Nat) : F)) else g x j := by
  fun_induction @rampLoop F ops x 1 0 delta i peak with
  | case1 x i h offset v ih =>
    obtain ⟨i1, i2⟩ := ih
    rw [wr1] at i1 i2
    rw [wr1]
    refine ⟨by rw [i1]; simp, fun j => ?_⟩
    have hv : @sat1 F ops v = clamp1 (g x i + delta * ((peak - 1 - i : Nat) : F)) := by
      rw [sat1_ops]; show clamp1 (@rd F ops x 1 0 i + delta * ((peak - 1 - i : Nat) : F)) = _; rw [rd1]
    rw [i2 j, getD_set, hv]
    simp only [Array.size_setIfInBounds]
    by_cases hj : i = j
    · subst hj
      by_cases hb : i < x.size
      · simp [hb, h]
      · simp [hb]
    · by_cases h1 : i + 1 ≤ j
      · have : i ≤ j := by omega
        simp [hj, h1, this]
      · have : ¬ i ≤ j := by omega
        simp [hj, h1, this]
  | case2 x i h =>
    refine ⟨rfl, fun j => ?_⟩
    have : ¬ (i ≤ j ∧ j < peak ∧ j < x.size) := by omega
    rw [if_neg this]

/-- The continuation loop: samples below `i` are untouched; every sample is either untouched or, when
    `x*a < 0`, replaced by `x + a*x*x`. -/
theorem contLoop_spec (x : Array F) (N : Nat) (a : F) (i : Nat) :
    (@contLoop F ops x 1 0 N a i).size = x.size ∧
    (∀ j, j < i → g (@contLoop F ops x 1 0 N a i) j = g x j) ∧
    ∀ j, g (@contLoop F ops x 1 0 N a i) j = g x j ∨
      (g x j * a < 0 ∧ g (@contLoop F ops x 1 0 N a i) j = g x j + a * g x j * g x j) := by
  fun_induction @contLoop F ops x 1 0 N a i with
  | case1 x i h v hle => exact ⟨rfl, fun _ _ => rfl, fun _ => Or.inl rfl⟩
  | case2 x i h v hle ih =>
    obtain ⟨i1, i2, i3⟩ := ih
    rw [wr1] at i1 i2 i3
    rw [wr1]
    have hv : v = g x i := rd1 eps x i
    have hneg : g x i * a < 0 := by
      have : ¬ (0 ≤ v * a) := by
        intro h0; apply hle; show decide ((0 : F) ≤ v * a) = true; exact decide_eq_true h0
      rw [hv] at this; exact not_le.mp this
    refine ⟨by rw [i1]; simp, fun j hj => ?_, fun j => ?_⟩
    · rw [i2 j (by omega), getD_set, if_neg (by omega)]
    · by_cases hij : i = j
      · subst hij
        rw [i2 i (by omega), getD_set]
        by_cases hb : i < x.size
        · right
          rw [if_pos ⟨rfl, hb⟩]
          exact ⟨hneg, by rw [nl_ops, hv]⟩
        · left; rw [if_neg (by omega)]
      · rcases i3 j with h1 | ⟨h1, h2⟩
        · left; rw [h1, getD_set, if_neg (by omega)]
        · rw [getD_set, if_neg (by omega)] at h1 h2
          exact Or.inr ⟨h1, h2⟩
  | case3 x i h => exact ⟨rfl, fun _ _ => rfl, fun _ => Or.inl rfl⟩

theorem findExceed_spec (x : Array F) (N i : Nat) :
    @findExceed F ops x 1 0 N i ≤ N ∧
    (∀ j, i ≤ j → j < @findExceed F ops x 1 0 N i → |g x j| ≤ 1) ∧
    (@findExceed F ops x 1 0 N i < N → i ≤ @findExceed F ops x 1 0 N i ∧ 1 < |g x (@findExceed F ops x 1 0 N i)|) := by
  fun_induction @findExceed F ops x 1 0 N i with
  | case1 i h v hcond =>
    refine ⟨le_of_lt h, fun j h1 h2 => by omega, fun _ => ⟨le_refl _, ?_⟩⟩
    have hv : v = g x i := rd1 eps x i
    rw [← hv]
    have : (decide ((1 : F) < v) || decide (v < -(1 : F))) = true := hcond
    rcases Bool.or_eq_true _ _ |>.mp this with h1 | h1
    · exact lt_of_lt_of_le (of_decide_eq_true h1) (le_abs_self v)
    · have := of_decide_eq_true h1
      exact lt_of_lt_of_le (by linarith) (neg_le_abs v)
  | case2 i h v hcond ih =>
    obtain ⟨i1, i2, i3⟩ := ih
    have hv : v = g x i := rd1 eps x i
    have hn : ¬ ((decide ((1 : F) < v) || decide (v < -(1 : F))) = true) := hcond
    have hle : |g x i| ≤ 1 := by
      rw [← hv]
      rw [Bool.or_eq_true, not_or] at hn
      have a1 : ¬ ((1 : F) < v) := fun h => hn.1 (decide_eq_true h)
      have a2 : ¬ (v < -(1 : F)) := fun h => hn.2 (decide_eq_true h)
      exact abs_le.mpr ⟨by linarith, by linarith⟩
    refine ⟨i1, fun j h1 h2 => ?_, fun hlt => ?_⟩
    · by_cases hij : j = i
      · subst hij; exact hle
      · exact i2 j (by omega) h2
    · obtain ⟨b1, b2⟩ := i3 hlt
      exact ⟨by omega, b2⟩
  | case3 i h => exact ⟨le_refl _, fun j h1 h2 => by omega, fun hlt => absurd hlt (lt_irrefl _)⟩

theorem startScan_spec (x : Array F) (xi : F) (s : Nat) :
    @startScan F ops x 1 0 xi s ≤ s ∧
    (∀ j, @startScan F ops x 1 0 xi s ≤ j → j < s → 0 ≤ xi * g x j) ∧
    (@startScan F ops x 1 0 xi s = 0 ∨ xi * g x (@startScan F ops x 1 0 xi s - 1) < 0) := by
  induction s with
  | zero => exact ⟨le_refl _, fun j h1 h2 => by omega, Or.inl rfl⟩
  | succ s ih =>
    obtain ⟨i1, i2, i3⟩ := ih
    have hdef : @startScan F ops x 1 0 xi (s + 1) =
        if decide ((0 : F) ≤ xi * g x s) = true then @startScan F ops x 1 0 xi s else s + 1 := by
      show (if @ClipOps.leb F ops 0 (xi * @rd F ops x 1 0 s) = true then _ else _) = _
      rw [rd1]; rfl
    by_cases h : (0 : F) ≤ xi * g x s
    · rw [hdef, if_pos (decide_eq_true h)]
      refine ⟨by omega, fun j h1 h2 => ?_, i3⟩
      by_cases hjs : j = s
      · subst hjs; exact h
      · exact i2 j h1 (by omega)
    · rw [hdef, if_neg (by simpa using h)]
      refine ⟨le_refl _, fun j h1 h2 => by omega, Or.inr ?_⟩
      simpa using h

/-- The forward scan (opus.c:93-102). -/
theorem endScan_spec (x : Array F) (N : Nat) (xi : F) (e : Nat) (m : F) (p : Nat) (he : e ≤ N) :
    e ≤ (@endScan F ops x 1 0 N xi e m p).1 ∧ (@endScan F ops x 1 0 N xi e m p).1 ≤ N ∧
    (∀ j, e ≤ j → j < (@endScan F ops x 1 0 N xi e m p).1 →
        0 ≤ xi * g x j ∧ |g x j| ≤ (@endScan F ops x 1 0 N xi e m p).2.1) ∧
    m ≤ (@endScan F ops x 1 0 N xi e m p).2.1 ∧
    ((@endScan F ops x 1 0 N xi e m p).1 < N → xi * g x (@endScan F ops x 1 0 N xi e m p).1 < 0) ∧
    (((@endScan F ops x 1 0 N xi e m p).2.1 = m ∧ (@endScan F ops x 1 0 N xi e m p).2.2 = p) ∨
      (e ≤ (@endScan F ops x 1 0 N xi e m p).2.2 ∧
        (@endScan F ops x 1 0 N xi e m p).2.2 < (@endScan F ops x 1 0 N xi e m p).1 ∧
        (@endScan F ops x 1 0 N xi e m p).2.1 = |g x (@endScan F ops x 1 0 N xi e m p).2.2|)) ∧
    (e < N → 0 ≤ xi * g x e → e < (@endScan F ops x 1 0 N xi e m p).1) := by
  fun_induction @endScan F ops x 1 0 N xi e m p with
  | case1 e m p h v h1 h2 ih =>
    obtain ⟨i1, i2, i3, i4, i5, i6, _⟩ := ih (by omega)
    have hv : v = g x e := rd1 eps x e
    have hside : 0 ≤ xi * g x e := by
      have : decide ((0 : F) ≤ xi * v) = true := h1
      rw [hv] at this; exact of_decide_eq_true this
    have hlt : m < |g x e| := by
      have : decide (m < |v|) = true := h2
      rw [hv] at this; exact of_decide_eq_true this
    have habs : @ClipOps.abs F ops v = |g x e| := by rw [abs_ops, hv]
    rw [habs] at i1 i2 i3 i4 i5 i6 ⊢
    refine ⟨by omega, i2, fun j hj1 hj2 => ?_, le_trans (le_of_lt hlt) i4, i5, Or.inr ?_, fun _ _ => by omega⟩
    · by_cases hje : j = e
      · subst hje; exact ⟨hside, i4⟩
      · exact i3 j (by omega) hj2
    · rcases i6 with ⟨a1, a2⟩ | ⟨a1, a2, a3⟩
      · exact ⟨by rw [a2], by rw [a2]; omega, by rw [a1, a2]⟩
      · exact ⟨by omega, a2, a3⟩
  | case2 e m p h v h1 h2 ih =>
    obtain ⟨i1, i2, i3, i4, i5, i6, _⟩ := ih (by omega)
    have hv : v = g x e := rd1 eps x e
    have hside : 0 ≤ xi * g x e := by
      have : decide ((0 : F) ≤ xi * v) = true := h1
      rw [hv] at this; exact of_decide_eq_true this
    have hle : |g x e| ≤ m := by
      have : ¬ (decide (m < |v|) = true) := h2
      rw [hv] at this; exact not_lt.mp (fun h => this (decide_eq_true h))
    refine ⟨by omega, i2, fun j hj1 hj2 => ?_, i4, i5, ?_, fun _ _ => by omega⟩
    · by_cases hje : j = e
      · subst hje; exact ⟨hside, le_trans hle i4⟩
      · exact i3 j (by omega) hj2
    · rcases i6 with h6 | ⟨a1, a2, a3⟩
      · exact Or.inl h6
      · exact Or.inr ⟨by omega, a2, a3⟩
  | case3 e m p h v h1 =>
    have hv : v = g x e := rd1 eps x e
    have hside : xi * g x e < 0 := by
      have : ¬ (decide ((0 : F) ≤ xi * v) = true) := h1
      rw [hv] at this; exact not_le.mp (fun h => this (decide_eq_true h))
    exact ⟨le_refl _, he, fun j h1 h2 => by omega, le_refl _, fun _ => hside, Or.inl ⟨rfl, rfl⟩,
      fun _ h0 => absurd h0 (not_le.mpr hside)⟩
  | case4 e m p h =>
    exact ⟨le_refl _, he, fun j h1 h2 => by omega, le_refl _, fun hlt => absurd hlt h, Or.inl ⟨rfl, rfl⟩,
      fun hlt => absurd hlt h⟩

end
end Opus.SoftClip
