import OpusProofs.CwrsU
/-
  OpusProofs.CwrsBij — the PVQ enumeration as a pair of mutually inverse *specification* functions
  `decS`/`encS` defined uniformly for every dimension n ≥ 0 on the mathematical U, and the proof that
  they are inverse bijections between { y : length n, Σ|y| = k } and [0, V(n,k)).
  OpusProofs.CwrsModel shows that the transcribed C loops compute exactly these functions.

  Layout of [0, V(n,k)) for the first coordinate y₀ (remaining pulses k' = k - |y₀|):
      [U(n,k'), U(n,k'+1))                      y₀ = +(k-k')  (k' < k)  or  y₀ = 0 (k' = k)
      U(n,k+1) + [U(n,k'), U(n,k'+1))           y₀ = -(k-k')  (k' < k)
-/
namespace OpusProofs.CwrsBij
open Opus Opus.Cwrs OpusProofs.CwrsU

/-- greatest `j ≤ k` with `U n j ≤ i` (0 if none). -/
def findK (n i : Nat) : Nat → Nat
  | 0 => 0
  | j + 1 => if U n (j + 1) ≤ i then j + 1 else findK n i j

def decS : Nat → Nat → Nat → List Int
  | 0, _, _ => []
  | n + 1, k, i =>
    let q := U (n + 1) (k + 1)
    let i1 := if q ≤ i then i - q else i
    let k' := findK (n + 1) i1 k
    signed (decide (q ≤ i)) ((k : Int) - k') :: decS n k' (i1 - U (n + 1) k')

def encS : List Int → Nat
  | [] => 0
  | y :: ys =>
    U (ys.length + 1) (sumAbs ys) + encS ys +
      (if y < 0 then U (ys.length + 1) (sumAbs ys + y.natAbs + 1) else 0)

theorem findK_le (n i : Nat) : ∀ k, findK n i k ≤ k := by
  intro k
  induction k with
  | zero => simp [findK]
  | succ k ih => simp only [findK]; split <;> omega

theorem findK_spec (m i : Nat) : ∀ k,
    U (m + 1) (findK (m + 1) i k) ≤ i ∧ (findK (m + 1) i k < k → i < U (m + 1) (findK (m + 1) i k + 1)) := by
  intro k
  induction k with
  | zero => simp [findK]
  | succ k ih =>
    simp only [findK]
    split
    · rename_i h; exact ⟨h, fun hh => absurd hh (Nat.lt_irrefl _)⟩
    · rename_i h
      refine ⟨ih.1, fun _ => ?_⟩
      by_cases hk : findK (m + 1) i k < k
      · exact ih.2 hk
      · have : findK (m + 1) i k = k := Nat.le_antisymm (findK_le _ _ _) (Nat.le_of_not_lt hk)
        rw [this]; omega

theorem findK_unique (m i : Nat) : ∀ k j, j ≤ k → U (m + 1) j ≤ i → (j < k → i < U (m + 1) (j + 1)) →
    findK (m + 1) i k = j := by
  intro k
  induction k with
  | zero => intro j hj _ _; simp [findK]; omega
  | succ k ih =>
    intro j hj h1 h2
    simp only [findK]
    split
    · rename_i h
      by_cases hjk : j < k + 1
      · have := h2 hjk
        have hm : U (m + 1) (j + 1) ≤ U (m + 1) (k + 1) := U_mono m (by omega)
        omega
      · omega
    · rename_i h
      have hjk : j ≤ k := by
        by_cases e : j = k + 1
        · subst e; exact absurd h1 h
        · omega
      exact ih j hjk h1 (fun hlt => h2 (by omega))

theorem natAbs_signed (b : Bool) (m : Int) : (signed b m).natAbs = m.natAbs := by
  unfold signed; split <;> simp

theorem signed_neg_iff (b : Bool) (a c : Nat) (h : c ≤ a) :
    signed b ((a : Int) - c) < 0 ↔ (b = true ∧ c < a) := by
  unfold signed; split <;> rename_i hb <;> simp [hb] <;> omega

/-- Bound propagated by one decoding step. -/
theorem step_bounds (n k i : Nat) (h : i < V (n + 1) k) (q i1 k' : Nat)
    (hq : q = U (n + 1) (k + 1)) (hi1e : i1 = if q ≤ i then i - q else i) (hk'e : k' = findK (n + 1) i1 k) :
    k' ≤ k ∧ U (n + 1) k' ≤ i1 ∧ i1 - U (n + 1) k' < V n k' ∧ (q ≤ i → k' < k) ∧ i1 < q := by
  have hV : V (n + 1) k = U (n + 1) k + q := by rw [hq]; rfl
  have hmono : U (n + 1) k ≤ q := by rw [hq]; exact U_mono_step n k
  have hi1 : i1 < q := by
    rw [hi1e]
    split <;> omega
  have hle := findK_le (n + 1) i1 k
  have hs := findK_spec n i1 k
  rw [← hk'e] at hle hs
  have hlt : i1 < U (n + 1) (k' + 1) := by
    by_cases hk : k' < k
    · exact hs.2 hk
    · have : k' = k := by omega
      rw [this, ← hq]; exact hi1
  have hsucc := U_succ_eq_add_V n k'
  refine ⟨hle, hs.1, by omega, ?_, hi1⟩
  intro hqi
  have hi1' : i1 < U (n + 1) k := by
    rw [hi1e, if_pos hqi]; omega
  by_cases hk : k' < k
  · exact hk
  · have : k' = k := by omega
    have h1 := hs.1
    rw [this] at h1; omega

theorem decS_spec : ∀ n k i, i < V n k →
    (decS n k i).length = n ∧ sumAbs (decS n k i) = k ∧ encS (decS n k i) = i := by
  intro n
  induction n with
  | zero =>
    intro k i h
    cases k with
    | zero => simp [V] at h; subst h; simp [decS, sumAbs, encS]
    | succ k => simp [V] at h
  | succ n ih =>
    intro k i h
    obtain ⟨hle, hU, hb, hneg, hi1⟩ := step_bounds n k i h _ _ _ rfl rfl rfl
    simp only [decS]
    generalize hq : U (n + 1) (k + 1) = q at *
    generalize hi1d : (if q ≤ i then i - q else i) = i1 at *
    generalize hk' : findK (n + 1) i1 k = k' at *
    obtain ⟨hl, hs, he⟩ := ih k' (i1 - U (n + 1) k') hb
    refine ⟨by simp [hl], ?_, ?_⟩
    · simp only [sumAbs, natAbs_signed, hs]; omega
    · simp only [encS, hl, hs, he, natAbs_signed, signed_neg_iff _ _ _ hle, decide_eq_true_eq]
      by_cases hqi : q ≤ i
      · have hk := hneg hqi
        have e : k' + ((k : Int) - k').natAbs + 1 = k + 1 := by omega
        rw [if_pos ⟨hqi, hk⟩, e, hq]
        rw [if_pos hqi] at hi1d
        omega
      · have : ¬ (q ≤ i ∧ k' < k) := fun hh => hqi hh.1
        rw [if_neg this]
        rw [if_neg hqi] at hi1d
        omega

theorem encS_spec : ∀ y : List Int,
    encS y < V y.length (sumAbs y) ∧ decS y.length (sumAbs y) (encS y) = y := by
  intro y
  induction y with
  | nil => simp [encS, sumAbs, V, decS]
  | cons v rest ih =>
    obtain ⟨hlt, hdec⟩ := ih
    generalize hn : rest.length = n at *
    generalize hkr : sumAbs rest = kr at *
    generalize hir : encS rest = ir at *
    have hsucc := U_succ_eq_add_V n kr
    simp only [encS, sumAbs, List.length_cons, hn, hkr, hir, decS]
    have hk : v.natAbs + kr + 1 = kr + v.natAbs + 1 := by omega
    generalize hkk : v.natAbs + kr = k at *
    have hkk' : kr + v.natAbs + 1 = k + 1 := by omega
    rw [hkk']
    generalize hq : U (n + 1) (k + 1) = q
    have hV : V (n + 1) k = U (n + 1) k + q := by rw [← hq]; rfl
    -- i₁ = U(n+1,kr) + ir lies in [U(n+1,kr), U(n+1,kr+1))
    have hi1lt : U (n + 1) kr + ir < U (n + 1) (kr + 1) := by omega
    by_cases hv : v < 0
    · have hkrk : kr < k := by omega
      have hm : U (n + 1) (kr + 1) ≤ U (n + 1) k := U_mono n (by omega)
      have hmq : U (n + 1) k ≤ q := by rw [← hq]; exact U_mono_step n k
      rw [if_pos hv]
      have hqi : q ≤ U (n + 1) kr + ir + q := by omega
      rw [if_pos hqi]
      have e1 : U (n + 1) kr + ir + q - q = U (n + 1) kr + ir := by omega
      rw [e1]
      have hf : findK (n + 1) (U (n + 1) kr + ir) k = kr :=
        findK_unique n _ k kr (by omega) (by omega) (fun _ => hi1lt)
      rw [hf]
      refine ⟨by omega, ?_⟩
      have e2 : U (n + 1) kr + ir - U (n + 1) kr = ir := by omega
      rw [e2, hdec]
      congr 1
      simp only [signed]
      simp; omega
    · have hkrk : kr ≤ k := by omega
      have hm : U (n + 1) (kr + 1) ≤ q := by rw [← hq]; exact U_mono n (by omega)
      rw [if_neg hv]
      have hqi : ¬ q ≤ U (n + 1) kr + ir + 0 := by omega
      rw [if_neg hqi]
      have hf : findK (n + 1) (U (n + 1) kr + ir + 0) k = kr :=
        findK_unique n _ k kr (by omega) (by omega) (fun _ => by omega)
      rw [hf]
      refine ⟨by omega, ?_⟩
      have e2 : U (n + 1) kr + ir + 0 - U (n + 1) kr = ir := by omega
      rw [e2, hdec]
      congr 1
      simp only [signed]
      simp; omega

end OpusProofs.CwrsBij
