import OpusProofs.DecSkelMsFull
import OpusProofs.LayoutMs
/-
  OpusProofs.DecSkelMsDur — duration clause of the multistream decoder with the real per-stream calls:
  when the validation pass reports `k` samples, `k ≤ frame_size`, no FEC, `opus_multistream_decode_native` returns exactly
  `k` and every stream's `last_packet_duration` is `k`.  Also: the decoder's validation pass (`msValidate`) agrees with
  C10's `msPacketValidate` (imported read-only), and `msSerialize` of packets whose frames / padding are bytes is bytes.
-/
namespace Opus.DecSkel
open Opus Opus.Framing Opus.FramingSpec Opus.FramingProofs Opus.LayoutSpec Opus.Layout

/-- The sub-packet the parser delimits lasts `count · samples_per_frame(toc)`. -/
theorem sub_nbSamples (sd : Bool) (bs : Bytes) (hb : BytesOk bs) (p : Parsed) (hp : parseImpl sd bs = .ok p) (fs : Nat)
    (hfs : Rate fs) : getNbSamples (bs.take p.packetOffset) fs = .ok (p.count * samplesPerFrame (bs.headD 0) fs) := by
  obtain ⟨pk, rest, hv, hbs, _, hview⟩ := parse_sound sd bs hb p hp
  subst hview
  have htake : bs.take (view sd pk).packetOffset = serialize sd pk := by
    rw [hbs]; show (serialize sd pk ++ rest).take (serialize sd pk).length = _
    exact List.take_left
  have hhead : bs.headD 0 = pk.toc := by rw [hbs, serialize_shape]; rfl
  rw [htake, hhead, getNbSamples_serialize sd pk hv fs hfs]
  rfl

theorem rate_of_fsOk {Fs : Int} (h : FsOk Fs) : Rate Fs.toNat := by
  unfold FsOk at h; unfold Rate; omega

/-- With a duration to compare against (`first = false`), a successful validation returns that duration. -/
theorem msValidate_samples (fs : Int) : ∀ (n : Nat) (bs : Bytes) (samples k : Int),
    msValidate fs n false bs samples = k → 0 ≤ k → samples = k
  | 0, _, _, _, h, _ => by simpa [msValidate] using h
  | n + 1, bs, samples, k, h, hk => by
    unfold msValidate at h
    split at h
    · rw [← h] at hk; exact absurd hk (by decide)
    · split at h
      · rename_i p hp
        simp only at h
        split at h
        · rw [← h] at hk; exact absurd hk (by decide)
        · rename_i hc
          have hs : samples = nbSamples (bs.take p.packetOffset) fs := by
            apply Decidable.byContradiction; intro hne; exact hc ⟨by simp, hne⟩
          rw [hs]; exact msValidate_samples fs n _ _ k h hk
      · rename_i e _; have := err_code_neg e; omega
      · rw [← h] at hk; exact absurd hk (by decide)

/-- The stream loop when the remaining bytes validate to `k` samples, `k ≤ frame_size`, no FEC: returns `k`; every
    stream decoded from here on has `last_packet_duration = k`. -/
theorem msFullLoop_duration {os : Nat → Oracle} (hos : ∀ s, OracleOk (os s)) (l : Layout.ChannelLayout) (Fs : Int) (hFs : FsOk Fs)
    (sc : Bool) (cap k : Int) (hk : 0 < k ∧ k ≤ cap) :
    ∀ (sts : List DecState) (s : Nat) (bs : Bytes) (len fsz : Int) (a : MsAcc) (first : Bool) (samples : Int),
      (∀ st ∈ sts, DecInv st ∧ st.Fs = Fs) → s + sts.length = l.nbStreams → BytesOk bs → len ≤ bs.length →
      k ≤ fsz ∧ fsz ≤ cap → msValidate Fs sts.length first (bs.take len.toNat) samples = k →
      (first = false → fsz = k) → (sts = [] → first = false) →
      (msFullLoop os l 0 sc false (2 * cap) sts s bs len fsz a).ret = .ret k ∧
      ∃ news, (msFullLoop os l 0 sc false (2 * cap) sts s bs len fsz a).sts = a.sts ++ news ∧ news.length = sts.length ∧
        ∀ st ∈ news, st.last_packet_duration = k := by
  intro sts
  induction sts with
  | nil =>
    intro s bs len fsz a first samples _ _ _ _ _ _ hfirst hnil
    have := hfirst (hnil rfl)
    refine ⟨by simp [msFullLoop, MsAcc.out, this], [], by simp [msFullLoop, MsAcc.out], rfl, fun st h => absurd h List.not_mem_nil⟩
  | cons st rest ih =>
    intro s bs len fsz a first samples hsts hs hb hlen hf hval hfirst _
    obtain ⟨hinv, hFsst⟩ := hsts st (by simp)
    have hrest : ∀ x ∈ rest, DecInv x ∧ x.Fs = Fs := fun x hx => hsts x (by simp [hx])
    simp only [List.length_cons] at hs hval
    have hsd : decide (s ≠ l.nbStreams - 1) = decide (rest.length ≠ 0) := by
      apply decide_eq_decide.mpr; omega
    -- unfold one step of the validation
    unfold msValidate at hval
    split at hval
    · rw [← hval] at hk; exact absurd hk.1 (by decide)
    rename_i hne
    have hl0 : 0 < len := by simp only [List.length_take] at hne; omega
    cases hp : parseImpl (decide (rest.length ≠ 0)) (bs.take len.toNat) with
    | err e => simp only [hp] at hval; have := err_code_neg e; omega
    | oob => simp only [hp] at hval; rw [← hval] at hk; exact absurd hk.1 (by decide)
    | abort => simp only [hp] at hval; rw [← hval] at hk; exact absurd hk.1 (by decide)
    | ok p =>
      simp only [hp] at hval
      split at hval
      · rw [← hval] at hk; exact absurd hk.1 (by decide)
      -- this sub-packet lasts k samples
      have htmp : nbSamples ((bs.take len.toNat).take p.packetOffset) Fs = k := by
        cases rest with
        | nil => simpa [msValidate] using hval
        | cons r rs => exact msValidate_samples Fs _ _ _ k hval (by omega)
      have hcount : (p.count : Int) * (samplesPerFrame ((bs.take len.toNat).headD 0) Fs.toNat : Int) = k := by
        have h1 := sub_nbSamples _ _ (bytesOk_take hb _) p hp Fs.toNat (rate_of_fsOk hFs)
        unfold nbSamples at htmp
        rw [h1] at htmp
        simp only at htmp
        rw [← htmp]; exact (Int.natCast_mul _ _).symm
      -- the per-stream call returns k
      have hnat : nativeRet st (some bs) len fsz 0 (decide (s ≠ l.nbStreams - 1)) = k := by
        unfold nativeRet
        have h1 : ¬ ((0 : Int) < 0 ∨ (0 : Int) > 1) := by omega
        have h2 : ¬ (((0 : Int) ≠ 0 ∨ len = 0 ∨ (some bs).isNone = true) ∧ cmod fsz (st.Fs / 400) ≠ 0) := by
          simp; omega
        have h3 : ¬ (len = 0 ∨ (some bs).isNone = true) := by simp; omega
        have h4 : ¬ len < 0 := by omega
        rw [if_neg h1, if_neg h2, if_neg h3, if_neg h4]
        simp only [Option.getD_some, hsd, hp, hFsst]
        have h5 : ¬ (0 : Int) ≠ 0 := by simp
        rw [if_neg h5, hcount, if_neg (by omega)]
      have hch := hinv.ch
      have hspec := decodeNative_spec (hos s) (good_fresh hinv (2 * cap)) (some bs) (by intro b hb'; cases hb'; exact hb) len
        { buf := .pcm, off := 0, cap := 2 * cap } fsz 0 (decide (s ≠ l.nbStreams - 1)) sc
        (by simp only [Int.zero_add]; refine ⟨Int.le_refl 0, ?_⟩; rcases hch with h | h <;> rw [h] <;> omega)
        (callerBuf_cap st _)
      rw [hnat] at hspec
      have xret : (msStream os l 0 sc (2 * cap) s st bs len fsz).ret = .ret k := hspec.ret
      have xlpd : (msStream os l 0 sc (2 * cap) s st bs len fsz).run.st.last_packet_duration = k := hspec.lpd hk.1
      have hnie : ¬ (¬ false = true ∧ len ≤ 0) := by rintro ⟨_, h2⟩; omega
      rw [msFullLoop, if_neg hnie]
      simp only [xret]
      rw [if_neg (by omega)]
      simp only [Bool.false_eq_true, ↓reduceIte]
      have hpo : (msStream os l 0 sc (2 * cap) s st bs len fsz).packetOffset = p.packetOffset := by
        unfold msStream
        apply decodeNative_po _ bs len _ fsz 0 _ sc _ hl0 p (by rw [hsd]; exact hp) k _ hk.1
        have := xret; unfold msStream at this; exact this
      obtain ⟨_, _, _, _, _, hple, _⟩ := OpusProps.C06.parse_in_bounds _ _ (bytesOk_take hb _) p hp
      simp only [List.length_take] at hple
      rw [hpo]
      have e : (bs.drop p.packetOffset).take (len - (p.packetOffset : Int)).toNat =
          (bs.take len.toNat).drop p.packetOffset := by
        rw [List.drop_take]; congr 1; omega
      have hih := ih (s + 1) (bs.drop (p.packetOffset : Int).toNat) (len - (p.packetOffset : Int)) k
        (a.step (msStream os l 0 sc (2 * cap) s st bs len fsz) k
          { s := s, len := len, frame_size := fsz, sd := decide (s ≠ l.nbStreams - 1) } (Layout.streamCalls l s k))
        false (nbSamples ((bs.take len.toNat).take p.packetOffset) Fs) hrest (by omega)
        (fun b hb' => hb b (List.mem_of_mem_drop hb'))
        (by simp only [Int.toNat_natCast, List.length_drop]; omega) ⟨Int.le_refl k, hk.2⟩
        (by simp only [Int.toNat_natCast]; rw [e]; exact hval) (fun _ => rfl) (fun _ => rfl)
      obtain ⟨r1, news, r2, r3, r4⟩ := hih
      refine ⟨r1, (msStream os l 0 sc (2 * cap) s st bs len fsz).run.st :: news, ?_, by simp [r3], ?_⟩
      · rw [r2]; simp [MsAcc.step]
      · intro x hx
        rcases List.mem_cons.mp hx with h | h
        · rw [h]; exact xlpd
        · exact r4 x h

/-- C10's model of the validation pass (`Opus.Layout.msPacketValidate`, imported read-only) and the decoder skeleton's
    (`msValidate`, which follows the C code literally: the result of `opus_packet_get_nb_samples` is not tested for an
    error) agree whenever C10's reports a duration. -/
theorem msValidate_of_validateLoop (fs : Nat) : ∀ (n : Nat) (first : Bool) (samples : Nat) (data : Bytes) (k : Nat),
    Layout.validateLoop fs n first samples data = .ok k → msValidate (fs : Int) n first data (samples : Int) = (k : Int)
  | 0, _, _, _, k, h => by
    simp only [Layout.validateLoop, Res.ok.injEq] at h; simp [msValidate, h]
  | n + 1, first, samples, data, k, h => by
    unfold Layout.validateLoop at h
    split at h
    · rename_i m off hstep
      unfold Layout.validateStep at hstep
      split at hstep
      · cases hstep
      rename_i hlen
      split at hstep
      · rename_i r hp
        split at hstep
        · rename_i m' hns
          simp only [Res.ok.injEq, Prod.mk.injEq] at hstep
          obtain ⟨rfl, rfl⟩ := hstep
          split at h
          · cases h
          rename_i hc
          have hb : (!decide (n = 0)) = decide (n ≠ 0) := by simp
          rw [hb] at hp
          unfold msValidate
          rw [if_neg hlen]
          simp only [hp]
          have htmp : nbSamples (data.take r.packetOffset) (fs : Int) = (m' : Int) := by
            unfold nbSamples; simp only [Int.toNat_natCast, hns]
          rw [htmp]
          rw [if_neg]
          · exact msValidate_of_validateLoop fs n false m' _ k h
          · rintro ⟨h1, h2⟩
            apply hc
            refine ⟨by clear h hc hp hns htmp; cases first <;> simp at h1 ⊢, ?_⟩
            intro he; exact h2 (by rw [he])
        all_goals cases hstep
      all_goals cases hstep
    all_goals cases h

/-- **Duration of a multistream decode.**  Packet present (`0 < len`), no FEC, the validation pass (C10's
    `msPacketValidate` on the first `len` bytes) reports `k` samples and `0 < k ≤ frame_size`:
    `opus_multistream_decode_native` returns exactly `k` — never an error — and every stream's
    `last_packet_duration` is `k` afterwards. -/
theorem msDecodeFull_duration_spec {os : Nat → Oracle} (hos : ∀ s, OracleOk (os s)) (l : Layout.ChannelLayout) (hl : 1 ≤ l.nbStreams)
    (Fs : Int) (hFs : FsOk Fs) (sts : List DecState) (hsts : ∀ st ∈ sts, DecInv st ∧ st.Fs = Fs) (hn : sts.length = l.nbStreams)
    (bs : Bytes) (hb : BytesOk bs) (len frame_size : Int) (hlen : 0 < len ∧ len ≤ bs.length) (sc : Bool) (k : Nat)
    (hval : Layout.msPacketValidate (bs.take len.toNat) l.nbStreams Fs.toNat = .ok k) (hk : 0 < k ∧ (k : Int) ≤ frame_size) :
    (msDecodeFull os l Fs sts bs len frame_size 0 sc).ret = .ret (k : Int) ∧
    (msDecodeFull os l Fs sts bs len frame_size 0 sc).sts.length = l.nbStreams ∧
    ∀ st ∈ (msDecodeFull os l Fs sts bs len frame_size 0 sc).sts, st.last_packet_duration = (k : Int) := by
  have hF : 0 < Fs / 25 * 3 := by unfold FsOk at hFs; omega
  have hFn : (Fs.toNat : Int) = Fs := by unfold FsOk at hFs; omega
  have hbt := bytesOk_take hb len.toNat
  -- C10: the bytes are n serialised valid packets of k samples each
  obtain ⟨ps, hpl, hpv, hser, hdur, _⟩ : ∃ ps : List Packet, ps.length = l.nbStreams ∧ (∀ p ∈ ps, Valid p) ∧
      bs.take len.toNat = msSerialize ps ∧ (∀ p ∈ ps, getNbSamples (serialize false p) Fs.toNat = .ok k) ∧ True := by
    rcases Layout.validateLoop_sound Fs.toNat l.nbStreams true 0 _ k hbt hval with ⟨h0, _⟩ | ⟨_, ps, h1, h2, h3, h4, _⟩
    · omega
    · exact ⟨ps, h1, h2, h3, h4, trivial⟩
  have hne : ps ≠ [] := by intro h; rw [h] at hpl; simp at hpl; omega
  have hge := Layout.msSerialize_length_ge ps hne hpv
  rw [← hser, hpl] at hge
  simp only [List.length_take] at hge
  -- the decoder's own validation pass returns k
  have hmine : msValidate Fs l.nbStreams true (bs.take len.toNat) 0 = (k : Int) := by
    have := msValidate_of_validateLoop Fs.toNat l.nbStreams true 0 _ k hval
    rw [hFn] at this; exact_mod_cast this
  -- a validated duration never exceeds 120 ms
  have hk120 : (k : Int) ≤ Fs / 25 * 3 := by
    obtain ⟨p0, hp0⟩ := List.exists_mem_of_ne_nil ps hne
    have h1 := hdur p0 hp0
    unfold getNbSamples at h1
    split at h1
    · rename_i cnt _
      simp only at h1
      split at h1
      · cases h1
      · rename_i hle
        simp only [Res.ok.injEq] at h1
        rw [h1] at hle
        have : (k : Int) * 25 ≤ Fs * 3 := by rw [← hFn]; exact_mod_cast (by omega : k * 25 ≤ Fs.toNat * 3)
        unfold FsOk at hFs; omega
    all_goals cases h1
  unfold msDecodeFull
  have hd : decide (len = 0) = false := by simp; omega
  have hkp : (0 : Int) < (k : Int) := by exact_mod_cast hk.1
  rw [if_neg (by omega), if_neg (by omega), if_neg (by rintro ⟨_, h⟩; omega), if_neg (by rw [hmine]; omega),
    if_neg (by rw [hmine]; omega), hd]
  obtain ⟨r1, news, r2, r3, r4⟩ := msFullLoop_duration hos l Fs hFs sc (min frame_size (Fs / 25 * 3)) k ⟨hkp, by omega⟩ sts 0 bs len
    (min frame_size (Fs / 25 * 3)) ⟨[], [], [], [], []⟩ true 0 hsts (by omega) hb hlen.2 ⟨by omega, Int.le_refl _⟩
    (by rw [hn]; exact hmine) (fun h => Bool.noConfusion h) (fun h => by rw [h] at hn; simp at hn; omega)
  refine ⟨r1, by rw [r2]; simp [r3, hn], fun st hst => r4 st (by rw [r2] at hst; simpa using hst)⟩

/-! ### The bytes of a serialised multistream packet -/

theorem bytesOk_app {a b : Bytes} (ha : BytesOk a) (hb : BytesOk b) : BytesOk (a ++ b) := by
  intro x hx; rcases List.mem_append.mp hx with h | h
  · exact ha x h
  · exact hb x h

/-- A valid packet whose frame and padding bytes are bytes serialises to bytes, in either framing. -/
theorem serialize_bytesOk_sd (sd : Bool) (p : Packet) (hv : Valid p) (hf : ∀ f ∈ p.frames, BytesOk f)
    (hp : BytesOk (padBytes p)) : BytesOk (serialize sd p) := by
  have hn := Layout.valid_frames_lt_64 p hv
  unfold serialize
  refine bytesOk_app (bytesOk_app ?_ ?_) hp
  · unfold header
    refine bytesOk_app (bytesOk_app ?_ ?_) ?_
    · intro x hx; simp only [List.mem_cons, List.mem_nil_iff, or_false] at hx; rw [hx]; exact hv.toc_byte
    · split
      · refine bytesOk_app ?_ ?_
        · intro x hx
          simp only [List.mem_cons, List.mem_nil_iff, or_false] at hx
          rw [hx]; unfold countByte
          split <;> split <;> omega
        · cases hpd : p.pad with
          | none => intro x hx; cases hx
          | some pd =>
            simp only []
            unfold Pad.hdr
            have := (hv.pad_ok pd hpd).1
            refine bytesOk_app ?_ ?_
            · intro x hx; rw [(List.mem_replicate.mp hx).2]; omega
            · intro x hx; simp only [List.mem_cons, List.mem_nil_iff, or_false] at hx; omega
      · intro x hx; cases hx
    · intro x hx
      obtain ⟨m, hm, hxm⟩ := List.mem_flatMap.mp hx
      have hml : m ∈ p.lens := by
        unfold lenFields at hm
        rcases List.mem_append.mp hm with h | h
        · split at h
          · exact List.dropLast_subset _ h
          · cases h
        · split at h
          · cases hl : p.lens.getLast? with
            | none => rw [hl] at h; cases h
            | some v =>
              rw [hl] at h
              simp only [Option.toList_some, List.mem_cons, List.mem_nil_iff, or_false] at h
              rw [h]; exact List.mem_of_getLast? hl
          · cases h
      simp only [Packet.lens, List.mem_map] at hml
      obtain ⟨f, hfm, rfl⟩ := hml
      have hle := hv.frame_max f hfm
      unfold encLen at hxm
      split at hxm
      · simp only [List.mem_cons, List.mem_nil_iff, or_false] at hxm; omega
      · simp only [List.mem_cons, List.mem_nil_iff, or_false] at hxm; omega
  · intro x hx
    obtain ⟨f, hfm, hxf⟩ := List.mem_flatten.mp hx
    exact hf f hfm x hxf

/-- `msSerialize` of valid packets whose frame and padding bytes are bytes is a byte string. -/
theorem msSerialize_bytesOk : ∀ (ps : List Packet), (∀ p ∈ ps, Valid p ∧ (∀ f ∈ p.frames, BytesOk f) ∧ BytesOk (padBytes p)) →
    BytesOk (msSerialize ps)
  | [], _ => by intro x hx; cases hx
  | [p], h => by
    obtain ⟨h1, h2, h3⟩ := h p (by simp)
    exact serialize_bytesOk_sd false p h1 h2 h3
  | p :: q :: r, h => by
    obtain ⟨h1, h2, h3⟩ := h p (by simp)
    show BytesOk (serialize true p ++ msSerialize (q :: r))
    exact bytesOk_app (serialize_bytesOk_sd true p h1 h2 h3) (msSerialize_bytesOk (q :: r) (fun x hx => h x (by simp [hx])))

end Opus.DecSkel
