import OpusModel.SilkSynthIdxFrame
import OpusProofs.SilkSynthIdxCore
/-
  OpusProofs.SilkSynthIdxFrame — index safety of one silk_decode_frame call (PLC update / reset /
  conceal, outBuf shift, CNG, glue) and preservation of the decoder-state invariant that the
  index expressions rely on, hence index safety over every history of decoded / lost frames,
  rate switches and resets.
-/
namespace Opus.SilkSynthIdx
open Opus Opus.Gen Opus.SilkParams

/-! ### the invariant -/

/-- The decoder has been configured by silk_decoder_set_fs. -/
def Configured (s : DecSt) : Prop :=
  (s.fsKHz = 8 ∨ s.fsKHz = 12 ∨ s.fsKHz = 16) ∧ (s.nbSubfr = 2 ∨ s.nbSubfr = 4)

/-- The state invariant of the index arithmetic. -/
structure Inv (s : DecSt) : Prop where
  loss : 0 ≤ s.lossCnt
  /-- after a concealed frame `lagPrev` is a legal lag (used by the transition branch of decode_core) -/
  lagPrev : s.prevSignalType = 2 → s.lossCnt ≠ 0 → 2 * s.fsKHz ≤ s.lagPrev ∧ s.lagPrev ≤ 18 * s.fsKHz
  /-- the PLC pitch lag is a legal lag (Q8) for the rate the PLC state belongs to (`sPLC.fs_kHz`; 0 = never
      used: then `pitchL_Q8 = 0`); silk_PLC re-initialises it before use when that rate is not the current one -/
  pitch : 2 * s.plcFs * 256 ≤ s.pitchLQ8 ∧ s.pitchLQ8 ≤ 18 * s.plcFs * 256
  plcNb : s.plcNb = 2 ∨ s.plcNb = 4
  plcSubfr : 0 ≤ s.plcSubfr ∧ s.plcSubfr ≤ 80

theorem consts2 : SilkSynth.randBufSize = 128 ∧ SilkSynth.pitchDriftFacQ16 = 655 ∧ SilkSynth.maxPitchLagMs = 18 ∧
    SilkSynth.szPlcLtpCoef = 5 ∧ SilkSynth.szPlcPrevLpc = 16 ∧ SilkSynth.szPlcPrevGain = 2 ∧
    SilkSynth.szCngExcBuf = 320 ∧ SilkSynth.szCngSmthNlsf = 16 ∧ SilkSynth.szCngSynthState = 16 ∧
    SilkSynth.szPrevNlsf = 16 ∧ SilkSynth.typeNoVoiceActivity = 0 := by decide

/- `leaf2`: like `leaf` of the core file, with the constants of this file as well. -/
set_option hygiene false in
local macro "leaf2" : tactic =>
  `(tactic| (intro _; simp only [Arr.size, hS, hL, hO, hframe, c1, c2, c3, c4, c5, c6, c7, c8, c9, c10, c11, c12, c13, c14, c15,
      d1, d2, d3, d4, d5, d6, d7, d8, d9, d10, d11]; omega))

/-! ### small facts -/

theorem pow2_7' : ((2 : Int) ^ 7) = 128 := by decide

theorem lag_of_q8 (fs p : Int) (h0 : 2 * fs * 256 ≤ p) (h1 : p ≤ 18 * fs * 256) :
    2 * fs ≤ rshiftRound p 8 ∧ rshiftRound p 8 ≤ 18 * fs := by
  unfold rshiftRound
  rw [if_neg (by decide)]
  show 2 * fs ≤ (p / (2 : Int) ^ 7 + 1) / 2 ∧ (p / (2 : Int) ^ 7 + 1) / 2 ≤ 18 * fs
  rw [pow2_7']; omega

theorem drift_range (fs p : Int) (hfs : 8 ≤ fs ∧ fs ≤ 16) (h0 : 2 * fs * 256 ≤ p) (h1 : p ≤ 18 * fs * 256) :
    2 * fs * 256 ≤ min (smlawb p p 655) (18 * fs * 256) ∧ min (smlawb p p 655) (18 * fs * 256) ≤ 18 * fs * 256 := by
  have hw : wrap16 655 = 655 := by decide
  unfold smlawb
  rw [hw]
  have hI : wrap32 (p + p * 655 / 65536) = p + p * 655 / 65536 := by unfold wrap32; omega
  rw [hI]
  omega

theorem randRun_range (sh : Nat) (mask : Int) (hm : 0 ≤ mask) : ∀ (n : Nat) (seed : Int) (e : Option (Int × Int)),
    (∀ lo hi, e = some (lo, hi) → 0 ≤ lo ∧ hi ≤ mask) →
    ∀ lo hi, (randRun sh mask n seed e).2 = some (lo, hi) → 0 ≤ lo ∧ hi ≤ mask := by
  intro n
  induction n with
  | zero => intro seed e he lo hi h; exact he lo hi h
  | succ n ih =>
    intro seed e he lo hi h
    unfold randRun at h
    simp only at h
    have hidx : 0 ≤ (silkRand seed / (2 : Int) ^ sh) % (mask + 1) ∧ (silkRand seed / (2 : Int) ^ sh) % (mask + 1) ≤ mask := by
      have h1 := Int.emod_nonneg (silkRand seed / (2 : Int) ^ sh) (show mask + 1 ≠ 0 by omega)
      have h2 := Int.emod_lt_of_pos (silkRand seed / (2 : Int) ^ sh) (show 0 < mask + 1 by omega)
      omega
    refine ih _ _ ?_ lo hi h
    intro lo' hi' h'
    cases e with
    | none => simp only [Option.some.injEq, Prod.mk.injEq] at h'; omega
    | some q =>
      obtain ⟨a, b⟩ := q
      have := he a b rfl
      simp only [Option.some.injEq, Prod.mk.injEq] at h'
      omega

theorem allIn_rdExt {c : Cfg} {a : Arr} {base mask : Int} {e : Option (Int × Int)}
    (he : ∀ lo hi, e = some (lo, hi) → 0 ≤ lo ∧ hi ≤ mask) (hb : 0 ≤ base) (hs : base + mask + 1 ≤ a.size c) :
    AllIn c (rdExt a base e) := by
  cases e with
  | none => exact allIn_nil _
  | some q =>
    obtain ⟨lo, hi⟩ := q
    have := he lo hi rfl
    unfold rdExt
    apply allIn_rd
    intro _; omega

/-! ### silk_PLC_conceal -/

theorem concealLoop_ok (c : Cfg) (hc : CfgNum c) (base : Int) (hb0 : 0 ≤ base) (hb1 : base + 128 ≤ 320) :
    ∀ (n : Nat) (pos p seed : Int), c.ltpMem ≤ pos → pos + (n : Int) * c.subfr = c.ltpMem + c.frameLen →
    2 * c.fsKHz * 256 ≤ p → p ≤ 18 * c.fsKHz * 256 →
    AllIn c (concealLoop c base n pos p seed).1 ∧
    2 * c.fsKHz * 256 ≤ (concealLoop c base n pos p seed).2.1 ∧ (concealLoop c base n pos p seed).2.1 ≤ 18 * c.fsKHz * 256 := by
  obtain ⟨hcase, hframe, hnb⟩ := hc
  obtain ⟨c1, c2, c3, c4, c5, c6, c7, c8, c9, c10, c11, c12, c13, c14, c15⟩ := consts
  obtain ⟨d1, d2, d3, d4, d5, d6, d7, d8, d9, d10, d11⟩ := consts2
  intro n
  induction n with
  | zero => intro pos p seed _ _ h0 h1; exact ⟨allIn_nil _, h0, h1⟩
  | succ n ih =>
    intro pos p seed hp0 hp1 h0 h1
    have hfs : 8 ≤ c.fsKHz ∧ c.fsKHz ≤ 16 := by rcases hcase with ⟨h, _⟩ | ⟨h, _⟩ | ⟨h, _⟩ <;> omega
    have hlag := lag_of_q8 c.fsKHz p h0 h1
    have hdr := drift_range c.fsKHz p hfs h0 h1
    unfold concealLoop
    simp only
    rw [d2, d3]
    have hrec := ih (pos + c.subfr) (min (smlawb p p 655) (18 * c.fsKHz * 256))
      (randRun 25 (SilkSynth.randBufSize - 1) c.subfr.toNat seed none).1
      (by rcases hcase with ⟨_, h, _⟩ | ⟨_, h, _⟩ | ⟨_, h, _⟩ <;> omega)
      (by push_cast at hp1 ⊢; rw [Int.add_mul] at hp1; omega) hdr.1 hdr.2
    refine ⟨?_, hrec.2.1, hrec.2.2⟩
    generalize rshiftRound p 8 = lag at hlag
    have hhalf : SilkSynth.ltpOrder / 2 = 2 := by rw [c3]; decide
    rw [hhalf]
    have hrr := randRun_range 25 (SilkSynth.randBufSize - 1) (by rw [d1]; decide) c.subfr.toNat seed none
      (by intro _ _ h; cases h)
    rw [d1] at hrr ⊢
    push_cast at hp1
    rw [Int.add_mul] at hp1
    rcases hcase with ⟨hF, hS, hL, hO⟩ | ⟨hF, hS, hL, hO⟩ | ⟨hF, hS, hL, hO⟩ <;>
    · simp only [hF] at hlag
      simp only [hS, hL, hframe] at hp0 hp1
      refine allIn_append (allIn_append (allIn_append (allIn_append (allIn_append (allIn_append ?_ ?_) ?_) ?_) ?_) ?_) hrec.1
      · apply allIn_rd; leaf2
      · apply allIn_rd; leaf2
      · exact allIn_rdExt hrr hb0 (by simp only [Arr.size, c10]; omega)
      · apply allIn_wrt; leaf2
      · apply allIn_rd; leaf2
      · apply allIn_wrt; leaf2

/-- The hypotheses under which silk_PLC_conceal is entered (after the reset check of silk_PLC). -/
structure ConcealOk (s : DecSt) : Prop where
  cfg : Configured s
  loss : 0 ≤ s.lossCnt
  pitch : 2 * s.fsKHz * 256 ≤ s.pitchLQ8 ∧ s.pitchLQ8 ≤ 18 * s.fsKHz * 256
  plcNb : s.plcNb = 2 ∨ s.plcNb = 4
  plcSubfr : 0 ≤ s.plcSubfr ∧ s.plcSubfr ≤ 80

theorem concealAccesses_ok (s : DecSt) (h : ConcealOk s) (lowFirst : Bool) :
    (concealAccesses s lowFirst).2.1 = false ∧ AllIn s.cfg (concealAccesses s lowFirst).1 ∧
    2 * s.fsKHz * 256 ≤ (concealAccesses s lowFirst).2.2.1 ∧ (concealAccesses s lowFirst).2.2.1 ≤ 18 * s.fsKHz * 256 ∧
    2 * s.fsKHz ≤ (concealAccesses s lowFirst).2.2.2.2 ∧ (concealAccesses s lowFirst).2.2.2.2 ≤ 18 * s.fsKHz := by
  have hc : CfgNum s.cfg := cfgOf_num s.fsKHz s.nbSubfr h.cfg.1 h.cfg.2
  have hcfs : s.cfg.fsKHz = s.fsKHz := rfl
  have hc' := hc
  obtain ⟨hcase, hframe, hnb⟩ := hc'
  obtain ⟨c1, c2, c3, c4, c5, c6, c7, c8, c9, c10, c11, c12, c13, c14, c15⟩ := consts
  obtain ⟨d1, d2, d3, d4, d5, d6, d7, d8, d9, d10, d11⟩ := consts2
  have hlag := lag_of_q8 s.fsKHz s.pitchLQ8 h.pitch.1 h.pitch.2
  have hhalf : SilkSynth.ltpOrder / 2 = 2 := by rw [c3]; decide
  -- the rand_ptr base
  have hbase : ∀ b : Bool, 0 ≤ (if b = true then max 0 ((s.plcNb - 1) * s.plcSubfr - SilkSynth.randBufSize)
        else max 0 (s.plcNb * s.plcSubfr - SilkSynth.randBufSize)) ∧
      (if b = true then max 0 ((s.plcNb - 1) * s.plcSubfr - SilkSynth.randBufSize)
        else max 0 (s.plcNb * s.plcSubfr - SilkSynth.randBufSize)) + 128 ≤ 320 := by
    intro b
    rw [d1]
    have := h.plcSubfr
    rcases h.plcNb with hn | hn <;> rw [hn] <;> cases b <;> simp only [Bool.false_eq_true, if_false, if_true] <;> omega
  unfold concealAccesses
  simp only
  rw [hhalf]
  generalize hbdef : (if lowFirst = true then max 0 ((s.plcNb - 1) * s.plcSubfr - SilkSynth.randBufSize)
        else max 0 (s.plcNb * s.plcSubfr - SilkSynth.randBufSize)) = base
  have hb := hbase lowFirst
  rw [hbdef] at hb
  generalize hlagdef : rshiftRound s.pitchLQ8 8 = lag at hlag
  have hloop := concealLoop_ok s.cfg hc base hb.1 hb.2 s.cfg.nbSubfr s.cfg.ltpMem s.pitchLQ8 s.plcSeed (Int.le_refl _)
    (by rw [hframe]) (by rw [hcfs]; exact h.pitch.1) (by rw [hcfs]; exact h.pitch.2)
  rw [hcfs] at hloop
  have hlagEnd := lag_of_q8 s.fsKHz _ hloop.2.1 hloop.2.2
  have hatt : 0 ≤ min 1 s.lossCnt ∧ min 1 s.lossCnt + 1 ≤ 2 := by have := h.loss; omega
  generalize hcdef : s.cfg = c at *
  have hnbI : (c.nbSubfr : Int) = 2 ∨ (c.nbSubfr : Int) = 4 := by rcases hnb with h' | h' <;> omega
  rcases hcase with ⟨hF, hS, hL, hO⟩ | ⟨hF, hS, hL, hO⟩ | ⟨hF, hS, hL, hO⟩ <;>
  · have hfsv : s.fsKHz = c.fsKHz := hcfs.symm
    rw [hfsv, hF] at hlag hlagEnd
    have hsi : ¬ (c.ltpMem - lag - c.lpcOrder - 2 ≤ 0) := by omega
    have hcond : ¬ (c.lpcOrder < 6 ∨ c.lpcOrder % 2 ≠ 0 ∨ c.lpcOrder > c.ltpMem - (c.ltpMem - lag - c.lpcOrder - 2)) := by omega
    rw [if_neg hsi, lpcAnalysis_eq _ _ _ _ _ _ _ _ hcond]
    simp only [Bool.false_eq_true, if_false]
    refine ⟨trivial, ?_, hloop.2.1, hloop.2.2, by rw [hfsv, hF]; exact hlagEnd.1,
      by rw [hfsv, hF]; exact hlagEnd.2⟩
    -- pre
    have hpre : AllIn c (rd .prevGain 0 2 ++
        (if s.firstFrameAfterReset = true then wrt .prevLPC 0 SilkSynth.szPlcPrevLpc else []) ++
        rd .exc_Q14 (((c.nbSubfr : Int) - 2) * c.subfr) ((c.nbSubfr : Int) * c.subfr) ++ wrt .exc_buf 0 (2 * c.subfr) ++
        rd .exc_buf 0 (2 * c.subfr) ++ rd .attTab (min 1 s.lossCnt) (min 1 s.lossCnt + 1) ++
        rd .prevLPC 0 c.lpcOrder ++ wrt .prevLPC 0 c.lpcOrder ++ rd .prevLPC 0 c.lpcOrder ++ wrt .aPlc 0 c.lpcOrder ++
        (if s.lossCnt = 0 then
          (if s.prevSignalType = SilkSynth.typeVoiced then rd .plcLtp 0 SilkSynth.ltpOrder else rd .prevLPC 0 c.lpcOrder)
         else [])) := by
      refine allIn_append (allIn_append (allIn_append (allIn_append (allIn_append (allIn_append (allIn_append (allIn_append (allIn_append (allIn_append ?_ ?_) ?_) ?_) ?_) ?_) ?_) ?_) ?_) ?_) ?_
      · apply allIn_rd; leaf2
      · apply allIn_ite
        · intro _; apply allIn_wrt; leaf2
        · intro _; exact allIn_nil _
      · apply allIn_rd; intro _; simp only [Arr.size, hS, c10]; rcases hnbI with h' | h' <;> rw [h'] <;> omega
      · apply allIn_wrt; leaf2
      · apply allIn_rd; leaf2
      · apply allIn_rd; intro _; simp only [Arr.size]; omega
      · apply allIn_rd; leaf2
      · apply allIn_wrt; leaf2
      · apply allIn_rd; leaf2
      · apply allIn_wrt; leaf2
      · apply allIn_ite
        · intro _
          apply allIn_ite
          · intro _; apply allIn_rd; leaf2
          · intro _; apply allIn_rd; leaf2
        · intro _; exact allIn_nil _
    refine allIn_append (allIn_append (allIn_append (allIn_append (allIn_append (allIn_append (allIn_append (allIn_append (allIn_append (allIn_append (allIn_append (allIn_append (allIn_append (allIn_append hpre ?_) ?_) ?_) ?_) hloop.1) ?_) ?_) ?_) ?_) ?_) ?_) ?_) ?_) ?_
    · -- silk_LPC_analysis_filter
      apply allIn_append
      · apply allIn_ite
        · intro _
          refine allIn_append (allIn_append ?_ ?_) ?_
          · apply allIn_rd; leaf2
          · apply allIn_rd; leaf2
          · apply allIn_wrt; leaf2
        · intro _; exact allIn_nil _
      · apply allIn_wrt; leaf2
    · apply allIn_rd; leaf2
    · apply allIn_rd; leaf2
    · apply allIn_wrt; intro _; simp only [Arr.size, hS, hL, hO, hframe]; rcases hnbI with h' | h' <;> rw [h'] <;> omega
    · apply allIn_rd; leaf2
    · apply allIn_wrt; intro _; simp only [Arr.size, hS, hL, hO, hframe, c4]; rcases hnbI with h' | h' <;> rw [h'] <;> omega
    · apply allIn_rd; intro _; simp only [Arr.size, hS, hL, hO, hframe]; rcases hnbI with h' | h' <;> rw [h'] <;> omega
    · apply allIn_rd; leaf2
    · apply allIn_wrt; intro _; simp only [Arr.size, hS, hL, hO, hframe]; rcases hnbI with h' | h' <;> rw [h'] <;> omega
    · apply allIn_wrt; leaf2
    · apply allIn_rd; intro _; simp only [Arr.size, hS, hL, hO, hframe, c4]; rcases hnbI with h' | h' <;> rw [h'] <;> omega
    · apply allIn_wrt; leaf2
    · apply allIn_wrt; leaf2

end Opus.SilkSynthIdx
