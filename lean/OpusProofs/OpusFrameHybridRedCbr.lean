import OpusProofs.OpusFrameHybridRed
import OpusProofs.RangeCoderBudget
/-
  C08, slice Hybrid — `opus_frame_lockstep_hybrid_red_partial` for CBR: the two length contracts `hgate` / `hsane` are
  derived from the encoder's own tests (opus_encoder.c:2239 budget test, :2246-2256 `max_redundancy`) when the CELT encoder
  does not shrink the main part below `nb_compr_bytes = (max_data_bytes-1) - redundancy_bytes`.
-/
namespace Opus.OpusFrameProofs
open Opus Opus.RangeCoder Opus.SilkSyms Opus.SilkSymsEnc Opus.SilkSymsEncProofs Opus.OpusFrameEnc OpusProofs.CeltHdr

theorem redSig_split (c2s rb : Nat) :
    redSigOps true true 1 c2s rb = [Op.bitLogp 1 12, Op.bitLogp c2s 1] ++ [Op.uint (rb - 2) 256] := by
  unfold redSigOps; simp

/-- `ec_tell` behind the signalling is at most 8 bits above `ec_tell` behind the `celt_to_silk` bit, and that is `>= 1`. -/
theorem hybrid_red_uint_cost (buf : List Nat) (size : Nat) (cfg : Cfg) (pk : PacketIn) (c2s rb : Nat) (suf : List Op)
    (hs : size ≤ buf.length) (hb : BytesOk buf) (hok : PacketOk cfg pk) (hrb : 2 ≤ rb ∧ rb ≤ 257)
    (hn : (encRun (encInit buf size) (packetOps cfg pk ++ redSigOps true true 1 c2s rb ++ suf)).nbitsTotal < 4294967296)
    (herr : (encRun (encInit buf size) (packetOps cfg pk ++ redSigOps true true 1 c2s rb ++ suf)).error = 0) :
    1 ≤ tell (encRun (encInit buf size) (packetOps cfg pk ++ [Op.bitLogp 1 12, Op.bitLogp c2s 1])) ∧
    tell (encRun (encInit buf size) (packetOps cfg pk ++ redSigOps true true 1 c2s rb)) ≤
      tell (encRun (encInit buf size) (packetOps cfg pk ++ [Op.bitLogp 1 12, Op.bitLogp c2s 1])) + 8 := by
  have hsplit : packetOps cfg pk ++ redSigOps true true 1 c2s rb ++ suf =
      (packetOps cfg pk ++ [Op.bitLogp 1 12, Op.bitLogp c2s 1]) ++ ([Op.uint (rb - 2) 256] ++ suf) := by
    rw [redSig_split]; simp only [List.append_assoc]
  rw [hsplit, encRun_append] at hn herr
  have hnP : (encRun (encInit buf size) (packetOps cfg pk ++ [Op.bitLogp 1 12, Op.bitLogp c2s 1])).nbitsTotal < 4294967296 :=
    Nat.lt_of_le_of_lt (encRun_nbits_mono _ _) hn
  have herrP : (encRun (encInit buf size) (packetOps cfg pk ++ [Op.bitLogp 1 12, Op.bitLogp c2s 1])).error = 0 := by
    apply Classical.byContradiction; intro hne
    exact encRun_error_mono _ _ hne herr
  have hsigL : LegalRun (encRun (encInit buf size) (packetOps cfg pk)) [Op.bitLogp 1 12, Op.bitLogp c2s 1] :=
    ⟨⟨by decide, by decide⟩, ⟨by decide, by decide⟩, trivial⟩
  have hsigN : ∀ op ∈ [Op.bitLogp 1 12, Op.bitLogp c2s 1], NoRawOp op := by
    intro op hop
    simp only [List.mem_cons, List.mem_nil_iff, or_false] at hop
    rcases hop with h | h <;> (rw [h]; trivial)
  obtain ⟨ri, _, _, _, _⟩ := sig_run_facts buf size cfg pk [Op.bitLogp 1 12, Op.bitLogp c2s 1] hs hb hok hsigN hsigL hnP herrP
  have hr : RngOk (encRun (encInit buf size) (packetOps cfg pk ++ [Op.bitLogp 1 12, Op.bitLogp c2s 1])) :=
    ⟨ri.inv.rng_lo, ri.inv.rng_hi⟩
  have h33 : 33 ≤ (encRun (encInit buf size) (packetOps cfg pk ++ [Op.bitLogp 1 12, Op.bitLogp c2s 1])).nbitsTotal :=
    encRun_nbits_mono (packetOps cfg pk ++ [Op.bitLogp 1 12, Op.bitLogp c2s 1]) (encInit buf size)
  have hil := ilog_le_32 hr
  have hstep := (tell_step_bounds _ hr 0 1 (by decide) (by decide) (rb - 2) (by omega)).2
  have hrun : encRun (encInit buf size) (packetOps cfg pk ++ redSigOps true true 1 c2s rb) =
      encOp (encRun (encInit buf size) (packetOps cfg pk ++ [Op.bitLogp 1 12, Op.bitLogp c2s 1])) (.uint (rb - 2) 256) := by
    rw [redSig_split, ← List.append_assoc, encRun_append]; rfl
  rw [hrun]
  refine ⟨?_, hstep⟩
  unfold tell; omega

/-- **Hybrid frame WITH redundancy, CBR**: `hgate` and `hsane` from the encoder's own tests. -/
theorem opus_frame_lockstep_hybrid_red_cbr_partial_all (buf : List Nat) (maxData bandwidth nCh ms10 spf48 : Nat) (pk : PacketIn)
    (st : SilkSt) (c2s : Nat) (celtOps : List Op) (w : World) (ccfg : Opus.CeltSymsEnc.EncCfg) (s0 : Opus.CeltSymsEnc.St)
    (fr : Opus.CeltBandsEnc.EncFrame)
    (hms : ms10 = 100 ∨ ms10 = 200)
    (hs : maxData - 1 ≤ buf.length) (hb : BytesOk buf) (hok : PacketOk (hybridCfg nCh ms10) pk)
    (hc2s : c2s ≤ 1) (hown : OwnCoderFrame w ccfg s0 fr)
    (hcc : ccfg.start = 0 ∧ ccfg.end_ = Opus.CeltSyms.endBandOf bandwidth ∧ ccfg.C = nCh ∧ ccfg.LM = 1)
    (hrb : 2 ≤ w.bytes.length ∧ w.bytes.length ≤ 257)
    (hsuf : LegalRun (encRun (encInit buf (maxData - 1)) (packetOps (hybridCfg nCh ms10) pk ++ redSigOps true true 1 c2s w.bytes.length))
      (Op.shrink (maxData - 1 - w.bytes.length) :: celtOps))
    (hn : (encodeAll buf (maxData - 1) (hybridOps maxData (hybridCfg nCh ms10) pk true 1 c2s w.bytes.length celtOps)).nbitsTotal < 4294967296)
    (herr : (encodeAll buf (maxData - 1) (hybridOps maxData (hybridCfg nCh ms10) pk true 1 c2s w.bytes.length celtOps)).error = 0)
    (hcbr : (encodeAll buf (maxData - 1) (hybridOps maxData (hybridCfg nCh ms10) pk true 1 c2s w.bytes.length celtOps)).storage =
      maxData - 1 - w.bytes.length)
    (henc : tell (encRun (encInit buf (maxData - 1)) (packetOps (hybridCfg nCh ms10) pk)) + 17 + 20 ≤ 8 * ((maxData - 1 : Nat) : Int))
    (hmax : (w.bytes.length : Int) ≤ ((maxData - 1 : Nat) : Int) -
      (tell (encRun (encInit buf (maxData - 1)) (packetOps (hybridCfg nCh ms10) pk ++ [Op.bitLogp 1 12, Op.bitLogp c2s 1])) + 8 + 3 + 7) / 8)
    (hmainpos : 0 < (encodeAll buf (maxData - 1) (hybridOps maxData (hybridCfg nCh ms10) pk true 1 c2s w.bytes.length celtOps)).storage) :
    ∃ o, decodeOpusFrame 1001 bandwidth nCh ms10 false st
        (hybridFrame buf maxData (hybridCfg nCh ms10) pk true 1 c2s celtOps w.bytes fr.fin.rng).payload = .ok o ∧
      o.redundancy = 1 ∧ o.celtToSilk = c2s ∧ o.redundancyBytes = w.bytes.length ∧
      o.len = ((maxData - 1 - w.bytes.length : Nat) : Int) ∧
      o.dec.error = 0 ∧
      o.dec.rng = (encRun (encInit buf (maxData - 1)) (packetOps (hybridCfg nCh ms10) pk ++ redSigOps true true 1 c2s w.bytes.length)).rng ∧
      tell o.dec = tell (encRun (encInit buf (maxData - 1)) (packetOps (hybridCfg nCh ms10) pk ++ redSigOps true true 1 c2s w.bytes.length)) ∧
      o.dec.storage = maxData - 1 - w.bytes.length ∧
      (CeltFrameRT { start := 17, end_ := CeltSyms.endBandOf bandwidth, C := nCh, LM := CeltSyms.lmOf spf48 } o.len.toNat o.dec
          (encodeAll buf (maxData - 1) (hybridOps maxData (hybridCfg nCh ms10) pk true 1 c2s w.bytes.length celtOps)).rng →
        decRangeFinal 1001 bandwidth nCh spf48 (hybridFrame buf maxData (hybridCfg nCh ms10) pk true 1 c2s celtOps w.bytes fr.fin.rng).payload o =
          .ok (hybridFrame buf maxData (hybridCfg nCh ms10) pk true 1 c2s celtOps w.bytes fr.fin.rng).rangeFinal) := by
  have hopsE : hybridOps maxData (hybridCfg nCh ms10) pk true 1 c2s w.bytes.length celtOps =
      packetOps (hybridCfg nCh ms10) pk ++ redSigOps true true 1 c2s w.bytes.length ++ (Op.shrink (maxData - 1 - w.bytes.length) :: celtOps) := rfl
  have hnF : (encRun (encInit buf (maxData - 1)) (packetOps (hybridCfg nCh ms10) pk ++ redSigOps true true 1 c2s w.bytes.length ++
      (Op.shrink (maxData - 1 - w.bytes.length) :: celtOps))).nbitsTotal < 4294967296 := by
    have := hn; unfold encodeAll at this; rw [encDone_nbitsTotal, hopsE] at this; exact this
  have herrF : (encRun (encInit buf (maxData - 1)) (packetOps (hybridCfg nCh ms10) pk ++ redSigOps true true 1 c2s w.bytes.length ++
      (Op.shrink (maxData - 1 - w.bytes.length) :: celtOps))).error = 0 := by
    apply Classical.byContradiction; intro hne
    have := herr; unfold encodeAll at this; rw [hopsE] at this
    exact encDone_error_mono _ hne this
  obtain ⟨ht, h8⟩ := hybrid_red_uint_cost buf (maxData - 1) (hybridCfg nCh ms10) pk c2s w.bytes.length _ hs hb hok hrb hnF herrF
  have hrble : w.bytes.length ≤ maxData - 1 := by omega
  have hgate := hybrid_red_gate_cbr _ maxData _ w.bytes.length hcbr hrble henc
  have hsane := hybrid_red_sane_cbr _ _ maxData _ w.bytes.length hcbr (by omega) h8 hmax
  obtain ⟨o, o1, o2, o3, o4, o5, _, o7, o8, o9, o10, _, o12⟩ := opus_frame_lockstep_hybrid_red_partial_all buf maxData bandwidth nCh ms10
    spf48 pk st c2s celtOps w ccfg s0 fr hms hs hb hok hc2s hown hcc hrb hsuf hn herr hgate hsane hmainpos
  rw [hcbr] at o5 o10
  exact ⟨o, o1, o2, o3, o4, o5, o7, o8, o9, o10, o12⟩

end Opus.OpusFrameProofs
