import OpusProofs.DecSkelFrame
/-
  OpusProofs.DecSkelPlc — the concealment prologue of `opus_decode_frame` (:294-352): frame-size
  clamps, the "no packet yet" path, the PLC chunk loop (:333-342) and the unrolling of the
  recursion into layers; then `opus_decode_frame` as a whole (`decodeFrame`).
-/
namespace Opus.DecSkel
open Opus

/-- Multiples of the 2.5 ms unit up to 20 ms. -/
def Upto8 (u n : Int) : Prop :=
  n = u ∨ n = 2 * u ∨ n = 3 * u ∨ n = 4 * u ∨ n = 5 * u ∨ n = 6 * u ∨ n = 7 * u ∨ n = 8 * u

theorem DecInv.frame_size_cases {st : DecState} {u : Int} (h : DecInv st) (hu : Units st u) :
    st.frame_size = u ∨ st.frame_size = 2 * u ∨ st.frame_size = 4 * u ∨ st.frame_size = 8 * u ∨
    st.frame_size = 16 * u ∨ st.frame_size = 24 * u := by
  have := h.toc; have := hu.u400
  unfold TocOk at *
  simp only at *
  omega

/-- Concealment of at most 20 ms: no chunk loop, the recursive call is never made (so `inner` is
    arbitrary).  Returns a multiple of 2.5 ms not exceeding the request. -/
theorem nullAfterClamp_small {o : Oracle} (ho : OracleOk o) {st0 : DecState} {cap0 : Int}
    {inner : Ptr → Int → Run → Res'} {len : Int} {pcm : Ptr} {fs2 : Int} {r : Run} {u : Int}
    (hg : Good st0 cap0 r) (hu : Units r.st u) (hfs : Upto8 u fs2) (hlen : 0 ≤ len ∧ len ≤ 1)
    (hroom : pcm.room (fs2 * r.st.channels)) (hcap : PtrCapOk st0 cap0 pcm) :
    ∃ v r', nullAfterClamp o inner len pcm fs2 r = (.ret v, r') ∧ Good st0 cap0 r' ∧ FrameRel r.st r'.st ∧
      Upto8 u v ∧ v ≤ fs2 ∧ ((fs2 = u ∨ fs2 = 2 * u ∨ fs2 = 4 * u ∨ fs2 = 8 * u) → v = fs2) ∧
      ((if r.st.prev_redundancy ≠ 0 then MODE_CELT else r.st.prev_mode) ≠ 0 →
        (v = u ∨ v = 2 * u ∨ v = 3 * u ∨ v = 4 * u ∨ v = 8 * u) ∧
        ((if r.st.prev_redundancy ≠ 0 then MODE_CELT else r.st.prev_mode) ≠ MODE_SILK → v ≠ 3 * u)) := by
  have hupos := hu.pos
  have hch := hg.inv.ch
  unfold Upto8 at hfs
  unfold nullAfterClamp
  dsimp only
  by_cases hm0 : (if r.st.prev_redundancy ≠ 0 then MODE_CELT else r.st.prev_mode) = 0
  · simp only [hm0, ↓reduceIte]
    exact ⟨fs2, _, rfl, hg.push (evGood_acc hroom hcap), FrameRel.refl _, hfs, Int.le_refl _, fun _ => rfl,
      fun h => absurd rfl h⟩
  · simp only [hm0, ↓reduceIte]
    have hnb : ¬ fs2 > F20 r.st := by rw [hu.f20]; omega
    simp only [hnb, ↓reduceIte]
    -- the mode used for concealment
    have hmode : (if r.st.prev_redundancy ≠ 0 then MODE_CELT else r.st.prev_mode) = MODE_SILK ∨
        (if r.st.prev_redundancy ≠ 0 then MODE_CELT else r.st.prev_mode) = MODE_HYBRID ∨
        (if r.st.prev_redundancy ≠ 0 then MODE_CELT else r.st.prev_mode) = MODE_CELT := by
      have := hg.inv.pm
      split
      · simp
      · rename_i h; simp only [h, ↓reduceIte] at hm0; omega
    have hready : (if r.st.prev_redundancy ≠ 0 then MODE_CELT else r.st.prev_mode) ≠ MODE_CELT →
        r.st.dc.internalSampleRate ≠ 0 ∧ r.st.dc.nChannelsInternal ≠ 0 := by
      intro hne
      split at hne
      · exact absurd rfl hne
      · rename_i h
        simp only [h, ↓reduceIte] at hmode
        apply hg.inv.silkReady
        rcases hmode with h | h | h
        · exact Or.inl h
        · exact Or.inr h
        · exact absurd h hne
    generalize (if r.st.prev_redundancy ≠ 0 then MODE_CELT else r.st.prev_mode) = mode at *
    -- the clamped audiosize
    have haud : ∃ a, (if fs2 < F20 r.st then
          if fs2 > F10 r.st then F10 r.st
          else if mode ≠ MODE_SILK ∧ fs2 > F5 r.st ∧ fs2 < F10 r.st then F5 r.st else fs2
        else fs2) = a ∧ a ≤ fs2 ∧ (a = u ∨ a = 2 * u ∨ a = 3 * u ∨ a = 4 * u ∨ a = 8 * u) ∧
        (mode ≠ MODE_SILK → (a = u ∨ a = 2 * u ∨ a = 4 * u ∨ a = 8 * u)) ∧
        ((fs2 = u ∨ fs2 = 2 * u ∨ fs2 = 4 * u ∨ fs2 = 8 * u) → a = fs2) := by
      refine ⟨_, rfl, ?_⟩
      simp only [hu.f20, hu.f10, hu.f5]
      by_cases hms : mode ≠ MODE_SILK
      · simp only [hms, ne_eq, not_false_eq_true, true_and, forall_const]
        refine ⟨?_, ?_, ?_, ?_⟩ <;> (repeat' split) <;> omega
      · simp only [hms, false_and, ↓reduceIte, false_imp_iff, true_and]
        refine ⟨?_, ?_, ?_⟩ <;> (repeat' split) <;> omega
    obtain ⟨a, ea, hale, ha5, haC, hakeep⟩ := haud
    simp only [ea]
    have hlen' : 0 ≤ len ∧ len ≤ 1275 := ⟨hlen.1, Int.le_trans hlen.2 (by decide)⟩
    have ha7 : a = u ∨ a = 2 * u ∨ a = 3 * u ∨ a = 4 * u ∨ a = 8 * u ∨ a = 16 * u ∨ a = 24 * u := by
      rcases ha5 with h | h | h | h | h <;> simp [h]
    have hbody : BodyOk r.st u
        { data := none, len := len, pcm := pcm, frame_size := fs2, audiosize := a, mode := mode,
          bandwidth := 0, fec := 0 } := by
      refine ⟨hmode, ha7, haC, hale, hlen', ?_, ?_⟩
      · intro h; simp at h
      · intro _; exact ⟨rfl, hready⟩
    have hapos : 0 ≤ a := by
      rcases ha5 with h | h | h | h | h <;> rw [h] <;> omega
    obtain ⟨r', e1, g1, f1, _⟩ := frameBody_spec ho (trans := fun _ _ r => (.abort, r)) hg hu hbody
      (by
        apply Ptr.room_of_le hroom
        · clear hfs ha5 ha7 haC hakeep hmode; simp only; rcases hch with h | h <;> rw [h] <;> omega
        · clear hfs ha5 ha7 haC hakeep hmode; simp only; rcases hch with h | h <;> rw [h] <;> omega)
      hcap (by intro h; simp at h)
    refine ⟨a, r', e1, g1, f1, ?_, hale, hakeep, fun _ => ⟨ha5, fun hns h3 => ?_⟩⟩
    · unfold Upto8
      rcases ha5 with h | h | h | h | h <;> simp [h]
    · have := haC hns; omega

/-- `opus_decode_frame(st, NULL, 0, pcm, n, 0)` for `n ≤ 20 ms`, whatever stands for the recursive call. -/
theorem nullFrameGen_small {o : Oracle} (ho : OracleOk o) {st0 : DecState} {cap0 : Int}
    {inner : Ptr → Int → Run → Res'} {pcm : Ptr} {n : Int} {r : Run} {u : Int}
    (hg : Good st0 cap0 r) (hu : Units r.st u) (hn : Upto8 u n)
    (hroom : pcm.room (n * r.st.channels)) (hcap : PtrCapOk st0 cap0 pcm) :
    ∃ v r', nullFrameGen o inner pcm n r = (.ret v, r') ∧ Good st0 cap0 r' ∧ FrameRel r.st r'.st ∧
      Upto8 u v ∧ v ≤ n := by
  have hupos := hu.pos
  have hch := hg.inv.ch
  have hfsz := hg.inv.frame_size_cases hu
  unfold Upto8 at hn
  unfold nullFrameGen
  dsimp only
  have h1 : ¬ n < F2_5 r.st := by rw [hu.f25]; omega
  simp only [h1, ↓reduceIte, hu.f120]
  have hfs2 : Upto8 u (min (min n (48 * u)) r.st.frame_size) := by unfold Upto8; omega
  obtain ⟨v, r', e, g, f, hv, hle, _⟩ := nullAfterClamp_small ho (inner := inner) (len := 0) hg hu hfs2 (by omega)
    (by
      apply Ptr.room_of_le hroom
      · unfold Upto8 at hfs2; rcases hch with h | h <;> rw [h] <;> omega
      · rcases hch with h | h <;> rw [h] <;> omega)
    hcap
  exact ⟨v, r', e, g, f, hv, by omega⟩

/-- The recursion depth of `opus_decode_frame` is at most two: a call for at most 20 ms never
    reaches its own recursive call. -/
theorem nullFrameGen_inner_irrel (o : Oracle) (i1 i2 : Ptr → Int → Run → Res') (pcm : Ptr) (n : Int) (r : Run)
    (hn : n ≤ F20 r.st) : nullFrameGen o i1 pcm n r = nullFrameGen o i2 pcm n r := by
  unfold nullFrameGen
  dsimp only
  split
  · rfl
  · unfold nullAfterClamp
    dsimp only
    have : ¬ min (min n (r.st.Fs / 25 * 3)) r.st.frame_size > F20 r.st := by omega
    simp only [this, ↓reduceIte]

/-- The transition concealment call satisfies its contract. -/
theorem transOk_nullFrame {o : Oracle} (ho : OracleOk o) (st0 : DecState) (cap0 : Int) (u : Int)
    (inner : Ptr → Int → Run → Res') : TransOk st0 cap0 u (nullFrameGen o inner) := by
  intro r n hg hu hn
  have hupos := hu.pos
  have hch := hg.inv.ch
  obtain ⟨v, r', e, g, f, _, _⟩ := nullFrameGen_small ho (inner := inner) (pcm := transBuf r.st) (n := n) hg hu
    (by unfold Upto8; omega)
    (by apply Ptr.room_of_le (transBuf_room hu hch) <;> rcases hch with h | h <;> rw [h] <;> omega)
    (transBuf_cap hg.fs hg.ch)
  exact ⟨v, r', e, g, f⟩

/-- The PLC chunk loop (:333-342): terminates, returns `frame_size`, and the chunks tile the
    request (the pointer advances by what each chunk produced, never past the end). -/
theorem plcLoop_spec {st0 : DecState} {cap0 : Int} {inner : Ptr → Int → Run → Res'} {u ch frame_size : Int}
    (hch : ch = 1 ∨ ch = 2) (hupos : 20 ≤ u)
    (hinner : ∀ (r : Run) (pcm : Ptr) (n : Int), Good st0 cap0 r → Units r.st u → r.st.channels = ch → Upto8 u n →
      pcm.room (n * ch) → PtrCapOk st0 cap0 pcm →
      ∃ v r', inner pcm n r = (.ret v, r') ∧ Good st0 cap0 r' ∧ FrameRel r.st r'.st ∧ Upto8 u v ∧ v ≤ n) :
    ∀ (k : Nat) (audiosize : Int) (pcm : Ptr) (r : Run), Good st0 cap0 r → Units r.st u → r.st.channels = ch →
      audiosize = k * u → 0 < audiosize → pcm.room (audiosize * ch) → PtrCapOk st0 cap0 pcm →
      ∃ r', plcLoop inner (8 * u) ch frame_size audiosize pcm r = (.ret frame_size, r') ∧ Good st0 cap0 r' ∧
        FrameRel r.st r'.st := by
  intro k
  induction k using Nat.strongRecOn with
  | ind k ih =>
    intro audiosize pcm r hg hu hrc hk hpos hroom hcap
    have hk1 : 1 ≤ k := by
      rcases Nat.eq_zero_or_pos k with h | h
      · subst h; simp at hk; omega
      · exact h
    -- the chunk
    have hchunk : Upto8 u (min audiosize (8 * u)) := by
      unfold Upto8
      by_cases h8 : 8 ≤ k
      · have : 8 * u ≤ audiosize := by
          rw [hk]; exact Int.mul_le_mul_of_nonneg_right (by omega) (by omega)
        omega
      · have hk8 : k = 1 ∨ k = 2 ∨ k = 3 ∨ k = 4 ∨ k = 5 ∨ k = 6 ∨ k = 7 := by omega
        rcases hk8 with h | h | h | h | h | h | h <;> subst h <;> simp at hk <;> omega
    have hcle : min audiosize (8 * u) ≤ audiosize := by omega
    obtain ⟨v, r1, e1, g1, f1, hv, hvle⟩ := hinner r pcm (min audiosize (8 * u)) hg hu hrc hchunk
      (by
        apply Ptr.room_of_le hroom
        · unfold Upto8 at hchunk; rcases hch with h | h <;> rw [h] <;> omega
        · rcases hch with h | h <;> rw [h] <;> omega)
      hcap
    rw [plcLoop]
    simp only [e1]
    have hvpos : 0 < v := by unfold Upto8 at hv; omega
    have hn1 : ¬ v < 0 := by omega
    have hn2 : ¬ v = 0 := by omega
    simp only [hn1, ↓reduceIte, hn2, ↓reduceDIte]
    by_cases hmore : audiosize - v > 0
    · simp only [hmore, ↓reduceDIte]
      -- v = j*u with 1 ≤ j ≤ 8, j < k
      have hj : ∃ j : Nat, 1 ≤ j ∧ j ≤ 8 ∧ v = j * u := by
        unfold Upto8 at hv
        rcases hv with h | h | h | h | h | h | h | h
        · exact ⟨1, by omega, by omega, by simpa using h⟩
        · exact ⟨2, by omega, by omega, by simpa using h⟩
        · exact ⟨3, by omega, by omega, by simpa using h⟩
        · exact ⟨4, by omega, by omega, by simpa using h⟩
        · exact ⟨5, by omega, by omega, by simpa using h⟩
        · exact ⟨6, by omega, by omega, by simpa using h⟩
        · exact ⟨7, by omega, by omega, by simpa using h⟩
        · exact ⟨8, by omega, by omega, by simpa using h⟩
      obtain ⟨j, hj1, hj8, hvj⟩ := hj
      have hjk : j < k := by
        apply Decidable.byContradiction; intro hnot
        have : (k : Int) * u ≤ j * u := Int.mul_le_mul_of_nonneg_right (by omega) (by omega)
        omega
      have hsub : audiosize - v = ((k - j : Nat) : Int) * u := by
        rw [hk, hvj, Int.ofNat_sub (by omega), Int.sub_mul]
      have hrc1 : r1.st.channels = ch := by rw [f1.ch]; exact hrc
      obtain ⟨r', e2, g2, f2⟩ := ih (k - j) (by omega) (audiosize - v) (pcm.add (v * ch)) r1 g1 (hu.congr f1.fs) hrc1 hsub hmore
        (by
          have : (audiosize - v) * ch = audiosize * ch - v * ch := Int.sub_mul ..
          rw [this]
          apply Ptr.room_add hroom
          · rcases hch with h | h <;> rw [h] <;> omega
          · rcases hch with h | h <;> rw [h] <;> omega
          · omega)
        (hcap.add _)
      exact ⟨r', e2, g2, f1.trans f2⟩
    · simp only [hmore, ↓reduceDIte]
      exact ⟨r1, rfl, g1, f1⟩

/-- Concealment of any multiple of 2.5 ms up to 120 ms (`data = NULL` after the clamps):
    returns a positive multiple of 2.5 ms not exceeding the request — the request itself when it
    is a packet duration. -/
theorem nullAfterClamp_spec {o : Oracle} (ho : OracleOk o) {st0 : DecState} {cap0 : Int} {len : Int} {pcm : Ptr}
    {fs2 : Int} {r : Run} {u : Int} (k : Nat)
    (hg : Good st0 cap0 r) (hu : Units r.st u) (hk : fs2 = k * u) (hk1 : 1 ≤ k) (hlen : 0 ≤ len ∧ len ≤ 1)
    (hroom : pcm.room (fs2 * r.st.channels)) (hcap : PtrCapOk st0 cap0 pcm) :
    ∃ v r', nullAfterClamp o (nullFrameLeaf o) len pcm fs2 r = (.ret v, r') ∧ Good st0 cap0 r' ∧ FrameRel r.st r'.st ∧
      0 < v ∧ v ≤ fs2 ∧ (∃ j : Nat, v = j * u) ∧
      ((fs2 = u ∨ fs2 = 2 * u ∨ fs2 = 4 * u ∨ 8 * u ≤ fs2) → v = fs2) := by
  have hupos := hu.pos
  have hch := hg.inv.ch
  by_cases h8 : k ≤ 8
  · have hfs : Upto8 u fs2 := by
      unfold Upto8
      have hk8 : k = 1 ∨ k = 2 ∨ k = 3 ∨ k = 4 ∨ k = 5 ∨ k = 6 ∨ k = 7 ∨ k = 8 := by omega
      rcases hk8 with h | h | h | h | h | h | h | h <;> subst h <;> simp at hk <;> omega
    obtain ⟨v, r', e, g, f, hv, hle, hkeep, _⟩ := nullAfterClamp_small ho (inner := nullFrameLeaf o) hg hu hfs hlen hroom hcap
    refine ⟨v, r', e, g, f, by unfold Upto8 at hv; omega, hle, ?_, ?_⟩
    · unfold Upto8 at hv
      rcases hv with h | h | h | h | h | h | h | h
      · exact ⟨1, by simpa using h⟩
      · exact ⟨2, by simpa using h⟩
      · exact ⟨3, by simpa using h⟩
      · exact ⟨4, by simpa using h⟩
      · exact ⟨5, by simpa using h⟩
      · exact ⟨6, by simpa using h⟩
      · exact ⟨7, by simpa using h⟩
      · exact ⟨8, by simpa using h⟩
    · intro h; apply hkeep; unfold Upto8 at hfs; omega
  · have hbig : 8 * u < fs2 := by
      have : (9 : Int) * u ≤ k * u := Int.mul_le_mul_of_nonneg_right (by omega) (by omega)
      omega
    have hpos : 0 < fs2 := by omega
    unfold nullAfterClamp
    dsimp only
    by_cases hm0 : (if r.st.prev_redundancy ≠ 0 then MODE_CELT else r.st.prev_mode) = 0
    · simp only [hm0, ↓reduceIte]
      exact ⟨fs2, _, rfl, hg.push (evGood_acc hroom hcap), FrameRel.refl _, hpos, Int.le_refl _, ⟨k, hk⟩, fun _ => rfl⟩
    · have : fs2 > 8 * u := by omega
      simp only [hm0, ↓reduceIte, hu.f20, this]
      obtain ⟨r', e, g, f⟩ := plcLoop_spec (st0 := st0) (cap0 := cap0) (inner := nullFrameLeaf o) (frame_size := fs2) hch hupos
        (by
          intro r2 pcm2 n g2 hu2 hc2 hn hroom2 hcap2
          exact nullFrameGen_small ho g2 hu2 hn (by rw [hc2]; exact hroom2) hcap2)
        k fs2 pcm r hg hu rfl hk hpos hroom hcap
      exact ⟨fs2, r', e, g, f, hpos, Int.le_refl _, ⟨k, hk⟩, fun _ => rfl⟩

end Opus.DecSkel
