import OpusModel.Kernels
/-
  OpusProofs.KernelsVQ — silk_VQ_WMat_EC_sse4_1 computes what silk_VQ_WMat_EC_c computes, for all inputs.
  The two files differ only in the first-row dot product; the proof is modular arithmetic on the
  data-flow (`omega` with the 32×8-bit products as atoms) — no bit-blasting.
-/
namespace Opus.Kernels

theorem rd32_range (l : List Int) (i : Nat) : -2147483648 ≤ rd32 l i ∧ rd32 l i < 2147483648 := by
  unfold rd32 wrap32; omega

theorem rd8_range (l : List Int) (i : Nat) : -128 ≤ rd8 l i ∧ rd8 l i < 128 := by
  unfold rd8 sext8; omega

theorem wrap32_u32 (x : Int) (h : -2147483648 ≤ x ∧ x < 2147483648) : wrap32 (u32 x) = x := by
  unfold wrap32 u32; omega

theorem wrap32_u32_sext8 (c : Int) (h : -128 ≤ c ∧ c < 128) : wrap32 (u32 (sext8 c)) = c := by
  unfold wrap32 u32 sext8; omega

theorem ofQ_q0 (a b : Int) : (ofQ a b).q0 = a % 18446744073709551616 := by
  unfold ofQ I128.q0; simp only []; omega

theorem ofQ_q1 (a b : Int) : (ofQ a b).q1 = b % 18446744073709551616 := by
  unfold ofQ I128.q1; simp only []; omega

/-- `_mm_shuffle_epi32(v, _MM_SHUFFLE(0,3,2,1))` rotates the lanes down by one. -/
theorem shuffle_0321 (v : I128) : shuffleEpi32 v (0 * 64 + 3 * 16 + 2 * 4 + 1) = ⟨v.l1, v.l2, v.l3, v.l0⟩ := by
  simp [shuffleEpi32, I128.lane]

/-- `_mm_shuffle_epi32(v, _MM_SHUFFLE(1,0,3,2))` swaps the 64-bit halves. -/
theorem shuffle_1032 (v : I128) : shuffleEpi32 v (1 * 64 + 0 * 16 + 3 * 4 + 2) = ⟨v.l2, v.l3, v.l0, v.l1⟩ := by
  simp [shuffleEpi32, I128.lane]

/-- low 32 bits of the SSE accumulator, in terms of the four exact products. -/
theorem sse_acc_l0 (x1 x2 x3 x4 c1 c2 c3 c4 : Int)
    (hx1 : -2147483648 ≤ x1 ∧ x1 < 2147483648) (hx2 : -2147483648 ≤ x2 ∧ x2 < 2147483648)
    (hx3 : -2147483648 ≤ x3 ∧ x3 < 2147483648) (hx4 : -2147483648 ≤ x4 ∧ x4 < 2147483648)
    (hc1 : -128 ≤ c1 ∧ c1 < 128) (hc2 : -128 ≤ c2 ∧ c2 < 128)
    (hc3 : -128 ≤ c3 ∧ c3 < 128) (hc4 : -128 ≤ c4 ∧ c4 < 128) :
    let vXX31 := loadSi128 x1 x2 x3 x4
    let vXX42 := shuffleEpi32 vXX31 (0 * 64 + 3 * 16 + 2 * 4 + 1)
    let vcb31 := cvtepi8Epi32 c1 c2 c3 c4
    let vcb42 := shuffleEpi32 vcb31 (0 * 64 + 3 * 16 + 2 * 4 + 1)
    let acc1 := addEpi64 (mulEpi32 vXX31 vcb31) (mulEpi32 vXX42 vcb42)
    let acc := addEpi64 acc1 (shuffleEpi32 acc1 (1 * 64 + 0 * 16 + 3 * 4 + 2))
    acc.l0 = (((x1 * c1) % 18446744073709551616 + (x2 * c2) % 18446744073709551616) % 18446744073709551616 +
              ((x3 * c3) % 18446744073709551616 + (x4 * c4) % 18446744073709551616) % 18446744073709551616)
              % 18446744073709551616 % 4294967296 := by
  intro vXX31 vXX42 vcb31 vcb42 acc1 acc
  have e1 : mulEpi32 vXX31 vcb31 = ofQ (x1 * c1) (x3 * c3) := by
    simp only [vXX31, vcb31, mulEpi32, loadSi128, cvtepi8Epi32, wrap32_u32 _ hx1, wrap32_u32 _ hx3,
      wrap32_u32_sext8 _ hc1, wrap32_u32_sext8 _ hc3]
  have e2 : mulEpi32 vXX42 vcb42 = ofQ (x2 * c2) (x4 * c4) := by
    simp only [vXX42, vcb42, vXX31, vcb31, shuffle_0321, mulEpi32, loadSi128, cvtepi8Epi32, wrap32_u32 _ hx2,
      wrap32_u32 _ hx4, wrap32_u32_sext8 _ hc2, wrap32_u32_sext8 _ hc4]
  have e3 : acc1 = ofQ ((x1 * c1) % 18446744073709551616 + (x2 * c2) % 18446744073709551616)
      ((x3 * c3) % 18446744073709551616 + (x4 * c4) % 18446744073709551616) := by
    simp only [acc1, e1, e2, addEpi64, ofQ_q0, ofQ_q1]
  have e4 : (shuffleEpi32 acc1 (1 * 64 + 0 * 16 + 3 * 4 + 2)).q0 = acc1.q1 := by
    rw [shuffle_1032]; rfl
  show (addEpi64 acc1 (shuffleEpi32 acc1 (1 * 64 + 0 * 16 + 3 * 4 + 2))).l0 = _
  unfold addEpi64
  rw [e4, e3, ofQ_q0, ofQ_q1]
  rfl

/-- The SSE4.1 first-row dot product equals the chained `silk_MLA`s, for all in-range operands. -/
theorem firstRowSse_eq (neg0 x1 x2 x3 x4 c1 c2 c3 c4 : Int)
    (hx1 : -2147483648 ≤ x1 ∧ x1 < 2147483648) (hx2 : -2147483648 ≤ x2 ∧ x2 < 2147483648)
    (hx3 : -2147483648 ≤ x3 ∧ x3 < 2147483648) (hx4 : -2147483648 ≤ x4 ∧ x4 < 2147483648)
    (hc1 : -128 ≤ c1 ∧ c1 < 128) (hc2 : -128 ≤ c2 ∧ c2 < 128)
    (hc3 : -128 ≤ c3 ∧ c3 < 128) (hc4 : -128 ≤ c4 ∧ c4 < 128) :
    firstRowSse neg0 x1 x2 x3 x4 c1 c2 c3 c4 = firstRowC neg0 x1 x2 x3 x4 c1 c2 c3 c4 := by
  have h := sse_acc_l0 x1 x2 x3 x4 c1 c2 c3 c4 hx1 hx2 hx3 hx4 hc1 hc2 hc3 hc4
  simp only [] at h
  unfold firstRowSse firstRowC
  simp only [cvtsi128Si32]
  rw [h]
  unfold mla wrap32
  generalize x1 * c1 = P1
  generalize x2 * c2 = P2
  generalize x3 * c3 = P3
  generalize x4 * c4 = P4
  omega

/-- one loop iteration agrees. -/
theorem vqIter_sse_eq (inp : VQIn) (neg : Nat → Int) (best : VQBest) (k : Nat) :
    vqIter firstRowSse inp neg best k = vqIter firstRowC inp neg best k := by
  unfold vqIter
  rw [firstRowSse_eq _ _ _ _ _ _ _ _ _ (rd32_range _ _) (rd32_range _ _) (rd32_range _ _) (rd32_range _ _)
    (rd8_range _ _) (rd8_range _ _) (rd8_range _ _) (rd8_range _ _)]

theorem vqWMatEC_sse_eq (inp : VQIn) : vqWMatEC_sse inp = vqWMatEC_c inp := by
  have h : vqIter firstRowSse inp = vqIter firstRowC inp := by
    funext neg best k; exact vqIter_sse_eq inp neg best k
  unfold vqWMatEC_sse vqWMatEC_c vqWMatEC
  rw [h]

/-- the SSE shuffle really matters: with the identity shuffle in place of `_MM_SHUFFLE(0,3,2,1)` the
    register would pair x1·c1 with x1·c1 again and the result differs (sanity check of the model). -/
theorem shuffle_matters :
    let wrong := fun (neg0 x1 x2 x3 x4 c1 c2 c3 c4 : Int) =>
      let vXX31 := loadSi128 x1 x2 x3 x4
      let vcb31 := cvtepi8Epi32 c1 c2 c3 c4
      let acc1 := addEpi64 (mulEpi32 vXX31 vcb31) (mulEpi32 vXX31 vcb31)
      let acc := addEpi64 acc1 (shuffleEpi32 acc1 (1 * 64 + 0 * 16 + 3 * 4 + 2))
      wrap32 (neg0 + cvtsi128Si32 acc)
    wrong 0 1 2 3 4 1 1 1 1 ≠ firstRowC 0 1 2 3 4 1 1 1 1 := by
  decide

end Opus.Kernels
