import OpusModel.Ext
/-
  C16 helper lemmas, part 4: buffer actions (`Op`) and their interpreter `runOps`.
  Whether a run succeeds depends only on the `need` checks; its size is independent of `dry`.
-/
set_option linter.unusedVariables false
namespace Opus.ExtProofs
open Opus Opus.Ext

def opSize : Op → Nat
  | .need _ => 0
  | .put _ => 1
  | .copy _ n => n

/-- Number of bytes a sequence of actions writes. -/
def opsSize : List Op → Nat
  | [] => 0
  | o :: l => opSize o + opsSize l

@[simp] theorem opsSize_nil : opsSize [] = 0 := rfl
@[simp] theorem opsSize_cons (o : Op) (l : List Op) : opsSize (o :: l) = opSize o + opsSize l := rfl
@[simp] theorem opsSize_append (a b : List Op) : opsSize (a ++ b) = opsSize a + opsSize b := by
  induction a with
  | nil => simp
  | cons o a ih => simp [ih]; omega

/-- Number of bytes that must be available at the start for every check to pass and every write to fit. -/
def req : List Op → Int
  | [] => 0
  | .need k :: l => max k (req l)
  | .put _ :: l => 1 + req l
  | .copy _ n :: l => n + req l

theorem req_ge_size (l : List Op) : (opsSize l : Int) ≤ req l := by
  induction l with
  | nil => simp [req]
  | cons o l ih => cases o <;> simp [req, opSize] <;> omega

theorem req_append (a b : List Op) : req (a ++ b) = max (req a) (opsSize a + req b) := by
  induction a with
  | nil => simp [req]; have := req_ge_size b; omega
  | cons o a ih => cases o <;> simp [req, opSize, ih] <;> omega

/-- Every write is covered by an earlier check: `c` = number of bytes known to be available. -/
def guarded : Int → List Op → Prop
  | _, [] => True
  | c, .need k :: l => guarded (max c k) l
  | c, .put _ :: l => 1 ≤ c ∧ guarded (c - 1) l
  | c, .copy _ n :: l => (n : Int) ≤ c ∧ guarded (c - n) l

/-- Bytes still known to be available after the actions. -/
def cover : Int → List Op → Int
  | c, [] => c
  | c, .need k :: l => cover (max c k) l
  | c, .put _ :: l => cover (c - 1) l
  | c, .copy _ n :: l => cover (c - n) l

theorem guarded_mono (l : List Op) : ∀ c c' : Int, c ≤ c' → guarded c l → guarded c' l ∧ cover c l ≤ cover c' l := by
  induction l with
  | nil => intro c c' h _; exact ⟨trivial, h⟩
  | cons o l ih =>
    intro c c' h hg
    cases o with
    | need k => exact ih _ _ (by omega) hg
    | put b => obtain ⟨h1, h2⟩ := hg; have := ih (c - 1) (c' - 1) (by omega) h2; exact ⟨⟨by omega, this.1⟩, this.2⟩
    | copy s n => obtain ⟨h1, h2⟩ := hg; have := ih (c - n) (c' - n) (by omega) h2; exact ⟨⟨by omega, this.1⟩, this.2⟩

theorem cover_nonneg (l : List Op) : ∀ c : Int, 0 ≤ c → guarded c l → 0 ≤ cover c l := by
  induction l with
  | nil => intro c h _; exact h
  | cons o l ih =>
    intro c h hg
    cases o with
    | need k => exact ih _ (by omega) hg
    | put b => exact ih _ (by have := hg.1; omega) hg.2
    | copy s n => exact ih _ (by have := hg.1; omega) hg.2

theorem guarded_append (a b : List Op) : ∀ c : Int, guarded c (a ++ b) ↔ guarded c a ∧ guarded (cover c a) b := by
  induction a with
  | nil => intro c; simp [guarded, cover]
  | cons o a ih =>
    intro c
    cases o <;> simp [guarded, cover, ih, and_assoc]

/-- All checks pass when the actions run at position `p` of a buffer of `len` bytes. -/
def needsPass (len : Int) : Nat → List Op → Prop
  | _, [] => True
  | p, .need k :: l => ¬ (len - p < k) ∧ needsPass len p l
  | p, .put _ :: l => needsPass len (p + 1) l
  | p, .copy _ n :: l => needsPass len (p + n) l

noncomputable instance (len : Int) (p : Nat) (l : List Op) : Decidable (needsPass len p l) :=
  Classical.propDecidable _

/-- The bytes the actions write (`dry`: zeros stand in). -/
def content (dry : Bool) : List Op → List Nat
  | [] => []
  | .need _ :: l => content dry l
  | .put b :: l => (if dry then 0 else b) :: content dry l
  | .copy src n :: l => (if dry then List.replicate n 0 else src.take n) ++ content dry l

/-- Every payload copy finds its bytes at the caller's `ext->data`. -/
def CopyOk (l : List Op) : Prop := ∀ src n, Op.copy src n ∈ l → n ≤ src.length

theorem CopyOk.tail {o : Op} {l : List Op} (h : CopyOk (o :: l)) : CopyOk l :=
  fun s n hm => h s n (List.mem_cons_of_mem _ hm)

theorem CopyOk_append {a b : List Op} : CopyOk (a ++ b) ↔ CopyOk a ∧ CopyOk b := by
  unfold CopyOk
  constructor
  · intro h; exact ⟨fun s n hm => h s n (List.mem_append_left _ hm), fun s n hm => h s n (List.mem_append_right _ hm)⟩
  · intro ⟨h1, h2⟩ s n hm
    rcases List.mem_append.mp hm with hm | hm
    · exact h1 s n hm
    · exact h2 s n hm

theorem content_length (dry : Bool) (l : List Op) (h : dry = true ∨ CopyOk l) :
    (content dry l).length = opsSize l := by
  induction l with
  | nil => rfl
  | cons o l ih =>
    have ih' := ih (h.imp id CopyOk.tail)
    cases o with
    | need k => simp [content, opSize, ih']
    | put b => simp [content, opSize, ih']; omega
    | copy s n =>
      simp only [content, List.length_append, ih', opsSize_cons, opSize]
      rcases h with h | h
      · simp [h]
      · have := h s n (List.mem_cons_self ..)
        cases dry <;> simp <;> omega

/-- The interpreter, in closed form. -/
theorem runOps_eq (dry : Bool) (len : Int) (l : List Op) : ∀ out : Array Nat, (dry = true ∨ CopyOk l) →
    runOps dry len l out =
      if needsPass len out.size l then .ok (out ++ (content dry l).toArray) else .err .bufferTooSmall := by
  induction l with
  | nil => intro out _; simp [runOps, needsPass, content]
  | cons o l ih =>
    intro out h
    have ih' := fun o' => ih o' (h.imp id CopyOk.tail)
    cases o with
    | need k =>
      simp only [runOps, runOp, needsPass, content]
      by_cases hk : len - out.size < k
      · simp [hk]
      · simp only [hk, if_false, not_false_eq_true, true_and]; exact ih' out
    | put b =>
      simp only [runOps, runOp, needsPass, content]
      rw [ih' _]
      simp only [Array.size_push]
      congr 2
      apply Array.ext'; simp
    | copy s n =>
      simp only [runOps, runOp, needsPass, content]
      cases dry with
      | true =>
        simp only [if_true]
        rw [ih' _]
        simp only [Array.size_append, Array.size_replicate]
        congr 2
        apply Array.ext'; simp
      | false =>
        have hc : CopyOk (Op.copy s n :: l) := by rcases h with h | h; exact absurd h (by simp); exact h
        have hn := hc s n (List.mem_cons_self ..)
        have : ¬ (s.length < n) := by omega
        simp only [Bool.false_eq_true, if_false, this]
        rw [ih' _]
        have e1 : (out ++ (List.take n s).toArray).size = out.size + n := by
          simp only [Array.size_append, List.size_toArray, List.length_take]; omega
        rw [e1]
        congr 2
        apply Array.ext'; simp

theorem needsPass_of_req (len : Int) (l : List Op) : ∀ p : Nat, req l ≤ len - p → needsPass len p l := by
  induction l with
  | nil => intro _ _; trivial
  | cons o l ih =>
    intro p h
    cases o with
    | need k => simp only [req] at h; exact ⟨by omega, ih p (by omega)⟩
    | put b => simp only [req] at h; exact ih (p + 1) (by push_cast; omega)
    | copy s n => simp only [req] at h; exact ih (p + n) (by push_cast; omega)

theorem not_needsPass (len : Int) (l : List Op) : ∀ (p : Nat) (c : Int), 0 ≤ c → c ≤ len - p → guarded c l →
    len - p < opsSize l → ¬ needsPass len p l := by
  induction l with
  | nil => intro p c h0 h1 _ h2; simp at h2; omega
  | cons o l ih =>
    intro p c h0 h1 hg h2
    cases o with
    | need k =>
      simp only [needsPass]
      intro ⟨hk, hp⟩
      exact ih p (max c k) (by omega) (by omega) hg (by simpa [opSize] using h2) hp
    | put b =>
      simp only [needsPass]
      obtain ⟨g1, g2⟩ := hg
      exact ih (p + 1) (c - 1) (by omega) (by push_cast; omega) g2 (by simp [opSize] at h2; push_cast; omega)
    | copy s n =>
      simp only [needsPass]
      obtain ⟨g1, g2⟩ := hg
      exact ih (p + n) (c - n) (by omega) (by push_cast; omega) g2 (by simp [opSize] at h2; push_cast; omega)

/-- The buffer at the moment the run stops (successfully or not): the "write log". -/
def runOpsLog (dry : Bool) (len : Int) : List Op → Array Nat → Array Nat
  | [], out => out
  | op :: ops, out =>
    match runOp dry len out op with
    | .ok out' => runOpsLog dry len ops out'
    | _ => out

theorem runOpsLog_ok (dry : Bool) (len : Int) (l : List Op) : ∀ out out', runOps dry len l out = .ok out' →
    runOpsLog dry len l out = out' := by
  induction l with
  | nil => intro out out' h; simp [runOps] at h; simp [runOpsLog, h]
  | cons o l ih =>
    intro out out' h
    simp only [runOps] at h
    simp only [runOpsLog]
    split at h
    · rename_i o1 heq; rw [heq]; exact ih _ _ h
    all_goals simp at h

/-- Guarded actions never write at an index `≥ len`, whether or not the run succeeds. -/
theorem runOpsLog_within (dry : Bool) (len : Int) (l : List Op) : ∀ (out : Array Nat) (c : Int), 0 ≤ c →
    c ≤ len - out.size → guarded c l → ((runOpsLog dry len l out).size : Int) ≤ len := by
  induction l with
  | nil => intro out c h0 h1 _; simp only [runOpsLog]; omega
  | cons o l ih =>
    intro out c h0 h1 hg
    cases o with
    | need k =>
      simp only [runOpsLog, runOp]
      by_cases hk : len - out.size < k
      · simp only [hk, if_true]; omega
      · simp only [hk, if_false]; exact ih out (max c k) (by omega) (by omega) hg
    | put b =>
      simp only [runOpsLog, runOp]
      exact ih _ (c - 1) (by have := hg.1; omega) (by simp only [Array.size_push]; push_cast; omega) hg.2
    | copy s n =>
      simp only [runOpsLog, runOp]
      cases dry with
      | true =>
        simp only [if_true]
        exact ih _ (c - n) (by have := hg.1; omega)
          (by simp only [Array.size_append, Array.size_replicate]; push_cast; omega) hg.2
      | false =>
        simp only [Bool.false_eq_true, if_false]
        by_cases hs : s.length < n
        · simp only [hs, if_true]; omega
        · simp only [hs, if_false]
          exact ih _ (c - n) (by have := hg.1; omega)
            (by simp only [Array.size_append, List.size_toArray, List.length_take]
                have : min n s.length = n := by omega
                rw [this]; push_cast; omega) hg.2

end Opus.ExtProofs
