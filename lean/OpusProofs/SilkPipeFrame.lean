import OpusProofs.SilkPipeLen
/- OpusProofs.SilkPipeFrame — totality of one Opus frame of the class, given the decoded symbols (property C03, slice SilkPipe). -/
namespace Opus.SilkPipeProofs
open Opus Opus.SilkCore Opus.SilkPipe Opus.SilkCoreProofs

/-- An Opus frame of the class: SILK, mono, normally decoded, no redundancy, the state's internal rate, a legal duration, and
    every normally decoded (indices, pulses) pair of its event list satisfies `FrameOk`. -/
structure OpusFrameOk (S : PipeSt) (o : SilkSyms.FrameOut) (nb : Nat) : Prop where
  red : o.redundancy = 0
  mono : o.nCh = 1
  normal : o.lostFlag = 0
  rate : o.internalRate = S.dec.fsKHz * 1000
  shape : ∃ nfpp, SilkSyms.packetShape o.payloadMs = .ok (nfpp, nb)
  nbOk : nb = 2 ∨ nb = 4
  frames : ∀ fr ∈ framesOfEvs o.evs, FrameOk S.dec.fsKHz nb (frameIn fr.1 fr.2.1 fr.2.2)

theorem opusFrame_total (S : PipeSt) (off : Nat) (o : SilkSyms.FrameOut) (nb : Nat) (hI : PipeInv S) (h : OpusFrameOk S o nb) :
    ∃ S' pcm, opusFrame S (.silk off o) = .ok (S', pcm) ∧ PipeInv S' ∧ S'.dec.fsKHz = S.dec.fsKHz ∧ S'.rs.cfg = S.rs.cfg ∧
      pcm.length = (framesOfEvs o.evs).length * ((5 * nb) * S.rs.cfg.fsOut) ∧ ∀ x ∈ pcm, -32768 ≤ x ∧ x ≤ 32767 := by
  obtain ⟨nfpp, hsh⟩ := h.shape
  obtain ⟨S1, pcm, h1, I1, f1, c1, l1, x1⟩ := silkFrames_total_ms nb h.nbOk (framesOfEvs o.evs) S hI h.frames
  simp only [opusFrame]
  rw [if_neg (by rw [h.red, h.mono, h.normal, h.rate]; simp)]
  simp only [hsh, h1]
  exact ⟨_, _, rfl, { dec := I1.dec, rs := I1.rs, rate := I1.rate, midLen := I1.midLen, mid16 := I1.mid16 }, f1, c1, l1, x1⟩

end Opus.SilkPipeProofs
