import OpusProofs.EncSkelWfMulti
/-
  OpusProofs.EncSkelWfMultiPad — `encode_multi_wf` with the `pad` argument of the final
  `opus_repacketizer_out_range_impl` call pinned to the code's `!st->use_vbr && (dtx_count != nb_frames)`
  (opus_encoder.c:1742), `dtx_count` = the number of sub-frame calls that returned 1 (:1728-1730).
-/
namespace Opus.EncSkel.Proofs
open Opus Opus.EncDecide Opus.EncSkel Opus.EncSkel.WfProofs

/-- `dtx_count` of a trace: the number of frame calls with `tmp_len == 1`. -/
def dtxOf : List FrameRes → Int
  | [] => 0
  | r :: rs => (if r.ret = 1 then 1 else 0) + dtxOf rs

theorem multiStep_dtx (c : MultiCtx) (d : Decided) (isSil : Int) (i : Nat) (fo : FrameOr) (a : MultiAcc)
    (hf : a.fail = none) (hf' : (multiStep c d isSil i fo a).fail = none) :
    (multiStep c d isSil i fo a).dtxCount =
      (if (stepRes c d isSil i fo a).ret = 1 then a.dtxCount + 1 else a.dtxCount) := by
  unfold stepRes
  unfold multiStep at hf' ⊢
  rw [hf] at hf' ⊢
  dsimp only at hf' ⊢
  generalize frameNative (subSt c i a.st) (subIn c d isSil i a.st a.totSize) fo = r at *
  by_cases h1 : r.abort = true
  · rw [if_pos h1] at hf'; cases hf'
  · rw [if_neg h1] at hf' ⊢
    by_cases h2 : r.ret < 0
    · rw [if_pos h2] at hf'; cases hf'
    · rw [if_neg h2] at hf' ⊢
      split at hf'
      · cases hf'
      · rename_i h3
        rw [if_neg h3]

theorem multiLoop_dtx (c : MultiCtx) (d : Decided) (isSil : Int) (n : Nat) :
    ∀ (i : Nat) (fos : List FrameOr) (a : MultiAcc), (multiLoop c d isSil n i fos a).fail = none →
      (multiLoop c d isSil n i fos a).dtxCount = a.dtxCount + dtxOf (multiTrace c d isSil n i fos a) := by
  induction n with
  | zero => intro i fos a _; simp [multiLoop, multiTrace, dtxOf]
  | succ n ih =>
    intro i fos a hf
    unfold multiLoop at hf ⊢
    unfold multiTrace
    have hf1 := multiLoop_fail_mono c d isSil n (i + 1) fos.tail _ hf
    have hfa : a.fail = none := by
      cases hfa : a.fail with
      | none => rfl
      | some r => rw [multiStep_fail_some c d isSil i _ a r hfa, hfa] at hf1; cases hf1
    rw [ih (i + 1) fos.tail _ hf, multiStep_dtx c d isSil i _ a hfa hf1]
    simp only [dtxOf]
    split <;> omega

/-- `multiFrame_trace` with the `pad` flag of the final call made explicit. -/
theorem multiFrame_trace_pad (d : Decided) (isSil fsz out cbr : Int) (fos : List FrameOr)
    (hp : MultiPre d.st (multiCtx d.st fsz out cbr))
    (hok : (multiFrame d isSil fsz out cbr fos).ok = true) (hret : 1 ≤ (multiFrame d isSil fsz out cbr fos).ret) :
    outRange (multiFrame d isSil fsz out cbr fos).pkt.tocCfg (multiFrame d isSil fsz out cbr fos).pkt.lens
        (multiCtx d.st fsz out cbr).repacketizeLen.toNat
        (decide (d.st.useVbr = 0 ∧
          dtxOf (multiTrace (multiCtx d.st fsz out cbr) d isSil (multiCtx d.st fsz out cbr).nbFrames.toNat 0 fos
            (acc0 (multiSt0 d.st))) ≠ (multiCtx d.st fsz out cbr).nbFrames)) =
      .ok { size := (multiFrame d isSil fsz out cbr fos).pkt.size, hdr := (multiFrame d isSil fsz out cbr fos).pkt.hdr } := by
  unfold multiFrame at hok hret ⊢
  dsimp only at hok hret ⊢
  generalize multiCtx d.st fsz out cbr = c at *
  obtain ⟨m1, m2, m3, m4, m5, m6⟩ := multiSt0_fields d.st
  have h0 := inv_start d.st c (multiSt0 d.st) ⟨m1, m2, m3, m4, m5, m6⟩
  obtain ⟨hnb2, hnb6⟩ := hp.nb
  have hl := multiLoop_inv d.st c d isSil hp c.nbFrames.toNat 0 fos _ h0 (by omega)
  have hdx := multiLoop_dtx c d isSil c.nbFrames.toNat 0 fos (acc0 (multiSt0 d.st))
  have hz : (acc0 (multiSt0 d.st)).dtxCount = 0 := rfl
  rw [hz, Int.zero_add] at hdx
  have hacc : ({ st := multiSt0 d.st, totSize := 0, dtxCount := 0, cfg0 := none, lens := [], calls := [], ok := true, fail := none } : MultiAcc) = acc0 (multiSt0 d.st) := rfl
  rw [hacc] at hok hret ⊢
  generalize multiTrace c d isSil c.nbFrames.toNat 0 fos (acc0 (multiSt0 d.st)) = tr at *
  generalize multiLoop c d isSil c.nbFrames.toNat 0 fos (acc0 (multiSt0 d.st)) = a at *
  unfold Inv at hl
  cases hf : a.fail with
  | some r =>
    rw [hf] at hl hok
    dsimp only at hl hok
    rw [hl] at hok; cases hok
  | none =>
    rw [hf] at hret
    dsimp only at hret ⊢
    rw [← hdx hf]
    split
    · rename_i r hr
      dsimp only
      exact hr
    · rename_i e he
      rw [he] at hret
      simp [natErr, OPUS_INTERNAL_ERROR] at hret
    · rename_i hne1 hne2
      exfalso
      split at hret
      · exact hne1 _ (by assumption)
      · exact hne2 _ (by assumption)
      · simp [natErr, OPUS_INTERNAL_ERROR] at hret

/-- `encode_multi_wf` with `pad = !use_vbr && dtx_count != nb_frames` (opus_encoder.c:1742). -/
theorem encode_multi_wf_pad (s : St) (fuzz : Bool) (fsz out : Int) (o : NatOr)
    (he : entryCheck s fsz out = none) (htm : takesMulti s fuzz fsz out o = true)
    (hok : (encodeNative s fuzz fsz out o).ok = true)
    (frames : List Bytes) (hfl : frames.map List.length = (encodeNative s fuzz fsz out o).pkt.lens) :
    repackRun
        (List.zipWith subBytes
          (multiTrace (ctxOf s fuzz fsz out o) (decOf s fuzz fsz out o) (effSilence (budgetSt s o fsz out) o)
            (ctxOf s fuzz fsz out o).nbFrames.toNat 0 o.frames (acc0 (multiSt0 (decOf s fuzz fsz out o).st)))
          frames)
        frames.length (ctxOf s fuzz fsz out o).repacketizeLen.toNat
        (decide ((decOf s fuzz fsz out o).st.useVbr = 0 ∧
          dtxOf (multiTrace (ctxOf s fuzz fsz out o) (decOf s fuzz fsz out o) (effSilence (budgetSt s o fsz out) o)
            (ctxOf s fuzz fsz out o).nbFrames.toNat 0 o.frames (acc0 (multiSt0 (decOf s fuzz fsz out o).st))) ≠
          (ctxOf s fuzz fsz out o).nbFrames)) =
      .ok (pktBytes (encodeNative s fuzz fsz out o).pkt.hdr frames (encodeNative s fuzz fsz out o).pkt.size) := by
  have hp := encodeNative_pkt s fuzz fsz out o he hok
  have heq := encodeNative_multi_eq s fuzz fsz out o he htm
  rw [heq] at hok hfl hp ⊢
  dsimp only at hok hfl hp ⊢
  simp only [Bool.and_eq_true] at hok
  obtain ⟨⟨hst, hlg⟩, hmok⟩ := hok
  obtain ⟨hpost, _, _, hpre, _⟩ := multi_branch s fuzz fsz out o he htm hst hlg hmok
  obtain ⟨t1, t2, _⟩ := multiFrame_trace (decOf s fuzz fsz out o) (effSilence (budgetSt s o fsz out) o) fsz out
    (sizeBudget (analysisUpd s o) fsz out).cbr o.frames hpre hmok hpost.retLo
  have t3 := multiFrame_trace_pad (decOf s fuzz fsz out o) (effSilence (budgetSt s o fsz out) o) fsz out
    (sizeBudget (analysisUpd s o) fsz out).cbr o.frames hpre hmok hpost.retLo
  obtain ⟨_, _, h4, h256, hlens, hd48, _⟩ := hp
  dsimp only at h4 h256 hlens hd48
  generalize hpadv : (decide ((decOf s fuzz fsz out o).st.useVbr = 0 ∧
          dtxOf (multiTrace (ctxOf s fuzz fsz out o) (decOf s fuzz fsz out o) (effSilence (budgetSt s o fsz out) o)
            (ctxOf s fuzz fsz out o).nbFrames.toNat 0 o.frames (acc0 (multiSt0 (decOf s fuzz fsz out o).st))) ≠
          (ctxOf s fuzz fsz out o).nbFrames)) = pad at *
  generalize multiTrace (ctxOf s fuzz fsz out o) (decOf s fuzz fsz out o) (effSilence (budgetSt s o fsz out) o)
            (ctxOf s fuzz fsz out o).nbFrames.toNat 0 o.frames (acc0 (multiSt0 (decOf s fuzz fsz out o).st)) = tr at *
  generalize (ctxOf s fuzz fsz out o).repacketizeLen.toNat = maxlen at *
  unfold multiOf at *
  generalize multiFrame (decOf s fuzz fsz out o) (effSilence (budgetSt s o fsz out) o) fsz out
    (sizeBudget (analysisUpd s o) fsz out).cbr o.frames = r at *
  obtain ⟨subs, s1, s2, s3⟩ := trace_subs r.pkt.tocCfg tr frames t2 (by rw [hfl, t1])
  have hlne : r.pkt.lens ≠ [] := by
    intro h; rw [h] at t3; simp [EncSkel.outRange] at t3
  have hfne : frames ≠ [] := by
    intro h; apply hlne; rw [← hfl, h]; rfl
  have hne : subs ≠ [] := by intro h; rw [h] at s2; exact hfne s2.symm
  have hlen : frames.length = r.pkt.lens.length := by rw [← hfl]; simp
  have h8 := (RepackProofs.frameDur48_spf8 r.pkt.tocCfg (List.mem_range.mpr h256)).1
  have hd8 : (subs.flatMap (·.1)).length * Framing.samplesPerFrame r.pkt.tocCfg 8000 ≤ 960 := by
    rw [s2, hlen]; rw [h8] at hd48
    have : 6 * (r.pkt.lens.length * Framing.samplesPerFrame r.pkt.tocCfg 8000) ≤ 5760 := by
      rw [Nat.mul_comm (r.pkt.lens.length), ← Nat.mul_assoc]; exact hd48
    omega
  have hle : ∀ f ∈ subs.flatMap (·.1), f.length ≤ 1275 := by
    rw [s2]; intro f hf; apply hlens; rw [← hfl]; exact List.mem_map.mpr ⟨f, hf, rfl⟩
  have := repackRun_contract r.pkt.tocCfg subs h4 h256 s3 hne hle hd8 maxlen pad
  rw [s1, s2, hfl, t3] at this
  exact this

end Opus.EncSkel.Proofs
