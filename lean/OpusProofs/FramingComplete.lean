import OpusProofs.FramingBasic
/-
  C06 completeness: every RFC-valid packet, serialised by the spec, is accepted by the parser
  with exactly the spec's view (both framings).  One lemma per frame-count code.
-/
namespace Opus.FramingProofs
open Opus Opus.Framing Opus.FramingSpec

theorem list_len1 {α} (l : List α) (h : l.length = 1) : ∃ a, l = [a] := by
  match l, h with
  | [a], _ => exact ⟨a, rfl⟩

theorem list_len2 {α} (l : List α) (h : l.length = 2) : ∃ a b, l = [a, b] := by
  match l, h with
  | [a, b], _ => exact ⟨a, b, rfl⟩

theorem complete_code0 (sd : Bool) (p : Packet) (hv : Valid p) (hc : p.code = 0) (rest : Bytes)
    (hrest : sd = false → rest = []) :
    parseImpl sd (serialize sd p ++ rest) = .ok (view sd p) := by
  obtain ⟨hlen, hvbr, hpad⟩ := hv.code0 hc
  obtain ⟨f0, hf⟩ := list_len1 _ hlen
  have hc' : p.toc % 4 = 0 := hc
  have hL : f0.length ≤ 1275 := hv.frame_max f0 (by simp [hf])
  have hser : serialize sd p ++ rest = p.toc :: ((if sd then encLen f0.length else []) ++ (f0 ++ rest)) := by
    simp [serialize, header, lenFields, Packet.code, Packet.lens, padBytes, hc', hf, hpad]
    cases sd <;> simp
  rw [hser]
  unfold parseImpl
  simp only [parseHdr, hc', if_true]
  rw [finish_vbr sd _ p.toc _ f0.length (f0 ++ rest) rfl hL rfl]
  · simp [view, mkParsed, serialize, header, lenFields, Packet.code, Packet.lens, padBytes, hc', hf, hpad]
    cases sd <;> simp <;> omega
  · intro h; subst h; simp [hrest rfl]
  · intro h; subst h; simp; omega



theorem complete_code1 (sd : Bool) (p : Packet) (hv : Valid p) (hc : p.code = 1) (rest : Bytes)
    (hrest : sd = false → rest = []) :
    parseImpl sd (serialize sd p ++ rest) = .ok (view sd p) := by
  obtain ⟨hlen, hvbr, hpad, heq⟩ := hv.code1 hc
  obtain ⟨f0, f1, hf⟩ := list_len2 _ hlen
  have hc' : p.toc % 4 = 1 := hc
  have hL : f0.length ≤ 1275 := hv.frame_max f0 (by simp [hf])
  have he : f1.length = f0.length := by
    have := heq f1.length (by simp [Packet.lens, hf]) f0.length (by simp [Packet.lens, hf]); exact this
  have hser : serialize sd p ++ rest = p.toc :: ((if sd then encLen f0.length else []) ++ (f0 ++ f1 ++ rest)) := by
    simp [serialize, header, lenFields, Packet.code, Packet.lens, padBytes, hc', hf, hpad, he]
    cases sd <;> simp
  rw [hser]
  unfold parseImpl
  cases sd with
  | false =>
    have hr := hrest rfl
    subst hr
    simp only [parseHdr, hc']
    simp
    have h2 : ¬ (((f0.length : Int) + f1.length) % 2 = 1) := by omega
    simp [h2]
    rw [finish_cbr false _ p.toc _ f0.length (f0 ++ f1) rfl hL (by simp)]
    · simp [view, mkParsed, serialize, header, lenFields, Packet.code, Packet.lens, padBytes, hc', hf, hpad, he, List.replicate]
      omega
    · intro _; simp; omega
    · intro h; cases h
  | true =>
    simp only [parseHdr, hc']
    simp
    rw [finish_cbr true _ p.toc _ f0.length (f0 ++ f1 ++ rest) rfl hL (by simp)]
    · simp [view, mkParsed, serialize, header, lenFields, Packet.code, Packet.lens, padBytes, hc', hf, hpad, he, List.replicate]
      omega
    · intro h; cases h
    · intro _; simp; omega

theorem complete_code2 (sd : Bool) (p : Packet) (hv : Valid p) (hc : p.code = 2) (rest : Bytes)
    (hrest : sd = false → rest = []) :
    parseImpl sd (serialize sd p ++ rest) = .ok (view sd p) := by
  obtain ⟨hlen, hvbr, hpad⟩ := hv.code2 hc
  obtain ⟨f0, f1, hf⟩ := list_len2 _ hlen
  have hc' : p.toc % 4 = 2 := hc
  have hL0 : f0.length ≤ 1275 := hv.frame_max f0 (by simp [hf])
  have hL1 : f1.length ≤ 1275 := hv.frame_max f1 (by simp [hf])
  have hser : serialize sd p ++ rest = p.toc :: (encLen f0.length ++ ((if sd then encLen f1.length else []) ++ (f0 ++ f1 ++ rest))) := by
    simp [serialize, header, lenFields, Packet.code, Packet.lens, padBytes, hc', hf, hpad]
    cases sd <;> simp
  rw [hser]
  unfold parseImpl
  simp only [parseHdr, hc']
  simp only [show ¬ (2 = 0) by decide, show ¬ (2 = 1) by decide, if_false, if_true]
  rw [parseSize_encLen f0.length hL0 _ _ (by simp; omega)]
  simp only
  have hcond : ¬ ((f0.length : Int) < 0 ∨ (f0.length : Int) >
      ((encLen f0.length ++ ((if sd then encLen f1.length else []) ++ (f0 ++ f1 ++ rest))).length : Int) - ((encLen f0.length).length : Int)) := by
    simp; omega
  rw [if_neg hcond]
  dsimp only
  rw [finish_vbr sd _ p.toc _ f1.length (f0 ++ f1 ++ rest) rfl hL1 (by simp)]
  · simp [view, mkParsed, serialize, header, lenFields, Packet.code, Packet.lens, padBytes, hc', hf, hpad]
    cases sd <;> simp <;> omega
  · intro h; subst h; simp [hrest rfl]; omega
  · intro h; subst h; simp; omega


theorem frameDur48_eq : ∀ toc ∈ List.range 256, frameDur48 toc = samplesPerFrame toc 48000 := by
  decide +kernel

theorem frameDur48_spf (toc : Nat) (h : toc < 256) : samplesPerFrame toc 48000 = frameDur48 toc :=
  (frameDur48_eq toc (List.mem_range.mpr h)).symm

theorem frameDur48_ge : ∀ toc ∈ List.range 256, 120 ≤ frameDur48 toc := by decide +kernel

def padHdrOf (p : Packet) : Bytes := match p.pad with | some pd => pd.hdr | none => []

theorem sumN_map_length (fs : List Bytes) : sumN (fs.map List.length) = fs.flatten.length := by
  induction fs with
  | nil => simp
  | cons f fs ih => simp [ih]

theorem sumN_replicate (n L : Nat) : sumN (List.replicate n L) = n * L := by
  induction n with
  | zero => simp
  | succ n ih => simp [List.replicate_succ, ih, Nat.succ_mul]; omega

theorem allEq_replicate (l : List Nat) (h : allEq l) (L : Nat) (hL : l.getLast? = some L) :
    l = List.replicate l.length L := by
  have hmem : L ∈ l := List.mem_of_getLast? hL
  apply List.eq_replicate_iff.mpr
  exact ⟨rfl, fun b hb => h b hb L hmem⟩

theorem sumN_dropLast_le (l : List Nat) : sumN l.dropLast ≤ sumN l := by
  induction l with
  | nil => simp
  | cons a l ih =>
    cases l with
    | nil => simp
    | cons b l => simp [List.dropLast] at *; omega

theorem dropLast_append_last (l : List Nat) (L : Nat) (h : l.getLast? = some L) :
    l.dropLast ++ [L] = l := by
  induction l with
  | nil => simp at h
  | cons a l ih =>
    cases l with
    | nil => simp at h; simp [h]
    | cons b l => simp [List.getLast?_cons_cons] at h ⊢; exact ih h

theorem sumN_dropLast_add (l : List Nat) (L : Nat) (h : l.getLast? = some L) :
    sumN l.dropLast + L = sumN l := by
  have : l = l.dropLast ++ [L] := (dropLast_append_last l L h).symm
  conv => rhs; rw [this]
  rw [sumN_append]; simp

/-- The count byte and the optional padding chain of a code-3 packet. -/
theorem code3_pad_stage (p : Packet) (hv : Valid p) (hn : p.frames.length < 64) (tail : Bytes) (len1 : Int)
    (hl : ((padHdrOf p).length : Int) + (padBytes p).length ≤ len1) :
    (if countByte p / 64 % 2 = 1 then padChain (padHdrOf p ++ tail) len1 0 else .ok (padHdrOf p ++ tail, len1, 0))
      = .ok (tail, len1 - (padHdrOf p).length - (padBytes p).length, (padBytes p).length) := by
  cases hp : p.pad with
  | none =>
    have h0 : ¬ (countByte p / 64 % 2 = 1) := by
      unfold countByte; rw [hp]; simp; split <;> omega
    simp [h0, padHdrOf, padBytes, hp]
  | some pd =>
    obtain ⟨hlast, hbytes⟩ := hv.pad_ok pd hp
    have h1 : countByte p / 64 % 2 = 1 := by
      unfold countByte; rw [hp]; simp; split <;> omega
    simp only [padHdrOf, padBytes, hp, Pad.hdr] at hl ⊢
    rw [if_pos h1]
    simp at hl
    rw [hbytes] at hl
    unfold Pad.total at hl hbytes
    rw [padChain_hdr pd.n255 pd.last hlast tail len1 0 (by omega)]
    simp [hbytes]
    omega



theorem countByte_mod (p : Packet) (hn : p.frames.length < 64) : countByte p % 64 = p.frames.length := by
  unfold countByte; split <;> split <;> omega

theorem countByte_vbr (p : Packet) (hn : p.frames.length < 64) : (countByte p / 128 % 2 = 1) ↔ p.vbr = true := by
  unfold countByte; split <;> split <;> simp_all <;> omega

theorem complete_code3 (sd : Bool) (p : Packet) (hv : Valid p) (hc : p.code = 3) (rest : Bytes)
    (hrest : sd = false → rest = []) :
    parseImpl sd (serialize sd p ++ rest) = .ok (view sd p) := by
  obtain ⟨hn1, hdur, hcbr⟩ := hv.code3 hc
  have hc' : p.toc % 4 = 3 := hc
  have hge := frameDur48_ge p.toc (List.mem_range.mpr hv.toc_byte)
  have hn48 : p.frames.length ≤ 48 := by
    apply Decidable.byContradiction; intro h
    have : 120 * 49 ≤ frameDur48 p.toc * p.frames.length := Nat.mul_le_mul hge (by omega)
    omega
  have hn : p.frames.length < 64 := by omega
  have hlens_len : p.lens.length = p.frames.length := by simp [Packet.lens]
  obtain ⟨L, hL⟩ : ∃ L, p.lens.getLast? = some L := by
    cases hl : p.lens.getLast? with
    | none => simp at hl; rw [hl] at hlens_len; simp at hlens_len; omega
    | some L => exact ⟨L, rfl⟩
  have hLmem : L ∈ p.lens := List.mem_of_getLast? hL
  have hL1275 : L ≤ 1275 := by
    simp [Packet.lens] at hLmem
    obtain ⟨f, hf, hfl⟩ := hLmem
    rw [← hfl]; exact hv.frame_max f hf
  have hF : sumN p.lens = p.frames.flatten.length := sumN_map_length _
  have hser : serialize sd p ++ rest = p.toc :: countByte p ::
      (padHdrOf p ++ ((lenFields sd p).flatMap encLen ++ (p.frames.flatten ++ (padBytes p ++ rest)))) := by
    simp [serialize, header, hc, padHdrOf]
    cases p.pad <;> rfl
  rw [hser]
  unfold parseImpl
  simp only [parseHdr, hc']
  simp only [show ¬ (3 = 0) by decide, show ¬ (3 = 1) by decide, show ¬ (3 = 2) by decide, if_false]
  unfold parseCode3
  have hlen1 : ¬ (((countByte p :: (padHdrOf p ++ ((lenFields sd p).flatMap encLen ++
      (p.frames.flatten ++ (padBytes p ++ rest))))).length : Int) < 1) := by simp; omega
  rw [if_neg hlen1]
  simp only [countByte_mod p hn]
  rw [frameDur48_spf p.toc hv.toc_byte]
  have hcnt : ¬ (p.frames.length = 0 ∨ frameDur48 p.toc * p.frames.length > 5760) := by omega
  rw [if_neg hcnt]
  rw [code3_pad_stage p hv hn _ _ (by simp; omega)]
  dsimp only
  have hlen2 : ((countByte p :: (padHdrOf p ++ ((lenFields sd p).flatMap encLen ++
      (p.frames.flatten ++ (padBytes p ++ rest))))).length : Int) - 1 - (padHdrOf p).length - (padBytes p).length
      = (H (lenFields sd p) : Int) + p.frames.flatten.length + rest.length := by
    simp [H]; omega
  rw [hlen2]
  have hneg : ¬ ((H (lenFields sd p) : Int) + p.frames.flatten.length + rest.length < 0) := by omega
  rw [if_neg hneg]
  have hdl := sumN_dropLast_add p.lens L hL
  have hhdr : (header sd p).length = 2 + (padHdrOf p).length + H (lenFields sd p) := by
    simp [header, hc, padHdrOf, H]; cases p.pad <;> simp <;> omega
  have hserl : (serialize sd p).length = (header sd p).length + p.frames.flatten.length + (padBytes p).length := by
    simp [serialize]; omega
  have htot : (p.toc :: countByte p :: (padHdrOf p ++ ((lenFields sd p).flatMap encLen ++
      (p.frames.flatten ++ (padBytes p ++ rest))))).length
      = 2 + (padHdrOf p).length + H (lenFields sd p) + p.frames.flatten.length + (padBytes p).length + rest.length := by
    simp [H]; omega
  have htail : (p.frames.flatten ++ (padBytes p ++ rest)).length = p.frames.flatten.length + (padBytes p).length + rest.length := by
    simp; omega
  cases hvbr : p.vbr with
  | true =>
    rw [if_pos ((countByte_vbr p hn).mpr hvbr)]
    have hlf : lenFields sd p = p.lens.dropLast ++ (if sd then [L] else []) := by
      simp [lenFields, hc, hvbr, hL]
    have hdata : (lenFields sd p).flatMap encLen ++ (p.frames.flatten ++ (padBytes p ++ rest))
        = p.lens.dropLast.flatMap encLen ++ ((if sd then encLen L else []) ++ (p.frames.flatten ++ (padBytes p ++ rest))) := by
      rw [hlf]; cases sd <;> simp
    have hH : H (lenFields sd p) = H p.lens.dropLast + (if sd then (encLen L).length else 0) := by
      rw [hlf]; cases sd <;> simp [H]
    rw [hdata]
    have hdlen : p.lens.dropLast.length = p.frames.length - 1 := by simp [hlens_len]
    rw [← hdlen]
    have hs1275 : ∀ s ∈ p.lens.dropLast, s ≤ 1275 := by
      intro s hs
      have := List.dropLast_subset _ hs
      simp [Packet.lens] at this
      obtain ⟨f, hf, hfl⟩ := this
      rw [← hfl]; exact hv.frame_max f hf
    rw [vbrSizes_enc p.lens.dropLast hs1275 _ _ _ (by rw [hH]; push_cast; omega)]
    dsimp only
    have hlast : ¬ ((H (lenFields sd p) : Int) + p.frames.flatten.length + rest.length - H p.lens.dropLast - sumN p.lens.dropLast < 0) := by
      rw [hH]; push_cast; omega
    rw [if_neg hlast]
    dsimp only
    generalize hE : (if sd = true then (encLen L).length else 0) = e at hH
    have hns : sd = false → (H (lenFields sd p) : Int) + p.frames.flatten.length + rest.length
        - H p.lens.dropLast - sumN p.lens.dropLast = L := by
      intro h
      have hr := hrest h
      have he : e = 0 := by subst h; simpa using hE.symm
      rw [hr, hH, he]; simp only [List.length_nil]; push_cast; omega
    have hsd : sd = true → ((encLen L).length : Int) ≤ (H (lenFields sd p) : Int) + p.frames.flatten.length + rest.length - H p.lens.dropLast ∧
        (L : Int) ≤ (H (lenFields sd p) : Int) + p.frames.flatten.length + rest.length - H p.lens.dropLast - (encLen L).length ∧
        ((encLen L).length : Int) + L ≤ (H (lenFields sd p) : Int) + p.frames.flatten.length + rest.length
        - H p.lens.dropLast - sumN p.lens.dropLast := by
      intro h
      have he : e = (encLen L).length := by subst h; simpa using hE.symm
      rw [hH, he]; push_cast; omega
    rw [finish_vbr sd _ p.toc _ L (p.frames.flatten ++ (padBytes p ++ rest)) rfl hL1275 rfl hns hsd]
    dsimp only
    rw [dropLast_append_last p.lens L hL]
    simp only [view, mkParsed, Res.ok.injEq, Parsed.mk.injEq]
    refine ⟨trivial, trivial, trivial, ?_, trivial, ?_⟩
    · rw [← hdata, htot, htail, hhdr]; omega
    · rw [← hdata, htot, htail, hserl, hhdr, hF]; omega
  | false =>
    have hnv : ¬ (countByte p / 128 % 2 = 1) := by
      intro h; have := (countByte_vbr p hn).mp h; rw [hvbr] at this; cases this
    rw [if_neg hnv]
    have hrep : p.lens = List.replicate p.frames.length L := by
      have := allEq_replicate p.lens (hcbr hvbr) L hL
      rw [hlens_len] at this; exact this
    have hnl : p.frames.length * L = p.frames.flatten.length := by
      rw [← hF]; conv => rhs; rw [hrep]
      exact (sumN_replicate _ _).symm
    have hlf : lenFields sd p = (if sd then [L] else []) := by
      simp [lenFields, hc, hvbr, hL]
    have hLle : L ≤ p.frames.flatten.length := by
      rw [← hnl]; exact Nat.le_mul_of_pos_left L (by omega)
    have hmulI : (L : Int) * (p.frames.length : Int) = (p.frames.flatten.length : Int) := by
      rw [← hnl]; push_cast; exact Int.mul_comm _ _
    cases sd with
    | true =>
      simp only [if_true]
      have hdata : (lenFields true p).flatMap encLen ++ (p.frames.flatten ++ (padBytes p ++ rest))
          = encLen L ++ (p.frames.flatten ++ (padBytes p ++ rest)) := by rw [hlf]; simp
      have hH : H (lenFields true p) = (encLen L).length := by rw [hlf]; simp [H]
      rw [finish_cbr true _ p.toc _ L (p.frames.flatten ++ (padBytes p ++ rest)) rfl hL1275 (by simpa using hdata)
        (by intro h; cases h) (by intro _; dsimp only; rw [hH]; refine ⟨by omega, by omega, ?_⟩; rw [hmulI]; omega)]
      dsimp only
      rw [← hrep]
      simp only [view, mkParsed, Res.ok.injEq, Parsed.mk.injEq]
      refine ⟨trivial, trivial, trivial, ?_, trivial, ?_⟩
      · rw [htot, htail, hhdr]; omega
      · rw [htot, htail, hserl, hhdr, hF]; omega
    | false =>
      have hr := hrest rfl
      subst hr
      simp only [Bool.false_eq_true, if_false]
      have hH : H (lenFields false p) = 0 := by rw [hlf]; simp [H]
      have hdiv : ((H (lenFields false p) : Int) + (p.frames.flatten.length : Int) + (([] : Bytes).length : Int)) / (p.frames.length : Int) = L := by
        rw [hH, ← hmulI]; simp
        exact Int.mul_ediv_cancel _ (by omega)
      rw [hdiv]
      have hne : ¬ ((L : Int) * (p.frames.length : Int) ≠ (H (lenFields false p) : Int) + (p.frames.flatten.length : Int) + (([] : Bytes).length : Int)) := by
        rw [hH, hmulI]; simp
      rw [if_neg hne]
      dsimp only
      rw [finish_cbr false _ p.toc _ L ((lenFields false p).flatMap encLen ++ (p.frames.flatten ++ (padBytes p ++ []))) rfl hL1275 (by simp)
        (by intro _; rfl) (by intro h; cases h)]
      dsimp only
      rw [← hrep]
      simp only [view, mkParsed, Res.ok.injEq, Parsed.mk.injEq]
      have hfl : (lenFields false p).flatMap encLen = [] := by rw [hlf]; simp
      refine ⟨trivial, trivial, trivial, ?_, trivial, ?_⟩
      · rw [htot, hfl]; simp only [List.nil_append]; rw [htail, hhdr]; omega
      · rw [htot, hfl]; simp only [List.nil_append]; rw [htail, hserl, hhdr, hF]; omega


theorem parse_complete (sd : Bool) (p : Packet) (hv : Valid p) (rest : Bytes)
    (hrest : sd = false → rest = []) :
    parseImpl sd (serialize sd p ++ rest) = .ok (view sd p) := by
  have h4 : p.toc % 4 < 4 := Nat.mod_lt _ (by decide)
  have hcases : p.code = 0 ∨ p.code = 1 ∨ p.code = 2 ∨ p.code = 3 := by
    unfold Packet.code; omega
  rcases hcases with h | h | h | h
  · exact complete_code0 sd p hv h rest hrest
  · exact complete_code1 sd p hv h rest hrest
  · exact complete_code2 sd p hv h rest hrest
  · exact complete_code3 sd p hv h rest hrest

end Opus.FramingProofs
