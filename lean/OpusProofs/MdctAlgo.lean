import OpusProofs.MdctDct4
import OpusProofs.MdctWindow
/-
  OpusProofs.MdctAlgo — clt_mdct_forward_c (celt/mdct.c:122-264) as definitions over ℝ, and the proof that it
  computes the textbook MDCT (`Opus.MdctR.mdct`, the object of the TDAC theorems) of the windowed block.

  `foldR` / `forwardR` are the real-number twins of `Opus.Mdct.foldAt` / `Opus.Mdct.forward` (lean/OpusModel/Mdct.lean,
  the Float model that `Driver/DelayMain.lean` compares with the compiled C function): same index expressions, same
  three fold loops, same pre-rotation, the N/4-point complex FFT as the DFT it computes (`dftRe`/`dftIm`; the kiss_fft
  butterflies are tied numerically by the harness), same post-rotation and output interleaving.

  Main result  `forward_eq_mdct` : for every transform size N = 4Q, every overlap = 4q ≤ N/2, every window table, every
  input and every scale factor,   clt_mdct_forward(in)[m] = scale · MDCT(block)[m]   for all m < N/2, where `block` is
  the (N/2 + overlap)-sample input placed at offset (N/2 − overlap)/2 of a block of N samples and multiplied by the
  zero / rise / one / fall / zero window (`blockR`).  (The C code needs 4 | overlap: for other values its third fold
  loop reads in[-1]; CELT modes always have overlap ≡ 0 mod 4.)
-/
namespace Opus.MdctAlgo
open Finset Real Opus.MdctR Opus.MdctWindow

/-- The fold of clt_mdct_forward_c (celt/mdct.c:155-196), complex point `i < N4` as (re, im); twin of
    `Opus.Mdct.foldAt`. -/
noncomputable def foldR (inp w : ℕ → ℝ) (N2 N4 overlap i : ℕ) : ℝ × ℝ :=
  let ov2 := overlap / 2            -- overlap>>1
  let q := (overlap + 3) / 4        -- (overlap+3)>>2
  let xp1 := ov2 + 2 * i            -- in+(overlap>>1), += 2
  let xp2 := N2 - 1 + ov2 - 2 * i   -- in+N2-1+(overlap>>1), -= 2
  if i < q then
    -- first loop (mdct.c:164-173)
    let wp1 := ov2 + 2 * i
    let wp2 := ov2 - 1 - 2 * i
    (inp (xp1 + N2) * w wp2 + inp xp2 * w wp1, inp xp1 * w wp1 - inp (xp2 - N2) * w wp2)
  else if i < N4 - q then
    -- second loop (mdct.c:176-183)
    (inp xp2, inp xp1)
  else
    -- third loop (mdct.c:184-193)
    let j := i - max q (N4 - q)
    let wp1 := 2 * j
    let wp2 := overlap - 1 - 2 * j
    (inp xp2 * w wp2 - inp (xp1 - N2) * w wp1, inp xp1 * w wp2 + inp (xp2 + N2) * w wp1)

/-- clt_mdct_forward_c for transform size `N`, stride 1: output coefficient `m < N/2`; twin of `Opus.Mdct.forward`. -/
noncomputable def forwardR (N overlap : ℕ) (w inp : ℕ → ℝ) (scale : ℝ) (m : ℕ) : ℝ :=
  let N2 := N / 2
  let N4 := N / 4
  let re := fun i => (foldR inp w N2 N4 overlap i).1
  let im := fun i => (foldR inp w N2 N4 overlap i).2
  -- pre-rotation (mdct.c:199-232)
  let yr := fun i => (re i * trigR N i - im i * trigR N (N4 + i)) * scale
  let yi := fun i => (im i * trigR N i + re i * trigR N (N4 + i)) * scale
  -- N/4-point complex FFT
  let fr := dftRe N4 yr yi
  let fi := dftIm N4 yr yi
  -- post-rotation (mdct.c:238-263): yp1 = out (+= 2), yp2 = out+N2-1 (-= 2)
  if m % 2 = 0 then
    fi (m / 2) * trigR N (N4 + m / 2) - fr (m / 2) * trigR N (m / 2)
  else
    fr ((N2 - 1 - m) / 2) * trigR N (N4 + (N2 - 1 - m) / 2) + fi ((N2 - 1 - m) / 2) * trigR N ((N2 - 1 - m) / 2)

/-- The `2M`-sample block the `(M + overlap)`-sample input stands for (`M = N/2`): the input sits at offset
    `z = (M − overlap)/2` and is multiplied by the low-overlap window (`Opus.MdctWindow.extWindow`); twin of the block
    inside `Opus.Mdct.celtForwardDirect`. -/
noncomputable def blockR (M overlap : ℕ) (w inp : ℕ → ℝ) (n : ℕ) : ℝ :=
  if n < (M - overlap) / 2 ∨ 2 * M - (M - overlap) / 2 ≤ n then 0
  else extWindow M overlap w n * inp (n - (M - overlap) / 2)

/-! ### the block on its five regions (`M = 2Q`, `overlap = 4q`, `z = Q − 2q`) -/

section regions
variable (Q q : ℕ) (w inp : ℕ → ℝ) (hq : 2 * q ≤ Q)
include hq

theorem zval : (2 * Q - 4 * q) / 2 = Q - 2 * q := by omega

theorem b_lo (n : ℕ) (h : n < Q - 2 * q) : blockR (2 * Q) (4 * q) w inp n = 0 := by
  unfold blockR; rw [zval Q q hq]; rw [if_pos (Or.inl h)]

theorem b_hi (n : ℕ) (h : 3 * Q + 2 * q ≤ n) : blockR (2 * Q) (4 * q) w inp n = 0 := by
  unfold blockR; rw [zval Q q hq]; rw [if_pos (Or.inr (by omega))]

theorem b_rise (n : ℕ) (h1 : Q - 2 * q ≤ n) (h2 : n < Q + 2 * q) :
    blockR (2 * Q) (4 * q) w inp n = w (n - (Q - 2 * q)) * inp (n - (Q - 2 * q)) := by
  unfold blockR extWindow; rw [zval Q q hq]
  rw [if_neg (by omega), if_neg (by omega), if_pos (by omega)]

theorem b_flat (n : ℕ) (h1 : Q + 2 * q ≤ n) (h2 : n < 3 * Q - 2 * q) :
    blockR (2 * Q) (4 * q) w inp n = inp (n - (Q - 2 * q)) := by
  unfold blockR extWindow; rw [zval Q q hq]
  rw [if_neg (by omega), if_neg (by omega), if_neg (by omega), if_pos (by omega), one_mul]

theorem b_fall (n : ℕ) (h1 : 3 * Q - 2 * q ≤ n) (h2 : n < 3 * Q + 2 * q) :
    blockR (2 * Q) (4 * q) w inp n = w (3 * Q + 2 * q - 1 - n) * inp (n - (Q - 2 * q)) := by
  unfold blockR extWindow; rw [zval Q q hq]
  rw [if_neg (by omega), if_neg (by omega), if_neg (by omega), if_neg (by omega), if_pos (by omega)]
  congr 2; omega

end regions

/-! ### the three fold loops with clean indices -/

section fold
variable (Q q : ℕ) (w inp : ℕ → ℝ) (hq : 2 * q ≤ Q)
include hq

omit hq in
theorem foldR_first (i : ℕ) (hi : i < q) :
    foldR inp w (2 * Q) Q (4 * q) i
      = (inp (2 * q + 2 * i + 2 * Q) * w (2 * q - 1 - 2 * i) + inp (2 * Q - 1 + 2 * q - 2 * i) * w (2 * q + 2 * i),
         inp (2 * q + 2 * i) * w (2 * q + 2 * i) - inp (2 * Q - 1 + 2 * q - 2 * i - 2 * Q) * w (2 * q - 1 - 2 * i)) := by
  unfold foldR
  have e1 : 4 * q / 2 = 2 * q := by omega
  have e2 : (4 * q + 3) / 4 = q := by omega
  simp only [e1, e2]
  rw [if_pos hi]

omit hq in
theorem foldR_mid (i : ℕ) (h1 : q ≤ i) (h2 : i < Q - q) :
    foldR inp w (2 * Q) Q (4 * q) i = (inp (2 * Q - 1 + 2 * q - 2 * i), inp (2 * q + 2 * i)) := by
  unfold foldR
  have e1 : 4 * q / 2 = 2 * q := by omega
  have e2 : (4 * q + 3) / 4 = q := by omega
  simp only [e1, e2]
  rw [if_neg (by omega), if_pos h2]

theorem foldR_last (i : ℕ) (h1 : Q - q ≤ i) (_h2 : i < Q) :
    foldR inp w (2 * Q) Q (4 * q) i
      = (inp (2 * Q - 1 + 2 * q - 2 * i) * w (4 * q - 1 - 2 * (i - (Q - q))) - inp (2 * q + 2 * i - 2 * Q) * w (2 * (i - (Q - q))),
         inp (2 * q + 2 * i) * w (4 * q - 1 - 2 * (i - (Q - q))) + inp (2 * Q - 1 + 2 * q - 2 * i + 2 * Q) * w (2 * (i - (Q - q)))) := by
  unfold foldR
  have e1 : 4 * q / 2 = 2 * q := by omega
  have e2 : (4 * q + 3) / 4 = q := by omega
  have e3 : max q (Q - q) = Q - q := by omega
  simp only [e1, e2, e3]
  rw [if_neg (by omega), if_neg (by omega)]

/-- The code's fold is the (negated) time-domain-aliased block, real parts: `re_i = −u(2i)`. -/
theorem fold_re (i : ℕ) (hi : i < Q) :
    (foldR inp w (2 * Q) Q (4 * q) i).1 = - tdaFold Q (blockR (2 * Q) (4 * q) w inp) (2 * i) := by
  by_cases hA : i < q
  · rw [foldR_first Q q w inp i hA]
    unfold tdaFold
    rw [if_pos (by omega), b_fall Q q w inp hq _ (by omega) (by omega), b_fall Q q w inp hq _ (by omega) (by omega)]
    have a1 : 3 * Q + 2 * q - 1 - (3 * Q - 1 - 2 * i) = 2 * q + 2 * i := by omega
    have a2 : 3 * Q - 1 - 2 * i - (Q - 2 * q) = 2 * Q - 1 + 2 * q - 2 * i := by omega
    have a3 : 3 * Q + 2 * q - 1 - (3 * Q + 2 * i) = 2 * q - 1 - 2 * i := by omega
    have a4 : 3 * Q + 2 * i - (Q - 2 * q) = 2 * q + 2 * i + 2 * Q := by omega
    rw [a1, a2, a3, a4]; ring
  · by_cases hB : i < Q - q
    · rw [foldR_mid Q q w inp i (by omega) hB]
      unfold tdaFold
      by_cases hh : 2 * i < Q
      · rw [if_pos hh, b_flat Q q w inp hq _ (by omega) (by omega), b_hi Q q w inp hq _ (by omega)]
        have a2 : 3 * Q - 1 - 2 * i - (Q - 2 * q) = 2 * Q - 1 + 2 * q - 2 * i := by omega
        rw [a2]; ring
      · rw [if_neg hh, b_lo Q q w inp hq _ (by omega), b_flat Q q w inp hq _ (by omega) (by omega)]
        have a2 : 3 * Q - 1 - 2 * i - (Q - 2 * q) = 2 * Q - 1 + 2 * q - 2 * i := by omega
        rw [a2]; ring
    · rw [foldR_last Q q w inp hq i (by omega) hi]
      unfold tdaFold
      rw [if_neg (by omega), b_rise Q q w inp hq _ (by omega) (by omega), b_rise Q q w inp hq _ (by omega) (by omega)]
      have a1 : 2 * i - Q - (Q - 2 * q) = 2 * (i - (Q - q)) := by omega
      have a1' : 2 * q + 2 * i - 2 * Q = 2 * (i - (Q - q)) := by omega
      have a2 : 3 * Q - 1 - 2 * i - (Q - 2 * q) = 2 * Q - 1 + 2 * q - 2 * i := by omega
      have a3 : 4 * q - 1 - 2 * (i - (Q - q)) = 2 * Q - 1 + 2 * q - 2 * i := by omega
      rw [a1, a1', a2, a3]; ring

/-- … imaginary parts: `im_i = −u(M−1−2i)`. -/
theorem fold_im (i : ℕ) (hi : i < Q) :
    (foldR inp w (2 * Q) Q (4 * q) i).2 = - tdaFold Q (blockR (2 * Q) (4 * q) w inp) (2 * Q - 1 - 2 * i) := by
  by_cases hA : i < q
  · rw [foldR_first Q q w inp i hA]
    unfold tdaFold
    rw [if_neg (by omega), b_rise Q q w inp hq _ (by omega) (by omega), b_rise Q q w inp hq _ (by omega) (by omega)]
    have a1 : 2 * Q - 1 - 2 * i - Q - (Q - 2 * q) = 2 * q - 1 - 2 * i := by omega
    have a1' : 2 * Q - 1 + 2 * q - 2 * i - 2 * Q = 2 * q - 1 - 2 * i := by omega
    have a2 : 3 * Q - 1 - (2 * Q - 1 - 2 * i) - (Q - 2 * q) = 2 * q + 2 * i := by omega
    rw [a1, a1', a2]; ring
  · by_cases hB : i < Q - q
    · rw [foldR_mid Q q w inp i (by omega) hB]
      unfold tdaFold
      by_cases hh : 2 * i < Q
      · rw [if_neg (by omega), b_lo Q q w inp hq _ (by omega), b_flat Q q w inp hq _ (by omega) (by omega)]
        have a2 : 3 * Q - 1 - (2 * Q - 1 - 2 * i) - (Q - 2 * q) = 2 * q + 2 * i := by omega
        rw [a2]; ring
      · rw [if_pos (by omega), b_flat Q q w inp hq _ (by omega) (by omega), b_hi Q q w inp hq _ (by omega)]
        have a2 : 3 * Q - 1 - (2 * Q - 1 - 2 * i) - (Q - 2 * q) = 2 * q + 2 * i := by omega
        rw [a2]; ring
    · rw [foldR_last Q q w inp hq i (by omega) hi]
      unfold tdaFold
      rw [if_pos (by omega), b_fall Q q w inp hq _ (by omega) (by omega), b_fall Q q w inp hq _ (by omega) (by omega)]
      have a1 : 3 * Q + 2 * q - 1 - (3 * Q - 1 - (2 * Q - 1 - 2 * i)) = 4 * q - 1 - 2 * (i - (Q - q)) := by omega
      have a2 : 3 * Q - 1 - (2 * Q - 1 - 2 * i) - (Q - 2 * q) = 2 * q + 2 * i := by omega
      have a3 : 3 * Q + 2 * q - 1 - (3 * Q + (2 * Q - 1 - 2 * i)) = 2 * (i - (Q - q)) := by omega
      have a4 : 3 * Q + (2 * Q - 1 - 2 * i) - (Q - 2 * q) = 2 * Q - 1 + 2 * q - 2 * i + 2 * Q := by omega
      rw [a1, a2, a3, a4]; ring

end fold

/-- **clt_mdct_forward_c computes the MDCT.**  For every `N = 4Q`, overlap `4q ≤ N/2`, window, input and scale. -/
theorem forward_eq_mdct (Q q : ℕ) (hQ : 0 < Q) (hq : 2 * q ≤ Q) (w inp : ℕ → ℝ) (scale : ℝ) (m : ℕ) (hm : m < 2 * Q) :
    forwardR (4 * Q) (4 * q) w inp scale m = scale * mdct (2 * Q) (blockR (2 * Q) (4 * q) w inp) m := by
  set u := tdaFold Q (blockR (2 * Q) (4 * q) w inp) with hu
  rw [mdct_eq_dct4 Q hQ]
  -- the rotated sequence fed to the FFT is `rot` of a = scale·re, b = scale·im
  set a : ℕ → ℝ := fun i => (foldR inp w (2 * Q) Q (4 * q) i).1 * scale with ha
  set b : ℕ → ℝ := fun i => (foldR inp w (2 * Q) Q (4 * q) i).2 * scale with hb
  have e2 : 4 * Q / 2 = 2 * Q := by omega
  have e4 : 4 * Q / 4 = Q := by omega
  have hyr : ∀ i, ((foldR inp w (2 * Q) Q (4 * q) i).1 * trigR (4 * Q) i
        - (foldR inp w (2 * Q) Q (4 * q) i).2 * trigR (4 * Q) (Q + i)) * scale = rotRe (4 * Q) a b i := by
    intro i; rw [trigR_hi Q i hQ, trigR_lo]; simp only [rotRe, ha, hb]; ring
  have hyi : ∀ i, ((foldR inp w (2 * Q) Q (4 * q) i).2 * trigR (4 * Q) i
        + (foldR inp w (2 * Q) Q (4 * q) i).1 * trigR (4 * Q) (Q + i)) * scale = rotIm (4 * Q) a b i := by
    intro i; rw [trigR_hi Q i hQ, trigR_lo]; simp only [rotIm, ha, hb]; ring
  have hsum : ∀ (f g : ℕ → ℝ) (p : ℕ), (∀ i, i < Q → f i = g i) →
      ∑ i ∈ range Q, f i = ∑ i ∈ range Q, g i := fun f g _ h => sum_congr rfl fun i hi => h i (mem_range.mp hi)
  unfold forwardR
  simp only [e2, e4, hyr, hyi]
  have hfunr : (fun i => rotRe (4 * Q) a b i) = rotRe (4 * Q) a b := rfl
  have hfuni : (fun i => rotIm (4 * Q) a b i) = rotIm (4 * Q) a b := rfl
  simp only [hfunr, hfuni]
  by_cases hpar : m % 2 = 0
  · rw [if_pos hpar]
    obtain ⟨p, rfl⟩ : ∃ p, m = 2 * p := ⟨m / 2, by omega⟩
    have hp : 2 * p / 2 = p := by omega
    rw [hp, trigR_hi Q p hQ, trigR_lo]
    have core := rot_core_re Q hQ a b p
    rw [dct4_even Q hQ u p]
    have : ∑ i ∈ range Q, (a i * cos (beta Q i p) + b i * sin (beta Q i p))
        = - (scale * ∑ i ∈ range Q, (u (2 * i) * cos (beta Q i p) + u (2 * Q - 1 - 2 * i) * sin (beta Q i p))) := by
      rw [mul_sum, ← sum_neg_distrib]
      refine sum_congr rfl fun i hi => ?_
      have hi' : i < Q := mem_range.mp hi
      simp only [ha, hb, fold_re Q q w inp hq i hi', fold_im Q q w inp hq i hi', ← hu]
      ring
    rw [this] at core
    linarith
  · rw [if_neg hpar]
    obtain ⟨p, hp⟩ : ∃ p, m + 2 * p + 1 = 2 * Q := ⟨(2 * Q - 1 - m) / 2, by omega⟩
    have hp' : (2 * Q - 1 - m) / 2 = p := by omega
    rw [hp', trigR_hi Q p hQ, trigR_lo]
    have core := rot_core_im Q hQ a b p
    have hodd := dct4_odd Q hQ u p m hp
    have : ∑ i ∈ range Q, (b i * cos (beta Q i p) - a i * sin (beta Q i p))
        = - (scale * ∑ i ∈ range Q, (u (2 * Q - 1 - 2 * i) * cos (beta Q i p) - u (2 * i) * sin (beta Q i p))) := by
      rw [mul_sum, ← sum_neg_distrib]
      refine sum_congr rfl fun i hi => ?_
      have hi' : i < Q := mem_range.mp hi
      simp only [ha, hb, fold_re Q q w inp hq i hi', fold_im Q q w inp hq i hi', ← hu]
      ring
    rw [this, ← hodd] at core
    linarith

end Opus.MdctAlgo
