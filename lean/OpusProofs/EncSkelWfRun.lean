import OpusProofs.EncSkelWfBridge
import OpusProofs.RepackPad
import OpusProofs.ExtZero
/-
  OpusProofs.EncSkelWfRun — the repacketiser *run* of the encoder (`opus_repacketizer_init`, one
  `opus_repacketizer_cat` per sub-packet, `opus_repacketizer_out_range_impl(rp, 0, n, data, maxlen, 0, pad, NULL, 0)`;
  opus_encoder.c:1677-1745, and `opus_packet_pad` = init / cat / out_range_impl, repacketizer.c:347-381) executed on
  the C07 model `Opus.Repack`, for sub-packets that are themselves outputs of the frame encoder (code 0, or
  code 3 with zero padding after `opus_packet_pad`): every `cat` is accepted and the output is exactly what the
  skeleton's contract `outRange` announces.
-/
namespace Opus.EncSkel.WfProofs
open Opus Opus.Framing Opus.FramingSpec Opus.Repack Opus.RepackProofs Opus.Ext Opus.ExtProofs
open Opus.EncSkel.Proofs

/-- `for (i…) ret = opus_repacketizer_cat(rp, pkt_i, len_i); if (ret<0) return …` -/
def catAll (rp : Rp) : List Bytes → Rp × Res Unit
  | [] => (rp, .ok ())
  | b :: bs =>
    match cat rp b with
    | (rp', .ok ()) => catAll rp' bs
    | (rp', e) => (rp', e)

/-- The repacketiser run of the encoder: init, cat every input packet, `out_range_impl(rp, 0, n, …, maxlen, 0, pad, NULL, 0)`. -/
def repackRun (ins : List Bytes) (n : Nat) (maxlen : Int) (pad : Bool) : Res Bytes :=
  match catAll (init Rp.empty) ins with
  | (rp, .ok ()) => outRangeImpl rp 0 n maxlen false pad #[]
  | (_, .err e) => .err e
  | (_, .oob) => .oob
  | (_, .abort) => .abort

theorem spf_cfg (a b : Nat) (h : a / 4 = b / 4) : samplesPerFrame a 8000 = samplesPerFrame b 8000 := by
  unfold samplesPerFrame
  have e1 : a / 128 = b / 128 := by omega
  have e2 : a / 32 = b / 32 := by omega
  have e3 : a / 8 = b / 8 := by omega
  rw [e1, e2, e3]

/-- One accepted `cat` of a serialised valid packet on ANY repacketiser state satisfying the invariant. -/
theorem cat_serialize (rp : Rp) (hinv : Inv rp) (p : Packet) (hv : Valid p)
    (hcompat : rp.nbFrames = 0 ∨ rp.toc / 4 = p.toc / 4)
    (hd : (rp.nbFrames + p.frames.length) * samplesPerFrame p.toc 8000 ≤ 960) :
    ∃ rp', cat rp (serialize false p) = (rp', .ok ()) ∧ rp'.frames = rp.frames ++ p.frames ∧
      rp'.pads = rp.pads ++ (padBytes p, p.frames.length) :: List.replicate (p.frames.length - 1) ([], 0) ∧
      rp'.toc = (if rp.nbFrames = 0 then p.toc else rp.toc) ∧ rp'.toc / 4 = p.toc / 4 ∧ Inv rp' := by
  obtain ⟨t, ht⟩ := RepackProofs.serialize_cons false p []
  simp only [List.append_nil] at ht
  obtain ⟨hparse, hfr⟩ := parse_serialize_frames false p hv [] (fun _ => rfl)
  simp only [List.append_nil] at hparse hfr
  have hne := valid_ne p hv
  have hpos : 1 ≤ p.frames.length := List.length_pos_iff.mpr hne
  obtain ⟨w1, w2, w3, w4⟩ := withToc_fs rp hinv p.toc hv.toc_byte
  obtain ⟨wf, wp, _⟩ := withToc_frames rp p.toc
  have hnb : (withToc rp p.toc).nbFrames = rp.nbFrames := by simp [Rp.nbFrames, wf]
  have htoc4 : (withToc rp p.toc).toc / 4 = p.toc / 4 := by
    rw [w4]; split
    · rfl
    · rename_i h0; rcases hcompat with h | h
      · exact absurd h h0
      · exact h
  have hfs : (withToc rp p.toc).framesize = samplesPerFrame p.toc 8000 := by rw [w2]; exact spf_cfg _ _ htoc4
  have hcat : cat rp (serialize false p) = catBody (withToc rp p.toc) (serialize false p) false := by
    show catImpl rp (serialize false p) false = _
    rw [ht, catImpl_eq, if_neg (by
      rintro ⟨a, b⟩
      rcases hcompat with h | h
      · exact a h
      · exact b h)]
  have hgn := getNbFrames_serialize false p hv []
  simp only [List.append_nil] at hgn
  have hacc := catBody_accept' (withToc rp p.toc) (serialize false p) false (view false p) hparse hgn hpos
    (by simp only [view]; rw [hnb, hfs, Nat.add_comm]; exact hd) w3
  obtain ⟨r, hr, _, he⟩ := catBody_ok _ _ _ hacc
  rw [hparse] at hr; cases hr
  have hpadEq : (List.drop (view false p).padOffset (serialize false p)).take (view false p).padLen = padBytes p := by
    simp only [view, Parsed.padOffset, Packet.lens, ← flatten_length]
    have : serialize false p = (header false p ++ p.frames.flatten) ++ padBytes p := by simp [serialize]
    rw [this, ← List.length_append, List.drop_left, List.take_length]
  refine ⟨catNew (withToc rp p.toc) (serialize false p) (view false p), by rw [hcat, he], ?_, ?_, ?_, ?_, ?_⟩
  · simp only [catNew, hfr, wf]
  · simp only [catNew, wp, hpadEq]; rfl
  · simp only [catNew]; exact w4
  · simp only [catNew]; exact htoc4
  · refine ⟨fun _ => w1, fun _ => w2, ?_, ?_, ?_⟩
    · simp only [catNew, hfr, wf, List.length_append]
      rw [hfs]; exact hd
    · simp only [catNew, hfr, wf]
      intro f hf
      rcases List.mem_append.mp hf with hf | hf
      · exact hinv.le f hf
      · exact hv.frame_max f hf
    · simp only [catNew, wp, wf, hfr, List.length_append, List.length_cons, List.length_replicate, hinv.pads_len]
      show _ = _ + p.frames.length
      have : (view false p).count = p.frames.length := rfl
      rw [this]; omega

theorem extFree_append (a b : List (Bytes × Nat)) (ha : ExtFree a) (hb : ExtFree b) : ExtFree (a ++ b) := by
  intro pn h
  rcases List.mem_append.mp h with h | h
  · exact ha pn h
  · exact hb pn h

/-- The whole `cat` loop on serialised valid packets with extension-free padding and one configuration. -/
theorem catAll_packets (cfg : Nat) (ps : List Packet) (rp : Rp) (hinv : Inv rp) (hfree : ExtFree rp.pads)
    (hrp : rp.nbFrames ≠ 0 → rp.toc / 4 = cfg / 4)
    (hps : ∀ p ∈ ps, Valid p ∧ PadFree p ∧ p.toc / 4 = cfg / 4)
    (hd : (rp.nbFrames + (ps.flatMap (·.frames)).length) * samplesPerFrame cfg 8000 ≤ 960) :
    ∃ rp', catAll rp (ps.map (serialize false)) = (rp', .ok ()) ∧ rp'.frames = rp.frames ++ ps.flatMap (·.frames) ∧
      Inv rp' ∧ ExtFree rp'.pads ∧ (rp'.nbFrames ≠ 0 → rp'.toc / 4 = cfg / 4) := by
  induction ps generalizing rp with
  | nil => exact ⟨rp, rfl, by simp, hinv, hfree, hrp⟩
  | cons p ps ih =>
    obtain ⟨hv, hpf, htc⟩ := hps p (by simp)
    simp only [List.flatMap_cons, List.length_append] at hd
    have hspf : samplesPerFrame p.toc 8000 = samplesPerFrame cfg 8000 := spf_cfg _ _ htc
    have hcompat : rp.nbFrames = 0 ∨ rp.toc / 4 = p.toc / 4 := by
      by_cases h0 : rp.nbFrames = 0
      · exact Or.inl h0
      · exact Or.inr (by rw [hrp h0, htc])
    have hd1 : (rp.nbFrames + p.frames.length) * samplesPerFrame p.toc 8000 ≤ 960 := by
      rw [hspf]
      exact Nat.le_trans (Nat.mul_le_mul_right _ (by omega)) hd
    obtain ⟨rp1, hc, hf1, hp1, _, ht1, hinv1⟩ := cat_serialize rp hinv p hv hcompat hd1
    have hfree1 : ExtFree rp1.pads := by
      rw [hp1]
      apply extFree_append _ _ hfree
      intro pn hpn
      simp only [List.mem_cons, List.mem_replicate] at hpn
      rcases hpn with rfl | ⟨_, rfl⟩
      · exact hpf
      · exact count_nil 0 (by omega)
    have hnb1 : rp1.nbFrames = rp.nbFrames + p.frames.length := by simp [Rp.nbFrames, hf1]
    obtain ⟨rp', hc', hf', hinv', hfree', ht'⟩ := ih rp1 hinv1 hfree1 (fun _ => by rw [ht1, htc])
      (fun q hq => hps q (by simp [hq])) (by rw [hnb1]; rw [Nat.add_assoc]; exact hd)
    refine ⟨rp', ?_, ?_, hinv', hfree', ht'⟩
    · simp only [List.map_cons, catAll, hc]; exact hc'
    · rw [hf', hf1]; simp

/-- `out_range_impl(rp, 0, nb_frames, …, NULL, 0)` on an extension-free state is `emit` on all frames. -/
theorem outRangeImpl_all (rp : Rp) (hne : rp.frames ≠ []) (hfree : ExtFree rp.pads) (maxlen : Int) (pad : Bool) :
    outRangeImpl rp 0 (rp.frames.length : Nat) maxlen false pad #[] = emit rp.toc rp.frames maxlen false pad #[] := by
  have hpos : 0 < rp.frames.length := List.length_pos_iff.mpr hne
  have h := outRangeImpl_noext rp 0 rp.frames.length hpos (Nat.le_refl _) hfree maxlen false pad
  have hsel : selFrames rp 0 rp.frames.length = rp.frames := by simp [selFrames]
  rw [hsel] at h
  simp only [Int.ofNat_zero] at h
  rw [h, emit_noext rp.toc rp.frames hne maxlen false pad]

/-- A successful contract output, as a packet: it is the serialisation of the valid packet `outPacket`, whose
    padding is all zeros (no extensions). -/
theorem contract_packet (cfg : Nat) (frames : List Bytes) (hne : frames ≠ []) (maxlen : Nat) (pad : Bool) (r : OutRes)
    (h4 : cfg % 4 = 0) (hok : FramesOk cfg frames)
    (h : EncSkel.outRange cfg (frames.map List.length) maxlen pad = .ok r) :
    pktBytes r.hdr frames r.size = serialize false (outPacket cfg frames maxlen false pad) ∧
    Valid (outPacket cfg frames maxlen false pad) ∧ PadFree (outPacket cfg frames maxlen false pad) ∧
    (outPacket cfg frames maxlen false pad).frames = frames ∧ (outPacket cfg frames maxlen false pad).toc / 4 = cfg / 4 := by
  have hb := emit_bridge cfg frames hne maxlen pad
  have hc : cfg / 4 * 4 = cfg := by omega
  rw [hc, h, emit_noext cfg frames hne maxlen false pad] at hb
  simp only [emitOf] at hb
  split at hb
  · cases hb
  · rename_i hfit
    simp only [Res.ok.injEq] at hb
    have hv := outPacket_valid cfg frames hok maxlen false pad (by omega)
    refine ⟨hb.symm, hv, ?_, outPacket_frames _ _ _ _ _, outPacket_toc _ _ _ _ _⟩
    have h48 : frames.length ≤ 48 := by
      have h20 := (frameDur48_spf8 cfg (List.mem_range.mpr hok.toc_lt)).2.2
      have hd := hok.dur
      apply Decidable.byContradiction; intro hc
      have : 49 * 20 ≤ frames.length * samplesPerFrame cfg 8000 := Nat.mul_le_mul (by omega) h20
      omega
    unfold PadFree
    rw [outPacket_frames]
    have hz : ∀ (q : Packet) (a : Int), q.pad = padOf a → ∃ k, padBytes q = List.replicate k 0 := by
      intro q a hq
      unfold padBytes
      rw [hq]
      unfold padOf
      by_cases h0 : a = 0
      · rw [if_pos h0]; exact ⟨0, rfl⟩
      · rw [if_neg h0]; exact ⟨_, rfl⟩
    have hpb : ∃ k, padBytes (outPacket cfg frames maxlen false pad) = List.replicate k 0 := by
      unfold outPacket
      split
      · exact ⟨0, rfl⟩
      · unfold highPacket
        cases pad with
        | false => exact ⟨0, rfl⟩
        | true => exact hz _ _ rfl
    obtain ⟨k, hk⟩ := hpb
    rw [hk, List.length_replicate]
    exact count_zeros _ _ h48

end Opus.EncSkel.WfProofs
