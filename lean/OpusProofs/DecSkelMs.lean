import OpusProofs.DecSkelApi
/-
  OpusProofs.DecSkelMs — the multistream skeleton (`opus_multistream_decode_native`,
  opus_multistream_decoder.c:178-307) with the per-stream `opus_decode_native` calls as an oracle:
  after a successful `opus_multistream_packet_validate` the `len<=0 → OPUS_INTERNAL_ERROR` branch
  (:247-251) is unreachable, and the result is a documented error or `0 < n ≤ frame_size`.
-/
namespace Opus.DecSkel
open Opus Opus.Framing

/-- The `packet_offset`s `opus_multistream_packet_validate` steps over (one per stream). -/
def msOffs : Nat → Bytes → List Nat
  | 0, _ => []
  | s + 1, bs =>
    if bs.length = 0 then []
    else match parseImpl (s ≠ 0) bs with
      | .ok p => p.packetOffset :: msOffs s (bs.drop p.packetOffset)
      | _ => []

def sumTake (l : List Nat) (k : Nat) : Nat := sumN (l.take k)

theorem sumTake_succ_cons (a : Nat) (l : List Nat) (k : Nat) : sumTake (a :: l) (k + 1) = a + sumTake l k := by
  simp [sumTake, sumN]

theorem err_code_neg (e : Err) : e.code < 0 := by cases e <;> decide

/-- A successful validation means: every stream starts strictly inside the packet. -/
theorem msValidate_offs (fs : Int) : ∀ (n : Nat) (first : Bool) (bs : Bytes) (samples : Int), BytesOk bs →
    0 ≤ msValidate fs n first bs samples →
    (msOffs n bs).length = n ∧ ∀ s, s < n → sumTake (msOffs n bs) s < bs.length := by
  intro n
  induction n with
  | zero => intro first bs samples _ _; exact ⟨rfl, fun s h => absurd h (by omega)⟩
  | succ n ih =>
    intro first bs samples hb hv
    unfold msValidate at hv
    unfold msOffs
    by_cases h0 : bs.length = 0
    · rw [if_pos h0] at hv; exact absurd hv (by decide)
    rw [if_neg h0] at hv
    rw [if_neg h0]
    cases hp : parseImpl (n ≠ 0) bs with
    | ok p =>
      simp only [hp] at hv ⊢
      obtain ⟨_, _, _, _, _, hle, _⟩ := OpusProps.C06.parse_in_bounds _ bs hb p hp
      by_cases hc : ¬ first = true ∧ samples ≠ nbSamples (bs.take p.packetOffset) fs
      · rw [if_pos hc] at hv; exact absurd hv (by decide)
      rw [if_neg hc] at hv
      have hbd : BytesOk (bs.drop p.packetOffset) := fun b hb' => hb b (List.mem_of_mem_drop hb')
      obtain ⟨h1, h2⟩ := ih false (bs.drop p.packetOffset) _ hbd hv
      refine ⟨by simp [h1], ?_⟩
      intro s hs
      cases s with
      | zero => simp [sumTake, sumN]; omega
      | succ s =>
        rw [sumTake_succ_cons]
        have := h2 s (by omega)
        simp only [List.length_drop] at this
        omega
    | err e =>
      simp only [hp] at hv
      have := err_code_neg e; omega
    | oob => simp only [hp] at hv; exact absurd hv (by decide)
    | abort => simp only [hp] at hv; exact absurd hv (by decide)

/-- Contract of the per-stream `opus_decode_native` calls as seen by the multistream loop: each
    returns a documented error or a positive count not above `cap`, and (when there is a packet)
    reports the `packet_offset` the validation pass computed for that stream.
    (`OpusProps.C01.decodeNative_ret` proves the first part for the single-stream skeleton.) -/
structure MsOracleOk (no : NativeOracle) (nb : Nat) (offs : List Nat) (cap : Int) : Prop where
  ret : ∀ s, s < nb → ((no s).1 = BAD_ARG ∨ (no s).1 = BUFFER_TOO_SMALL ∨ (no s).1 = INVALID_PACKET ∨
    (0 < (no s).1 ∧ (no s).1 ≤ cap))
  po : ∀ s, s < nb → (no s).2 = ((offs.getD s 0 : Nat) : Int)

/-- The per-stream loop: never `OPUS_INTERNAL_ERROR`. -/
theorem msLoop_ret (no : NativeOracle) (nb : Nat) (offs : List Nat) (cap : Int) (L : Nat) (do_plc : Bool)
    (hno : MsOracleOk no nb offs cap) (hoffs : do_plc = false → ∀ s, s < nb → sumTake offs s < L) :
    ∀ (rem : Nat) (len fsz : Int) (calls : List MsCall), rem ≤ nb → 0 < fsz → fsz ≤ cap →
      (do_plc = false → len = (L : Int) - sumTake offs (nb - rem)) →
      ((msLoop no nb do_plc rem len fsz calls).1 = BAD_ARG ∨ (msLoop no nb do_plc rem len fsz calls).1 = BUFFER_TOO_SMALL ∨
       (msLoop no nb do_plc rem len fsz calls).1 = INVALID_PACKET ∨
       (0 < (msLoop no nb do_plc rem len fsz calls).1 ∧ (msLoop no nb do_plc rem len fsz calls).1 ≤ cap)) := by
  intro rem
  induction rem with
  | zero => intro len fsz calls _ h1 h2 _; simp only [msLoop]; exact Or.inr (Or.inr (Or.inr ⟨h1, h2⟩))
  | succ rem ih =>
    intro len fsz calls hrem hpos hcap hlen
    have hs : nb - (rem + 1) < nb := by omega
    have hr := hno.ret _ hs
    have hp := hno.po _ hs
    rw [msLoop]
    have hnie : ¬ (¬ do_plc = true ∧ len ≤ 0) := by
      rintro ⟨h1, h2⟩
      have hd : do_plc = false := by cases do_plc <;> simp_all
      have := hoffs hd _ hs
      have := hlen hd
      omega
    simp only [if_neg hnie]
    rcases hn : no (nb - (rem + 1)) with ⟨ret, po⟩
    rw [hn] at hr hp
    simp only at hr hp ⊢
    by_cases hle : ret ≤ 0
    · simp only [if_pos hle]
      rcases hr with h | h | h | h
      · exact Or.inl h
      · exact Or.inr (Or.inl h)
      · exact Or.inr (Or.inr (Or.inl h))
      · omega
    · simp only [if_neg hle]
      have hret : 0 < ret ∧ ret ≤ cap := by
        rcases hr with h | h | h | h
        · rw [h] at hle; exact absurd (by decide) hle
        · rw [h] at hle; exact absurd (by decide) hle
        · rw [h] at hle; exact absurd (by decide) hle
        · exact h
      apply ih _ _ _ (by omega) hret.1 hret.2
      intro hd
      have hl := hlen hd
      have hidx : nb - rem = (nb - (rem + 1)) + 1 := by omega
      have hsum : sumTake offs (nb - rem) = sumTake offs (nb - (rem + 1)) + offs.getD (nb - (rem + 1)) 0 := by
        rw [hidx]
        unfold sumTake
        have hlt := hoffs hd (nb - (rem + 1)) hs
        by_cases hin : nb - (rem + 1) < offs.length
        · rw [List.take_add_one, sumN_append]
          simp [List.getD_eq_getElem?_getD, List.getElem?_eq_getElem hin, sumN]
        · have h1 : offs.take (nb - (rem + 1) + 1) = offs := List.take_of_length_le (by omega)
          have h2 : offs.take (nb - (rem + 1)) = offs := List.take_of_length_le (by omega)
          rw [h1, h2]
          simp [List.getD_eq_getElem?_getD, List.getElem?_eq_none (by omega : offs.length ≤ nb - (rem + 1))]
      simp only [hd, Bool.false_eq_true, ↓reduceIte]
      rw [hp, hl, hsum]; push_cast; omega

theorem getNbFrames_err (bs : Bytes) (e : Err) (h : getNbFrames bs = .err e) : e = .badArg ∨ e = .invalidPacket := by
  unfold getNbFrames at h
  cases bs with
  | nil => simp at h; exact Or.inl h.symm
  | cons toc rest =>
    simp only at h
    split at h
    · cases h
    · split at h
      · cases h
      · cases rest with
        | nil => simp at h; exact Or.inr h.symm
        | cons b1 t => simp at h

theorem getNbSamples_err (bs : Bytes) (fs : Nat) (e : Err) (h : getNbSamples bs fs = .err e) :
    e = .badArg ∨ e = .invalidPacket := by
  unfold getNbSamples at h
  cases hf : getNbFrames bs with
  | ok c =>
    rw [hf] at h
    simp only at h
    split at h
    · cases h; exact Or.inr rfl
    · cases h
  | err e' =>
    rw [hf] at h
    simp only [Res.err.injEq] at h
    subst h
    exact getNbFrames_err bs _ hf
  | oob => rw [hf] at h; cases h
  | abort => rw [hf] at h; cases h

theorem nbSamples_cases (bs : Bytes) (fs : Int) : 0 ≤ nbSamples bs fs ∨ nbSamples bs fs = BAD_ARG ∨ nbSamples bs fs = INVALID_PACKET := by
  unfold nbSamples
  cases h : getNbSamples bs fs.toNat with
  | ok n => left; simp
  | err e =>
    simp only
    rcases getNbSamples_err bs _ e h with h' | h' <;> subst h'
    · right; left; rfl
    · right; right; rfl
  | oob => right; right; rfl
  | abort => right; right; rfl

/-- `opus_multistream_packet_validate` returns a sample count or BAD_ARG / INVALID_PACKET. -/
theorem msValidate_cases (fs : Int) : ∀ (n : Nat) (first : Bool) (bs : Bytes) (samples : Int),
    (0 ≤ samples ∨ samples = BAD_ARG ∨ samples = INVALID_PACKET) →
    (0 ≤ msValidate fs n first bs samples ∨ msValidate fs n first bs samples = BAD_ARG ∨
      msValidate fs n first bs samples = INVALID_PACKET) := by
  intro n
  induction n with
  | zero => intro first bs samples h; exact h
  | succ n ih =>
    intro first bs samples h
    unfold msValidate
    split
    · right; right; rfl
    · cases hp : parseImpl (n ≠ 0) bs with
      | ok p =>
        simp only
        split
        · right; right; rfl
        · exact ih _ _ _ (nbSamples_cases _ _)
      | err e =>
        simp only
        have := FramingProofs.parseImpl_err_invalid _ bs e hp
        subst this; right; right; rfl
      | oob => right; right; rfl
      | abort => right; right; rfl

/-- `opus_multistream_decode_native` with contract-bound per-stream calls: a documented error or
    `0 < n ≤ frame_size`; in particular never `OPUS_INTERNAL_ERROR`. -/
theorem msDecode_retOk (no : NativeOracle) (Fs : Int) (nb : Nat) (bs : Bytes) (hb : BytesOk bs) (len frame_size : Int)
    (hlen : len ≤ bs.length)
    (hno : MsOracleOk no nb (msOffs nb (bs.take len.toNat)) (min frame_size (Fs / 25 * 3))) (hFs : 0 < Fs / 25 * 3) :
    RetOk frame_size (msDecode no Fs nb bs len frame_size).1 := by
  unfold msDecode
  by_cases h0 : frame_size ≤ 0
  · rw [if_pos h0]; unfold RetOk; simp
  rw [if_neg h0]
  simp only
  by_cases h1 : len < 0
  · rw [if_pos h1]; unfold RetOk; simp
  rw [if_neg h1]
  by_cases h2 : ¬ decide (len = 0) = true ∧ len < 2 * (nb : Int) - 1
  · rw [if_pos h2]; unfold RetOk; simp
  rw [if_neg h2]
  have hbt : BytesOk (bs.take len.toNat) := bytesOk_take hb _
  have hL : ((bs.take len.toNat).length : Int) = len := by
    simp only [List.length_take]; omega
  have hv := msValidate_cases Fs nb true (bs.take len.toNat) 0 (Or.inl (Int.le_refl 0))
  by_cases hplc : len = 0
  · -- concealment on every stream
    have hd : decide (len = 0) = true := by simp [hplc]
    simp only [hd, not_true_eq_false, false_and, ↓reduceIte]
    have := msLoop_ret no nb (msOffs nb (bs.take len.toNat)) (min frame_size (Fs / 25 * 3)) 0 true hno
      (fun h => by cases h) nb len (min frame_size (Fs / 25 * 3)) [] (Nat.le_refl _) (by omega) (Int.le_refl _) (fun h => by cases h)
    unfold RetOk
    rcases this with h | h | h | h
    · exact Or.inl h
    · exact Or.inr (Or.inl h)
    · exact Or.inr (Or.inr (Or.inl h))
    · right; right; right; omega
  · have hd : decide (len = 0) = false := by simp [hplc]
    simp only [hd, Bool.false_eq_true, not_false_eq_true, true_and, ↓reduceIte]
    by_cases h3 : msValidate Fs nb true (bs.take len.toNat) 0 < 0
    · rw [if_pos h3]
      unfold RetOk
      rcases hv with h | h | h
      · omega
      · exact Or.inl h
      · exact Or.inr (Or.inr (Or.inl h))
    rw [if_neg h3]
    by_cases h4 : msValidate Fs nb true (bs.take len.toNat) 0 > min frame_size (Fs / 25 * 3)
    · rw [if_pos h4]; unfold RetOk; simp
    rw [if_neg h4]
    obtain ⟨_, hoffs⟩ := msValidate_offs Fs nb true (bs.take len.toNat) 0 hbt (by omega)
    have := msLoop_ret no nb (msOffs nb (bs.take len.toNat)) (min frame_size (Fs / 25 * 3)) (bs.take len.toNat).length false hno
      (fun _ => hoffs) nb len (min frame_size (Fs / 25 * 3)) [] (Nat.le_refl _) (by omega) (Int.le_refl _)
      (fun _ => by simp [sumTake, sumN]; omega)
    unfold RetOk
    rcases this with h | h | h | h
    · exact Or.inl h
    · exact Or.inr (Or.inl h)
    · exact Or.inr (Or.inr (Or.inl h))
    · right; right; right; omega

end Opus.DecSkel
