import OpusModel.Repack
import OpusProofs.FramingSafe
/-
  C07 helper lemmas, part 1: the shape of `serialize` for each packet code, the byte-size
  bookkeeping of the repacketizer (`minSize`, `vbrBody`, `vbrSizeBytes`) and list facts.
-/
namespace Opus.RepackProofs
open Opus Opus.Framing Opus.FramingSpec Opus.FramingProofs Opus.Repack

/-! ### list facts -/

theorem slices_spec (pre : Bytes) (fs : List Bytes) (post : Bytes) :
    slices (pre ++ fs.flatten ++ post) pre.length (fs.map List.length) = fs := by
  induction fs generalizing pre with
  | nil => simp [slices]
  | cons f fs ih =>
    simp only [List.map_cons, slices, List.flatten_cons]
    have h1 : (pre ++ (f ++ fs.flatten) ++ post).drop pre.length = f ++ fs.flatten ++ post := by
      rw [List.append_assoc, List.drop_left]
    have h2 : (f ++ fs.flatten ++ post).take f.length = f := by
      rw [List.append_assoc, List.take_left]
    rw [h1, h2]
    have h3 := ih (pre ++ f)
    have h4 : pre ++ (f ++ fs.flatten) ++ post = pre ++ f ++ fs.flatten ++ post := by simp
    rw [h4]
    simp only [List.length_append] at h3
    rw [h3]

theorem vbrSizeBytes_eq (lens : List Nat) : vbrSizeBytes lens = lens.dropLast.flatMap encLen := by
  induction lens with
  | nil => rfl
  | cons l ls ih =>
    cases ls with
    | nil => rfl
    | cons l' ls' =>
      simp only [vbrSizeBytes, List.dropLast_cons_cons, List.flatMap_cons] at ih ⊢
      rw [ih]; rfl

theorem encLen_length (n : Nat) : ((encLen n).length : Int) = 1 + (if 252 ≤ n then 1 else 0) := by
  unfold encLen; split <;> split <;> simp <;> omega

theorem vbrBody_eq (lens : List Nat) (h : lens ≠ []) :
    vbrBody lens = ((lens.dropLast.flatMap encLen).length : Int) + sumN lens := by
  induction lens with
  | nil => exact absurd rfl h
  | cons l ls ih =>
    cases ls with
    | nil => simp [vbrBody]
    | cons l' ls' =>
      have := ih (by simp)
      simp only [vbrBody, List.dropLast_cons_cons, List.flatMap_cons, List.length_append, sumN_cons] at this ⊢
      rw [this]
      have := encLen_length l
      push_cast
      omega

theorem isVbr_false_allEq (lens : List Nat) (h : isVbr lens = false) : allEq lens := by
  unfold isVbr at h
  intro a ha b hb
  have h' : ∀ x ∈ lens, x = lens.headD 0 := by
    intro x hx
    have := List.any_eq_false.mp h x hx
    simpa using this
  rw [h' a ha, h' b hb]

theorem isVbr_false_sum (lens : List Nat) (h : isVbr lens = false) :
    sumN lens = lens.length * lens.headD 0 := by
  unfold isVbr at h
  have h' : ∀ x ∈ lens, x = lens.headD 0 := by
    intro x hx
    have := List.any_eq_false.mp h x hx
    simpa using this
  generalize lens.headD 0 = c at h'
  clear h
  induction lens with
  | nil => simp
  | cons x xs ih =>
    have hx := h' x (by simp)
    have := ih (fun y hy => h' y (by simp [hy]))
    simp only [sumN_cons, List.length_cons]
    rw [this, hx, Nat.add_mul]; omega

/-! ### `serialize` per code -/

def padHdr (pd : Option Pad) : Bytes := match pd with | some p => p.hdr | none => []
def padData (pd : Option Pad) : Bytes := match pd with | some p => p.bytes | none => []


theorem ser_code0 (sd : Bool) (t : Nat) (f0 : Bytes) (ht : t % 4 = 0) :
    serialize sd { toc := t, frames := [f0], vbr := false, pad := none } =
      [t] ++ (if sd then encLen f0.length else []) ++ f0 := by
  cases sd <;> simp [serialize, header, Packet.code, lenFields, padBytes, Packet.lens, ht]

theorem ser_code1 (sd : Bool) (t : Nat) (f0 f1 : Bytes) (ht : t % 4 = 1) :
    serialize sd { toc := t, frames := [f0, f1], vbr := false, pad := none } =
      [t] ++ (if sd then encLen f1.length else []) ++ (f0 ++ f1) := by
  cases sd <;> simp [serialize, header, Packet.code, lenFields, padBytes, Packet.lens, ht]

theorem ser_code2 (sd : Bool) (t : Nat) (f0 f1 : Bytes) (ht : t % 4 = 2) :
    serialize sd { toc := t, frames := [f0, f1], vbr := false, pad := none } =
      [t] ++ encLen f0.length ++ (if sd then encLen f1.length else []) ++ (f0 ++ f1) := by
  cases sd <;> simp [serialize, header, Packet.code, lenFields, padBytes, Packet.lens, ht]

theorem ser_code3 (sd : Bool) (t : Nat) (fs : List Bytes) (vbr : Bool) (pd : Option Pad) (ht : t % 4 = 3)
    (hne : fs ≠ []) :
    serialize sd { toc := t, frames := fs, vbr := vbr, pad := pd } =
      [t, fs.length + (if pd.isSome then 64 else 0) + (if vbr then 128 else 0)] ++
      padHdr pd ++
      (if vbr then (fs.map List.length).dropLast.flatMap encLen else []) ++
      (if sd then encLen ((fs.map List.length).getLastD 0) else []) ++ fs.flatten ++
      padData pd := by
  cases sd <;> cases vbr <;> cases pd <;>
    simp [serialize, header, Packet.code, lenFields, padBytes, Packet.lens, ht, countByte, padHdr, padData]
  all_goals
    cases hgl : fs.getLast? with
    | none => exact absurd (List.getLast?_eq_none_iff.mp hgl) hne
    | some x => simp

end Opus.RepackProofs
