import OpusProofs.DecSkelNative
/-
  OpusProofs.DecSkelApi — the pure return-value function `nativeRet` is always a documented result;
  the three format wrappers; one call of a history and whole histories.
-/
namespace Opus.DecSkel
open Opus Opus.Framing

theorem retOk_mono {a b v : Int} (h : RetOk a v) (hab : a ≤ b) : RetOk b v := by
  unfold RetOk at *; omega

/-- `nativeRet` is a documented result: BAD_ARG / BUFFER_TOO_SMALL / INVALID_PACKET, or `0 < n ≤ frame_size`. -/
theorem nativeRet_retOk {st : DecState} (hfs : FsOk st.Fs) (data : Option Bytes) (hb : ∀ bs, data = some bs → BytesOk bs)
    (len frame_size fec : Int) (sd : Bool) : RetOk frame_size (nativeRet st data len frame_size fec sd) := by
  obtain ⟨u, hu⟩ := units_of_fs hfs
  have hplc : cmod frame_size (st.Fs / 400) = 0 → RetOk frame_size (plcRet st frame_size) := by
    intro hmul
    rcases plcRet_cases hu hmul with ⟨h1, h2⟩ | ⟨h1, h2⟩
    · rw [h2]; unfold RetOk; omega
    · rw [h2]; unfold RetOk; simp
  unfold nativeRet
  by_cases h1 : fec < 0 ∨ fec > 1
  · rw [if_pos h1]; unfold RetOk; simp
  rw [if_neg h1]
  by_cases h2 : (fec ≠ 0 ∨ len = 0 ∨ data.isNone = true) ∧ cmod frame_size (st.Fs / 400) ≠ 0
  · rw [if_pos h2]; unfold RetOk; simp
  rw [if_neg h2]
  by_cases h3 : len = 0 ∨ data.isNone = true
  · rw [if_pos h3]
    apply hplc
    apply Decidable.byContradiction; intro hne
    exact h2 ⟨Or.inr h3, hne⟩
  rw [if_neg h3]
  by_cases h4 : len < 0
  · rw [if_pos h4]; unfold RetOk; simp
  rw [if_neg h4]
  have hbs : BytesOk ((data.getD []).take len.toNat) := by
    cases hd : data with
    | none => intro b hb'; simp at hb'
    | some bs0 => exact bytesOk_take (hb bs0 hd) _
  have htoc := headD_lt hbs
  generalize (data.getD []).take len.toNat = bs at *
  have hnf := FramingProofs.parseImpl_nofault sd bs
  rcases hp : parseImpl sd bs with p | e | _ | _
  · simp only
    obtain ⟨hcnt, hc1, _, hsz, _, _, _⟩ := OpusProps.C06.parse_in_bounds sd bs hbs p hp
    by_cases h5 : fec ≠ 0
    · rw [if_pos h5]
      apply hplc
      apply Decidable.byContradiction; intro hne
      exact h2 ⟨Or.inl h5, hne⟩
    · rw [if_neg h5]
      obtain ⟨htoc', hm0, _⟩ := toc_ok hfs htoc
      have hpfs := tocOk_pfs htoc' hu.u400 hm0
      have hupos := hu.pos
      have hpos : 0 < (p.count : Int) * ((samplesPerFrame (bs.headD 0) st.Fs.toNat : Nat) : Int) :=
        Int.mul_pos (by omega) (by omega)
      split
      · unfold RetOk; simp
      · unfold RetOk; omega
  · have := FramingProofs.parseImpl_err_invalid sd bs e hp
    subst this
    unfold RetOk; simp [Err.code, INVALID_PACKET]
  · rw [hp] at hnf; simp [FramingProofs.fault] at hnf
  · rw [hp] at hnf; simp [FramingProofs.fault] at hnf

/-- A fresh run on a state satisfying the invariant is good (reference state = that state). -/
theorem good_fresh {st : DecState} (h : DecInv st) (cap0 : Int) : Good st cap0 { st := st, k := 0, log := [] } :=
  ⟨h, rfl, rfl, by intro e he; simp at he⟩

theorem callerBuf_cap (st0 : DecState) (n : Int) : PtrCapOk st0 n { buf := .pcm, off := 0, cap := n } := rfl

/-- The three format wrappers under the oracle contracts: a documented result, the invariant, only
    legal inner calls, accesses inside the buffer handed to `opus_decode_native` (the caller's own
    buffer for float, the stack buffer `out` of the same size for 16/24-bit). -/
theorem decodeApi_spec {o : Oracle} (ho : OracleOk o) {st : DecState} (hinv : DecInv st) (fmt : Fmt)
    (data : Option Bytes) (hb : ∀ bs, data = some bs → BytesOk bs) (len frame_size fec : Int) :
    ∃ v cap0, (decodeApi o fmt data len frame_size fec { st := st, k := 0, log := [] }).ret = .ret v ∧ RetOk frame_size v ∧
      cap0 ≤ max 0 frame_size * st.channels ∧
      Good st cap0 (decodeApi o fmt data len frame_size fec { st := st, k := 0, log := [] }).run ∧
      (0 < v → (decodeApi o fmt data len frame_size fec { st := st, k := 0, log := [] }).run.st.last_packet_duration = v) ∧
      (v < 0 → (decodeApi o fmt data len frame_size fec { st := st, k := 0, log := [] }).run = { st := st, k := 0, log := [] }) := by
  have hch := hinv.ch
  have native : ∀ fsz : Int, 0 < fsz → fsz ≤ frame_size → ∀ sc : Bool,
      ∃ v cap0, (decodeNative o data len { buf := .pcm, off := 0, cap := fsz * st.channels } fsz fec false sc
          { st := st, k := 0, log := [] }).ret = .ret v ∧ RetOk frame_size v ∧ cap0 ≤ max 0 frame_size * st.channels ∧
        Good st cap0 (decodeNative o data len { buf := .pcm, off := 0, cap := fsz * st.channels } fsz fec false sc
          { st := st, k := 0, log := [] }).run ∧
        (0 < v → (decodeNative o data len { buf := .pcm, off := 0, cap := fsz * st.channels } fsz fec false sc
          { st := st, k := 0, log := [] }).run.st.last_packet_duration = v) ∧
        (v < 0 → (decodeNative o data len { buf := .pcm, off := 0, cap := fsz * st.channels } fsz fec false sc
          { st := st, k := 0, log := [] }).run = { st := st, k := 0, log := [] }) := by
    intro fsz hpos hle sc
    have h := decodeNative_spec ho (good_fresh hinv (fsz * st.channels)) data hb len
      { buf := .pcm, off := 0, cap := fsz * st.channels } fsz fec false sc (by simp) (callerBuf_cap st _)
    refine ⟨_, fsz * st.channels, h.ret, retOk_mono (nativeRet_retOk hinv.fs data hb len fsz fec false) hle, ?_, h.good, h.lpd, h.err⟩
    rcases hch with h | h <;> rw [h] <;> omega
  unfold decodeApi
  by_cases h0 : frame_size ≤ 0
  · rw [if_pos h0]
    exact ⟨BAD_ARG, 0, rfl, by unfold RetOk; simp, by rcases hch with h | h <;> rw [h] <;> omega, good_fresh hinv 0,
      fun h => absurd h (by decide), fun _ => rfl⟩
  rw [if_neg h0]
  cases fmt with
  | f32 => exact native frame_size (by omega) (Int.le_refl _) false
  | i16 =>
    simp only
    split
    · exact ⟨INVALID_PACKET, 0, rfl, by unfold RetOk; simp, by rcases hch with h | h <;> rw [h] <;> omega, good_fresh hinv 0,
        fun h => absurd h (by decide), fun _ => rfl⟩
    · rename_i fsz hc
      have hch' : ¬ ¬ (st.channels = 1 ∨ st.channels = 2) := by simp [hch]
      rw [if_neg hch']
      have hf : 0 < fsz ∧ fsz ≤ frame_size := by
        split at hc
        · split at hc
          · simp only [Option.some.injEq] at hc; omega
          · cases hc
        · simp only [Option.some.injEq] at hc; omega
      exact native fsz hf.1 hf.2 _
  | i24 =>
    simp only
    split
    · exact ⟨INVALID_PACKET, 0, rfl, by unfold RetOk; simp, by rcases hch with h | h <;> rw [h] <;> omega, good_fresh hinv 0,
        fun h => absurd h (by decide), fun _ => rfl⟩
    · rename_i fsz hc
      have hch' : ¬ ¬ (st.channels = 1 ∨ st.channels = 2) := by simp [hch]
      rw [if_neg hch']
      have hf : 0 < fsz ∧ fsz ≤ frame_size := by
        split at hc
        · split at hc
          · simp only [Option.some.injEq] at hc; omega
          · cases hc
        · simp only [Option.some.injEq] at hc; omega
      exact native fsz hf.1 hf.2 _

/-! ### init / reset / gain and histories -/

theorem init_inv {fs ch : Int} {st : DecState} (h : init fs ch = some st) : DecInv st := by
  unfold init at h
  split at h
  · cases h
  · rename_i hc
    simp only [Option.some.injEq] at h
    subst h
    have hfs : FsOk fs := by unfold FsOk; omega
    have hch : ch = 1 ∨ ch = 2 := by omega
    exact { fs := hfs, ch := hch, api := rfl, nca := rfl, isr := Or.inl rfl, nci := Or.inl rfl, ps := Or.inl rfl,
            sch := hch, toc := Or.inl ⟨rfl, rfl, rfl⟩, pm := Or.inl rfl, pr := Or.inl rfl,
            silkReady := by intro h; simp only at h; rcases h with h | h <;> exact absurd h (by decide),
            gain := by simp, lpd := by simp }

theorem reset_inv {st : DecState} (h : DecInv st) : DecInv (reset st) := by
  unfold reset
  exact { fs := h.fs, ch := h.ch, api := h.api, nca := h.nca, isr := h.isr, nci := h.nci, ps := h.ps,
          sch := h.ch, toc := Or.inl ⟨rfl, rfl, rfl⟩, pm := Or.inl rfl, pr := Or.inl rfl,
          silkReady := by intro h; simp only at h; rcases h with h | h <;> exact absurd h (by decide),
          gain := h.gain, lpd := by simp }

theorem setGain_inv {st : DecState} (h : DecInv st) (v : Int) : DecInv (setGain st v).2 := by
  unfold setGain
  split
  · exact h
  · rename_i hv
    exact { fs := h.fs, ch := h.ch, api := h.api, nca := h.nca, isr := h.isr, nci := h.nci, ps := h.ps,
            sch := h.sch, toc := h.toc, pm := h.pm, pr := h.pr, silkReady := h.silkReady,
            gain := by simp only; omega, lpd := h.lpd }

/-- One call of a history keeps the invariant. -/
theorem stepCall_inv {o : Oracle} (ho : OracleOk o) {st : DecState} (h : DecInv st) (c : Call) (hc : c.WF) :
    DecInv (stepCall o st c) := by
  cases c with
  | decode fmt data len fsz fec =>
    obtain ⟨v, cap0, _, _, _, hg, _, _⟩ := decodeApi_spec ho h fmt data hc len fsz fec
    exact hg.inv
  | native data len fsz fec sd sc =>
    have := decodeNative_spec ho (good_fresh h (fsz * st.channels)) data hc len
      { buf := .pcm, off := 0, cap := fsz * st.channels } fsz fec sd sc (by simp) (callerBuf_cap st _)
    exact this.good.inv
  | reset => exact reset_inv h
  | gain v => exact setGain_inv h v

/-- Every history keeps the invariant. -/
theorem runHistory_inv {os : Nat → Oracle} (hos : ∀ i, OracleOk (os i)) :
    ∀ (cs : List Call) (i : Nat) (st : DecState), DecInv st → (∀ c ∈ cs, c.WF) → DecInv (runHistory os i st cs) := by
  intro cs
  induction cs with
  | nil => intro i st h _; exact h
  | cons c cs ih =>
    intro i st h hwf
    unfold runHistory
    exact ih (i + 1) _ (stepCall_inv (hos i) h c (hwf c (by simp))) (fun c' hc' => hwf c' (by simp [hc']))

/-! ### the oracle contracts are satisfiable; statements in the form used by `OpusProps.C01` -/

/-- A concrete oracle within the contracts (SILK and CELT always succeed, every coded bit is 0). -/
def exOracle : Oracle :=
  { silk := fun _ a => (0, silkSamples a, 1), celt := fun _ a => a.frame_size,
    bit := fun _ _ t => (0, t), uint := fun _ _ t => (0, t) }

theorem exOracle_ok : OracleOk exOracle :=
  { silk := fun _ _ _ => ⟨rfl, rfl, fun _ => Int.le_refl 1⟩, celt := fun _ _ _ => rfl,
    bit := fun _ logp tell h => ⟨Or.inl rfl, Int.le_refl _, by simp only [exOracle]; omega⟩,
    uint := fun _ ft tell h => ⟨Int.le_refl 0, h, Int.le_refl _⟩ }

theorem ptrCap_of_pcm {st : DecState} {pcm : Ptr} (h : pcm.buf = .pcm) : PtrCapOk st pcm.cap pcm := by
  simp [PtrCapOk, h]

/-- `EvGood` spelled out for the extent of an event. -/
theorem evGood_extent {st0 : DecState} {cap0 : Int} {e : Ev} (h : EvGood st0 cap0 e) {p : Ptr} {n : Int}
    (he : e.extent? = some (p, n)) : p.room n ∧ PtrCapOk st0 cap0 p := by
  obtain ⟨hok, hcap⟩ := h
  cases e with
  | decInit off len => simp [Ev.extent?] at he
  | silk a q ret m =>
    simp only [Ev.extent?, Option.some.injEq, Prod.mk.injEq] at he
    obtain ⟨rfl, rfl⟩ := he
    exact ⟨hok.2.2.2, hcap q rfl⟩
  | celt a q ret =>
    simp only [Ev.extent?, Option.some.injEq, Prod.mk.injEq] at he
    obtain ⟨rfl, rfl⟩ := he
    exact ⟨hok.2.2.1, hcap q rfl⟩
  | acc site q m =>
    simp only [Ev.extent?, Option.some.injEq, Prod.mk.injEq] at he
    obtain ⟨rfl, rfl⟩ := he
    exact ⟨hok, hcap q rfl⟩
  | silkReset => simp [Ev.extent?] at he
  | clip q m ch =>
    simp only [Ev.extent?, Option.some.injEq, Prod.mk.injEq] at he
    obtain ⟨rfl, rfl⟩ := he
    exact ⟨hok, hcap q rfl⟩

end Opus.DecSkel
