import OpusProofs.SilkApiKeep
/-! Proofs for the C01 `SilkApi` slice: silk_Decode after the configuration part, with named intermediate states. -/
namespace Opus.SilkApi

def tD1 (p : Prep) (a : Args) (o : Orc) : Dec := (readFlags p.d a o).1
def tSp (p : Prep) (a : Args) (o : Orc) : Pred := stereoPred (tD1 p a o) a o
def tD2 (p : Prep) (a : Args) (o : Orc) : Dec := (sideReset (tD1 p a o) a (tSp p a o).dom).1
def tFr (p : Prep) (a : Args) (o : Orc) : Frames := frames (tD2 p a o) a o (hasSide (tD2 p a o) a (tSp p a o).dom).1

/-- silk_Decode :226-:431 (the part of `silkDecode` after `prep`), with the intermediate states named. -/
def tail (p : Prep) (a : Args) (o : Orc) : Run :=
  let rf := readFlags p.d a o
  let sp := tSp p a o
  let sr := sideReset (tD1 p a o) a (tSp p a o).dom
  let d := tD2 p a o
  let hs := hasSide d a sp.dom
  let fr := tFr p a o
  let d := fr.d
  let fl := d.ch0.frame_length
  let cap := a.nChannelsInternal * (fl + 2)
  let N := fr.N
  -- :363-:370
  let ms : MsOut :=
    if a.nChannelsAPI = 2 ∧ a.nChannelsInternal = 2 then msToLR d.st fr.x1 fr.x2 sp.p0 sp.p1 d.ch0.fs_kHz N
    else { st := { d.st with sMid0 := ((fr.x1.set 0 d.st.sMid0).set 1 d.st.sMid1).getD N.toNat 0,
                             sMid1 := ((fr.x1.set 0 d.st.sMid0).set 1 d.st.sMid1).getD (N.toNat + 1) 0 },
           x1 := (fr.x1.set 0 d.st.sMid0).set 1 d.st.sMid1, x2 := fr.x2 }
  let msAc : List Acc :=
    if a.nChannelsAPI = 2 ∧ a.nChannelsInternal = 2 then msAccs fl d.ch0.fs_kHz N cap
    else [{ buf := "tmp", lo := 0, n := 2, cap := cap }, { buf := "tmp", lo := N, n := 2, cap := cap }]
  let msEv : List Ev := if a.nChannelsAPI = 2 ∧ a.nChannelsInternal = 2 then [("mstolr", [0, fl + 2, d.ch0.fs_kHz, N])] else []
  let d := { d with st := ms.st }
  -- :373
  let den := smulbb d.ch0.fs_kHz 1000
  if den = 0 then { d := d, ret := 0, ok := false } else      -- integer division by zero
  let nOut := wrap32 (N * a.API_sampleRate) / den
  let nO := nOut.toNat
  let total := nOut * a.nChannelsAPI
  let out0 := List.replicate total.toNat SENTINEL
  -- :379-:394
  let nLoop := if a.nChannelsAPI < a.nChannelsInternal then a.nChannelsAPI else a.nChannelsInternal
  let rsAcc (n : Int) (c : Chan) (i : Nat) : List Acc :=
    [{ buf := "tmp", lo := n * (fl + 2) + 1, n := N, cap := cap },
     { buf := "samplesOut2_tmp", lo := 0, n := (rsOutp o i).length, cap := nOut },
     { buf := "resampler-1ms", lo := 0, n := c.rsIn, cap := N }]            -- resampler.c:184 celt_assert( inLen >= Fs_in_kHz )
  let w0 : List Int := if a.nChannelsAPI = 2 then strideWrite out0 0 2 (rsOutp o 0) nO 0 else strideWrite out0 0 1 (rsOutp o 0) nO 0
  let ev0 : List Ev := [("alloc2", [nOut]), ("resample", [0, 1, N, hashList ((ms.x1.drop 1).take N.toNat)])]
  let ac0 : List Acc := rsAcc 0 d.ch0 0 ++ [{ buf := "samplesOut", lo := 0, n := nOut, stride := if a.nChannelsAPI = 2 then 2 else 1, cap := total }]
  let two := nLoop = 2
  let w1 : List Int := if two then strideWrite w0 1 2 (rsOutp o 1) nO 0 else w0
  let ev1 : List Ev := if two then [("resample", [1, fl + 2 + 1, N, hashList ((ms.x2.drop 1).take N.toNat)])] else []
  let ac1 : List Acc := if two then rsAcc 1 d.ch1 1 ++ [{ buf := "samplesOut", lo := 1, n := nOut, stride := 2, cap := total }] else []
  let ret1 := rsRet o 0 + (if two then rsRet o 1 else 0)
  -- :397-:411
  let m2s := a.nChannelsAPI = 2 ∧ a.nChannelsInternal = 1
  let w2 : List Int := if m2s then (if p.sToM then strideWrite w1 1 2 (rsOutp o 1) nO 0 else dupWrite w1 nO 0) else w1
  let ev2 : List Ev := if m2s ∧ p.sToM then [("resample", [1, 1, N, hashList ((ms.x1.drop 1).take N.toNat)])] else []
  let ac2 : List Acc :=
    if m2s then
      (if p.sToM then rsAcc 0 d.ch1 1 else [{ buf := "samplesOut", lo := 0, n := nOut, stride := 2, cap := total }]) ++
      [{ buf := "samplesOut", lo := 1, n := nOut, stride := 2, cap := total }]
    else []
  let ret2 := if m2s ∧ p.sToM then rsRet o 1 else 0
  -- :414-:419
  let pl := pitchLagOut d.ch0
  -- :421-:428
  let d := if a.lostFlag = 1 then
             { d with ch0 := { d.ch0 with LastGainIndex := 10 },
                      ch1 := if d.nChannelsInternal = 2 then { d.ch1 with LastGainIndex := 10 } else d.ch1 }
           else { d with prev_decode_only_middle := sp.dom }
  { d := d, ret := p.ret + fr.ret + ret1 + ret2, ok := p.ok, nSamplesOut := nOut, prevPitchLag := pl.1, out := w2,
    x1 := ms.x1, x2 := ms.x2,
    ev := p.ev ++ rf.2.1 ++ sp.ev ++ sr.2 ++ fr.ev ++ msEv ++ ev0 ++ ev1 ++ ev2,
    ac := rf.2.2 ++ sp.ac ++ hs.2 ++ [{ buf := "alloc", lo := 0, n := cap, cap := cap }] ++ fr.ac ++ msAc ++ ac0 ++ ac1 ++ ac2 ++ pl.2 }

theorem silkDecode_eq {d : Dec} {a : Args} {o : Orc} (hok : (prep d a).ok = true) (herr : (prep d a).err = none) :
    silkDecode d a o = tail (prep d a) a o := by
  unfold silkDecode
  dsimp only
  rw [if_neg (by rw [hok]; simp), herr]
  rfl

theorem DecKeep.trans {j k : Int} {a : Args} {d d' d'' : Dec} (h : DecKeep j a d d') (h' : DecKeep k a d' d'') :
    DecKeep (j + k) a d d'' :=
  ⟨h.1.trans h'.1, fun h2 => (h.2.1 h2).trans (h'.2.1 h2), by rw [h'.2.2.1, h.2.2.1], by rw [h'.2.2.2, h.2.2.2]⟩

theorem keep_tFr (p : Prep) (a : Args) (o : Orc) : DecKeep 1 a p.d (tFr p a o).d := by
  have h := ((readFlags_keep p.d a o).trans (sideReset_keep (tD1 p a o) a (tSp p a o).dom)).trans
    (frames_keep (tD2 p a o) a o (hasSide (tD2 p a o) a (tSp p a o).dom).1)
  have e : (0 : Int) + 0 + 1 = 1 := by omega
  rw [e] at h
  exact h

theorem frames_N (d : Dec) (a : Args) (o : Orc) (hs : Bool) (h : a.nChannelsInternal = 2 → d.ch1.frame_length = d.ch0.frame_length) :
    (frames d a o hs).N = d.ch0.frame_length := by
  unfold frames
  dsimp only
  split
  · rename_i h2
    split
    · exact h h2
    · rfl
  · rfl

theorem frames_ret (d : Dec) (a : Args) (o : Orc) (hs : Bool) (h0 : o.frame0.ret = 0) (h1 : o.frame1.ret = 0) :
    (frames d a o hs).ret = 0 := by
  unfold frames
  dsimp only
  split
  · split
    · show o.frame0.ret + o.frame1.ret = 0; omega
    · exact h0
  · exact h0

theorem strideWrite_length (base stride : Nat) (src : List Int) : ∀ (cnt i : Nat) (out : List Int),
    (strideWrite out base stride src cnt i).length = out.length
  | 0, _, _ => rfl
  | cnt + 1, i, out => by unfold strideWrite; rw [strideWrite_length base stride src cnt]; simp

theorem dupWrite_length : ∀ (cnt i : Nat) (out : List Int), (dupWrite out cnt i).length = out.length
  | 0, _, _ => rfl
  | cnt + 1, i, out => by unfold dupWrite; rw [dupWrite_length cnt]; simp

theorem tail_ok {api : Int} {p : Prep} {a : Args} {o : Orc} (ha : ApiOk api) (hapi : a.API_sampleRate = api)
    (hok : p.ok = true) (hret : p.ret = 0) (hR : Ready api a p.d)
    (hO : OrcOk p.d.ch0.frame_length (p.d.ch0.nb_subfr * (api / 200)) o) :
    (tail p a o).ok = true ∧ (tail p a o).err = none ∧ (tail p a o).ret = 0 ∧
    (tail p a o).nSamplesOut = p.d.ch0.nb_subfr * (api / 200) ∧
    Inv api (tail p a o).d ∧ (tail p a o).d.nChannelsInternal = a.nChannelsInternal ∧
    (tail p a o).d.ch0.nb_subfr = p.d.ch0.nb_subfr ∧
    (tail p a o).out.length = ((tail p a o).nSamplesOut * a.nChannelsAPI).toNat := by
  obtain ⟨r0, rlt, r1, rn, rapi⟩ := hR
  obtain ⟨o1, o2, _, _, _, _, o7, o8, _, _⟩ := hO
  have K := keep_tFr p a o
  obtain ⟨k1, k2, k3, k4, k5, k6, k7, k8, k9, k10, k11, k12, k13, k14⟩ := K.1
  have c0 : ChanOk api (tFr p a o).d.ch0 := chanOk_of_keyEq r0 K.1 (by omega) (by omega)
  have c1 : a.nChannelsInternal = 2 → ChanOk api (tFr p a o).d.ch1 ∧ Same (tFr p a o).d.ch0 (tFr p a o).d.ch1 := by
    intro h2
    obtain ⟨q1, q2⟩ := r1 h2
    have KK := K.2.1 h2
    obtain ⟨s1, s2, s3, s4⟩ := q2
    refine ⟨chanOk_of_keyEq q1 KK (by omega) (by omega), ?_⟩
    obtain ⟨j1, j2, j3, j4, j5, j6, j7, j8, j9, j10, j11, j12, j13, j14⟩ := KK
    exact ⟨by rw [j1, k1, s1], by rw [j3, k3, s2], by rw [j11, k11, s3], by rw [j14, k14, s4]⟩
  have hfl1 : a.nChannelsInternal = 2 → (tD2 p a o).ch1.frame_length = (tD2 p a o).ch0.frame_length := by
    intro h2
    have KD : DecKeep (0 + 0) a p.d (tD2 p a o) := (readFlags_keep p.d a o).trans (sideReset_keep (tD1 p a o) a (tSp p a o).dom)
    obtain ⟨q1, q2⟩ := r1 h2
    rw [(KD.2.1 h2).2.2.2.1, KD.1.2.2.2.1, q1.1.2.2.1, r0.1.2.2.1, q2.1, q2.2.1]
  have hN : (tFr p a o).N = p.d.ch0.frame_length := by
    have KD : DecKeep (0 + 0) a p.d (tD2 p a o) := (readFlags_keep p.d a o).trans (sideReset_keep (tD1 p a o) a (tSp p a o).dom)
    unfold tFr
    rw [frames_N _ _ _ _ hfl1, KD.1.2.2.2.1]
  have hfr : (tFr p a o).ret = 0 := frames_ret _ _ _ _ o1 o2
  obtain ⟨n1, n2, n3, n4, n5⟩ := nSamplesOut_ok ha c0
  rw [k4, k3] at n3
  unfold tail
  dsimp only
  split
  · rename_i h; exact absurd h n1
  · refine ⟨hok, rfl, ?_, ?_, ?_, ?_, ?_, ?_⟩
    · rw [hret, hfr, o7, o8]; simp
    · rw [hN, hapi]; exact n3
    · split
      · refine Or.inr ⟨c0, fun h2 => ?_⟩
        have h2' : a.nChannelsInternal = 2 := by rw [← rn, ← K.2.2.1]; exact h2
        have h2'' : (tFr p a o).d.nChannelsInternal = 2 := h2
        simp only [h2'', if_true]
        exact c1 h2'
      · refine Or.inr ⟨c0, fun h2 => ?_⟩
        have h2' : a.nChannelsInternal = 2 := by rw [← rn, ← K.2.2.1]; exact h2
        exact c1 h2'
    · split
      · show (tFr p a o).d.nChannelsInternal = _; rw [K.2.2.1, rn]
      · show (tFr p a o).d.nChannelsInternal = _; rw [K.2.2.1, rn]
    · split <;> exact k3
    · simp only [apply_ite List.length, strideWrite_length, dupWrite_length, List.length_replicate, ite_self]

end Opus.SilkApi
