import OpusModel.CeltCallees2
/-
  OpusProofs.CeltCallees2 — the index models of `pitch_search` (with find_best_pitch, celt_pitch_xcorr_c, xcorr_kernel_c,
  celt_inner_prod_c) and `denormalise_bands` stay inside the extent contracts the CELT index bridge assumes for them
  (`Opus.CeltIdx.Call.accs`), inside the mode tables and inside their local arrays, for ALL argument values within the
  routines' preconditions.  (The MDCT / FFT part: `OpusProofs.CeltCallees2Fft`, `OpusProofs.CeltCallees2Bfly`, `OpusProofs.CeltCallees2Mdct`.)
-/
namespace Opus.CeltCallees2
open Opus.Gen.CeltFft

/-- Every hit of the list satisfies `P` (a structure, so that `apply` does not unfold it). -/
structure All (P : Hit → Prop) (l : List Hit) : Prop where
  all : ∀ h ∈ l, P h

theorem all_nil {P : Hit → Prop} : All P [] := ⟨fun _ h => absurd h List.not_mem_nil⟩
theorem all_cons {P : Hit → Prop} {a : Hit} {l : List Hit} (ha : P a) (hl : All P l) : All P (a :: l) := by
  refine ⟨fun h hh => ?_⟩; rcases List.mem_cons.mp hh with rfl | hh
  · exact ha
  · exact hl.all h hh
theorem all_append {P : Hit → Prop} {a b : List Hit} (ha : All P a) (hb : All P b) : All P (a ++ b) := by
  refine ⟨fun h hh => ?_⟩; rcases List.mem_append.mp hh with hh | hh
  · exact ha.all h hh
  · exact hb.all h hh
theorem all_loop {P : Hit → Prop} {lo hi : Int} {body : Int → List Hit}
    (h : ∀ i, lo ≤ i → i < hi → All P (body i)) : All P (loop lo hi body) := by
  refine ⟨fun x hx => ?_⟩
  unfold loop at hx
  obtain ⟨t, ht, hxt⟩ := List.mem_flatMap.mp hx
  have := List.mem_range.mp ht
  exact (h (lo + t) (by omega) (by omega)).all x hxt
theorem all_imp {P Q : Hit → Prop} {l : List Hit} (h : All P l) (hpq : ∀ x, P x → Q x) : All Q l :=
  ⟨fun x hx => hpq x (h.all x hx)⟩
theorem all_flatMap {P Q : Hit → Prop} {l : List Hit} {f : Hit → List Hit} (h : All P l)
    (hpq : ∀ x, P x → All Q (f x)) : All Q (l.flatMap f) := by
  refine ⟨fun x hx => ?_⟩
  obtain ⟨y, hy, hxy⟩ := List.mem_flatMap.mp hx
  exact (hpq y (h.all y hy)).all x hxy
theorem all_of_bool {P : Hit → Prop} {p : Hit → Bool} {l : List Hit} (hb : l.all p = true)
    (hp : ∀ x, p x = true → P x) : All P l :=
  ⟨fun x hx => hp x (List.all_eq_true.mp hb x hx)⟩
theorem all_ite {P : Hit → Prop} {c : Prop} [Decidable c] {a b : List Hit} (ha : c → All P a) (hb : ¬c → All P b) :
    All P (if c then a else b) := by
  split
  · exact ha ‹_›
  · exact hb ‹_›

/-- Inside per-array bounds `B arr = (lo, hi)` (inclusive; `lo > hi`: the array must not be touched). -/
def InB (B : CArr → Int × Int) (h : Hit) : Prop := (B h.arr).1 ≤ h.idx ∧ h.idx ≤ (B h.arr).2

/-- Structural steps: split lists, enter loops. -/
macro "hits_step" : tactic =>
  `(tactic| first
    | with_reducible apply all_nil
    | with_reducible apply all_append
    | with_reducible apply all_cons
    | (with_reducible apply all_loop; intro _ _ _))

theorem mul_mono {s a b : Int} (hs : 0 ≤ s) (hab : a ≤ b) : s * a ≤ s * b := Int.mul_le_mul_of_nonneg_left hab hs

/-! ## pitch_search -/

/-- Bounds of `pitch_search(x_lp, y, len, max_pitch, …)`: the contract of the bridge for the two arguments
    (`Call.psearch`: `x_lp[0 .. len/2)`, `y[0 .. len/2 + max_pitch/2)`), the three `ALLOC`ed arrays `x_lp4[len>>2]`,
    `y_lp4[(len+max_pitch)>>2]`, `xcorr[max_pitch>>1]` and the local `best_pitch[2]`. -/
def psearchB (len maxp : Int) : CArr → Int × Int
  | .xlp => (0, len / 2 - 1) | .y => (0, len / 2 + maxp / 2 - 1)
  | .xlp4 => (0, len / 4 - 1) | .ylp4 => (0, (len + maxp) / 4 - 1) | .xcorr => (0, maxp / 2 - 1) | .bestp => (0, 1)
  | _ => (1, 0)

/-- The bounds of the three `ALLOC`ed arrays are their allocation sizes (`psearchAlloc`, which the tie compares with the
    sizes the instrumented code really allocates). -/
theorem psearchB_alloc (len maxp : Int) (a : CArr) (h : a = .xlp4 ∨ a = .ylp4 ∨ a = .xcorr) :
    psearchB len maxp a = (0, psearchAlloc len maxp a - 1) := by
  rcases h with rfl | rfl | rfl <;> rfl

/-- `pitch_search`: every hit inside `psearchB`, for ALL `len ≥ 12` (the coarse `xcorr_kernel` runs over `len>>2` taps and
    asserts `≥ 3`), ALL `max_pitch ≥ 0` (the routine itself asserts `> 0`) and ARBITRARY results `bA`, `bB`, `b0` of the
    two `find_best_pitch` calls (the guard `0 < b0 < (max_pitch>>1) − 1` of :393 is what keeps `xcorr[b0 ± 1]` inside). -/
theorem psearch_in (len maxp bA bB b0 : Int) (hl : 12 ≤ len) (hm : 0 ≤ maxp) :
    All (InB (psearchB len maxp)) (psearchHits len maxp bA bB b0) := by
  unfold psearchHits pitchXcorr findBestPitch xcorrKernel innerProd
  repeat' first
    | hits_step
    | (with_reducible apply all_ite <;> intro _)
  all_goals (refine ⟨?_, ?_⟩ <;> simp only [psearchB] <;> omega)

/-! ## denormalise_bands -/

theorem eBands_mono : ∀ k : Nat, k < 21 → eBands.getD k 0 < eBands.getD (k + 1) 0 := by decide
theorem eBands_range : ∀ k : Nat, k < 22 → 0 ≤ eBands.getD k 0 ∧ eBands.getD k 0 ≤ 100 := by decide

theorem eB_mono (i : Int) (h0 : 0 ≤ i) (h1 : i < 21) : eB i < eB (i + 1) := by
  unfold eB
  have h := eBands_mono i.toNat (by omega)
  have e : (i + 1).toNat = i.toNat + 1 := by omega
  rw [e]; exact h
theorem eB_range (i : Int) (h1 : i ≤ 21) : 0 ≤ eB i ∧ eB i ≤ 100 := by
  unfold eB
  exact eBands_range i.toNat (by omega)

/-- Bounds of `denormalise_bands(m, X, freq, bandLogE, start, end, M, …)`: the contract of the bridge (`Call.denorm`:
    `X[0 .. N)`, `freq[0 .. N)`, `N = M*shortMdctSize`), `bandLogE[0 .. nbEBands)`, `m->eBands[0 .. nbEBands]`,
    `eMeans[0 .. 25)`. -/
def denormB (M : Int) : CArr → Int × Int
  | .X => (0, M * shortMdctSize - 1) | .freq => (0, M * shortMdctSize - 1) | .bandE => (0, nbEBands - 1)
  | .eBands => (0, nbEBands) | .eMeans => (0, eMeansLen - 1) | _ => (1, 0)

/-- The band loop with the running position `pos = f - freq = x - X`: as long as `pos = M*eBands[i]` on entry (the static
    table is strictly increasing, so every `do … while` runs exactly `M*(eBands[i+1]-eBands[i])` times and the position
    stays synchronised), all hits are inside. -/
theorem denormBands_in (M : Int) (hM : 1 ≤ M) (n : Nat) : ∀ (i : Int), 0 ≤ i → i + n ≤ 21 →
    All (InB (denormB M)) (denormBands M n i (M * eB i)) := by
  induction n with
  | zero => intro i _ _; unfold denormBands; exact all_nil
  | succ n ih =>
    intro i h0 h1
    unfold denormBands
    have hm := eB_mono i h0 (by omega)
    have hr := eB_range (i + 1) (by omega)
    have hr0 := eB_range i (by omega)
    have k1 : M * eB i + M ≤ M * eB (i + 1) := by
      have := mul_mono (s := M) (a := eB i + 1) (b := eB (i + 1)) (by omega) (by omega)
      rw [Int.mul_add, Int.mul_one] at this; exact this
    have k2 : M * eB (i + 1) ≤ M * 100 := mul_mono (by omega) hr.2
    have k3 : 0 ≤ M * eB i := Int.mul_nonneg (by omega) hr0.1
    have hc : max (M * eB (i + 1) - M * eB i) 1 = M * eB (i + 1) - M * eB i := by omega
    simp only [hc]
    have e : M * eB i + (M * eB (i + 1) - M * eB i) = M * eB (i + 1) := by omega
    rw [e]
    have hrest := ih (i + 1) (by omega) (by omega)
    repeat' first
      | exact hrest
      | hits_step
    all_goals (refine ⟨?_, ?_⟩ <;> simp only [denormB, nbEBands, eMeansLen, shortMdctSize] <;> omega)

/-- `denormalise_bands`: every hit inside `denormB`, for ALL `M ≥ 1` (the decoder passes `1 << LM`), ALL
    `0 ≤ start ≤ end ≤ nbEBands` (`celt_assert(start <= end)`), ALL `downsample ≥ 1` and both values of `silence`. -/
theorem denorm_in (start end_ M ds : Int) (silence : Bool) (hM : 1 ≤ M) (hs : 0 ≤ start) (hse : start ≤ end_)
    (he : end_ ≤ 21) (hds : 1 ≤ ds) : All (InB (denormB M)) (denormHits start end_ M ds silence) := by
  unfold denormHits
  have hre := eB_range end_ he
  have k2 : M * eB end_ ≤ M * 100 := mul_mono (by omega) hre.2
  have k3 : 0 ≤ M * eB end_ := Int.mul_nonneg (by omega) hre.1
  have hdiv : 0 ≤ M * shortMdctSize / ds := Int.ediv_nonneg (by simp only [shortMdctSize]; omega) (by omega)
  cases silence
  · simp only [Bool.false_eq_true, if_false]
    have hrs := eB_range start (by omega)
    have k4 : M * eB start ≤ M * 100 := mul_mono (by omega) hrs.2
    have k5 : 0 ≤ M * eB start := Int.mul_nonneg (by omega) hrs.1
    have hb := denormBands_in M hM (end_ - start).toNat start hs (by omega)
    repeat' first
      | exact hb
      | hits_step
      | (with_reducible apply all_ite <;> intro _)
    all_goals (refine ⟨?_, ?_⟩ <;> simp only [denormB, nbEBands, shortMdctSize] at * <;> omega)
  · simp only [if_true]
    have e0 : eB 0 = 0 := by decide
    simp only [e0, Int.mul_zero, Int.sub_self, Int.toNat_zero]
    unfold denormBands
    repeat' first
      | hits_step
      | (with_reducible apply all_ite <;> intro _)
    all_goals (refine ⟨?_, ?_⟩ <;> simp only [denormB, nbEBands, shortMdctSize] at * <;> omega)

end Opus.CeltCallees2
