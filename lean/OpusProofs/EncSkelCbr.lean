import OpusModel.EncSkel
import Mathlib.Data.Rat.Floor
import Mathlib.Tactic.Linarith
import Mathlib.Tactic.NormNum
/-
  OpusProofs.EncSkelCbr — the CBR byte count of opus_encoder.c:1255-1257 is
  `min(round(bitrate·T/8), max_data_bytes)` with `T = frame_size/Fs` and round = round-half-up,
  stated over ℚ ("the 12· trick is exact"): for every legal (Fs, frame_size) the two integer
  divisions `12*bitrate/8` and `(… + frame_rate12/2)/frame_rate12` lose nothing.
-/
namespace Opus.EncSkel.Proofs
open Opus Opus.EncSkel

theorem legal_fsz (fs fsz : Int) (hl : legalFrame fs fsz = true) :
    400 * fsz = fs ∨ 200 * fsz = fs ∨ 100 * fsz = fs ∨ 50 * fsz = fs ∨ 25 * fsz = fs ∨ 50 * fsz = 3 * fs ∨
    50 * fsz = 4 * fs ∨ 50 * fsz = 5 * fs ∨ 50 * fsz = 6 * fs := by
  unfold legalFrame at hl
  simpa using hl

/-- Core of the rounding argument for a frame rate of `4800/k12` twelfths… stated with the
    integer `F = frame_rate12` (even, positive) and `T = 12/F`. -/
theorem round_core (b F : Int) (hF : 0 < F) (hev : F % 2 = 0) :
    ⌊(b : ℚ) * 12 / F / 8 + 1 / 2⌋ = (12 * b / 8 + F / 2) / F := by
  rw [Int.floor_eq_iff]
  obtain ⟨h, rfl⟩ : ∃ h, F = 2 * h := ⟨F / 2, by omega⟩
  have hh : 0 < h := by omega
  have e1 : 2 * h / 2 = h := by omega
  rw [e1]
  generalize hn : 12 * b / 8 = n
  have hn1 : 2 * n ≤ 3 * b ∧ 3 * b ≤ 2 * n + 1 := by omega
  have hr1 := Int.ediv_mul_le (n + h) (show (2 * h) ≠ 0 by omega)
  have hr2 := Int.lt_ediv_add_one_mul_self (n + h) (show 0 < 2 * h by omega)
  generalize (n + h) / (2 * h) = r at *
  have hhq : (0 : ℚ) < h := by exact_mod_cast hh
  have q1 : (r : ℚ) * (2 * h) ≤ n + h := by exact_mod_cast hr1
  have q2 : (n : ℚ) + h + 1 ≤ (r + 1) * (2 * h) := by exact_mod_cast (by omega : n + h + 1 ≤ (r + 1) * (2 * h))
  have q3 : (2 : ℚ) * n ≤ 3 * b := by exact_mod_cast hn1.1
  have q4 : (3 : ℚ) * b ≤ 2 * n + 1 := by exact_mod_cast hn1.2
  have key : (b : ℚ) * 12 / ((2 * h : ℤ) : ℚ) / 8 + 1 / 2 = (3 * b + 2 * h) / (4 * h) := by
    push_cast
    field_simp
    ring
  rw [key]
  constructor
  · rw [le_div_iff₀ (by linarith)]
    nlinarith
  · rw [div_lt_iff₀ (by linarith)]
    nlinarith


theorem legal_F (fs fsz : Int) (hl : legalFrame fs fsz = true) :
    ∃ F : Int, 0 < F ∧ F % 2 = 0 ∧ F * fsz = 12 * fs := by
  rcases legal_fsz fs fsz hl with h | h | h | h | h | h | h | h | h
  · exact ⟨4800, by omega, by omega, by omega⟩
  · exact ⟨2400, by omega, by omega, by omega⟩
  · exact ⟨1200, by omega, by omega, by omega⟩
  · exact ⟨600, by omega, by omega, by omega⟩
  · exact ⟨300, by omega, by omega, by omega⟩
  · exact ⟨200, by omega, by omega, by omega⟩
  · exact ⟨150, by omega, by omega, by omega⟩
  · exact ⟨120, by omega, by omega, by omega⟩
  · exact ⟨100, by omega, by omega, by omega⟩

/-- **cbr_bytes = min(round(bitrate·T/8), max_data_bytes)** over ℚ, `T = frame_size/Fs`,
    round = round half up, for every legal frame size and every bit-rate. -/
theorem cbrBytes_round (fs fsz b m : Int) (hfs : 0 < fs) (hl : legalFrame fs fsz = true) :
    cbrBytes fs fsz b m = min ⌊(b : ℚ) * (fsz / fs) / 8 + 1 / 2⌋ m := by
  obtain ⟨F, hF0, hFev, hF⟩ := legal_F fs fsz hl
  have hfz : 0 < fsz := by
    rcases legal_fsz fs fsz hl with h | h | h | h | h | h | h | h | h <;> omega
  have hdiv : 12 * fs / fsz = F := by
    rw [← hF]; exact Int.mul_ediv_cancel _ (by omega)
  unfold cbrBytes
  dsimp only
  rw [hdiv, ← round_core b F hF0 hFev]
  have hq : ((fsz : ℚ) / fs) = 12 / F := by
    have h1 : (F : ℚ) * fsz = 12 * fs := by exact_mod_cast hF
    have h2 : (fs : ℚ) ≠ 0 := by exact_mod_cast (by omega : fs ≠ 0)
    have h3 : (F : ℚ) ≠ 0 := by exact_mod_cast (by omega : F ≠ 0)
    field_simp
    linarith
  rw [hq]
  congr 2
  ring

end Opus.EncSkel.Proofs
