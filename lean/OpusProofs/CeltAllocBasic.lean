import OpusModel.CeltAlloc
/-
  OpusProofs.CeltAllocBasic — structural facts about the allocation model: shapes of the band lists, totality of the
  band-skipping loop, range of `codedBands`.
-/
namespace OpusProofs.CeltAlloc
open Opus Opus.CeltAlloc
open Opus.Gen.CeltTables

theorem bands_length (p : Inp) : (bands p).length = p.end_ - p.start := by simp [bands]

theorem mem_bands {p : Inp} {b : Band} (h : b ∈ bands p) : p.start ≤ b.j ∧ b.j < p.end_ ∧ b = mkBand p b.j := by
  simp only [bands, List.mem_map, List.mem_range] at h
  obtain ⟨i, hi, rfl⟩ := h
  exact ⟨by simp [mkBand], by simp only [mkBand]; omega, rfl⟩

theorem first_band_mem {p : Inp} (h : p.start < p.end_) : mkBand p p.start ∈ bands p := by
  simp only [bands, List.mem_map, List.mem_range]
  exact ⟨0, by omega, rfl⟩

theorem initBits_length (floor : Int) : ∀ (l : List (Int × Int × Int)) (d : Bool), (initBits floor l d).length = l.length := by
  intro l
  induction l with
  | nil => intro d; rfl
  | cons x rest ih =>
    intro d
    obtain ⟨tmp, thresh, cap⟩ := x
    simp only [initBits]
    split <;> simp [ih]

theorem skipStart_ge (start : Nat) (bs : List Band) (h : ∀ b ∈ bs, start ≤ b.j) : start ≤ skipStart start bs := by
  unfold skipStart
  suffices ∀ (l : List Band) (acc : Nat), (∀ b ∈ l, start ≤ b.j) → start ≤ acc →
      start ≤ l.foldl (fun acc b => if b.off > 0 then b.j else acc) acc from this bs start h (Nat.le_refl _)
  intro l
  induction l with
  | nil => intro acc _ ha; exact ha
  | cons b rest ih =>
    intro acc hl ha
    simp only [List.foldl_cons]
    apply ih _ (fun x hx => hl x (by simp [hx]))
    split
    · exact hl b (by simp)
    · exact ha

/-- What the band-skipping loop returns. -/
structure SkipSpec (l : List (Band × Int)) (acc : List (Band × Int)) (s : SkipOut) : Prop where
  /-- the list is split: the kept part (a suffix of the input, unchanged) and the newly skipped bands -/
  split : ∃ pre : List (Band × Int), l = pre ++ s.kept ∧ s.skipped.map (·.1) = pre.reverse.map (·.1) ++ acc.map (·.1)
  kept_ne : s.kept ≠ []
  cb : ∀ x, s.kept.head? = some x → s.codedBands = x.1.j + 1

/-- **Totality of the band-skipping `for(;;)` loop**: if some band of the list is at or below `skip_start`, the loop
    breaks (no `.abort`), and it keeps a non-empty suffix whose first band is `codedBands-1`. -/
theorem skipLoop_ok (p : Inp) (ss : Nat) (rsv : Int) : ∀ (l : List (Band × Int)) (psum total irsv : Int) (c : Coder)
    (acc : List (Band × Int)), (∃ x ∈ l, x.1.j ≤ ss) →
    ∃ s, skipLoop p ss rsv l psum total irsv c acc = .ok s ∧ SkipSpec l acc s := by
  intro l
  induction l with
  | nil => intro _ _ _ _ _ ⟨x, hx, _⟩; simp at hx
  | cons hd rest ih =>
    intro psum total irsv c acc hex
    obtain ⟨b, bits⟩ := hd
    rw [skipLoop]
    by_cases hj : b.j ≤ ss
    · simp only [hj, if_true]
      exact ⟨_, rfl, ⟨[], by simp⟩, by simp, by simp⟩
    · simp only [hj, if_false]
      by_cases hstop : (skipStep p b bits psum total irsv c).stop = true
      · simp only [hstop, if_true]
        exact ⟨_, rfl, ⟨[], by simp⟩, by simp, by simp⟩
      · simp only [hstop]
        have hex' : ∃ x ∈ rest, x.1.j ≤ ss := by
          obtain ⟨x, hx, hxj⟩ := hex
          simp only [List.mem_cons] at hx
          rcases hx with rfl | hx
          · exact absurd hxj hj
          · exact ⟨x, hx, hxj⟩
        obtain ⟨s, hs, ⟨pre, hp1, hp2⟩, hk, hcb⟩ := ih (skipStep p b bits psum total irsv c).psum total
          (skipStep p b bits psum total irsv c).irsv (skipStep p b bits psum total irsv c).coder
          ((b, (skipStep p b bits psum total irsv c).newBits) :: acc) hex'
        refine ⟨s, hs, ⟨(b, bits) :: pre, by simp [hp1], ?_⟩, hk, hcb⟩
        rw [hp2]; simp

end OpusProofs.CeltAlloc
