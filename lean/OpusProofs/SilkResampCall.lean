import OpusProofs.SilkResampInit
import OpusProofs.SilkResampLoops
/-
  OpusProofs.SilkResampCall — one call of silk_resampler (silk/resampler.c:175-215) on a state satisfying the
  invariant: total, invariant and configuration preserved, sample count, int16 outputs; and call histories.
-/
namespace OpusProofs.SilkResamp
open Opus Opus.SilkResamp Opus.SilkParams Opus.Gen.SilkResampRom

/-- State invariant: the configuration is one silk_resampler_init produces; the arrays have their declared sizes
    (the model's lists never grow or shrink); delayBuf holds `opus_int16` values. -/
structure Inv (S : RS) : Prop where
  cfg : S.cfg ∈ cfgTable
  fir : S.sFIR.length = szSFIRi32
  dbuf : S.delayBuf.length = szDelayBuf
  dbuf16 : ∀ v ∈ S.delayBuf, I16 v

/-- Samples one kernel call (resampler.c:193-209) writes for `m` input samples. -/
def kernelOutLen (c : Cfg) (m : Nat) : Nat :=
  if c.fn = useUp2HQ then 2 * m
  else if c.fn = useIIRFIR then loopLen (fun n => interpCount (lshift32 (n : Int) 17) c.invRatio) c.batchSize 0 m
  else if c.fn = useDownFIR then loopLen (fun n => interpCount (lshift32 (n : Int) 16) c.invRatio) c.batchSize 1 m
  else m

/-- Samples silk_resampler writes for `inLen` input samples: the first millisecond, then the rest. -/
def outLen (c : Cfg) (inLen : Nat) : Nat := kernelOutLen c c.fsIn + kernelOutLen c (inLen - c.fsIn)

theorem two_le_length {l : List Int} (h : 2 ≤ l.length) : ∃ a0 a1 rest, l = a0 :: a1 :: rest := by
  match l, h with
  | a0 :: a1 :: rest, _ => exact ⟨a0, a1, rest, rfl⟩

theorem kernel_ok (S : RS) (xs : List Int) (hc : cfgFacts S.cfg = true) (hf : S.sFIR.length = 36)
    (hx : ∀ v ∈ xs, I16 v) :
    ∃ S' out, kernel S xs = .ok (S', out) ∧ S'.cfg = S.cfg ∧ S'.sFIR.length = 36 ∧ S'.delayBuf = S.delayBuf ∧
      out.length = kernelOutLen S.cfg xs.length ∧ ∀ v ∈ out, I16 v := by
  simp only [cfgFacts, Bool.and_eq_true, Bool.or_eq_true, decide_eq_true_eq, beq_iff_eq] at hc
  obtain ⟨⟨⟨⟨⟨⟨⟨h1, h2⟩, h3⟩, h4⟩, h5⟩, h6⟩, h7⟩, hfn⟩ := hc
  have hb2 : S.cfg.batchSize ≤ 480 := by omega
  unfold kernel kernelOutLen
  rcases hfn with ((⟨hfn, _⟩ | ⟨hfn, _⟩) | hfn) | ⟨hfn, hdown⟩
  · -- copy
    rw [if_neg (by rw [hfn]; decide), if_neg (by rw [hfn]; decide), if_neg (by rw [hfn]; decide)]
    rw [if_neg (by rw [hfn]; decide), if_neg (by rw [hfn]; decide), if_neg (by rw [hfn]; decide)]
    exact ⟨S, xs, rfl, rfl, hf, rfl, rfl, hx⟩
  · -- up2_HQ
    rw [if_pos hfn, if_pos hfn]
    exact ⟨_, _, rfl, rfl, hf, rfl, up2hq_len _ _, up2hq_i16 _ _⟩
  · -- IIR_FIR
    rw [if_neg (by rw [hfn]; decide), if_pos hfn, if_neg (by rw [hfn]; decide), if_pos hfn]
    obtain ⟨head, hw, hwl, _⟩ := window_ok_len (l := S.sFIR) (i := 0) (n := orderFir12) (by omega)
      (by rw [hf]; decide)
    obtain ⟨S', head', outs, hr, hl', hol, hoi⟩ := iirFirLoop_ok S.cfg h5 hb2 xs.length xs S.sIIR head
      (Nat.le_refl _) (by simpa [orderFir12] using hwl)
    obtain ⟨sf, hbl, hsl, _⟩ := blit_ok (l := S.sFIR) (src := head') (off := 0) (by omega)
    simp only [hw, hr, hbl, Res.bind_ok]
    exact ⟨_, _, rfl, rfl, by rw [hsl, hf], rfl, hol, hoi⟩
  · -- down_FIR
    rw [if_neg (by rw [hfn]; decide), if_neg (by rw [hfn]; decide), if_pos hfn]
    rw [if_neg (by rw [hfn]; decide), if_neg (by rw [hfn]; decide), if_pos hfn]
    have hdc : DownCfg S.cfg (coefsOf S.cfg.coefId) := by
      rcases hdown with (⟨⟨⟨ho, hl⟩, hf0⟩, hf1⟩ | ⟨ho, hl⟩) | ⟨ho, hl⟩
      · exact Or.inl ⟨ho, hl, hf0, hf1⟩
      · exact Or.inr (Or.inl ⟨ho, hl⟩)
      · exact Or.inr (Or.inr ⟨ho, hl⟩)
    have hord : S.cfg.firOrder ≤ 36 := by
      rcases hdc with ⟨ho, _⟩ | ⟨ho, _⟩ | ⟨ho, _⟩ <;> omega
    obtain ⟨a0, a1, rest, hco⟩ := two_le_length (l := coefsOf S.cfg.coefId) (by
      rcases hdc with ⟨_, hl, _⟩ | ⟨_, hl⟩ | ⟨_, hl⟩ <;> omega)
    rw [hco] at hdc ⊢
    obtain ⟨head, hw, hwl, _⟩ := window_ok_len (l := S.sFIR) (i := 0) (n := S.cfg.firOrder) (by omega)
      (by rw [hf]; simpa using hord)
    obtain ⟨t0, t1, head', outs, hr, hl', hol, hoi⟩ := downFirLoop_ok S.cfg a0 a1 rest h5 hb2 hdc xs.length xs
      S.sIIR.s0 S.sIIR.s1 head (Nat.le_refl _) hwl
    obtain ⟨sf, hbl, hsl, _⟩ := blit_ok (l := S.sFIR) (src := head') (off := 0) (by omega)
    simp only [hw, hr, hbl, Res.bind_ok]
    exact ⟨_, _, rfl, rfl, by rw [hsl, hf], rfl, hol, hoi⟩

theorem resampler_ok (S : RS) (xs : List Int) (hI : Inv S) (hlen : S.cfg.fsIn ≤ xs.length) (hx : ∀ v ∈ xs, I16 v) :
    ∃ S' out, resampler S xs = .ok (S', out) ∧ Inv S' ∧ S'.cfg = S.cfg ∧
      out.length = outLen S.cfg xs.length ∧ ∀ v ∈ out, I16 v := by
  have hc := cfgTable_facts _ hI.cfg
  have hc' := hc
  simp only [cfgFacts, Bool.and_eq_true, Bool.or_eq_true, decide_eq_true_eq, beq_iff_eq] at hc'
  obtain ⟨⟨⟨⟨⟨⟨⟨h1, h2⟩, h3⟩, h4⟩, h5⟩, h6⟩, h7⟩, _⟩ := hc'
  have hfl : S.sFIR.length = 36 := hI.fir
  have hdl : S.delayBuf.length = 48 := hI.dbuf
  unfold resampler
  simp only []
  rw [if_neg (by omega), if_neg (by omega)]
  obtain ⟨first, hw1, hl1, hm1⟩ := window_ok_len (l := xs) (i := 0) (n := S.cfg.fsIn - S.cfg.inputDelay) (by omega)
    (by simp only [Int.toNat_zero]; omega)
  obtain ⟨db, hb1, hdbl, hdbm⟩ := blit_ok (l := S.delayBuf) (src := first) (off := S.cfg.inputDelay) (by omega)
  obtain ⟨in1, hw2, hl2, hm2⟩ := window_ok_len (l := db) (i := 0) (n := S.cfg.fsIn) (by omega)
    (by simp only [Int.toNat_zero]; omega)
  obtain ⟨in2, hw3, hl3, hm3⟩ := window_ok_len (l := xs) (i := ((S.cfg.fsIn - S.cfg.inputDelay : Nat) : Int))
    (n := xs.length - S.cfg.fsIn) (by omega) (by simp only [Int.toNat_natCast]; omega)
  have hdb16 : ∀ v ∈ db, I16 v := by
    intro v hv
    rcases hdbm v hv with h | h
    · exact hI.dbuf16 v h
    · exact hx v (hm1 v h)
  obtain ⟨S1, o1, hk1, hc1, hf1, hd1, hol1, hoi1⟩ := kernel_ok { S with delayBuf := db } in1 hc hfl
    (fun v hv => hdb16 v (hm2 v hv))
  obtain ⟨S2, o2, hk2, hc2, hf2, hd2, hol2, hoi2⟩ := kernel_ok S1 in2 (by rw [hc1]; exact hc) hf1
    (fun v hv => hx v (hm3 v hv))
  obtain ⟨tail, hw4, hl4, hm4⟩ := window_ok_len (l := xs) (i := (xs.length : Int) - (S.cfg.inputDelay : Int))
    (n := S.cfg.inputDelay) (by omega) (by omega)
  have hS2d : S2.delayBuf = db := by rw [hd2, hd1]
  obtain ⟨db2, hb2, hdb2l, hdb2m⟩ := blit_ok (l := S2.delayBuf) (src := tail) (off := 0) (by rw [hS2d]; omega)
  simp only [hw1, hb1, hw2, hw3, hk1, hk2, hw4, hb2, Res.bind_ok]
  refine ⟨_, _, rfl, ?_, ?_, ?_, ?_⟩
  · constructor
    · show S2.cfg ∈ cfgTable
      rw [hc2, hc1]; exact hI.cfg
    · exact hf2
    · show db2.length = szDelayBuf
      rw [hdb2l, hS2d, hdbl]; exact hI.dbuf
    · intro v hv
      rcases hdb2m v hv with h | h
      · rw [hS2d] at h; exact hdb16 v h
      · exact hx v (hm4 v h)
  · show S2.cfg = S.cfg
    rw [hc2, hc1]
  · rw [List.length_append, hol1, hol2, hc1, hl2, hl3]; rfl
  · intro v hv
    rcases List.mem_append.1 hv with h | h
    · exact hoi1 v h
    · exact hoi2 v h

/-- Call histories: every block at least 1 ms long, every sample an int16. -/
def GoodBlocks (c : Cfg) (bs : List (List Int)) : Prop := ∀ b ∈ bs, c.fsIn ≤ b.length ∧ ∀ v ∈ b, I16 v

theorem run_ok (bs : List (List Int)) : ∀ (S : RS), Inv S → GoodBlocks S.cfg bs →
    ∃ S' outs, run S bs = .ok (S', outs) ∧ Inv S' ∧ S'.cfg = S.cfg ∧
      outs.map List.length = bs.map (fun b => outLen S.cfg b.length) ∧ ∀ o ∈ outs, ∀ v ∈ o, I16 v := by
  induction bs with
  | nil => intro S hI _; exact ⟨S, [], rfl, hI, rfl, rfl, fun _ h => by cases h⟩
  | cons b bs ih =>
    intro S hI hg
    obtain ⟨hb1, hb2⟩ := hg b List.mem_cons_self
    obtain ⟨S1, o1, hr, hI1, hc1, hl1, hi1⟩ := resampler_ok S b hI hb1 hb2
    obtain ⟨S', outs, hrun, hI', hc', hls, his⟩ := ih S1 hI1 (by
      intro b' hb'; rw [hc1]; exact hg b' (List.mem_cons_of_mem _ hb'))
    refine ⟨S', o1 :: outs, ?_, hI', by rw [hc', hc1], ?_, ?_⟩
    · simp only [run, hr, hrun]
    · simp only [List.map_cons, hl1, hls, hc1]
    · intro o ho
      rcases List.mem_cons.1 ho with rfl | ho
      · exact hi1
      · exact his o ho

theorem fresh_inv {c : Cfg} (hc : c ∈ cfgTable) : Inv (fresh c) := by
  refine ⟨hc, ?_, ?_, ?_⟩
  · simp [fresh, zeros]
  · simp [fresh, zeros]
  · intro v hv
    simp only [fresh, zeros] at hv
    rw [List.eq_of_mem_replicate hv]
    unfold I16; omega

/-- The first millisecond always yields `Fs_out_kHz` samples, so the second kernel call writes at `&out[ Fs_out_kHz ]`
    right behind the first one's output (resampler.c:195-208). -/
theorem first_ms_len : ∀ c ∈ cfgTable, kernelOutLen c c.fsIn = c.fsOut := by decide +kernel

end OpusProofs.SilkResamp
