import OpusProofs.SilkSymsEncBasic
/-
  C08 × C03 composition, part 2: `silk_decode_indices` (C03's model) inverts `silk_encode_indices`
  (OpusModel/SilkSymsEnc.lean), one lemma per block of the C functions, and the legality of the
  operations the encoder emits under `IxOk`.
-/
namespace Opus.SilkSymsEncProofs
open Opus Opus.RangeCoder Opus.SilkSyms Opus.SilkSymsEnc Opus.SilkSymsFrozen.Icdf

/-! ### Decoding -/

/- Kernel note.  A projection `(sym c T).1` makes the kernel evaluate `sym c T` to weak head normal form
   whenever it has to compare two such terms that are not syntactically equal; with a concrete table `T`
   that means running `ec_dec_icdf` symbolically (minutes, then "deep recursion").  Every proof below
   therefore first replaces the concrete tables by variables (`generalize`). -/

theorem decodeType_spec {lbrr v : Bool} {sig qoff : Nat} {t : List Op} {d : Dec} (hq : qoff ≤ 1)
    (hv : v = decide (sig ≠ 0)) (ht : encType lbrr sig qoff = .ok t) (h : Reads d t) :
    decodeType v d = (2 * sig + qoff, after d t) := by
  unfold encType at ht
  unfold decodeType
  generalize silk_type_offset_VAD_iCDF = T1 at ht ⊢
  generalize silk_type_offset_no_VAD_iCDF = T0 at ht ⊢
  split at ht
  · cases ht
  split at ht
  · cases ht
  split at ht
  · rename_i h1 h2 h3
    injection ht with ht; subst ht
    have hs : sig ≠ 0 := by
      intro h0; subst h0
      rcases h3 with h3 | h3
      · exact h2 ⟨h3, by omega⟩
      · omega
    have : v = true := by rw [hv]; exact decide_eq_true hs
    subst this
    simp only [if_true]
    rw [sym_spec h]
    simp only
    congr 1
    omega
  · rename_i h1 h2 h3
    injection ht with ht; subst ht
    have hs : sig = 0 := by omega
    have : v = false := by rw [hv]; exact decide_eq_false (by omega)
    subst this
    simp only [Bool.false_eq_true, if_false]
    exact sym_spec h

theorem decodeGain0_spec {cc sig g0 : Nat} {d : Dec} (h : Reads d (encGain0 cc sig g0)) :
    decodeGain0 cc sig d = (g0, after d (encGain0 cc sig g0)) := by
  unfold encGain0 at h ⊢
  unfold decodeGain0
  generalize silk_delta_gain_iCDF = T0 at h ⊢
  generalize silk_gain_iCDF.getD sig [] = T1 at h ⊢
  generalize silk_uniform8_iCDF = T2 at h ⊢
  by_cases hc : cc = 2
  · simp only [hc, if_true] at h ⊢
    exact sym_spec h
  · simp only [hc, if_false] at h ⊢
    rw [reads_cons_append] at h
    rw [sym_spec h.1]
    simp only
    rw [sym_spec h.2]
    simp only [after_cons_cons]
    refine Prod.ext ?_ rfl
    simp only
    have := Nat.div_add_mod g0 8
    omega

theorem nlsfResOne_spec {cb : NlsfCB} {e : Nat} {r : Int} {d : Dec} (h : Reads d (encNlsfRes cb e r)) :
    nlsfResOne cb e d = (r + 4, after d (encNlsfRes cb e r)) := by
  unfold encNlsfRes at h ⊢
  unfold nlsfResOne
  generalize silk_NLSF_EXT_iCDF = TX at h ⊢
  generalize cb.ecIcdf.drop e = TE at h ⊢
  by_cases h1 : r ≥ 4
  · simp only [h1, if_true] at h ⊢
    rw [reads_cons_append] at h
    rw [sym_spec h.1]
    simp only
    rw [sym_spec h.2]
    simp only [show (8 : Nat) ≠ 0 by decide, if_false, if_true, after_cons_cons]
    refine Prod.ext ?_ rfl
    simp only
    omega
  · simp only [h1, if_false] at h ⊢
    by_cases h2 : r ≤ -4
    · simp only [h2, if_true] at h ⊢
      rw [reads_cons_append] at h
      rw [sym_spec h.1]
      simp only
      rw [sym_spec h.2]
      simp only [if_true, after_cons_cons]
      refine Prod.ext ?_ rfl
      simp only
      omega
    · simp only [h2, if_false] at h ⊢
      rw [sym_spec h]
      simp only
      have a0 : (r + 4).toNat ≠ 0 := by omega
      have a8 : (r + 4).toNat ≠ 8 := by omega
      simp only [a0, a8, if_false]
      refine Prod.ext ?_ rfl
      simp only
      omega

theorem nlsfResLoop_spec (cb : NlsfCB) : ∀ (es : List Nat) (rs : List Int) (d : Dec), es.length = rs.length →
    Reads d (encNlsfResLoop cb es rs) → nlsfResLoop cb es d = (rs, after d (encNlsfResLoop cb es rs)) := by
  intro es
  induction es with
  | nil =>
    intro rs d hl _
    cases rs with
    | nil => rfl
    | cons r rs => simp at hl
  | cons e es ih =>
    intro rs d hl h
    cases rs with
    | nil => simp at hl
    | cons r rs =>
      simp only [encNlsfResLoop] at h ⊢
      rw [reads_append] at h
      simp only [nlsfResLoop]
      rw [nlsfResOne_spec h.1]
      simp only
      rw [ih rs _ (by simpa using hl) h.2]
      simp only [after_append]
      refine Prod.ext ?_ rfl
      simp only [List.cons.injEq, and_true]
      omega

theorem decodeNlsf_spec {rate : Rate} {sig n0 : Nat} {res : List Int} {d : Dec}
    (hl : res.length = (nlsfCB rate).order) (h : Reads d (encNlsf rate sig n0 res)) :
    decodeNlsf rate sig d = ((n0, res), after d (encNlsf rate sig n0 res)) := by
  unfold encNlsf at h ⊢
  unfold decodeNlsf
  simp only
  generalize (nlsfCB rate).cb1.drop (sig / 2 * (nlsfCB rate).nVectors) = T at h ⊢
  rw [reads_cons_append] at h
  rw [sym_spec h.1]
  simp only
  rw [nlsfResLoop_spec _ _ _ _ (by rw [ecIx_length, hl]) h.2]
  exact Prod.ext rfl (after_cons _ _ _).symm

theorem decodeInterp_spec {nbSubfr ip : Nat} {d : Dec} (hi : nbSubfr ≠ 4 → ip = 4)
    (h : Reads d (encInterp nbSubfr ip)) : decodeInterp nbSubfr d = (ip, after d (encInterp nbSubfr ip)) := by
  unfold encInterp at h ⊢
  unfold decodeInterp
  generalize silk_NLSF_interpolation_factor_iCDF = T at h ⊢
  by_cases h4 : nbSubfr = 4
  · simp only [h4, if_true] at h ⊢
    exact sym_spec h
  · simp only [h4, if_false] at h ⊢
    rw [hi h4, after_nil]

theorem lag_split (lag : Int) (k : Nat) (hlag : 0 ≤ lag) :
    ((lag.toNat / k * k + (lag.toNat - lag.toNat / k * k) : Nat) : Int) = lag := by
  have := Nat.div_mul_le_self lag.toNat k
  have e : lag.toNat / k * k + (lag.toNat - lag.toNat / k * k) = lag.toNat := by omega
  rw [e]
  omega

theorem decodeLag_spec {rate : Rate} {cc prevSig : Nat} {prevLag lag : Int} {d : Dec} (hlag : 0 ≤ lag)
    (h : Reads d (encLag rate cc prevSig prevLag lag)) :
    decodeLag rate cc prevSig prevLag d = (lag, after d (encLag rate cc prevSig prevLag lag)) := by
  unfold encLag at h ⊢
  unfold decodeLag
  generalize silk_pitch_delta_iCDF = TD at h ⊢
  generalize silk_pitch_lag_iCDF = TL at h ⊢
  generalize pitchLagLowBits rate = TB at h ⊢
  by_cases hc : cc = 2 ∧ prevSig = 2
  · rcases hc with ⟨rfl, rfl⟩
    by_cases hf : lagDeltaFits 2 2 prevLag lag = true
    · simp only [and_self, if_true, hf, List.append_nil] at h ⊢
      rw [sym_spec h]
      simp only [lagDeltaFits, decide_eq_true_eq] at hf
      have hpos : (lag - prevLag + 9).toNat > 0 := by omega
      simp only [hpos, if_true]
      refine Prod.ext ?_ rfl
      simp only
      omega
    · simp only [and_self, if_true, hf, if_false, Bool.false_eq_true, List.singleton_append] at h ⊢
      rw [reads_cons_append] at h
      rcases h with ⟨h1, h2⟩
      rw [reads_cons_append] at h2
      rw [sym_spec h1]
      simp only [gt_iff_lt, Nat.lt_irrefl, if_false]
      rw [sym_spec h2.1]
      simp only
      rw [sym_spec h2.2]
      simp only [after_cons_cons]
      exact Prod.ext (lag_split lag _ hlag) rfl
  · have hf : lagDeltaFits cc prevSig prevLag lag = false := by
      simp only [lagDeltaFits, decide_eq_false_iff_not]
      intro hh; exact hc ⟨hh.1, hh.2.1⟩
    simp only [hc, if_false, hf, List.nil_append, Bool.false_eq_true] at h ⊢
    rw [reads_cons_append] at h
    simp only [gt_iff_lt, Nat.lt_irrefl, if_false]
    rw [sym_spec h.1]
    simp only
    rw [sym_spec h.2]
    simp only [after_cons_cons]
    exact Prod.ext (lag_split lag _ hlag) rfl

theorem decodeLtp_spec {nbSubfr cc per scale : Nat} {ltp : List Nat} {d : Dec} (hl : ltp.length = nbSubfr)
    (hsc : cc ≠ 0 → scale = 0) (h1 : Reads d [ic per silk_LTP_per_index_iCDF])
    (h2 : Reads (after d [ic per silk_LTP_per_index_iCDF])
      (encSyms ([silk_LTP_gain_iCDF_0, silk_LTP_gain_iCDF_1, silk_LTP_gain_iCDF_2].getD per []) ltp))
    (h3 : Reads (after (after d [ic per silk_LTP_per_index_iCDF])
        (encSyms ([silk_LTP_gain_iCDF_0, silk_LTP_gain_iCDF_1, silk_LTP_gain_iCDF_2].getD per []) ltp))
      (if cc = 0 then [ic scale silk_LTPscale_iCDF] else [])) :
    decodeLtp nbSubfr cc d = ((per, ltp, scale), after (after (after d [ic per silk_LTP_per_index_iCDF])
        (encSyms ([silk_LTP_gain_iCDF_0, silk_LTP_gain_iCDF_1, silk_LTP_gain_iCDF_2].getD per []) ltp))
      (if cc = 0 then [ic scale silk_LTPscale_iCDF] else [])) := by
  unfold decodeLtp
  subst hl
  generalize silk_LTP_per_index_iCDF = TP at h1 h2 h3 ⊢
  generalize [silk_LTP_gain_iCDF_0, silk_LTP_gain_iCDF_1, silk_LTP_gain_iCDF_2] = TG at h2 h3 ⊢
  generalize silk_LTPscale_iCDF = TS at h3 ⊢
  simp only
  rw [sym_spec h1]
  simp only
  rw [symLoop_spec _ _ _ h2]
  simp only
  by_cases hc : cc = 0
  · simp only [hc, if_true] at h3 ⊢
    rw [sym_spec h3]
  · simp only [hc, if_false] at h3 ⊢
    rw [hsc hc, after_nil]

theorem decodeVoiced_spec {rate : Rate} {nbSubfr sig cc prevSig : Nat} {prevLag : Int} {ix : Indices} {d : Dec}
    (hlag : if sig = 2 then 0 ≤ ix.lagIndex else ix.lagIndex = 0)
    (hcon : sig ≠ 2 → ix.contourIndex = 0) (hper : sig ≠ 2 → ix.perIndex = 0)
    (hltp : ix.ltp.length = (if sig = 2 then nbSubfr else 0))
    (hsc : ¬ (sig = 2 ∧ cc = 0) → ix.ltpScale = 0)
    (h : Reads d (encVoiced rate nbSubfr sig cc prevSig prevLag ix)) :
    decodeVoiced rate nbSubfr sig cc prevSig prevLag d =
      ((ix.lagIndex, ix.contourIndex, ix.perIndex, ix.ltp, ix.ltpScale),
       after d (encVoiced rate nbSubfr sig cc prevSig prevLag ix)) := by
  unfold encVoiced at h ⊢
  unfold decodeVoiced
  by_cases hs : sig = 2
  · simp only [hs, if_true] at h hlag hltp ⊢
    unfold decodePitchLtp
    generalize pitchContour rate nbSubfr = TC at h ⊢
    rw [reads_append, reads_append, reads_append, reads_cons_append] at h
    simp only [after_append, after_cons_cons] at h
    rcases h with ⟨⟨⟨h1, h2, h2'⟩, h3⟩, h4⟩
    rw [after_append, after_append, after_append, after_cons_cons]
    split
    rename_i lag c1 e1
    rw [decodeLag_spec hlag h1] at e1
    cases e1
    split
    rename_i con c2 e2
    rw [sym_spec h2] at e2
    cases e2
    split
    rename_i per ltp scale c3 e3
    rw [decodeLtp_spec hltp (fun hc => hsc (fun hh => hc hh.2)) h2' h3 h4] at e3
    cases e3
    rfl
  · simp only [hs, if_false] at h hlag hltp ⊢
    rw [hlag, hcon hs, hper hs, hsc (fun hh => hs hh.1), List.length_eq_zero_iff.mp hltp, after_nil]

/-- `silk_decode_indices` inverts `silk_encode_indices`. -/
theorem decodeIndices_spec {rate : Rate} {nbSubfr : Nat} {lbrr v : Bool} {cc prevSig : Nat} {prevLag : Int}
    {ix : Indices} {ops : List Op} {d : Dec} (hix : IxOk rate nbSubfr v cc ix) (hnb : 1 ≤ nbSubfr)
    (hops : encodeIndices rate nbSubfr lbrr cc prevSig prevLag ix = .ok ops) (h : Reads d ops) :
    decodeIndices rate nbSubfr v cc prevSig prevLag d = (ix, after d ops) := by
  unfold encodeIndices at hops
  split at hops
  all_goals (try (cases hops; done))
  rename_i t ht
  injection hops with hops
  subst hops
  unfold decodeIndices
  generalize silk_uniform4_iCDF = T4 at h ⊢
  generalize silk_delta_gain_iCDF = TG at h ⊢
  rw [reads_append, reads_append, reads_append, reads_append, reads_append, reads_append] at h
  simp only [after_append] at h ⊢
  rcases h with ⟨⟨⟨⟨⟨⟨h1, h2⟩, h3⟩, h4⟩, h5⟩, h6⟩, h7⟩
  rw [decodeType_spec hix.qoff hix.vad ht h1]
  have hq := hix.qoff
  have e2 : (2 * ix.signalType + ix.quantOffsetType) / 2 = ix.signalType := by omega
  have e1 : (2 * ix.signalType + ix.quantOffsetType) % 2 = ix.quantOffsetType := by omega
  simp only [e1, e2]
  rw [decodeGain0_spec h2]
  simp only
  have hgl := hix.gainsLen
  have htl : nbSubfr - 1 = ix.gains.tail.length := by rw [List.length_tail, hgl]
  rw [htl, symLoop_spec _ _ _ h3]
  simp only
  rw [decodeNlsf_spec hix.resLen h4]
  simp only
  have hint : nbSubfr ≠ 4 → ix.interp = 4 := by
    intro hne; have := hix.interp; simp only [hne, if_false] at this; exact this
  rw [decodeInterp_spec hint h5]
  simp only
  have hlag : if ix.signalType = 2 then 0 ≤ ix.lagIndex else ix.lagIndex = 0 := by
    have := hix.lag
    by_cases hs : ix.signalType = 2
    · simp only [hs, if_true] at this ⊢; exact this.1
    · simp only [hs, if_false] at this ⊢; exact this
  have hcon : ix.signalType ≠ 2 → ix.contourIndex = 0 := by
    intro hs; have := hix.contour; simp only [hs, if_false] at this; exact this
  have hper : ix.signalType ≠ 2 → ix.perIndex = 0 := by
    intro hs; have := hix.per; simp only [hs, if_false] at this; exact this
  have hsc : ¬ (ix.signalType = 2 ∧ cc = 0) → ix.ltpScale = 0 := by
    intro hs; have := hix.scale; simp only [hs, if_false] at this; exact this
  rw [decodeVoiced_spec hlag hcon hper hix.ltpLen hsc h6]
  simp only
  rw [sym_spec h7]
  refine Prod.ext ?_ rfl
  simp only
  have hg : ix.gains.headD 0 :: ix.gains.tail = ix.gains := by
    cases hgs : ix.gains with
    | nil => rw [hgs] at hgl; simp at hgl; omega
    | cons g gs => rfl
  rw [hg]

/-! ### Legality -/

theorem encType_legal {lbrr : Bool} {sig qoff : Nat} {t : List Op} (hs : sig ≤ 2) (hq : qoff ≤ 1)
    (ht : encType lbrr sig qoff = .ok t) : IcLegal t := by
  unfold encType at ht
  split at ht
  · cases ht
  split at ht
  · cases ht
  split at ht
  · injection ht with ht; subst ht
    exact icLegal_ic tab_typeVAD (by omega)
  · injection ht with ht; subst ht
    exact icLegal_ic tab_typeNoVAD (by omega)

theorem encNlsfRes_legal {rate : Rate} {k : Nat} {r : Int} (hk : k < 8) (hr : -10 ≤ r ∧ r ≤ 10) :
    IcLegal (encNlsfRes (nlsfCB rate) (9 * k) r) := by
  unfold encNlsfRes
  split
  · exact icLegal_cons (icLegal_ic (tab_ecIcdf rate k hk) (by decide)) (icLegal_ic tab_nlsfExt (by omega))
  split
  · exact icLegal_cons (icLegal_ic (tab_ecIcdf rate k hk) (by decide)) (icLegal_ic tab_nlsfExt (by omega))
  · exact icLegal_ic (tab_ecIcdf rate k hk) (by omega)

theorem encNlsfResLoop_legal (rate : Rate) : ∀ (es : List Nat) (rs : List Int),
    (∀ e ∈ es, ∃ k, k < 8 ∧ e = 9 * k) → (∀ r ∈ rs, -10 ≤ r ∧ r ≤ 10) →
    IcLegal (encNlsfResLoop (nlsfCB rate) es rs) := by
  intro es
  induction es with
  | nil => intro rs _ _; simp only [encNlsfResLoop]; exact icLegal_nil
  | cons e es ih =>
    intro rs he hr
    cases rs with
    | nil => simp only [encNlsfResLoop]; exact icLegal_nil
    | cons r rs =>
      simp only [encNlsfResLoop]
      rcases he e (List.mem_cons_self ..) with ⟨k, hk, rfl⟩
      exact icLegal_append (encNlsfRes_legal hk (hr r (List.mem_cons_self ..)))
        (ih rs (fun e' h' => he e' (List.mem_cons_of_mem _ h')) (fun r' h' => hr r' (List.mem_cons_of_mem _ h')))

theorem encLag_legal {rate : Rate} {cc prevSig : Nat} {prevLag lag : Int} (h0 : 0 ≤ lag) (h1 : lag < 16 * rate.kHz) :
    IcLegal (encLag rate cc prevSig prevLag lag) := by
  have hk : rate.kHz = 2 * (rate.kHz / 2) ∧ 0 < rate.kHz / 2 := by cases rate <;> decide
  unfold encLag
  apply icLegal_append
  · split
    · apply icLegal_ic tab_pitchDelta
      split
      · rename_i hf
        simp only [lagDeltaFits, decide_eq_true_eq] at hf
        omega
      · decide
    · exact icLegal_nil
  · split
    · exact icLegal_nil
    · have hq : lag.toNat / (rate.kHz / 2) < 32 := by
        rw [Nat.div_lt_iff_lt_mul hk.2]
        omega
      apply icLegal_cons (icLegal_ic tab_pitchLag hq)
      apply icLegal_ic (tab_pitchLow rate)
      have := Nat.mod_lt lag.toNat hk.2
      have e := Nat.div_add_mod lag.toNat (rate.kHz / 2)
      rw [Nat.mul_comm] at e
      omega

/-- Under `IxOk` every operation `silk_encode_indices` emits is a legal `ec_enc_icdf`. -/
theorem encodeIndices_legal {rate : Rate} {nbSubfr : Nat} {lbrr v : Bool} {cc prevSig : Nat} {prevLag : Int}
    {ix : Indices} {ops : List Op} (hix : IxOk rate nbSubfr v cc ix)
    (hops : encodeIndices rate nbSubfr lbrr cc prevSig prevLag ix = .ok ops) : IcLegal ops := by
  unfold encodeIndices at hops
  split at hops
  all_goals (try (cases hops; done))
  rename_i t ht
  injection hops with hops
  subst hops
  have hsig := hix.sig
  refine icLegal_append (icLegal_append (icLegal_append (icLegal_append (icLegal_append (icLegal_append
    (encType_legal hix.sig hix.qoff ht) ?_) ?_) ?_) ?_) ?_) (icLegal_ic tab_uniform4 hix.seed)
  · unfold encGain0
    have hg := hix.gain0
    split
    · rename_i hc
      simp only [hc, if_true] at hg
      exact icLegal_ic tab_deltaGain hg
    · rename_i hc
      simp only [hc, if_false] at hg
      exact icLegal_cons (icLegal_ic (tab_gain _ (by omega)) (by omega))
        (icLegal_ic tab_uniform8 (Nat.mod_lt _ (by decide)))
  · exact icLegal_syms tab_deltaGain _ hix.gainsTail
  · unfold encNlsf
    have hh : ix.signalType / 2 < 2 := by omega
    exact icLegal_cons (icLegal_ic (tab_cb1 rate _ hh) hix.nlsf0)
      (encNlsfResLoop_legal rate _ _ (ecIx_form rate _ hix.nlsf0) hix.res)
  · unfold encInterp
    have hi := hix.interp
    split
    · rename_i h4
      simp only [h4, if_true] at hi
      exact icLegal_ic tab_interp hi
    · exact icLegal_nil
  · unfold encVoiced
    split
    · rename_i hs
      have hl := hix.lag; have hc := hix.contour; have hp := hix.per; have hsc := hix.scale
      simp only [hs, if_true, true_and] at hl hc hp hsc
      refine icLegal_append (icLegal_append (icLegal_append (encLag_legal hl.1 hl.2) ?_) ?_) ?_
      · exact icLegal_cons (icLegal_ic (tab_contour rate nbSubfr) hc) (icLegal_ic tab_perIndex hp)
      · exact icLegal_syms (tab_ltpGain _ hp) _ hix.ltp
      · split
        · rename_i h0
          simp only [h0, if_true] at hsc
          exact icLegal_ic tab_ltpScale hsc
        · exact icLegal_nil
    · exact icLegal_nil

end Opus.SilkSymsEncProofs
