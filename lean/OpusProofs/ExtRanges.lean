import OpusProofs.ExtCount
/-
  C16 helper lemmas: `opus_int32` ranges of the arithmetic of src/extensions.c (reader side).  The model
  computes with unbounded `Int`/`Nat`; these lemmas show that for a padding length below 2^31 every value
  the C code stores in an `opus_int32`/`int` stays inside that type:
    * the lacing loop of `skip_extension_payload` (`bytes`, `header_size`, `len`),
    * every field of `OpusExtensionIterator` in every state `next` can produce (`Box`),
    * the number of extensions an iteration returns (`count`, `nb_extensions`): at most `nb_frames * len`.
-/
namespace Opus.ExtProofs
open Opus Opus.Ext

/-- `x` is representable as `opus_int32`. -/
def InI32 (x : Int) : Prop := -2147483648 ≤ x ∧ x ≤ 2147483647

/-! ### The lacing loop -/

/-- The values `(len, bytes, header_size)` after each execution of the body of
    `do { … lacing = *data++; bytes += lacing; header_size++; len -= lacing + 1; } while (lacing == 255)`
    (extensions.c:70-77), same recursion as `lacing`. -/
def lacingTrace (d : Array Nat) (p : Nat) (len : Int) (bytes hs : Nat) : List (Int × Nat × Nat) :=
  if len < 1 then []
  else match d[p]? with
    | none => []
    | some l =>
      (len - (l + 1), bytes + l, hs + 1) ::
        (if l = 255 then lacingTrace d (p + 1) (len - 256) (bytes + 255) (hs + 1) else [])
termination_by len.toNat
decreasing_by omega

/-- The trace is the trace of `lacing`: what `lacing` returns is its last entry. -/
theorem lacing_mem_trace (d : Array Nat) (p : Nat) (len : Int) (bytes hs : Nat) :
    ∀ {p' : Nat} {len' : Int} {bytes' hs' : Nat},
    lacing d p len bytes hs = .ok (some (p', len', bytes', hs')) →
    (len', bytes', hs') ∈ lacingTrace d p len bytes hs := by
  fun_induction lacing d p len bytes hs with
  | case1 => intro _ _ _ _ h; simp at h
  | case2 => intro _ _ _ _ h; simp at h
  | case3 p len bytes hs hlt hsome ih =>
    intro _ _ _ _ h
    rw [lacingTrace]
    simp only [hlt, if_false, hsome, if_true]
    exact List.mem_cons_of_mem _ (ih h)
  | case4 p len bytes hs hlt l hsome hne =>
    intro _ _ _ _ h
    rw [lacingTrace]
    simp only [hlt, if_false, hsome, hne]
    simp only [Res.ok.injEq, Option.some.injEq, Prod.mk.injEq] at h
    obtain ⟨_, rfl, rfl, rfl⟩ := h
    exact List.mem_cons_self ..

/-- Loop invariant `bytes = 255·header_size`, `len = len0 − 256·header_size` at the loop head gives, after
    every pass: `header_size ≥ 1`, `256·(header_size−1) + 1 ≤ len0`, `bytes ≤ 255·header_size`,
    `−255 ≤ len ≤ len0`. -/
theorem lacingTrace_inv (d : Array Nat) (hb : ∀ (i x : Nat), d[i]? = some x → x < 256) (len0 : Int)
    (p : Nat) (len : Int) (bytes hs : Nat) :
    len + 256 * hs = len0 → bytes = 255 * hs →
    ∀ t ∈ lacingTrace d p len bytes hs,
      -255 ≤ t.1 ∧ t.1 ≤ len0 ∧ 1 ≤ t.2.2 ∧ 256 * ((t.2.2 : Int) - 1) + 1 ≤ len0 ∧ t.2.1 ≤ 255 * t.2.2 := by
  fun_induction lacingTrace d p len bytes hs with
  | case1 => intro _ _ t ht; simp at ht
  | case2 => intro _ _ t ht; simp at ht
  | case3 p len bytes hs hlt l hsome ih =>
    intro h1 h2 t ht
    have hl := hb _ _ hsome
    rcases List.mem_cons.mp ht with rfl | ht
    · simp only; omega
    · split at ht
      · exact ih (by omega) (by omega) t ht
      · simp at ht

/-- **Lacing loop, `opus_int32`.**  Called with `0 ≤ len < 2^31`: after every pass through the loop body
    `len ∈ [−255, len0]`, `header_size ∈ [1, 2^23]`, `bytes ∈ [0, 2139095040]` — all inside `opus_int32`
    (and `lacing + 1 ≤ 256`). -/
theorem lacing_ranges (d : Array Nat) (hb : ∀ (i x : Nat), d[i]? = some x → x < 256) (p : Nat) (len0 : Int)
    (hl : len0 ≤ 2147483647) :
    ∀ t ∈ lacingTrace d p len0 0 0,
      -255 ≤ t.1 ∧ t.1 ≤ len0 ∧ 1 ≤ t.2.2 ∧ t.2.2 ≤ 8388608 ∧ t.2.1 ≤ 2139095040 ∧
      InI32 t.1 ∧ InI32 t.2.1 ∧ InI32 t.2.2 := by
  intro t ht
  have := lacingTrace_inv d hb len0 p len0 0 0 (by omega) (by omega) t ht
  unfold InI32
  omega

/-! ### The iterator fields -/

/-- The numeric part of `Box`. -/
def BoxN (it : Iter) : Prop :=
  0 ≤ it.len ∧ it.nbFrames ≤ 48 ∧ -1 ≤ it.currLen ∧ it.currLen ≤ it.len ∧ (it.currData : Int) ≤ it.len ∧
  (0 ≤ it.currLen → (it.currData : Int) + it.currLen ≤ it.len) ∧ it.repeatData ≤ it.currData ∧
  0 ≤ it.repeatLen ∧ it.repeatLen ≤ it.len ∧ 0 ≤ it.srcLen ∧ it.srcLen ≤ it.repeatLen ∧
  0 ≤ it.tsl ∧ it.tsl ≤ it.currData ∧ it.repeatFrame ≤ 48 ∧
  ((0 < it.currLen ∨ 0 < it.repeatFrame) → it.currFrame ≤ 47) ∧ it.currFrame ≤ 302

/-- Box bounds on the iterator state: `0 ≤ len`, `nb_frames ≤ 48`, `-1 ≤ curr_len ≤ len`,
    `curr_data - data ≤ len` (and `+ curr_len ≤ len` when `curr_len ≥ 0`), `repeat_data ≤ curr_data`,
    `0 ≤ src_len ≤ repeat_len ≤ len`, `0 ≤ trailing_short_len ≤ curr_data - data`, `repeat_frame ≤ 48`,
    `curr_frame ≤ 47` while there is something left to read and `≤ 302` always. -/
structure Box (it : Iter) : Prop where
  bytes : ∀ (i x : Nat), it.data[i]? = some x → x < 256
  num : BoxN it

/-- Upper bound for the number of extensions the iterator can still return: every remaining byte can give
    one extension per frame; the bytes of the current repeat region can still be replayed for the later
    frames. -/
def phi (it : Iter) : Int :=
  (it.nbFrames : Int) * it.currLen +
    (if it.repeatFrame = 0 then ((it.nbFrames - 1 : Nat) : Int) * ((it.currData : Int) - it.repeatData)
     else if it.repeatFrame < it.nbFrames then
       it.srcLen + ((it.nbFrames - 1 - it.repeatFrame : Nat) : Int) * it.repeatLen
     else 0)

theorem repeatBody_box {it : Iter} (hB : Box it) (hcl : 0 ≤ it.currLen) (hsl : 0 < it.srcLen)
    (hrf : 0 < it.repeatFrame) (hlt : it.repeatFrame < it.nbFrames) :
    (∀ it1, repeatBody it = .ok (.cont it1) →
      Box it1 ∧ 0 ≤ it1.currLen ∧ it1.repeatFrame = it.repeatFrame ∧ it1.nbFrames = it.nbFrames ∧ phi it1 + 1 ≤ phi it) ∧
    (∀ it1 s, repeatBody it = .ok (.ret it1 s) →
      Box it1 ∧ it1.repeatFrame = it.repeatFrame ∧ it1.nbFrames = it.nbFrames ∧ phi it1 + 1 ≤ phi it) := by
  have hN := hB.num
  have hmono : ∀ cl : Int, cl ≤ it.currLen → (it.nbFrames : Int) * cl ≤ it.nbFrames * it.currLen :=
    fun cl h => Int.mul_le_mul_of_nonneg_left h (Int.natCast_nonneg _)
  have hne : ¬ it.repeatFrame = 0 := by omega
  unfold repeatBody
  split
  · simp
  · split
    · simp
    · rename_i hsk
      have h1 := skipExtension_spec hsk
      have h1' := h1.2.1 hsl
      simp only
      constructor
      · intro it1 h
        split at h
        · simp only [Res.ok.injEq, RFlow.cont.injEq] at h; subst h
          refine ⟨⟨hB.bytes, ?_⟩, hcl, rfl, rfl, ?_⟩
          · unfold BoxN at *; simp only; omega
          · unfold phi; simp only [hne, hlt, if_true, if_false]; omega
        · split at h
          · simp at h
          · rename_i hsp
            have h2 := skipPayload_spec hsp
            have h3 := hmono _ h2.1
            split at h
            · simp at h
            · split at h
              · simp only [Res.ok.injEq, RFlow.cont.injEq] at h; subst h
                refine ⟨⟨hB.bytes, ?_⟩, ?_, rfl, rfl, ?_⟩
                · unfold BoxN at *; simp only; omega
                · unfold BoxN at *; simp only; omega
                · unfold phi; simp only [hne, hlt, if_true, if_false]; omega
              · simp at h
          all_goals simp at h
      · intro it1 s h
        split at h
        · simp at h
        · split at h
          · simp only [Res.ok.injEq, RFlow.ret.injEq] at h; obtain ⟨rfl, _⟩ := h
            have h3 := hmono (-1) (by omega)
            refine ⟨⟨hB.bytes, ?_⟩, rfl, rfl, ?_⟩
            · unfold BoxN at *; simp only; omega
            · unfold phi; simp only [hne, hlt, if_true, if_false]; omega
          · rename_i hsp
            have h2 := skipPayload_spec hsp
            have h3 := hmono _ h2.1
            split at h
            · simp at h
            · split at h
              · simp at h
              · simp only [Res.ok.injEq, RFlow.ret.injEq] at h; obtain ⟨rfl, _⟩ := h
                refine ⟨⟨hB.bytes, ?_⟩, rfl, rfl, ?_⟩
                · unfold BoxN at *; simp only; omega
                · unfold phi; simp only [hne, hlt, if_true, if_false]; omega
          all_goals simp at h
    all_goals simp

theorem natmul_mono {a b : Nat} (h : a ≤ b) {R : Int} (hR : 0 ≤ R) : (a : Int) * R ≤ (b : Int) * R :=
  Int.mul_le_mul_of_nonneg_right (by omega) hR

theorem phi_nonneg {it : Iter} (hB : Box it) (hcl : 0 ≤ it.currLen) : 0 ≤ phi it := by
  have hN := hB.num
  unfold BoxN at hN
  have h1 : 0 ≤ (it.nbFrames : Int) * it.currLen := Int.mul_nonneg (Int.natCast_nonneg _) hcl
  have h2 : 0 ≤ ((it.nbFrames - 1 : Nat) : Int) * ((it.currData : Int) - it.repeatData) :=
    Int.mul_nonneg (Int.natCast_nonneg _) (by omega)
  have h3 : 0 ≤ ((it.nbFrames - 1 - it.repeatFrame : Nat) : Int) * it.repeatLen :=
    Int.mul_nonneg (Int.natCast_nonneg _) (by omega)
  unfold phi
  split
  · omega
  · split <;> omega

theorem repeatEnd_box {it : Iter} (hB : Box it) (hcl : 0 ≤ it.currLen) (hrf : 0 < it.repeatFrame)
    (hge : ¬ it.repeatFrame < it.nbFrames) :
    Box (repeatEnd it) ∧ (repeatEnd it).repeatFrame = 0 ∧ 0 ≤ (repeatEnd it).currLen ∧
    (repeatEnd it).nbFrames = it.nbFrames ∧ phi (repeatEnd it) ≤ phi it := by
  have hN := hB.num
  have hne : ¬ it.repeatFrame = 0 := by omega
  have h0 : (it.nbFrames : Int) * 0 ≤ it.nbFrames * it.currLen :=
    Int.mul_le_mul_of_nonneg_left hcl (Int.natCast_nonneg _)
  unfold repeatEnd
  simp only
  split
  · split
    · refine ⟨⟨hB.bytes, ?_⟩, by simp, by simp, by simp, ?_⟩
      · unfold BoxN at *; simp only; omega
      · unfold phi; simp only [hne, hge, if_true, if_false, Int.sub_self, Int.mul_zero] at h0 ⊢; omega
    · refine ⟨⟨hB.bytes, ?_⟩, by simp, by simpa using hcl, by simp, ?_⟩
      · unfold BoxN at *; simp only; omega
      · unfold phi; simp only [hne, hge, if_true, if_false, Int.sub_self, Int.mul_zero]; omega
  · refine ⟨⟨hB.bytes, ?_⟩, by simp, by simpa using hcl, by simp, ?_⟩
    · unfold BoxN at *; simp only; omega
    · unfold phi; simp only [hne, hge, if_true, if_false, Int.sub_self, Int.mul_zero]; omega

/-- What `repeatPhase` guarantees about the state it returns. -/
def PhaseOut (it it' : Iter) (s : Option Step) : Prop :=
  Box it' ∧ it'.nbFrames = it.nbFrames ∧ phi it' ≤ phi it ∧
  (∀ e, s = some (.ext e) → phi it' + 1 ≤ phi it ∧ 0 ≤ it'.currLen) ∧
  (s = none → it'.repeatFrame = 0 ∧ 0 ≤ it'.currLen)

theorem repeatPhase_box (it : Iter) : Box it → 0 < it.repeatFrame → 0 ≤ it.currLen →
    ∀ it' s, repeatPhase it = .ok (it', s) → PhaseOut it it' s := by
  fun_induction repeatPhase it with
  | case1 it hrf hsl it1 hb ih =>
    intro hB h0 hcl it' s h
    obtain ⟨b1, b2, b3, b4, b5⟩ := (repeatBody_box hB hcl hsl h0 hrf).1 _ hb
    obtain ⟨c1, c2, c3, c4, c5⟩ := ih b1 (by omega) b2 _ _ h
    refine ⟨c1, by omega, by omega, fun e he => ?_, c5⟩
    have := c4 e he; omega
  | case2 it hrf hsl it1 s1 hb =>
    intro hB h0 hcl it' s h
    simp only [Res.ok.injEq, Prod.mk.injEq] at h; obtain ⟨rfl, rfl⟩ := h
    obtain ⟨b1, b3, b4, b5⟩ := (repeatBody_box hB hcl hsl h0 hrf).2 _ _ hb
    refine ⟨b1, b4, by omega, fun e he => ⟨b5, ?_⟩, fun h => by cases h⟩
    -- an extension was returned: `curr_len` is not negative
    simp only [Option.some.injEq] at he; subst he
    unfold repeatBody at hb
    split at hb
    · simp at hb
    · split at hb
      · simp at hb
      · simp only at hb
        split at hb
        · simp at hb
        · split at hb
          · simp at hb
          · rename_i hsp
            have h2 := skipPayload_spec hsp
            have hN := hB.num; unfold BoxN at hN
            split at hb
            · simp at hb
            · split at hb
              · simp at hb
              · simp only [Res.ok.injEq, RFlow.ret.injEq] at hb; obtain ⟨rfl, _⟩ := hb
                simp only; omega
          all_goals simp at hb
      all_goals simp at hb
  | case3 => intro _ _ _ _ _ h; simp at h
  | case4 => intro _ _ _ _ _ h; simp at h
  | case5 => intro _ _ _ _ _ h; simp at h
  | case6 it hrf hsl ih =>
    intro hB h0 hcl it' s h
    have hN := hB.num
    have hB2 : Box { it with srcData := it.repeatData, srcLen := it.repeatLen, repeatFrame := it.repeatFrame + 1 } := by
      refine ⟨hB.bytes, ?_⟩
      unfold BoxN at *; simp only; omega
    obtain ⟨c1, c2, c3, c4, c5⟩ := ih hB2 (by simp) hcl _ _ h
    have hphi : phi { it with srcData := it.repeatData, srcLen := it.repeatLen, repeatFrame := it.repeatFrame + 1 } ≤ phi it := by
      unfold BoxN at hN
      have hne : ¬ it.repeatFrame = 0 := by omega
      have hne1 : ¬ it.repeatFrame + 1 = 0 := by omega
      unfold phi
      simp only [hne, hne1, hrf, if_true, if_false]
      split
      · have hk : it.nbFrames - 1 - it.repeatFrame = (it.nbFrames - 1 - (it.repeatFrame + 1)) + 1 := by omega
        rw [hk]
        push_cast
        rw [Int.add_mul, Int.one_mul]
        omega
      · have : 0 ≤ ((it.nbFrames - 1 - it.repeatFrame : Nat) : Int) * it.repeatLen :=
          Int.mul_nonneg (Int.natCast_nonneg _) (by omega)
        omega
    refine ⟨c1, by simpa using c2, by omega, fun e he => ?_, c5⟩
    have := c4 e he; omega
  | case7 it hrf =>
    intro hB h0 hcl it' s h
    simp only [Res.ok.injEq, Prod.mk.injEq] at h; obtain ⟨rfl, rfl⟩ := h
    obtain ⟨r1, r2, r3, r4, r5⟩ := repeatEnd_box hB hcl h0 hrf
    exact ⟨r1, r4, r5, (fun e he => by cases he), fun _ => ⟨r2, r3⟩⟩

/-- Consuming `k ≥ 1` bytes in the main loop lowers the potential by `k`. -/
theorem phi_main_step (N : Nat) (hN : 1 ≤ N) (cl cl' : Int) (cd cd' rd : Nat) (h1 : (cd' : Int) + cl' = cd + cl) :
    (N : Int) * cl' + ((N - 1 : Nat) : Int) * ((cd' : Int) - rd) + (cl - cl') =
      N * cl + ((N - 1 : Nat) : Int) * ((cd : Int) - rd) := by
  obtain ⟨M, rfl⟩ : ∃ M, N = M + 1 := ⟨N - 1, by omega⟩
  have e1 : cl' = cl - (cl - cl') := by omega
  have e2 : (cd' : Int) - rd = ((cd : Int) - rd) + (cl - cl') := by omega
  generalize cl - cl' = k at e1 e2
  rw [e2, e1]
  simp only [Nat.add_sub_cancel]
  push_cast
  rw [Int.mul_sub, Int.mul_add, Int.add_mul, Int.add_mul]
  omega

/-- What one pass through the body of the main loop guarantees. -/
theorem mainBody_box {it : Iter} (hB : Box it) (hrf : it.repeatFrame = 0) (hcl : 0 < it.currLen) (hN1 : 1 ≤ it.nbFrames) :
    (∀ it1, mainBody it = .ok (.cont it1) →
      Box it1 ∧ it1.repeatFrame = 0 ∧ it1.nbFrames = it.nbFrames ∧ phi it1 ≤ phi it) ∧
    (∀ it1, mainBody it = .ok (.rep it1) →
      Box it1 ∧ 0 < it1.repeatFrame ∧ 0 ≤ it1.currLen ∧ it1.nbFrames = it.nbFrames ∧ phi it1 ≤ phi it) ∧
    (∀ it1 s, mainBody it = .ok (.ret it1 s) →
      Box it1 ∧ it1.repeatFrame = 0 ∧ it1.nbFrames = it.nbFrames ∧ phi it1 ≤ phi it ∧
      (∀ e, s = .ext e → phi it1 + 1 ≤ phi it ∧ 0 ≤ it1.currLen)) := by
  have hN := hB.num
  have hreg : 0 ≤ ((it.nbFrames - 1 : Nat) : Int) * ((it.currData : Int) - it.repeatData) := by
    unfold BoxN at hN
    exact Int.mul_nonneg (Int.natCast_nonneg _) (by omega)
  have hmono : ∀ cl : Int, cl ≤ it.currLen → (it.nbFrames : Int) * cl ≤ it.nbFrames * it.currLen :=
    fun cl h => Int.mul_le_mul_of_nonneg_left h (Int.natCast_nonneg _)
  unfold mainBody
  split
  · simp
  · rename_i b0 hb0
    have hb256 := hB.bytes _ _ hb0
    split
    · -- invalid
      simp only
      refine ⟨by simp, by simp, ?_⟩
      intro it1 s h
      simp only [Res.ok.injEq, MFlow.ret.injEq] at h; obtain ⟨rfl, rfl⟩ := h
      have := hmono (-1) (by omega)
      refine ⟨⟨hB.bytes, ?_⟩, hrf, rfl, ?_, fun e he => by cases he⟩
      · unfold BoxN at *; simp only; omega
      · unfold phi; simp only [hrf, if_true]; omega
    · rename_i cp cl hs hsk
      have h1 := skipExtension_spec hsk
      have h1' := h1.2.1 hcl
      have hstep := phi_main_step it.nbFrames hN1 it.currLen cl it.currData cp it.repeatData h1.2.2.1
      have hm := hmono cl (by omega)
      have hm0 := hmono 0 (by omega)
      have hm1 := hmono (-1) (by omega)
      have hm2 : 0 ≤ (it.nbFrames : Int) * cl := Int.mul_nonneg (Int.natCast_nonneg _) h1.1
      have hinc : (it.data[it.currData + 1]?).getD 0 < 256 := by
        cases hg : it.data[it.currData + 1]? with
        | none => simp
        | some x => have := hB.bytes _ _ hg; simpa using this
      have hl2 : b0 % 2 < 2 := Nat.mod_lt _ (by omega)
      have hR : (0 : Int) ≤ (it.currData : Int) - it.repeatData := by unfold BoxN at hN; omega
      simp only
      refine ⟨?_, ?_, ?_⟩
      · intro it1 h
        repeat' (split at h)
        all_goals (simp only [Res.ok.injEq, MFlow.cont.injEq, reduceCtorEq] at h)
        all_goals (subst h; refine ⟨⟨hB.bytes, ?_⟩, hrf, rfl, ?_⟩)
        all_goals first
          | (unfold BoxN at *; simp only; (repeat' split) <;> omega)
          | (unfold phi; simp only [hrf, if_true, Int.sub_self, Int.mul_zero]; (repeat' split) <;> omega)
      · intro it1 h
        repeat' (split at h)
        all_goals (simp only [Res.ok.injEq, MFlow.rep.injEq, reduceCtorEq] at h)
        all_goals (subst h; refine ⟨⟨hB.bytes, ?_⟩, by simp, by simp; omega, rfl, ?_⟩)
        · unfold BoxN at *; simp only; omega
        · unfold phi
          have hne : ¬ it.currFrame + 1 = 0 := by omega
          simp only [hrf, hne, if_true, if_false]
          split
          · have := natmul_mono (show (it.nbFrames - 1 - (it.currFrame + 1)) + 1 ≤ it.nbFrames - 1 by omega) hR
            push_cast at this
            rw [Int.add_mul, Int.one_mul] at this
            omega
          · omega
      · intro it1 s h
        repeat' (split at h)
        all_goals (simp only [Res.ok.injEq, MFlow.ret.injEq, reduceCtorEq] at h)
        all_goals (obtain ⟨rfl, rfl⟩ := h)
        all_goals (try split)
        all_goals (refine ⟨⟨hB.bytes, ?_⟩, hrf, rfl, ?_, fun e he => ?_⟩)
        all_goals first
          | (unfold BoxN at *; simp only; (repeat' split) <;> omega)
          | (unfold phi; simp only [hrf, if_true]; omega)
          | (cases he)
          | (refine ⟨?_, by simp only; omega⟩; unfold phi; simp only [hrf, if_true]; omega)
    all_goals simp

/-- What a call of `next` (or its main loop) guarantees about the state it returns. -/
def NextOut (it it' : Iter) (s : Step) : Prop :=
  Box it' ∧ it'.nbFrames = it.nbFrames ∧ phi it' ≤ phi it ∧ (∀ e, s = .ext e → phi it' + 1 ≤ phi it ∧ 0 ≤ it'.currLen)

theorem mainLoop_box (it : Iter) : Box it → it.repeatFrame = 0 → 1 ≤ it.nbFrames →
    ∀ it' s, mainLoop it = .ok (it', s) → NextOut it it' s := by
  fun_induction mainLoop it with
  | case1 it hl it1 hb ih =>
    intro hB hrf hN it' s h
    obtain ⟨b1, b2, b3, b4⟩ := (mainBody_box hB hrf hl hN).1 _ hb
    obtain ⟨c1, c2, c3, c4⟩ := ih b1 b2 (by omega) _ _ h
    exact ⟨c1, by omega, by omega, fun e he => by have := c4 e he; omega⟩
  | case2 it hl it1 s hb =>
    intro hB hrf hN it' s' h
    simp only [Res.ok.injEq, Prod.mk.injEq] at h; obtain ⟨rfl, rfl⟩ := h
    obtain ⟨b1, b2, b3, b4, b5⟩ := (mainBody_box hB hrf hl hN).2.2 _ _ hb
    exact ⟨b1, b3, b4, b5⟩
  | case3 it hl it2 hb it3 s hrp =>
    intro hB hrf hN it' s' h
    simp only [Res.ok.injEq, Prod.mk.injEq] at h; obtain ⟨rfl, rfl⟩ := h
    obtain ⟨b1, b2, b3, b4, b5⟩ := (mainBody_box hB hrf hl hN).2.1 _ hb
    obtain ⟨c1, c2, c3, c4, c5⟩ := repeatPhase_box it2 b1 b2 b3 _ _ hrp
    refine ⟨c1, by omega, by omega, fun e he => ?_⟩
    have := c4 e (by rw [he]); omega
  | case4 it hl it2 hb it3 hrp hfm =>
    intro hB hrf hN it' s' h
    simp only [Res.ok.injEq, Prod.mk.injEq] at h; obtain ⟨rfl, rfl⟩ := h
    obtain ⟨b1, b2, b3, b4, b5⟩ := (mainBody_box hB hrf hl hN).2.1 _ hb
    obtain ⟨c1, c2, c3, c4, c5⟩ := repeatPhase_box it2 b1 b2 b3 _ _ hrp
    exact ⟨c1, by omega, by omega, fun e he => by cases he⟩
  | case5 it hl it2 hb it3 hrp hfm ih =>
    intro hB hrf hN it' s' h
    obtain ⟨b1, b2, b3, b4, b5⟩ := (mainBody_box hB hrf hl hN).2.1 _ hb
    obtain ⟨c1, c2, c3, c4, c5⟩ := repeatPhase_box it2 b1 b2 b3 _ _ hrp
    obtain ⟨d1, d2, d3, d4⟩ := ih c1 (c5 rfl).1 (by omega) _ _ h
    exact ⟨d1, by omega, by omega, fun e he => by have := d4 e he; omega⟩
  | case6 => intro _ _ _ _ _ h; simp at h
  | case7 => intro _ _ _ _ _ h; simp at h
  | case8 => intro _ _ _ _ _ h; simp at h
  | case9 => intro _ _ _ _ _ h; simp at h
  | case10 => intro _ _ _ _ _ h; simp at h
  | case11 => intro _ _ _ _ _ h; simp at h
  | case12 it hl =>
    intro hB hrf hN it' s' h
    simp only [Res.ok.injEq, Prod.mk.injEq] at h; obtain ⟨rfl, rfl⟩ := h
    exact ⟨hB, rfl, Int.le_refl _, fun e he => by cases he⟩

theorem next_box {it : Iter} (hB : Box it) (hN : 1 ≤ it.nbFrames) {it' : Iter} {s : Step}
    (h : next it = .ok (it', s)) : NextOut it it' s := by
  unfold next at h
  split at h
  · simp only [Res.ok.injEq, Prod.mk.injEq] at h; obtain ⟨rfl, rfl⟩ := h
    exact ⟨hB, rfl, Int.le_refl _, fun e he => by cases he⟩
  · rename_i hcl
    split at h
    · rename_i hrf
      split at h
      · rename_i it1 s1 hrp
        simp only [Res.ok.injEq, Prod.mk.injEq] at h; obtain ⟨rfl, rfl⟩ := h
        obtain ⟨c1, c2, c3, c4, c5⟩ := repeatPhase_box it hB hrf (by omega) _ _ hrp
        exact ⟨c1, c2, c3, fun e he => c4 e (by rw [he])⟩
      · rename_i it1 hrp
        obtain ⟨c1, c2, c3, c4, c5⟩ := repeatPhase_box it hB hrf (by omega) _ _ hrp
        split at h
        · simp only [Res.ok.injEq, Prod.mk.injEq] at h; obtain ⟨rfl, rfl⟩ := h
          exact ⟨c1, c2, c3, fun e he => by cases he⟩
        · obtain ⟨d1, d2, d3, d4⟩ := mainLoop_box it1 c1 (c5 rfl).1 (by omega) _ _ h
          exact ⟨d1, by omega, by omega, fun e he => by have := d4 e he; omega⟩
      all_goals simp at h
    · rename_i hrf
      split at h
      · simp only [Res.ok.injEq, Prod.mk.injEq] at h; obtain ⟨rfl, rfl⟩ := h
        exact ⟨hB, rfl, Int.le_refl _, fun e he => by cases he⟩
      · exact mainLoop_box it hB (by omega) hN _ _ h

/-! ### Reachable states -/

theorem iterInit_box {d : Bytes} {len nbFrames : Int} {it : Iter} (hb : BytesOk d)
    (h : iterInit d len nbFrames = .ok it) : Box it ∧ it.len = len ∧ 0 ≤ it.currLen ∧ phi it = it.nbFrames * len := by
  unfold iterInit at h
  split at h
  · cases h
  · split at h
    · cases h
    · simp only [Res.ok.injEq] at h; subst h
      refine ⟨⟨?_, ?_⟩, rfl, by simp only; omega, ?_⟩
      · intro i x hx
        simp only [List.getElem?_toArray] at hx
        exact hb x (List.mem_of_mem_take (List.mem_of_getElem? hx))
      · unfold BoxN; simp only; omega
      · unfold phi; simp

theorem iterReset_box {it : Iter} (hB : Box it) : Box (iterReset it) := by
  have := hB.num
  refine ⟨hB.bytes, ?_⟩
  unfold BoxN iterReset at *; simp only; omega

theorem iterSetFrameMax_box {it : Iter} (hB : Box it) (k : Int) : Box (iterSetFrameMax it k) := ⟨hB.bytes, hB.num⟩

/-- Every state a caller can reach satisfies the box bounds. -/
theorem Reach.box {d : Bytes} {nbFrames : Nat} (hb : BytesOk d) {it : Iter} (h : Reach d nbFrames it) : Box it := by
  induction h with
  | init h => exact (iterInit_box hb h).1
  | @next it it' s hr hn ih =>
    by_cases hN : 1 ≤ it.nbFrames
    · exact (next_box ih hN hn).1
    · -- no frames: `next` returns at once
      have hI := (hr.inv hb).1
      have hf := hI.fmax (by omega)
      have h0 : it.nbFrames = 0 := by omega
      unfold Ext.next at hn
      split at hn
      · simp only [Res.ok.injEq, Prod.mk.injEq] at hn; obtain ⟨rfl, _⟩ := hn; exact ih
      · split at hn
        · rename_i hcl hrf
          -- the repeat block ends at once
          rw [repeatPhase] at hn
          have : ¬ it.repeatFrame < it.nbFrames := by omega
          simp only [this, if_false] at hn
          obtain ⟨r1, _⟩ := repeatEnd_box ih (by omega) hrf this
          split at hn
          · simp only [Res.ok.injEq, Prod.mk.injEq] at hn; obtain ⟨rfl, _⟩ := hn; exact r1
          · exfalso
            rename_i hfm
            apply hfm
            have : (repeatEnd it).frameMax = it.frameMax := by unfold repeatEnd; simp only; split <;> (try split) <;> rfl
            rw [this]; omega
        · split at hn
          · simp only [Res.ok.injEq, Prod.mk.injEq] at hn; obtain ⟨rfl, _⟩ := hn; exact ih
          · rename_i hfm; exfalso; apply hfm; omega
  | reset _ ih => exact iterReset_box ih
  | setFrameMax k _ _ ih => exact iterSetFrameMax_box ih k

/-- **Iterator fields, `opus_int32`.**  In every state a caller can reach on `len < 2^31` bytes of padding, every
    integer field of `OpusExtensionIterator` and every pointer difference the code computes
    (`curr_data - data`, `curr_data0 - repeat_data`) is inside `opus_int32`; the frame counters are at most 302
    (`curr_frame` after a rejected separator: `47 + 255`). -/
theorem Reach.ranges {d : Bytes} {nbFrames : Nat} (hb : BytesOk d) (hl : (d.length : Int) ≤ 2147483647) {it : Iter}
    (h : Reach d nbFrames it) :
    InI32 it.len ∧ InI32 it.currLen ∧ InI32 it.repeatLen ∧ InI32 it.srcLen ∧ InI32 it.tsl ∧
    InI32 it.currData ∧ InI32 ((it.currData : Int) - it.repeatData) ∧ 0 ≤ (it.currData : Int) - it.repeatData ∧
    it.nbFrames ≤ 48 ∧ it.repeatFrame ≤ 48 ∧ it.currFrame ≤ 302 := by
  have hB := (h.box hb).num
  have hlen := (h.inv hb).2.1
  unfold BoxN at hB
  unfold InI32
  omega

/-! ### The number of extensions -/

theorem iterAll_length_le (it : Iter) : Box it → 1 ≤ it.nbFrames → 0 ≤ it.currLen →
    ∀ l s, iterAll it = .ok (l, s) → (l.length : Int) ≤ phi it := by
  fun_induction iterAll it with
  | case1 it it' e h l s hrec ih =>
    intro hB hN hcl l0 s0 heq
    simp only [Res.ok.injEq, Prod.mk.injEq] at heq
    obtain ⟨rfl, rfl⟩ := heq
    obtain ⟨b1, b2, b3, b4⟩ := next_box hB hN h
    obtain ⟨b5, b6⟩ := b4 e rfl
    have := ih b1 (by omega) b6 _ _ hrec
    simp only [List.length_cons]; push_cast; omega
  | case2 => intro _ _ _ _ _ h; simp at h
  | case3 => intro _ _ _ _ _ h; simp at h
  | case4 => intro _ _ _ _ _ h; simp at h
  | case5 =>
    intro hB hN hcl l0 s0 heq
    simp only [Res.ok.injEq, Prod.mk.injEq] at heq
    obtain ⟨rfl, rfl⟩ := heq
    simpa using phi_nonneg hB hcl
  | case6 => intro _ _ _ _ _ h; simp at h
  | case7 => intro _ _ _ _ _ h; simp at h
  | case8 => intro _ _ _ _ _ h; simp at h

/-- **Number of extensions.**  Iterating over `len` bytes of padding of a packet with `nb_frames` frames returns
    at most `nb_frames · len` extensions (each byte at most once per frame: directly, or replayed by
    "repeat these extensions").  This is what `count`, `count_ext`, `parse` and `parse_ext` count in an `int`. -/
theorem iterAll_count_le (d : Bytes) (hb : BytesOk d) (nbF : Nat) {it : Iter} {l : List ExtRef} {s : Step}
    (hinit : iterInit d d.length nbF = .ok it) (hall : iterAll it = .ok (l, s)) :
    (l.length : Int) ≤ nbF * d.length := by
  obtain ⟨hB, hlen, hcl, hphi⟩ := iterInit_box hb hinit
  obtain ⟨hI, _, hnb, _⟩ := iterInit_inv hb (Int.le_refl _) hinit
  have hnb' : it.nbFrames = nbF := by omega
  by_cases hN : 1 ≤ it.nbFrames
  · have := iterAll_length_le it hB hN hcl _ _ hall
    rw [hphi, hnb'] at this
    exact this
  · obtain ⟨l', s', h1, _, h3⟩ := iterAll_inv it hI
    rw [hall] at h1; cases h1
    cases l with
    | nil => simp only [List.length_nil, Int.natCast_zero]; exact Int.mul_nonneg (Int.natCast_nonneg _) (Int.natCast_nonneg _)
    | cons e _ =>
      have := (h3 e (List.mem_cons_self ..)).2.2.1
      omega

/-! ### The generator -/

/-- **`write_extension_payload`, long ID** (extensions.c:423-442): with `n = ext->len`, `0 ≤ n ≤ 2139095039`
    (`= 255·2^23 − 1`), `length_bytes = 1 + n/255` and the sum `length_bytes + n` of the buffer check are inside
    `opus_int32`; at `n = 2139095040` the sum is `2^31 + 1`: an extension payload of 2 139 095 040 bytes or more
    makes the check itself overflow.  (Below that the check is exact, so it fails for every `len < 2^31` that is
    too small: the total size is never formed as a sum.) -/
theorem gen_long_ranges (n : Int) (h0 : 0 ≤ n) (h1 : n ≤ 2139095039) :
    InI32 (n / 255) ∧ InI32 (1 + n / 255) ∧ InI32 (1 + n / 255 + n) ∧ 0 ≤ n % 255 ∧ n % 255 < 255 := by
  unfold InI32; omega

theorem gen_long_tight : ¬ InI32 (1 + (2139095040 : Int) / 255 + 2139095040) := by
  unfold InI32; omega

/-- **Position arithmetic** (every `len-pos < k` check followed by `k` writes, the final `padding = len - pos`):
    with `0 ≤ pos ≤ len ≤ INT32_MAX` and a request `k ≥ 0` computed without overflow, `len - pos` is in range, and when
    the check passes the new position `pos + k` is again `≤ len`.  So `pos` — the return value — never exceeds `len`. -/
theorem gen_pos_ranges (len pos k : Int) (hl : len ≤ 2147483647) (hp : 0 ≤ pos) (hpl : pos ≤ len) (hk : 0 ≤ k)
    (hpass : ¬ (len - pos < k)) :
    InI32 (len - pos) ∧ 0 ≤ len - pos ∧ InI32 (pos + k) ∧ 0 ≤ pos + k ∧ pos + k ≤ len ∧ InI32 (pos + (len - pos)) := by
  unfold InI32; omega

/-- **The ID byte** `(ext->id<<1) + (ext->id < 32 ? ext->len : !last)` (extensions.c:450): for a valid ID and an
    admissible length it is a byte value; for an inadmissible short length (rejected two lines later) the `int` sum
    is still exact unless `ext->len > INT32_MAX − 2·id` (`id ≤ 31`, so at least `2147483586`). -/
theorem gen_idbyte_ranges (id l : Int) (h3 : 3 ≤ id) (h127 : id ≤ 127) :
    (0 ≤ l → l ≤ 1 → 0 ≤ 2 * id + l ∧ 2 * id + l ≤ 255) ∧
    (id ≤ 31 → InI32 l → l ≤ 2147483585 → InI32 (2 * id + l)) := by
  unfold InI32; omega

/-! ### `opus_extension_iterator_find` -/

theorem find_eq (it : Iter) (id : Int) : find it id =
    match next it with
    | .ok (it', .ext e) => if (e.id : Int) = id then .ok (it', .ext e) else find it' id
    | .ok (it', s) => .ok (it', s)
    | .err e => .err e
    | .oob => .oob
    | .abort => .abort := by
  rw [find]; split <;> simp [*]

/-- `find` in terms of plain iteration: with `l` the extensions `next` would return from this state on and `s` the
    final return value, `find` returns the FIRST entry of `l` with the requested ID, leaving the iterator where
    plain iteration would continue (`post`); with no such entry it returns what iteration ends with (`0` or
    `OPUS_INVALID_PACKET`).  `P` is any property of states preserved by `next` (e.g. reachability). -/
theorem find_iterAll (P : Iter → Prop) (hP : ∀ it it' s, P it → next it = .ok (it', s) → P it') (id : Int) (it : Iter) :
    ∀ l s, iterAll it = .ok (l, s) → P it →
    (∀ pre e post, l = pre ++ e :: post → (∀ x ∈ pre, (x.id : Int) ≠ id) → (e.id : Int) = id →
      ∃ it', find it id = .ok (it', .ext e) ∧ P it' ∧ iterAll it' = .ok (post, s)) ∧
    ((∀ x ∈ l, (x.id : Int) ≠ id) → ∃ it', find it id = .ok (it', s) ∧ P it') := by
  fun_induction iterAll it with
  | case1 it it' e h l s hrec ih =>
    intro l0 s0 heq hp
    simp only [Res.ok.injEq, Prod.mk.injEq] at heq
    obtain ⟨rfl, rfl⟩ := heq
    have hp' := hP _ _ _ hp h
    obtain ⟨ih1, ih2⟩ := ih _ _ hrec hp'
    constructor
    · intro pre e0 post hl hpre he0
      rw [find_eq, h]
      simp only
      cases pre with
      | nil =>
        simp only [List.nil_append, List.cons.injEq] at hl
        obtain ⟨rfl, rfl⟩ := hl
        simp only [he0, if_true]
        exact ⟨it', rfl, hp', hrec⟩
      | cons x pre' =>
        simp only [List.cons_append, List.cons.injEq] at hl
        obtain ⟨rfl, rfl⟩ := hl
        have hx := hpre e (List.mem_cons_self ..)
        simp only [hx, if_false]
        exact ih1 pre' e0 post rfl (fun y hy => hpre y (List.mem_cons_of_mem _ hy)) he0
    · intro hall
      rw [find_eq, h]
      simp only
      have hx := hall e (List.mem_cons_self ..)
      simp only [hx, if_false]
      exact ih2 (fun y hy => hall y (List.mem_cons_of_mem _ hy))
  | case2 => intro _ _ h; simp at h
  | case3 => intro _ _ h; simp at h
  | case4 => intro _ _ h; simp at h
  | case5 it it' s hne h =>
    intro l0 s0 heq hp
    simp only [Res.ok.injEq, Prod.mk.injEq] at heq
    obtain ⟨rfl, rfl⟩ := heq
    constructor
    · intro pre e post hl; cases pre <;> simp at hl
    · intro _
      refine ⟨it', ?_, hP _ _ _ hp h⟩
      rw [find_eq, h]
      cases s with
      | ext e => exact (hne e rfl).elim
      | done => rfl
      | invalid => rfl
  | case6 => intro _ _ h; simp at h
  | case7 => intro _ _ h; simp at h
  | case8 => intro _ _ h; simp at h

end Opus.ExtProofs
