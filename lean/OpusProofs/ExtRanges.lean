import OpusProofs.ExtCount
/-
  C16 helper lemmas: `opus_int32` ranges of the arithmetic of src/extensions.c (reader side).  The model
  computes with unbounded `Int`/`Nat`; these lemmas show that for a padding length below 2^31 every value
  the C code stores in an `opus_int32`/`int` stays inside that type:
    * the lacing loop of `skip_extension_payload` (`bytes`, `header_size`, `len`),
    * every field of `OpusExtensionIterator` in every state `next` can produce (`Box`),
    * the number of extensions an iteration returns (`count`, `nb_extensions`): at most `nb_frames * len`.
-/
namespace Opus.ExtProofs
open Opus Opus.Ext

/-- `x` is representable as `opus_int32`. -/
def InI32 (x : Int) : Prop := -2147483648 ≤ x ∧ x ≤ 2147483647

/-! ### The lacing loop -/

/-- The values `(len, bytes, header_size)` after each execution of the body of
    `do { … lacing = *data++; bytes += lacing; header_size++; len -= lacing + 1; } while (lacing == 255)`
    (extensions.c:70-77), same recursion as `lacing`. -/
def lacingTrace (d : Array Nat) (p : Nat) (len : Int) (bytes hs : Nat) : List (Int × Nat × Nat) :=
  if len < 1 then []
  else match d[p]? with
    | none => []
    | some l =>
      (len - (l + 1), bytes + l, hs + 1) ::
        (if l = 255 then lacingTrace d (p + 1) (len - 256) (bytes + 255) (hs + 1) else [])
termination_by len.toNat
decreasing_by omega

/-- The trace is the trace of `lacing`: what `lacing` returns is its last entry. -/
theorem lacing_mem_trace (d : Array Nat) (p : Nat) (len : Int) (bytes hs : Nat) :
    ∀ {p' : Nat} {len' : Int} {bytes' hs' : Nat},
    lacing d p len bytes hs = .ok (some (p', len', bytes', hs')) →
    (len', bytes', hs') ∈ lacingTrace d p len bytes hs := by
  fun_induction lacing d p len bytes hs with
  | case1 => intro _ _ _ _ h; simp at h
  | case2 => intro _ _ _ _ h; simp at h
  | case3 p len bytes hs hlt hsome ih =>
    intro _ _ _ _ h
    rw [lacingTrace]
    simp only [hlt, if_false, hsome, if_true]
    exact List.mem_cons_of_mem _ (ih h)
  | case4 p len bytes hs hlt l hsome hne =>
    intro _ _ _ _ h
    rw [lacingTrace]
    simp only [hlt, if_false, hsome, hne]
    simp only [Res.ok.injEq, Option.some.injEq, Prod.mk.injEq] at h
    obtain ⟨_, rfl, rfl, rfl⟩ := h
    exact List.mem_cons_self ..

/-- Loop invariant `bytes = 255·header_size`, `len = len0 − 256·header_size` at the loop head gives, after
    every pass: `header_size ≥ 1`, `256·(header_size−1) + 1 ≤ len0`, `bytes ≤ 255·header_size`,
    `−255 ≤ len ≤ len0`. -/
theorem lacingTrace_inv (d : Array Nat) (hb : ∀ (i x : Nat), d[i]? = some x → x < 256) (len0 : Int)
    (p : Nat) (len : Int) (bytes hs : Nat) :
    len + 256 * hs = len0 → bytes = 255 * hs →
    ∀ t ∈ lacingTrace d p len bytes hs,
      -255 ≤ t.1 ∧ t.1 ≤ len0 ∧ 1 ≤ t.2.2 ∧ 256 * ((t.2.2 : Int) - 1) + 1 ≤ len0 ∧ t.2.1 ≤ 255 * t.2.2 := by
  fun_induction lacingTrace d p len bytes hs with
  | case1 => intro _ _ t ht; simp at ht
  | case2 => intro _ _ t ht; simp at ht
  | case3 p len bytes hs hlt l hsome ih =>
    intro h1 h2 t ht
    have hl := hb _ _ hsome
    rcases List.mem_cons.mp ht with rfl | ht
    · simp only; omega
    · split at ht
      · exact ih (by assumption) (by omega) (by omega) t ht
      · simp at ht

/-- **Lacing loop, `opus_int32`.**  Called with `0 ≤ len < 2^31`: after every pass through the loop body
    `len ∈ [−255, len0]`, `header_size ∈ [1, 2^23]`, `bytes ∈ [0, 2139095040]` — all inside `opus_int32`
    (and `lacing + 1 ≤ 256`). -/
theorem lacing_ranges (d : Array Nat) (hb : ∀ (i x : Nat), d[i]? = some x → x < 256) (p : Nat) (len0 : Int)
    (hl : len0 ≤ 2147483647) :
    ∀ t ∈ lacingTrace d p len0 0 0,
      -255 ≤ t.1 ∧ t.1 ≤ len0 ∧ 1 ≤ t.2.2 ∧ t.2.2 ≤ 8388608 ∧ t.2.1 ≤ 2139095040 ∧
      InI32 t.1 ∧ InI32 t.2.1 ∧ InI32 t.2.2 := by
  intro t ht
  have := lacingTrace_inv d hb len0 p len0 0 0 (by omega) (by omega) t ht
  unfold InI32
  omega

/-! ### The iterator fields -/

/-- Box bounds on the iterator state (no reference to the byte contents beyond `< 256`). -/
structure Box (it : Iter) : Prop where
  bytes : ∀ (i x : Nat), it.data[i]? = some x → x < 256
  len0 : 0 ≤ it.len
  nf : it.nbFrames ≤ 48
  cl_lo : -1 ≤ it.currLen
  cl_hi : it.currLen ≤ it.len
  cd : (it.currData : Int) ≤ it.len
  cdl : 0 ≤ it.currLen → (it.currData : Int) + it.currLen ≤ it.len
  rd : it.repeatData ≤ it.currData
  rl_lo : 0 ≤ it.repeatLen
  rl_hi : it.repeatLen ≤ it.len
  sl_lo : 0 ≤ it.srcLen
  sl_hi : it.srcLen ≤ it.repeatLen
  tsl_lo : 0 ≤ it.tsl
  tsl_hi : it.tsl ≤ it.currData
  rf : it.repeatFrame ≤ 48
  cf1 : (0 < it.currLen ∨ 0 < it.repeatFrame) → it.currFrame ≤ 47
  cf2 : it.currFrame ≤ 302

end Opus.ExtProofs
