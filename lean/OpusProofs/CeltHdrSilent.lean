import OpusProofs.CeltHdrMain
/-
  OpusProofs.CeltHdrSilent — the silent frame.  The encoder writes the silence flag `1` (and, in VBR, shrinks the
  packet), then sets `nbits_total` so that `ec_tell` equals the whole budget; the decoder does the same after reading
  the flag.  From then on every budget test of the header fails on both sides: nothing more is written or read and
  all header fields take their defaults.
-/
namespace OpusProofs.CeltHdr
open Opus Opus.RangeCoder Opus.CeltSymsEnc

/-- the coder pretends that the packet is full: `ec_tell == total_bits == storage*8` -/
structure Full (c : Ctx) (tot : Int) : Prop where
  tell_eq : tell c = tot
  frac : tot * 8 - 7 ≤ (tellFrac c : Int)
  stor : ((c.storage * 8 : Nat) : Int) = tot

theorem full_of_bump (c : Ctx) (tv : Int) (hr : RngOk c) (h9 : 9 ≤ tv) (hhi : tv ≤ 10200)
    (hst : ((c.storage * 8 : Nat) : Int) = tv) :
    Full { c with nbitsTotal := ((c.nbitsTotal : Int) + (tv - tell c)).toNat } tv := by
  have il := ilog_range hr.1 hr.2
  have hn : ((c.nbitsTotal : Int) + (tv - tell c)).toNat = ilog c.rng + tv.toNat := by unfold tell; omega
  rw [hn]
  have ht : tell { c with nbitsTotal := ilog c.rng + tv.toNat } = tv := by
    unfold tell; simp only; omega
  have hb := tellFrac_bounds { c with nbitsTotal := ilog c.rng + tv.toNat } hr (by simp only; omega) (by simp only; omega)
  rw [ht] at hb
  exact ⟨ht, by omega, hst⟩

/-- coarse energy of a silent frame: `-1` everywhere (`budget - tell < 1`) -/
def silentCoarse (C : Nat) : Nat → List Int
  | 0 => []
  | k + 1 => List.replicate C (-1) ++ silentCoarse C k

/-! ### Encoder side -/

theorem sil_pf (cfg : EncCfg) (tot : Int) (s : St) : encPostFilter cfg tot tot s = ({}, s) := by
  unfold encPostFilter
  have hc : ¬ (cfg.start = 0 ∧ tot + 16 ≤ tot) := by intro h; have := h.2; omega
  simp only [hc, if_false]

theorem sil_transient (cfg : EncCfg) (tot : Int) (s : St) (h : tell s.e = tot) : encTransient cfg tot s = (0, s) := by
  unfold encTransient
  have hc : ¬ (cfg.LM > 0 ∧ tell s.e + 3 ≤ tot) := by intro h; have := h.2; omega
  simp only [hc, if_false]

theorem sil_intra (tot : Int) (s : St) (h : tell s.e = tot) : encIntra tot s = (0, s) := by
  unfold encIntra
  have hc : ¬ (tell s.e + 3 ≤ tot) := by omega
  simp only [hc, if_false]

theorem sil_coarseOne (cfg : EncCfg) (prob : List Nat) (tot : Int) (i : Nat) (s : St) (h : tell s.e = tot) :
    encCoarseOne cfg prob tot i s = .ok (-1, -1, s) := by
  have hc : ¬ (tot - tell s.e ≥ 1) := by omega
  simp only [encCoarseOne, hc, if_false]

theorem sil_coarseChans (cfg : EncCfg) (prob : List Nat) (tot : Int) (i : Nat) (s : St) (h : tell s.e = tot) :
    ∀ n, encCoarseChans cfg prob tot i n s = .ok (List.replicate n (-1), List.replicate n (-1), s) := by
  intro n
  induction n with
  | zero => rfl
  | succ n ih => simp only [encCoarseChans, sil_coarseOne cfg prob tot i s h, ih, List.replicate_succ]

theorem sil_coarseBands (cfg : EncCfg) (prob : List Nat) (tot : Int) (s : St) (h : tell s.e = tot) :
    ∀ k i, encCoarseBands cfg prob tot k i s = .ok (silentCoarse cfg.C k, silentCoarse cfg.C k, s) := by
  intro k
  induction k with
  | zero => intro i; rfl
  | succ k ih => intro i; simp only [encCoarseBands, sil_coarseChans cfg prob tot i s h, ih, silentCoarse]

theorem sil_coarse (cfg : EncCfg) (tot : Int) (s : St) (h : tell s.e = tot) :
    encCoarse cfg tot s = .ok (0, silentCoarse cfg.C (cfg.end_ - cfg.start), silentCoarse cfg.C (cfg.end_ - cfg.start), s) := by
  unfold encCoarse
  rw [sil_intra tot s h]
  simp only [sil_coarseBands cfg _ tot s h]

theorem sil_tfLoop (isT : Bool) (budget : Int) (s : St) (h : budget ≤ tell s.e) :
    ∀ k logp curr changed, 1 ≤ logp → encTfLoop isT budget k logp curr changed s = (List.replicate k curr, changed, s) := by
  intro k
  induction k with
  | zero => intro _ _ _ _; rfl
  | succ k ih =>
    intro logp curr changed hl
    have hc : ¬ (tell s.e + (logp : Int) ≤ budget) := by omega
    have := ih (if isT = true then 4 else 5) curr changed (by split <;> omega)
    simp only [encTfLoop, hc, if_false, this, List.replicate_succ]

theorem sil_tf (cfg : EncCfg) (s : St) (tot : Int) (h : Full s.e tot) :
    encTf cfg 0 s = ((List.replicate (cfg.end_ - cfg.start) 0).map (fun r => tfTable cfg.LM (4 * 0 + r)), 0,
      List.replicate (cfg.end_ - cfg.start) 0, s) := by
  have hr : encTfRsv cfg 0 s = 0 := by
    unfold encTfRsv
    have hc : ¬ (cfg.LM > 0 ∧ tell s.e + ((if (0 : Nat) ≠ 0 then 2 else 4 : Nat) : Int) + 1 ≤ ((s.e.storage * 8 : Nat) : Int)) := by
      intro hh; have := hh.2; rw [h.stor, h.tell_eq] at this
      have : (0 : Int) ≤ ((if (0 : Nat) ≠ 0 then 2 else 4 : Nat) : Int) := Int.natCast_nonneg _
      omega
    simp only [hc, if_false]
  unfold encTf
  rw [hr, sil_tfLoop _ _ s (by rw [h.stor, h.tell_eq]; simp) _ _ _ _ (by decide)]
  unfold encTfFinish
  simp

theorem sil_spread (tot : Int) (s : St) (h : tell s.e = tot) : encSpread tot s = (2, s) := by
  unfold encSpread
  have hc : ¬ (tell s.e + 4 ≤ tot) := by omega
  simp only [hc, if_false]

theorem sil_boost (cap quanta logp tb : Nat) (totF : Int) (s : St) (hl : 1 ≤ logp) (h : totF - 7 ≤ (tellFrac s.e : Int)) :
    encBoostLoop cap quanta logp 0 tb totF s = (0, tb, s) := by
  rw [encBoostLoop]
  have hc : ¬ ((tellFrac s.e : Int) + logp * 8 < totF - tb ∧ 0 < cap ∧ 0 < quanta) := by
    intro hh; have := hh.1; omega
  rw [dif_neg hc]

theorem sil_dynalloc (cfg : EncCfg) (totF : Int) (s : St) (h : totF - 7 ≤ (tellFrac s.e : Int)) :
    ∀ k i dlogp tb, 1 ≤ dlogp → encDynalloc cfg totF k i dlogp tb s = (List.replicate k 0, tb, s) := by
  intro k
  induction k with
  | zero => intro _ _ _ _; rfl
  | succ k ih =>
    intro i dlogp tb hl
    simp only [encDynalloc, sil_boost _ _ dlogp tb totF s hl h, Nat.lt_irrefl, gt_iff_lt, if_false, ih (i + 1) dlogp tb hl,
      List.replicate_succ]

theorem sil_trim (totF : Int) (s : St) (h : totF - 7 ≤ (tellFrac s.e : Int)) : encTrim totF 0 s = (5, s) := by
  unfold encTrim
  have hc : ¬ ((tellFrac s.e : Int) + 48 ≤ totF - ((0 : Nat) : Int)) := by omega
  simp only [hc, if_false]

/-! ### Decoder side -/

theorem dsil_pf (start : Nat) (tot : Int) (c : Dec) : Opus.CeltSyms.readPostFilter start tot tot c = ({}, tot, c, []) := by
  unfold Opus.CeltSyms.readPostFilter
  have hc : ¬ (start = 0 ∧ tot + 16 ≤ tot) := by intro h; have := h.2; omega
  simp only [hc, if_false]

theorem dsil_transient (LM : Nat) (tot : Int) (c : Dec) : Opus.CeltSyms.readTransient LM tot tot c = (0, tot, c, []) := by
  unfold Opus.CeltSyms.readTransient
  have hc : ¬ (LM > 0 ∧ tot + 3 ≤ tot) := by intro h; have := h.2; omega
  simp only [hc, if_false]

theorem dsil_intra (tot : Int) (c : Dec) : Opus.CeltSyms.readIntra tot tot c = (0, c, []) := by
  unfold Opus.CeltSyms.readIntra
  have hc : ¬ (tot + 3 ≤ tot) := by omega
  simp only [hc, if_false]

theorem dsil_coarseOne (prob : List Nat) (i : Nat) (c : Dec) (tot : Int) (h : Full c tot) :
    Opus.CeltSyms.coarseOne prob i c = .ok (-1, c, []) := by
  unfold Opus.CeltSyms.coarseOne
  rw [h.stor, h.tell_eq]
  have h15 : ¬ (tot - tot ≥ 15) := by omega
  have h2 : ¬ (tot - tot ≥ 2) := by omega
  have h1 : ¬ (tot - tot ≥ 1) := by omega
  simp only [h15, h2, h1, if_false]

theorem dsil_coarseChans (prob : List Nat) (i : Nat) (c : Dec) (tot : Int) (h : Full c tot) :
    ∀ n, Opus.CeltSyms.coarseChans prob i n c = .ok (List.replicate n (-1), c, []) := by
  intro n
  induction n with
  | zero => rfl
  | succ n ih => simp only [Opus.CeltSyms.coarseChans, dsil_coarseOne prob i c tot h, ih, List.replicate_succ, List.append_nil]

theorem dsil_coarseBands (prob : List Nat) (C : Nat) (c : Dec) (tot : Int) (h : Full c tot) :
    ∀ k i, Opus.CeltSyms.coarseBands prob C k i c = .ok (silentCoarse C k, c, []) := by
  intro k
  induction k with
  | zero => intro i; rfl
  | succ k ih =>
    intro i
    simp only [Opus.CeltSyms.coarseBands, dsil_coarseChans prob i c tot h, ih, silentCoarse, List.append_nil]

theorem dsil_tfLoop (isT : Bool) (budget : Int) (c : Dec) (tv : Int) (h : budget ≤ tv) :
    ∀ k logp curr changed, 1 ≤ logp →
      Opus.CeltSyms.tfLoop isT budget k logp curr changed tv c = (List.replicate k curr, changed, c, []) := by
  intro k
  induction k with
  | zero => intro _ _ _ _; rfl
  | succ k ih =>
    intro logp curr changed hl
    have hc : ¬ (tv + (logp : Int) ≤ budget) := by omega
    have := ih (if isT = true then 4 else 5) curr changed (by split <;> omega)
    simp only [Opus.CeltSyms.tfLoop, hc, if_false, this, List.replicate_succ]

theorem dsil_tf (cfg : EncCfg) (c : Dec) (tot : Int) (h : Full c tot) :
    Opus.CeltSyms.tfDecode (cfgD cfg) 0 c =
      ((List.replicate (cfg.end_ - cfg.start) 0).map (fun r => tfTable cfg.LM (4 * 0 + r)), 0, c, []) := by
  have hr : Opus.CeltSyms.tfRsv (cfgD cfg) 0 c = 0 := by
    unfold Opus.CeltSyms.tfRsv
    have hc : ¬ (cfg.LM > 0 ∧ tell c + ((if (0 : Nat) ≠ 0 then 2 else 4 : Nat) : Int) + 1 ≤ ((c.storage * 8 : Nat) : Int)) := by
      intro hh; have := hh.2; rw [h.stor, h.tell_eq] at this
      have : (0 : Int) ≤ ((if (0 : Nat) ≠ 0 then 2 else 4 : Nat) : Int) := Int.natCast_nonneg _
      omega
    simp only [hc, if_false]
  unfold Opus.CeltSyms.tfDecode
  rw [hr, dsil_tfLoop _ _ c (tell c) (by rw [h.stor, h.tell_eq]; simp) _ _ _ _ (by decide)]
  unfold Opus.CeltSyms.tfFinish
  simp
  exact Or.inr rfl

theorem dsil_spread (tot : Int) (c : Dec) (h : tell c = tot) : Opus.CeltSyms.readSpread tot c = (2, c, []) := by
  unfold Opus.CeltSyms.readSpread
  have hc : ¬ (tell c + 4 ≤ tot) := by omega
  simp only [hc, if_false]

theorem dsil_boost (cap quanta logp : Nat) (totF : Int) (c : Dec) (hl : 1 ≤ logp) (h : totF - 7 ≤ (tellFrac c : Int)) :
    Opus.CeltSyms.boostLoop cap quanta logp 0 totF c = (0, totF, c, []) := by
  rw [Opus.CeltSyms.boostLoop]
  have hc : ¬ ((tellFrac c : Int) + logp * 8 < totF ∧ 0 < cap ∧ 0 < quanta) := by
    intro hh; have := hh.1; omega
  rw [dif_neg hc]

theorem dsil_dynalloc (cfg : EncCfg) (totF : Int) (c : Dec) (h : totF - 7 ≤ (tellFrac c : Int)) :
    ∀ k i dlogp, 1 ≤ dlogp →
      Opus.CeltSyms.dynalloc (cfgD cfg) k i dlogp totF c = (List.replicate k 0, totF, c, []) := by
  intro k
  induction k with
  | zero => intro _ _ _; rfl
  | succ k ih =>
    intro i dlogp hl
    simp only [Opus.CeltSyms.dynalloc, dsil_boost _ _ dlogp totF c hl h, Nat.lt_irrefl, gt_iff_lt, if_false, ih (i + 1) dlogp hl,
      List.replicate_succ, List.append_nil]

theorem dsil_trim (totF : Int) (c : Dec) (h : totF - 7 ≤ (tellFrac c : Int)) : Opus.CeltSyms.readTrim totF c = (5, c, []) := by
  unfold Opus.CeltSyms.readTrim
  have hc : ¬ ((tellFrac c : Int) + 48 ≤ totF) := by omega
  simp only [hc, if_false]

/-! ### Assembly -/

theorem sil_tail_facts (cfg : EncCfg) (sil size1 : Nat) (pf : PfOut) (opsPf : List Op) (intra : Nat)
    (qs qds : List Int) (s4 : St) (hdr : EncHdr) (h : Full s4.e ((size1 * 8 : Nat) : Int))
    (hrun : encTail cfg sil size1 pf opsPf 0 intra qs qds s4 = .ok hdr) :
    hdr.tfRes = (List.replicate (cfg.end_ - cfg.start) 0).map (fun r => tfTable cfg.LM (4 * 0 + r)) ∧ hdr.tfSelect = 0 ∧
    hdr.spread = 2 ∧ hdr.offsets = List.replicate (cfg.end_ - cfg.start) 0 ∧ hdr.trim = 5 ∧ hdr.totalBoost = 0 ∧
    hdr.opsHdr = (encVbrShrink cfg size1 s4).2.ops := by
  unfold encTail at hrun
  simp only [sil_tf cfg s4 _ h, sil_spread _ s4 h.tell_eq,
    sil_dynalloc cfg (((size1 * 8 : Nat) : Int) * 8) s4 h.frac (cfg.end_ - cfg.start) cfg.start 6 0 (by decide),
    sil_trim (((size1 * 8 : Nat) : Int) * 8) s4 h.frac] at hrun
  generalize hVB : encVbrShrink cfg size1 s4 = VB at hrun ⊢
  split at hrun
  · injection hrun with hrun
    subst hrun
    exact ⟨rfl, rfl, rfl, rfl, rfl, rfl, rfl⟩
  · cases hrun
  · cases hrun
  · cases hrun

/-- the silence branch of `encSilence` -/
theorem encSilence_one (cfg : EncCfg) (s : St) (h : (encSilence cfg s).1 ≠ 0) :
    tell s.e = 1 ∧
    encSilence cfg s = (1, (silenceShrink cfg (tell s.e) (s.pop.2.emit (.bitLogp 1 15))).1,
      (((silenceShrink cfg (tell s.e) (s.pop.2.emit (.bitLogp 1 15))).1 * 8 : Nat) : Int),
      bumpTell (((silenceShrink cfg (tell s.e) (s.pop.2.emit (.bitLogp 1 15))).1 * 8 : Nat) : Int)
        (silenceShrink cfg (tell s.e) (s.pop.2.emit (.bitLogp 1 15))).2) := by
  unfold encSilence at h ⊢
  by_cases h1 : tell s.e = 1
  · rw [if_pos h1] at h ⊢
    by_cases hv : s.pop.1 ≠ 0
    · rw [if_pos hv]; exact ⟨h1, rfl⟩
    · rw [if_neg hv] at h; exact absurd rfl h
  · rw [if_neg h1] at h; exact absurd rfl h

/-- what `silenceShrink` does to a state that has just received the silence flag (`tell0 = 1`) -/
theorem silenceShrink_facts {w : World} {P0 : List Op} (cfg : EncCfg) (s : St) (d : Dec) (h : Here w P0 s d)
    (hst : s.e.storage = cfg.size) (h2 : 2 ≤ cfg.size)
    (hp : w.IsPrefix (P0 ++ (silenceShrink cfg 1 s).2.ops)) :
    Here w P0 (silenceShrink cfg 1 s).2 d ∧ (silenceShrink cfg 1 s).2.e.storage = (silenceShrink cfg 1 s).1 ∧
    2 ≤ (silenceShrink cfg 1 s).1 ∧ (silenceShrink cfg 1 s).1 ≤ cfg.size ∧
    (∃ tl, (silenceShrink cfg 1 s).2.ops = s.ops ++ tl ∧ ∀ op ∈ tl, ∃ n, op = Op.shrink n) := by
  unfold silenceShrink at hp ⊢
  by_cases hv : cfg.vbr = true
  · simp only [hv, if_true] at hp ⊢
    have hm : min cfg.size ((((1 : Int) + 4) / 8).toNat + 2) = 2 := by
      have : (((1 : Int) + 4) / 8).toNat = 0 := by decide
      rw [this]; omega
    rw [hm] at hp ⊢
    refine ⟨(h.emit _ hp).2, rfl, by omega, h2, [.shrink 2], rfl, ?_⟩
    intro op hop; simp at hop; exact ⟨2, hop⟩
  · simp only [hv] at hp ⊢
    exact ⟨h, hst, h2, Nat.le_refl _, [], by simp, by simp⟩

/-- What holds between the encoder's and the decoder's header of a silent frame. -/
structure SilentAgree (cfg : EncCfg) (hdr : EncHdr) (dh : Opus.CeltSyms.CeltHdr) : Prop where
  silenceE : hdr.silence = 1
  silenceD : dh.silence = 1
  pfE : hdr.pf = {}
  pfD : dh.pf = {}
  transientE : hdr.isTransient = 0
  transientD : dh.isTransient = 0
  intraE : hdr.intra = 0
  intraD : dh.intra = 0
  coarseE : hdr.coarse = silentCoarse cfg.C (cfg.end_ - cfg.start)
  coarseDecE : hdr.coarseDec = silentCoarse cfg.C (cfg.end_ - cfg.start)
  coarseD : dh.coarse = silentCoarse cfg.C (cfg.end_ - cfg.start)
  tfResE : hdr.tfRes = (List.replicate (cfg.end_ - cfg.start) 0).map (fun r => tfTable cfg.LM (4 * 0 + r))
  tfResD : dh.tfRes = hdr.tfRes
  tfSelectE : hdr.tfSelect = 0
  tfSelectD : dh.tfSelect = 0
  spreadE : hdr.spread = 2
  spreadD : dh.spread = 2
  offsetsE : hdr.offsets = List.replicate (cfg.end_ - cfg.start) 0
  offsetsD : dh.offsets = hdr.offsets
  trimE : hdr.trim = 5
  trimD : dh.trim = 5
  /-- the only symbol of the header is the silence flag; the other calls are `ec_enc_shrink` -/
  written : ∃ tl, hdr.opsHdr = Op.bitLogp 1 15 :: tl ∧ ∀ op ∈ tl, ∃ n, op = Op.shrink n

/-- **The silent frame.** -/
theorem silent_roundtrip (w : World) (P0 : List Op) (cfg : EncCfg) (s0 : St) (hs0 : s0.ops = [])
    (he0 : s0.e = w.encAt P0) (hst0 : s0.e.storage = cfg.size)
    (hdr : EncHdr) (hrun : encHeader cfg s0 = .ok hdr) (hsil : hdr.silence ≠ 0)
    (hp : w.IsPrefix (P0 ++ hdr.ops)) (hsz2 : 2 ≤ cfg.size) (hsz : cfg.size ≤ 1275) (hlen2 : 2 ≤ w.len) (hlen : w.len ≤ 1275) :
    ∃ dh, Opus.CeltSyms.celtHeader (cfgD cfg) w.len (w.decAt P0) = .ok dh ∧ SilentAgree cfg hdr dh := by
  unfold encHeader at hrun
  simp only [] at hrun
  have hH0 : Here w P0 s0 (w.decAt P0) := ⟨by rw [hs0, List.append_nil]; exact he0, by rw [hs0, List.append_nil]⟩
  -- the silence branch
  have hs1 : (encSilence cfg s0).1 ≠ 0 := by
    intro h0
    cases hC : encCoarse cfg (((encSilence cfg s0).2.1 * 8 : Nat) : Int)
        (encTransient cfg (((encSilence cfg s0).2.1 * 8 : Nat) : Int)
          (encPostFilter cfg (((encSilence cfg s0).2.1 * 8 : Nat) : Int) (encSilence cfg s0).2.2.1 (encSilence cfg s0).2.2.2).2).2 with
    | ok v =>
      obtain ⟨intra, qs, qds, s4⟩ := v
      rw [hC] at hrun
      simp only [] at hrun
      have := (encTail_facts _ _ _ _ _ _ _ _ _ _ _ hrun).1
      rw [h0] at this
      exact hsil this
    | err e => rw [hC] at hrun; cases hrun
    | oob => rw [hC] at hrun; cases hrun
    | abort => rw [hC] at hrun; cases hrun
  obtain ⟨ht1, hS⟩ := encSilence_one cfg s0 hs1
  rw [ht1] at hS
  generalize hs01 : s0.pop.2.emit (.bitLogp 1 15) = s01 at hS
  generalize hSS : silenceShrink cfg 1 s01 = SS at hS
  rw [hS] at hrun
  simp only [] at hrun
  generalize htot : ((SS.1 * 8 : Nat) : Int) = tot at hrun
  rw [sil_pf] at hrun
  simp only [] at hrun
  have hbt : tell (bumpTell tot SS.2).e = tot → encTransient cfg tot (bumpTell tot SS.2) = (0, bumpTell tot SS.2) :=
    sil_transient cfg tot _
  -- the states are in lock-step up to the bump
  have hops4 : (bumpTell tot SS.2).ops = SS.2.ops := rfl
  cases hC : encCoarse cfg tot (encTransient cfg tot (bumpTell tot SS.2)).2 with
  | ok v =>
    obtain ⟨intra, qs, qds, s4⟩ := v
    rw [hC] at hrun
    simp only [] at hrun
    obtain ⟨k1, k2, k3, k4, k5, k6, k7, ⟨δ1, k8⟩, ⟨δ2, k9⟩, k10⟩ := encTail_facts _ _ _ _ _ _ _ _ _ _ _ hrun
    -- prefixes
    have pH : w.IsPrefix (P0 ++ hdr.opsHdr) := by
      rw [k9, ← List.append_assoc] at hp; exact World.isPrefix_of_append hp
    have p4 : w.IsPrefix (P0 ++ s4.ops) := by
      rw [k8, ← List.append_assoc] at pH; exact World.isPrefix_of_append pH
    -- before knowing `Full`, `s4` is only known through `encCoarse`; get `Full` first
    have hx01 : Ext s0 s01 := by rw [← hs01]; exact (Ext.pop s0).trans (Ext.emit _ _ (by exact True.intro))
    -- s4 = bumped state: needs Full, which needs the prefix of SS.2.ops; obtain it from the extension property of encCoarse
    have hx4 := encCoarse_ext cfg tot _ intra qs qds s4 hC
    have hxT := encTransient_ext cfg tot (bumpTell tot SS.2)
    have pSS : w.IsPrefix (P0 ++ SS.2.ops) := by
      have := prefix_of_ext (hxT.trans hx4) p4
      rw [hops4] at this; exact this
    have hss := silenceShrink_facts (w := w) (P0 := P0) cfg s01 (decBitLogp (w.decAt P0) 15).2
      (by
        have p01 : w.IsPrefix (P0 ++ s01.ops) := by
          have := silenceShrink_facts (w := w) (P0 := P0) cfg s01
          -- the ops of SS.2 extend those of s01
          unfold silenceShrink at hSS
          by_cases hv : cfg.vbr = true
          · simp only [hv, if_true] at hSS
            rw [← hSS] at pSS
            simp only [emit_ops] at pSS
            rw [← List.append_assoc] at pSS
            exact World.isPrefix_of_append pSS
          · simp only [hv] at hSS
            rw [← hSS] at pSS; exact pSS
        rw [← hs01] at p01 ⊢
        exact (hH0.pop.emit_bit 1 15 (by omega) p01).2)
      (by rw [← hs01]; show (encOp s0.e (.bitLogp 1 15)).storage = cfg.size
          rw [encOp_storage _ _ (by exact True.intro)]; exact hst0)
      hsz2 (by rw [hSS]; exact pSS)
    rw [hSS] at hss
    obtain ⟨g1, g2, g3, g4, tl, g5, g6⟩ := hss
    obtain ⟨gt, _, gst, grng⟩ := g1.tells pSS
    have htot9 : 9 ≤ tot ∧ tot ≤ 10200 := by rw [← htot]; omega
    have hfull : Full (bumpTell tot SS.2).e tot :=
      full_of_bump SS.2.e tot grng htot9.1 htot9.2 (by rw [g2, htot])
    rw [sil_transient cfg tot _ hfull.tell_eq] at hC hrun
    simp only [] at hC hrun
    rw [sil_coarse cfg tot _ hfull.tell_eq] at hC
    injection hC with hC
    injection hC with c1 hC; injection hC with c2 hC; injection hC with c3 c4
    subst c1 c2 c3 c4
    subst htot
    obtain ⟨m1, m2, m3, m4, m5, m6, m7⟩ := sil_tail_facts cfg _ _ _ _ _ _ _ _ hdr hfull hrun
    -- the decoder
    have hd1 : (decBitLogp (w.decAt P0) 15).1 = 1 := by
      have p01 : w.IsPrefix (P0 ++ s01.ops) := by
        rw [g5, ← List.append_assoc] at pSS; exact World.isPrefix_of_append pSS
      rw [← hs01] at p01
      exact (hH0.pop.emit_bit 1 15 (by omega) p01).1
    obtain ⟨t0, _, _, _⟩ := hH0.tells (by rw [hs0, List.append_nil]; exact World.isPrefix_of_append (prefix_of_ext hx01 (by
      rw [g5, ← List.append_assoc] at pSS; exact World.isPrefix_of_append pSS)))
    have hrngD : RngOk (decBitLogp (w.decAt P0) 15).2 := by
      have := w.sync_rng _ pSS
      rw [← g1.dec, ← g1.enc] at this
      unfold RngOk; rw [this]; exact grng
    have htotD : (9 : Int) ≤ ((w.len * 8 : Nat) : Int) ∧ ((w.len * 8 : Nat) : Int) ≤ 10200 := by omega
    have hfullD := full_of_bump (decBitLogp (w.decAt P0) 15).2 ((w.len * 8 : Nat) : Int) hrngD htotD.1 htotD.2 (by rw [gst])
    generalize hc2 : ({ (decBitLogp (w.decAt P0) 15).2 with
        nbitsTotal := (((decBitLogp (w.decAt P0) 15).2.nbitsTotal : Int) +
          (((w.len * 8 : Nat) : Int) - tell (decBitLogp (w.decAt P0) 15).2)).toNat } : Dec) = c2 at hfullD
    have hflags : Opus.CeltSyms.readFlags (cfgD cfg) ((w.len * 8 : Nat) : Int) (w.decAt P0) =
        ((1, {}, 0, 0), c2, [.bit 15 1]) := by
      have hn : ¬ (tell (w.decAt P0) ≥ ((w.len * 8 : Nat) : Int)) := by rw [t0, ht1]; omega
      have hrs : Opus.CeltSyms.readSilence ((w.len * 8 : Nat) : Int) (w.decAt P0) =
          (1, (decBitLogp (w.decAt P0) 15).2, [.bit 15 1]) := by
        unfold Opus.CeltSyms.readSilence
        rw [if_neg hn, if_pos (by rw [t0, ht1])]
        show ((decBitLogp (w.decAt P0) 15).1, (decBitLogp (w.decAt P0) 15).2, [Opus.CeltSyms.CEv.bit 15 (decBitLogp (w.decAt P0) 15).1]) = _
        rw [hd1]
      unfold Opus.CeltSyms.readFlags
      rw [hrs]
      simp only [Opus.CeltSyms.applySilence, ne_eq, Nat.succ_ne_zero, not_false_eq_true, if_true, hc2,
        dsil_pf, dsil_transient, dsil_intra, List.append_nil]
    have hfr : (((w.len * 8 : Nat) : Int) * 8) = ((w.len * 8 * 8 : Nat) : Int) := by omega
    refine ⟨Opus.CeltSyms.readTail (cfgD cfg) w.len (1, {}, 0, 0) (silentCoarse cfg.C (cfg.end_ - cfg.start))
      ([.bit 15 1] ++ []) c2, ?_, ?_⟩
    · unfold Opus.CeltSyms.celtHeader
      rw [hflags]
      simp only [Opus.CeltSyms.coarseEnergy]
      rw [dsil_coarseBands _ _ c2 _ hfullD]
    · have hD := hfullD
      have hfracD : ((w.len * 8 * 8 : Nat) : Int) - 7 ≤ (tellFrac c2 : Int) := by have := hD.frac; omega
      unfold Opus.CeltSyms.readTail
      simp only [dsil_tf cfg c2 _ hD, dsil_spread _ c2 hD.tell_eq, dsil_dynalloc cfg _ c2 hfracD _ _ _ (by decide : 1 ≤ 6),
        dsil_trim _ c2 hfracD]
      exact
        { silenceE := by rw [k1], silenceD := rfl, pfE := by rw [k2], pfD := rfl, transientE := by rw [k4, sil_transient cfg _ _ hfull.tell_eq], transientD := rfl
          intraE := by rw [k5], intraD := rfl, coarseE := k6, coarseDecE := k7, coarseD := rfl
          tfResE := m1, tfResD := by rw [m1], tfSelectE := m2, tfSelectD := rfl, spreadE := m3, spreadD := rfl
          offsetsE := m4, offsetsD := by rw [m4], trimE := m5, trimD := rfl
          written := by
            rw [m7]
            obtain ⟨v1, v2⟩ := encVbrShrink_ext0 cfg SS.1 (bumpTell ((SS.1 * 8 : Nat) : Int) SS.2)
            have hops : (bumpTell ((SS.1 * 8 : Nat) : Int) SS.2).ops = Op.bitLogp 1 15 :: tl := by
              show SS.2.ops = _
              rw [g5, ← hs01, emit_ops, pop_ops, hs0]; rfl
            unfold encVbrShrink
            by_cases hv : cfg.vbr = true
            · simp only [hv, if_true, emit_ops, pop_ops, hops]
              refine ⟨tl ++ [_], rfl, ?_⟩
              intro op hop
              rcases List.mem_append.mp hop with hop | hop
              · exact g6 op hop
              · simp at hop; exact ⟨_, hop⟩
            · have hvf : cfg.vbr = false := by simpa using hv
              simp only [hvf, Bool.false_eq_true, if_false, hops]
              exact ⟨tl, rfl, g6⟩ }
  | err e => rw [hC] at hrun; cases hrun
  | oob => rw [hC] at hrun; cases hrun
  | abort => rw [hC] at hrun; cases hrun

end OpusProofs.CeltHdr
