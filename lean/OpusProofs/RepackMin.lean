import OpusProofs.RepackValid
/-
  C07 helper lemmas, part 4: the size the repacketizer uses is minimal among all valid packets
  holding the same frames, and at most 1277 bytes per frame.
-/
namespace Opus.RepackProofs
open Opus Opus.Framing Opus.FramingSpec Opus.FramingProofs Opus.Repack Opus.Ext

theorem flatMap_encLen_le (l : List Nat) : (l.flatMap encLen).length ≤ 2 * l.length := by
  induction l with
  | nil => simp
  | cons a as ih =>
    have := encLen_length_le a
    simp only [List.flatMap_cons, List.length_append, List.length_cons]; omega

theorem sumN_le (l : List Nat) (c : Nat) (h : ∀ x ∈ l, x ≤ c) : sumN l ≤ c * l.length := by
  induction l with
  | nil => simp
  | cons a as ih =>
    have h1 := h a (by simp)
    have := ih (fun x hx => h x (by simp [hx]))
    simp only [sumN_cons, List.length_cons, Nat.mul_add]; omega

/-- `1277` bytes per frame always suffice (standard framing). -/
theorem minSize_le_1277 (lens : List Nat) (hne : lens ≠ []) (h : ∀ x ∈ lens, x ≤ 1275) :
    minSize false lens ≤ 1277 * lens.length := by
  match lens, hne with
  | [l0], _ => have := h l0 (by simp); simp [minSize, sdSize]; omega
  | [l0, l1], _ =>
    have := h l0 (by simp); have := h l1 (by simp)
    simp [minSize, sdSize]; split
    · omega
    · split <;> omega
  | l0 :: l1 :: l2 :: ls, _ =>
    have hs := sumN_le _ 1275 h
    have hd := flatMap_encLen_le (l0 :: l1 :: l2 :: ls).dropLast
    have hdl : (l0 :: l1 :: l2 :: ls).dropLast.length = (l0 :: l1 :: l2 :: ls).length - 1 := List.length_dropLast
    rw [tot3_le_of_min false _ (by simp), tot3_eq _ (by simp)]
    simp only [sdSize, Bool.false_eq_true, if_false]
    split
    · simp only [List.length_cons] at *; push_cast; omega
    · simp only [List.length_cons, List.length_nil] at *; push_cast; omega

theorem allEq_isVbr (lens : List Nat) (h : allEq lens) : isVbr lens = false := by
  unfold isVbr
  apply List.any_eq_false.mpr
  intro x hx
  cases lens with
  | nil => cases hx
  | cons a as =>
    simp only [List.headD_cons]
    have := h x hx a (by simp)
    simp [this]

/-- No valid packet holding these frames is shorter than what the repacketizer emits. -/
theorem minSize_minimal (sd : Bool) (p : Packet) (hv : Valid p) :
    minSize sd p.lens ≤ ((serialize sd p).length : Int) := by
  obtain ⟨toc, frames, vbr, pad⟩ := p
  have h4 : toc % 4 < 4 := Nat.mod_lt _ (by decide)
  have hcases : toc % 4 = 0 ∨ toc % 4 = 1 ∨ toc % 4 = 2 ∨ toc % 4 = 3 := by omega
  rcases hcases with hc | hc | hc | hc
  · obtain ⟨hl, hvb, hp⟩ := hv.code0 hc
    simp only [] at hl hvb hp; subst hvb hp
    obtain ⟨f0, rfl⟩ := list_len1 frames hl
    rw [ser_code0 sd _ _ hc]
    simp [Packet.lens, minSize, sdSize_eq]
  · obtain ⟨hl, hvb, hp, hae⟩ := hv.code1 hc
    simp only [] at hl hvb hp hae; subst hvb hp
    obtain ⟨f0, f1, rfl⟩ := list_len2 frames hl
    have heq : f1.length = f0.length := hae _ (by simp [Packet.lens]) _ (by simp [Packet.lens])
    rw [ser_code1 sd _ _ _ hc]
    simp [Packet.lens, minSize, sdSize_eq, heq]; omega
  · obtain ⟨hl, hvb, hp⟩ := hv.code2 hc
    simp only [] at hl hvb hp; subst hvb hp
    obtain ⟨f0, f1, rfl⟩ := list_len2 frames hl
    rw [ser_code2 sd _ _ _ hc]
    have := encLen_length f0.length
    simp [Packet.lens, minSize, sdSize_eq]
    split <;> omega
  · obtain ⟨hl, _, hcbr⟩ := hv.code3 hc
    simp only [Packet.lens] at hl hcbr
    have hne : frames ≠ [] := by intro h; simp [h] at hl
    have hlne : frames.map List.length ≠ [] := by simpa using hne
    rw [ser_code3 sd _ _ _ _ hc hne]
    have hm := minSize_le_tot3 sd (frames.map List.length) hlne
    have ht := tot3_eq (frames.map List.length) hlne (sdSize sd ((frames.map List.length).getLastD 0))
    rw [sumN_map_length] at ht
    have hsd := sdSize_eq sd ((frames.map List.length).getLastD 0)
    have hvv : isVbr (frames.map List.length) = true → vbr = true := by
      intro h
      cases hvb : vbr with
      | true => rfl
      | false => rw [allEq_isVbr _ (hcbr hvb)] at h; cases h
    simp only [Packet.lens, List.length_append, List.length_cons, List.length_nil]
    push_cast
    have h1 := hm.1
    rw [ht] at h1
    cases hiv : isVbr (frames.map List.length) with
    | false => simp only [hiv, Bool.false_eq_true, if_false, List.length_nil] at h1; omega
    | true =>
      have := hvv hiv
      subst this
      simp only [hiv, if_true] at h1 ⊢
      omega

end Opus.RepackProofs
