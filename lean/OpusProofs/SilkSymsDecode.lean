import OpusProofs.SilkSymsIndices
import OpusProofs.SilkSymsPulses
import OpusProofs.FramingSafe
import OpusProofs.SilkSymsFrozenEq
/-
  C03: lifting of the per-call range lemmas to everything `silk_Decode` / `opus_decode_frame` /
  `opus_decode_native` emit, and totality of the packet-level model (no `.oob`, no `.abort`).
-/
namespace Opus.SilkSymsProofs
open Opus Opus.RangeCoder Opus.SilkSyms Opus.SilkSymsFrozen.Icdf

/-- What is guaranteed about each observable event of the symbol layer. -/
def EvOk : Ev → Prop
  | .flags ch vad lf lfs => ch ≤ 1 ∧ (∀ b ∈ vad, b ≤ 1) ∧ lf ≤ 1 ∧ lfs.length = 3 ∧ ∀ b ∈ lfs, b ≤ 1
  | .pred p => StereoOk p
  | .midOnly v => v ≤ 1
  | .indices _ _ _ cc rate nb ps pl ix => IndicesOk rate nb cc ps pl ix
  | .pulses _ _ fl p => PulsesOk fl p
  | .ret _ _ => True

def EvsOk (l : List Ev) : Prop := ∀ e ∈ l, EvOk e

theorem EvsOk_nil : EvsOk [] := fun _ h => by simp at h
theorem EvsOk_append {a b : List Ev} (ha : EvsOk a) (hb : EvsOk b) : EvsOk (a ++ b) := by
  intro e he
  simp only [List.mem_append] at he
  rcases he with h | h
  · exact ha e h
  · exact hb e h
theorem EvsOk_cons {e : Ev} {l : List Ev} (he : EvOk e) (hl : EvsOk l) : EvsOk (e :: l) := by
  intro x hx
  simp only [List.mem_cons] at hx
  rcases hx with rfl | h
  · exact he
  · exact hl x h

theorem decodeOneCore_ok (cfg : Cfg) (hnb : 1 ≤ cfg.nbSubfr) (n fi lb cc : Nat) (v : Bool) (ps : Nat) (pl : Int) (c : Dec)
    (evs : List Ev) (ix : Indices) (c' : Dec) (h : decodeOneCore cfg n fi lb cc v ps pl c = (evs, ix, c')) : EvsOk evs := by
  unfold decodeOneCore at h
  generalize hix : decodeIndices cfg.rate cfg.nbSubfr v cc ps pl c = y at h
  split at h
  rename_i _ ix0 c1
  have hi := decodeIndices_ok cfg.rate cfg.nbSubfr hnb v cc ps pl c ix0 c1 hix
  generalize hpu : decodePulses ix0.signalType ix0.quantOffsetType (frameLength cfg.rate cfg.nbSubfr) c1 = y at h
  split at h
  rename_i _ pu c2
  have hp := decodePulses_ok ix0.signalType ix0.quantOffsetType _ hi.sig c1 pu c2 hpu
  simp only [Prod.mk.injEq] at h
  obtain ⟨rfl, _, _⟩ := h
  exact EvsOk_cons hi (EvsOk_cons hp EvsOk_nil)

theorem decodeOne_ok (cfg : Cfg) (hnb : 1 ≤ cfg.nbSubfr) (n fi lb cc : Nat) (ch : Chan) (c : Dec)
    (evs : List Ev) (ch' : Chan) (c' : Dec) (h : decodeOne cfg n fi lb cc ch c = (evs, ch', c')) : EvsOk evs := by
  unfold decodeOne at h
  generalize hy : decodeOneCore cfg n fi lb cc (decide (lb ≠ 0 ∨ ch.vad.getD fi 0 ≠ 0))
    (if cc = 2 then ch.ecPrevSignalType else 0) (if cc = 2 ∧ ch.ecPrevSignalType = 2 then ch.ecPrevLagIndex else 0) c = y at h
  split at h
  rename_i _ evs0 ix c2
  have := decodeOneCore_ok cfg hnb _ _ _ _ _ _ _ c evs0 ix c2 hy
  simp only [Prod.mk.injEq] at h
  obtain ⟨rfl, _, _⟩ := h
  exact this

theorem skipStereoG_ok (P : Dec → StereoPred × Dec) (M : Dec → Nat × Dec)
    (hP : ∀ c p c', P c = (p, c') → StereoOk p) (hM : ∀ c, (M c).1 ≤ 1)
    (cfg : Cfg) (i n : Nat) (s : SkipSt) (hs : EvsOk s.evs) : EvsOk (skipStereoG P M cfg i n s).evs := by
  unfold skipStereoG
  split
  · generalize hp : P s.c = y
    split
    rename_i _ p c1
    have h1 := hP s.c p c1 hp
    split
    · have h2 := hM c1
      generalize M c1 = z at h2
      split
      rename_i _ m c2
      dsimp only at h2 ⊢
      exact EvsOk_append hs (EvsOk_cons h1 (EvsOk_cons h2 EvsOk_nil))
    · dsimp only
      exact EvsOk_append hs (EvsOk_cons h1 EvsOk_nil)
  · exact hs

theorem skipStereo_ok (cfg : Cfg) (i n : Nat) (s : SkipSt) (hs : EvsOk s.evs) :
    EvsOk (skipStereo cfg i n s).evs :=
  skipStereoG_ok _ _ stereoDecodePred_ok stereoDecodeMidOnly_le cfg i n s hs

theorem skipOne_ok (cfg : Cfg) (hnb : 1 ≤ cfg.nbSubfr) (i n : Nat) (s : SkipSt) (hs : EvsOk s.evs) :
    EvsOk (skipOne cfg i n s).evs := by
  unfold skipOne
  split
  · have h1 := skipStereo_ok cfg i n s hs
    generalize skipStereo cfg i n s = s1 at h1
    generalize hd : decodeOne cfg n i 1 (if i > 0 ∧ (s.st.ch n).lbrrFlags.getD (i - 1) 0 ≠ 0 then 2 else 0)
      (s1.st.ch n) s1.c = y
    split
    rename_i _ evs ch' c1
    dsimp only
    exact EvsOk_append h1 (decodeOne_ok cfg hnb _ _ _ _ _ _ evs ch' c1 hd)
  · exact hs

theorem skipChans_ok (cfg : Cfg) (hnb : 1 ≤ cfg.nbSubfr) (i : Nat) : ∀ (ns : List Nat) (s : SkipSt),
    EvsOk s.evs → EvsOk (skipChans cfg i ns s).evs
  | [], s, hs => by unfold skipChans; exact hs
  | n :: ns, s, hs => by
    unfold skipChans
    exact skipChans_ok cfg hnb i ns _ (skipOne_ok cfg hnb i n s hs)

theorem skipFrames_ok (cfg : Cfg) (hnb : 1 ≤ cfg.nbSubfr) : ∀ (is : List Nat) (s : SkipSt),
    EvsOk s.evs → EvsOk (skipFrames cfg is s).evs
  | [], s, hs => by unfold skipFrames; exact hs
  | i :: is, s, hs => by
    unfold skipFrames
    exact skipFrames_ok cfg hnb is _ (skipChans_ok cfg hnb i _ s hs)

theorem decodeChanFlags_ok (nfpp : Nat) (c : Dec) (v : List Nat) (l : Nat) (c' : Dec)
    (h : decodeChanFlags nfpp c = (v, l, c')) : (∀ b ∈ v, b ≤ 1) ∧ l ≤ 1 := by
  unfold decodeChanFlags at h
  generalize hv : decodeVadFlags nfpp c = y at h
  split at h
  rename_i _ v0 c1
  have h1 := decodeVadFlags_ok nfpp c v0 c1 hv
  have h2 := decBitLogp_le c1 1
  generalize decBitLogp c1 1 = z at h h2
  split at h
  rename_i _ l0 c2
  dsimp only at h2
  simp only [Prod.mk.injEq] at h
  obtain ⟨rfl, rfl, _⟩ := h
  exact ⟨h1.2, h2⟩

theorem decodeFlagsMono_ok (cfg : Cfg) (st : SilkSt) (c : Dec) : EvsOk (decodeFlagsMono cfg st c).evs := by
  unfold decodeFlagsMono
  generalize h0 : decodeChanFlags cfg.nfpp c = y
  split
  rename_i _ v0 l0 c1
  have h1 := decodeChanFlags_ok cfg.nfpp c v0 l0 c1 h0
  have h2 := decodeLbrrFlags_ok cfg.nfpp l0 c1
  generalize decodeLbrrFlags cfg.nfpp l0 c1 = z at h2
  split
  rename_i _ f0 c2
  dsimp only at h2 ⊢
  exact EvsOk_cons ⟨by omega, h1.1, h1.2, h2.1, h2.2⟩ EvsOk_nil

theorem decodeFlagsStereo_ok (cfg : Cfg) (st : SilkSt) (c : Dec) : EvsOk (decodeFlagsStereo cfg st c).evs := by
  unfold decodeFlagsStereo
  generalize h0 : decodeChanFlags cfg.nfpp c = y
  split
  rename_i _ v0 l0 c1
  have h1 := decodeChanFlags_ok cfg.nfpp c v0 l0 c1 h0
  generalize h0' : decodeChanFlags cfg.nfpp c1 = y
  split
  rename_i _ v1 l1 c2
  have h1' := decodeChanFlags_ok cfg.nfpp c1 v1 l1 c2 h0'
  have h2 := decodeLbrrFlags_ok cfg.nfpp l0 c2
  generalize decodeLbrrFlags cfg.nfpp l0 c2 = z at h2
  split
  rename_i _ f0 c3
  dsimp only at h2
  have h3 := decodeLbrrFlags_ok cfg.nfpp l1 c3
  generalize decodeLbrrFlags cfg.nfpp l1 c3 = z at h3
  split
  rename_i _ f1 c4
  dsimp only at h3 ⊢
  exact EvsOk_cons ⟨by omega, h1.1, h1.2, h2.1, h2.2⟩
    (EvsOk_cons ⟨by omega, h1'.1, h1'.2, h3.1, h3.2⟩ EvsOk_nil)

theorem decodeHeader_ok (cfg : Cfg) (hnb : 1 ≤ cfg.nbSubfr) (st : SilkSt) (c : Dec) :
    EvsOk (decodeHeader cfg st c).evs := by
  unfold decodeHeader
  have hf : EvsOk (if cfg.nCh = 2 then decodeFlagsStereo cfg st c else decodeFlagsMono cfg st c).evs := by
    split
    · exact decodeFlagsStereo_ok cfg st c
    · exact decodeFlagsMono_ok cfg st c
  split
  · exact skipFrames_ok cfg hnb _ _ hf
  · exact hf

theorem decodeStereoHeadG_ok (P : Dec → StereoPred × Dec) (M : Dec → Nat × Dec)
    (hP : ∀ c p c', P c = (p, c') → StereoOk p) (hM : ∀ c, (M c).1 ≤ 1)
    (cfg : Cfg) (st : SilkSt) (dom : Nat) (c : Dec) : EvsOk (decodeStereoHeadG P M cfg st dom c).2.2 := by
  unfold decodeStereoHeadG
  split
  · generalize hp : P c = y
    split
    rename_i _ p c1
    have h1 := hP c p c1 hp
    split
    · have h2 := hM c1
      generalize M c1 = z at h2
      split
      rename_i _ m c2
      dsimp only at h2 ⊢
      exact EvsOk_cons h1 (EvsOk_cons h2 EvsOk_nil)
    · dsimp only
      exact EvsOk_cons h1 EvsOk_nil
  · exact EvsOk_nil

theorem decodeStereoHead_ok (cfg : Cfg) (st : SilkSt) (dom : Nat) (c : Dec) :
    EvsOk (decodeStereoHead cfg st dom c).2.2 :=
  decodeStereoHeadG_ok _ _ stereoDecodePred_ok stereoDecodeMidOnly_le cfg st dom c

theorem decodeChan_ok (cfg : Cfg) (hnb : 1 ≤ cfg.nbSubfr) (hasSide : Bool) (n : Nat) (st : SilkSt) (c : Dec) :
    EvsOk (decodeChan cfg hasSide n st c).1 := by
  unfold decodeChan
  split
  · generalize hd : decodeOne cfg n (st.ch n).nFramesDecoded cfg.lostFlag
      (condCodingOf cfg st n st.ch0.nFramesDecoded) (st.ch n) c = y
    split
    rename_i _ evs ch' c1
    dsimp only
    exact decodeOne_ok cfg hnb _ _ _ _ _ _ evs ch' c1 hd
  · exact EvsOk_nil

theorem decodeChans_ok (cfg : Cfg) (hnb : 1 ≤ cfg.nbSubfr) (hasSide : Bool) (st : SilkSt) (c : Dec) :
    EvsOk (decodeChans cfg hasSide st c).1 := by
  unfold decodeChans
  have h0 := decodeChan_ok cfg hnb hasSide 0 st c
  generalize decodeChan cfg hasSide 0 st c = y at h0
  split
  rename_i _ e0 st1 c1
  dsimp only at h0
  split
  · have h1 := decodeChan_ok cfg hnb hasSide 1 st1 c1
    generalize decodeChan cfg hasSide 1 st1 c1 = z at h1
    split
    rename_i _ e1 st2 c2
    dsimp only at h1 ⊢
    exact EvsOk_append h0 h1
  · exact h0

theorem decodeBody_ok (cfg : Cfg) (hnb : 1 ≤ cfg.nbSubfr) (h : SkipSt) (hh : EvsOk h.evs) :
    EvsOk (decodeBody cfg h).1 := by
  unfold decodeBody
  have h1 := decodeStereoHead_ok cfg h.st h.dom h.c
  generalize decodeStereoHead cfg h.st h.dom h.c = y at h1
  split
  rename_i _ dom c1 e1
  dsimp only at h1
  have h2 := decodeChans_ok cfg hnb (hasSideOf cfg h.st dom) h.st c1
  generalize decodeChans cfg (hasSideOf cfg h.st dom) h.st c1 = z at h2
  split
  rename_i _ e2 st2 c2
  dsimp only at h2 ⊢
  exact EvsOk_append (EvsOk_append (EvsOk_append hh h1) h2) (EvsOk_cons trivial EvsOk_nil)

theorem silkDecodeCall_ok (cfg : Cfg) (hnb : 1 ≤ cfg.nbSubfr) (np : Bool) (st : SilkSt) (c : Dec) :
    EvsOk (silkDecodeCall cfg np st c).1 := by
  unfold silkDecodeCall
  apply decodeBody_ok cfg hnb
  split
  · exact decodeHeader_ok cfg hnb _ c
  · exact EvsOk_nil

theorem silkCalls_ok (cfg : Cfg) (hnb : 1 ≤ cfg.nbSubfr) : ∀ (k : Nat) (first : Bool) (st : SilkSt) (c : Dec),
    EvsOk (silkCalls cfg k first st c).1
  | 0, _, st, c => by unfold silkCalls; exact EvsOk_nil
  | k + 1, first, st, c => by
    unfold silkCalls
    have h1 := silkDecodeCall_ok cfg hnb first st c
    generalize silkDecodeCall cfg first st c = y at h1
    split
    rename_i _ e1 st1 c1
    dsimp only at h1
    have h2 := silkCalls_ok cfg hnb k false st1 c1
    generalize silkCalls cfg k false st1 c1 = z at h2
    split
    rename_i _ e2 st2 c2
    dsimp only at h2 ⊢
    exact EvsOk_append h1 h2

theorem decodeOpusFrameCfg_ok (mode ir pm : Nat) (fec : Bool) (cfg : Cfg) (hnb : 1 ≤ cfg.nbSubfr) (st : SilkSt)
    (fr : Bytes) : EvsOk (decodeOpusFrameCfg mode ir pm fec cfg st fr).evs := by
  unfold decodeOpusFrameCfg
  have h1 := silkCalls_ok cfg hnb cfg.nfpp true st (decInit fr fr.length)
  generalize silkCalls cfg cfg.nfpp true st (decInit fr fr.length) = y at h1
  split
  rename_i _ evs st1 c1
  dsimp only at h1
  generalize redundancyHeader mode fec fr.length c1 = z
  split
  exact h1

theorem packetShape_nb (ms nfpp nb : Nat) (h : packetShape ms = .ok (nfpp, nb)) : 1 ≤ nb := by
  unfold packetShape at h
  repeat' split at h
  all_goals first | (simp only [Res.ok.injEq, Prod.mk.injEq] at h; omega) | (exact absurd h (by simp))

theorem decodeOpusFrame_ok (mode bw nCh ms10 : Nat) (fec : Bool) (st : SilkSt) (fr : Bytes) (o : FrameOut)
    (h : decodeOpusFrame mode bw nCh ms10 fec st fr = .ok o) : EvsOk o.evs := by
  unfold decodeOpusFrame at h
  split at h
  · split at h
    · rename_i nfpp nb hps
      split at h
      · simp only [Res.ok.injEq] at h
        rw [← h]
        exact decodeOpusFrameCfg_ok _ _ _ _ _ (packetShape_nb _ _ _ hps) _ _
      all_goals exact absurd h (by simp)
    all_goals exact absurd h (by simp)
  all_goals exact absurd h (by simp)

/-- Guarantee for one frame record of a packet. -/
def FrameResOk : FrameRes → Prop
  | .silk _ o => EvsOk o.evs
  | _ => True

theorem framesLoop_ok (toc : Nat) (pkt : Bytes) (fec : Bool) : ∀ (spans : List (Nat × Nat)) (st : SilkSt)
    (l : List FrameRes), framesLoop toc pkt fec spans st = .ok l → ∀ f ∈ l, FrameResOk f
  | [], st, l, h => by
    unfold framesLoop at h
    simp only [Res.ok.injEq] at h
    rw [← h]; intro f hf; simp at hf
  | (off, sz) :: rest, st, l, h => by
    unfold framesLoop at h
    split at h
    · split at h
      · rename_i l' hl
        simp only [Res.ok.injEq] at h
        rw [← h]
        intro f hf
        simp only [List.mem_cons] at hf
        rcases hf with rfl | hf
        · trivial
        · exact framesLoop_ok toc pkt fec rest st l' hl f hf
      · rename_i hne
        exact absurd h (hne l)
    · split at h
      · split at h
        · rename_i l' hl
          simp only [Res.ok.injEq] at h
          rw [← h]
          intro f hf
          simp only [List.mem_cons] at hf
          rcases hf with rfl | hf
          · trivial
          · exact framesLoop_ok toc pkt fec rest st l' hl f hf
        · rename_i hne
          exact absurd h (hne l)
      · split at h
        · rename_i o ho
          split at h
          · rename_i l' hl
            simp only [Res.ok.injEq] at h
            rw [← h]
            intro f hf
            simp only [List.mem_cons] at hf
            rcases hf with rfl | hf
            · exact decodeOpusFrame_ok _ _ _ _ _ _ _ o ho
            · exact framesLoop_ok toc pkt fec rest o.st l' hl f hf
          · rename_i hne
            exact absurd h (hne l)
        all_goals exact absurd h (by simp)

theorem someRes_ok (r : Res (List FrameRes)) (l : List FrameRes) (h : someRes r = .ok (some l)) : r = .ok l := by
  unfold someRes at h
  split at h
  · simp only [Res.ok.injEq, Option.some.injEq] at h; rw [h]
  all_goals exact absurd h (by simp)

theorem decodeFrames_ok (fec pc : Bool) (st : SilkSt) (pkt : Bytes) (p : Framing.Parsed) (l : List FrameRes)
    (h : decodeFrames fec pc st pkt p = .ok (some l)) : ∀ f ∈ l, FrameResOk f := by
  unfold decodeFrames at h
  split at h
  · split at h
    · exact absurd h (by simp)
    · exact framesLoop_ok _ _ _ _ _ l (someRes_ok _ l h)
  · exact framesLoop_ok _ _ _ _ _ l (someRes_ok _ l h)

theorem decodePacket_ok (fs : Nat) (fec pc : Bool) (st : SilkSt) (pkt : Bytes) (l : List FrameRes)
    (h : decodePacket fs fec pc st pkt = .ok (some l)) : ∀ f ∈ l, FrameResOk f := by
  unfold decodePacket at h
  split at h
  · split at h
    · exact decodeFrames_ok _ _ _ _ _ l h
    all_goals exact absurd h (by simp)
  · exact absurd h (by simp)

/-! ### Totality: the packet-level model never faults -/

theorem decodeOpusFrame_total (toc : Nat) (hm : Framing.getMode toc ≠ 1002) (fec : Bool) (st : SilkSt) (fr : Bytes) :
    ∃ o, decodeOpusFrame (Framing.getMode toc) (Framing.getBandwidth toc) (Framing.getNbChannels toc)
      (Framing.samplesPerFrame toc 48000 * 10 / 48) fec st fr = .ok o := by
  unfold Framing.getMode at hm
  unfold decodeOpusFrame Framing.getMode Framing.getBandwidth Framing.samplesPerFrame internalRateOf
  simp only [Framing.MODE_CELT_ONLY, Framing.MODE_HYBRID, Framing.MODE_SILK_ONLY] at hm ⊢
  by_cases h7 : toc / 128 % 2 = 1
  · simp [h7] at hm
  · simp only [h7, if_false]
    by_cases hh : toc / 32 % 4 = 3
    · simp only [hh, if_true]
      by_cases h3 : toc / 8 % 2 = 1
      · simp [h3, packetShape, rateOf]
      · simp [h3, packetShape, rateOf]
    · simp only [hh, if_false]
      have hb : toc / 32 % 4 = 0 ∨ toc / 32 % 4 = 1 ∨ toc / 32 % 4 = 2 := by omega
      have ha : toc / 8 % 4 = 0 ∨ toc / 8 % 4 = 1 ∨ toc / 8 % 4 = 2 ∨ toc / 8 % 4 = 3 := by omega
      rcases hb with hb | hb | hb <;> rcases ha with ha | ha | ha | ha <;>
        simp [hb, ha, packetShape, rateOf]

theorem framesLoop_nofault (toc : Nat) (pkt : Bytes) (fec : Bool) : ∀ (spans : List (Nat × Nat)) (st : SilkSt),
    framesLoop toc pkt fec spans st ≠ .oob ∧ framesLoop toc pkt fec spans st ≠ .abort
  | [], st => by unfold framesLoop; simp
  | (off, sz) :: rest, st => by
    unfold framesLoop
    split
    · have ih := framesLoop_nofault toc pkt fec rest st
      split
      · simp
      · exact ih
    · split
      · have ih := framesLoop_nofault toc pkt fec rest st
        split
        · simp
        · exact ih
      · rename_i hm
        obtain ⟨o, ho⟩ := decodeOpusFrame_total toc hm fec st ((pkt.drop off).take sz)
        rw [ho]
        dsimp only
        have ih := framesLoop_nofault toc pkt fec rest o.st
        split
        · simp
        · exact ih

theorem someRes_nofault (r : Res (List FrameRes)) (h : r ≠ .oob ∧ r ≠ .abort) :
    someRes r ≠ .oob ∧ someRes r ≠ .abort := by
  unfold someRes
  split
  · simp
  · simp
  · exact absurd rfl h.1
  · exact absurd rfl h.2

theorem decodePacket_nofault (fs : Nat) (fec pc : Bool) (st : SilkSt) (pkt : Bytes) :
    decodePacket fs fec pc st pkt ≠ .oob ∧ decodePacket fs fec pc st pkt ≠ .abort := by
  unfold decodePacket
  split
  · have hp := FramingProofs.parseImpl_nofault false pkt
    split
    · unfold decodeFrames
      split
      · split
        · simp
        · exact someRes_nofault _ (framesLoop_nofault _ _ _ _ _)
      · exact someRes_nofault _ (framesLoop_nofault _ _ _ _ _)
    · simp
    · rename_i h; rw [h] at hp; simp [FramingProofs.fault] at hp
    · rename_i h; rw [h] at hp; simp [FramingProofs.fault] at hp
  · simp

end Opus.SilkSymsProofs
