import OpusProofs.CeltBandsSync
import OpusProofs.CeltBandsTri
/-
  OpusProofs.CeltBandsSync2 — lock-step for `compute_theta` (step, uniform and triangular PDF, the `inv` flag),
  `quant_partition` (leaf and split recursion), `quant_band`, `quant_band_stereo` and the band loop of
  `quant_all_bands`.
-/
namespace OpusProofs.CeltHdr
open Opus Opus.RangeCoder Opus.CeltSymsEnc
open Opus.CeltBandsEnc (ESt)
open Opus.CeltBands (BSt Theta)

/-- the next call of the packet is legal -/
theorem World.legal_next (w : World) (P : List Op) (op : Op) (h : w.IsPrefix (P ++ [op])) : op.Legal := by
  obtain ⟨R, hR⟩ := h
  have hl := w.hl
  rw [hR, List.append_assoc] at hl
  have hla := (legalRun_append P ([op] ++ R) _ hl).2
  exact legalAt_legal hla.1

theorem Here.legal_emit {w : World} {P0 : List Op} {s : St} (op : Op)
    (hp : w.IsPrefix (P0 ++ (s.pop.2.emit op).ops)) : op.Legal := by
  have : P0 ++ (s.pop.2.emit op).ops = (P0 ++ s.ops) ++ [op] := by rw [emit_ops, pop_ops, List.append_assoc]
  rw [this] at hp
  exact w.legal_next _ op hp

/-! ### compute_theta -/

/-- `ec_encode(fl, fh, ft)`: `ec_decode(ft)` returns a point of the interval and `ec_dec_update(fl, fh, ft)` continues in
    lock-step (stated for variables, so that no instance has to unfold `ec_decode`) -/
theorem Here.emit_encode {w : World} {P0 : List Op} {s : St} {d : Dec} (h : Here w P0 s d) (fl fh ft : Nat)
    (hp : w.IsPrefix (P0 ++ (s.emit (.encode fl fh ft)).ops)) :
    fl ≤ (RangeCoder.decode d ft).1 ∧ (RangeCoder.decode d ft).1 < fh ∧
    Here w P0 (s.emit (.encode fl fh ft)) (decUpdate (RangeCoder.decode d ft).2 fl fh ft) := by
  obtain ⟨h1, h2⟩ := h.emit (.encode fl fh ft) hp
  exact ⟨h1.1, h1.2, h2⟩

theorem thetaStep_step (w : World) (P0 : List Op) (qn : Nat) (e : ESt) (d : BSt) :
    Ext0 e.s (Opus.CeltBandsEnc.thetaStep e qn).2.s ∧
    (∀ {A : List Op}, Sim w P0 A e d → w.IsPrefix (P0 ++ (Opus.CeltBandsEnc.thetaStep e qn).2.s.ops) →
      (Opus.CeltBands.thetaStep d qn).1 = (Opus.CeltBandsEnc.thetaStep e qn).1 ∧
      Sim w P0 A (Opus.CeltBandsEnc.thetaStep e qn).2 (Opus.CeltBands.thetaStep d qn).2) := by
  refine ⟨Ext0.step _ _, fun hs hp => ?_⟩
  simp only [Opus.CeltBandsEnc.thetaStep] at hp ⊢
  obtain ⟨m1, m2, hn⟩ := hs.here.pop.emit_encode _ _ _ hp
  have m' := And.intro m1 m2
  generalize e.s.pop.1.toNat = x at *
  generalize hfs : (RangeCoder.decode d.c (3 * (qn / 2 + 1) + qn / 2)).1 = fs at m'
  have hx : (if fs < (qn / 2 + 1) * 3 then fs / 3 else qn / 2 + 1 + (fs - (qn / 2 + 1) * 3)) = x := by
    by_cases hc : x ≤ qn / 2
    · rw [if_pos hc, if_pos hc] at m'
      rw [if_pos (by omega)]; omega
    · rw [if_neg hc, if_neg hc] at m'
      rw [if_neg (by omega)]; omega
  simp only [Opus.CeltBands.thetaStep, BSt.decode, BSt.update, hfs, hx]
  refine ⟨trivial, ⟨hn, hs.rem, ?_⟩⟩
  refine hs.tr_emit (.encode _ _ _) _ ?_
  simp only [evOf, hfs, List.reverse_cons, List.reverse_nil, List.nil_append, List.cons_append]

theorem thetaTri_step (w : World) (P0 : List Op) (qn : Nat) (heven : qn % 2 = 0) (e : ESt) (d : BSt) :
    Ext0 e.s (Opus.CeltBandsEnc.thetaTri e qn).2.s ∧
    (∀ {A : List Op}, Sim w P0 A e d → w.IsPrefix (P0 ++ (Opus.CeltBandsEnc.thetaTri e qn).2.s.ops) →
      (Opus.CeltBands.thetaTri d qn).1 = (Opus.CeltBandsEnc.thetaTri e qn).1 ∧
      Sim w P0 A (Opus.CeltBandsEnc.thetaTri e qn).2 (Opus.CeltBands.thetaTri d qn).2) := by
  refine ⟨Ext0.step _ _, fun hs hp => ?_⟩
  have hp' : w.IsPrefix (P0 ++ (e.s.pop.2.emit (.encode (Opus.CeltBandsEnc.triFl qn e.s.pop.1.toNat)
      (Opus.CeltBandsEnc.triFl qn e.s.pop.1.toNat + Opus.CeltBandsEnc.triFs qn e.s.pop.1.toNat)
      (Opus.CeltBandsEnc.triFt qn))).ops) := hp
  obtain ⟨m1, m2, hn⟩ := hs.here.pop.emit_encode _ _ _ hp'
  have hleg := Here.legal_emit _ hp'
  have hxq : e.s.pop.1.toNat ≤ qn := by
    have := hleg.1
    unfold Opus.CeltBandsEnc.triFs at this
    by_cases hc : e.s.pop.1.toNat ≤ qn / 2
    · omega
    · rw [if_neg hc] at this; omega
  have hft : Opus.CeltBandsEnc.triFt qn = (qn / 2 + 1) * (qn / 2 + 1) := rfl
  rw [hft] at m1 m2
  generalize hfm : (RangeCoder.decode d.c ((qn / 2 + 1) * (qn / 2 + 1))).1 = fm at m1 m2
  obtain ⟨t1, t2, t3⟩ := OpusProofs.Tri.tri_inv qn e.s.pop.1.toNat fm heven hxq m1 m2
  have hdec : (Opus.CeltBands.thetaTri d qn).1 = OpusProofs.Tri.decIt qn fm ∧
      (Opus.CeltBands.thetaTri d qn).2.c = decUpdate (RangeCoder.decode d.c ((qn / 2 + 1) * (qn / 2 + 1))).2
        (OpusProofs.Tri.decFl qn fm) (OpusProofs.Tri.decFl qn fm + OpusProofs.Tri.decFs qn fm) ((qn / 2 + 1) * (qn / 2 + 1)) ∧
      (Opus.CeltBands.thetaTri d qn).2.rem = d.rem ∧
      (Opus.CeltBands.thetaTri d qn).2.tr = Opus.CeltSyms.CEv.upd (OpusProofs.Tri.decFl qn fm)
        (OpusProofs.Tri.decFl qn fm + OpusProofs.Tri.decFs qn fm) ((qn / 2 + 1) * (qn / 2 + 1)) ::
        Opus.CeltSyms.CEv.dec ((qn / 2 + 1) * (qn / 2 + 1)) fm :: d.tr := by
    simp only [Opus.CeltBands.thetaTri, BSt.decode, BSt.update, hfm]
    unfold OpusProofs.Tri.decFl OpusProofs.Tri.decFs OpusProofs.Tri.decIt
    by_cases hb : fm < qn / 2 * (qn / 2 + 1) / 2
    · simp only [hb, if_true]; exact ⟨trivial, trivial, trivial, trivial⟩
    · simp only [hb, if_false]; exact ⟨trivial, trivial, trivial, trivial⟩
  obtain ⟨d1, d2, d3, d4⟩ := hdec
  rw [t1] at d1
  rw [t2, t3] at d2 d4
  refine ⟨d1, ⟨⟨hn.enc, ?_⟩, ?_, ?_⟩⟩
  · rw [d2]; exact hn.dec
  · rw [d3]; exact hs.rem
  · refine hs.tr_emit (.encode _ _ _) _ ?_
    rw [d4]
    simp only [evOf, hft, hfm, List.reverse_cons, List.reverse_nil, List.nil_append, List.cons_append]

/-- the symbol of `compute_theta`; `qn` is 1 or even -/
theorem thetaWrite_step (w : World) (P0 : List Op) (stereo : Bool) (N : Nat) (b : Int) (B0 qn : Nat)
    (hq : qn = 1 ∨ qn % 2 = 0) :
    StepV w P0 (Opus.CeltBandsEnc.thetaWrite stereo N b B0 qn) (Opus.CeltBands.thetaRead stereo N b B0 qn) := by
  intro e d
  unfold Opus.CeltBandsEnc.thetaWrite Opus.CeltBands.thetaRead
  by_cases h1 : qn ≠ 1
  · simp only [h1, if_true, ne_eq, not_false_eq_true]
    have heven : qn % 2 = 0 := by rcases hq with h | h; exact absurd h h1; exact h
    by_cases h2 : stereo = true ∧ N > 2
    · simp only [h2, and_self, if_true]
      have := thetaStep_step w P0 qn e d
      refine ⟨this.1, fun hs hp => ?_⟩
      obtain ⟨a, b⟩ := this.2 hs hp
      exact ⟨by rw [a], b⟩
    · simp only [h2, if_false]
      by_cases h3 : B0 > 1 ∨ stereo = true
      · simp only [h3, if_true]
        have := uint_step w P0 (qn + 1) e d
        refine ⟨this.1, fun hs hp => ?_⟩
        obtain ⟨a, b⟩ := this.2 hs hp
        exact ⟨by show (d.uint (qn + 1)).1 * 16384 / qn = _; rw [a], b⟩
      · simp only [h3, if_false]
        have := thetaTri_step w P0 qn heven e d
        refine ⟨this.1, fun hs hp => ?_⟩
        obtain ⟨a, b⟩ := this.2 hs hp
        exact ⟨by rw [a], b⟩
  · simp only [h1, if_false]
    by_cases h2 : stereo = true
    · simp only [h2, if_true]
      by_cases h3 : b > 16 ∧ e.rem > 16
      · simp only [h3, and_self, if_true]
        have := bit_step w P0 2 e d
        refine ⟨this.1, fun hs hp => ?_⟩
        have h3' : b > 16 ∧ d.rem > 16 := by rw [← hs.rem]; exact h3
        simp only [h3', and_self, if_true]
        exact ⟨trivial, (this.2 hs hp).2⟩
      · simp only [h3, if_false]
        refine ⟨Ext0.refl _, fun hs _ => ?_⟩
        have h3' : ¬ (b > 16 ∧ d.rem > 16) := by rw [← hs.rem]; exact h3
        simp only [h3', if_false]
        exact ⟨trivial, hs⟩
    · simp only [h2]
      exact ⟨Ext0.refl _, fun hs _ => ⟨rfl, hs⟩⟩

theorem qnOfQb_parity (qb : Int) : Opus.CeltBands.qnOfQb qb = 1 ∨ Opus.CeltBands.qnOfQb qb % 2 = 0 := by
  unfold Opus.CeltBands.qnOfQb
  split
  · exact Or.inl rfl
  · exact Or.inr (Nat.mul_mod_left _ _)

/-- `compute_theta`: same `itheta`, `delta`, `qalloc`, `b` -/
theorem computeTheta_step (w : World) (P0 : List Op) (i intensity : Nat) (stereo : Bool) (N : Nat) (b : Int) (B0 : Nat)
    (lm : Int) :
    StepV w P0 (Opus.CeltBandsEnc.computeTheta i intensity stereo N b B0 lm)
      (Opus.CeltBands.computeTheta i intensity stereo N b B0 lm) := by
  intro e d
  unfold Opus.CeltBandsEnc.computeTheta Opus.CeltBands.computeTheta
  simp only []
  have hq : (if stereo = true ∧ i ≥ intensity then 1
      else Opus.CeltBands.computeQn N b ((Opus.CeltSymsFrozen.logN.getD i 0 + lm * 8) / 2 - (if stereo = true ∧ N = 2 then 16 else 4))
        (Opus.CeltSymsFrozen.logN.getD i 0 + lm * 8) stereo) = 1 ∨
      (if stereo = true ∧ i ≥ intensity then 1
      else Opus.CeltBands.computeQn N b ((Opus.CeltSymsFrozen.logN.getD i 0 + lm * 8) / 2 - (if stereo = true ∧ N = 2 then 16 else 4))
        (Opus.CeltSymsFrozen.logN.getD i 0 + lm * 8) stereo) % 2 = 0 := by
    split
    · exact Or.inl rfl
    · exact qnOfQb_parity _
  generalize (if stereo = true ∧ i ≥ intensity then 1
      else Opus.CeltBands.computeQn N b ((Opus.CeltSymsFrozen.logN.getD i 0 + lm * 8) / 2 - (if stereo = true ∧ N = 2 then 16 else 4))
        (Opus.CeltSymsFrozen.logN.getD i 0 + lm * 8) stereo) = qn at hq ⊢
  have key := thetaWrite_step w P0 stereo N b B0 qn hq e d
  refine ⟨key.1, fun hs hp => ?_⟩
  obtain ⟨a, b'⟩ := key.2 hs hp
  obtain ⟨_, t0⟩ := hs.tells (prefix_of_ext0 key.1 hp)
  obtain ⟨_, t1⟩ := b'.tells hp
  generalize Opus.CeltBandsEnc.thetaWrite stereo N b B0 qn e = R at *
  generalize Opus.CeltBands.thetaRead stereo N b B0 qn d = D at *
  show (({ itheta := D.1, delta := Opus.CeltBands.thetaDelta N D.1, qalloc := (tellFrac D.2.c : Int) - tellFrac d.c,
           b := b - ((tellFrac D.2.c : Int) - tellFrac d.c) } : Theta), D.2).1 = _ ∧ _
  simp only [a, t0, t1]
  exact ⟨trivial, b'⟩

/-! ### quant_partition -/

theorem leaf_step (w : World) (P0 : List Op) (i lm1 N : Nat) (b : Int) :
    Step w P0 (Opus.CeltBandsEnc.leaf i lm1 N b) (Opus.CeltBands.leaf i lm1 N b) := by
  intro e d
  unfold Opus.CeltBandsEnc.leaf Opus.CeltBands.leaf
  simp only []
  constructor
  · split
    · exact Ext0.step _ _
    · exact Ext0.refl _
  · intro A hs hp
    rw [← hs.rem]
    generalize Opus.CeltBands.lowerQ (Opus.CeltBands.rowOf lm1 i)
      (Rate.bits2pulsesRow (Opus.CeltBands.cacheAt (Opus.CeltBands.rowOf lm1 i)) b)
      (Opus.CeltBands.p2b (Opus.CeltBands.rowOf lm1 i) (Rate.bits2pulsesRow (Opus.CeltBands.cacheAt (Opus.CeltBands.rowOf lm1 i)) b))
      (e.rem - Opus.CeltBands.p2b (Opus.CeltBands.rowOf lm1 i)
        (Rate.bits2pulsesRow (Opus.CeltBands.cacheAt (Opus.CeltBands.rowOf lm1 i)) b)) = r at hp ⊢
    have hs' : Sim w P0 _ { e with rem := r.2 }
        { d with rem := r.2, fault := d.fault || !Opus.CeltBands.rowOk (Opus.CeltBands.rowOf lm1 i) } := ⟨hs.here, rfl, hs.tr⟩
    by_cases hq : r.1 ≠ 0
    · simp only [hq, if_true, ne_eq, not_false_eq_true] at hp ⊢
      exact ((uint_step w P0 _ _ _).2 hs' hp).2
    · simp only [hq, if_false] at hp ⊢
      exact hs'

theorem splitRun_step (w : World) (P0 : List Op) (fe : Int → ESt → ESt) (fd : Int → BSt → BSt)
    (hf : ∀ bits, Step w P0 (fe bits) (fd bits)) (mbits sbits : Int) (itheta : Nat) :
    Step w P0 (Opus.CeltBandsEnc.splitRun fe mbits sbits itheta) (Opus.CeltBands.splitRun fd mbits sbits itheta) := by
  intro e d
  unfold Opus.CeltBandsEnc.splitRun Opus.CeltBands.splitRun
  simp only []
  by_cases h : mbits ≥ sbits
  · simp only [h, if_true]
    have a := hf mbits e d
    have b := hf (Opus.CeltBands.rebal sbits (mbits - (e.rem - (fe mbits e).rem)) (decide (itheta ≠ 0))) (fe mbits e) (fd mbits d)
    refine ⟨a.1.trans b.1, fun hs hp => ?_⟩
    have a2 := a.2 hs (prefix_of_ext0 b.1 hp)
    rw [← hs.rem, ← a2.rem]
    exact b.2 a2 hp
  · simp only [h, if_false]
    have a := hf sbits e d
    have b := hf (Opus.CeltBands.rebal mbits (sbits - (e.rem - (fe sbits e).rem)) (decide (itheta ≠ 16384))) (fe sbits e) (fd sbits d)
    refine ⟨a.1.trans b.1, fun hs hp => ?_⟩
    have a2 := a.2 hs (prefix_of_ext0 b.1 hp)
    rw [← hs.rem, ← a2.rem]
    exact b.2 a2 hp

theorem splitGo_step (w : World) (P0 : List Op) (fe : Int → ESt → ESt) (fd : Int → BSt → BSt)
    (hf : ∀ bits, Step w P0 (fe bits) (fd bits)) (th : Theta) (delta : Int) :
    Step w P0 (Opus.CeltBandsEnc.splitGo fe th delta) (Opus.CeltBands.splitGo fd th delta) := by
  intro e d
  unfold Opus.CeltBandsEnc.splitGo Opus.CeltBands.splitGo
  have key := splitRun_step w P0 fe fd hf (Opus.CeltBands.splitBits th.b delta) (th.b - Opus.CeltBands.splitBits th.b delta) th.itheta
    { e with rem := e.rem - th.qalloc } { d with rem := d.rem - th.qalloc }
  refine ⟨key.1, fun hs hp => key.2 ⟨hs.here, by show e.rem - th.qalloc = d.rem - th.qalloc; rw [hs.rem], hs.tr⟩ hp⟩

theorem quantPartition_step (w : World) (P0 : List Op) (i : Nat) : ∀ (lm1 N : Nat) (b : Int) (B : Nat),
    Step w P0 (Opus.CeltBandsEnc.quantPartition i lm1 N b B) (Opus.CeltBands.quantPartition i lm1 N b B)
  | 0, N, b, _ => by
    intro e d
    simp only [Opus.CeltBandsEnc.quantPartition, Opus.CeltBands.quantPartition]
    exact leaf_step w P0 i 0 N b e d
  | lm + 1, N, b, B => by
    intro e d
    simp only [Opus.CeltBandsEnc.quantPartition, Opus.CeltBands.quantPartition]
    by_cases hc : b > (Opus.CeltBands.cacheAt (Opus.CeltBands.rowOf (lm + 1) i)
        (Opus.CeltBands.cacheAt (Opus.CeltBands.rowOf (lm + 1) i) 0) : Int) + 12 ∧ N > 2
    · simp only [hc, and_self, if_true]
      have ht := computeTheta_step w P0 i 0 false (N / 2) b B ((lm : Int) - 1) e
        { d with fault := d.fault || !Opus.CeltBands.rowOk (Opus.CeltBands.rowOf (lm + 1) i) }
      generalize hE : Opus.CeltBandsEnc.computeTheta i 0 false (N / 2) b B ((lm : Int) - 1) e = TE at ht ⊢
      generalize hD : Opus.CeltBands.computeTheta i 0 false (N / 2) b B ((lm : Int) - 1)
        { d with fault := d.fault || !Opus.CeltBands.rowOk (Opus.CeltBands.rowOf (lm + 1) i) } = TD at ht ⊢
      have hg := fun th delta => splitGo_step w P0
        (fun bits e' => Opus.CeltBandsEnc.quantPartition i lm (N / 2) bits ((B + 1) / 2) e')
        (fun bits s' => Opus.CeltBands.quantPartition i lm (N / 2) bits ((B + 1) / 2) s')
        (fun bits => quantPartition_step w P0 i lm (N / 2) bits ((B + 1) / 2)) th delta
      have g1 := hg TE.1 (Opus.CeltBands.adjustDelta B TE.1.itheta TE.1.delta (N / 2) ((lm : Int) - 1)) TE.2 TD.2
      refine ⟨ht.1.trans g1.1, fun hs hp => ?_⟩
      obtain ⟨a, b'⟩ := ht.2 ⟨hs.here, hs.rem, hs.tr⟩ (prefix_of_ext0 g1.1 hp)
      rw [a]
      exact g1.2 b' hp
    · simp only [hc, if_false]
      exact leaf_step w P0 i (lm + 1) N b e d

/-! ### quant_band, quant_band_stereo -/

theorem quantBand_step (w : World) (P0 : List Op) (i lm1 N B : Nat) (tf : Int) (b : Int) :
    Step w P0 (Opus.CeltBandsEnc.quantBand i lm1 N B tf b) (Opus.CeltBands.quantBand i lm1 N B tf b) := by
  intro e d
  unfold Opus.CeltBandsEnc.quantBand Opus.CeltBands.quantBand
  by_cases h : N = 1
  · simp only [h, if_true]; exact n1One_step w P0 e d
  · simp only [h, if_false]; exact quantPartition_step w P0 i lm1 N b _ e d

theorem stereoN2_step (w : World) (P0 : List Op) (i lm1 B : Nat) (tf : Int) (th : Theta) :
    Step w P0 (Opus.CeltBandsEnc.stereoN2 i lm1 B tf th) (Opus.CeltBands.stereoN2 i lm1 B tf th) := by
  intro e d
  unfold Opus.CeltBandsEnc.stereoN2 Opus.CeltBands.stereoN2
  by_cases h : th.itheta ≠ 0 ∧ th.itheta ≠ 16384
  · simp only [h, and_self, if_true, ne_eq, not_false_eq_true]
    have a := raw_step w P0 1 { e with rem := e.rem - (th.qalloc + 8) } { d with rem := d.rem - (th.qalloc + 8) }
    have b := quantBand_step w P0 i lm1 2 B tf (th.b - 8) ({ e with rem := e.rem - (th.qalloc + 8) }.raw 1).2
      ({ d with rem := d.rem - (th.qalloc + 8) }.raw 1).2
    refine ⟨a.1.trans b.1, fun hs hp => ?_⟩
    have a2 := (a.2 ⟨hs.here, by show e.rem - (th.qalloc + 8) = d.rem - (th.qalloc + 8); rw [hs.rem], hs.tr⟩
      (prefix_of_ext0 b.1 hp)).2
    exact b.2 a2 hp
  · simp only [h, if_false]
    have b := quantBand_step w P0 i lm1 2 B tf th.b { e with rem := e.rem - th.qalloc } { d with rem := d.rem - th.qalloc }
    exact ⟨b.1, fun hs hp => b.2 ⟨hs.here, by show e.rem - th.qalloc = d.rem - th.qalloc; rw [hs.rem], hs.tr⟩ hp⟩

theorem quantBandStereo_step (w : World) (P0 : List Op) (i lm1 N B : Nat) (tf : Int) (intensity : Nat) (b : Int) :
    Step w P0 (Opus.CeltBandsEnc.quantBandStereo i lm1 N B tf intensity b)
      (Opus.CeltBands.quantBandStereo i lm1 N B tf intensity b) := by
  intro e d
  unfold Opus.CeltBandsEnc.quantBandStereo Opus.CeltBands.quantBandStereo
  by_cases h1 : N = 1
  · simp only [h1, if_true]
    exact Step.comp (n1One_step w P0) (n1One_step w P0) e d
  · simp only [h1, if_false]
    have ht := computeTheta_step w P0 i intensity true N b B ((lm1 : Int) - 1) e d
    generalize hE : Opus.CeltBandsEnc.computeTheta i intensity true N b B ((lm1 : Int) - 1) e = TE at ht ⊢
    generalize hD : Opus.CeltBands.computeTheta i intensity true N b B ((lm1 : Int) - 1) d = TD at ht ⊢
    by_cases h2 : N = 2
    · simp only [h2, if_true]
      have g := stereoN2_step w P0 i lm1 B tf TE.1 TE.2 TD.2
      refine ⟨ht.1.trans g.1, fun hs hp => ?_⟩
      obtain ⟨a, b'⟩ := ht.2 hs (prefix_of_ext0 g.1 hp)
      rw [a]; exact g.2 b' hp
    · simp only [h2, if_false]
      have g := splitGo_step w P0 (Opus.CeltBandsEnc.quantBand i lm1 N B tf) (Opus.CeltBands.quantBand i lm1 N B tf)
        (fun bits => quantBand_step w P0 i lm1 N B tf bits) TE.1 TE.1.delta TE.2 TD.2
      refine ⟨ht.1.trans g.1, fun hs hp => ?_⟩
      obtain ⟨a, b'⟩ := ht.2 hs (prefix_of_ext0 g.1 hp)
      rw [a]; exact g.2 b' hp

/-! ### quant_all_bands -/

theorem bandOne_step (w : World) (P0 : List Op) (p : Opus.CeltBands.BandsIn) (i : Nat) (dual : Bool) (b : Int) :
    Step w P0 (Opus.CeltBandsEnc.bandOne p i dual b) (Opus.CeltBands.bandOne p i dual b) := by
  intro e d
  unfold Opus.CeltBandsEnc.bandOne Opus.CeltBands.bandOne
  by_cases h1 : dual = true
  · simp only [h1, if_true]
    exact Step.comp (quantBand_step w P0 _ _ _ _ _ _) (quantBand_step w P0 _ _ _ _ _ _) e d
  · simp only [h1]
    by_cases h2 : p.C = 2
    · simp only [h2, if_true]
      exact quantBandStereo_step w P0 _ _ _ _ _ _ _ e d
    · simp only [h2, if_false]
      exact quantBand_step w P0 _ _ _ _ _ _ e d

theorem bandLoop_step (w : World) (P0 : List Op) (p : Opus.CeltBands.BandsIn) : ∀ (k i : Nat) (dual : Bool) (balance : Int),
    Step w P0 (Opus.CeltBandsEnc.bandLoop p k i dual balance) (Opus.CeltBands.bandLoop p k i dual balance)
  | 0, _, _, _ => Step.id w P0
  | k + 1, i, dual, balance => by
    intro e d
    simp only [Opus.CeltBandsEnc.bandLoop, Opus.CeltBands.bandLoop]
    have a := bandOne_step w P0 p i (dual && !decide (i = p.intensity))
      (Opus.CeltBands.bandBudget p i (if i ≠ p.start then balance - tellFrac e.s.e else balance) (p.totalBits - tellFrac e.s.e - 1))
      { e with rem := p.totalBits - tellFrac e.s.e - 1 } { d with rem := p.totalBits - tellFrac e.s.e - 1 }
    have b := bandLoop_step w P0 p k (i + 1) (dual && !decide (i = p.intensity))
      ((if i ≠ p.start then balance - tellFrac e.s.e else balance) + p.pulses.getD (i - p.start) 0 + tellFrac e.s.e)
      (Opus.CeltBandsEnc.bandOne p i (dual && !decide (i = p.intensity))
        (Opus.CeltBands.bandBudget p i (if i ≠ p.start then balance - tellFrac e.s.e else balance) (p.totalBits - tellFrac e.s.e - 1))
        { e with rem := p.totalBits - tellFrac e.s.e - 1 })
      (Opus.CeltBands.bandOne p i (dual && !decide (i = p.intensity))
        (Opus.CeltBands.bandBudget p i (if i ≠ p.start then balance - tellFrac e.s.e else balance) (p.totalBits - tellFrac e.s.e - 1))
        { d with rem := p.totalBits - tellFrac e.s.e - 1 })
    refine ⟨a.1.trans b.1, fun hs hp => ?_⟩
    obtain ⟨_, t⟩ := hs.tells (prefix_of_ext0 (a.1.trans b.1) hp)
    rw [t]
    exact b.2 (a.2 ⟨hs.here, rfl, hs.tr⟩ (prefix_of_ext0 b.1 hp)) hp

end OpusProofs.CeltHdr
