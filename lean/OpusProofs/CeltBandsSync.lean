import OpusProofs.CeltHdrMain
import OpusModel.CeltBandsEnc
/-
  OpusProofs.CeltBandsSync — lock-step of the encoder model of the band data (OpusModel/CeltBandsEnc.lean) with C03's
  decoder model (OpusModel/CeltBands.lean) on a finished packet: the framework (`Sim`, `Step`, `StepV`), the three
  primitive coder calls, and slice 1: fine energy, `quant_band_n1`, finalise.
  All the arithmetic that selects the next symbol is the same term on both sides (the encoder model uses C03's pure
  functions); what has to be shown is that it is evaluated on equal inputs: `remaining_bits`, `ec_tell_frac`,
  `ec_tell` and the decoded values.
-/
namespace OpusProofs.CeltHdr
open Opus Opus.RangeCoder Opus.CeltSymsEnc
open Opus.CeltBandsEnc (ESt)
open Opus.CeltBands (BSt)

open Opus.CeltSyms (CEv)

/-- the entropy-decoder events C03's model records for one call of the packet, answered from decoder state `c` -/
def evOf (c : Dec) : Op → List CEv
  | .uint _ ft => [.uint ft (decUint c ft).1]
  | .bits _ n => [.raw n (decBits c n).1]
  | .bitLogp _ logp => [.bit logp (decBitLogp c logp).1]
  | .encode fl fh ft => [.dec ft (RangeCoder.decode c ft).1, .upd fl fh ft]
  | _ => []

/-- … for the calls `ops` that follow the calls `P` -/
def evsFrom (w : World) (P : List Op) : List Op → List CEv
  | [] => []
  | op :: r => evOf (w.decAt P) op ++ evsFrom w (P ++ [op]) r

theorem evsFrom_append (w : World) : ∀ (B : List Op) (P : List Op) (op : Op),
    evsFrom w P (B ++ [op]) = evsFrom w P B ++ evOf (w.decAt (P ++ B)) op
  | [], P, op => by simp [evsFrom]
  | b :: B, P, op => by
    simp only [List.cons_append, evsFrom, evsFrom_append w B (P ++ [b]) op, List.append_assoc, List.nil_append]

/-- encoder model state and decoder model state at the same point of the packet, with the same `remaining_bits`;
    the decoder model's trace (most recent first) is the event list of the encoder's calls behind `A` -/
structure Sim (w : World) (P0 : List Op) (A : List Op) (e : ESt) (d : BSt) : Prop where
  here : Here w P0 e.s d.c
  rem : e.rem = d.rem
  tr : ∃ B, e.s.ops = A ++ B ∧ d.tr.reverse = evsFrom w (P0 ++ A) B

/-- one more call: the trace grows by its events -/
theorem Sim.tr_emit {w : World} {P0 A : List Op} {e : ESt} {d : BSt} (hs : Sim w P0 A e d) (op : Op) (tr' : List CEv)
    (h1 : tr' = (evOf d.c op).reverse ++ d.tr) :
    ∃ B, (e.s.pop.2.emit op).ops = A ++ B ∧ tr'.reverse = evsFrom w (P0 ++ A) B := by
  obtain ⟨B, hB, hT⟩ := hs.tr
  refine ⟨B ++ [op], by rw [emit_ops, pop_ops, hB, List.append_assoc], ?_⟩
  rw [h1, List.reverse_append, List.reverse_reverse, hT, evsFrom_append, hs.here.dec, hB, List.append_assoc]

/-- `fe` only appends calls; and from states in lock-step, if what `fe` writes is in the packet, `fd` reads it back and
    ends in lock-step -/
def Step (w : World) (P0 : List Op) (fe : ESt → ESt) (fd : BSt → BSt) : Prop :=
  ∀ e d, Ext0 e.s (fe e).s ∧
    (∀ {A : List Op}, Sim w P0 A e d → w.IsPrefix (P0 ++ (fe e).s.ops) → Sim w P0 A (fe e) (fd d))

/-- the same for a call that also returns a value: the decoder gets the encoder's value -/
def StepV {α : Type} (w : World) (P0 : List Op) (fe : ESt → α × ESt) (fd : BSt → α × BSt) : Prop :=
  ∀ e d, Ext0 e.s (fe e).2.s ∧
    (∀ {A : List Op}, Sim w P0 A e d → w.IsPrefix (P0 ++ (fe e).2.s.ops) →
      (fd d).1 = (fe e).1 ∧ Sim w P0 A (fe e).2 (fd d).2)

theorem Ext0.refl (s : St) : Ext0 s s := ⟨[], by simp⟩
theorem Ext0.step (s : St) (op : Op) : Ext0 s (s.pop.2.emit op) := ⟨[op], rfl⟩

theorem Step.id (w : World) (P0 : List Op) : Step w P0 (fun e => e) (fun d => d) :=
  fun e _ => ⟨Ext0.refl e.s, fun h _ => h⟩

theorem Step.comp {w : World} {P0 : List Op} {f1 f2 : ESt → ESt} {g1 g2 : BSt → BSt} (h1 : Step w P0 f1 g1)
    (h2 : Step w P0 f2 g2) : Step w P0 (fun e => f2 (f1 e)) (fun d => g2 (g1 d)) := by
  intro e d
  refine ⟨(h1 e d).1.trans (h2 (f1 e) (g1 d)).1, fun hs hp => ?_⟩
  exact (h2 (f1 e) (g1 d)).2 ((h1 e d).2 hs (prefix_of_ext0 (h2 (f1 e) (g1 d)).1 hp)) hp

/-- lock-step gives equal `ec_tell`, `ec_tell_frac` -/
theorem Sim.tells {w : World} {P0 A : List Op} {e : ESt} {d : BSt} (h : Sim w P0 A e d) (hp : w.IsPrefix (P0 ++ e.s.ops)) :
    tell d.c = tell e.s.e ∧ tellFrac d.c = tellFrac e.s.e := by
  obtain ⟨a, b, _, _⟩ := h.here.tells hp
  exact ⟨a, b⟩

/-! ### The primitive calls -/

theorem uint_step (w : World) (P0 : List Op) (ft : Nat) : StepV w P0 (fun e => e.uint ft) (fun d => d.uint ft) := by
  intro e d
  refine ⟨Ext0.step _ _, fun hs hp => ?_⟩
  obtain ⟨a, b⟩ := hs.here.pop.emit_uint e.s.pop.1.toNat ft hp
  exact ⟨a, ⟨b, hs.rem, hs.tr_emit (.uint e.s.pop.1.toNat ft) _ rfl⟩⟩

theorem raw_step (w : World) (P0 : List Op) (n : Nat) : StepV w P0 (fun e => e.raw n) (fun d => d.raw n) := by
  intro e d
  refine ⟨Ext0.step _ _, fun hs hp => ?_⟩
  obtain ⟨a, b⟩ := hs.here.pop.emit_bits e.s.pop.1.toNat n hp
  exact ⟨a, ⟨b, hs.rem, hs.tr_emit (.bits e.s.pop.1.toNat n) _ rfl⟩⟩

theorem bit_step (w : World) (P0 : List Op) (logp : Nat) : StepV w P0 (fun e => e.bit logp) (fun d => d.bit logp) := by
  intro e d
  refine ⟨Ext0.step _ _, fun hs hp => ?_⟩
  obtain ⟨a, b⟩ := hs.here.pop.emit_bit (if e.s.pop.1 ≠ 0 then 1 else 0) logp (bit_le_one _) hp
  exact ⟨a, ⟨b, hs.rem, hs.tr_emit (.bitLogp (if e.s.pop.1 ≠ 0 then 1 else 0) logp) _ rfl⟩⟩

/-- forgetting the value -/
theorem StepV.snd {α : Type} {w : World} {P0 : List Op} {fe : ESt → α × ESt} {fd : BSt → α × BSt} (h : StepV w P0 fe fd) :
    Step w P0 (fun e => (fe e).2) (fun d => (fd d).2) :=
  fun e d => ⟨(h e d).1, fun hs hp => ((h e d).2 hs hp).2⟩

/-! ### Slice 1: fine energy, finalise, one-sample bands -/

theorem rawN_step (w : World) (P0 : List Op) (bits : Nat) : ∀ n,
    Step w P0 (Opus.CeltBandsEnc.rawN bits n) (Opus.CeltBands.rawN bits n)
  | 0 => Step.id w P0
  | n + 1 => fun e d => by
    have := Step.comp (raw_step w P0 bits).snd (rawN_step w P0 bits n) e d
    exact this

theorem fineLoop_step (w : World) (P0 : List Op) (C : Nat) : ∀ l : List Int,
    Step w P0 (Opus.CeltBandsEnc.fineLoop C l) (Opus.CeltBands.fineLoop C l)
  | [] => Step.id w P0
  | fq :: r => fun e d => by
    unfold Opus.CeltBandsEnc.fineLoop Opus.CeltBands.fineLoop
    by_cases h : fq > 0
    · simp only [h, if_true]
      exact Step.comp (rawN_step w P0 fq.toNat C) (fineLoop_step w P0 C r) e d
    · simp only [h, if_false]
      exact fineLoop_step w P0 C r e d

/-- one priority pass of the finalisation: same bits left, lock-step -/
theorem finalPass_step (w : World) (P0 : List Op) (C : Nat) (prio : Int) : ∀ (l : List (Int × Int)) (bl : Int) (e : ESt) (d : BSt),
    Ext0 e.s (Opus.CeltBandsEnc.finalPass C prio l bl e).2.s ∧
    (∀ {A : List Op}, Sim w P0 A e d → w.IsPrefix (P0 ++ (Opus.CeltBandsEnc.finalPass C prio l bl e).2.s.ops) →
      (Opus.CeltBands.finalPass C prio l bl d).1 = (Opus.CeltBandsEnc.finalPass C prio l bl e).1 ∧
      Sim w P0 A (Opus.CeltBandsEnc.finalPass C prio l bl e).2 (Opus.CeltBands.finalPass C prio l bl d).2)
  | [], bl, e, d => ⟨Ext0.refl _, fun h _ => ⟨rfl, h⟩⟩
  | (fq, pr) :: r, bl, e, d => by
    unfold Opus.CeltBandsEnc.finalPass Opus.CeltBands.finalPass
    by_cases h1 : bl < (C : Int)
    · simp only [h1, if_true]
      exact ⟨Ext0.refl _, fun h _ => ⟨trivial, h⟩⟩
    · simp only [h1, if_false]
      by_cases h2 : fq ≥ 8 ∨ pr ≠ prio
      · simp only [h2, if_true]
        exact finalPass_step w P0 C prio r bl e d
      · simp only [h2, if_false]
        have a := rawN_step w P0 1 C e d
        have b := finalPass_step w P0 C prio r (bl - C) (Opus.CeltBandsEnc.rawN 1 C e) (Opus.CeltBands.rawN 1 C d)
        refine ⟨a.1.trans b.1, fun hs hp => ?_⟩
        exact b.2 (a.2 hs (prefix_of_ext0 b.1 hp)) hp

theorem finalise_step (w : World) (P0 : List Op) (C : Nat) (fp : List (Int × Int)) (bl : Int) :
    Step w P0 (Opus.CeltBandsEnc.finalise C fp bl) (Opus.CeltBands.finalise C fp bl) := by
  intro e d
  unfold Opus.CeltBandsEnc.finalise Opus.CeltBands.finalise
  have a := finalPass_step w P0 C 0 fp bl e d
  have b := finalPass_step w P0 C 1 fp (Opus.CeltBandsEnc.finalPass C 0 fp bl e).1 (Opus.CeltBandsEnc.finalPass C 0 fp bl e).2
    (Opus.CeltBands.finalPass C 0 fp bl d).2
  refine ⟨a.1.trans b.1, fun hs hp => ?_⟩
  obtain ⟨a1, a2⟩ := a.2 hs (prefix_of_ext0 b.1 hp)
  have := (b.2 a2 hp).2
  simp only [a1]
  exact this

/-- one channel of `quant_band_n1` -/
theorem n1One_step (w : World) (P0 : List Op) : Step w P0 Opus.CeltBandsEnc.n1One Opus.CeltBands.n1One := by
  intro e d
  unfold Opus.CeltBandsEnc.n1One Opus.CeltBands.n1One
  by_cases h : e.rem ≥ 8
  · simp only [h, if_true]
    refine ⟨(raw_step w P0 1 e d).1, fun hs hp => ?_⟩
    have hd : d.rem ≥ 8 := by rw [← hs.rem]; exact h
    simp only [hd, if_true]
    obtain ⟨_, b⟩ := (raw_step w P0 1 e d).2 hs hp
    exact ⟨b.here, by show (e.raw 1).2.rem - 8 = (d.raw 1).2.rem - 8; rw [b.rem], b.tr⟩
  · simp only [h, if_false]
    refine ⟨Ext0.refl _, fun hs _ => ?_⟩
    have hd : ¬ d.rem ≥ 8 := by rw [← hs.rem]; exact h
    simp only [hd, if_false]
    exact hs

end OpusProofs.CeltHdr
