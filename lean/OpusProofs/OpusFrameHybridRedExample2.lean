import OpusProofs.OpusFrameHybridRedExample
/-
  C08, slice Hybrid — the concrete HYBRID frame WITH redundancy (see OpusProofs/OpusFrameHybridRedExample.lean for the
  redundancy frame): hypotheses of `opus_frame_lockstep_hybrid_red_partial` and the decoder's answer, kernel-evaluated.
-/
namespace Opus.OpusFrameProofs.Example
open Opus Opus.RangeCoder Opus.SilkSyms Opus.SilkSymsEnc Opus.SilkSymsEncProofs Opus.OpusFrameEnc Opus.CeltSymsEnc
open OpusProofs.CeltHdr Opus.OpusFrameProofs

/-! the hybrid frame with redundancy -/

def bufHR : List Nat := List.replicate 90 170
/-- the CELT encoder model starts on the shared coder behind SILK part, signalling and `ec_enc_shrink(60)` -/
def s0HR : St :=
  { e := encRun (encInit bufHR 90) (packetOps (hybridCfg 1 100) hybPacket ++ redSigOps true true 1 1 30 ++ [Op.shrink 60]),
    ops := [], ds := dsH }
def allHR : List Op := match Opus.CeltBandsEnc.encFrame cfgH s0HR with | .ok f => f.ops | _ => []

theorem hybRedLen : worldR19.bytes.length = 30 := by decide +kernel

theorem hybRedHyps :
    LegalRun (encRun (encInit bufHR (91 - 1)) (packetOps (hybridCfg 1 100) hybPacket ++ redSigOps true true 1 1 30))
      (Op.shrink (91 - 1 - 30) :: allHR) ∧
    (encodeAll bufHR (91 - 1) (hybridOps 91 (hybridCfg 1 100) hybPacket true 1 1 30 allHR)).nbitsTotal < 4294967296 ∧
    (encodeAll bufHR (91 - 1) (hybridOps 91 (hybridCfg 1 100) hybPacket true 1 1 30 allHR)).error = 0 ∧
    (encodeAll bufHR (91 - 1) (hybridOps 91 (hybridCfg 1 100) hybPacket true 1 1 30 allHR)).storage = 60 ∧
    tell (encRun (encInit bufHR (91 - 1)) (packetOps (hybridCfg 1 100) hybPacket)) + 17 + 20 ≤ 8 * ((60 + 30 : Nat) : Int) ∧
    tell (encRun (encInit bufHR (91 - 1)) (packetOps (hybridCfg 1 100) hybPacket ++ redSigOps true true 1 1 30)) ≤ 8 * ((60 : Nat) : Int) := by
  refine ⟨by decide +kernel, by decide +kernel, by decide +kernel, by decide +kernel, by decide +kernel,
    by decide +kernel⟩

/-- the decoder on the finished frame: parse, split, and the hypothesis `hmain` (C03's `celtFrame` from the handed-over
    state ends with the encoder's `rng`), all evaluated -/
theorem hybRedDec :
    (match decodeOpusFrame 1001 1104 1 100 false {}
        (hybridFrame bufHR 91 (hybridCfg 1 100) hybPacket true 1 1 allHR worldR19.bytes 727052288).payload with
     | .ok o =>
       (match Opus.CeltBands.celtFrame { start := 17, end_ := 19, C := 1, LM := 2 } o.len.toNat o.dec with
        | .ok cf => decide (o.redundancy = 1 ∧ o.celtToSilk = 1 ∧ o.redundancyBytes = 30 ∧ o.len = 60 ∧
            cf.fin.c.rng = (encodeAll bufHR (91 - 1) (hybridOps 91 (hybridCfg 1 100) hybPacket true 1 1 30 allHR)).rng)
        | _ => false)
     | _ => false) = true := by
  decide +kernel

/-- the hybrid frame of `caseHybrid` (60 bytes, budget test passed, redundancy flag 0 written): the hypotheses of
    `opus_frame_lockstep_hybrid_nored_flag` that `caseHybrid` does not already list, and the decoder's answer -/
theorem hybNoRedHyps :
    tell (encRun (encInit bufH (61 - 1)) (packetOps (hybridCfg 1 100) hybPacket)) + 17 + 20 ≤ 8 * ((60 : Nat) : Int) ∧
    tell (encRun (encInit bufH (61 - 1)) (packetOps (hybridCfg 1 100) hybPacket ++ redSigOps true true 0 0 0)) ≤ 8 * ((60 : Nat) : Int) ∧
    (encodeAll bufH (61 - 1) (hybridOps 61 (hybridCfg 1 100) hybPacket true 0 0 0 allH)).storage = 60 ∧
    (match decodeOpusFrame 1001 1104 1 100 false {} (hybridFrame bufH 61 (hybridCfg 1 100) hybPacket true 0 0 allH [] 0).payload with
     | .ok o => decide (o.redundancy = 0 ∧ o.redundancyBytes = 0 ∧ o.len = 60 ∧ o.dec.storage = 60)
     | _ => false) = true := by
  refine ⟨by decide +kernel, by decide +kernel, by decide +kernel, by decide +kernel⟩

end Opus.OpusFrameProofs.Example
