import OpusProofs.MsEncode
import OpusProofs.EncSkelWf
import OpusProofs.ExtZero
/-
  OpusProofs.MsEncodeSkel — `ms_encode_packet_structure` with every per-stream encoder instantiated by
  the encoder skeleton of C02/C05 (`Opus.EncSkel.encodeNative`, imported read-only): the skeleton's
  success returns meet `EncContract`, so the only assumptions left are the skeleton's own inner
  SILK/CELT/analysis contracts (`(encodeNative …).ok`).  Uses C02's `encodeNative_pkt`,
  `outRange_serialize`, `encodeNative_post` and C16's `count_zeros`.
-/
namespace Opus.MsEncode
open Opus Opus.Framing Opus.FramingSpec Opus.FramingProofs Opus.LayoutSpec
open Opus.EncSkel Opus.EncSkel.Proofs

/-- Codes 0/1/2 have no padding. -/
theorem padFree_of_low (p : Packet) (hv : Valid p) (hc : p.toc % 4 ≠ 3) : RepackProofs.PadFree p := by
  have h4 : p.toc % 4 < 4 := Nat.mod_lt _ (by decide)
  have hpad : p.pad = none ∧ p.frames.length ≤ 2 := by
    have hcases : p.code = 0 ∨ p.code = 1 ∨ p.code = 2 := by unfold Packet.code; omega
    rcases hcases with h | h | h
    · have := hv.code0 h; exact ⟨this.2.2, by omega⟩
    · have := hv.code1 h; exact ⟨this.2.2.1, by omega⟩
    · have := hv.code2 h; exact ⟨this.2.2, by omega⟩
  unfold RepackProofs.PadFree padBytes
  rw [hpad.1]
  exact RepackProofs.count_nil _ (by omega)

/-- The last `k` elements. -/
theorem suffix_zeros {α} (a b c : List α) (z : List α) (h : a ++ b = c ++ z) (hl : b.length ≤ z.length) :
    ∃ z', z = z' ++ b := by
  rcases List.append_eq_append_iff.1 h with ⟨a', _, hb⟩ | ⟨c', _, hz⟩
  · have hl' : a'.length = 0 := by
      have := congrArg List.length hb; simp only [List.length_append] at this; omega
    have ha' : a' = [] := List.eq_nil_of_length_eq_zero hl'
    rw [ha', List.nil_append] at hb
    exact ⟨[], by rw [hb]; rfl⟩
  · exact ⟨c', hz⟩

theorem padFree_of_zero_suffix (p : Packet) (hv : Valid p) (pre : Bytes) (k : Nat)
    (hs : serialize false p = pre ++ List.replicate k 0) (hk : (padBytes p).length ≤ k) : RepackProofs.PadFree p := by
  have hser : serialize false p = (header false p ++ p.frames.flatten) ++ padBytes p := by simp [serialize]
  rw [hser] at hs
  obtain ⟨z', hz⟩ := suffix_zeros _ _ _ _ hs (by simpa using hk)
  have hpz : padBytes p = List.replicate (padBytes p).length 0 := by
    apply List.eq_replicate_iff.2
    refine ⟨rfl, fun x hx => ?_⟩
    have : x ∈ List.replicate k 0 := by rw [hz]; exact List.mem_append_right _ hx
    exact (List.mem_replicate.1 this).2
  unfold RepackProofs.PadFree
  rw [hpz, List.length_replicate]
  have h48 : p.frames.length ≤ 48 := by
    have h4 : p.toc % 4 < 4 := Nat.mod_lt _ (by decide)
    have hcases : p.code = 0 ∨ p.code = 1 ∨ p.code = 2 ∨ p.code = 3 := by unfold Packet.code; omega
    rcases hcases with h | h | h | h
    · have := (hv.code0 h).1; omega
    · have := (hv.code1 h).1; omega
    · have := (hv.code2 h).1; omega
    · obtain ⟨_, h2, _⟩ := hv.code3 h
      have hge := frameDur48_ge p.toc (List.mem_range.mpr hv.toc_byte)
      apply Decidable.byContradiction; intro hgt
      have : 120 * 49 ≤ frameDur48 p.toc * p.frames.length := Nat.mul_le_mul hge (by omega)
      omega
  exact Opus.ExtProofs.count_zeros _ _ h48

/-- Where an `outRange` result comes from: a code-0/1/2 header, or the code-3 branch. -/
theorem outRange_cases (cfg : Nat) (lens : List Nat) (maxlen : Nat) (pad : Bool) (r : OutRes)
    (h : EncSkel.outRange cfg lens maxlen pad = .ok r) :
    (∃ c t, c ≤ 2 ∧ r.hdr = (cfg + c) :: t) ∨ outCode3 cfg lens maxlen pad = .ok r := by
  match lens with
  | [] => simp [EncSkel.outRange] at h
  | [l0] =>
    rw [EncSkel.outRange] at h
    split at h
    · cases h
    · split at h
      · exact Or.inr h
      · cases h; exact Or.inl ⟨0, [], by omega, rfl⟩
  | [l0, l1] =>
    rw [EncSkel.outRange] at h
    split at h
    · split at h
      · cases h
      · split at h
        · exact Or.inr h
        · cases h; exact Or.inl ⟨1, [], by omega, rfl⟩
    · dsimp only at h
      generalize l0 + l1 + 2 + (if l0 ≥ 252 then 1 else 0) = tt at h
      split at h
      · cases h
      · split at h
        · exact Or.inr h
        · cases h; exact Or.inl ⟨2, _, by omega, rfl⟩
  | a :: b :: c :: rest =>
    rw [EncSkel.outRange] at h
    · exact Or.inr h
    all_goals simp

theorem sumN_allEq (l0 : Nat) : ∀ (lens : List Nat), EncSkel.allEq l0 lens = true → sumN lens = lens.length * l0
  | [], _ => by simp
  | x :: xs, h => by
    simp only [EncSkel.allEq, Bool.and_eq_true, beq_iff_eq] at h
    have := sumN_allEq l0 xs h.2
    simp only [sumN_cons, List.length_cons, this, h.1, Nat.add_mul]; omega

/-- **The skeleton pads with zeros only**: any valid packet whose serialisation is what the skeleton
    emits (`hdr ++ frames ++ zeros`, C02 `outRange_serialize`) has extension-free padding. -/
theorem skel_padFree (cfg : Nat) (lens : List Nat) (maxlen : Nat) (pad : Bool) (r : OutRes) (frames : List Bytes)
    (hfl : frames.map List.length = lens) (h4 : cfg % 4 = 0) (h : EncSkel.outRange cfg lens maxlen pad = .ok r)
    (p : Packet) (hv : Valid p) (hf : p.frames = frames) (hs : serialize false p = pktBytes r.hdr frames r.size) :
    RepackProofs.PadFree p := by
  subst hf
  by_cases hc : p.toc % 4 ≠ 3
  · exact padFree_of_low p hv hc
  · have hc3 : p.toc % 4 = 3 := by omega
    have hcode : p.code = 3 := hc3
    have hle := outRange_hdr_le cfg lens maxlen pad r h
    have hFl : p.frames.flatten.length = sumN lens := by rw [flatten_length, hfl]
    have hlens : p.lens = lens := by rw [← hfl]; rfl
    have hcnt : p.frames.length = lens.length := by rw [← hfl]; simp
    have hn64 := Opus.Layout.valid_frames_lt_64 p hv
    apply padFree_of_zero_suffix p hv (r.hdr ++ p.frames.flatten) (r.size - r.hdr.length - p.frames.flatten.length)
    · rw [hs]; rfl
    · have hshape := Opus.Layout.serialize_shape false p
      rw [hs, if_pos hcode] at hshape
      rcases outRange_cases cfg lens maxlen pad r h with ⟨c, t, hc2, hh⟩ | h3
      · exfalso
        rw [hh] at hshape
        simp only [pktBytes, List.cons_append, List.cons.injEq] at hshape
        omega
      · unfold outCode3 at h3
        dsimp only at h3
        generalize hvbr : (!EncSkel.allEq (lens.headD 0) lens) = vbr at h3
        generalize htot : (if vbr = true then 2 + EncSkel.vbrBody lens else lens.length * lens.headD 0 + 2) = tot at h3
        have htot' : tot = 2 + (if vbr = true then vbrLens lens else []).length + sumN lens := by
          rw [← htot]
          cases vbr
          · have : EncSkel.allEq (lens.headD 0) lens = true := by simpa using hvbr
            simp [sumN_allEq _ _ this]; omega
          · simp [Proofs.vbrBody_eq]; omega
        split at h3
        · cases h3
        · generalize hpa : (if pad = true then maxlen - tot else 0) = pa at h3
          -- the explicit length fields of p
          have hlenF : ((lenFields false p).flatMap encLen).length =
              (if p.vbr = true then vbrLens lens else []).length := by
            unfold lenFields
            simp only [hcode, true_and, Bool.false_eq_true, if_false, List.append_nil]
            by_cases hpv : p.vbr = true
            · simp only [hpv, or_true, if_true, hlens, vbrLens_eq]
            · have : p.vbr = false := by simpa using hpv
              simp [this]
          split at h3
          · split at h3
            · cases h3
            · cases h3
              -- padding present
              simp only [pktBytes, List.cons_append, List.append_assoc, List.cons.injEq, List.nil_append,
                List.singleton_append] at hshape
              obtain ⟨_, hcb, hrest⟩ := hshape
              have hcb' : countByte p = (if vbr = true then lens.length + 128 else lens.length) + 64 := hcb.symm
              unfold countByte at hcb'
              have hsome : p.pad.isSome = true ∧ p.vbr = vbr := by
                cases hps : p.pad.isSome <;> cases hpv : p.vbr <;> cases vbr <;> simp [hps, hpv] at hcb' ⊢ <;> omega
              obtain ⟨pd, hpd⟩ := Option.isSome_iff_exists.1 hsome.1
              obtain ⟨hlast, hbytes⟩ := hv.pad_ok pd hpd
              have hlenEq := congrArg List.length hrest
              simp only [padHdrOf, hpd, padBytes, Pad.hdr, List.length_append, List.length_replicate,
                List.length_cons, List.length_nil, padLenBytes_length, hlenF, hsome.2] at hlenEq
              simp only [padBytes, hpd, hbytes, Pad.total, List.length_append, List.length_cons, List.length_nil,
                padLenBytes_length]
              simp only [Pad.total] at hlenEq hbytes
              dsimp only at hle ⊢
              simp only [List.length_append, List.length_cons, List.length_nil, padLenBytes_length] at hle ⊢
              omega
          · cases h3
            simp only [pktBytes, List.cons_append, List.append_assoc, List.cons.injEq, List.nil_append] at hshape
            obtain ⟨_, hcb, _⟩ := hshape
            have hcb' : countByte p = (if vbr = true then lens.length + 128 else lens.length) := hcb.symm
            unfold countByte at hcb'
            have hnone : p.pad.isSome = false := by
              cases hps : p.pad.isSome <;> cases hpv : p.vbr <;> cases vbr <;> simp [hps, hpv] at hcb' ⊢ <;> omega
            have : p.pad = none := by cases hq : p.pad <;> simp [hq] at hnone ⊢
            simp [padBytes, this]

/-! ### the skeleton as the per-stream encoder -/

def errOfInt (e : Int) : Err :=
  if e = -1 then .badArg else if e = -2 then .bufferTooSmall else if e = -4 then .invalidPacket
  else if e = -5 then .unimplemented else if e = -6 then .invalidState else if e = -7 then .allocFail
  else .internalError

/-- Stream `s` of the multistream encoder run by the encoder skeleton of C02/C05: state `sts s`, the
    inner-DSP oracle `ors s curr_max` (SILK / CELT / analysis answers), and ANY frame payload bytes
    `frs s curr_max` of the lengths the skeleton records.  A return `≥ 1` is the packet
    `header ++ frames ++ zero padding`, anything else the error code. -/
def skelEnc (sts : Nat → St) (fuzz : Bool) (fsz : Int) (ors : Nat → Int → NatOr)
    (frs : Nat → Int → List Bytes) : Nat → Int → Res Bytes := fun s cm =>
  let r := EncSkel.encodeNative (sts s) fuzz fsz cm (ors s cm)
  if 1 ≤ r.ret then .ok (pktBytes r.pkt.hdr (frs s cm) r.pkt.size) else .err (errOfInt r.ret)

/-- The inner contracts of every stream's skeleton call, and payloads of the recorded lengths. -/
def SkelOk (sts : Nat → St) (fuzz : Bool) (fsz : Int) (ors : Nat → Int → NatOr)
    (frs : Nat → Int → List Bytes) : Prop :=
  ∀ s cm, (EncSkel.encodeNative (sts s) fuzz fsz cm (ors s cm)).ok = true ∧
    (frs s cm).map List.length = (EncSkel.encodeNative (sts s) fuzz fsz cm (ors s cm)).pkt.lens

theorem skelEnc_total (sts : Nat → St) (fuzz : Bool) (fsz : Int) (ors : Nat → Int → NatOr)
    (frs : Nat → Int → List Bytes) : EncTotal (skelEnc sts fuzz fsz ors frs) := by
  intro s cm
  unfold skelEnc
  dsimp only
  constructor <;> split <;> intro h <;> cases h

/-- **The skeleton meets the per-stream contract of `ms_encode_packet_structure`.** -/
theorem skelEnc_contract (sts : Nat → St) (fuzz : Bool) (fsz : Int) (ors : Nat → Int → NatOr)
    (frs : Nat → Int → List Bytes) (fs : Nat) (hfsAll : ∀ s, (sts s).fs = (fs : Int))
    (hok : SkelOk sts fuzz fsz ors frs) :
    EncContract fs fsz.toNat (skelEnc sts fuzz fsz ors frs) := by
  intro s cm pk h
  unfold skelEnc at h
  dsimp only at h
  obtain ⟨hokr, hfl⟩ := hok s cm
  split at h
  · rename_i hret
    cases h
    have he : entryCheck (sts s) fsz cm = none := by
      cases hq : entryCheck (sts s) fsz cm with
      | none => rfl
      | some e =>
        exfalso
        have hr : (EncSkel.encodeNative (sts s) fuzz fsz cm (ors s cm)).ret = e := by
          unfold EncSkel.encodeNative; rw [hq]; rfl
        rw [hr] at hret
        unfold entryCheck at hq
        dsimp only at hq
        split at hq
        · cases hq; simp [OPUS_BAD_ARG] at hret
        · split at hq
          · cases hq; simp [OPUS_BUFFER_TOO_SMALL] at hret
          · cases hq
    have hp := encodeNative_pkt (sts s) fuzz fsz cm (ors s cm) he hokr
    have hpost := encodeNative_post (sts s) fuzz fsz cm (ors s cm) he hokr
    generalize EncSkel.encodeNative (sts s) fuzz fsz cm (ors s cm) = r at *
    obtain ⟨⟨maxlen, pad, hout⟩, hsize, h4, h256, hlens, hd48, hdur⟩ := hp
    obtain ⟨p, hv, hf, ht, hs⟩ := outRange_serialize r.pkt.tocCfg r.pkt.lens maxlen pad _ (frs s cm) hfl h4 h256 hlens hd48 hout
    dsimp only at hs
    have hpf := skel_padFree r.pkt.tocCfg r.pkt.lens maxlen pad _ (frs s cm) hfl h4 hout p hv hf hs
    refine ⟨p, hv, hpf, hs.symm, ?_, ?_⟩
    · unfold duration
      have hcnt : p.frames.length = r.pkt.lens.length := by rw [hf, ← hfl]; simp
      have hspf : samplesPerFrame p.toc fs = samplesPerFrame r.pkt.tocCfg fs := spf_congr _ _ _ (by omega)
      rw [hcnt, hspf]
      rw [hfsAll s, Int.toNat_natCast] at hdur
      have : ((r.pkt.lens.length * samplesPerFrame r.pkt.tocCfg fs : Nat) : Int) = fsz := by push_cast; exact hdur
      omega
    · have hle := outRange_hdr_le r.pkt.tocCfg r.pkt.lens maxlen pad _ hout
      dsimp only at hle
      have hfl' : (frs s cm).flatten.length = sumN r.pkt.lens := by rw [flatten_length, hfl]
      have hlen : (pktBytes r.pkt.hdr (frs s cm) r.pkt.size).length = r.pkt.size := by
        unfold pktBytes
        simp only [List.length_append, List.length_replicate]; omega
      rw [hlen, hsize]
      exact hpost.retHi
  · cases h

/-! ### a concrete instance (non-vacuity of `SkelOk` and of a successful multistream call) -/

/-- A 48 kHz mono VBR encoder at the minimum bitrate (500 b/s): every 20 ms call takes the low-budget
    path (`bitrate < 3·50·8`) whatever `curr_max`, so the skeleton's `ok` does not depend on inner
    contracts and can be established for ALL `curr_max`. -/
def lowSt : EncSkel.St :=
  { fs := 48000, channels := 1, application := 2049, useVbr := 1, userBitrate := 500, forceChannels := -1000,
    signalType := -1000, userBandwidth := -1000, maxBandwidth := 1105, userForcedMode := -1000, lfe := 0, useDtx := 0,
    fecConfig := 0, variableDuration := 5000, complexity := 5, lossPerc := 0, useInBandFEC := 0, energyMasking := 0,
    streamChannels := 1, mode := 1002, prevMode := 1002, prevChannels := 1, prevFramesize := 960, bandwidth := 1105,
    autoBandwidth := 1105, silkBwSwitch := 0, first := 0, voiceRatio := -1, detectedBandwidth := 0, nbNoActivity := 0,
    nonfinalFrame := 0, bitrateBps := 500, toMono := 0, lbrrCoded := 0, allowBwSwitch := 0, inWBmode := 0,
    opusCanSwitch := 0, silkUseDtx := 0 }
def lowOr (cm : Int) : EncSkel.NatOr :=
  { isSilence := 0, aValid := 0, aBandwidth := 20, vr0 := 10, vr1 := 10, vr2 := 10, modeVoice := 64000, modeMusic := cm,
    rands := [], frames := [] }


theorem lowOk (cm : Int) : (EncSkel.encodeNative lowSt false 960 cm (lowOr cm)).ok = true ∧
    (if cm ≤ 0 then ([] : List Bytes) else [[]]).map List.length = (EncSkel.encodeNative lowSt false 960 cm (lowOr cm)).pkt.lens := by
  by_cases h : cm ≤ 0
  · have he : entryCheck lowSt 960 cm = some OPUS_BAD_ARG := by
      unfold entryCheck; simp; omega
    unfold EncSkel.encodeNative; rw [he]; simp [natErr, h]
  · have he : entryCheck lowSt 960 cm = none := by
      unfold entryCheck
      simp [lowSt]; omega
    unfold EncSkel.encodeNative; rw [he]
    simp only
    have hg : lowBudgetGate (budgetSt lowSt (lowOr cm) 960 cm) 960 (sizeBudget (analysisUpd lowSt (lowOr cm)) 960 cm) = true := by
      simp [lowBudgetGate, budgetSt, sizeBudget, analysisUpd, analysisRuns, lowSt, lowOr, userBitrateToBitrate, EncDecide.OPUS_AUTO, EncDecide.OPUS_BITRATE_MAX]
    rw [if_pos hg]
    simp [lowBudget, h, stOk, legalFrame, lowSt, lowOr, budgetSt, analysisUpd, analysisRuns, lowLens, lowCode, lowC1, lowMode0, EncDecide.BW_NB, EncDecide.MODE_SILK_ONLY,
      EncDecide.OPUS_AUTO, EncDecide.OPUS_BITRATE_MAX, EncDecide.MODE_CELT_ONLY, EncDecide.BW_FB, EncDecide.APP_RESTRICTED_LOWDELAY]

/-- `SkelOk` is inhabited: constant state, the oracle a function of `curr_max`. -/
theorem lowSkelOk : SkelOk (fun _ => lowSt) false 960 (fun _ cm => lowOr cm)
    (fun _ cm => if cm ≤ 0 then [] else [[]]) := fun _ cm => lowOk cm

/-- One successful iteration of the stream loop, given the per-stream packet. -/
theorem loop_step (n : Nat) (fs100 vbr : Bool) (maxData : Int) (enc : Nat → Int → Res Bytes) (k s : Nat) (tot : Int) (acc : Bytes)
    (hs : s < n) (p : Packet) (hv : Valid p) (hpf : RepackProofs.PadFree p)
    (henc : enc s (currMax n s fs100 maxData tot) = .ok (serialize false p))
    (hlen : ((serialize false p).length : Int) ≤ currMax n s fs100 maxData tot) :
    ∃ q : Packet, loop n fs100 vbr maxData enc (k + 1) s tot acc =
      loop n fs100 vbr maxData enc k (s + 1) (tot + ((serialize (decide (s + 1 ≠ n)) q).length : Nat))
        (acc ++ serialize (decide (s + 1 ≠ n)) q) ∧
      ((serialize (decide (s + 1 ≠ n)) q).length : Int) =
        (if (!vbr && decide (s + 1 = n)) = true then maxData - tot else RepackProofs.minSize (decide (s + 1 ≠ n)) p.lens) := by
  have hfit := fits n s hs fs100 maxData tot p hv hlen
  obtain ⟨hcat, q, hout, _, _, hlq⟩ := stream_step 0 (duration 0 p) p hv hpf rfl (maxData - tot)
    (decide (s + 1 ≠ n)) (!vbr && decide (s + 1 = n)) hfit
  refine ⟨q, ?_, hlq⟩
  rw [loop, henc]
  simp only [hcat, hout]

/-- The two-stream multistream encoder over this skeleton instance succeeds (VBR, 100-byte buffer). -/
theorem lowExample_ok : ∃ out, encodeNative 2 48000 960 true none 100
    (skelEnc (fun _ => lowSt) false 960 (fun _ cm => lowOr cm) (fun _ cm => if cm ≤ 0 then [] else [[]])) = .ok out := by
  have hv : Valid ⟨0xF8, [[]], false, none⟩ :=
    { toc_byte := by decide
      frame_max := by intro f hf; simp only [List.mem_singleton] at hf; subst hf; decide
      code0 := fun _ => ⟨rfl, rfl, rfl⟩
      code1 := fun h => absurd h (by decide)
      code2 := fun h => absurd h (by decide)
      code3 := fun h => absurd h (by decide)
      pad_ok := fun pd h => by cases h }
  have hpf : RepackProofs.PadFree ⟨0xF8, [[]], false, none⟩ := RepackProofs.count_nil 1 (by decide)
  have hser : serialize false ⟨0xF8, [[]], false, none⟩ = [0xF8] := by decide
  have henc0 : skelEnc (fun _ => lowSt) false 960 (fun _ cm => lowOr cm)
      (fun _ cm => if cm ≤ 0 then [] else [[]]) 0 98 = .ok [0xF8] := by decide +kernel
  have henc1 : skelEnc (fun _ => lowSt) false 960 (fun _ cm => lowOr cm)
      (fun _ cm => if cm ≤ 0 then [] else [[]]) 1 98 = .ok [0xF8] := by decide +kernel
  unfold encodeNative
  simp only
  rw [if_neg (by decide)]
  have hclamp : cbrClamp 2 false true 48000 960 none 100 = 100 := rfl
  rw [show decide (48000 / 960 = 10) = false from by decide, hclamp]
  have hc0 : currMax 2 0 false 100 0 = 98 := by decide
  obtain ⟨q0, h0, hl0⟩ := loop_step 2 false true 100 _ 1 0 0 [] (by omega)
    ⟨0xF8, [[]], false, none⟩ hv hpf (by rw [hser, hc0]; exact henc0) (by rw [hser, hc0]; decide)
  rw [h0]
  have hl0' : (serialize (decide (0 + 1 ≠ 2)) q0).length = 2 := by
    have : RepackProofs.minSize (decide (0 + 1 ≠ 2)) (Packet.lens ⟨0xF8, [[]], false, none⟩) = 2 := by decide
    rw [this] at hl0
    simp only [Bool.not_true, Bool.false_and, Bool.false_eq_true, if_false] at hl0
    omega
  rw [hl0']
  have hc1 : currMax 2 (0 + 1) false 100 (0 + ((2 : Nat) : Int)) = 98 := by decide
  obtain ⟨q1, h1, _⟩ := loop_step 2 false true 100 _ 0 (0 + 1) (0 + ((2 : Nat) : Int))
    ([] ++ serialize (decide (0 + 1 ≠ 2)) q0) (by omega)
    ⟨0xF8, [[]], false, none⟩ hv hpf (by rw [hser, hc1]; exact henc1) (by rw [hser, hc1]; decide)
  rw [h1]
  exact ⟨_, rfl⟩

end Opus.MsEncode
