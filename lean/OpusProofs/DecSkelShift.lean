import OpusProofs.DecSkelFrame
/-
  OpusProofs.DecSkelShift — two-run simulation: decoding the same frames found at packet offsets that differ by `d`
  (e.g. a packet and its padded / repacketised form), with DSP oracles that answer identically when the frame offset
  they are shown is shifted by `d`, gives the same return values, the same decoder states and oracle-call counters, and
  the same event logs up to a shift of the logged packet offsets.  Purely equational: no invariant, no contract.
-/
namespace Opus.DecSkel
open Opus Opus.Framing

/-- Shift the packet offset a CELT call is shown. -/
def CeltArgs.shiftOff (a : CeltArgs) (d : Int) : CeltArgs := { a with dataOff := a.dataOff.map (· + d) }

/-- Shift the packet offsets logged in an event (`ec_dec_init` offset, CELT data offset); PCM pointers are untouched. -/
def Ev.shiftOff (d : Int) : Ev → Ev
  | .decInit off len => .decInit (off + d) len
  | .celt a p ret => .celt (a.shiftOff d) p ret
  | e => e

/-- The same run with all logged packet offsets shifted. -/
def shiftRun (d : Int) (r : Run) : Run := { r with log := r.log.map (Ev.shiftOff d) }

/-- `o2` answers on frames shifted by `d` what `o1` answers on the unshifted ones ("the DSP reads the same frame bytes at
    a shifted address"); SILK and the range-decoder symbol calls are not shown offsets at all. -/
structure OracleShift (o1 o2 : Oracle) (d : Int) : Prop where
  silk : ∀ k a, o2.silk k a = o1.silk k a
  celt : ∀ k a, o2.celt k (a.shiftOff d) = o1.celt k a
  bit : ∀ k a b, o2.bit k a b = o1.bit k a b
  uint : ∀ k a b, o2.uint k a b = o1.uint k a b

/-- Map the run component of a result. -/
def shiftRes {α : Type} (d : Int) (x : α × Run) : α × Run := (x.1, shiftRun d x.2)

@[simp] theorem shiftRun_st (d : Int) (r : Run) : (shiftRun d r).st = r.st := rfl
@[simp] theorem shiftRun_k (d : Int) (r : Run) : (shiftRun d r).k = r.k := rfl
theorem shiftRun_push (d : Int) (r : Run) (e : Ev) : shiftRun d (r.push e) = (shiftRun d r).push (e.shiftOff d) := by
  simp [shiftRun, Run.push]
theorem shiftRun_tick (d : Int) (r : Run) : shiftRun d r.tick = (shiftRun d r).tick := rfl
theorem shiftRun_setSt (d : Int) (r : Run) (s : DecState) : shiftRun d (r.setSt s) = (shiftRun d r).setSt s := rfl
theorem shiftRun_push_same (d : Int) (r : Run) (e : Ev) (h : e.shiftOff d = e) : shiftRun d (r.push e) = (shiftRun d r).push e := by
  rw [shiftRun_push, h]

theorem CeltArgs.shiftOff_none (a : CeltArgs) (d : Int) (h : a.dataOff = none) : a.shiftOff d = a := by
  cases a; simp only [CeltArgs.shiftOff] at *; subst h; rfl

/-- A data pointer moved by `d`. -/
def shiftData (d : Int) (x : Option Int) : Option Int := x.map (· + d)

/-! ### SILK -/

theorem silkStep_shift {o1 o2 : Oracle} {d : Int} (h : OracleShift o1 o2 d) (lost fsz decoded : Int) (p : Ptr) (tell : Int) (r : Run) :
    (silkStep o2 lost fsz decoded p tell (shiftRun d r)).err = (silkStep o1 lost fsz decoded p tell r).err ∧
    (silkStep o2 lost fsz decoded p tell (shiftRun d r)).n = (silkStep o1 lost fsz decoded p tell r).n ∧
    (silkStep o2 lost fsz decoded p tell (shiftRun d r)).tell = (silkStep o1 lost fsz decoded p tell r).tell ∧
    (silkStep o2 lost fsz decoded p tell (shiftRun d r)).run = shiftRun d (silkStep o1 lost fsz decoded p tell r).run := by
  unfold silkStep
  simp only [shiftRun_st, shiftRun_k, h.silk]
  by_cases c1 : (o1.silk r.k
      { payloadSize_ms := r.st.dc.payloadSize_ms, internalSampleRate := r.st.dc.internalSampleRate,
        nChannelsInternal := r.st.dc.nChannelsInternal, nChannelsAPI := r.st.dc.nChannelsAPI,
        API_sampleRate := r.st.dc.API_sampleRate, lostFlag := lost, newPacketFlag := if decoded = 0 then 1 else 0 }).1 ≠ 0 ∧ lost = 0
  · simp only [if_pos c1]
    exact ⟨trivial, trivial, trivial, by rw [shiftRun_push, shiftRun_tick]; rfl⟩
  · simp only [if_neg c1]
    by_cases c2 : (o1.silk r.k
        { payloadSize_ms := r.st.dc.payloadSize_ms, internalSampleRate := r.st.dc.internalSampleRate,
          nChannelsInternal := r.st.dc.nChannelsInternal, nChannelsAPI := r.st.dc.nChannelsAPI,
          API_sampleRate := r.st.dc.API_sampleRate, lostFlag := lost, newPacketFlag := if decoded = 0 then 1 else 0 }).1 ≠ 0
    · simp only [if_pos c2]
      exact ⟨trivial, trivial, trivial, by rw [shiftRun_push, shiftRun_push, shiftRun_tick]; rfl⟩
    · simp only [if_neg c2]
      exact ⟨trivial, trivial, trivial, by rw [shiftRun_push, shiftRun_tick]; rfl⟩

theorem silkLoop_shift {o1 o2 : Oracle} {d : Int} (h : OracleShift o1 o2 d) (lost fsz : Int) :
    ∀ (n : Nat) (decoded : Int) (p : Ptr) (tell : Int) (r : Run), (fsz - decoded).toNat ≤ n →
      silkLoop o2 lost fsz decoded p tell (shiftRun d r) = shiftRes d (silkLoop o1 lost fsz decoded p tell r) := by
  intro n
  induction n with
  | zero =>
    intro decoded p tell r hn
    obtain ⟨e1, e2, e3, e4⟩ := silkStep_shift h lost fsz decoded p tell r
    rw [silkLoop]
    conv => rhs; rw [silkLoop]
    simp only [e1, e2, e3, e4]
    by_cases c1 : (silkStep o1 lost fsz decoded p tell r).err ≠ 0
    · simp only [if_pos c1]; rfl
    · simp only [if_neg c1]
      by_cases c2 : decoded + (silkStep o1 lost fsz decoded p tell r).n < fsz
      · simp only [dif_pos c2]
        by_cases c3 : (silkStep o1 lost fsz decoded p tell r).n ≤ 0
        · simp only [dif_pos c3]; rfl
        · omega
      · simp only [dif_neg c2]; rfl
  | succ n ih =>
    intro decoded p tell r hn
    obtain ⟨e1, e2, e3, e4⟩ := silkStep_shift h lost fsz decoded p tell r
    rw [silkLoop]
    conv => rhs; rw [silkLoop]
    simp only [e1, e2, e3, e4]
    by_cases c1 : (silkStep o1 lost fsz decoded p tell r).err ≠ 0
    · simp only [if_pos c1]; rfl
    · simp only [if_neg c1]
      by_cases c2 : decoded + (silkStep o1 lost fsz decoded p tell r).n < fsz
      · simp only [dif_pos c2]
        by_cases c3 : (silkStep o1 lost fsz decoded p tell r).n ≤ 0
        · simp only [dif_pos c3]; rfl
        · simp only [dif_neg c3, shiftRun_st]
          exact ih _ _ _ _ (by omega)
      · simp only [dif_neg c2]; rfl

/-! ### bodies with a shifted data pointer -/

/-- The same frame found `d` bytes further into the packet. -/
def Body.shift (d : Int) (b : Body) : Body := { b with data := shiftData d b.data }

@[simp] theorem shiftData_isSome (d : Int) (x : Option Int) : (shiftData d x).isSome = x.isSome := by cases x <;> rfl
@[simp] theorem shiftData_isNone (d : Int) (x : Option Int) : (shiftData d x).isNone = x.isNone := by cases x <;> rfl
@[simp] theorem Body.shift_pcm (d : Int) (b : Body) : (b.shift d).pcm = b.pcm := rfl
@[simp] theorem Body.shift_len (d : Int) (b : Body) : (b.shift d).len = b.len := rfl
@[simp] theorem Body.shift_fs (d : Int) (b : Body) : (b.shift d).frame_size = b.frame_size := rfl
@[simp] theorem Body.shift_aud (d : Int) (b : Body) : (b.shift d).audiosize = b.audiosize := rfl
@[simp] theorem Body.shift_mode (d : Int) (b : Body) : (b.shift d).mode = b.mode := rfl
@[simp] theorem Body.shift_bw (d : Int) (b : Body) : (b.shift d).bandwidth = b.bandwidth := rfl
@[simp] theorem Body.shift_fec (d : Int) (b : Body) : (b.shift d).fec = b.fec := rfl
@[simp] theorem Body.shift_data (d : Int) (b : Body) : (b.shift d).data = shiftData d b.data := rfl

theorem bindRun_shift {α β : Type} (d : Int) (x1 : Out α × Run) (f1 f2 : α → Run → Out β × Run)
    (hf : ∀ a r, f2 a (shiftRun d r) = shiftRes d (f1 a r)) :
    bindRun (shiftRes d x1) f2 = shiftRes d (bindRun x1 f1) := by
  rcases x1 with ⟨x, r⟩
  cases x with
  | ret a => exact hf a r
  | abort => rfl
  | hang => rfl

theorem silkConfig_shift (st : DecState) (b : Body) (d : Int) : silkConfig st (b.shift d) = silkConfig st b := by
  rcases b with ⟨data, len, pcm, fs, aud, mode, bw, fec⟩
  cases data <;> rfl

theorem silkLost_shift (b : Body) (d : Int) : silkLost (b.shift d) = silkLost b := by
  rcases b with ⟨data, len, pcm, fs, aud, mode, bw, fec⟩
  cases data <;> rfl

theorem ite_push_shift (c : Prop) [Decidable c] (d : Int) (r : Run) (e : Ev) (he : e.shiftOff d = e) :
    (if c then (shiftRun d r).push e else shiftRun d r) = shiftRun d (if c then r.push e else r) := by
  split
  · rw [shiftRun_push, he]
  · rfl

theorem silkStage_shift {o1 o2 : Oracle} {d : Int} (h : OracleShift o1 o2 d) (b : Body) (r : Run) :
    silkStage o2 (b.shift d) (shiftRun d r) = shiftRes d (silkStage o1 b r) := by
  unfold silkStage
  simp only [silkConfig_shift, silkLost_shift, Body.shift_aud, Body.shift_pcm]
  show (match silkConfig r.st b with
    | none => (Out.abort, if r.st.prev_mode = MODE_CELT then (shiftRun d r).push Ev.silkReset else shiftRun d r)
    | some st3 =>
      bindRun (silkLoop o2 (silkLost b) b.audiosize 0 (if b.audiosize < F10 r.st then silkBuf r.st else b.pcm) 1
          ((if r.st.prev_mode = MODE_CELT then (shiftRun d r).push Ev.silkReset else shiftRun d r).setSt st3)) fun et r1 =>
        if et.1 ≠ 0 then (Out.ret et, r1)
        else if b.audiosize < F10 r.st then
          (Out.ret (0, et.2), (r1.push (.acc 1 (silkBuf r.st) (b.audiosize * r.st.channels))).push (.acc 2 b.pcm (b.audiosize * r.st.channels)))
        else (Out.ret (0, et.2), r1)) = _
  rw [ite_push_shift _ d r Ev.silkReset rfl]
  cases hc : silkConfig r.st b with
  | none => rfl
  | some st3 =>
    simp only
    rw [← shiftRun_setSt, silkLoop_shift h _ _ _ _ _ _ _ (Nat.le_refl _)]
    apply bindRun_shift
    intro et r1
    by_cases c1 : et.1 ≠ 0
    · simp only [if_pos c1]; rfl
    · simp only [if_neg c1]
      by_cases c2 : b.audiosize < F10 r.st
      · simp only [if_pos c2, shiftRes]
        rw [shiftRun_push, shiftRun_push]; rfl
      · simp only [if_neg c2]; rfl

/-! ### redundancy parse (range-decoder symbols only) -/

theorem redFinish_shift (d : Int) (a b c e f : Int) (r : Run) :
    redFinish a b c e f (shiftRun d r) = shiftRes d (redFinish a b c e f r) := by
  unfold redFinish; split <;> rfl

theorem redTail_shift {o1 o2 : Oracle} {d : Int} (h : OracleShift o1 o2 d) (mode len red tell : Int) (r : Run) :
    redTail o2 mode len red tell (shiftRun d r) = shiftRes d (redTail o1 mode len red tell r) := by
  unfold redTail
  simp only [shiftRun_k, Run.tick_k, h.bit, h.uint]
  split
  · exact redFinish_shift d _ _ _ _ _ r.tick.tick
  · exact redFinish_shift d _ _ _ _ _ r.tick

theorem parseRedundancy_shift {o1 o2 : Oracle} {d : Int} (h : OracleShift o1 o2 d) (mode len tell : Int) (r : Run) :
    parseRedundancy o2 mode len tell (shiftRun d r) = shiftRes d (parseRedundancy o1 mode len tell r) := by
  unfold parseRedundancy
  simp only [shiftRun_k, h.bit]
  by_cases c0 : tell + 17 + (if mode = MODE_HYBRID then 20 else 0) ≤ 8 * len
  · simp only [if_pos c0]
    by_cases c1 : mode = MODE_HYBRID
    · simp only [if_pos c1]
      by_cases c2 : (o1.bit r.k 12 tell).1 ≠ 0
      · simp only [if_pos c2]; exact redTail_shift h _ _ _ _ r.tick
      · simp only [if_neg c2]; rfl
    · simp only [if_neg c1]; exact redTail_shift h _ _ _ _ r
  · simp only [if_neg c0]; rfl

theorem redStage_shift {o1 o2 : Oracle} {d : Int} (h : OracleShift o1 o2 d) (b : Body) (tell : Int) (r : Run) :
    redStage o2 (b.shift d) tell (shiftRun d r) = shiftRes d (redStage o1 b tell r) := by
  unfold redStage
  simp only [Body.shift_fec, Body.shift_mode, Body.shift_data, shiftData_isSome, Body.shift_len]
  split
  · exact parseRedundancy_shift h _ _ _ _
  · rfl

/-! ### CELT stage -/

theorem celtCall_shift {o1 o2 : Oracle} {d : Int} (h : OracleShift o1 o2 d) (a : CeltArgs) (p : Ptr) (r : Run) :
    celtCall o2 (a.shiftOff d) p (shiftRun d r) = shiftRes d (celtCall o1 a p r) := by
  unfold celtCall
  simp only [shiftRun_k, h.celt, shiftRes]
  rw [shiftRun_push, shiftRun_tick]; rfl

theorem redArgs_shift (st : DecState) (b : Body) (red : Red) (site : Nat) (d : Int) :
    redArgs st (b.shift d) red site = (redArgs st b red site).shiftOff d := by
  rcases b with ⟨data, len, pcm, fs, aud, mode, bw, fec⟩
  cases data with
  | none => rfl
  | some x =>
    simp only [redArgs, Body.shift, shiftData, CeltArgs.shiftOff, Option.map_some]
    congr 2; omega

theorem mainArgs_shift (st : DecState) (b : Body) (red : Red) (d : Int) :
    mainArgs st (b.shift d) red = (mainArgs st b red).shiftOff d := by
  rcases b with ⟨data, len, pcm, fs, aud, mode, bw, fec⟩
  dsimp only [mainArgs, Body.shift, CeltArgs.shiftOff]
  by_cases hf : fec ≠ 0
  · rw [if_pos hf, if_pos hf]; rfl
  · rw [if_neg hf, if_neg hf]; rfl

theorem silenceArgs_shift (st : DecState) (b : Body) (d : Int) :
    silenceArgs st (b.shift d) = (silenceArgs st b).shiftOff d := rfl

theorem stepRedC2S_shift {o1 o2 : Oracle} {d : Int} (h : OracleShift o1 o2 d) (b : Body) (red : Red) (r : Run) :
    stepRedC2S o2 (b.shift d) red (shiftRun d r) = shiftRun d (stepRedC2S o1 b red r) := by
  unfold stepRedC2S
  by_cases c : red.redundancy ≠ 0 ∧ red.celt_to_silk ≠ 0
  · rw [if_pos c, if_pos c]
    show (celtCall o2 (redArgs r.st (b.shift d) red 0) (redBuf r.st red) (shiftRun d r)).2 = _
    rw [redArgs_shift, celtCall_shift h]; rfl
  · rw [if_neg c, if_neg c]

theorem stepMainCelt_shift {o1 o2 : Oracle} {d : Int} (h : OracleShift o1 o2 d) (b : Body) (red : Red) (r : Run) :
    stepMainCelt o2 (b.shift d) red (shiftRun d r) = shiftRes d (stepMainCelt o1 b red r) := by
  rw [stepMainCelt_eq, stepMainCelt_eq]
  show (if b.mode ≠ MODE_SILK then celtCall o2 (mainArgs r.st (b.shift d) red) b.pcm (shiftRun d r)
    else if r.st.prev_mode = MODE_HYBRID ∧ ¬(red.redundancy ≠ 0 ∧ red.celt_to_silk ≠ 0 ∧ r.st.prev_redundancy ≠ 0) then
      (0, (celtCall o2 (silenceArgs r.st (b.shift d)) b.pcm (shiftRun d r)).2)
    else (0, shiftRun d r)) = _
  by_cases c1 : b.mode ≠ MODE_SILK
  · rw [if_pos c1, if_pos c1, mainArgs_shift, celtCall_shift h]
  · rw [if_neg c1, if_neg c1]
    by_cases c2 : r.st.prev_mode = MODE_HYBRID ∧ ¬(red.redundancy ≠ 0 ∧ red.celt_to_silk ≠ 0 ∧ r.st.prev_redundancy ≠ 0)
    · rw [if_pos c2, if_pos c2, silenceArgs_shift, celtCall_shift h]; rfl
    · rw [if_neg c2, if_neg c2]; rfl

theorem stepRedS2C_shift {o1 o2 : Oracle} {d : Int} (h : OracleShift o1 o2 d) (b : Body) (red : Red) (r : Run) :
    stepRedS2C o2 (b.shift d) red (shiftRun d r) = shiftRun d (stepRedS2C o1 b red r) := by
  unfold stepRedS2C
  show (if red.redundancy ≠ 0 ∧ red.celt_to_silk = 0 then
      ((celtCall o2 (redArgs r.st (b.shift d) red 3) (redBuf r.st red) (shiftRun d r)).2.push
        (.acc 3 (b.pcm.add (r.st.channels * (b.audiosize - F2_5 r.st))) (F2_5 r.st * r.st.channels))).push
        (.acc 4 ((redBuf r.st red).add (r.st.channels * F2_5 r.st)) (F2_5 r.st * r.st.channels))
    else shiftRun d r) = shiftRun d (if red.redundancy ≠ 0 ∧ red.celt_to_silk = 0 then
      ((celtCall o1 (redArgs r.st b red 3) (redBuf r.st red) r).2.push
        (.acc 3 (b.pcm.add (r.st.channels * (b.audiosize - F2_5 r.st))) (F2_5 r.st * r.st.channels))).push
        (.acc 4 ((redBuf r.st red).add (r.st.channels * F2_5 r.st)) (F2_5 r.st * r.st.channels))
    else r)
  by_cases c : red.redundancy ≠ 0 ∧ red.celt_to_silk = 0
  · rw [if_pos c, if_pos c, redArgs_shift, celtCall_shift h]
    simp only [shiftRes]
    rw [shiftRun_push, shiftRun_push]; rfl
  · rw [if_neg c, if_neg c]

theorem stepRedCopy_shift (d : Int) (b : Body) (red : Red) (r : Run) :
    stepRedCopy (b.shift d) red (shiftRun d r) = shiftRun d (stepRedCopy b red r) := by
  unfold stepRedCopy
  show (if red.redundancy ≠ 0 ∧ red.celt_to_silk ≠ 0 ∧ (r.st.prev_mode ≠ MODE_SILK ∨ r.st.prev_redundancy ≠ 0) then
      ((shiftRun d r).push (.acc 5 (redBuf r.st red) (2 * F2_5 r.st * r.st.channels))).push
        (.acc 6 b.pcm (2 * F2_5 r.st * r.st.channels)) else shiftRun d r) =
    shiftRun d (if red.redundancy ≠ 0 ∧ red.celt_to_silk ≠ 0 ∧ (r.st.prev_mode ≠ MODE_SILK ∨ r.st.prev_redundancy ≠ 0) then
      (r.push (.acc 5 (redBuf r.st red) (2 * F2_5 r.st * r.st.channels))).push
        (.acc 6 b.pcm (2 * F2_5 r.st * r.st.channels)) else r)
  split
  · rw [shiftRun_push, shiftRun_push]; rfl
  · rfl

theorem stepTransFade_shift (d : Int) (b : Body) (tr : Bool) (r : Run) :
    stepTransFade (b.shift d) tr (shiftRun d r) = shiftRun d (stepTransFade b tr r) := by
  unfold stepTransFade
  show (if tr = true then
      if b.audiosize ≥ F5 r.st then
        ((shiftRun d r).push (.acc 7 (transBuf r.st) (2 * F2_5 r.st * r.st.channels))).push (.acc 8 b.pcm (2 * F2_5 r.st * r.st.channels))
      else ((shiftRun d r).push (.acc 9 (transBuf r.st) (F2_5 r.st * r.st.channels))).push (.acc 10 b.pcm (F2_5 r.st * r.st.channels))
    else shiftRun d r) =
    shiftRun d (if tr = true then
      if b.audiosize ≥ F5 r.st then
        (r.push (.acc 7 (transBuf r.st) (2 * F2_5 r.st * r.st.channels))).push (.acc 8 b.pcm (2 * F2_5 r.st * r.st.channels))
      else (r.push (.acc 9 (transBuf r.st) (F2_5 r.st * r.st.channels))).push (.acc 10 b.pcm (F2_5 r.st * r.st.channels))
    else r)
  split
  · split
    · rw [shiftRun_push, shiftRun_push]; rfl
    · rw [shiftRun_push, shiftRun_push]; rfl
  · rfl

theorem stepGain_shift (d : Int) (b : Body) (r : Run) :
    stepGain (b.shift d) (shiftRun d r) = shiftRun d (stepGain b r) := by
  unfold stepGain
  show (if r.st.decode_gain ≠ 0 then (shiftRun d r).push (.acc 11 b.pcm (b.audiosize * r.st.channels)) else shiftRun d r) =
    shiftRun d (if r.st.decode_gain ≠ 0 then r.push (.acc 11 b.pcm (b.audiosize * r.st.channels)) else r)
  split
  · rw [shiftRun_push]; rfl
  · rfl

theorem stepFinish_shift (d : Int) (b : Body) (red : Red) (r : Run) :
    stepFinish (b.shift d) red (shiftRun d r) = shiftRun d (stepFinish b red r) := rfl

theorem celtStage_shift {o1 o2 : Oracle} {d : Int} (h : OracleShift o1 o2 d) (b : Body) (red : Red) (tr : Bool) (r : Run) :
    celtStage o2 (b.shift d) red tr (shiftRun d r) = shiftRes d (celtStage o1 b red tr r) := by
  unfold celtStage
  simp only [stepRedC2S_shift h, stepMainCelt_shift h, shiftRes, stepRedS2C_shift h, stepRedCopy_shift, stepTransFade_shift,
    stepGain_shift, stepFinish_shift, Body.shift_aud]

/-! ### the frame body -/

theorem bindRun_shift' {α β : Type} (d : Int) (x1 x2 : Out α × Run) (f1 f2 : α → Run → Out β × Run)
    (hx : x2 = shiftRes d x1) (hf : ∀ a r, f2 a (shiftRun d r) = shiftRes d (f1 a r)) :
    bindRun x2 f2 = shiftRes d (bindRun x1 f1) := by
  rw [hx]; exact bindRun_shift d x1 f1 f2 hf

/-- A recursive-call parameter (`trans`, `inner`) of the second run simulates that of the first. -/
def TransShift (d : Int) (t1 t2 : Ptr → Int → Run → Res') : Prop :=
  ∀ p n r, t2 p n (shiftRun d r) = shiftRes d (t1 p n r)

theorem wantTransition_shift (st : DecState) (b : Body) (d : Int) : wantTransition st (b.shift d) = wantTransition st b := by
  rcases b with ⟨data, len, pcm, fs, aud, mode, bw, fec⟩
  cases data <;> rfl

/-- Clearing / restoring the gain around the recursive call commutes with the offset shift. -/
theorem gain0Call_shift {d : Int} {t1 t2 : Ptr → Int → Run → Res'} (ht : TransShift d t1 t2) :
    TransShift d (gain0Call t1) (gain0Call t2) := by
  intro p n r
  unfold gain0Call
  show ((t2 p n (shiftRun d (r.setSt { r.st with decode_gain := 0 }))).1,
        (t2 p n (shiftRun d (r.setSt { r.st with decode_gain := 0 }))).2.setSt
          { (t2 p n (shiftRun d (r.setSt { r.st with decode_gain := 0 }))).2.st with decode_gain := r.st.decode_gain }) = _
  rw [ht p n]
  rfl

theorem transCall_shift {d : Int} {t1 t2 : Ptr → Int → Run → Res'} (ht : TransShift d t1 t2) (b : Body) (r : Run) :
    transCall t2 (b.shift d) (shiftRun d r) = shiftRes d (transCall t1 b r) := by
  unfold transCall
  show bindRun (gain0Call t2 (transBuf r.st) (min (F5 r.st) b.audiosize) (shiftRun d r)) (fun _ r' => (Out.ret (), r')) = _
  exact bindRun_shift' d _ _ _ _ (gain0Call_shift ht _ _ _) (fun _ _ => rfl)

/-- `frameBody` after the SILK stage. -/
def fbTail (o : Oracle) (trans : Ptr → Int → Run → Res') (b : Body) (transition : Bool) (et : Int × Int) (r : Run) : Res' :=
  if et.1 ≠ 0 then (.ret et.1, r)
  else
    bindRun (if (if (redStage o b et.2 r).1.redundancy ≠ 0 then false else transition) = true ∧ b.mode ≠ MODE_CELT
        then transCall trans b (redStage o b et.2 r).2 else (.ret (), (redStage o b et.2 r).2)) fun _ r' =>
      if ¬ endbandOk b.bandwidth then (.abort, r')
      else celtStage o b (redStage o b et.2 r).1 (if (redStage o b et.2 r).1.redundancy ≠ 0 then false else transition) r'

theorem frameBody_eq (o : Oracle) (trans : Ptr → Int → Run → Res') (b : Body) (r : Run) :
    frameBody o trans b r =
      bindRun (if wantTransition r.st b = true ∧ b.mode = MODE_CELT then transCall trans b r else (.ret (), r)) fun _ r1 =>
        if b.audiosize > b.frame_size then (.ret BAD_ARG, r1)
        else bindRun (if b.mode ≠ MODE_CELT then silkStage o b r1 else (.ret (0, 1), r1)) (fbTail o trans b (wantTransition r.st b)) := rfl

theorem fbTail_shift {o1 o2 : Oracle} {d : Int} (h : OracleShift o1 o2 d) {t1 t2 : Ptr → Int → Run → Res'}
    (ht : TransShift d t1 t2) (b : Body) (tr : Bool) (et : Int × Int) (r : Run) :
    fbTail o2 t2 (b.shift d) tr et (shiftRun d r) = shiftRes d (fbTail o1 t1 b tr et r) := by
  unfold fbTail
  by_cases c0 : et.1 ≠ 0
  · rw [if_pos c0, if_pos c0]; rfl
  rw [if_neg c0, if_neg c0]
  have hred := redStage_shift h b et.2 r
  have h1 : (redStage o2 (b.shift d) et.2 (shiftRun d r)).1 = (redStage o1 b et.2 r).1 := by rw [hred]; rfl
  have h2 : (redStage o2 (b.shift d) et.2 (shiftRun d r)).2 = shiftRun d (redStage o1 b et.2 r).2 := by rw [hred]; rfl
  rw [h1, h2]
  show bindRun (if (if (redStage o1 b et.2 r).1.redundancy ≠ 0 then false else tr) = true ∧ b.mode ≠ MODE_CELT
      then transCall t2 (b.shift d) (shiftRun d (redStage o1 b et.2 r).2) else (.ret (), shiftRun d (redStage o1 b et.2 r).2))
      (fun _ r' => if ¬ endbandOk b.bandwidth then (.abort, r')
        else celtStage o2 (b.shift d) (redStage o1 b et.2 r).1 (if (redStage o1 b et.2 r).1.redundancy ≠ 0 then false else tr) r') = _
  apply bindRun_shift'
  · by_cases c1 : (if (redStage o1 b et.2 r).1.redundancy ≠ 0 then false else tr) = true ∧ b.mode ≠ MODE_CELT
    · rw [if_pos c1, if_pos c1]; exact transCall_shift ht b _
    · rw [if_neg c1, if_neg c1]; rfl
  · intro _ r'
    by_cases c2 : ¬ endbandOk b.bandwidth
    · rw [if_pos c2, if_pos c2]; rfl
    · rw [if_neg c2, if_neg c2]; exact celtStage_shift h b _ _ r'

theorem frameBody_shift {o1 o2 : Oracle} {d : Int} (h : OracleShift o1 o2 d) {t1 t2 : Ptr → Int → Run → Res'}
    (ht : TransShift d t1 t2) (b : Body) (r : Run) :
    frameBody o2 t2 (b.shift d) (shiftRun d r) = shiftRes d (frameBody o1 t1 b r) := by
  rw [frameBody_eq, frameBody_eq]
  show bindRun (if wantTransition r.st (b.shift d) = true ∧ b.mode = MODE_CELT then transCall t2 (b.shift d) (shiftRun d r)
      else (.ret (), shiftRun d r)) (fun _ r1 =>
        if b.audiosize > b.frame_size then (.ret BAD_ARG, r1)
        else bindRun (if b.mode ≠ MODE_CELT then silkStage o2 (b.shift d) r1 else (.ret (0, 1), r1))
          (fbTail o2 t2 (b.shift d) (wantTransition r.st (b.shift d)))) = _
  rw [wantTransition_shift]
  apply bindRun_shift'
  · by_cases c1 : wantTransition r.st b = true ∧ b.mode = MODE_CELT
    · rw [if_pos c1, if_pos c1]; exact transCall_shift ht b r
    · rw [if_neg c1, if_neg c1]; rfl
  · intro _ r1
    by_cases c2 : b.audiosize > b.frame_size
    · rw [if_pos c2, if_pos c2]; rfl
    · rw [if_neg c2, if_neg c2]
      apply bindRun_shift'
      · by_cases c3 : b.mode ≠ MODE_CELT
        · rw [if_pos c3, if_pos c3]; exact silkStage_shift h b r1
        · rw [if_neg c3, if_neg c3]; rfl
      · intro et r2; exact fbTail_shift h ht b _ et r2

/-! ### concealment layers -/

theorem plcLoop_shift {d : Int} {i1 i2 : Ptr → Int → Run → Res'} (ht : TransShift d i1 i2) (f20 ch frame_size : Int) :
    ∀ (n : Nat) (audiosize : Int) (pcm : Ptr) (r : Run), audiosize.toNat ≤ n →
      plcLoop i2 f20 ch frame_size audiosize pcm (shiftRun d r) = shiftRes d (plcLoop i1 f20 ch frame_size audiosize pcm r) := by
  intro n
  induction n with
  | zero =>
    intro audiosize pcm r hn
    rw [plcLoop]
    conv => rhs; rw [plcLoop]
    rw [ht]
    rcases hx : i1 pcm (min audiosize f20) r with ⟨out, r1⟩
    cases out with
    | ret ret =>
      simp only [shiftRes]
      by_cases c1 : ret < 0
      · simp only [if_pos c1]
      · simp only [if_neg c1]
        by_cases c2 : ret = 0
        · simp only [dif_pos c2]
        · simp only [dif_neg c2]
          have : ¬ audiosize - ret > 0 := by omega
          simp only [dif_neg this]
    | abort => rfl
    | hang => rfl
  | succ n ih =>
    intro audiosize pcm r hn
    rw [plcLoop]
    conv => rhs; rw [plcLoop]
    rw [ht]
    rcases hx : i1 pcm (min audiosize f20) r with ⟨out, r1⟩
    cases out with
    | ret ret =>
      simp only [shiftRes]
      by_cases c1 : ret < 0
      · simp only [if_pos c1]
      · simp only [if_neg c1]
        by_cases c2 : ret = 0
        · simp only [dif_pos c2]
        · simp only [dif_neg c2]
          by_cases c3 : audiosize - ret > 0
          · simp only [dif_pos c3]
            exact ih _ _ _ (by omega)
          · simp only [dif_neg c3]
    | abort => rfl
    | hang => rfl

theorem abortStub_shift (d : Int) : TransShift d (fun _ _ r => (Out.abort, r)) (fun _ _ r => (Out.abort, r)) :=
  fun _ _ _ => rfl

theorem nullAfterClamp_shift {o1 o2 : Oracle} {d : Int} (h : OracleShift o1 o2 d) {i1 i2 : Ptr → Int → Run → Res'}
    (ht : TransShift d i1 i2) (len : Int) (pcm : Ptr) (frame_size : Int) (r : Run) :
    nullAfterClamp o2 i2 len pcm frame_size (shiftRun d r) = shiftRes d (nullAfterClamp o1 i1 len pcm frame_size r) := by
  unfold nullAfterClamp
  show (if (if r.st.prev_redundancy ≠ 0 then MODE_CELT else r.st.prev_mode) = 0 then
      (Out.ret frame_size, (shiftRun d r).push (.acc 12 pcm (frame_size * r.st.channels)))
    else if frame_size > F20 r.st then plcLoop i2 (F20 r.st) r.st.channels frame_size frame_size pcm (shiftRun d r)
    else frameBody o2 (fun _ _ r => (Out.abort, r))
      { data := none, len := len, pcm := pcm, frame_size := frame_size,
        audiosize := if frame_size < F20 r.st then
            if frame_size > F10 r.st then F10 r.st
            else if (if r.st.prev_redundancy ≠ 0 then MODE_CELT else r.st.prev_mode) ≠ MODE_SILK ∧ frame_size > F5 r.st ∧ frame_size < F10 r.st then F5 r.st
            else frame_size
          else frame_size,
        mode := if r.st.prev_redundancy ≠ 0 then MODE_CELT else r.st.prev_mode, bandwidth := 0, fec := 0 } (shiftRun d r)) =
    shiftRes d (if (if r.st.prev_redundancy ≠ 0 then MODE_CELT else r.st.prev_mode) = 0 then
      (Out.ret frame_size, r.push (.acc 12 pcm (frame_size * r.st.channels)))
    else if frame_size > F20 r.st then plcLoop i1 (F20 r.st) r.st.channels frame_size frame_size pcm r
    else frameBody o1 (fun _ _ r => (Out.abort, r))
      { data := none, len := len, pcm := pcm, frame_size := frame_size,
        audiosize := if frame_size < F20 r.st then
            if frame_size > F10 r.st then F10 r.st
            else if (if r.st.prev_redundancy ≠ 0 then MODE_CELT else r.st.prev_mode) ≠ MODE_SILK ∧ frame_size > F5 r.st ∧ frame_size < F10 r.st then F5 r.st
            else frame_size
          else frame_size,
        mode := if r.st.prev_redundancy ≠ 0 then MODE_CELT else r.st.prev_mode, bandwidth := 0, fec := 0 } r)
  generalize (if r.st.prev_redundancy ≠ 0 then MODE_CELT else r.st.prev_mode) = mode
  by_cases c0 : mode = 0
  · rw [if_pos c0, if_pos c0]; simp only [shiftRes]; rw [shiftRun_push]; rfl
  · rw [if_neg c0, if_neg c0]
    by_cases c1 : frame_size > F20 r.st
    · rw [if_pos c1, if_pos c1]; exact plcLoop_shift ht _ _ _ _ _ _ _ (Nat.le_refl _)
    · rw [if_neg c1, if_neg c1]
      exact frameBody_shift h (abortStub_shift d)
        { data := none, len := len, pcm := pcm, frame_size := frame_size,
          audiosize := if frame_size < F20 r.st then
              if frame_size > F10 r.st then F10 r.st
              else if mode ≠ MODE_SILK ∧ frame_size > F5 r.st ∧ frame_size < F10 r.st then F5 r.st else frame_size
            else frame_size,
          mode := mode, bandwidth := 0, fec := 0 } r

theorem nullFrameGen_shift {o1 o2 : Oracle} {d : Int} (h : OracleShift o1 o2 d) {i1 i2 : Ptr → Int → Run → Res'}
    (ht : TransShift d i1 i2) : TransShift d (nullFrameGen o1 i1) (nullFrameGen o2 i2) := by
  intro pcm n r
  unfold nullFrameGen
  show (if n < F2_5 r.st then (Out.ret BUFFER_TOO_SMALL, shiftRun d r)
    else nullAfterClamp o2 i2 0 pcm (min (min n (r.st.Fs / 25 * 3)) r.st.frame_size) (shiftRun d r)) =
    shiftRes d (if n < F2_5 r.st then (Out.ret BUFFER_TOO_SMALL, r)
    else nullAfterClamp o1 i1 0 pcm (min (min n (r.st.Fs / 25 * 3)) r.st.frame_size) r)
  split
  · rfl
  · exact nullAfterClamp_shift h ht _ _ _ _

theorem nullFrameLeaf_shift {o1 o2 : Oracle} {d : Int} (h : OracleShift o1 o2 d) :
    TransShift d (nullFrameLeaf o1) (nullFrameLeaf o2) := nullFrameGen_shift h (abortStub_shift d)

theorem nullFrame_shift {o1 o2 : Oracle} {d : Int} (h : OracleShift o1 o2 d) :
    TransShift d (nullFrame o1) (nullFrame o2) := nullFrameGen_shift h (nullFrameLeaf_shift h)

/-- `opus_decode_frame` on the same frame at a shifted packet offset. -/
theorem decodeFrame_shift {o1 o2 : Oracle} {d : Int} (h : OracleShift o1 o2 d) (data : Option Int) (len : Int) (pcm : Ptr)
    (frame_size fec : Int) (r : Run) :
    decodeFrame o2 (shiftData d data) len pcm frame_size fec (shiftRun d r) =
      shiftRes d (decodeFrame o1 data len pcm frame_size fec r) := by
  unfold decodeFrame
  show (if frame_size < F2_5 r.st then (Out.ret BUFFER_TOO_SMALL, shiftRun d r)
    else if len ≤ 1 ∨ (shiftData d data).isNone = true then
      nullAfterClamp o2 (nullFrameLeaf o2) len pcm (min (min frame_size (r.st.Fs / 25 * 3)) r.st.frame_size) (shiftRun d r)
    else frameBody o2 (nullFrame o2)
      { data := shiftData d data, len := len, pcm := pcm, frame_size := min frame_size (r.st.Fs / 25 * 3),
        audiosize := r.st.frame_size, mode := r.st.mode, bandwidth := r.st.bandwidth, fec := fec }
      ((shiftRun d r).push (.decInit ((shiftData d data).getD 0) len))) =
    shiftRes d (if frame_size < F2_5 r.st then (Out.ret BUFFER_TOO_SMALL, r)
    else if len ≤ 1 ∨ data.isNone = true then
      nullAfterClamp o1 (nullFrameLeaf o1) len pcm (min (min frame_size (r.st.Fs / 25 * 3)) r.st.frame_size) r
    else frameBody o1 (nullFrame o1)
      { data := data, len := len, pcm := pcm, frame_size := min frame_size (r.st.Fs / 25 * 3),
        audiosize := r.st.frame_size, mode := r.st.mode, bandwidth := r.st.bandwidth, fec := fec }
      (r.push (.decInit (data.getD 0) len)))
  split
  · rfl
  · rw [shiftData_isNone]
    split
    · exact nullAfterClamp_shift h (nullFrameLeaf_shift h) _ _ _ _
    · rename_i hc
      have hsome : ∃ x, data = some x := by
        cases data with
        | none => exact absurd (Or.inr rfl) hc
        | some x => exact ⟨x, rfl⟩
      obtain ⟨x, rfl⟩ := hsome
      have hpush : (shiftRun d r).push (.decInit ((shiftData d (some x)).getD 0) len) = shiftRun d (r.push (.decInit ((some x).getD 0) len)) := by
        rw [shiftRun_push]; rfl
      rw [hpush]
      exact frameBody_shift h (nullFrame_shift h)
        { data := some x, len := len, pcm := pcm, frame_size := min frame_size (r.st.Fs / 25 * 3),
          audiosize := r.st.frame_size, mode := r.st.mode, bandwidth := r.st.bandwidth, fec := fec } _

/-! ### opus_decode_native -/

theorem frameLoop_shift {o1 o2 : Oracle} {d : Int} (h : OracleShift o1 o2 d) (pcm : Ptr) (frame_size pfs : Int) :
    ∀ (sizes : List Nat) (off nb : Int) (r : Run),
      frameLoop o2 pcm frame_size pfs sizes (off + d) nb (shiftRun d r) = shiftRes d (frameLoop o1 pcm frame_size pfs sizes off nb r) := by
  intro sizes
  induction sizes with
  | nil => intro off nb r; rfl
  | cons sz rest ih =>
    intro off nb r
    rw [frameLoop, frameLoop]
    have hdf := decodeFrame_shift h (some off) sz (pcm.add (nb * r.st.channels)) (frame_size - nb) 0 r
    show (match decodeFrame o2 (shiftData d (some off)) sz (pcm.add (nb * r.st.channels)) (frame_size - nb) 0 (shiftRun d r) with
      | (.ret ret, r1) => if ret < 0 then (Out.ret ret, r1) else if ret ≠ pfs then (Out.abort, r1)
          else frameLoop o2 pcm frame_size pfs rest (off + d + sz) (nb + ret) r1
      | x => x) = _
    rw [hdf]
    rcases hx : decodeFrame o1 (some off) sz (pcm.add (nb * r.st.channels)) (frame_size - nb) 0 r with ⟨out, r1⟩
    cases out with
    | ret ret =>
      simp only [shiftRes]
      by_cases c1 : ret < 0
      · simp only [if_pos c1]
      · simp only [if_neg c1]
        by_cases c2 : ret ≠ pfs
        · simp only [if_pos c2]
        · simp only [if_neg c2]
          have : off + d + sz = off + sz + d := by omega
          rw [this]
          exact ih _ _ _
    | abort => rfl
    | hang => rfl

theorem nativePlcLoop_shift {o1 o2 : Oracle} {d : Int} (h : OracleShift o1 o2 d) (frame_size : Int) (pcm : Ptr) :
    ∀ (n : Nat) (pcm_count : Int) (r : Run), (frame_size - pcm_count).toNat ≤ n →
      nativePlcLoop o2 frame_size pcm pcm_count (shiftRun d r) = shiftRes d (nativePlcLoop o1 frame_size pcm pcm_count r) := by
  intro n
  induction n with
  | zero =>
    intro pcm_count r hn
    rw [nativePlcLoop]
    conv => rhs; rw [nativePlcLoop]
    have hdf := decodeFrame_shift h none 0 (pcm.add (pcm_count * r.st.channels)) (frame_size - pcm_count) 0 r
    show (match decodeFrame o2 (shiftData d none) 0 (pcm.add (pcm_count * r.st.channels)) (frame_size - pcm_count) 0 (shiftRun d r) with
      | (.ret ret, r1) => if ret < 0 then (Out.ret ret, r1) else if _h : ret = 0 then (Out.hang, r1)
          else if _h2 : pcm_count + ret < frame_size then nativePlcLoop o2 frame_size pcm (pcm_count + ret) r1
          else if pcm_count + ret ≠ frame_size then (Out.abort, r1)
          else (Out.ret (pcm_count + ret), r1.setSt { r1.st with last_packet_duration := pcm_count + ret })
      | x => x) = _
    rw [hdf]
    rcases hx : decodeFrame o1 none 0 (pcm.add (pcm_count * r.st.channels)) (frame_size - pcm_count) 0 r with ⟨out, r1⟩
    cases out with
    | ret ret =>
      simp only [shiftRes]
      by_cases c1 : ret < 0
      · simp only [if_pos c1]
      · simp only [if_neg c1]
        by_cases c2 : ret = 0
        · simp only [dif_pos c2]
        · simp only [dif_neg c2]
          have c3 : ¬ pcm_count + ret < frame_size := by omega
          simp only [dif_neg c3]
          by_cases c4 : pcm_count + ret ≠ frame_size
          · simp only [if_pos c4]
          · simp only [if_neg c4]; rfl
    | abort => rfl
    | hang => rfl
  | succ n ih =>
    intro pcm_count r hn
    rw [nativePlcLoop]
    conv => rhs; rw [nativePlcLoop]
    have hdf := decodeFrame_shift h none 0 (pcm.add (pcm_count * r.st.channels)) (frame_size - pcm_count) 0 r
    show (match decodeFrame o2 (shiftData d none) 0 (pcm.add (pcm_count * r.st.channels)) (frame_size - pcm_count) 0 (shiftRun d r) with
      | (.ret ret, r1) => if ret < 0 then (Out.ret ret, r1) else if _h : ret = 0 then (Out.hang, r1)
          else if _h2 : pcm_count + ret < frame_size then nativePlcLoop o2 frame_size pcm (pcm_count + ret) r1
          else if pcm_count + ret ≠ frame_size then (Out.abort, r1)
          else (Out.ret (pcm_count + ret), r1.setSt { r1.st with last_packet_duration := pcm_count + ret })
      | x => x) = _
    rw [hdf]
    rcases hx : decodeFrame o1 none 0 (pcm.add (pcm_count * r.st.channels)) (frame_size - pcm_count) 0 r with ⟨out, r1⟩
    cases out with
    | ret ret =>
      simp only [shiftRes]
      by_cases c1 : ret < 0
      · simp only [if_pos c1]
      · simp only [if_neg c1]
        by_cases c2 : ret = 0
        · simp only [dif_pos c2]
        · simp only [dif_neg c2]
          by_cases c3 : pcm_count + ret < frame_size
          · simp only [dif_pos c3]
            exact ih _ _ (by omega)
          · simp only [dif_neg c3]
            by_cases c4 : pcm_count + ret ≠ frame_size
            · simp only [if_pos c4]
            · simp only [if_neg c4]; rfl
    | abort => rfl
    | hang => rfl

theorem nativePlc_shift {o1 o2 : Oracle} {d : Int} (h : OracleShift o1 o2 d) (pcm : Ptr) (frame_size : Int) (r : Run) :
    nativePlc o2 pcm frame_size (shiftRun d r) = shiftRes d (nativePlc o1 pcm frame_size r) := by
  unfold nativePlc
  show (if ¬ validateOk r.st = true then (Out.abort, shiftRun d r)
    else if cmod frame_size (r.st.Fs / 400) ≠ 0 then (Out.ret BAD_ARG, shiftRun d r)
    else nativePlcLoop o2 frame_size pcm 0 (shiftRun d r)) =
    shiftRes d (if ¬ validateOk r.st = true then (Out.abort, r)
    else if cmod frame_size (r.st.Fs / 400) ≠ 0 then (Out.ret BAD_ARG, r)
    else nativePlcLoop o1 frame_size pcm 0 r)
  split
  · rfl
  · split
    · rfl
    · exact nativePlcLoop_shift h _ _ _ _ _ (Nat.le_refl _)

theorem fecGap_shift {o1 o2 : Oracle} {d : Int} (h : OracleShift o1 o2 d) (pcm : Ptr) (gap : Int) (r : Run) :
    fecGap o2 pcm gap (shiftRun d r) = shiftRes d (fecGap o1 pcm gap r) := by
  unfold fecGap
  by_cases c0 : gap ≠ 0
  · rw [if_pos c0, if_pos c0, nativePlc_shift h]
    rcases hx : nativePlc o1 pcm gap r with ⟨out, r1⟩
    cases out with
    | ret ret =>
      simp only [shiftRes, shiftRun_st]
      by_cases c1 : ret < 0
      · simp only [if_pos c1]; rfl
      · simp only [if_neg c1]
        by_cases c2 : ret ≠ gap
        · simp only [if_pos c2]
        · simp only [if_neg c2]
    | abort => rfl
    | hang => rfl
  · rw [if_neg c0, if_neg c0]; rfl

theorem nativeFec_shift {o1 o2 : Oracle} {d : Int} (h : OracleShift o1 o2 d) (pcm : Ptr)
    (frame_size pfs pm pb pc off0 sz0 : Int) (r : Run) :
    nativeFec o2 pcm frame_size pfs pm pb pc (off0 + d) sz0 (shiftRun d r) =
      shiftRes d (nativeFec o1 pcm frame_size pfs pm pb pc off0 sz0 r) := by
  unfold nativeFec
  show (if frame_size < pfs ∨ pm = MODE_CELT ∨ r.st.mode = MODE_CELT then nativePlc o2 pcm frame_size (shiftRun d r)
    else match fecGap o2 pcm (frame_size - pfs) (shiftRun d r) with
      | (.ret v, r1) => if v < 0 then (Out.ret v, r1)
        else match decodeFrame o2 (shiftData d (some off0)) sz0 (pcm.add (r.st.channels * (frame_size - pfs))) pfs 1
              (r1.setSt (setToc r1.st pm pb pfs pc)) with
          | (.ret ret, r3) => if ret < 0 then (Out.ret ret, r3)
            else (Out.ret frame_size, r3.setSt { r3.st with last_packet_duration := frame_size })
          | x => x
      | x => x) = _
  by_cases c0 : frame_size < pfs ∨ pm = MODE_CELT ∨ r.st.mode = MODE_CELT
  · rw [if_pos c0, if_pos c0]; exact nativePlc_shift h _ _ _
  · rw [if_neg c0, if_neg c0, fecGap_shift h]
    rcases hx : fecGap o1 pcm (frame_size - pfs) r with ⟨out, r1⟩
    cases out with
    | ret v =>
      simp only [shiftRes]
      by_cases c1 : v < 0
      · simp only [if_pos c1]
      · simp only [if_neg c1]
        have hdf := decodeFrame_shift h (some off0) sz0 (pcm.add (r.st.channels * (frame_size - pfs))) pfs 1
          (r1.setSt (setToc r1.st pm pb pfs pc))
        rw [shiftRun_setSt] at hdf
        simp only [shiftRun_st]
        rw [hdf]
        rcases hy : decodeFrame o1 (some off0) sz0 (pcm.add (r.st.channels * (frame_size - pfs))) pfs 1
          (r1.setSt (setToc r1.st pm pb pfs pc)) with ⟨out2, r3⟩
        cases out2 with
        | ret ret =>
          simp only [shiftRes]
          by_cases c2 : ret < 0
          · simp only [if_pos c2]
          · simp only [if_neg c2]; rfl
        | abort => rfl
        | hang => rfl
    | abort => rfl
    | hang => rfl

theorem nativeFrames_shift {o1 o2 : Oracle} {d : Int} (h : OracleShift o1 o2 d) (pcm : Ptr)
    (frame_size pfs pm pb pc : Int) (sizes : List Nat) (off0 : Int) (sc : Bool) (r : Run) :
    nativeFrames o2 pcm frame_size pfs pm pb pc sizes (off0 + d) sc (shiftRun d r) =
      shiftRes d (nativeFrames o1 pcm frame_size pfs pm pb pc sizes off0 sc r) := by
  unfold nativeFrames
  have hfl := frameLoop_shift h pcm frame_size pfs sizes off0 0 (r.setSt (setToc r.st pm pb pfs pc))
  rw [shiftRun_setSt] at hfl
  simp only [shiftRun_st]
  rw [hfl]
  rcases hx : frameLoop o1 pcm frame_size pfs sizes off0 0 (r.setSt (setToc r.st pm pb pfs pc)) with ⟨out, r2⟩
  cases out with
  | ret nb =>
    simp only [shiftRes]
    by_cases c1 : nb < 0
    · simp only [if_pos c1]
    · simp only [if_neg c1]
      cases sc with
      | true => simp only [↓reduceIte]; rw [shiftRun_push]; rfl
      | false => simp only [Bool.false_eq_true, ↓reduceIte]; rfl
  | abort => rfl
  | hang => rfl

/-- The TOC helpers ignore the two frame-count-code bits. -/
theorem toc_helpers_congr (t1 t2 : Nat) (fs : Nat) (h : t1 / 4 = t2 / 4) :
    getMode t1 = getMode t2 ∧ getBandwidth t1 = getBandwidth t2 ∧ samplesPerFrame t1 fs = samplesPerFrame t2 fs ∧
    getNbChannels t1 = getNbChannels t2 := by
  have e1 : t1 / 128 = t2 / 128 := by omega
  have e2 : t1 / 32 = t2 / 32 := by omega
  have e3 : t1 / 8 = t2 / 8 := by omega
  have e4 : t1 / 16 = t2 / 16 := by omega
  unfold getMode getBandwidth samplesPerFrame getNbChannels
  rw [e1, e2, e3, e4, h]
  exact ⟨rfl, rfl, rfl, rfl⟩

/-- Two-run simulation of `opus_decode_native`: two byte strings whose parses report the same frame sizes (and count)
    and whose TOC bytes agree up to the frame-count code — e.g. a packet and its padded / unpadded / repacketised form —
    decoded from the same state with the same arguments by DSP oracles that answer identically on frames shifted by
    `d = payloadOffset₂ − payloadOffset₁`: same return value, same final decoder state and oracle-call counter, and the
    same inner-call / access log up to the shift of the logged packet offsets.  (`packet_offset` itself differs.) -/
theorem decodeNative_shift {o1 o2 : Oracle} (bs1 bs2 : Bytes) (sd1 sd2 : Bool) (p1 p2 : Parsed)
    (hp1 : parseImpl sd1 bs1 = .ok p1) (hp2 : parseImpl sd2 bs2 = .ok p2) (hsizes : p1.sizes = p2.sizes)
    (hcount : p1.count = p2.count) (htoc : bs1.headD 0 / 4 = bs2.headD 0 / 4)
    (h : OracleShift o1 o2 ((p2.payloadOffset : Int) - (p1.payloadOffset : Int)))
    (pcm : Ptr) (frame_size fec : Int) (sc : Bool) (r : Run) :
    (decodeNative o2 (some bs2) bs2.length pcm frame_size fec sd2 sc
        (shiftRun ((p2.payloadOffset : Int) - (p1.payloadOffset : Int)) r)).ret =
      (decodeNative o1 (some bs1) bs1.length pcm frame_size fec sd1 sc r).ret ∧
    (decodeNative o2 (some bs2) bs2.length pcm frame_size fec sd2 sc
        (shiftRun ((p2.payloadOffset : Int) - (p1.payloadOffset : Int)) r)).run =
      shiftRun ((p2.payloadOffset : Int) - (p1.payloadOffset : Int)) (decodeNative o1 (some bs1) bs1.length pcm frame_size fec sd1 sc r).run := by
  generalize hd : (p2.payloadOffset : Int) - (p1.payloadOffset : Int) = d at *
  have hne : ∀ (bs : Bytes) (sd : Bool) (p : Parsed), parseImpl sd bs = .ok p → bs ≠ [] := by
    intro bs sd p hh hnil; subst hnil; simp [parseImpl] at hh
  have hl1 : ¬ ((bs1.length : Int) = 0 ∨ (some bs1).isNone = true) := by have := hne bs1 sd1 p1 hp1; simp [this]
  have hl2 : ¬ ((bs2.length : Int) = 0 ∨ (some bs2).isNone = true) := by have := hne bs2 sd2 p2 hp2; simp [this]
  obtain ⟨tm, tb, ts, tc⟩ := toc_helpers_congr (bs1.headD 0) (bs2.headD 0) r.st.Fs.toNat htoc
  obtain ⟨r2, hr2⟩ : ∃ r2, r2 = shiftRun d r := ⟨_, rfl⟩
  have hst : r2.st = r.st := by rw [hr2]; rfl
  rw [← hr2]
  unfold decodeNative
  simp only [hst, Option.getD_some, Int.toNat_natCast, List.take_length, hp1, hp2]
  by_cases c0 : ¬ validateOk r.st = true
  · simp only [if_pos c0, NativeOut.mk']; exact ⟨trivial, hr2⟩
  simp only [if_neg c0]
  by_cases c1 : fec < 0 ∨ fec > 1
  · simp only [if_pos c1, NativeOut.mk']; exact ⟨trivial, hr2⟩
  simp only [if_neg c1]
  by_cases c2 : fec ≠ 0 ∧ cmod frame_size (r.st.Fs / 400) ≠ 0
  · have d1 : (fec ≠ 0 ∨ (bs1.length : Int) = 0 ∨ (some bs1).isNone = true) ∧ cmod frame_size (r.st.Fs / 400) ≠ 0 := ⟨Or.inl c2.1, c2.2⟩
    have d2 : (fec ≠ 0 ∨ (bs2.length : Int) = 0 ∨ (some bs2).isNone = true) ∧ cmod frame_size (r.st.Fs / 400) ≠ 0 := ⟨Or.inl c2.1, c2.2⟩
    simp only [if_pos d1, if_pos d2, NativeOut.mk']; exact ⟨trivial, hr2⟩
  have d1 : ¬ ((fec ≠ 0 ∨ (bs1.length : Int) = 0 ∨ (some bs1).isNone = true) ∧ cmod frame_size (r.st.Fs / 400) ≠ 0) := by
    rintro ⟨hh | hh, hm⟩
    · exact c2 ⟨hh, hm⟩
    · exact hl1 hh
  have d2 : ¬ ((fec ≠ 0 ∨ (bs2.length : Int) = 0 ∨ (some bs2).isNone = true) ∧ cmod frame_size (r.st.Fs / 400) ≠ 0) := by
    rintro ⟨hh | hh, hm⟩
    · exact c2 ⟨hh, hm⟩
    · exact hl2 hh
  have n1 : ¬ (bs1.length : Int) < 0 := by omega
  have n2 : ¬ (bs2.length : Int) < 0 := by omega
  simp only [if_neg d1, if_neg d2, if_neg hl1, if_neg hl2, if_neg n1, if_neg n2]
  have hoff : (p2.payloadOffset : Int) = (p1.payloadOffset : Int) + d := by omega
  by_cases c3 : fec ≠ 0
  · simp only [if_pos c3, NativeOut.mk']
    rw [← tm, ← tb, ← ts, ← tc, ← hsizes, hoff, hr2, nativeFec_shift h]
    exact ⟨rfl, rfl⟩
  · simp only [if_neg c3]
    rw [← ts, ← hcount]
    by_cases c4 : (p1.count : Int) * (samplesPerFrame (bs1.headD 0) r.st.Fs.toNat : Int) > frame_size
    · simp only [if_pos c4, NativeOut.mk']; exact ⟨trivial, hr2⟩
    · simp only [if_neg c4, NativeOut.mk']
      rw [← tm, ← tb, ← tc, ← hsizes, hoff, hr2, nativeFrames_shift h]
      exact ⟨rfl, rfl⟩

end Opus.DecSkel
