import OpusModel.Matrix
/-
  OpusProofs.MatrixProduct — the integer product P = D·M of the regenerated demixing and mixing
  matrices (C10 `demix_inverts_mix`), checked entry by entry in the kernel.  Core Lean only.

  Cells are Q15, so P is Q30: the identity is 2^30.  With a linear gain `G` enclosed by the rationals
  `lo ≤ G ≤ hi`, the entry test `|P·G − δ·2^30| ≤ 3·10⁻⁴·2^30` is linear in `G`, hence it holds on
  the whole interval as soon as it holds at both ends; at a rational end `a/b` it is the integer
  inequality `|P·a − δ·2^30·b|·10^4 ≤ 3·2^30·b`.
-/
namespace Opus.Matrix
open Opus

/-- `|P·(a/b) − δ·2^30| ≤ 3·10⁻⁴·2^30`, cleared of denominators (`b > 0`). -/
def entryOk (a b : Nat) (p : Int) (diag : Bool) : Bool :=
  decide (((p * a - (if diag then 2 ^ 30 else 0) * b).natAbs) * 10000 ≤ 3 * 2 ^ 30 * b)

/-- One column `j` of P, rows from `i` on. -/
def checkCol (lo hi : Nat × Nat) (j : Nat) : List Int → Nat → Bool
  | [], _ => true
  | p :: ps, i =>
    entryOk lo.1 lo.2 p (i = j) && entryOk hi.1 hi.2 p (i = j) && checkCol lo hi j ps (i + 1)

/-- All columns from `j` on; every column must have exactly `n` rows. -/
def checkCols (lo hi : Nat × Nat) (n : Nat) : List (List Int) → Nat → Bool
  | [], _ => true
  | c :: cs, j => decide (c.length = n) && checkCol lo hi j c 0 && checkCols lo hi n cs (j + 1)

/-- Entry `(i, j)` of a column list (0 outside). -/
def entry (cols : List (List Int)) (i j : Nat) : Int := ((cols[j]?).getD [])[i]?.getD 0

theorem checkCol_spec (lo hi : Nat × Nat) (j : Nat) : ∀ (ps : List Int) (i0 : Nat),
    checkCol lo hi j ps i0 = true → ∀ i p, ps[i]? = some p →
      entryOk lo.1 lo.2 p (i0 + i = j) = true ∧ entryOk hi.1 hi.2 p (i0 + i = j) = true
  | [], _, _, i, p, h => by simp at h
  | q :: qs, i0, hc, i, p, h => by
    simp only [checkCol, Bool.and_eq_true] at hc
    cases i with
    | zero =>
      simp only [List.getElem?_cons_zero, Option.some.injEq] at h
      subst h; exact ⟨hc.1.1, hc.1.2⟩
    | succ i =>
      simp only [List.getElem?_cons_succ] at h
      have := checkCol_spec lo hi j qs (i0 + 1) hc.2 i p h
      rw [show i0 + (i + 1) = i0 + 1 + i from by omega]
      exact this

theorem checkCols_spec (lo hi : Nat × Nat) (n : Nat) : ∀ (cols : List (List Int)) (j0 : Nat),
    checkCols lo hi n cols j0 = true → ∀ j c, cols[j]? = some c →
      c.length = n ∧ checkCol lo hi (j0 + j) c 0 = true
  | [], _, _, j, c, h => by simp at h
  | d :: ds, j0, hc, j, c, h => by
    simp only [checkCols, Bool.and_eq_true, decide_eq_true_eq] at hc
    cases j with
    | zero =>
      simp only [List.getElem?_cons_zero, Option.some.injEq] at h
      subst h; exact ⟨hc.1.1, hc.1.2⟩
    | succ j =>
      simp only [List.getElem?_cons_succ] at h
      have := checkCols_spec lo hi n ds (j0 + 1) hc.2 j c h
      rw [show j0 + (j + 1) = j0 + 1 + j from by omega]
      exact this

/-- From the single-pass check to the statement about every entry. -/
theorem checkCols_entry (lo hi : Nat × Nat) (n : Nat) (cols : List (List Int)) (hlen : cols.length = n)
    (h : checkCols lo hi n cols 0 = true) (i j : Nat) (hi' : i < n) (hj : j < n) :
    entryOk lo.1 lo.2 (entry cols i j) (i = j) = true ∧ entryOk hi.1 hi.2 (entry cols i j) (i = j) = true := by
  have hj' : j < cols.length := by omega
  obtain ⟨hcl, hcc⟩ := checkCols_spec lo hi n cols 0 h j cols[j] (List.getElem?_eq_getElem hj')
  have hi'' : i < cols[j].length := by omega
  have := checkCol_spec lo hi (0 + j) cols[j] 0 hcc i (cols[j])[i] (List.getElem?_eq_getElem hi'')
  simp only [Nat.zero_add] at this
  unfold entry
  rw [List.getElem?_eq_getElem hj', Option.getD_some, List.getElem?_eq_getElem hi'', Option.getD_some]
  exact this

/-- The product columns for `order_plus_one = o` restricted to `ch` channels (`ch = o²+2` with the
    non-diegetic pair, `o²` without): `D[0..ch,0..ch] · M[0..ch,0..ch]`, exactly the cells the
    projection encoder mixes with and exports for demixing. -/
def product (o ch : Nat) : List (List Int) :=
  match mixing o, demixing o with
  | some m, some d => productCols d m ch ch
  | _, _ => []

/-- Gain (Q8 dB) stored with the demixing matrix of `order_plus_one = o`. -/
def demixGain (o : Nat) : Int := ((demixing o).map (·.gain)).getD 0

/-- Rational enclosure of `10^(g/5120)` for the gains that occur: `g = 0` is exactly 1;
    `g = 3050` (second order) is `10^(305/512) = 3.9418775111…`. -/
def gainLo (g : Int) : Nat × Nat := if g = 3050 then (39418775, 10000000) else (1, 1)
def gainHi (g : Int) : Nat × Nat := if g = 3050 then (39418776, 10000000) else (1, 1)

def productOk (o ch : Nat) : Bool :=
  decide ((product o ch).length = ch) &&
  checkCols (gainLo (demixGain o)) (gainHi (demixGain o)) ch (product o ch) 0

/-- The only gains in the tables are 0 and 3050 (the enclosure above is valid only for these). -/
theorem gains_known : ∀ o ∈ [2, 3, 4, 5, 6], demixGain o = 0 ∨ demixGain o = 3050 := by decide +kernel

/-- `(a/b)^512 ≤ 10^305 ≤ (c/d)^512` for the enclosure of `10^(305/512)`, in naturals. -/
theorem enclosure_3050 :
    39418775 ^ 512 ≤ 10 ^ 305 * 10000000 ^ 512 ∧ 10 ^ 305 * 10000000 ^ 512 ≤ 39418776 ^ 512 := by
  decide +kernel

theorem productOk_foa : productOk 2 6 = true ∧ productOk 2 4 = true := by decide +kernel
theorem productOk_soa : productOk 3 11 = true ∧ productOk 3 9 = true := by decide +kernel
theorem productOk_toa : productOk 4 18 = true ∧ productOk 4 16 = true := by decide +kernel
theorem productOk_fourthoa_nd : productOk 5 27 = true := by decide +kernel
theorem productOk_fourthoa : productOk 5 25 = true := by decide +kernel
theorem productOk_fifthoa_nd : productOk 6 38 = true := by decide +kernel
theorem productOk_fifthoa : productOk 6 36 = true := by decide +kernel

end Opus.Matrix
