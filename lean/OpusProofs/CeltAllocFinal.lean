import OpusProofs.CeltAllocStereo
/-
  OpusProofs.CeltAllocFinal — the main theorem about `clt_compute_allocation`.
-/
namespace OpusProofs.CeltAlloc
open Opus Opus.CeltAlloc
open Opus.Gen.CeltTables

theorem sumBits_reverse (l : List (Band × Int)) : sumBits l.reverse = sumBits l := by
  induction l with
  | nil => rfl
  | cons x t ih => simp only [List.reverse_cons, sumBits_append, ih, sumBits]; omega

theorem sumW_append (a b : List (Band × Int)) : sumW (a ++ b) = sumW a + sumW b := by
  induction a with
  | nil => simp [sumW]
  | cons x t ih => simp only [List.cons_append, sumW, ih]; omega

theorem sumW_reverse (l : List (Band × Int)) : sumW l.reverse = sumW l := by
  induction l with
  | nil => rfl
  | cons x t ih => simp only [List.reverse_cons, sumW_append, ih, sumW]; omega

theorem addq_spec (q : Int) : ∀ (l : List (Band × Int)),
    (l.map fun x => (x.1, x.2 + q * (x.1.w : Int))).map (·.1) = l.map (·.1) ∧
    sumW (l.map fun x => (x.1, x.2 + q * (x.1.w : Int))) = sumW l ∧
    sumBits (l.map fun x => (x.1, x.2 + q * (x.1.w : Int))) = sumBits l + q * (sumW l : Int) := by
  intro l
  induction l with
  | nil => simp [sumW, sumBits]
  | cons x t ih =>
    obtain ⟨h1, h2, h3⟩ := ih
    simp only [List.map_cons, h1, sumW, h2, sumBits, h3]
    refine ⟨trivial, trivial, ?_⟩
    have : q * ((x.1.w + sumW t : Nat) : Int) = q * (x.1.w : Int) + q * (sumW t : Int) := by
      rw [Int.natCast_add, Int.mul_add]
    omega

theorem distribute_spec (p : Inp) (s : SkipOut) (total : Int)
    (hnn : ∀ x ∈ s.kept, 0 ≤ x.2) (hle : s.psum ≤ total) (hB : total - s.psum < 2147483648)
    (hw : ((eBands.getD s.codedBands 0 - eBands.getD p.start 0 : Nat) : Int) = (sumW s.kept : Int))
    (hw1 : 1 ≤ sumW s.kept) :
    (distribute p s total).map (·.1) = s.kept.reverse.map (·.1) ∧ (∀ x ∈ distribute p s total, 0 ≤ x.2) ∧
    sumBits (distribute p s total) = sumBits s.kept + (total - s.psum) := by
  unfold distribute
  simp only [hw]
  generalize hL : total - s.psum = L at *
  generalize hW : (sumW s.kept : Int) = W at *
  have hWpos : 0 < W := by omega
  rw [udiv_eq (by omega) hB hWpos]
  have hq0 : 0 ≤ L / W := Int.ediv_nonneg (by omega) (by omega)
  have e : L - W * (L / W) = L % W := (Int.emod_def L W).symm
  rw [e]
  have hm0 : 0 ≤ L % W := Int.emod_nonneg _ (by omega)
  have hm1 : L % W < W := Int.emod_lt_of_pos _ hWpos
  obtain ⟨a1, a2, a3⟩ := addq_spec (L / W) s.kept.reverse
  have hnn' : ∀ x ∈ (s.kept.reverse.map fun x => (x.1, x.2 + L / W * (x.1.w : Int))), 0 ≤ x.2 := by
    intro x hx
    simp only [List.mem_map, List.mem_reverse] at hx
    obtain ⟨y, hy, rfl⟩ := hx
    have := hnn y hy
    have : 0 ≤ L / W * (y.1.w : Int) := Int.mul_nonneg hq0 (by omega)
    simp only; omega
  obtain ⟨b1, b2, b3⟩ := spread_spec _ (L % W) hm0 hnn'
  refine ⟨by rw [b1, a1], b2, ?_⟩
  rw [b3, a3, a2, sumBits_reverse, sumW_reverse, hW]
  have hmul : L / W * W = W * (L / W) := Int.mul_comm _ _
  omega

/-- per-band guarantees against the band list -/
def AllOkB (p : Inp) : List Band → List BandOut → Prop
  | [], [] => True
  | b :: bs, o :: os =>
    (0 ≤ o.pulses ∧ o.pulses ≤ capLimit p b ∧ 0 ≤ o.ebits ∧ o.ebits ≤ 8 ∧ (o.prio = 0 ∨ o.prio = 1)) ∧ AllOkB p bs os
  | _, _ => False

theorem AllOkB_of_AllOk (p : Inp) : ∀ (l : List (Band × Int)) (os : List BandOut), AllOk p l os → AllOkB p (l.map (·.1)) os := by
  intro l
  induction l with
  | nil => intro os h; cases os <;> simp_all [AllOk, AllOkB]
  | cons x t ih =>
    intro os h
    cases os with
    | nil => simp [AllOk] at h
    | cons o os => exact ⟨h.1, ih os h.2⟩

theorem AllOkB_append (p : Inp) : ∀ (a : List Band) (oa : List BandOut) (b : List Band) (ob : List BandOut),
    AllOkB p a oa → AllOkB p b ob → AllOkB p (a ++ b) (oa ++ ob) := by
  intro a
  induction a with
  | nil => intro oa b ob h1 h2; cases oa <;> simp_all [AllOkB]
  | cons x t ih =>
    intro oa b ob h1 h2
    cases oa with
    | nil => simp [AllOkB] at h1
    | cons o os => exact ⟨h1.1, ih os b ob h1.2 h2⟩

theorem AllOkB_length (p : Inp) : ∀ (a : List Band) (oa : List BandOut), AllOkB p a oa → oa.length = a.length := by
  intro a
  induction a with
  | nil => intro oa h; cases oa <;> simp_all [AllOkB]
  | cons x t ih =>
    intro oa h
    cases oa with
    | nil => simp [AllOkB] at h
    | cons o os => simp [ih os h.2]


theorem skipped_spec (p : Inp) (hC : p.C = 1 ∨ p.C = 2) : ∀ (l : List (Band × Int)),
    (∀ x ∈ l, x.2 = allocFloor p.C ∨ x.2 = 0) → (∀ x ∈ l, 0 ≤ x.1.cap) →
    AllOkB p (l.map (·.1)) (l.map fun x => skippedOut p x.2) ∧
    sumOut (p.C : Int) (l.map fun x => skippedOut p x.2) = sumBits l := by
  intro l
  induction l with
  | nil => intro _ _; simp [AllOkB, sumOut, sumBits]
  | cons x t ih =>
    intro h1 h2
    obtain ⟨i1, i2⟩ := ih (fun y hy => h1 y (by simp [hy])) (fun y hy => h2 y (by simp [hy]))
    obtain ⟨s1, s2, s3, s4, s5⟩ := skippedOut_spec p hC x.2 (h1 x (by simp))
    have hc := h2 x (by simp)
    have hcl : 0 ≤ capLimit p x.1 := by
      unfold capLimit; split
      · exact hc
      · rcases hC with h | h <;> rw [h] <;> decide
    simp only [List.map_cons, AllOkB, sumOut, sumBits, i2]
    exact ⟨⟨⟨by omega, by omega, s2, by omega, s4⟩, i1⟩, by omega⟩

/-- **Main theorem.**  On its domain `clt_compute_allocation` returns normally (no assertion, the band-skipping loop
    and both bisections terminate), `codedBands ∈ (start, end]`, `0 ≤ intensity ≤ codedBands`, `dual_stereo ∈ {0,1}`,
    `balance ≥ 0`; every band has `0 ≤ pulses ≤ cap` (one sign bit per channel for N = 1), `0 ≤ ebits ≤ MAX_FINE_BITS`,
    `fine_priority ∈ {0,1}`; and the budget is met EXACTLY:
    `Σ (pulses[j] + C·ebits[j]<<BITRES) + balance + (cost of the signalling) = max(total, 0)`. -/
theorem alloc_main (p : Inp) (hp : Dom p) (c : Coder)
    (henc : c.encode = true → (p.dualStereo = 0 ∨ p.dualStereo = 1) ∧ 0 ≤ p.intensity) :
    ∃ o, computeAllocation p c = .ok o ∧
      p.start < o.codedBands ∧ o.codedBands ≤ p.end_ ∧
      0 ≤ o.intensity ∧ o.intensity ≤ o.codedBands ∧ (o.dualStereo = 0 ∨ o.dualStereo = 1) ∧
      0 ≤ o.balance ∧ AllOkB p (bands p) o.bands ∧
      sumOut (p.C : Int) o.bands + o.balance + opsCost o.ops = max p.total 0 + opsCost c.ops := by
  obtain ⟨i0, i37, _, hr, hsmall, hds⟩ := irsv_facts hp
  obtain ⟨s, hs, out⟩ := skipLoop_inv p hp (irsv p) (skipStart p.start (bands p)) (skipRsv p) hr (l0 p)
    (sumInt (bits0 p)) (tot p) (irsv p) c [] (l0_hex hp) (l0_inv hp) hsmall
  have hrun : computeAllocation p c = .ok (finishTail p s (dsrsv p)) := by
    rw [computeAllocation_eq]
    show (skipLoop p _ _ (l0 p) (sumInt (bits0 p)) (tot p) (irsv p) c [] >>= fun s => pure (finishTail p s (dsrsv p))) = _
    rw [hs]; rfl
  refine ⟨_, hrun, ?_⟩
  -- the band lists
  have hn : p.start + (p.end_ - p.start) ≤ 21 := by
    have := hp.hse; have := hp.hend; have : nbEBands = 21 := rfl; omega
  obtain ⟨_, _, f3⟩ := revBands_facts p (p.end_ - p.start) hn
  obtain ⟨⟨pre, hsplit, hskipfst⟩, hkne, hcb⟩ := out.spec
  have hmemk : ∀ x ∈ s.kept, x.1 ∈ revBands p (p.end_ - p.start) := by
    intro x hx
    rw [← l0_fst, hsplit]
    exact List.mem_map_of_mem (List.mem_append_right _ hx)
  obtain ⟨hd, tl, hkeq⟩ : ∃ hd tl, s.kept = hd :: tl := by
    cases hk : s.kept with
    | nil => exact absurd hk hkne
    | cons a t => exact ⟨a, t, rfl⟩
  have hcbv : s.codedBands = hd.1.j + 1 := hcb hd (by rw [hkeq]; rfl)
  obtain ⟨g1, g2, g3, g4⟩ := f3 hd.1 (hmemk hd (by rw [hkeq]; simp))
  have hcb1 : p.start < s.codedBands := by omega
  have hcb2 : s.codedBands ≤ p.end_ := by omega
  -- stereo parameters
  obtain ⟨t1, t2, t3, t4, t5, t6, _⟩ := codeStereo_spec p s (dsrsv p) hds hcb1 out.irB.1 out.irCb
    (by rw [out.enc]; exact henc)
  generalize hst : codeStereo p s (dsrsv p) = st at *
  -- distribution of the left-over bits
  have hsk_nn : 0 ≤ sumBits s.kept := sumBits_nonneg _ out.kept_nn
  have hwsum := out.wsum hd (by rw [hkeq]; rfl)
  obtain ⟨_, _, _, e4⟩ := mkBand_edges p hd.1.j g1 (by omega)
  rw [← g4] at e4
  have hw : ((eBands.getD s.codedBands 0 - eBands.getD p.start 0 : Nat) : Int) = (sumW s.kept : Int) := by
    rw [hwsum, e4, hcbv]
  have hw1 : 1 ≤ sumW s.kept := by rw [hwsum]; omega
  have hlow := out.low
  have htotB := out.totB
  have hirB := out.irB
  obtain ⟨d1, d2, d3⟩ := distribute_spec p s st.2.2.1 out.kept_nn (by have := out.le; omega) (by omega) hw hw1
  -- the coded bands
  have hcapmem : ∀ b ∈ revBands p (p.end_ - p.start), 0 ≤ b.cap ∧ 1 ≤ b.w := by
    intro b hb
    obtain ⟨_, _, c3, c4⟩ := f3 b hb
    exact ⟨by rw [c4]; exact (hp.capB _).1, c3⟩
  have hdist : ∀ x ∈ distribute p s st.2.2.1, 0 ≤ x.2 ∧ 1 ≤ x.1.w ∧ 0 ≤ x.1.cap := by
    intro x hx
    have : x.1 ∈ (distribute p s st.2.2.1).map (·.1) := List.mem_map_of_mem hx
    rw [d1] at this
    simp only [List.mem_map, List.mem_reverse] at this
    obtain ⟨y, hy, hyx⟩ := this
    obtain ⟨c1, c2⟩ := hcapmem y.1 (hmemk y hy)
    rw [hyx] at c1 c2
    exact ⟨d2 x hx, c2, c1⟩
  obtain ⟨k1, k2, k3⟩ := splitLoop_spec p hp st.1 st.2.1 _ 0 hdist (Int.le_refl 0)
  -- the skipped bands
  have hskmem : ∀ x ∈ s.skipped, x.1 ∈ revBands p (p.end_ - p.start) := by
    intro x hx
    have : x.1 ∈ s.skipped.map (·.1) := List.mem_map_of_mem hx
    rw [hskipfst] at this
    simp only [List.map_nil, List.append_nil, List.mem_map, List.mem_reverse] at this
    obtain ⟨y, hy, hyx⟩ := this
    rw [← hyx, ← l0_fst, hsplit]
    exact List.mem_map_of_mem (List.mem_append_left _ hy)
  obtain ⟨q1, q2⟩ := skipped_spec p hp.hC s.skipped
    (fun x hx => (out.skipped x hx).resolve_left (by simp))
    (fun x hx => (hcapmem x.1 (hskmem x hx)).1)
  -- alignment with the band list
  have halign : (distribute p s st.2.2.1).map (·.1) ++ s.skipped.map (·.1) = bands p := by
    rw [d1, hskipfst]
    simp only [List.map_nil, List.append_nil]
    rw [← List.map_append, ← List.reverse_append, ← hsplit]
    have := l0_fst p
    rw [← bands_reverse] at this
    rw [List.map_reverse, this, List.reverse_reverse]
  have hacc := out.account
  simp only [sumBits, opsCost] at hacc
  have hl0sum : sumBits (l0 p) = sumInt (bits0 p) := sumBits_zip _ _ (bits0_length p).symm
  have htot0 := (tot_le_tot0 p).2
  unfold tot0 at htot0
  simp only [finishTail, hst]
  refine ⟨hcb1, hcb2, t1, t2, t3, k2, ?_, ?_⟩
  · rw [← halign]
    exact AllOkB_append p _ _ _ _ (AllOkB_of_AllOk p _ _ k1) q1
  · rw [sumOut_append, q2, opsCost_reverse]
    omega

end OpusProofs.CeltAlloc

namespace OpusProofs.CeltAlloc
open Opus Opus.CeltAlloc
open Opus.Gen.CeltTables

theorem initCaps_bounds_small : ∀ LM, LM < 4 → ∀ C, C < 3 → ∀ j, j < 22 →
    0 ≤ (initCaps LM C).getD j 0 ∧ (initCaps LM C).getD j 0 ≤ 16777216 := by decide +kernel

/-- `init_caps` produces caps inside the domain of the allocation theorems, for every LM and channel count. -/
theorem initCaps_bounds (LM C : Nat) (hLM : LM ≤ 3) (hC : C = 1 ∨ C = 2) (j : Nat) :
    0 ≤ (initCaps LM C).getD j 0 ∧ (initCaps LM C).getD j 0 ≤ 16777216 := by
  by_cases hj : j < 22
  · exact initCaps_bounds_small LM (by omega) C (by omega) j hj
  · have hl : (initCaps LM C).length = 21 := by simp [initCaps]; rfl
    simp [List.getD, List.getElem?_eq_none (by omega : (initCaps LM C).length ≤ j)]

end OpusProofs.CeltAlloc
