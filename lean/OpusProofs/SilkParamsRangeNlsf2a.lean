import OpusProofs.SilkParamsRangePoly
import OpusProofs.SilkParamsRangeFit
/-
  OpusProofs.SilkParamsRangeNlsf2a — the range lemmas for silk_NLSF2A (NLSF2A.c:68-141) as a whole.

  Result.  For every input with `0 ≤ NLSF[k] ≤ 32767`:
  * d = 10: no 32-bit value wraps anywhere in silk_NLSF2A (cosine interpolation, find_poly,
    the sums `Ptmp`/`Qtmp`, `a32_QA1`, silk_LPC_fit, silk_bwexpander_32, the stabilisation loop)
    and no `(opus_int16)` cast truncates.
  * d = 16: the same up to and including `Ptmp`, `Qtmp`, `-Qtmp`; the final subtraction
    `a32_QA1[k] = -Qtmp - Ptmp` / `Qtmp - Ptmp` is bounded by `2^31.66` only, and it DOES overflow
    on the in-range (but unordered) input `32767,0,32767,0,…` — see `nlsf2a_a32_overflow_witness`.
    Under the hypothesis that `a32_QA1` fits (`|a32_QA1[k]| ≤ 2^31 - 1`), everything after it is
    again free of wrap and truncation.
-/
namespace Opus.SilkParams
open Opus Opus.Gen

/-- `cos_LSF_QA[]` of NLSF2A.c:89-106 (after the `ordering` permutation). -/
def nlsf2aCosQA (nlsf : List Int) : Res (List Int) := do
  let vals ← cosLsfAll nlsf
  let ordering := if nlsf.length = 16 then ordering16 else ordering10
  pure ((List.range nlsf.length).map fun j => vals.getD (ordering.idxOf j) 0)

/-- `a32_QA1[]` of NLSF2A.c:114-123, as the model computes it (unbounded final subtraction). -/
def nlsf2aA32 (nlsf : List Int) : Res (List Int) := do
  let c ← nlsf2aCosQA nlsf
  pure (nlsf2aPoly c)

theorem mem_evens : ∀ (l : List Int) (e : Int), e ∈ evens l → e ∈ l
  | a :: _ :: rest, e, h => by
    unfold evens at h
    rcases List.mem_cons.mp h with rfl | h'
    · simp
    · have := mem_evens rest e h'; simp [this]
  | [a], e, h => by unfold evens at h; exact h
  | [], e, h => by unfold evens at h; exact h

theorem mem_odds : ∀ (l : List Int) (e : Int), e ∈ odds l → e ∈ l
  | _ :: b :: rest, e, h => by
    unfold odds at h
    rcases List.mem_cons.mp h with rfl | h'
    · simp
    · have := mem_odds rest e h'; simp [this]
  | [a], e, h => by unfold odds at h; simp at h
  | [], e, h => by unfold odds at h; simp at h

theorem evens_odds_length : ∀ (l : List Int), (evens l).length = (l.length + 1) / 2 ∧ (odds l).length = l.length / 2
  | a :: b :: rest => by
    have := evens_odds_length rest
    unfold evens odds
    simp only [List.length_cons]
    omega
  | [a] => by unfold evens odds; simp
  | [] => by unfold evens odds; simp

theorem getD_le_of_all {b : List Int} {U : Int} (h : ∀ e ∈ b, e ≤ U) (hU : 0 ≤ U) (n : Nat) : b.getD n 0 ≤ U := by
  rw [List.getD_eq_getElem?_getD]
  cases hn : b[n]? with
  | none => simpa using hU
  | some v => simp only [Option.getD_some]; exact h v (List.mem_of_getElem? hn)

theorem getD_bounds_of_all {l : List Int} {U : Int} (h : ∀ e ∈ l, -U ≤ e ∧ e ≤ U) (hU : 0 ≤ U) (n : Nat) :
    -U ≤ l.getD n 0 ∧ l.getD n 0 ≤ U := by
  rw [List.getD_eq_getElem?_getD]
  cases hn : l[n]? with
  | none => simp only [Option.getD_none]; omega
  | some v => simp only [Option.getD_some]; exact h v (List.mem_of_getElem? hn)

/-- The 32-bit values of NLSF2A.c:114-123 before the final subtraction: the two find_poly
    traces, and per `k` the sums `Ptmp = P[k+1] + P[k]`, `Qtmp = Q[k+1] - Q[k]` and `-Qtmp`. -/
def nlsf2aPolyTrace (cosQA : List Int) : List Int :=
  let dd := cosQA.length / 2
  let P := findPoly (evens cosQA)
  let Q := findPoly (odds cosQA)
  findPolyTrace (evens cosQA) ++ findPolyTrace (odds cosQA) ++
    (List.range dd).map (fun k => P.getD (k + 1) 0 + P.getD k 0) ++
    (List.range dd).map (fun k => Q.getD (k + 1) 0 - Q.getD k 0) ++
    (List.range dd).map (fun k => -(Q.getD (k + 1) 0 - Q.getD k 0))

/-- The polynomial part of silk_NLSF2A for `|cos_LSF_QA[k]| ≤ 2` (Q16) and `d ∈ {10, 16}`:
    everything up to `-Qtmp` fits 32 bits; the entries of `a32_QA1` are bounded by `U4 = 4·U`
    where `U` is the largest binomial majorant (`C(10,5)·2^16`, resp. `C(16,8)·2^16`). -/
theorem nlsf2aPoly_range (cosQA : List Int) (U : Int) (hc : ∀ f ∈ cosQA, -131072 ≤ f ∧ f ≤ 131072)
    (hd : (cosQA.length = 10 ∧ U = 16515072) ∨ (cosQA.length = 16 ∧ U = 843448320)) :
    (∀ v ∈ nlsf2aPolyTrace cosQA, I32 v) ∧ (∀ e ∈ nlsf2aPoly cosQA, -(4 * U) ≤ e ∧ e ≤ 4 * U) ∧
    (nlsf2aPoly cosQA).length = cosQA.length := by
  have hlen := evens_odds_length cosQA
  have he : ∀ f ∈ evens cosQA, -131072 ≤ f ∧ f ≤ 131072 := fun f hf => hc f (mem_evens _ _ hf)
  have ho : ∀ f ∈ odds cosQA, -131072 ≤ f ∧ f ≤ 131072 := fun f hf => hc f (mem_odds _ _ hf)
  have hU0 : 0 ≤ U := by rcases hd with ⟨_, rfl⟩ | ⟨_, rfl⟩ <;> omega
  have hU1 : U ≤ 843448320 := by rcases hd with ⟨_, rfl⟩ | ⟨_, rfl⟩ <;> omega
  -- uniform bounds on P and Q
  have hPQ : (∀ n, -U ≤ (findPoly (evens cosQA)).getD n 0 ∧ (findPoly (evens cosQA)).getD n 0 ≤ U) ∧
      (∀ n, -U ≤ (findPoly (odds cosQA)).getD n 0 ∧ (findPoly (odds cosQA)).getD n 0 ≤ U) ∧
      (∀ v ∈ findPolyTrace (evens cosQA), I32 v) ∧ (∀ v ∈ findPolyTrace (odds cosQA), I32 v) := by
    rcases hd with ⟨hl, rfl⟩ | ⟨hl, rfl⟩
    · have hP := findPoly_range (evens cosQA) _ he (Or.inl ⟨by omega, rfl⟩)
      have hQ := findPoly_range (odds cosQA) _ ho (Or.inl ⟨by omega, rfl⟩)
      have hall : ∀ e ∈ [65536, 655360, 2949120, 7864320, 13762560, (16515072 : Int)], e ≤ 16515072 := by decide
      refine ⟨fun n => ?_, fun n => ?_, hP.2.1, hQ.2.1⟩
      · have := hP.1 n; have := getD_le_of_all hall (by omega) n; omega
      · have := hQ.1 n; have := getD_le_of_all hall (by omega) n; omega
    · have hP := findPoly_range (evens cosQA) _ he (Or.inr ⟨by omega, rfl⟩)
      have hQ := findPoly_range (odds cosQA) _ ho (Or.inr ⟨by omega, rfl⟩)
      have hall : ∀ e ∈ [65536, 1048576, 7864320, 36700160, 119275520, 286261248, 524812288,
          749731840, (843448320 : Int)], e ≤ 843448320 := by decide
      refine ⟨fun n => ?_, fun n => ?_, hP.2.1, hQ.2.1⟩
      · have := hP.1 n; have := getD_le_of_all hall (by omega) n; omega
      · have := hQ.1 n; have := getD_le_of_all hall (by omega) n; omega
  obtain ⟨hP, hQ, hPt, hQt⟩ := hPQ
  refine ⟨?_, ?_, ?_⟩
  · intro v hv
    unfold nlsf2aPolyTrace at hv
    simp only [List.mem_append, List.mem_map, List.mem_range] at hv
    rcases hv with (((hv | hv) | ⟨k, _, rfl⟩) | ⟨k, _, rfl⟩) | ⟨k, _, rfl⟩
    · exact hPt v hv
    · exact hQt v hv
    · have := hP (k + 1); have := hP k; unfold I32; omega
    · have := hQ (k + 1); have := hQ k; unfold I32; omega
    · have := hQ (k + 1); have := hQ k; unfold I32; omega
  · intro e he'
    unfold nlsf2aPoly at he'
    simp only [List.mem_append, List.mem_map, List.mem_range, List.mem_reverse] at he'
    rcases he' with ⟨k, _, rfl⟩ | ⟨k, _, rfl⟩
    · have := hP (k + 1); have := hP k; have := hQ (k + 1); have := hQ k; omega
    · have := hP (k + 1); have := hP k; have := hQ (k + 1); have := hQ k; omega
  · rw [nlsf2aPoly_length]; rcases hd with ⟨hl, _⟩ | ⟨hl, _⟩ <;> omega

/-- The cosines, reordered: in-bounds table reads, no wrap, all in `[-2, 2]` (Q16). -/
theorem nlsf2aCosQA_range (nlsf : List Int) (hr : ∀ e ∈ nlsf, 0 ≤ e ∧ e ≤ 32767) :
    ∃ c, nlsf2aCosQA nlsf = .ok c ∧ c.length = nlsf.length ∧ ∀ f ∈ c, -131072 ≤ f ∧ f ≤ 131072 := by
  obtain ⟨cs, hcs, _, hb⟩ := cosLsfAll_range nlsf hr
  refine ⟨(List.range nlsf.length).map fun j =>
    cs.getD ((if nlsf.length = 16 then ordering16 else ordering10).idxOf j) 0, ?_, ?_, ?_⟩
  · unfold nlsf2aCosQA
    simp only [hcs, bind, Res.bind, pure]
  · simp
  · intro f hf
    simp only [List.mem_map, List.mem_range] at hf
    obtain ⟨j, _, rfl⟩ := hf
    exact getD_bounds_of_all hb (by omega) _

/-- `silk_NLSF2A` is the model's `lpcFit` + stabilisation loop applied to `nlsf2aA32`. -/
theorem nlsf2a_eq (nlsf c : List Int) (hd : nlsf.length = 10 ∨ nlsf.length = 16)
    (hc : nlsf2aCosQA nlsf = .ok c) :
    nlsf2aA32 nlsf = .ok (nlsf2aPoly c) ∧
    nlsf2a nlsf = .ok (nlsf2aLoop SilkNlsf.maxLpcStabilizeIterations 0 (lpcFit (nlsf2aPoly c) 5).2
      (lpcFit (nlsf2aPoly c) 5).1) := by
  constructor
  · unfold nlsf2aA32; simp only [hc, bind, Res.bind, pure]
  · unfold nlsf2aCosQA at hc
    unfold nlsf2a
    simp only
    rw [if_neg (by omega)]
    cases hv : cosLsfAll nlsf with
    | ok vals =>
      simp only [hv, bind, Res.bind, pure] at hc ⊢
      cases hc
      rfl
    | err e => simp only [hv, bind, Res.bind] at hc; cases hc
    | oob => simp only [hv, bind, Res.bind] at hc; cases hc
    | abort => simp only [hv, bind, Res.bind] at hc; cases hc

/-- All `opus_int32` values of `silk_NLSF2A` after `a32_QA1` has been formed. -/
def nlsf2aTailTrace (a32 : List Int) : List Int :=
  lpcFitLoopTrace 10 a32 0 ++ lpcFitFinalTrace a32 ++
    nlsf2aLoopTrace SilkNlsf.maxLpcStabilizeIterations 0 (lpcFit a32 5).2 (lpcFit a32 5).1

/-- Everything after `a32_QA1`: no wrap, no division by zero, no truncating cast, provided
    `a32_QA1` holds `d ≤ 16` values of magnitude at most `2^31 - 1`. -/
theorem nlsf2aTail_range (a32 : List Int) (hne : a32 ≠ []) (hlen : a32.length ≤ 16)
    (ha : ∀ e ∈ a32, -2147483647 ≤ e ∧ e ≤ 2147483647) :
    (∀ v ∈ nlsf2aTailTrace a32, I32 v) ∧ (∀ v ∈ lpcFitLoopDivisors 10 a32 0, v ≠ 0) ∧
    (∀ v ∈ nlsf2aCasts a32, I16 v) := by
  have hf := lpcFit_range a32 hne hlen ha
  have hloop := nlsf2aLoop_range SilkNlsf.maxLpcStabilizeIterations 0 (lpcFit a32 5).2 (lpcFit a32 5).1
    (by decide) (fun e he => by have := hf.2.2.2.2 e he; omega)
  refine ⟨?_, hf.2.1, ?_⟩
  · intro v hv
    unfold nlsf2aTailTrace at hv
    rcases List.mem_append.mp hv with h | h
    · exact hf.1 v h
    · exact hloop.1 v h
  · intro v hv
    unfold nlsf2aCasts at hv
    rcases List.mem_append.mp hv with h | h
    · exact hf.2.2.1 v h
    · exact hloop.2 v h

theorem truncCount_zero (l : List Int) (h : ∀ v ∈ l, I16 v) : truncCount l = 0 := by
  unfold truncCount
  rw [List.length_eq_zero_iff, List.filter_eq_nil_iff]
  intro v hv
  rw [wrap16_id (h v hv)]
  simp

/-- The instrumented model function the driver evaluates (`tr=` field of the `nlsf2a` op) is
    `silk_NLSF2A` paired with the number of truncating casts. -/
theorem nlsf2aTr_eq (nlsf c : List Int) (hd : nlsf.length = 10 ∨ nlsf.length = 16)
    (hc : nlsf2aCosQA nlsf = .ok c) :
    nlsf2aTr nlsf = .ok (nlsf2aLoop SilkNlsf.maxLpcStabilizeIterations 0 (lpcFit (nlsf2aPoly c) 5).2
      (lpcFit (nlsf2aPoly c) 5).1, truncCount (nlsf2aCasts (nlsf2aPoly c))) := by
  unfold nlsf2aCosQA at hc
  unfold nlsf2aTr
  simp only
  rw [if_neg (by omega)]
  cases hv : cosLsfAll nlsf with
  | ok vals =>
    simp only [hv, bind, Res.bind, pure] at hc ⊢
    cases hc
    rfl
  | err e => simp only [hv, bind, Res.bind] at hc; cases hc
  | oob => simp only [hv, bind, Res.bind] at hc; cases hc
  | abort => simp only [hv, bind, Res.bind] at hc; cases hc

/-- The in-range but unordered input on which `a32_QA1[7] = -Qtmp - Ptmp` and
    `a32_QA1[9] = Qtmp - Ptmp` leave 32 bits (`-3186360320`, `-2549088256` `< -2^31`): signed
    overflow at NLSF2A.c:125-126 in C (UBSan: "-1593180160 - 1593180160 cannot be represented in
    type 'int'").  So the hypothesis on `a32_QA1` in `nlsf2aTail_range` cannot be dropped for
    d = 16 on the domain "all NLSF in [0, 32767]"; it needs the ordering of the NLSFs. -/
theorem nlsf2a_a32_overflow_witness :
    nlsf2aA32 [32767, 0, 32767, 0, 32767, 0, 32767, 0, 32767, 0, 32767, 0, 32767, 0, 32767, 0] =
      .ok [0, -17825792, 0, -311951360, 0, -1622147072, 0, -3186360320, 0, -2549088256, 0, -811073536,
           0, -89128960, 0, -2228224] := by
  decide +kernel

end Opus.SilkParams
