import OpusProofs.DtxCall
/-
  OpusProofs.DtxOnset — a run of calls on digital silence with the generalised detector in charge:
  which packets are DTX packets, and the onset window.
-/
namespace Opus.Dtx
open Opus.Gen.DtxConsts

/-- Frame geometry the DTX arithmetic relies on: in every mode a call of `q` 2.5 ms units is split
    into `nSub ≥ 1` coded frames of equal positive duration `subQ1` adding up to `5*q` Q1 ms. -/
def GoodGeom (c : Cfg) : Prop :=
  ∀ m : Mode, 1 ≤ nSub c m ∧ 1 ≤ subQ1 c m ∧ nSub c m * subQ1 c m = 5 * c.q

def geomOk (fs q : Nat) : Bool :=
  [Mode.none, Mode.silk, Mode.hybrid, Mode.celt].all fun m =>
    let sp := split fs (q * fs / 400) m
    decide (1 ≤ sp.1) && decide (1 ≤ 2 * 1000 * sp.2 / fs) && decide (sp.1 * (2 * 1000 * sp.2 / fs) = 5 * q)

/-- The geometry holds for every sampling rate and frame duration the API accepts. -/
theorem geomOk_all : ∀ fs ∈ [8000, 12000, 16000, 24000, 48000], ∀ q ∈ [1, 2, 4, 8, 16, 24, 32, 40, 48],
    geomOk fs q = true := by decide

theorem goodGeom_of_api (c : Cfg) (hfs : c.fs ∈ [8000, 12000, 16000, 24000, 48000])
    (hq : c.q ∈ [1, 2, 4, 8, 16, 24, 32, 40, 48]) : GoodGeom c := by
  have h := geomOk_all c.fs hfs c.q hq
  intro m
  unfold geomOk at h
  simp only [List.all_cons, List.all_nil, Bool.and_true, Bool.and_eq_true, decide_eq_true_eq] at h
  unfold nSub subQ1 frameSize
  cases m
  · exact ⟨h.1.1.1, h.1.1.2, h.1.2⟩
  · exact ⟨h.2.1.1.1, h.2.1.1.2, h.2.1.2⟩
  · exact ⟨h.2.2.1.1.1, h.2.2.1.1.2, h.2.2.1.2⟩
  · exact ⟨h.2.2.2.1.1, h.2.2.2.1.2, h.2.2.2.2⟩

/-- The packets of a run. -/
def pkts (c : Cfg) (st : St) (ors : List CallOr) : List Pkt := (run c st ors).map Prod.fst

theorem pkts_cons (c : Cfg) (st : St) (o : CallOr) (os : List CallOr) :
    pkts c st (o :: os) = (encodeCall c st o).2.1 :: pkts c (encodeCall c st o).1 os := rfl

/-- Every call of the run is fed digital silence (and the oracle record has the right shape). -/
def SilentRun (c : Cfg) (ors : List CallOr) : Prop :=
  ∀ o ∈ ors, o.digSil = true ∧ o.subs.length = nSub c o.mode ∧ NoBust o

theorem pktOf_all (l : List Bool) (n : Nat) (hne : l ≠ []) :
    pktOf l n = (if ∀ d ∈ l, d = true then Pkt.dtx (dtxPacketLen n) else Pkt.normal) := by
  unfold pktOf
  have : l.isEmpty = false := by cases l <;> simp_all
  simp [this]

/-- One silent call from counter `nb` with room below the 600 ms limit; the state is one in which the
    generalised detector was already in charge, or the counter is clear (so that the reset at a
    change of detector changes nothing). -/
theorem encodeCall_silence' (c : Cfg) (st : St) (o : CallOr) (hr : Regular c) (hg : GoodGeom c)
    (hlen : o.subs.length = nSub c o.mode) (hdtx : c.useDtx = true) (hon : analysisOn c = true) (hsil : o.digSil = true)
    (hnob : NoBust o) (hst : st.silkUseDtx = false ∨ st.nb = 0)
    (hroom : st.nb + 5 * c.q ≤ limitQ1) :
    (encodeCall c st o).1.nb = st.nb + 5 * c.q ∧
    (encodeCall c st o).2.1 =
      (if onsetQ1 < st.nb + subQ1 c o.mode then Pkt.dtx (dtxPacketLen (nSub c o.mode)) else Pkt.normal) ∧
    (encodeCall c st o).1.silkUseDtx = false := by
  have hs := encodeCall_silence c st o hr hlen hdtx hon hsil hnob
  have hsd : sdtxOf c o = false := by simp [sdtxOf, isSilOf, hsil, hon]
  have hnb : (prepCall c st o).nb = st.nb := by
    apply prepCall_nb_same
    rcases hst with h | h
    · left; rw [hsd, h]
    · right; exact h
  rw [hnb] at hs
  obtain ⟨hn, hf, hnf⟩ := hg o.mode
  obtain ⟨n, hn'⟩ : ∃ n, nSub c o.mode = n + 1 := ⟨nSub c o.mode - 1, by omega⟩
  rw [hn'] at hs hnf
  have hrep := dtxSteps_replicate st.nb n (subQ1 c o.mode) (by rw [hnf]; exact hroom)
  rw [hs.1, hs.2.1, hrep.1, hnf]
  refine ⟨rfl, ?_, hs.2.2⟩
  rw [pktOf_all]
  · simp only [hrep.2, hn']
  · intro h
    have := dtxSteps_length st.nb (List.replicate (n + 1) (false, subQ1 c o.mode))
    rw [h] at this; simp at this

/-- **Which packets of a silent run are DTX packets.**  Packet `j` (0-based), as long as the run
    stays below the 600 ms limit, is a DTX packet iff the inactivity at the end of its *first* coded
    frame exceeds 200 ms. -/
theorem run_silence (c : Cfg) (hr : Regular c) (hg : GoodGeom c) (hdtx : c.useDtx = true) (hon : analysisOn c = true) :
    ∀ (ors : List CallOr) (st : St), (st.silkUseDtx = false ∨ st.nb = 0) → SilentRun c ors →
      ∀ j (hj : j < ors.length), st.nb + (j + 1) * (5 * c.q) ≤ limitQ1 →
        (pkts c st ors)[j]? = some
          (if onsetQ1 < st.nb + j * (5 * c.q) + subQ1 c (ors[j]).mode then Pkt.dtx (dtxPacketLen (nSub c (ors[j]).mode))
           else Pkt.normal) := by
  intro ors
  induction ors with
  | nil => intro st _ _ j hj; cases hj
  | cons o os ih =>
    intro st hst hsr j hj hroom
    have ho := hsr o (by simp)
    have hroom0 : st.nb + 5 * c.q ≤ limitQ1 := by
      have : (j + 1) * (5 * c.q) = j * (5 * c.q) + 5 * c.q := Nat.succ_mul ..
      omega
    have hc := encodeCall_silence' c st o hr hg ho.2.1 hdtx hon ho.1 ho.2.2 hst hroom0
    rw [pkts_cons]
    cases j with
    | zero => simp [hc.2.1]
    | succ j =>
      simp only [List.getElem?_cons_succ, List.getElem_cons_succ]
      have hsr' : SilentRun c os := fun o' ho' => hsr o' (by simp [ho'])
      have := ih (encodeCall c st o).1 (Or.inl hc.2.2) hsr' j (by simpa using hj) (by
        rw [hc.1]
        have : (j + 1 + 1) * (5 * c.q) = (j + 1) * (5 * c.q) + 5 * c.q := Nat.succ_mul ..
        omega)
      rw [this, hc.1]
      have : st.nb + 5 * c.q + j * (5 * c.q) = st.nb + (j + 1) * (5 * c.q) := by
        have : (j + 1) * (5 * c.q) = j * (5 * c.q) + 5 * c.q := Nat.succ_mul ..
        omega
      rw [this]

/-- **Onset.**  Activity has just stopped (counter 0), the generalised detector is in charge, the
    input is digital silence from now on, packets last `F = 5q` Q1 ms (2.5 … 120 ms).  Then there is a
    first DTX packet; all packets before it are normal; and it starts at a time `t = P·F` with
    `200 ms − F < t < 200 ms + F`. -/
theorem onset_window (c : Cfg) (hr : Regular c) (hg : GoodGeom c) (hdtx : c.useDtx = true) (hon : analysisOn c = true)
    (hq : 1 ≤ c.q ∧ c.q ≤ 48) (ors : List CallOr) (st : St) (hnb : st.nb = 0) (hsr : SilentRun c ors)
    (hlong : onsetQ1 + 2 * (5 * c.q) ≤ ors.length * (5 * c.q)) :
    ∃ P, P < ors.length ∧ (∀ j < P, (pkts c st ors)[j]? = some Pkt.normal) ∧
      (∃ n, (pkts c st ors)[P]? = some (Pkt.dtx n)) ∧
      onsetQ1 < P * (5 * c.q) + 5 * c.q ∧ P * (5 * c.q) < onsetQ1 + 5 * c.q := by
  have hrs := run_silence c hr hg hdtx hon ors st (Or.inr hnb) hsr
  rw [hnb] at hrs
  have hsub : ∀ m, 1 ≤ subQ1 c m ∧ subQ1 c m ≤ 5 * c.q := by
    intro m
    obtain ⟨h1, h2, h3⟩ := hg m
    refine ⟨h2, ?_⟩
    rw [← h3]; exact Nat.le_mul_of_pos_left _ h1
  generalize hF : 5 * c.q = F at *
  have hFpos : 1 ≤ F := by omega
  have hF240 : F ≤ 240 := by omega
  have hon' : onsetQ1 = 400 := onsetQ1_eq
  have hlim : limitQ1 = 1200 := limitQ1_eq
  -- k = index of the packet that contains the 200 ms mark
  have hk1 : onsetQ1 / F * F ≤ onsetQ1 := Nat.div_mul_le_self ..
  have hk2 : onsetQ1 < onsetQ1 / F * F + F := by
    have h1 := Nat.div_add_mod onsetQ1 F
    have h2 := Nat.mod_lt onsetQ1 (show F > 0 by omega)
    have h3 : F * (onsetQ1 / F) = onsetQ1 / F * F := Nat.mul_comm ..
    omega
  generalize hk : onsetQ1 / F = k at *
  have hsucc : ∀ j : Nat, (j + 1) * F = j * F + F := fun j => Nat.succ_mul ..
  have hklen : k + 2 ≤ ors.length := by
    have : (k + 2) * F ≤ ors.length * F := by
      have : (k + 2) * F = k * F + 2 * F := Nat.add_mul ..
      omega
    exact Nat.le_of_mul_le_mul_right this (by omega)
  -- packets before k are normal
  have hbefore : ∀ j < k, (pkts c st ors)[j]? = some Pkt.normal := by
    intro j hj
    have hjF : (j + 1) * F ≤ k * F := Nat.mul_le_mul_right F hj
    have := hrs j (by omega) (by omega)
    rw [this]
    have := (hsub (ors[j]'(by omega)).mode).2
    have h1 := hsucc j
    rw [if_neg (by omega)]
  have hk_room : 0 + (k + 1) * F ≤ limitQ1 := by have := hsucc k; omega
  have hk1_room : 0 + (k + 1 + 1) * F ≤ limitQ1 := by have := hsucc k; have := hsucc (k + 1); omega
  have hpk := hrs k (by omega) hk_room
  have hpk1 := hrs (k + 1) (by omega) hk1_room
  by_cases hd : onsetQ1 < 0 + k * F + subQ1 c (ors[k]'(by omega)).mode
  · refine ⟨k, by omega, hbefore, ⟨_, by rw [hpk, if_pos hd]⟩, by omega, by omega⟩
  · have hd1 : onsetQ1 < 0 + (k + 1) * F + subQ1 c (ors[k + 1]'(by omega)).mode := by
      have := hsucc k; have := (hsub (ors[k + 1]'(by omega)).mode).1; omega
    have hb1 : ∀ j < k + 1, (pkts c st ors)[j]? = some Pkt.normal := by
      intro j hj
      by_cases hjk : j < k
      · exact hbefore j hjk
      · have : j = k := by omega
        subst this
        rw [hpk, if_neg hd]
    refine ⟨k + 1, by omega, hb1, ⟨_, by rw [hpk1, if_pos hd1]⟩, ?_, ?_⟩
    · have := hsucc k; have := hsucc (k + 1); omega
    · have := hsucc k; have := (hsub (ors[k]'(by omega)).mode).1; omega

end Opus.Dtx
