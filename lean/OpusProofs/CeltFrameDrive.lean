import OpusProofs.CeltFrameMain
import OpusProofs.CeltAllocPrefix
import OpusProofs.CeltBandsTotal
/-
  OpusProofs.CeltFrameDrive — C03's `celtFrame` feeds `clt_compute_allocation` from the range decoder one call at a
  time (`allocDrive`: re-run the allocation with the values decoded so far, look at the next call it makes, decode
  it).  With the oracle-prefix determinism of the allocation (OpusProofs/CeltAllocPrefix.lean) this reaches exactly the
  allocation of the encoder, and the CELT frame round trip can be stated against `celtFrame` itself.
-/
namespace OpusProofs.CeltHdr
open Opus Opus.RangeCoder Opus.CeltSymsEnc
open Opus.CeltBands (BSt)
open OpusProofs.CeltAlloc (opVal SameKind)

/-- the `j`-th call of a run of the range decoder -/
theorem decRun_step : ∀ (L : List Op) (D : Dec) (j : Nat) (x : Op), L[j]? = some x →
    (decRun D L).1[j]? = some (decOp (decRun D (L.take j)).2 x).1 ∧
    (decRun D (L.take (j + 1))).2 = (decOp (decRun D (L.take j)).2 x).2
  | [], _, _, _, h => by simp at h
  | a :: L, D, 0, x, h => by
    simp only [List.getElem?_cons_zero, Option.some.injEq] at h
    subst h
    simp only [decRun, List.take_zero, List.take_succ_cons, List.getElem?_cons_zero]
    exact ⟨trivial, trivial⟩
  | a :: L, D, j + 1, x, h => by
    simp only [List.getElem?_cons_succ] at h
    obtain ⟨i1, i2⟩ := decRun_step L (decOp D a).2 j x h
    simp only [decRun, List.take_succ_cons, List.getElem?_cons_succ]
    exact ⟨i1, i2⟩

theorem take_succ_of_getElem? {α : Type} (l : List α) (j : Nat) (x : α) (h : l[j]? = some x) :
    l.take (j + 1) = l.take j ++ [x] := by
  rw [List.take_add_one, h]; rfl

/-- `allocDrive` reproduces a run of the allocation whose calls the range decoder answers with that run's values. -/
theorem allocDrive_run (p : CeltAlloc.Inp) (hp : OpusProofs.CeltAlloc.Dom p) (o : CeltAlloc.Out) (D0 : Dec)
    (hfull : ∀ rest, CeltAlloc.computeAllocation p { encode := false, oracle := o.ops.map opVal ++ rest, ops := [] } = .ok o)
    (hvals : (decRun D0 (o.ops.map allocOp)).1 = o.ops.map opVal)
    (hleg : ∀ op ∈ o.ops.map allocOp, op.Legal) :
    ∀ (n j k : Nat), j + n = o.ops.length → ∀ s : BSt, s.c = (decRun D0 ((o.ops.map allocOp).take j)).2 →
      ∃ s', Opus.CeltBands.allocDrive p (k + n + 1) ((o.ops.map opVal).take j) s = .ok (o, s') ∧
        s'.c = (decRun D0 (o.ops.map allocOp)).2 ∧ s'.rem = s.rem ∧ s'.fault = s.fault := by
  intro n
  induction n with
  | zero =>
    intro j k hj s hs
    have hjl : j = (o.ops.map opVal).length := by simp; omega
    have ht : (o.ops.map opVal).take j = o.ops.map opVal := by rw [hjl]; exact List.take_length
    have ht2 : (o.ops.map allocOp).take j = o.ops.map allocOp := by
      have : j = (o.ops.map allocOp).length := by simp; omega
      rw [this]; exact List.take_length
    have hrun := hfull []
    rw [List.append_nil] at hrun
    refine ⟨s, ?_, by rw [hs, ht2], rfl, rfl⟩
    rw [ht, Opus.CeltBands.allocDrive, hrun]
    have : o.ops.drop (o.ops.map opVal).length = [] := by simp
    simp only [this]
  | succ n ih =>
    intro j k hj s hs
    have hjl : j < o.ops.length := by omega
    -- the run with the values decoded so far
    obtain ⟨oj, hoj, _⟩ := OpusProofs.CeltAlloc.alloc_main p hp
      { encode := false, oracle := (o.ops.map opVal).take j, ops := [] } (fun h => by simp at h)
    have hsplit : o.ops.map opVal = (o.ops.map opVal).take j ++ (o.ops.map opVal).drop j := (List.take_append_drop j _).symm
    have hrunV := hfull []
    rw [List.append_nil, hsplit] at hrunV
    have hojn : CeltAlloc.computeAllocation p
        { encode := false, oracle := (o.ops.map opVal).take j ++ [], ops := [] } = .ok oj := by
      rw [List.append_nil]; exact hoj
    have hlen : ((o.ops.map opVal).take j).length = j := by simp; omega
    rcases OpusProofs.CeltAlloc.alloc_oracle_prefix p _ _ _ o oj hrunV hojn with ⟨_, hle⟩ | ⟨x1, x2, g1, g2, sk⟩
    · rw [hlen] at hle; omega
    · rw [hlen] at g1 g2
      -- the call the encoder made and the value the decoder gets for it
      have hA : (o.ops.map allocOp)[j]? = some (allocOp x1) := by rw [List.getElem?_map, g1]; rfl
      have hV : (o.ops.map opVal)[j]? = some (opVal x1) := by rw [List.getElem?_map, g1]; rfl
      obtain ⟨d1, d2⟩ := decRun_step (o.ops.map allocOp) D0 j (allocOp x1) hA
      rw [hvals, hV, ← hs] at d1
      rw [← hs] at d2
      have hval : (decOp s.c (allocOp x1)).1 = opVal x1 := by injection d1 with d1; exact d1.symm
      have hlegx : (allocOp x1).Legal := hleg _ (List.mem_of_getElem? hA)
      have hdrop : oj.ops.drop j = x2 :: oj.ops.drop (j + 1) := by
        have hj2 : j < oj.ops.length := by
          by_contra hc
          rw [List.getElem?_eq_none (by omega)] at g2; cases g2
        have hx2 : oj.ops[j] = x2 := by
          rw [List.getElem?_eq_getElem hj2] at g2; injection g2
        rw [← hx2]; exact List.drop_eq_getElem_cons hj2
      have hVt : (o.ops.map opVal).take (j + 1) = (o.ops.map opVal).take j ++ [opVal x1] :=
        take_succ_of_getElem? _ _ _ hV
      show ∃ s', Opus.CeltBands.allocDrive p ((k + n + 1) + 1) _ s = _ ∧ _
      rw [Opus.CeltBands.allocDrive, hoj]
      simp only [hlen, hdrop]
      cases x2 with
      | bit v2 =>
        cases x1 with
        | bit v1 =>
          -- `ec_dec_bit_logp(ec, 1)`
          have hv' : (decBitLogp s.c 1).1 = v1 := hval
          obtain ⟨s', r1, r2, r3, r4⟩ := ih (j + 1) k (by omega) (s.bit 1).2 (by
            show (decBitLogp s.c 1).2 = _
            rw [d2]; rfl)
          refine ⟨s', ?_, r2, r3, r4⟩
          simp only [BSt.bit] at r1 ⊢
          rw [hVt] at r1
          simp only [hv'] at r1 ⊢
          exact r1
        | uint v1 f1 => exact absurd sk (by simp [SameKind])
      | uint v2 ft =>
        cases x1 with
        | bit v1 => exact absurd sk (by simp [SameKind])
        | uint v1 f1 =>
          have hft : f1 = ft := sk
          subst hft
          have hv' : (decUint s.c f1).1 = v1 := hval
          have hl : 2 ≤ f1 ∧ f1 ≤ 4294967295 := ⟨hlegx.1, hlegx.2.1⟩
          obtain ⟨s', r1, r2, r3, r4⟩ := ih (j + 1) k (by omega) (s.uint f1).2 (by
            show (decUint s.c f1).2 = _
            rw [d2]; rfl)
          have hf : (s.uint f1).2.fault = s.fault := by
            simp only [BSt.uint]
            have a1 : decide (f1 < 2) = false := by simp; omega
            have a2 : decide (4294967296 ≤ f1) = false := by simp; omega
            rw [a1, a2]; simp
          refine ⟨s', ?_, r2, r3, by rw [r4, hf]⟩
          simp only [BSt.uint] at r1 ⊢
          rw [hVt] at r1
          simp only [hv'] at r1 ⊢
          exact r1

theorem encFrame_hdr (cfg : EncCfg) (s0 : St) (fr : Opus.CeltBandsEnc.EncFrame)
    (h : Opus.CeltBandsEnc.encFrame cfg s0 = .ok fr) : encHeader cfg s0 = .ok fr.hdr := by
  unfold Opus.CeltBandsEnc.encFrame at h
  cases hh : encHeader cfg s0 with
  | ok hd => rw [hh] at h; simp only [] at h; injection h with h; rw [← h]
  | err e => rw [hh] at h; cases h
  | oob => rw [hh] at h; cases h
  | abort => rw [hh] at h; cases h

/-- the final size of a non-silent frame never exceeds `nbCompressedBytes` -/
theorem encHeader_size_le (cfg : EncCfg) (s0 : St) (hdr : EncHdr) (hrun : encHeader cfg s0 = .ok hdr)
    (hsil : hdr.silence = 0) : hdr.size ≤ cfg.size := by
  unfold encHeader at hrun
  simp only [] at hrun
  generalize hR1 : encSilence cfg s0 = R1 at hrun
  generalize hR2 : encPostFilter cfg ((R1.2.1 * 8 : Nat) : Int) R1.2.2.1 R1.2.2.2 = R2 at hrun
  generalize hR3 : encTransient cfg ((R1.2.1 * 8 : Nat) : Int) R2.2 = R3 at hrun
  cases hC : encCoarse cfg ((R1.2.1 * 8 : Nat) : Int) R3.2 with
  | ok v =>
    obtain ⟨intra, qs, qds, s4⟩ := v
    rw [hC] at hrun
    simp only [] at hrun
    obtain ⟨k1, _, _, _, _, _, _, _, _, k10⟩ := encTail_facts _ _ _ _ _ _ _ _ _ _ _ hrun
    have := encSilence_size cfg s0 (by rw [hR1, ← k1]; exact hsil)
    rw [hR1] at this
    omega
  | err e => rw [hC] at hrun; cases hrun
  | oob => rw [hC] at hrun; cases hrun
  | abort => rw [hC] at hrun; cases hrun

/-- every call of the packet is legal -/
theorem World.legal_mem (w : World) (P A : List Op) (h : w.IsPrefix (P ++ A)) : ∀ op ∈ A, op.Legal := by
  intro op hop
  obtain ⟨A1, A2, hA⟩ := List.append_of_mem hop
  have : P ++ A = (P ++ A1 ++ [op]) ++ A2 := by rw [hA]; simp
  rw [this] at h
  exact w.legal_next _ op (World.isPrefix_of_append h)

/-- `init_caps` as C03's header model computes it (frozen tables) and as the allocation model takes it -/
theorem caps_eq : ∀ LM, LM < 4 → ∀ C, C < 3 → 1 ≤ C →
    ((List.range Opus.CeltSymsFrozen.nbEBands).map (Opus.CeltSyms.capOf ⟨0, 0, C, LM⟩)).map Int.ofNat =
      CeltAlloc.initCaps LM C := by decide +kernel

theorem capOf_cfg (cfg : Opus.CeltSyms.CeltCfg) (i : Nat) :
    Opus.CeltSyms.capOf cfg i = Opus.CeltSyms.capOf ⟨0, 0, cfg.C, cfg.LM⟩ i := rfl

/-- C03's allocation input is the one of `HdrAgree.allocAgree` -/
theorem allocInp_eq (cfg : EncCfg) (dh : Opus.CeltSyms.CeltHdr) (hLM : cfg.LM < 4) (hC : cfg.C = 1 ∨ cfg.C = 2)
    (hcaps : dh.caps = (List.range Opus.CeltSymsFrozen.nbEBands).map (Opus.CeltSyms.capOf (cfgD cfg))) :
    Opus.CeltBands.allocInp (cfgD cfg) dh = decAllocInp cfg dh 0 0 0 0 := by
  unfold Opus.CeltBands.allocInp decAllocInp
  have h1 : (List.replicate cfg.start 0 ++ dh.offsets).map Int.ofNat =
      List.replicate cfg.start (0 : Int) ++ dh.offsets.map (fun (x : Nat) => (x : Int)) := by
    rw [List.map_append, List.map_replicate]; rfl
  have h2 : dh.caps.map Int.ofNat = CeltAlloc.initCaps cfg.LM cfg.C := by
    rw [hcaps]
    have : (List.range Opus.CeltSymsFrozen.nbEBands).map (Opus.CeltSyms.capOf (cfgD cfg)) =
        (List.range Opus.CeltSymsFrozen.nbEBands).map (Opus.CeltSyms.capOf ⟨0, 0, cfg.C, cfg.LM⟩) :=
      List.map_congr_left (fun i _ => capOf_cfg (cfgD cfg) i)
    rw [this]
    exact caps_eq cfg.LM hLM cfg.C (by omega) (by omega)
  show CeltAlloc.Inp.mk _ _ _ _ _ _ _ _ _ _ _ _ = _
  simp only [h1, h2]

/-- **The CELT frame round trip against C03's `celtFrame`.**  Under the hypotheses of `frame_roundtrip`, C03's complete
    frame decoder model — header, allocation fed call by call from the range decoder, band data — returns the
    encoder's header, the encoder's allocation and ends with the encoder's final range. -/
theorem celtFrame_roundtrip (w : World) (P0 : List Op) (cfg : EncCfg) (s0 : St) (hs0 : s0.ops = [])
    (he0 : s0.e = w.encAt P0) (hst0 : s0.e.storage = cfg.size)
    (fr : Opus.CeltBandsEnc.EncFrame) (hrun : Opus.CeltBandsEnc.encFrame cfg s0 = .ok fr) (hsil : fr.hdr.silence = 0)
    (hp : w.IsPrefix (P0 ++ fr.ops))
    (hcfg : cfg.start < cfg.end_ ∧ cfg.end_ ≤ 21 ∧ (cfg.C = 1 ∨ cfg.C = 2) ∧ cfg.LM ≤ 3)
    (hsz : cfg.size ≤ 1275) (hlen : w.len = fr.hdr.size)
    (hmargin : w.len = cfg.size ∨ (tell (w.encAt (P0 ++ fr.hdr.opsHdr)) + 16 ≤ ((w.len * 8 : Nat) : Int) ∧
       (tellFrac (w.encAt (P0 ++ fr.hdr.opsHdr)) : Int) + fr.hdr.totalBoost + 48 < ((w.len * 8 * 8 : Nat) : Int)))
    (hroom : tell s0.e < ((w.len * 8 : Nat) : Int))
    (htap : fr.hdr.pf.on ≠ 0 → tell (w.encAt (P0 ++ fr.hdr.opsPf.dropLast)) + 2 ≤ ((w.len * 8 : Nat) : Int))
    (hint : (cfg.start : Int) ≤ fr.hdr.allocInp.intensity)
    (hdual : fr.hdr.allocInp.dualStereo = 0 ∨ fr.hdr.allocInp.dualStereo = 1) :
    ∃ (dh : Opus.CeltSyms.CeltHdr) (sA : BSt), FrameAgree w P0 cfg fr dh ∧
      sA.c = w.decAt (P0 ++ fr.hdr.ops) ∧
      Opus.CeltBands.celtFrame (cfgD cfg) w.len (w.decAt P0) =
        .ok { hdr := dh, alloc := fr.hdr.alloc, allocSt := sA,
              fin := Opus.CeltBands.afterAlloc (cfgD cfg) w.len dh fr.hdr.alloc
                { rem := 0, c := w.decAt (P0 ++ fr.hdr.ops), tr := [], fault := false } } := by
  obtain ⟨dh, hd, ag⟩ := frame_roundtrip w P0 cfg s0 hs0 he0 hst0 fr hrun hsil hp hcfg hsz hlen hmargin hroom htap hint hdual
  have hLM : cfg.LM < 4 := by have := hcfg.2.2.2; omega
  obtain ⟨hcaps, _⟩ := Opus.CeltBandsProofs.celtHeader_shape (cfgD cfg) w.len (w.decAt P0) dh hd
  have hpe := allocInp_eq cfg dh hLM hcfg.2.2.1 hcaps
  have hlen1275 : w.len ≤ 262144 := by
    have hk := encHeader_size_le cfg s0 fr.hdr (encFrame_hdr cfg s0 fr hrun) hsil
    omega
  have hdom := Opus.CeltBandsProofs.allocInp_dom (cfgD cfg) w.len (w.decAt P0) dh hd hLM hcfg.2.2.1 hcfg.1 hcfg.2.1 hlen1275
  have hops := Opus.CeltBandsProofs.allocOps_of_dom _ hdom
  -- the allocation run with the complete list of decoded values
  have hfull : ∀ rest, CeltAlloc.computeAllocation (Opus.CeltBands.allocInp (cfgD cfg) dh)
      { encode := false, oracle := fr.hdr.alloc.ops.map opVal ++ rest, ops := [] } = .ok fr.hdr.alloc := by
    intro rest
    have := ag.hdr.allocAgree 0 0 0 0 rest
    rw [ag.hdr.allocVals] at this
    rw [hpe]; exact this
  have hn63 : fr.hdr.alloc.ops.length ≤ 63 := by
    have := hops (fr.hdr.alloc.ops.map opVal) fr.hdr.alloc (by have := hfull []; rw [List.append_nil] at this; exact this)
    exact this.1
  have hpH : w.IsPrefix (P0 ++ fr.hdr.opsHdr ++ fr.hdr.alloc.ops.map allocOp) := by
    obtain ⟨δ, hδ⟩ := ag.opsExt
    rw [hδ, ag.hdr.opsSplit, ← List.append_assoc, ← List.append_assoc] at hp
    exact World.isPrefix_of_append hp
  obtain ⟨sA, r1, r2, r3, r4⟩ := allocDrive_run (Opus.CeltBands.allocInp (cfgD cfg) dh) hdom fr.hdr.alloc dh.dec hfull
    ag.hdr.allocVals (w.legal_mem _ _ hpH) fr.hdr.alloc.ops.length 0 (63 - fr.hdr.alloc.ops.length) (by omega)
    { rem := 0, c := dh.dec, tr := [], fault := false } rfl
  have hfuel : 63 - fr.hdr.alloc.ops.length + fr.hdr.alloc.ops.length + 1 = 64 := by omega
  rw [hfuel] at r1
  simp only [List.take_zero] at r1
  have hsAc : sA.c = w.decAt (P0 ++ fr.hdr.ops) := by rw [r2]; exact ag.hdr.decAtBands
  refine ⟨dh, sA, ag, hsAc, ?_⟩
  unfold Opus.CeltBands.celtFrame
  rw [hd]
  simp only [r1]
  have hst : ({ sA with tr := [] } : BSt) = { rem := 0, c := w.decAt (P0 ++ fr.hdr.ops), tr := [], fault := false } := by
    rw [← hsAc]
    cases sA
    simp only at r3 r4 ⊢
    rw [r3, r4]
  rw [hst, ag.noFault]
  simp only [Bool.false_eq_true, if_false]

end OpusProofs.CeltHdr
