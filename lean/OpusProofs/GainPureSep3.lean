import OpusProofs.GainPureSep2
/-
  OpusProofs.GainPureSep3 — the watermark invariant through `opus_decode_native` (frame loop, PLC loop, FEC) and the
  resulting theorem: the event log of every `opus_decode_native` call without soft clip satisfies `gainSep`.
-/
namespace Opus.DecSkel

theorem PL.ofFP' {w B : Int} {p : Ptr} {n : Int} {r : Run} {res res' : Res'} (hf : FP w p n r res)
    (hl : res'.2.log = res.2.log) (hcf : Cfg res.2 res'.2)
    (hb : ∀ ret', res'.1 = .ret ret' → 0 ≤ ret' → ∃ ret, res.1 = .ret ret ∧ 0 ≤ ret ∧ max w (p.off + ret * r.st.channels) ≤ max w B) :
    PL w B r res' := by
  refine ⟨hf.cfg.trans hcf, fun hw => ?_⟩
  obtain ⟨w', a, b, c, d⟩ := hf.wm hw
  refine ⟨w', a, by rw [hl]; exact b, c, fun ⟨ret', e1, e2⟩ => ?_⟩
  obtain ⟨ret, f1, f2, f3⟩ := hb ret' e1 e2
  exact Int.le_trans (d ret f1 f2) f3

theorem PL.post {w B : Int} {r : Run} {res res' : Res'} (h : PL w B r res) (hl : res'.2.log = res.2.log) (hcf : Cfg res.2 res'.2)
    (hb : (∃ ret', res'.1 = .ret ret' ∧ 0 ≤ ret') → ∃ ret, res.1 = .ret ret ∧ 0 ≤ ret) : PL w B r res' := by
  refine ⟨h.cfg.trans hcf, fun hw => ?_⟩
  obtain ⟨w', a, b, c, d⟩ := h.wm hw
  exact ⟨w', a, by rw [hl]; exact b, c, fun hex => d (hb hex)⟩

theorem F2_5_of_cfg {r r' : Run} (h : Cfg r r') (hJ : F2_5 r.st ≤ r.st.frame_size) : F2_5 r'.st ≤ r'.st.frame_size := by
  rw [F2_5_cfg h, h.fsz]; exact hJ

theorem nativePlcLoop_PL (o : Oracle) (frame_size : Int) (pcm : Ptr) :
    ∀ (n : Nat) (w pcm_count : Int) (r : Run), (frame_size - pcm_count).toNat ≤ n →
      (pcm.buf = .pcm ∨ r.st.decode_gain = 0) → (pcm.buf = .pcm → w ≤ pcm.off + pcm_count * r.st.channels) →
      0 ≤ pcm_count → 0 ≤ r.st.channels → F2_5 r.st ≤ r.st.frame_size →
      PL w (pcm.off + frame_size * r.st.channels) r (nativePlcLoop o frame_size pcm pcm_count r) := by
  intro n
  induction n with
  | zero =>
    intro w pcm_count r hn hg hw0 hpc hc hJ
    have hp : Above w (pcm.add (pcm_count * r.st.channels)) := fun hb => hw0 hb
    have hf := decodeFrame_FP o w none 0 (pcm.add (pcm_count * r.st.channels)) (frame_size - pcm_count) 0 r hp hg hc hJ
    rw [nativePlcLoop]
    rcases hx : decodeFrame o none 0 (pcm.add (pcm_count * r.st.channels)) (frame_size - pcm_count) 0 r with ⟨out, r1⟩
    rw [hx] at hf
    cases out with
    | ret ret =>
      dsimp only
      by_cases c1 : ret < 0
      · simp only [if_pos c1]; exact PL.ofFP' hf rfl (Cfg.refl _) (fun ret' h h0 => by cases h; omega)
      · simp only [if_neg c1]
        by_cases c2 : ret = 0
        · simp only [dif_pos c2]; exact PL.ofFP' hf rfl (Cfg.refl _) (fun ret' h _ => by cases h)
        · simp only [dif_neg c2]
          have hle := hf.le ret rfl (by omega)
          have c3 : ¬ pcm_count + ret < frame_size := by omega
          simp only [dif_neg c3]
          by_cases c4 : pcm_count + ret ≠ frame_size
          · simp only [if_pos c4]; exact PL.ofFP' hf rfl (Cfg.refl _) (fun ret' h _ => by cases h)
          · simp only [if_neg c4]
            refine PL.ofFP' hf rfl ⟨rfl, rfl, rfl, rfl⟩ (fun ret' h h0 => ⟨ret, rfl, by omega, ?_⟩)
            have e1 : (pcm.add (pcm_count * r.st.channels)).off = pcm.off + pcm_count * r.st.channels := rfl
            have e2 : (pcm_count + ret) * r.st.channels = pcm_count * r.st.channels + ret * r.st.channels := Int.add_mul _ _ _
            have e3 : frame_size = pcm_count + ret := by omega
            rw [e1, e3, e2]; omega
    | abort => exact PL.ofFP' hf rfl (Cfg.refl _) (fun ret' h _ => by cases h)
    | hang => exact PL.ofFP' hf rfl (Cfg.refl _) (fun ret' h _ => by cases h)
  | succ n ih =>
    intro w pcm_count r hn hg hw0 hpc hc hJ
    have hp : Above w (pcm.add (pcm_count * r.st.channels)) := fun hb => hw0 hb
    have hf := decodeFrame_FP o w none 0 (pcm.add (pcm_count * r.st.channels)) (frame_size - pcm_count) 0 r hp hg hc hJ
    rw [nativePlcLoop]
    rcases hx : decodeFrame o none 0 (pcm.add (pcm_count * r.st.channels)) (frame_size - pcm_count) 0 r with ⟨out, r1⟩
    rw [hx] at hf
    cases out with
    | ret ret =>
      dsimp only
      by_cases c1 : ret < 0
      · simp only [if_pos c1]; exact PL.ofFP' hf rfl (Cfg.refl _) (fun ret' h h0 => by cases h; omega)
      · simp only [if_neg c1]
        by_cases c2 : ret = 0
        · simp only [dif_pos c2]; exact PL.ofFP' hf rfl (Cfg.refl _) (fun ret' h _ => by cases h)
        · simp only [dif_neg c2]
          have hle := hf.le ret rfl (by omega)
          have e1 : (pcm.add (pcm_count * r.st.channels)).off = pcm.off + pcm_count * r.st.channels := rfl
          have e2 : (pcm_count + ret) * r.st.channels = pcm_count * r.st.channels + ret * r.st.channels := Int.add_mul _ _ _
          have hmul0 : 0 ≤ ret * r.st.channels := Int.mul_nonneg (by omega) hc
          by_cases c3 : pcm_count + ret < frame_size
          · simp only [dif_pos c3]
            have hcfg : Cfg r r1 := hf.cfg
            have hg1 : pcm.buf = .pcm ∨ r1.st.decode_gain = 0 := by
              rcases hg with h | h; exact Or.inl h; exact Or.inr (hcfg.g.trans h)
            have hc1 : 0 ≤ r1.st.channels := by rw [hcfg.ch]; exact hc
            have hJ1 := F2_5_of_cfg hcfg hJ
            refine ⟨?_, fun hw => ?_⟩
            · exact hcfg.trans (ih w (pcm_count + ret) r1 (by omega) hg1
                (fun hb => by have := hw0 hb; rw [hcfg.ch, e2]; omega) (by omega) hc1 hJ1).cfg
            · obtain ⟨w1, a1, b1, c1', d1⟩ := hf.wm hw
              have d1' := d1 ret rfl (by omega)
              rw [e1] at d1'
              have hpl := ih w1 (pcm_count + ret) r1 (by omega) hg1
                (fun hb => by have := hw0 hb; rw [hcfg.ch, e2]; omega) (by omega) hc1 hJ1
              obtain ⟨w2, a2, b2, c2', d2⟩ := hpl.wm b1
              refine ⟨w2, by omega, b2, fun h0 => by rw [c2' (hcfg.g.trans h0), c1' h0], fun hex => ?_⟩
              have d2' := d2 hex
              rw [hcfg.ch] at d2'
              have hfm : (pcm_count + ret) * r.st.channels ≤ frame_size * r.st.channels :=
                Int.mul_le_mul_of_nonneg_right (by omega) hc
              omega
          · simp only [dif_neg c3]
            by_cases c4 : pcm_count + ret ≠ frame_size
            · simp only [if_pos c4]; exact PL.ofFP' hf rfl (Cfg.refl _) (fun ret' h _ => by cases h)
            · simp only [if_neg c4]
              refine PL.ofFP' hf rfl ⟨rfl, rfl, rfl, rfl⟩ (fun ret' h h0 => ⟨ret, rfl, by omega, ?_⟩)
              have e3 : frame_size = pcm_count + ret := by omega
              rw [e1, e3, e2]; omega
    | abort => exact PL.ofFP' hf rfl (Cfg.refl _) (fun ret' h _ => by cases h)
    | hang => exact PL.ofFP' hf rfl (Cfg.refl _) (fun ret' h _ => by cases h)

/-- Result of a whole call: the configuration is kept (except `frame_size`, which the TOC sets) and the log stays separated. -/
def Sep (w : Int) (r : Run) (res : Res') : Prop := WM w r.log → ∃ w', WM w' res.2.log

theorem PL.sep {w B : Int} {r : Run} {res : Res'} (h : PL w B r res) : Sep w r res :=
  fun hw => by obtain ⟨w', _, b, _⟩ := h.wm hw; exact ⟨w', b⟩

theorem frameLoop_sep (o : Oracle) (pcm : Ptr) (frame_size pfs : Int) :
    ∀ (sizes : List Nat) (w off nb : Int) (r : Run),
      (pcm.buf = .pcm ∨ r.st.decode_gain = 0) → (pcm.buf = .pcm → w ≤ pcm.off + nb * r.st.channels) →
      0 ≤ r.st.channels → F2_5 r.st ≤ r.st.frame_size →
      Sep w r (frameLoop o pcm frame_size pfs sizes off nb r) := by
  intro sizes
  induction sizes with
  | nil => intro w off nb r _ _ _ _ hw; exact ⟨w, hw⟩
  | cons sz rest ih =>
    intro w off nb r hg hw0 hc hJ hw
    have hp : Above w (pcm.add (nb * r.st.channels)) := fun hb => hw0 hb
    have hf := decodeFrame_FP o w (some off) sz (pcm.add (nb * r.st.channels)) (frame_size - nb) 0 r hp hg hc hJ
    rw [frameLoop]
    rcases hx : decodeFrame o (some off) sz (pcm.add (nb * r.st.channels)) (frame_size - nb) 0 r with ⟨out, r1⟩
    rw [hx] at hf
    obtain ⟨w1, a1, b1, c1', d1⟩ := hf.wm hw
    cases out with
    | ret ret =>
      dsimp only
      by_cases c1 : ret < 0
      · simp only [if_pos c1]; exact ⟨w1, b1⟩
      · simp only [if_neg c1]
        by_cases c2 : ret ≠ pfs
        · simp only [if_pos c2]; exact ⟨w1, b1⟩
        · simp only [if_neg c2]
          have hcfg : Cfg r r1 := hf.cfg
          have d1' := d1 ret rfl (by omega)
          have e1 : (pcm.add (nb * r.st.channels)).off = pcm.off + nb * r.st.channels := rfl
          have e2 : (nb + ret) * r.st.channels = nb * r.st.channels + ret * r.st.channels := Int.add_mul _ _ _
          have hmul0 : 0 ≤ ret * r.st.channels := Int.mul_nonneg (by omega) hc
          rw [e1] at d1'
          exact ih w1 (off + sz) (nb + ret) r1 (by rcases hg with h | h; exact Or.inl h; exact Or.inr (hcfg.g.trans h))
            (fun hb => by have := hw0 hb; rw [hcfg.ch, e2]; omega) (by rw [hcfg.ch]; exact hc) (F2_5_of_cfg hcfg hJ) b1
    | abort => exact ⟨w1, b1⟩
    | hang => exact ⟨w1, b1⟩

theorem nativePlc_PL (o : Oracle) (w : Int) (pcm : Ptr) (frame_size : Int) (r : Run)
    (hg : pcm.buf = .pcm ∨ r.st.decode_gain = 0) (hp : Above w pcm) (hc : 0 ≤ r.st.channels) (hJ : F2_5 r.st ≤ r.st.frame_size) :
    PL w (pcm.off + frame_size * r.st.channels) r (nativePlc o pcm frame_size r) := by
  unfold nativePlc
  split
  · exact PL.ofPres (Pres.refl w r)
  · split
    · exact PL.ofPres (Pres.refl w r)
    · exact nativePlcLoop_PL o frame_size pcm _ w 0 r (Nat.le_refl _) hg (fun hb => by have := hp hb; omega) (Int.le_refl _) hc hJ

theorem fecGap_PL (o : Oracle) (w : Int) (pcm : Ptr) (gap : Int) (r : Run)
    (hg : pcm.buf = .pcm ∨ r.st.decode_gain = 0) (hp : Above w pcm) (hc : 0 ≤ r.st.channels) (hJ : F2_5 r.st ≤ r.st.frame_size) :
    PL w (pcm.off + gap * r.st.channels) r (fecGap o pcm gap r) := by
  unfold fecGap
  by_cases c0 : gap ≠ 0
  · rw [if_pos c0]
    have h := nativePlc_PL o w pcm gap r hg hp hc hJ
    rcases hx : nativePlc o pcm gap r with ⟨out, r1⟩
    rw [hx] at h
    cases out with
    | ret ret =>
      dsimp only
      by_cases c1 : ret < 0
      · simp only [if_pos c1]
        exact h.post rfl ⟨rfl, rfl, rfl, rfl⟩ (fun ⟨ret', e, e0⟩ => by cases e; omega)
      · simp only [if_neg c1]
        by_cases c2 : ret ≠ gap
        · simp only [if_pos c2]; exact h.post rfl (Cfg.refl _) (fun ⟨ret', e, _⟩ => by cases e)
        · simp only [if_neg c2]; exact h.post rfl (Cfg.refl _) (fun _ => ⟨ret, rfl, by omega⟩)
    | abort => exact h
    | hang => exact h
  · rw [if_neg c0]; exact PL.ofPres (Pres.refl w r)

theorem setToc_cfg (r : Run) (pm pb pfs pc : Int) :
    (r.setSt (setToc r.st pm pb pfs pc)).st.channels = r.st.channels ∧ (r.setSt (setToc r.st pm pb pfs pc)).st.Fs = r.st.Fs ∧
    (r.setSt (setToc r.st pm pb pfs pc)).st.decode_gain = r.st.decode_gain ∧
    (r.setSt (setToc r.st pm pb pfs pc)).st.frame_size = pfs ∧ (r.setSt (setToc r.st pm pb pfs pc)).log = r.log :=
  ⟨rfl, rfl, rfl, rfl, rfl⟩

theorem nativeFec_sep (o : Oracle) (w : Int) (pcm : Ptr) (frame_size pfs pm pb pc off0 sz0 : Int) (r : Run)
    (hg : pcm.buf = .pcm ∨ r.st.decode_gain = 0) (hp : Above w pcm) (hc : 0 ≤ r.st.channels) (hJ : F2_5 r.st ≤ r.st.frame_size)
    (hpfs : F2_5 r.st ≤ pfs) :
    Sep w r (nativeFec o pcm frame_size pfs pm pb pc off0 sz0 r) := by
  unfold nativeFec
  by_cases c0 : frame_size < pfs ∨ pm = MODE_CELT ∨ r.st.mode = MODE_CELT
  · rw [if_pos c0]; exact (nativePlc_PL o w pcm frame_size r hg hp hc hJ).sep
  · rw [if_neg c0]
    have h := fecGap_PL o w pcm (frame_size - pfs) r hg hp hc hJ
    rcases hx : fecGap o pcm (frame_size - pfs) r with ⟨out, r1⟩
    rw [hx] at h
    intro hw
    obtain ⟨w1, a1, b1, c1', d1⟩ := h.wm hw
    cases out with
    | ret v =>
      dsimp only
      by_cases c1 : v < 0
      · simp only [if_pos c1]; exact ⟨w1, b1⟩
      · simp only [if_neg c1]
        have hcfg : Cfg r r1 := h.cfg
        have d1' := d1 ⟨v, rfl, by omega⟩
        have hge : 0 ≤ r.st.channels * (frame_size - pfs) := Int.mul_nonneg hc (by omega)
        have hcomm : (frame_size - pfs) * r.st.channels = r.st.channels * (frame_size - pfs) := Int.mul_comm _ _
        have hp1 : Above w1 (pcm.add (r.st.channels * (frame_size - pfs))) := by
          intro hb
          have := hp hb
          show w1 ≤ pcm.off + r.st.channels * (frame_size - pfs)
          omega
        have hf := decodeFrame_FP o w1 (some off0) sz0 (pcm.add (r.st.channels * (frame_size - pfs))) pfs 1
          (r1.setSt (setToc r1.st pm pb pfs pc)) hp1
          (by rcases hg with h | h; exact Or.inl h; exact Or.inr (hcfg.g.trans h))
          (show 0 ≤ r1.st.channels by rw [hcfg.ch]; exact hc)
          (show F2_5 r1.st ≤ pfs by rw [F2_5_cfg hcfg]; exact hpfs)
        obtain ⟨w2, a2, b2, _, _⟩ := hf.wm b1
        rcases hy : decodeFrame o (some off0) sz0 (pcm.add (r.st.channels * (frame_size - pfs))) pfs 1
          (r1.setSt (setToc r1.st pm pb pfs pc)) with ⟨out2, r3⟩
        rw [hy] at b2
        cases out2 with
        | ret ret =>
          dsimp only
          by_cases c2 : ret < 0
          · simp only [if_pos c2]; exact ⟨w2, b2⟩
          · simp only [if_neg c2]; exact ⟨w2, b2⟩
        | abort => exact ⟨w2, b2⟩
        | hang => exact ⟨w2, b2⟩
    | abort => exact ⟨w1, b1⟩
    | hang => exact ⟨w1, b1⟩

theorem nativeFrames_sep (o : Oracle) (w : Int) (pcm : Ptr) (frame_size pfs pm pb pc : Int) (sizes : List Nat) (off0 : Int) (r : Run)
    (hg : pcm.buf = .pcm ∨ r.st.decode_gain = 0) (hp : Above w pcm) (hc : 0 ≤ r.st.channels) (hpfs : F2_5 r.st ≤ pfs) :
    Sep w r (nativeFrames o pcm frame_size pfs pm pb pc sizes off0 false r) := by
  unfold nativeFrames
  intro hw
  have h := frameLoop_sep o pcm frame_size pfs sizes w off0 0 (r.setSt (setToc r.st pm pb pfs pc)) hg
    (fun hb => by have := hp hb; show w ≤ pcm.off + 0 * r.st.channels; omega) hc hpfs hw
  obtain ⟨w1, b1⟩ := h
  rcases hx : frameLoop o pcm frame_size pfs sizes off0 0 (r.setSt (setToc r.st pm pb pfs pc)) with ⟨out, r2⟩
  rw [hx] at b1
  cases out with
  | ret nb =>
    dsimp only
    by_cases c1 : nb < 0
    · simp only [if_pos c1]; exact ⟨w1, b1⟩
    · simp only [if_neg c1, Bool.false_eq_true, if_false]; exact ⟨w1, b1⟩
  | abort => exact ⟨w1, b1⟩
  | hang => exact ⟨w1, b1⟩

theorem samplesPerFrame_ge (toc fs : Nat) : fs / 400 ≤ Framing.samplesPerFrame toc fs := by
  have hpow : ∀ a : Nat, fs ≤ fs * 2 ^ a := fun a => Nat.le_mul_of_pos_right fs (Nat.pow_pos (by decide))
  unfold Framing.samplesPerFrame
  split
  · exact Nat.div_le_div_right (hpow _)
  · split
    · split <;> omega
    · dsimp only
      split
      · omega
      · have := Nat.div_le_div_right (c := 100) (hpow (toc / 8 % 4)); omega

theorem F2_5_le_pfs (st : DecState) (hfs : FsOk st.Fs) (toc : Nat) : F2_5 st ≤ (Framing.samplesPerFrame toc st.Fs.toNat : Int) := by
  have h := samplesPerFrame_ge toc st.Fs.toNat
  have h' : ((st.Fs.toNat / 400 : Nat) : Int) ≤ (Framing.samplesPerFrame toc st.Fs.toNat : Int) := Int.ofNat_le.mpr h
  unfold F2_5 F5 F10 F20
  rcases hfs with e | e | e | e | e <;> (rw [e] at h' ⊢; simp at h' ⊢; omega)

/-- **`opus_decode_native` without soft clip** (the float API, the 24-bit API, every per-stream call of the multistream
    decoder): the event log of the call satisfies `gainSep`. -/
theorem decodeNative_gainSep (o : Oracle) (data : Option Bytes) (len : Int) (pcm : Ptr) (frame_size fec : Int) (sd : Bool) (r : Run)
    (hlog : r.log = []) (hbuf : pcm.buf = .pcm) (hfs : FsOk r.st.Fs) (hc : 0 ≤ r.st.channels)
    (hJ : F2_5 r.st ≤ r.st.frame_size) :
    gainSep (decodeNative o data len pcm frame_size fec sd false r).run.log = true := by
  have hw : WM pcm.off r.log := by rw [hlog]; exact WM.nil _
  have hp : Above pcm.off pcm := fun _ => Int.le_refl _
  have key : ∀ (x : Res') (po : Int), Sep pcm.off r x → gainSep (NativeOut.mk' x po).run.log = true := by
    intro x po h; obtain ⟨w', b⟩ := h hw; exact b.sep
  have triv : ∀ (v : Out Int) (po : Int), gainSep (NativeOut.mk' (v, r) po).run.log = true := by
    intro v po; exact key _ _ (fun h => ⟨_, h⟩)
  unfold decodeNative
  split
  · exact triv _ _
  split
  · exact triv _ _
  split
  · exact triv _ _
  split
  · exact key _ _ (nativePlcLoop_PL o frame_size pcm _ pcm.off 0 r (Nat.le_refl _) (Or.inl hbuf) (fun _ => by omega)
      (Int.le_refl _) hc hJ).sep
  split
  · exact triv _ _
  split
  · exact triv _ _
  · exact triv _ _
  · exact triv _ _
  · split
    · exact key _ _ (nativeFec_sep o pcm.off pcm frame_size _ _ _ _ _ _ r (Or.inl hbuf) hp hc hJ (F2_5_le_pfs r.st hfs _))
    · split
      · exact triv _ _
      · exact key _ _ (nativeFrames_sep o pcm.off pcm frame_size _ _ _ _ _ _ r (Or.inl hbuf) hp hc (F2_5_le_pfs r.st hfs _))

theorem DecInv.sepHyps {st : DecState} (h : DecInv st) : 0 ≤ st.channels ∧ F2_5 st ≤ st.frame_size := by
  refine ⟨by rcases h.ch with e | e <;> omega, ?_⟩
  have ht := h.toc
  unfold TocOk at ht
  unfold F2_5 F5 F10 F20
  rcases h.fs with e | e | e | e | e <;> (rw [e] at ht ⊢; simp at ht ⊢; omega)

/-- calls that do not run the soft clipper: everything except `opus_decode` (int16) and raw native calls with `soft_clip` -/
def noClip : Call → Bool
  | .decode .i16 _ _ _ _ => false
  | .native _ _ _ _ _ sc => !sc
  | _ => true

theorem apiTail_gainSep (o : Oracle) (data : Option Bytes) (len fec : Int) (cl : Option Int) (st : DecState) (hinv : DecInv st) :
    gainSep (apiTail o false data len fec cl { st, k := 0, log := [] }).run.log = true := by
  cases cl with
  | none => rfl
  | some fsz =>
    unfold apiTail
    dsimp only
    split
    · rfl
    · exact decodeNative_gainSep o data len _ fsz fec false _ rfl rfl hinv.fs hinv.sepHyps.1 hinv.sepHyps.2

/-- **Every call of a history that does not soft-clip logs a separated event log.** -/
theorem callObs_gainSep (o : Oracle) (st : DecState) (hinv : DecInv st) (c : Call) (hc : noClip c = true) :
    gainSep (callObs o st c).1.log = true := by
  cases c with
  | decode fmt data len fsz fec =>
    show gainSep (decodeApi o fmt data len fsz fec { st, k := 0, log := [] }).run.log = true
    rw [decodeApi_eq]
    split
    · rfl
    · cases fmt with
      | i16 => cases hc
      | i24 => exact apiTail_gainSep o data len fec _ st hinv
      | f32 => exact decodeNative_gainSep o data len _ fsz fec false _ rfl rfl hinv.fs hinv.sepHyps.1 hinv.sepHyps.2
  | native data len fsz fec sd sc =>
    cases sc with
    | true => cases hc
    | false => exact decodeNative_gainSep o data len _ fsz fec sd _ rfl rfl hinv.fs hinv.sepHyps.1 hinv.sepHyps.2
  | reset => rfl
  | gain v => rfl

theorem gzCall_noGain (c : Call) (h : ∀ v, c ≠ .gain v) : gzCall c = c := by
  cases c with
  | gain v => exact absurd rfl (h v)
  | _ => rfl

end Opus.DecSkel
