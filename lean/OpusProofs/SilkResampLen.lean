import OpusProofs.SilkResampCall
/-
  OpusProofs.SilkResampLen — the sample count of silk_resampler in closed form, for every input length:
  the batch loop's count `loopLenF` summed up (full batches + the last partial batch, which down_FIR drops when it is
  a single sample after a full batch), and the per-batch count `ceil( (n << 16|17) / invRatio_Q16 )` identified with
  `ceil( n * Fs_out / Fs_in )` for every batch length of every configuration (complete enumeration).
-/
namespace OpusProofs.SilkResamp
open Opus Opus.SilkResamp Opus.SilkParams Opus.Gen.SilkResampRom

theorem loopLenF_closed (cnt : Nat → Nat) (B thr : Nat) (hB : 0 < B) (hthr : thr < B) (h0 : cnt 0 = 0) :
    ∀ (f m : Nat), m ≤ f →
      loopLenF cnt B thr f m = (m / B) * cnt B + (if thr < m % B ∨ m < B then cnt (m % B) else 0) := by
  intro f
  induction f with
  | zero =>
    intro m hm
    have : m = 0 := by omega
    subst this
    simp [loopLenF, h0, hB]
  | succ f ih =>
    intro m hm
    simp only [loopLenF]
    by_cases hlt : m < B
    · have hmin : min m B = m := by omega
      rw [hmin, if_neg (by omega), Nat.div_eq_of_lt hlt, Nat.mod_eq_of_lt hlt, if_pos (Or.inr hlt)]
      omega
    · have hle : B ≤ m := by omega
      have hmin : min m B = B := by omega
      have hdiv : m / B = (m - B) / B + 1 := Nat.div_eq_sub_div hB hle
      have hmod : m % B = (m - B) % B := Nat.mod_eq_sub_mod hle
      rw [hmin]
      by_cases hcont : thr < m - B
      · rw [if_pos ⟨hcont, hB⟩, ih (m - B) (by omega), hdiv, ← hmod, Nat.add_mul, Nat.one_mul]
        by_cases hlt2 : m - B < B
        · have hm2 : m % B = m - B := by rw [hmod]; exact Nat.mod_eq_of_lt hlt2
          rw [if_pos (Or.inr hlt2), if_pos (Or.inl (by omega))]
          omega
        · by_cases hr : thr < m % B
          · rw [if_pos (Or.inl hr), if_pos (Or.inl hr)]; omega
          · rw [if_neg (by omega), if_neg (by omega)]; omega
      · rw [if_neg (by omega)]
        have hlt2 : m - B < B := by omega
        have hm2 : m % B = m - B := by rw [hmod]; exact Nat.mod_eq_of_lt hlt2
        have hd2 : (m - B) / B = 0 := Nat.div_eq_of_lt hlt2
        rw [hdiv, hd2, if_neg (by omega)]
        omega

/-- `ceil( n * Fs_out / Fs_in )`. -/
def ceilRate (c : Cfg) (n : Nat) : Nat := (n * c.fsOut + c.fsIn - 1) / c.fsIn

/-- For the two batch kernels: the interpolation loop on a batch of `n ≤ batchSize` samples writes
    `ceil( n * Fs_out / Fs_in )` samples. -/
def lenFacts (c : Cfg) : Bool :=
  (c.fn != useIIRFIR || (List.range (c.batchSize + 1)).all (fun n =>
      interpCount (lshift32 (n : Int) 17) c.invRatio == ceilRate c n)) &&
  (c.fn != useDownFIR || (List.range (c.batchSize + 1)).all (fun n =>
      interpCount (lshift32 (n : Int) 16) c.invRatio == ceilRate c n)) &&
  ceilRate c c.batchSize == 10 * c.fsOut && ceilRate c 0 == 0 && decide (1 < c.batchSize)

theorem cfgTable_lenFacts : ∀ c ∈ cfgTable, lenFacts c = true := by decide +kernel

/-- Samples written for the `m` input samples after the first millisecond, in closed form. -/
def restLen (c : Cfg) (m : Nat) : Nat :=
  if c.fn = useUp2HQ then 2 * m
  else if c.fn = useIIRFIR then
    (m / c.batchSize) * (10 * c.fsOut) + (if 0 < m % c.batchSize ∨ m < c.batchSize then ceilRate c (m % c.batchSize) else 0)
  else if c.fn = useDownFIR then
    (m / c.batchSize) * (10 * c.fsOut) + (if 1 < m % c.batchSize ∨ m < c.batchSize then ceilRate c (m % c.batchSize) else 0)
  else m

theorem kernelOutLen_closed (c : Cfg) (hc : c ∈ cfgTable) (m : Nat) : kernelOutLen c m = restLen c m := by
  have hf := cfgTable_lenFacts c hc
  simp only [lenFacts, Bool.and_eq_true, Bool.or_eq_true, bne_iff_ne, ne_eq, List.all_eq_true, List.mem_range,
    beq_iff_eq, decide_eq_true_eq] at hf
  obtain ⟨⟨⟨⟨hi, hd⟩, hB⟩, h0⟩, h1⟩ := hf
  have hmod : m % c.batchSize ≤ c.batchSize := Nat.le_of_lt (Nat.mod_lt _ (by omega))
  unfold kernelOutLen restLen
  by_cases h1f : c.fn = useUp2HQ
  · rw [if_pos h1f, if_pos h1f]
  · rw [if_neg h1f, if_neg h1f]
    by_cases h2f : c.fn = useIIRFIR
    · rw [if_pos h2f, if_pos h2f]
      have hi' := hi.resolve_left (fun h => h h2f)
      unfold loopLen
      rw [loopLenF_closed _ _ _ (by omega) (by omega) (by rw [hi' 0 (by omega)]; exact h0) m m (Nat.le_refl _)]
      rw [hi' c.batchSize (by omega), hi' (m % c.batchSize) (by omega), hB]
    · rw [if_neg h2f, if_neg h2f]
      by_cases h3f : c.fn = useDownFIR
      · rw [if_pos h3f, if_pos h3f]
        have hd' := hd.resolve_left (fun h => h h3f)
        unfold loopLen
        rw [loopLenF_closed _ _ _ (by omega) (by omega) (by rw [hd' 0 (by omega)]; exact h0) m m (Nat.le_refl _)]
        rw [hd' c.batchSize (by omega), hd' (m % c.batchSize) (by omega), hB]
      · rw [if_neg h3f, if_neg h3f]

theorem outLen_closed (c : Cfg) (hc : c ∈ cfgTable) (inLen : Nat) :
    outLen c inLen = c.fsOut + restLen c (inLen - c.fsIn) := by
  unfold outLen
  rw [first_ms_len c hc, kernelOutLen_closed c hc]

/-- Whole milliseconds: `ms * Fs_out_kHz` samples, for every `ms ≥ 1`. -/
def msFacts (c : Cfg) : Bool :=
  c.batchSize == 10 * c.fsIn && decide (1 < c.fsIn) && (c.fn != useUp2HQ || c.fsOut == 2 * c.fsIn) &&
  (c.fn == useUp2HQ || c.fn == useIIRFIR || c.fn == useDownFIR || c.fsOut == c.fsIn)

theorem cfgTable_msFacts : ∀ c ∈ cfgTable, msFacts c = true := by decide +kernel

theorem ceilRate_ms (c : Cfg) (h : 0 < c.fsIn) (r : Nat) : ceilRate c (r * c.fsIn) = r * c.fsOut := by
  unfold ceilRate
  have : r * c.fsIn * c.fsOut + c.fsIn - 1 = c.fsIn * (r * c.fsOut) + (c.fsIn - 1) := by
    rw [Nat.mul_right_comm r c.fsIn c.fsOut, Nat.mul_comm (r * c.fsOut) c.fsIn]; omega
  rw [this, Nat.mul_add_div h, Nat.div_eq_of_lt (by omega)]; omega

theorem restLen_ms (c : Cfg) (hc : c ∈ cfgTable) (j : Nat) : restLen c (j * c.fsIn) = j * c.fsOut := by
  have hf := cfgTable_msFacts c hc
  simp only [msFacts, Bool.and_eq_true, Bool.or_eq_true, bne_iff_ne, ne_eq, beq_iff_eq, decide_eq_true_eq] at hf
  obtain ⟨⟨⟨hB, h1⟩, hup⟩, hcopy⟩ := hf
  have hq : j * c.fsIn / (10 * c.fsIn) = j / 10 := Nat.mul_div_mul_right j 10 (by omega)
  have hr : j * c.fsIn % (10 * c.fsIn) = (j % 10) * c.fsIn := Nat.mul_mod_mul_right c.fsIn j 10
  have hj : j * c.fsOut = (j / 10) * (10 * c.fsOut) + (j % 10) * c.fsOut := by
    have h := Nat.div_add_mod j 10
    calc j * c.fsOut = (10 * (j / 10) + j % 10) * c.fsOut := by rw [h]
      _ = (j / 10) * (10 * c.fsOut) + (j % 10) * c.fsOut := by
        rw [Nat.add_mul, Nat.mul_comm 10 (j / 10), Nat.mul_assoc]
  have hpos : ∀ thr, thr ≤ 1 → (thr < (j % 10) * c.fsIn ↔ 0 < j % 10) := by
    intro thr ht
    constructor
    · intro h
      rcases Nat.eq_zero_or_pos (j % 10) with h0 | h0
      · rw [h0, Nat.zero_mul] at h; omega
      · exact h0
    · intro h
      have : 1 * c.fsIn ≤ (j % 10) * c.fsIn := Nat.mul_le_mul_right _ h
      omega
  have batch : ∀ thr, thr ≤ 1 →
      (j * c.fsIn / c.batchSize) * (10 * c.fsOut) +
        (if thr < j * c.fsIn % c.batchSize ∨ j * c.fsIn < c.batchSize then ceilRate c (j * c.fsIn % c.batchSize) else 0) =
      j * c.fsOut := by
    intro thr ht
    rw [hB, hq, hr, ceilRate_ms c (by omega), hj]
    by_cases h0 : 0 < j % 10
    · rw [if_pos (Or.inl ((hpos thr ht).2 h0))]
    · have hz : j % 10 = 0 := by omega
      rw [hz, Nat.zero_mul]
      split <;> simp only [Nat.zero_mul]
  unfold restLen
  by_cases h1f : c.fn = useUp2HQ
  · rw [if_pos h1f]
    have := hup.resolve_left (fun h => h h1f)
    rw [this, Nat.mul_left_comm 2 j c.fsIn]
  · rw [if_neg h1f]
    by_cases h2f : c.fn = useIIRFIR
    · rw [if_pos h2f]; exact batch 0 (by omega)
    · rw [if_neg h2f]
      by_cases h3f : c.fn = useDownFIR
      · rw [if_pos h3f]; exact batch 1 (by omega)
      · rw [if_neg h3f]
        have : c.fsOut = c.fsIn := by
          rcases hcopy with ((h | h) | h) | h
          · exact absurd h h1f
          · exact absurd h h2f
          · exact absurd h h3f
          · exact h
        rw [this]

/-- A whole number `ms ≥ 1` of milliseconds in, `ms * Fs_out_kHz` samples out. -/
theorem outLen_ms (c : Cfg) (hc : c ∈ cfgTable) (ms : Nat) (h : 1 ≤ ms) : outLen c (ms * c.fsIn) = ms * c.fsOut := by
  rw [outLen_closed c hc]
  have : ms * c.fsIn - c.fsIn = (ms - 1) * c.fsIn := by rw [Nat.sub_mul, Nat.one_mul]
  rw [this, restLen_ms c hc]
  have h2 : ms = (ms - 1) + 1 := by omega
  calc c.fsOut + (ms - 1) * c.fsOut = ((ms - 1) + 1) * c.fsOut := by rw [Nat.add_mul, Nat.one_mul, Nat.add_comm]
    _ = ms * c.fsOut := by rw [← h2]

end OpusProofs.SilkResamp
