import OpusProofs.RepackPad
/-
  C07 helper lemmas, part 9: op sequences (histories), and the byte-string level statements of
  pad / unpad that `OpusProps/C07.lean` quotes.
-/
namespace Opus.RepackProofs
open Opus Opus.Framing Opus.FramingSpec Opus.FramingProofs Opus.Repack Opus.Ext

/-! ### histories -/

/-- The public repacketizer operations. -/
inductive Op where
  | init
  | cat (bs : Bytes)
  | out (maxlen : Int)
  | outRange (b e maxlen : Int)

/-- State transition (only `init` and `cat` change the state). -/
def step (rp : Rp) : Op → Rp
  | .init => init rp
  | .cat bs => (cat rp bs).1
  | .out _ => rp
  | .outRange _ _ _ => rp

def run (rp : Rp) (ops : List Op) : Rp := ops.foldl step rp

/-- Packets handed to `cat` are byte strings (any content, valid or not). -/
def OpsOk (ops : List Op) : Prop := ∀ bs, Op.cat bs ∈ ops → BytesOk bs

/-- States reachable from `opus_repacketizer_init` by any finite sequence of operations. -/
def Reachable (s : Rp) : Prop := ∃ ops, OpsOk ops ∧ s = run Rp.empty ops

theorem inv_step (rp : Rp) (hinv : Inv rp) (op : Op) (hok : ∀ bs, op = .cat bs → BytesOk bs) : Inv (step rp op) := by
  cases op with
  | init => exact inv_init rp
  | cat bs => exact catImpl_inv rp hinv bs (hok bs rfl) false
  | out _ => exact hinv
  | outRange _ _ _ => exact hinv

theorem inv_run (rp : Rp) (hinv : Inv rp) (ops : List Op) (hok : OpsOk ops) : Inv (run rp ops) := by
  induction ops generalizing rp with
  | nil => exact hinv
  | cons op ops ih =>
    simp only [run, List.foldl_cons]
    apply ih
    · exact inv_step rp hinv op (fun bs h => hok bs (by simp [h]))
    · intro bs hbs; exact hok bs (by simp [hbs])

theorem reachable_inv {s : Rp} (h : Reachable s) : Inv s := by
  obtain ⟨ops, hok, rfl⟩ := h
  exact inv_run _ inv_empty ops hok

/-- The padding a packet would store carries no extensions (trivially true of invalid packets). -/
def PacketPadFree (bs : Bytes) : Prop :=
  ∀ r, parseImpl false bs = .ok r → Ext.count ((bs.drop r.padOffset).take r.padLen) r.padLen r.count = .ok 0

/-- An accepted standard-framing packet is the serialisation of a valid packet; the padding region the
    parser reports is that packet's padding. -/
theorem packet_of_parse (bs : Bytes) (hb : BytesOk bs) (r : Parsed) (h : parseImpl false bs = .ok r) :
    ∃ p, Valid p ∧ bs = serialize false p ∧ r = view false p ∧
      (bs.drop r.padOffset).take r.padLen = padBytes p ∧ slices bs r.payloadOffset r.sizes = p.frames := by
  obtain ⟨p, rest, hv, hbs, hr, hview, hfr⟩ := parsed_frames false bs hb r h
  have := hr rfl; subst this
  simp only [List.append_nil] at hbs
  refine ⟨p, hv, hbs, hview, ?_, hfr⟩
  subst hview
  simp only [view, Parsed.padOffset, Packet.lens, sumN_map_length]
  have : bs = (header false p ++ p.frames.flatten) ++ padBytes p := by rw [hbs]; simp [serialize]
  rw [this, ← List.length_append, List.drop_left, List.take_length]

theorem extFree_step (rp : Rp) (hf : ExtFree rp.pads) (op : Op) (hb : ∀ bs, op = .cat bs → BytesOk bs)
    (hok : ∀ bs, op = .cat bs → PacketPadFree bs) :
    ExtFree (step rp op).pads := by
  cases op with
  | init => intro pn h; simp [step, init] at h
  | out _ => exact hf
  | outRange _ _ _ => exact hf
  | cat bs =>
    simp only [step, cat]
    by_cases h : (catImpl rp bs false).2 = .ok ()
    · obtain ⟨r, hr, hst⟩ := catImpl_ok_state rp bs false h
      rw [hst]
      have hpf := hok bs rfl r hr
      intro pn hpn
      simp only [catNew, (withToc_frames rp _).2.1, List.mem_append, List.mem_cons, List.mem_replicate] at hpn
      rcases hpn with hpn | rfl | ⟨_, rfl⟩
      · exact hf pn hpn
      · simp only []
        obtain ⟨p, _, _, hview, hpad, _⟩ := packet_of_parse bs (hb bs rfl) r hr
        have hl : ((bs.drop r.padOffset).take r.padLen).length = r.padLen := by
          rw [hpad, hview]; rfl
        rw [hl]; exact hpf
      · exact count_nil 0 (by omega)
    · rw [(catImpl_reject rp bs false h).2.1]; exact hf

theorem extFree_run (rp : Rp) (hf : ExtFree rp.pads) (ops : List Op) (hb : OpsOk ops)
    (hok : ∀ bs, Op.cat bs ∈ ops → PacketPadFree bs) : ExtFree (run rp ops).pads := by
  induction ops generalizing rp with
  | nil => exact hf
  | cons op ops ih =>
    simp only [run, List.foldl_cons]
    apply ih
    · exact extFree_step rp hf op (fun bs h => hb bs (by simp [h])) (fun bs h => hok bs (by simp [h]))
    · intro bs hbs; exact hb bs (by simp [hbs])
    · intro bs hbs; exact hok bs (by simp [hbs])

/-- A rejected `cat` returns `OPUS_INVALID_PACKET` (never reads outside the packet, never aborts). -/
theorem catImpl_err (rp : Rp) (hinv : Inv rp) (bs : Bytes) (hb : BytesOk bs) (sd : Bool)
    (h : (catImpl rp bs sd).2 ≠ .ok ()) : (catImpl rp bs sd).2 = .err .invalidPacket := by
  cases bs with
  | nil => rfl
  | cons b0 t =>
    have hb0 : b0 < 256 := hb b0 (by simp)
    rw [catImpl_eq] at h ⊢
    split
    · rfl
    · rename_i hc
      rw [if_neg hc] at h
      exact catBody_err _ _ _ hb (withToc_fs rp hinv b0 hb0).2.2.1 h

/-! ### pad / unpad on byte strings -/

theorem packetOffset_serialize (p : Packet) : (view false p).packetOffset = (serialize false p).length := rfl

/-- `opus_packet_unpad` on an accepted packet: the canonical packet of its frames. -/
theorem unpad_ok (bs : Bytes) (hb : BytesOk bs) (r : Parsed) (h : parseImpl false bs = .ok r) :
    ∃ p, Valid p ∧ bs = serialize false p ∧ r = view false p ∧
      packetUnpad bs = .ok (serialize false (canonPacket p.toc p.frames)) := by
  obtain ⟨p, hv, hbs, hview, _, _⟩ := packet_of_parse bs hb r h
  exact ⟨p, hv, hbs, hview, by rw [hbs]; exact unpad_serialize p hv⟩

theorem canonPacket_valid (p : Packet) (hv : Valid p) : Valid (canonPacket p.toc p.frames) := by
  have hok : FramesOk p.toc p.frames := ⟨hv.toc_byte, valid_ne p hv, hv.frame_max, valid_dur p hv⟩
  have hmin := minSize_minimal false p hv
  have := outPacket_valid p.toc p.frames hok (serialize false p).length false false hmin
  rw [outPacket_nopad] at this
  exact this

theorem canonPacket_len (p : Packet) (hv : Valid p) :
    0 < (serialize false (canonPacket p.toc p.frames)).length ∧
    (serialize false (canonPacket p.toc p.frames)).length ≤ (serialize false p).length ∧
    ((serialize false (canonPacket p.toc p.frames)).length : Int) = minSize false p.lens := by
  have hmin := minSize_minimal false p hv
  have hl := outPacket_len p.toc p.frames (valid_ne p hv) (serialize false p).length false false hmin
  rw [outPacket_nopad] at hl
  simp only [Bool.false_eq_true, if_false] at hl
  obtain ⟨t, ht⟩ := serialize_cons false (canonPacket p.toc p.frames) []
  simp only [List.append_nil] at ht
  refine ⟨by rw [ht]; simp, ?_, hl⟩
  unfold canonPacket
  simp only [Packet.lens] at hmin
  omega

theorem canonPacket_canon (p : Packet) :
    canonPacket (canonPacket p.toc p.frames).toc (canonPacket p.toc p.frames).frames = canonPacket p.toc p.frames := by
  unfold canonPacket
  rw [outPacket_frames]
  exact canonPacket_congr _ _ _ (outPacket_toc _ _ _ _ _)

theorem canonPacket_nopad (toc : Nat) (frames : List Bytes) : padBytes (canonPacket toc frames) = [] := by
  unfold canonPacket outPacket
  split
  · rfl
  · simp [highPacket, padBytes]

end Opus.RepackProofs
