import OpusProofs.OpusFrameHybridRedMain
import OpusProofs.OpusFrameHybridRedExample2
/-
  C08, slice Hybrid — the hypotheses of `hybrid_main_part_roundtrip` on the concrete 90-byte hybrid frame with redundancy
  of OpusProofs/OpusFrameHybridRedExample2.lean (C17's encoder model started behind the legal form `hybridP0G` of the prefix),
  kernel-evaluated.
-/
namespace Opus.OpusFrameProofs.Example
open Opus Opus.RangeCoder Opus.SilkSyms Opus.SilkSymsEnc Opus.SilkSymsEncProofs Opus.OpusFrameEnc Opus.CeltSymsEnc
open OpusProofs.CeltHdr Opus.OpusFrameProofs

def s0HG : St := { e := encRun (encInit bufHR 90) (hybridP0G 91 (hybridCfg 1 100) hybPacket true 1 1 30), ops := [], ds := dsH }
def allHG : List Op := match Opus.CeltBandsEnc.encFrame cfgH s0HG with | .ok f => f.ops | _ => []

theorem caseHybridRedMain : ∃ fr, Opus.CeltBandsEnc.encFrame cfgH s0HG = .ok fr ∧ fr.ops.length = 31 ∧
    LegalRun (encRun (encInit bufHR (91 - 1)) (packetOps (hybridCfg 1 100) hybPacket ++ redSigOps true true 1 1 30))
      (Op.shrink (91 - 1 - 30) :: fr.ops) ∧
    (encodeAll bufHR (91 - 1) (hybridOps 91 (hybridCfg 1 100) hybPacket true 1 1 30 fr.ops)).nbitsTotal < 536870912 ∧
    (encodeAll bufHR (91 - 1) (hybridOps 91 (hybridCfg 1 100) hybPacket true 1 1 30 fr.ops)).error = 0 ∧
    HybridCeltG bufHR 91 (hybridCfg 1 100) hybPacket true 1 1 30 cfgH s0HG fr := by
  have hok : (match Opus.CeltBandsEnc.encFrame cfgH s0HG with | .ok _ => true | _ => false) = true := by decide +kernel
  cases h : Opus.CeltBandsEnc.encFrame cfgH s0HG with
  | ok fr =>
    have hall : allHG = fr.ops := by unfold allHG; rw [h]
    have f1 : (match Opus.CeltBandsEnc.encFrame cfgH s0HG with
        | .ok f => decide (f.hdr.silence = 0 ∧ f.hdr.size = 60 ∧ f.hdr.pf.on = 0 ∧
            (cfgH.start : Int) ≤ f.hdr.allocInp.intensity ∧ f.hdr.allocInp.dualStereo = 0 ∧ f.ops.length = 31)
        | _ => false) = true := by decide +kernel
    rw [h] at f1
    have f1 := of_decide_eq_true f1
    have hst : (encodeAll bufHR (91 - 1) (hybridOps 91 (hybridCfg 1 100) hybPacket true 1 1 30 fr.ops)).storage = 60 := by
      rw [← hall]; decide +kernel
    refine ⟨fr, rfl, f1.2.2.2.2.2, by rw [← hall]; decide +kernel, by rw [← hall]; decide +kernel, by rw [← hall]; decide +kernel,
      ⟨rfl, rfl, by decide +kernel, h, f1.1, by decide, by decide, by rw [hst, f1.2.1], Or.inl hst, by rw [hst]; decide +kernel,
        fun hne => absurd f1.2.2.1 hne, f1.2.2.2.1, Or.inl f1.2.2.2.2.1⟩⟩
  | err e => rw [h] at hok; cases hok
  | oob => rw [h] at hok; cases hok
  | abort => rw [h] at hok; cases hok

end Opus.OpusFrameProofs.Example
