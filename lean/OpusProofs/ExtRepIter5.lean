import OpusProofs.ExtRepIter4
/-
  C16 helper lemmas, part 16: iteration over everything `serAll` writes returns `expAll`.
-/
set_option linter.unusedVariables false
namespace Opus.ExtProofs
open Opus Opus.Ext

/-- Number of extensions in the queues. -/
def total (rems : List (List Ext)) : Nat := (rems.map List.length).sum

/-- The queues `rems` belong to frames `f, f+1, …, nbF-1` and hold valid extensions of those frames. -/
def QOk (nbF f : Nat) (rems : List (List Ext)) : Prop :=
  f + rems.length = nbF ∧ ∀ (i : Nat) (r : List Ext), rems[i]? = some r → ∀ e ∈ r, ValidExt nbF e ∧ e.frame.toNat = f + i

theorem total_cons (a : List Ext) (l : List (List Ext)) : total (a :: l) = a.length + total l := by simp [total]

theorem total_map_drop (R : Nat) : ∀ (later : List (List Ext)), (∀ r ∈ later, R ≤ r.length) →
    total (later.map (List.drop R)) + R * later.length = total later := by
  intro later
  induction later with
  | nil => intro _; simp [total]
  | cons r rs ih =>
    intro h
    have h1 := h r (List.mem_cons_self ..)
    have := ih (fun x hx => h x (List.mem_cons_of_mem _ hx))
    simp only [List.map_cons, total_cons, List.length_drop, List.length_cons]
    rw [Nat.mul_add]; omega

theorem repBlock_zero (last : Bool) (ll : Option Nat) : ∀ (later : List (List Ext)), repBlock 0 last ll later = [] := by
  intro later
  induction later with
  | nil => rfl
  | cons r rs ih =>
    cases rs with
    | nil => simp [repBlock, repPayloads]
    | cons r' rs' => rw [repBlock_cons2, ih]; simp [repPayloads]

theorem map_drop_zero (later : List (List Ext)) : later.map (List.drop 0) = later := by
  induction later with
  | nil => rfl
  | cons r rs ih => simp [ih]

theorem serAll_cons (n : Nat) (a : List Ext) (later : List (List Ext)) (cur w : Nat) :
    serAll n (a :: later) cur w =
      serW n cur w (a.take (blockR a later)) ++ (if 0 < blockR a later then [if blockLast n a later w then 4 else 5] else []) ++
        repBlock (blockR a later) (blockLast n a later w) (lastLongPos (a.take (blockR a later))) later ++
        serW n (if 0 < blockR a later ∧ blockLast n a later w = true then curAfter cur (a.take (blockR a later)) + 1
                else curAfter cur (a.take (blockR a later)))
          (w + blockR a later + blockR a later * later.length) (a.drop (blockR a later)) ++
        serAll n (later.map (List.drop (blockR a later)))
          (curAfter (if 0 < blockR a later ∧ blockLast n a later w = true then curAfter cur (a.take (blockR a later)) + 1
                else curAfter cur (a.take (blockR a later))) (a.drop (blockR a later)))
          (w + blockR a later + blockR a later * later.length + (a.drop (blockR a later)).length) := by
  rw [serAll]

theorem expAll_cons (a : List Ext) (later : List (List Ext)) :
    expAll (a :: later) = a.take (blockR a later) ++ (later.map (List.take (blockR a later))).flatten ++
      a.drop (blockR a later) ++ expAll (later.map (List.drop (blockR a later))) := by
  rw [expAll]

/-- Nothing left to write. -/
theorem serAll_empty (n : Nat) : ∀ (m : Nat) (rems : List (List Ext)) (cur w : Nat), rems.length = m → total rems = 0 →
    serAll n rems cur w = [] := by
  intro m
  induction m with
  | zero => intro rems cur w h _; have : rems = [] := List.eq_nil_of_length_eq_zero h; subst this; rw [serAll]
  | succ m ih =>
    intro rems cur w h ht
    cases rems with
    | nil => simp at h
    | cons a later =>
      rw [total_cons] at ht
      have ha : a = [] := List.eq_nil_of_length_eq_zero (by omega)
      subst ha
      have hR : blockR [] later = 0 := by unfold blockR; split <;> simp [repCount]
      rw [serAll_cons, hR]
      simp only [List.take_nil, List.drop_nil, serW, List.nil_append, Nat.lt_irrefl, if_false, false_and, repBlock_zero,
        List.append_nil, map_drop_zero]
      exact ih later _ _ (by simpa using h) (by omega)

theorem iterAll_end {d : Array Nat} {nbF cur : Nat} {it : Iter} (hs : St d nbF d.size cur it) :
    iterAll it = .ok ([], .done) := by
  rw [iterAll_eq]
  have : next it = .ok (it, .done) := by
    unfold next
    have a1 : ¬ it.currLen < 0 := by rw [hs.cl]; omega
    have a2 : ¬ 0 < it.repeatFrame := by rw [hs.rf]; omega
    simp only [a1, a2, if_false]
    split
    · rfl
    · rw [mainLoop_eq]
      have : ¬ 0 < it.currLen := by rw [hs.cl]; omega
      simp only [this, if_false]
  rw [this]

theorem serW_pre (n f : Nat) : ∀ (pre : List Ext) (cur w : Nat), (∀ e ∈ pre, e.frame.toNat = f) → w + pre.length < n →
    serW n cur w pre = (if pre = [] then [] else sepBytes f cur) ++ srcBytes pre := by
  intro pre
  induction pre with
  | nil => intro _ _ _ _; simp [serW, srcBytes]
  | cons e l ih =>
    intro cur w hf hw
    have hef := hf e (List.mem_cons_self ..)
    have hflag : decide ((w : Int) = (n : Int) - 1) = false := by
      rw [decide_eq_false_iff_not]; simp only [List.length_cons] at hw; omega
    simp only [serW, hef, hflag, reduceCtorEq, if_false, srcBytes_cons]
    rw [ih f (w + 1) (fun x hx => hf x (List.mem_cons_of_mem _ hx)) (by simp only [List.length_cons] at hw; omega)]
    have : sepBytes f f = [] := by simp [sepBytes]
    cases l with
    | nil => simp
    | cons x xs => simp [this]

theorem TOk_of_closed {T : Int} {z : Option Nat} {m : Nat} : ∀ (xs : List Ext) (k : Nat),
    (∀ j, z = some (k + j) → j < xs.length → (((repPayloads z (k + j + 1) (xs.drop (j + 1))).length + m : Nat) : Int) = T) →
    TOk T z m k xs := by
  intro xs
  induction xs with
  | nil => intro _ _; trivial
  | cons x xs ih =>
    intro k h
    refine ⟨fun hz => by simpa using h 0 (by simpa using hz) (by simp), ih (k + 1) ?_⟩
    intro j hz hj
    have := h (j + 1) (by rw [hz]; congr 1; omega) (by simp; omega)
    simpa [Nat.add_assoc, Nat.add_comm 1 j] using this

theorem MatchL.drop {xs as : List Ext} (h : MatchL xs as) : ∀ k, MatchL (xs.drop k) (as.drop k) := by
  induction h with
  | nil => intro k; simpa using MatchL.nil
  | cons hxa _ ih =>
    intro k
    cases k with
    | zero => simpa using MatchL.cons hxa (by simpa using ih 0)
    | succ k' => simpa using ih k'

end Opus.ExtProofs
