import OpusModel.MsEncode
import OpusProofs.LayoutMs
import OpusProofs.RepackMs
/-
  OpusProofs.MsEncode — the stream loop of `opus_multistream_encode_native` emits
  `serialize true p₁ ++ … ++ serialize false pₙ` (C10 `ms_encode_packet_structure`), on top of the
  repacketizer theorems of C07 (`cat_first`, `outRangeImpl_noext`, `outPacket_*`, `minSize_minimal`;
  imported read-only) and the decoder-side `validateLoop_complete` of `OpusProofs.LayoutMs`.
-/
namespace Opus.MsEncode
open Opus Opus.Framing Opus.FramingSpec Opus.Repack Opus.RepackProofs Opus.LayoutSpec

/-- What the per-stream encoder is assumed to deliver (C02's contract for `opus_encode_native`,
    plus C07's `emitted_padding_ext_free` for the padding it writes): whenever it succeeds, a valid packet
    in standard framing of the common duration, no longer than `curr_max`, whose padding (if any) holds
    no extensions. -/
def EncContract (fs frameSize : Nat) (enc : Nat → Int → Res Bytes) : Prop :=
  ∀ s cm pk, enc s cm = .ok pk →
    ∃ p, Valid p ∧ PadFree p ∧ pk = serialize false p ∧ duration fs p = frameSize ∧ (pk.length : Int) ≤ cm

/-- The oracle itself neither reads out of bounds nor aborts (those outcomes belong to C01/C02). -/
def EncTotal (enc : Nat → Int → Res Bytes) : Prop := ∀ s cm, enc s cm ≠ .oob ∧ enc s cm ≠ .abort

theorem minSize_sd (lens : List Nat) :
    minSize true lens = minSize false lens + sdSize true (lens.getLastD 0) := by
  match lens with
  | [] => simp [minSize, tot3, isVbr, sdSize]
  | [l0] => simp [minSize, sdSize]; omega
  | [l0, l1] => simp only [minSize, sdSize, List.getLastD_cons, List.getLastD_nil]; split <;> simp <;> omega
  | a :: b :: c :: r => simp only [minSize, tot3, sdSize]; split <;> simp <;> omega

theorem mem_flatten_length_le (f : Bytes) : ∀ (fs : List Bytes), f ∈ fs → f.length ≤ fs.flatten.length
  | [], h => by cases h
  | g :: gs, h => by
    simp only [List.flatten_cons, List.length_append]
    rcases List.mem_cons.1 h with e | e
    · subst e; omega
    · have := mem_flatten_length_le f gs e; omega

theorem frame_lt_serialize (p : Packet) (f : Bytes) (hf : f ∈ p.frames) : f.length < (serialize false p).length := by
  have h1 : f.length ≤ p.frames.flatten.length := mem_flatten_length_le f _ hf
  have h2 : 1 ≤ (header false p).length := by simp [header]
  simp only [serialize, List.length_append]; omega

theorem spf_congr (t u fs : Nat) (h : t / 4 = u / 4) : samplesPerFrame t fs = samplesPerFrame u fs := by
  have h8 : t / 8 = u / 8 := by omega
  have h32 : t / 32 = u / 32 := by omega
  have h128 : t / 128 = u / 128 := by omega
  unfold samplesPerFrame
  rw [h8, h32, h128]

theorem msSerialize_snoc : ∀ (pre : List Packet) (last : Packet),
    LayoutSpec.msSerialize (pre ++ [last]) = pre.flatMap (serialize true) ++ serialize false last
  | [], last => by simp [LayoutSpec.msSerialize]
  | [p], last => by simp [LayoutSpec.msSerialize]
  | p :: q :: r, last => by
    have ih := msSerialize_snoc (q :: r) last
    simp only [List.cons_append] at ih ⊢
    rw [LayoutSpec.msSerialize, ih]; simp

/-- One stream: what `cat` + `out_range_impl` make of a packet that meets the contract. -/
theorem stream_step (fs frameSize : Nat) (p : Packet) (hv : Valid p) (hpf : PadFree p) (hd : duration fs p = frameSize)
    (maxlen : Int) (sd pad : Bool) (hfit : minSize sd p.lens ≤ maxlen) :
    cat Rp.empty (serialize false p) = (firstState p, .ok ()) ∧
    ∃ q, outRangeImpl (firstState p) 0 (firstState p).nbFrames maxlen sd pad #[] = .ok (serialize sd q) ∧
      Valid q ∧ duration fs q = frameSize ∧
      ((serialize sd q).length : Int) = (if pad then maxlen else minSize sd p.lens) := by
  have hcat := cat_first false p hv [] (fun _ => rfl)
  simp only [List.append_nil] at hcat
  refine ⟨hcat, ?_⟩
  have hinv := inv_firstState p hv
  have hne := valid_ne p hv
  have hnb : (firstState p).nbFrames = p.frames.length := rfl
  have hpos : 0 < p.frames.length := List.length_pos_iff.mpr hne
  have hsel : selFrames (firstState p) 0 (firstState p).nbFrames = p.frames := selFrames_all _
  have hno := outRangeImpl_noext (firstState p) 0 (firstState p).nbFrames (by rw [hnb]; exact hpos) (Nat.le_refl _)
    (extFree_firstState p hpf) maxlen sd pad
  rw [hsel] at hno
  have hfit' : ¬ minSize sd (p.frames.map List.length) > maxlen := by
    have : p.lens = p.frames.map List.length := rfl
    rw [← this]; omega
  rw [if_neg hfit'] at hno
  have hok : FramesOk p.toc p.frames := ⟨hv.toc_byte, hne, hv.frame_max, valid_dur p hv⟩
  refine ⟨outPacket (firstState p).toc p.frames maxlen sd pad, by exact_mod_cast hno, ?_, ?_, ?_⟩
  · exact outPacket_valid _ _ hok _ _ _ (by have : p.lens = p.frames.map List.length := rfl; rw [← this]; omega)
  · unfold duration
    have ht : (firstState p).toc = p.toc := rfl
    rw [ht, outPacket_frames, spf_congr _ p.toc fs (outPacket_toc _ _ _ _ _)]
    exact hd
  · exact outPacket_len _ _ hne _ _ _ (by have : p.lens = p.frames.map List.length := rfl; rw [← this]; omega)

/-- The budget handed to a stream leaves room for the self-delimiting length the repacketizer adds. -/
theorem fits (n s : Nat) (hs : s < n) (fs100 : Bool) (maxData tot : Int) (p : Packet) (hv : Valid p)
    (hlen : ((serialize false p).length : Int) ≤ currMax n s fs100 maxData tot) :
    minSize (decide (s + 1 ≠ n)) p.lens ≤ maxData - tot := by
  have hmin := minSize_minimal false p hv
  unfold currMax at hlen
  simp only at hlen
  generalize hc3 : min (if fs100 = true then maxData - tot - max 0 (2 * ((n : Int) - s - 1) - 1) - ((n : Int) - s - 1)
      else maxData - tot - max 0 (2 * ((n : Int) - s - 1) - 1)) MS_FRAME_TMP = c3 at hlen
  have hc3le : c3 ≤ maxData - tot := by
    rw [← hc3]
    have : (0 : Int) ≤ (n : Int) - s - 1 := by omega
    split <;> omega
  by_cases hlast : s + 1 = n
  · simp only [hlast, ne_eq, not_true_eq_false, decide_false] at hlen ⊢
    rw [if_neg (by simp)] at hlen
    omega
  · simp only [hlast, ne_eq, not_false_eq_true, decide_true, if_true] at hlen ⊢
    rw [minSize_sd]
    have hsd : sdSize true (p.lens.getLastD 0) ≤ 2 := by unfold sdSize; split <;> simp <;> split <;> omega
    by_cases h253 : c3 > 253
    · rw [if_pos h253] at hlen; omega
    · rw [if_neg h253] at hlen
      have hne := valid_ne p hv
      have hlastf : p.lens.getLastD 0 < 252 := by
        have hl : p.lens ≠ [] := by simp [Packet.lens, hne]
        rw [List.getLastD_eq_getLast? , List.getLast?_eq_some_getLast hl]
        simp only [Option.getD_some]
        have hm : p.lens.getLast hl ∈ p.lens := List.getLast_mem hl
        obtain ⟨f, hf, hfl⟩ := List.mem_map.1 hm
        have := frame_lt_serialize p f hf
        omega
      have : sdSize true (p.lens.getLastD 0) = 1 := by
        unfold sdSize; rw [if_pos rfl, if_neg (by omega)]; rfl
      omega

/-- Loop invariant → result: with `pre` the packets of the streams already written. -/
theorem loop_spec (n : Nat) (fs frameSize : Nat) (fs100 vbr : Bool) (maxData : Int) (enc : Nat → Int → Res Bytes)
    (hc : EncContract fs frameSize enc) (ht : EncTotal enc) :
    ∀ (k s : Nat) (pre : List Packet) (tot : Int), s + k = n → 0 < k → pre.length = s → (∀ p ∈ pre, Valid p) →
      (∀ p ∈ pre, duration fs p = frameSize) → tot = ((pre.flatMap (serialize true)).length : Int) →
      (∀ out, loop n fs100 vbr maxData enc k s tot (pre.flatMap (serialize true)) = .ok out →
        ∃ ps, ps.length = n ∧ (∀ p ∈ ps, Valid p) ∧ (∀ p ∈ ps, duration fs p = frameSize) ∧
          out = LayoutSpec.msSerialize ps ∧ (out.length : Int) ≤ maxData ∧ (vbr = false → (out.length : Int) = maxData)) ∧
      loop n fs100 vbr maxData enc k s tot (pre.flatMap (serialize true)) ≠ .abort ∧
      loop n fs100 vbr maxData enc k s tot (pre.flatMap (serialize true)) ≠ .oob
  | 0, _, _, _, _, hk, _, _, _, _ => absurd hk (by omega)
  | k + 1, s, pre, tot, hsk, _, hlen, hval, hdur, htot => by
    unfold loop
    cases henc : enc s (currMax n s fs100 maxData tot) with
    | err e => exact ⟨fun out h => (by cases h), (by intro h; cases h), (by intro h; cases h)⟩
    | oob => exact absurd henc (ht _ _).1
    | abort => exact absurd henc (ht _ _).2
    | ok pk =>
      obtain ⟨p, hv, hpf, hpk, hd, hle⟩ := hc s _ pk henc
      subst hpk
      have hfit := fits n s (by omega) fs100 maxData tot p hv hle
      obtain ⟨hcat, q, hout, hvq, hdq, hlq⟩ := stream_step fs frameSize p hv hpf hd (maxData - tot)
        (decide (s + 1 ≠ n)) (!vbr && decide (s + 1 = n)) hfit
      simp only [hcat, hout]
      have hvalid' : ∀ x ∈ pre ++ [q], Valid x := by
        intro x hx; rcases List.mem_append.1 hx with h | h
        · exact hval x h
        · simp only [List.mem_singleton] at h; subst h; exact hvq
      have hdur' : ∀ x ∈ pre ++ [q], duration fs x = frameSize := by
        intro x hx; rcases List.mem_append.1 hx with h | h
        · exact hdur x h
        · simp only [List.mem_singleton] at h; subst h; exact hdq
      by_cases hlast : s + 1 = n
      · have hk0 : k = 0 := by omega
        subst hk0
        simp only [hlast, ne_eq, not_true_eq_false, decide_false, decide_true, Bool.and_true] at hlq ⊢
        refine ⟨fun out h => ?_, by simp [loop], by simp [loop]⟩
        simp only [loop, Res.ok.injEq] at h
        subst h
        refine ⟨pre ++ [q], by simp; omega, hvalid', hdur', (msSerialize_snoc pre q).symm, ?_, ?_⟩
        · simp only [List.length_append]; push_cast
          have : minSize false p.lens ≤ maxData - tot := by simpa [hlast] using hfit
          cases vbr <;> simp at hlq <;> omega
        · intro hvbr; subst hvbr
          simp only [List.length_append]; push_cast
          simp at hlq; omega
      · simp only [hlast, ne_eq, not_false_eq_true, decide_true, decide_false, Bool.and_false] at hlq ⊢
        have hflat : pre.flatMap (serialize true) ++ serialize true q = (pre ++ [q]).flatMap (serialize true) := by simp
        rw [hflat]
        exact loop_spec n fs frameSize fs100 vbr maxData enc hc ht k (s + 1) (pre ++ [q]) _ (by omega) (by omega)
          (by simp; omega) hvalid' hdur' (by rw [← hflat]; simp only [List.length_append]; push_cast; omega)

theorem cbrClamp_le (n : Nat) (fs100 vbr : Bool) (fs frameSize : Nat) (bitrate : Option Int) (maxData : Int) :
    cbrClamp n fs100 vbr fs frameSize bitrate maxData ≤ maxData := by
  unfold cbrClamp
  split
  · exact Int.le_refl _
  · split
    · exact Int.le_refl _
    · exact Int.min_le_left _ _

end Opus.MsEncode
