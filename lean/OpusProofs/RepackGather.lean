import OpusProofs.RepackProps
import OpusProofs.ExtCount
/-
  C07 helper lemmas, part 11: the extension-gathering loops of `opus_repacketizer_out_range_impl`
  (repacketizer.c:143-189) in closed form.  For every stored packet that overlaps `[begin,end)` the
  extensions its padding carries (`padRefs`: what `opus_packet_extensions_parse` returns, nothing
  when the padding is not a well-formed extension list — fix 374eedae) are renumbered
  `frame + i - begin` and kept when that lies in `[0, end-begin)` (fix ff8edd7a).
-/
namespace Opus.RepackProofs
open Opus Opus.Framing Opus.FramingSpec Opus.FramingProofs Opus.Repack Opus.Ext Opus.ExtProofs

/-- The extensions a stored padding carries: the parsed list, or nothing if it does not parse. -/
def padRefs (p : Bytes) (nf : Nat) : List ExtRef :=
  match Ext.count p p.length nf with
  | .ok n => (match Ext.parse p p.length n nf with
              | .ok l => l
              | _ => [])
  | _ => []

/-- Every stored padding is a byte string and belongs to a packet of at most 48 frames. -/
def PadsOk (pads : List (Bytes × Nat)) : Prop := ∀ pn ∈ pads, BytesOk pn.1 ∧ pn.2 ≤ 48

theorem pad_facts (p : Bytes) (hb : BytesOk p) (nf : Nat) (hnf : nf ≤ 48) :
    ∃ n, Ext.count p p.length nf = .ok n ∧ (padRefs p nf).length ≤ n ∧
      (∀ e ∈ padRefs p nf, 3 ≤ e.id ∧ e.id ≤ 127 ∧ e.frame < nf ∧ 0 ≤ e.len ∧ (e.off : Int) + e.len ≤ p.length ∧
          (e.id < 32 → e.len ≤ 1)) ∧
      ∀ cap : Int, (n : Int) ≤ cap →
        (Ext.parse p p.length cap nf = .ok (padRefs p nf) ∨
         ((∃ e, Ext.parse p p.length cap nf = .err e) ∧ padRefs p nf = [])) := by
  obtain ⟨it, l, s, hit, hall, hs, hext, hcount, _, _, hparse, _⟩ := scan_agree p hb nf hnf
  have hshort := iterAll_short (iterInit_inv hb (Int.le_refl _) hit).1 hall
  have hpr : padRefs p nf = if s = .done then l else [] := by
    unfold padRefs
    rw [hcount]
    simp only []
    rw [hparse l.length (Int.le_refl _)]
    rcases hs with h | h <;> subst h <;> simp
  refine ⟨l.length, hcount, ?_, ?_, ?_⟩
  · rw [hpr]; split <;> simp
  · rw [hpr]; split
    · intro e he
      obtain ⟨a, b, c, d, f⟩ := hext e he
      exact ⟨a, b, c, d, f, hshort e he⟩
    · intro e he; cases he
  · intro cap hcap
    rw [hparse cap hcap, hpr]
    rcases hs with h | h
    · left; simp [h]
    · right; subst h; exact ⟨⟨.invalidPacket, by simp⟩, by simp⟩

/-- Number of extensions `opus_packet_extensions_count` reports for a stored padding. -/
def padCount (p : Bytes) (nf : Nat) : Nat :=
  match Ext.count p p.length nf with
  | .ok n => n
  | _ => 0

/-- Sum of the counts over the stored packets that overlap `[begin, …)`. -/
def countSum : List (Bytes × Nat) → Nat → Nat → Nat
  | [], _, _ => 0
  | (p, nf) :: rest, i, b => (if i + nf ≤ b then 0 else padCount p nf) + countSum rest (i + 1) b

/-- The renumbered extensions gathered from the stored paddings, in gathering order. -/
def gathered : List (Bytes × Nat) → Nat → Nat → Nat → List Ext
  | [], _, _, _ => []
  | (p, nf) :: rest, i, b, e =>
    (if i + nf ≤ b then [] else renumber p (padRefs p nf) i b e) ++ gathered rest (i + 1) b e

theorem totalExtCount_spec (pads : List (Bytes × Nat)) (hok : PadsOk pads) (i b acc : Nat) :
    totalExtCount pads i b acc = .ok (acc + countSum pads i b) := by
  induction pads generalizing i acc with
  | nil => simp [totalExtCount, countSum]
  | cons pn rest ih =>
    obtain ⟨p, nf⟩ := pn
    obtain ⟨hb, hnf⟩ := hok (p, nf) (by simp)
    have hr : PadsOk rest := fun x hx => hok x (by simp [hx])
    obtain ⟨n, hn, _⟩ := pad_facts p hb nf hnf
    simp only [totalExtCount, countSum]
    split
    · rw [ih hr]; simp
    · rw [hn]; simp only []
      rw [ih hr]
      simp only [padCount, hn]
      congr 1; omega

theorem renumber_length_le (p : Bytes) (refs : List ExtRef) (i b e : Nat) :
    (renumber p refs i b e).length ≤ refs.length := by
  simp only [renumber, List.length_map]
  exact List.length_filter_le _ _

theorem gathered_length_le (pads : List (Bytes × Nat)) (hok : PadsOk pads) (i b e : Nat) :
    (gathered pads i b e).length ≤ countSum pads i b := by
  induction pads generalizing i with
  | nil => simp [gathered, countSum]
  | cons pn rest ih =>
    obtain ⟨p, nf⟩ := pn
    obtain ⟨hb, hnf⟩ := hok (p, nf) (by simp)
    have hr : PadsOk rest := fun x hx => hok x (by simp [hx])
    obtain ⟨n, hn, hle, _⟩ := pad_facts p hb nf hnf
    have := ih hr (i + 1)
    simp only [gathered, countSum, List.length_append]
    split
    · simp; omega
    · have := renumber_length_le p (padRefs p nf) i b e
      simp only [padCount, hn]; omega

theorem collectExts_spec (pads : List (Bytes × Nat)) (hok : PadsOk pads) (i b e total : Nat) (all : Array Ext)
    (hcap : all.size + countSum pads i b ≤ total) :
    collectExts pads i b e total all = .ok (all ++ (gathered pads i b e).toArray) := by
  induction pads generalizing i all with
  | nil => simp [collectExts, gathered]
  | cons pn rest ih =>
    obtain ⟨p, nf⟩ := pn
    obtain ⟨hb, hnf⟩ := hok (p, nf) (by simp)
    have hr : PadsOk rest := fun x hx => hok x (by simp [hx])
    simp only [collectExts, gathered]
    simp only [countSum] at hcap
    split
    · rename_i hskip
      simp only [hskip, if_true] at hcap
      rw [ih hr (i + 1) all (by omega)]
      simp
    · rename_i hskip
      simp only [hskip, if_false] at hcap
      obtain ⟨n, hn, hle, _, hparse⟩ := pad_facts p hb nf hnf
      simp only [padCount, hn] at hcap
      have hren := renumber_length_le p (padRefs p nf) i b e
      have hstep : ∀ x : Array Ext, x = all ++ (renumber p (padRefs p nf) i b e).toArray →
          collectExts rest (i + 1) b e total x = .ok (all ++ ((renumber p (padRefs p nf) i b e) ++ gathered rest (i + 1) b e).toArray) := by
        intro x hx
        rw [ih hr (i + 1) x (by rw [hx]; simp; omega), hx]
        simp [Array.append_assoc]
      rcases hparse ((total : Int) - all.size) (by omega) with h | ⟨⟨er, h⟩, hnil⟩
      · rw [h]; simp only []
        exact hstep _ rfl
      · rw [h]; simp only []
        apply hstep
        rw [hnil]; simp [renumber]

/-- The gathering loops in closed form. -/
theorem gatherExts_spec (pads : List (Bytes × Nat)) (hok : PadsOk pads) (b e : Nat) (exts : Array Ext) :
    gatherExts pads b e exts = .ok (exts ++ (gathered pads 0 b e).toArray) := by
  unfold gatherExts
  rw [totalExtCount_spec pads hok]
  simp only []
  exact collectExts_spec pads hok 0 b e _ exts (Nat.le_refl _)

end Opus.RepackProofs
