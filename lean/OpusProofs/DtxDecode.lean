import OpusModel.Dtx
import OpusModel.EncDecide
import OpusModel.Framing
/-
  OpusProofs.DtxDecode — the bytes of a DTX packet and what the packet parser makes of them
  (decoder side of C20; the decoder skeleton theorems of C01 are applied in OpusProps/C20.lean).
-/
namespace Opus.Dtx
open Opus.Framing

/-- The bytes of an all-DTX packet of `n` coded frames with TOC `t` (code bits clear):
    `n = 1`: the TOC alone (src/opus_encoder.c:2135-2137, 2434-2439); `n ≥ 2`: what
    `opus_repacketizer_out_range_impl` makes of `n` empty frames with equal TOC without padding
    (:1751) — code 1 for two frames, code 3 CBR with the frame count otherwise. -/
def dtxBytes (t n : Nat) : Bytes :=
  if n ≤ 1 then [t] else if n = 2 then [t + 1] else [t + 3, n]

theorem dtxBytes_length (t n : Nat) (h : 1 ≤ n) : (dtxBytes t n).length = dtxPacketLen n := by
  unfold dtxBytes dtxPacketLen
  split
  · have : n ≤ 2 := by omega
    simp [this]
  · split
    · simp [*]
    · have : ¬ n ≤ 2 := by omega
      simp [this]

/-- TOC bytes with the code bits clear. -/
def tocs : List Nat := (List.range 64).map (· * 4)

def parseOk (t n : Nat) : Bool :=
  decide (parseImpl false (dtxBytes t n) =
    .ok ⟨(dtxBytes t n).headD 0, n, List.replicate n 0, (if n ≤ 2 then 1 else 2), 0, (dtxBytes t n).length⟩)

/-- Every DTX packet shape (any TOC, 1…6 frames, at most 120 ms) is accepted by the RFC 6716 parser
    model as `n` empty frames with nothing after them. -/
theorem dtx_parse_all : ∀ t ∈ tocs, ∀ n ∈ [1, 2, 3, 4, 5, 6], n * samplesPerFrame t 48000 ≤ 5760 → parseOk t n = true := by
  decide +kernel

/-- The code bits do not change the frame duration. -/
theorem spf_code : ∀ t ∈ tocs, ∀ k ∈ [0, 1, 3], ∀ fs ∈ [8000, 12000, 16000, 24000, 48000],
    samplesPerFrame (t + k) fs = samplesPerFrame t fs := by
  decide +kernel

end Opus.Dtx
