import OpusModel.Dtx
import OpusModel.EncDecide
import OpusModel.Framing
/-
  OpusProofs.DtxDecode — the bytes of a DTX packet and what the packet parser makes of them
  (decoder side of C20; the decoder skeleton theorems of C01 are applied in OpusProps/C20.lean).
-/
namespace Opus.Dtx
open Opus.Framing

/-- The bytes of an all-DTX packet of `n` coded frames with TOC `t` (code bits clear):
    `n = 1`: the TOC alone (src/opus_encoder.c:2135-2137, 2434-2439); `n ≥ 2`: what
    `opus_repacketizer_out_range_impl` makes of `n` empty frames with equal TOC without padding
    (:1751) — code 1 for two frames, code 3 CBR with the frame count otherwise. -/
def dtxBytes (t n : Nat) : Bytes :=
  if n ≤ 1 then [t] else if n = 2 then [t + 1] else [t + 3, n]

theorem dtxBytes_length (t n : Nat) (h : 1 ≤ n) : (dtxBytes t n).length = dtxPacketLen n := by
  unfold dtxBytes dtxPacketLen
  split
  · have : n ≤ 2 := by omega
    simp [this]
  · split
    · simp [*]
    · have : ¬ n ≤ 2 := by omega
      simp [this]

/-- TOC bytes with the code bits clear. -/
def tocs : List Nat := (List.range 64).map (· * 4)

def parseOk (t n : Nat) : Bool :=
  decide (parseImpl false (dtxBytes t n) =
    .ok ⟨(dtxBytes t n).headD 0, n, List.replicate n 0, (if n ≤ 2 then 1 else 2), 0, (dtxBytes t n).length⟩)

/-- Every DTX packet shape (any TOC, 1…6 frames, at most 120 ms) is accepted by the RFC 6716 parser
    model as `n` empty frames with nothing after them. -/
theorem dtx_parse_all : ∀ t ∈ tocs, ∀ n ∈ [1, 2, 3, 4, 5, 6], n * samplesPerFrame t 48000 ≤ 5760 → parseOk t n = true := by
  decide +kernel

/-- The code bits do not change the frame duration. -/
theorem spf_code : ∀ t ∈ tocs, ∀ k ∈ [0, 1, 3], ∀ fs ∈ [8000, 12000, 16000, 24000, 48000],
    samplesPerFrame (t + k) fs = samplesPerFrame t fs := by
  decide +kernel

/-- (mode, frame rate `Fs/frame_size` of a coded frame, bandwidth) combinations `opus_encode_frame_native`
    codes frames with: SILK-only 10–60 ms NB/MB/WB, hybrid 10/20 ms SWB/FB, CELT-only 2.5–20 ms. -/
def encCombos : List (Int × Int × Int) :=
  ([100, 50, 25, 16].flatMap fun fr => [1101, 1102, 1103].map fun bw => ((1000 : Int), (fr : Int), (bw : Int))) ++
  ([100, 50].flatMap fun fr => [1104, 1105].map fun bw => ((1001 : Int), (fr : Int), (bw : Int))) ++
  ([400, 200, 100, 50].flatMap fun fr => [1101, 1103, 1104, 1105].map fun bw => ((1002 : Int), (fr : Int), (bw : Int)))

/-- Duration of a coded frame in 2.5 ms units from its frame rate (16 = ⌊1000/60⌋). -/
def frameUnits (fr : Int) : Nat :=
  if fr = 400 then 1 else if fr = 200 then 2 else if fr = 100 then 4 else if fr = 50 then 8 else if fr = 25 then 16 else 24

/-- The TOC `gen_toc` writes into a DTX frame has its code bits clear and tells every decoder rate the
    duration the encoder coded. -/
theorem genToc_frame : ∀ x ∈ encCombos, ∀ ch ∈ [(1 : Int), 2],
    EncDecide.genToc x.1 x.2.1 x.2.2 ch ∈ tocs ∧
    ∀ fsd ∈ [8000, 12000, 16000, 24000, 48000],
      samplesPerFrame (EncDecide.genToc x.1 x.2.1 x.2.2 ch) fsd * 400 = fsd * frameUnits x.2.1 := by
  decide +kernel

end Opus.Dtx
