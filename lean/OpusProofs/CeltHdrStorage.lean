import OpusProofs.CeltHdrWorld
/-
  OpusProofs.CeltHdrStorage — `storage` is only changed by `ec_enc_shrink`.
-/
namespace OpusProofs.CeltHdr
open Opus Opus.RangeCoder

def NotShrink : Op → Prop
  | .shrink _ => False
  | .patchInitial _ _ => False
  | _ => True

theorem encNormalize_storage (c : Enc) : (encNormalize c).storage = c.storage := by
  have := encNormalize_pres (fun x => x.storage = c.storage) (fun x v h => by simp [h]) (fun _ _ h => h) (fun _ _ h => h)
    (fun _ _ _ _ h => h) c rfl
  exact this

theorem encode_storage (c : Enc) (fl fh ft : Nat) : (encode c fl fh ft).storage = c.storage := by
  unfold encode; simp only []; rw [encNormalize_storage]; split <;> rfl

theorem encodeBin_storage (c : Enc) (fl fh b : Nat) : (encodeBin c fl fh b).storage = c.storage := by
  unfold encodeBin; simp only []; rw [encNormalize_storage]; split <;> rfl

theorem encBitLogp_storage (c : Enc) (v logp : Nat) : (encBitLogp c v logp).storage = c.storage := by
  unfold encBitLogp; simp only []; rw [encNormalize_storage]; split <;> rfl

theorem encIcdf_storage (c : Enc) (s : Nat) (t : List Nat) (ftb : Nat) : (encIcdf c s t ftb).storage = c.storage := by
  unfold encIcdf; simp only []; rw [encNormalize_storage]; split <;> rfl

theorem encBitsFlush_storage (c : Enc) (w u : Nat) : (encBitsFlush c w u).1.storage = c.storage := by
  fun_induction encBitsFlush c w u with
  | case1 c w u c1 h ih => rw [ih]; simp [c1]
  | case2 c w u c1 h => simp [c1]

theorem encBits_storage (c : Enc) (fl bits : Nat) : (encBits c fl bits).storage = c.storage := by
  unfold encBits
  simp only []
  split
  · exact encBitsFlush_storage c _ _
  · rfl

theorem encUint_storage (c : Enc) (fl ft : Nat) : (encUint c fl ft).storage = c.storage := by
  unfold encUint
  simp only []
  split
  · rw [encBits_storage, encode_storage]
  · exact encode_storage _ _ _ _

theorem encOp_storage (c : Enc) (op : Op) (h : NotShrink op) : (encOp c op).storage = c.storage := by
  cases op with
  | encode fl fh ft => exact encode_storage _ _ _ _
  | encodeBin fl fh b => exact encodeBin_storage _ _ _ _
  | bitLogp v l => exact encBitLogp_storage _ _ _
  | icdf s t f => exact encIcdf_storage _ _ _ _
  | icdf16 s t f => exact encIcdf_storage _ _ _ _
  | uint v ft => exact encUint_storage _ _ _
  | bits v n => exact encBits_storage _ _ _
  | patchInitial v n => exact absurd h (by simp [NotShrink])
  | shrink n => exact absurd h (by simp [NotShrink])

theorem encRun_storage : ∀ (ops : List Op) (c : Enc), (∀ op ∈ ops, NotShrink op) → (encRun c ops).storage = c.storage := by
  intro ops
  induction ops with
  | nil => intro c _; rfl
  | cons op t ih =>
    intro c h
    simp only [encRun]
    rw [ih _ (fun o ho => h o (by simp [ho])), encOp_storage c op (h op (by simp))]

end OpusProofs.CeltHdr
